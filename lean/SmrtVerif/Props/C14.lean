/-
  C14 — a formula evaluated through a layer equals the call with that layer's attributes.

  * `inject_spec`, `inject_missing_raises`, `inject_without_layer`, `through_layer_eq_direct`: the decorator
    `layer_properties` of smrt/core/layer.py (model `Smrt.Inject.inject`), for every declaration, layer and keywords.
  * `declared_not_parameter_raises`, `bind_sound`: Python's argument binding, the reason why a declared name must be a
    parameter of the function.
  * `permittivity_constant`, `permittivity_callable`: `Layer.permittivity(i, frequency)`.
  * `effective_permittivity_keywords`, `passive_iff`: the mixin of smrt/emmodel/common.py.
  * `declarations_sound`, `stored_attributes`: statements over the table `Gen/C14Decls.lean`, regenerated from smrt's
    source on every run and re-proved by kernel evaluation; `table_through_layer` lifts them to the claim of the
    property for every decorated function of smrt/permittivity, every layer and every keyword set.

  Attribute values are an arbitrary type `V`: nothing is assumed about them.
-/
import SmrtVerif.Model.Inject
import SmrtVerif.Proofs.Inject
import SmrtVerif.Gen.C14Decls

namespace Smrt.Props.C14
open Smrt.Inject

variable {V : Type}

/-! ## the decorator -/

/-- If every required name is an attribute of the layer, the undecorated function receives the caller's keywords,
    plus every required name with the layer's value, plus every optional name *that the layer has* with the layer's
    value — the layer's values overriding the caller's — and nothing else changes. -/
theorem inject_spec (d : Decl) (attrs kw : Env V) (h : ∀ r ∈ d.required, has r attrs = true) :
    ∃ out, inject d (.layer attrs) kw = .ok out ∧
      ∀ k, get? k out = if k ∈ d.required ∨ k ∈ d.optional then (get? k attrs).or (get? k kw) else get? k kw := by
  obtain ⟨kw', h1, h2⟩ := injectRequired_ok attrs d.required kw h
  refine ⟨injectOptional attrs d.optional kw', by simp [inject, h1], fun k => ?_⟩
  rw [injectOptional_spec, h2 k]
  by_cases hr : k ∈ d.required
  · obtain ⟨v, hv⟩ := (has_iff k attrs).1 (h k hr)
    by_cases ho : k ∈ d.optional <;> simp [hr, ho, hv]
  · by_cases ho : k ∈ d.optional <;> simp [hr, ho]

/-- A missing required attribute is an error that names a missing attribute (the first one in the order of the
    declaration): the function is not called, no default is substituted. -/
theorem inject_missing_raises (d : Decl) (attrs kw : Env V) (h : ∃ r ∈ d.required, has r attrs = false) :
    ∃ r ∈ d.required, has r attrs = false ∧ inject d (.layer attrs) kw = .error (.missingAttribute r) := by
  obtain ⟨r, hm, hf, he⟩ := injectRequired_missing attrs d.required kw h
  exact ⟨r, hm, hf, by simp [inject, he]⟩

/-- `layer_to_inject=None`: the plain call. -/
theorem inject_without_layer (d : Decl) (kw : Env V) : inject d .none kw = .ok kw := rfl

/-- The call through the layer *is* the direct call whose keywords are those of `inject_spec`: same positional
    arguments, same keywords, same binding — hence the same value, whatever the formula computes. -/
theorem through_layer_eq_direct (d : Decl) (attrs kw out : Env V) (pos : List V)
    (h : inject d (.layer attrs) kw = .ok out) :
    layerCall d pos kw (.layer attrs) = layerCall d pos out .none := by
  unfold layerCall; rw [h]; rfl

/-! ## argument binding -/

/-- A declared name that is not a parameter of the function makes every call through a layer that has the attribute
    fail with a `TypeError` (unexpected keyword). -/
theorem declared_not_parameter_raises (d : Decl) (attrs kw : Env V) (pos : List V) (n : String)
    (hd : n ∈ d.required ∨ n ∈ d.optional) (hp : n ∉ d.params) (hreq : ∀ r ∈ d.required, has r attrs = true)
    (hn : has n attrs = true) :
    ∃ w, layerCall d pos kw (.layer attrs) = .error (.typeError w) := by
  obtain ⟨out, ho, hk⟩ := inject_spec d attrs kw hreq
  obtain ⟨v, hv⟩ := (has_iff n attrs).1 hn
  have hout : n ∈ keys out := by
    rw [← has_of_mem_keys, has_iff]
    exact ⟨v, by rw [hk n]; simp [hd, hv]⟩
  simp only [layerCall, ho, Inject.bind]
  by_cases hl : d.params.length < pos.length
  · exact ⟨"too many positional arguments", by simp [hl]⟩
  · simp only [hl, if_false]
    cases hf : (keys out).find? (fun k => !d.params.contains k) with
    | some k => exact ⟨_, rfl⟩
    | none =>
      have := List.find?_eq_none.1 hf n hout
      simp [hp] at this

/-- When the binding succeeds there is one entry per parameter, in order; a bound value is one of the positional
    arguments or the keyword of that name; a default is used only when no keyword of that name was passed. -/
theorem bind_sound (d : Decl) (pos : List V) (kw : Env V) (b : List (String × Arg V)) (h : Inject.bind d pos kw = .ok b) :
    b.map (·.1) = d.params ∧ ∀ p a, (p, a) ∈ b →
      (match a with | .given v => v ∈ pos ∨ get? p kw = some v | .dflt => get? p kw = none) := by
  unfold Inject.bind at h
  by_cases hl : d.params.length < pos.length
  · simp [hl] at h
  · simp only [hl, if_false] at h
    split at h
    · cases h
    · split at h
      · cases h
      · exact bindFrom_sound _ kw 0 d.params pos b h

/-! ## `Layer.permittivity` -/

/-- A non-callable entry is returned as it is, whatever the layer and the frequency. -/
theorem permittivity_constant (pm : List (Perm V)) (attrs : Env V) (i : Nat) (f v : V)
    (h : pm[i]? = some (.const v)) :
    layerPermittivity (some pm) attrs (i : Int) f = .ok (.value v) := by
  have hi : i < pm.length := by
    rcases Nat.lt_or_ge i pm.length with h' | h'
    · exact h'
    · rw [List.getElem?_eq_none h'] at h; cases h
  have h0 : ¬ ((i : Int) < 0) := by omega
  simp [layerPermittivity, h0, Nat.not_le.2 hi, h]

/-- A decorated entry is called with the frequency as its only positional argument and the layer to inject. -/
theorem permittivity_callable (pm : List (Perm V)) (attrs : Env V) (i : Nat) (f : V) (d : Decl)
    (h : pm[i]? = some (.decorated d)) :
    layerPermittivity (some pm) attrs (i : Int) f =
      (match layerCall d [f] [] (.layer attrs) with | .ok c => .ok (.call c) | .error e => .error e) := by
  have hi : i < pm.length := by
    rcases Nat.lt_or_ge i pm.length with h' | h'
    · exact h'
    · rw [List.getElem?_eq_none h'] at h; cases h
  have h0 : ¬ ((i : Int) < 0) := by omega
  simp [layerPermittivity, h0, Nat.not_le.2 hi, h]
  cases layerCall d [f] [] (LayerArg.layer attrs) <;> rfl

/-! ## the effective-permittivity mixin -/

/-- Of `e0`, `eps`, `frequency` the formula is given exactly those that are parameters of it; then the layer is
    injected as in `inject_spec`. -/
theorem effective_permittivity_keywords (d : Decl) (attrs avail : Env V) :
    ∃ args, effectivePermittivity d attrs avail = layerCall d [] args (.layer attrs) ∧
      ∀ k, get? k args = if d.params.contains k then get? k avail else none :=
  ⟨_, rfl, fun k => get?_filter (fun k => d.params.contains k) avail k⟩

/-- the sign test accepts exactly `Im ε ≥ −1e-10` (stated for any strict order with decidable `<`) -/
theorem passive_iff {α : Type} [LT α] [DecidableLT α] [Neg α] [OfScientific α] (im : α) :
    checkPassive im = .ok () ↔ ¬ im < -(1e-10 : α) := by
  unfold checkPassive; split <;> simp [*]

/-! ## the table -/

/-- For every function decorated with `layer_properties` in smrt/permittivity: the decorator call has no keyword it
    ignores, every declared name is a parameter of the function, and every parameter that is a layer property
    (stored by a layer constructor of make_medium, or named in any decorator call) is declared required or optional. -/
theorem declarations_sound : ∀ d ∈ Gen.C14.decls, d.Sound Gen.C14.layerNames := by decide +kernel

/-- Every layer-aware function a constructor of make_medium installs in `permittivity_model` finds its required
    attributes on the layer that constructor returns (for each ice type). -/
theorem stored_attributes : ∀ c ∈ Gen.C14.constructors, c.Provides Gen.C14.decls := by decide +kernel

/-- The property, for every decorated function of smrt/permittivity, every layer that has the required attributes
    and every keyword set: the call through the layer is the direct call in which every parameter that is a layer
    property carries the layer's value when the layer has one (else the caller's keyword, else the default), and all
    the other keywords are the caller's. -/
theorem table_through_layer : ∀ d ∈ Gen.C14.decls, ∀ (attrs kw : Env V) (pos : List V),
    (∀ r ∈ d.required, has r attrs = true) →
    ∃ out, layerCall d pos kw (.layer attrs) = layerCall d pos out .none ∧
      (∀ p ∈ d.params, p ∈ Gen.C14.layerNames → get? p out = (get? p attrs).or (get? p kw)) ∧
      (∀ k, k ∉ d.declared → get? k out = get? k kw) := by
  intro d hd attrs kw pos hreq
  obtain ⟨out, ho, hk⟩ := inject_spec d attrs kw hreq
  obtain ⟨_, _, _, _, hdecl⟩ := declarations_sound d hd
  refine ⟨out, through_layer_eq_direct d attrs kw out pos ho, fun p hp hl => ?_, fun k hn => ?_⟩
  · have := hdecl p hp hl
    rw [hk p]
    simp only [Decl.declared, List.mem_append] at this
    simp [this]
  · rw [hk k]
    simp only [Decl.declared, List.mem_append] at hn
    simp [hn]

/-! ## non-vacuity -/

-- the table is not empty, has functions with optional attributes, and the constructors install layer-aware functions
example : 30 ≤ Gen.C14.decls.length ∧ 5 ≤ (Gen.C14.decls.filter (fun d => !d.optional.isEmpty)).length ∧
    4 ≤ (Gen.C14.constructors.filter (fun c => !c.models.isEmpty)).length ∧
    "brine_inclusion_shape" ∈ Gen.C14.layerNames ∧ "inclusion_shape" ∈ Gen.C14.layerNames := by decide +kernel

-- a concrete instance of `inject_spec`: the optional attribute that is present overrides the caller's keyword, the
-- absent one leaves the caller's keyword alone
example :
    let d : Decl := ⟨"m", "f", ["temperature"], ["shape", "ratio"], [], ["frequency", "temperature", "shape", "ratio"], 2, false⟩
    inject d (.layer [("temperature", 260), ("shape", 7)]) [("shape", 1), ("ratio", 2)] =
      .ok [("shape", 7), ("ratio", 2), ("temperature", 260)] := by rfl

-- a concrete instance of `inject_missing_raises`
example :
    let d : Decl := ⟨"m", "f", ["temperature", "salinity"], [], [], ["frequency", "temperature", "salinity"], 0, false⟩
    inject d (.layer [("temperature", 260)]) ([] : Env Nat) = .error (.missingAttribute "salinity") := by rfl

-- an unsound declaration (a swallowed keyword) is rejected by `Decl.Sound`
example :
    ¬ (⟨"m", "f", ["t"], [], [("optional", ["shape"])], ["frequency", "t", "shape"], 1, false⟩ : Decl).Sound ["t", "shape"] := by
  decide

end Smrt.Props.C14
