/-
  C12 — interfaces and substrates keep their energy budget and honour their defaults.
  Property theorems over the models of `SmrtVerif/Model/{Fresnel,Interface,CoherentFlat}.lean`, at `α := ℝ`.
  V is row 0, H is row 1 of the matrices the code returns.
-/
import SmrtVerif.Model.Fresnel
import SmrtVerif.Model.Interface
import SmrtVerif.Model.CoherentFlat
import SmrtVerif.Proofs.Fresnel
import SmrtVerif.Gen.C12
import SmrtVerif.Proofs.RealTransc
import SmrtVerif.Proofs.CoherentSlab
import Mathlib.Tactic.FieldSimp
import Mathlib.Tactic.Ring
import Mathlib.Tactic.Linarith
import Mathlib.Tactic.LinearCombination

namespace Smrt.Props.C12
open Smrt Smrt.Fresnel Smrt.Iface

/-! ### the square root the model (and numpy) uses is a principal root; the rest only uses this specification -/

theorem sqrt_is_principal_root (z : Cx ℝ) :
    let w := csqrt z
    w.re * w.re - w.im * w.im = z.re ∧ w.re * w.im + w.im * w.re = z.im ∧ 0 ≤ w.re ∧ (0 ≤ z.im → 0 ≤ w.im) :=
  let h := csqrt_isSqrt z
  ⟨h.re_eq, h.im_eq, h.re_nonneg, h.im_nonneg⟩

/-! ### flat-interface power coefficients (`fresnel_reflection_matrix`, `fresnel_transmission_matrix`) -/

/-- the matrices are the lists of these rows (so the statements below are statements about what the code returns) -/
theorem matrices_rows (e1 e2 : Cx ℝ) (mu : ℝ) :
    reflMat e1 e2 mu 2 = [Rv e1 e2 mu, Rh e1 e2 mu] ∧ reflMat e1 e2 mu 3 = [Rv e1 e2 mu, Rh e1 e2 mu, Ru e1 e2 mu] ∧
    transMat e1 e2 mu 2 = [Tv e1 e2 mu, Th e1 e2 mu] ∧ transMat e1 e2 mu 3 = [Tv e1 e2 mu, Th e1 e2 mu, Tu e1 e2 mu] :=
  ⟨rfl, rfl, rfl, rfl⟩

/-- reflection + transmission = 1 in both polarisations, for every input -/
theorem fresnel_budget (e1 e2 : Cx ℝ) (mu : ℝ) :
    Rv e1 e2 mu + Tv e1 e2 mu = 1 ∧ Rh e1 e2 mu + Th e1 e2 mu = 1 := by
  unfold Rv Tv Rh Th; constructor <;> ring

/-- `0 ≤ R ≤ 1` and `0 ≤ T ≤ 1` for absorbing media (`Im ε₁ ≥ 0`; nothing is needed on `Im ε₂`), any cosine in (0,1];
    the denominators of both coefficients are non-zero, so the totalised division of the model is never used. -/
theorem fresnel_bounds (e1 e2 : Cx ℝ) (mu : ℝ) (hre : 0 < e1.re) (him : 0 ≤ e1.im) (h2 : 0 < e2.abs2)
    (h0 : 0 < mu) (h1 : mu ≤ 1) :
    (0 ≤ Rv e1 e2 mu ∧ Rv e1 e2 mu ≤ 1) ∧ (0 ≤ Rh e1 e2 mu ∧ Rh e1 e2 mu ≤ 1) ∧
    (0 ≤ Tv e1 e2 mu ∧ Tv e1 e2 mu ≤ 1) ∧ (0 ≤ Th e1 e2 mu ∧ Th e1 e2 mu ≤ 1) ∧
    0 < (rhDen e1 e2 mu).abs2 ∧ 0 < (rvDen e1 e2 mu).abs2 ∧ 0 < (csqrt e1).abs2 := by
  have hv := Rv_bounds e1 e2 mu hre him h2 h0 h1
  have hh := Rh_bounds e1 e2 mu hre him h0 h1
  have bv := fresnel_budget e1 e2 mu
  refine ⟨hv, hh, ⟨by linarith [bv.1], by linarith [bv.1]⟩, ⟨by linarith [bv.2], by linarith [bv.2]⟩,
    rhDen_pos e1 e2 mu hre him h0 h1, rvDen_pos e1 e2 mu hre him h2 h0 h1, ?_⟩
  apply abs2_pos_of_re_ne
  intro h
  have := (csqrt_isSqrt e1).re_eq
  rw [h] at this
  nlinarith [mul_self_nonneg (csqrt e1).im]

/-- closed form between loss-free media, `mu2` being the Snell-conjugate cosine `n₁² (1-μ₁²) = n₂² (1-μ₂²)` -/
theorem fresnel_lossless_closed_form (a1 a2 mu1 mu2 : ℝ) (h1 : 0 < a1) (h2 : 0 ≤ a2) (hmu1 : 0 ≤ mu1) (hmu2 : 0 ≤ mu2)
    (snell : a1 * (1 - mu1 * mu1) = a2 * (1 - mu2 * mu2)) :
    Rh (⟨a1, 0⟩ : Cx ℝ) ⟨a2, 0⟩ mu1
      = ((Real.sqrt a1 * mu1 - Real.sqrt a2 * mu2) / (Real.sqrt a1 * mu1 + Real.sqrt a2 * mu2)) ^ 2 ∧
    Rv (⟨a1, 0⟩ : Cx ℝ) ⟨a2, 0⟩ mu1
      = ((a2 * (Real.sqrt a1 * mu1) - a1 * (Real.sqrt a2 * mu2)) / (a2 * (Real.sqrt a1 * mu1) + a1 * (Real.sqrt a2 * mu2))) ^ 2 :=
  ⟨lossless_Rh a1 a2 mu1 mu2 h1.le h2 hmu1 hmu2 snell, lossless_Rv a1 a2 mu1 mu2 h1 h2 hmu1 hmu2 snell⟩

/-- reciprocity for loss-free media: the reflectivity seen from medium 2 at the refracted angle equals the one seen from
    medium 1 at the incidence angle (hence so do the transmissivities `1 - R`) -/
theorem fresnel_reciprocal_lossless (a1 a2 mu1 mu2 : ℝ) (h1 : 0 < a1) (h2 : 0 < a2) (hmu1 : 0 ≤ mu1) (hmu2 : 0 ≤ mu2)
    (snell : a1 * (1 - mu1 * mu1) = a2 * (1 - mu2 * mu2)) :
    Rh (⟨a1, 0⟩ : Cx ℝ) ⟨a2, 0⟩ mu1 = Rh (⟨a2, 0⟩ : Cx ℝ) ⟨a1, 0⟩ mu2 ∧
    Rv (⟨a1, 0⟩ : Cx ℝ) ⟨a2, 0⟩ mu1 = Rv (⟨a2, 0⟩ : Cx ℝ) ⟨a1, 0⟩ mu2 ∧
    Th (⟨a1, 0⟩ : Cx ℝ) ⟨a2, 0⟩ mu1 = Th (⟨a2, 0⟩ : Cx ℝ) ⟨a1, 0⟩ mu2 ∧
    Tv (⟨a1, 0⟩ : Cx ℝ) ⟨a2, 0⟩ mu1 = Tv (⟨a2, 0⟩ : Cx ℝ) ⟨a1, 0⟩ mu2 := by
  have hh : Rh (⟨a1, 0⟩ : Cx ℝ) ⟨a2, 0⟩ mu1 = Rh (⟨a2, 0⟩ : Cx ℝ) ⟨a1, 0⟩ mu2 := by
    rw [lossless_Rh a1 a2 mu1 mu2 h1.le h2.le hmu1 hmu2 snell, lossless_Rh a2 a1 mu2 mu1 h2.le h1.le hmu2 hmu1 snell.symm,
      div_pow, div_pow]
    congr 1 <;> ring
  have hv : Rv (⟨a1, 0⟩ : Cx ℝ) ⟨a2, 0⟩ mu1 = Rv (⟨a2, 0⟩ : Cx ℝ) ⟨a1, 0⟩ mu2 := by
    rw [lossless_Rv a1 a2 mu1 mu2 h1 h2.le hmu1 hmu2 snell, lossless_Rv a2 a1 mu2 mu1 h2 h1.le hmu2 hmu1 snell.symm,
      div_pow, div_pow]
    congr 1 <;> ring
  refine ⟨hh, hv, ?_, ?_⟩
  · have a := (fresnel_budget (⟨a1, 0⟩ : Cx ℝ) ⟨a2, 0⟩ mu1).2
    have b := (fresnel_budget (⟨a2, 0⟩ : Cx ℝ) ⟨a1, 0⟩ mu2).2
    linarith
  · have a := (fresnel_budget (⟨a1, 0⟩ : Cx ℝ) ⟨a2, 0⟩ mu1).1
    have b := (fresnel_budget (⟨a2, 0⟩ : Cx ℝ) ⟨a1, 0⟩ mu2).1
    linarith

/-- total reflection: a loss-free lower medium whose permittivity does not exceed the squared tangential wavenumber
    (at and beyond the critical angle) reflects everything; the upper medium may absorb -/
theorem total_reflection (e1 : Cx ℝ) (a2 mu : ℝ) (hre : 0 < e1.re) (him : 0 ≤ e1.im) (h2 : 0 < a2)
    (h0 : 0 < mu) (h1 : mu ≤ 1) (hcrit : a2 ≤ kiz2 e1 mu) :
    Rv e1 ⟨a2, 0⟩ mu = 1 ∧ Rh e1 ⟨a2, 0⟩ mu = 1 ∧ Tv e1 ⟨a2, 0⟩ mu = 0 ∧ Th e1 ⟨a2, 0⟩ mu = 0 := by
  have hk := kyt_re_zero_of_real_le e1 a2 mu hcrit
  have h2' : 0 < (⟨a2, 0⟩ : Cx ℝ).abs2 := by unfold Cx.abs2; nlinarith
  have hv := Rv_one_of_kyt_re_zero e1 ⟨a2, 0⟩ mu hre him h2' rfl h0 h1 hk
  have hh := Rh_one_of_kyt_re_zero e1 ⟨a2, 0⟩ mu hre him h0 h1 hk
  have b := fresnel_budget e1 ⟨a2, 0⟩ mu
  exact ⟨hv, hh, by linarith [b.1], by linarith [b.2]⟩

/-- the same in terms of the two refractive indices: `n₂² ≤ n₁² (1 - μ²)`, i.e. `sin θ ≥ n₂ / n₁` -/
theorem total_reflection_lossless (a1 a2 mu : ℝ) (h1 : 0 < a1) (h2 : 0 < a2) (h0 : 0 < mu) (hmu : mu ≤ 1)
    (hcrit : a2 ≤ a1 * (1 - mu * mu)) :
    Rv (⟨a1, 0⟩ : Cx ℝ) ⟨a2, 0⟩ mu = 1 ∧ Rh (⟨a1, 0⟩ : Cx ℝ) ⟨a2, 0⟩ mu = 1 := by
  have := total_reflection ⟨a1, 0⟩ a2 mu h1 le_rfl h2 h0 hmu (by rw [kiz2_real a1 mu h1.le]; exact hcrit)
  exact ⟨this.1, this.2.1⟩

/-- Brewster angle `tan θ = n₂ / n₁`, i.e. `μ = sqrt (ε₁ / (ε₁ + ε₂))`: no V reflection -/
theorem brewster (a1 a2 : ℝ) (h1 : 0 < a1) (h2 : 0 < a2) :
    Rv (⟨a1, 0⟩ : Cx ℝ) ⟨a2, 0⟩ (Real.sqrt (a1 / (a1 + a2))) = 0 := by
  have hs : 0 < a1 + a2 := by linarith
  have hr : 0 < Real.sqrt (a1 + a2) := Real.sqrt_pos.mpr hs
  have hrr : Real.sqrt (a1 + a2) * Real.sqrt (a1 + a2) = a1 + a2 := Real.mul_self_sqrt hs.le
  have m1 : Real.sqrt (a1 / (a1 + a2)) * Real.sqrt (a1 / (a1 + a2)) = a1 / (a1 + a2) := Real.mul_self_sqrt (by positivity)
  have m2 : Real.sqrt (a2 / (a1 + a2)) * Real.sqrt (a2 / (a1 + a2)) = a2 / (a1 + a2) := Real.mul_self_sqrt (by positivity)
  have snell : a1 * (1 - Real.sqrt (a1 / (a1 + a2)) * Real.sqrt (a1 / (a1 + a2)))
      = a2 * (1 - Real.sqrt (a2 / (a1 + a2)) * Real.sqrt (a2 / (a1 + a2))) := by
    rw [m1, m2]; field_simp; ring
  rw [lossless_Rv a1 a2 _ (Real.sqrt (a2 / (a1 + a2))) h1 h2.le (Real.sqrt_nonneg _) (Real.sqrt_nonneg _) snell]
  have e1 : Real.sqrt a1 * Real.sqrt (a1 / (a1 + a2)) = a1 / Real.sqrt (a1 + a2) := by
    rw [Real.sqrt_div h1.le, ← mul_div_assoc, Real.mul_self_sqrt h1.le]
  have e2 : Real.sqrt a2 * Real.sqrt (a2 / (a1 + a2)) = a2 / Real.sqrt (a1 + a2) := by
    rw [Real.sqrt_div h2.le, ← mul_div_assoc, Real.mul_self_sqrt h2.le]
  rw [e1, e2]
  have : a2 * (a1 / Real.sqrt (a1 + a2)) - a1 * (a2 / Real.sqrt (a1 + a2)) = 0 := by ring
  rw [this]; simp

/-- normal incidence between loss-free media: `R = ((n₁ - n₂) / (n₁ + n₂))²` in both polarisations -/
theorem normal_incidence (a1 a2 : ℝ) (h1 : 0 < a1) (h2 : 0 < a2) :
    Rh (⟨a1, 0⟩ : Cx ℝ) ⟨a2, 0⟩ 1 = ((Real.sqrt a1 - Real.sqrt a2) / (Real.sqrt a1 + Real.sqrt a2)) ^ 2 ∧
    Rv (⟨a1, 0⟩ : Cx ℝ) ⟨a2, 0⟩ 1 = ((Real.sqrt a1 - Real.sqrt a2) / (Real.sqrt a1 + Real.sqrt a2)) ^ 2 := by
  have snell : a1 * (1 - (1:ℝ) * 1) = a2 * (1 - (1:ℝ) * 1) := by ring
  constructor
  · rw [lossless_Rh a1 a2 1 1 h1.le h2.le zero_le_one zero_le_one snell]; simp
  · rw [lossless_Rv a1 a2 1 1 h1 h2.le zero_le_one zero_le_one snell]
    have x := Real.sqrt_pos.mpr h1
    have y := Real.sqrt_pos.mpr h2
    have xx := Real.mul_self_sqrt h1.le
    have yy := Real.mul_self_sqrt h2.le
    set p := Real.sqrt a1
    set q := Real.sqrt a2
    rw [← xx, ← yy]
    have : (q * q * (p * 1) - p * p * (q * 1)) / (q * q * (p * 1) + p * p * (q * 1)) = -((p - q) / (p + q)) := by
      field_simp; ring
    rw [this]; ring

/-- identical media: nothing is reflected, everything is transmitted (any complex permittivity, any cosine) -/
theorem identical_media_transparent (e : Cx ℝ) (mu : ℝ) (hre : 0 < e.re) :
    Rv e e mu = 0 ∧ Rh e e mu = 0 ∧ Tv e e mu = 1 ∧ Th e e mu = 1 := by
  have hv := Rv_self e mu hre
  have hh := Rh_self e mu
  have b := fresnel_budget e e mu
  exact ⟨hv, hh, by linarith [b.1], by linarith [b.2]⟩

/-! ### every interface / substrate class: specular reflectivity and emissivity / transmissivity -/

/-- `interface/flat.py` (and `substrate/flat.py` through the adapter): exactly the Fresnel matrices -/
theorem flat_is_fresnel (e1 e2 : Cx ℝ) (mu : ℝ) (npol : Nat) :
    flatSpec e1 e2 mu npol = reflMat e1 e2 mu npol ∧ flatTrans e1 e2 mu npol = transMat e1 e2 mu npol := ⟨rfl, rfl⟩

/-- `transparent`: reflectivity 0, transmissivity 1 in every row -/
theorem transparent_budget (npol i : Nat) (hi : i < npol) :
    (transparentSpec npol : List ℝ)[i]? = some 0 ∧ (transparentTrans npol : List ℝ)[i]? = some 1 := by
  simp [transparentSpec, transparentTrans, zeros, ones, hi]

/-- `geometrical_optics`, `radar_calibration_sphere` (and the specular part of `geometrical_optics_backscatter`):
    no specular reflection and no coherent transmission, so the budget `0 + 0 ≤ 1` holds -/
theorem null_budget (npol i : Nat) (hi : i < npol) :
    (nullSpec npol : List ℝ)[i]? = some 0 ∧ (nullTrans npol : List ℝ)[i]? = some 0 := by
  simp [nullSpec, nullTrans, zeros, hi]

/-- IEM (Fung 92, and the Brogioni variant which inherits both methods): rows are the Fresnel rows times a factor in
    (0,1]; V and H reflectivity and transmissivity lie in [0,1] and their sum is at most 1 -/
theorem iem_budget_le_one (f : ℝ) (e1 e2 : Cx ℝ) (rms mu : ℝ) (h : Admissible e1 e2 mu) :
    let sV := Rv e1 e2 mu * iemSpecFactor f e1 rms mu
    let sH := Rh e1 e2 mu * iemSpecFactor f e1 rms mu
    let tV := Tv e1 e2 mu * iemTransFactor f e1 e2 rms mu
    let tH := Th e1 e2 mu * iemTransFactor f e1 e2 rms mu
    iemSpec f e1 e2 rms mu 2 = [sV, sH] ∧ iemTrans f e1 e2 rms mu 2 = [tV, tH] ∧
    (0 ≤ sV ∧ sV ≤ 1) ∧ (0 ≤ sH ∧ sH ≤ 1) ∧ (0 ≤ tV ∧ tV ≤ 1) ∧ (0 ≤ tH ∧ tH ≤ 1) ∧ sV + tV ≤ 1 ∧ sH + tH ≤ 1 := by
  intro sV sH tV tH
  have b := fresnel_bounds e1 e2 mu h.re1 h.im1 h.ne2 h.mu_pos h.mu_le
  obtain ⟨⟨v0, v1⟩, ⟨h0, h1⟩, ⟨tv0, tv1⟩, ⟨th0, th1⟩, _⟩ := b
  have bud := fresnel_budget e1 e2 mu
  obtain ⟨f0, f1⟩ := iemSpecFactor_mem f e1 rms mu
  obtain ⟨g0, g1⟩ := iemTransFactor_mem f e1 e2 rms mu
  refine ⟨rfl, rfl, ⟨mul_nonneg v0 f0.le, ?_⟩, ⟨mul_nonneg h0 f0.le, ?_⟩, ⟨mul_nonneg tv0 g0.le, ?_⟩,
    ⟨mul_nonneg th0 g0.le, ?_⟩, ?_, ?_⟩
  · show Rv e1 e2 mu * _ ≤ 1; nlinarith
  · show Rh e1 e2 mu * _ ≤ 1; nlinarith
  · show Tv e1 e2 mu * _ ≤ 1; nlinarith
  · show Th e1 e2 mu * _ ≤ 1; nlinarith
  · show Rv e1 e2 mu * _ + Tv e1 e2 mu * _ ≤ 1
    nlinarith [bud.1, mul_nonneg v0 (sub_nonneg.mpr f1), mul_nonneg tv0 (sub_nonneg.mpr g1)]
  · show Rh e1 e2 mu * _ + Th e1 e2 mu * _ ≤ 1
    nlinarith [bud.2, mul_nonneg h0 (sub_nonneg.mpr f1), mul_nonneg th0 (sub_nonneg.mpr g1)]

/-- IEM at zero roughness returns the flat matrices exactly (all rows, npol 2 and 3) -/
theorem iem_smooth_limit (f : ℝ) (e1 e2 : Cx ℝ) (mu : ℝ) (npol : Nat) :
    iemSpec f e1 e2 0 mu npol = reflMat e1 e2 mu npol ∧ iemTrans f e1 e2 0 mu npol = transMat e1 e2 mu npol := by
  have h1 : iemSpecFactor f e1 0 mu = 1 := by
    unfold iemSpecFactor; simp [Transc.exp]
  have h2 : iemTransFactor f e1 e2 0 mu = 1 := by
    unfold iemTransFactor; simp [Transc.exp]
  unfold iemSpec iemTrans
  rw [h1, h2]; simp

/-- Choudhury 79: inside its validity guard the class returns `r·F` and `1 - r·F` with the Fresnel reflectivity `r` and
    `F ∈ (0,1]`: both in [0,1], sum exactly 1 -/
theorem choudhury_budget (f : ℝ) (e1 e2 : Cx ℝ) (rms mu : ℝ) (npol : Nat) (h : Admissible e1 e2 mu)
    (hk : ¬ (0.1 : ℝ) < ksigma f e1 rms) :
    choudhurySpec f e1 e2 rms mu npol
      = .ok ([choudhurySpecV f e1 e2 rms mu, choudhurySpecH f e1 e2 rms mu] ++ third npol (Ru e1 e2 mu)) ∧
    choudhuryEmis f e1 e2 rms mu npol
      = .ok ([choudhuryEmisV f e1 e2 rms mu, choudhuryEmisH f e1 e2 rms mu] ++ third npol (Tu e1 e2 mu)) ∧
    choudhurySpecV f e1 e2 rms mu + choudhuryEmisV f e1 e2 rms mu = 1 ∧
    choudhurySpecH f e1 e2 rms mu + choudhuryEmisH f e1 e2 rms mu = 1 ∧
    (0 ≤ choudhurySpecV f e1 e2 rms mu ∧ choudhurySpecV f e1 e2 rms mu ≤ 1) ∧
    (0 ≤ choudhurySpecH f e1 e2 rms mu ∧ choudhurySpecH f e1 e2 rms mu ≤ 1) ∧
    (0 ≤ choudhuryEmisV f e1 e2 rms mu ∧ choudhuryEmisV f e1 e2 rms mu ≤ 1) ∧
    (0 ≤ choudhuryEmisH f e1 e2 rms mu ∧ choudhuryEmisH f e1 e2 rms mu ≤ 1) := by
  obtain ⟨⟨v0, v1⟩, ⟨h0, h1⟩⟩ := h.bounds
  obtain ⟨f0, f1⟩ := choudhuryFactor_mem f e1 rms mu
  have sv : choudhurySpecV f e1 e2 rms mu + choudhuryEmisV f e1 e2 rms mu = 1 := by
    unfold choudhurySpecV choudhuryEmisV Tv Rv; ring
  have sh : choudhurySpecH f e1 e2 rms mu + choudhuryEmisH f e1 e2 rms mu = 1 := by
    unfold choudhurySpecH choudhuryEmisH Th Rh; ring
  have bv : 0 ≤ choudhurySpecV f e1 e2 rms mu ∧ choudhurySpecV f e1 e2 rms mu ≤ 1 := by
    unfold choudhurySpecV; exact ⟨mul_nonneg v0 f0.le, by nlinarith⟩
  have bh : 0 ≤ choudhurySpecH f e1 e2 rms mu ∧ choudhurySpecH f e1 e2 rms mu ≤ 1 := by
    unfold choudhurySpecH; exact ⟨mul_nonneg h0 f0.le, by nlinarith⟩
  refine ⟨by simp [choudhurySpec, hk], by simp [choudhuryEmis, hk], sv, sh, bv, bh,
    ⟨by linarith [bv.2], by linarith [bv.1]⟩, ⟨by linarith [bh.2], by linarith [bh.1]⟩⟩

/-- Choudhury at zero roughness: the guard passes and the flat matrices come back (all rows) -/
theorem choudhury_smooth_limit (f : ℝ) (e1 e2 : Cx ℝ) (mu : ℝ) (npol : Nat) :
    choudhurySpec f e1 e2 0 mu npol = .ok (reflMat e1 e2 mu npol) ∧
    choudhuryEmis f e1 e2 0 mu npol = .ok (transMat e1 e2 mu npol) := by
  have hk : ksigma f e1 0 = 0 := by unfold ksigma; simp
  have hF : choudhuryFactor f e1 0 mu = 1 := by unfold choudhuryFactor; rw [hk]; simp [Transc.exp]
  have hg : ¬ (0.1 : ℝ) < 0 := by norm_num
  constructor
  · simp only [choudhurySpec, hk, hg, if_false, choudhurySpecV, choudhurySpecH, hF, mul_one, reflMat, third]
  · simp only [choudhuryEmis, hk, hg, if_false, choudhuryEmisV, choudhuryEmisH, hF, mul_one, transMat, third, sub_sub_cancel]

/-- Wegmüller & Mätzler 99: `r_h' = r_h·F`, `r_v' = r_h'·g(μ)`, `F ∈ (0,1]`, `g ∈ [0,1]` on both sides of 60°;
    emissivity `1 - r'`: everything in [0,1], sums exactly 1, for every roughness -/
theorem wegmuller_budget (f : ℝ) (e1 e2 : Cx ℝ) (rms mu : ℝ) (npol : Nat) (h : Admissible e1 e2 mu) :
    wegmullerSpec f e1 e2 rms mu npol
      = [wegmullerSpecV f e1 e2 rms mu, wegmullerSpecH f e1 e2 rms mu] ++ third npol (Ru e1 e2 mu) ∧
    wegmullerEmis f e1 e2 rms mu npol
      = [wegmullerEmisV f e1 e2 rms mu, wegmullerEmisH f e1 e2 rms mu] ++ third npol (Tu e1 e2 mu) ∧
    wegmullerSpecV f e1 e2 rms mu + wegmullerEmisV f e1 e2 rms mu = 1 ∧
    wegmullerSpecH f e1 e2 rms mu + wegmullerEmisH f e1 e2 rms mu = 1 ∧
    (0 ≤ wegmullerSpecV f e1 e2 rms mu ∧ wegmullerSpecV f e1 e2 rms mu ≤ 1) ∧
    (0 ≤ wegmullerSpecH f e1 e2 rms mu ∧ wegmullerSpecH f e1 e2 rms mu ≤ 1) ∧
    (0 ≤ wegmullerEmisV f e1 e2 rms mu ∧ wegmullerEmisV f e1 e2 rms mu ≤ 1) ∧
    (0 ≤ wegmullerEmisH f e1 e2 rms mu ∧ wegmullerEmisH f e1 e2 rms mu ≤ 1) := by
  obtain ⟨_, ⟨h0, h1⟩⟩ := h.bounds
  obtain ⟨f0, f1⟩ := wegmullerFactorH_mem f e1 rms mu
  obtain ⟨g0, g1⟩ := wegmullerRatioV_mem mu h.mu_pos h.mu_le
  have sh : wegmullerSpecH f e1 e2 rms mu + wegmullerEmisH f e1 e2 rms mu = 1 := by
    unfold wegmullerSpecH wegmullerEmisH wegmullerRoughH Th Rh; ring
  have sv : wegmullerSpecV f e1 e2 rms mu + wegmullerEmisV f e1 e2 rms mu = 1 := by
    unfold wegmullerSpecV wegmullerEmisV wegmullerSpecH wegmullerRoughH Th Rh; ring
  have bh : 0 ≤ wegmullerSpecH f e1 e2 rms mu ∧ wegmullerSpecH f e1 e2 rms mu ≤ 1 := by
    unfold wegmullerSpecH; exact ⟨mul_nonneg h0 f0.le, by nlinarith⟩
  have bv : 0 ≤ wegmullerSpecV f e1 e2 rms mu ∧ wegmullerSpecV f e1 e2 rms mu ≤ 1 := by
    unfold wegmullerSpecV; exact ⟨mul_nonneg bh.1 g0, by nlinarith [bh.1, bh.2]⟩
  exact ⟨rfl, rfl, sv, sh, bv, bh, ⟨by linarith [bv.2], by linarith [bv.1]⟩, ⟨by linarith [bh.2], by linarith [bh.1]⟩⟩

/-- QNH (Wang 83) for `H ≥ 0`, `0 ≤ Q ≤ 1`, any exponents: reflectivities `((1-Q) r_p + Q r_q)·exp(-H μ^N_p)` and
    emissivities `1 - …` lie in [0,1] and sum exactly to 1 -/
theorem qnh_budget (e1 e2 : Cx ℝ) (H Q N : ℝ) (Nv Nh : Option ℝ) (mu : ℝ) (npol : Nat) (h : Admissible e1 e2 mu)
    (hH : 0 ≤ H) (hQ0 : 0 ≤ Q) (hQ1 : Q ≤ 1) :
    let nv := Nv.getD N
    let nh := Nh.getD N
    qnhSpec e1 e2 H Q N Nv Nh mu npol = [qnhSpecV e1 e2 H Q nv mu, qnhSpecH e1 e2 H Q nh mu] ++ third npol (Ru e1 e2 mu) ∧
    qnhEmis e1 e2 H Q N Nv Nh mu npol = [qnhEmisV e1 e2 H Q nv mu, qnhEmisH e1 e2 H Q nh mu] ++ third npol (Tu e1 e2 mu) ∧
    qnhSpecV e1 e2 H Q nv mu + qnhEmisV e1 e2 H Q nv mu = 1 ∧ qnhSpecH e1 e2 H Q nh mu + qnhEmisH e1 e2 H Q nh mu = 1 ∧
    (0 ≤ qnhSpecV e1 e2 H Q nv mu ∧ qnhSpecV e1 e2 H Q nv mu ≤ 1) ∧ (0 ≤ qnhSpecH e1 e2 H Q nh mu ∧ qnhSpecH e1 e2 H Q nh mu ≤ 1) ∧
    (0 ≤ qnhEmisV e1 e2 H Q nv mu ∧ qnhEmisV e1 e2 H Q nv mu ≤ 1) ∧ (0 ≤ qnhEmisH e1 e2 H Q nh mu ∧ qnhEmisH e1 e2 H Q nh mu ≤ 1) := by
  intro nv nh
  obtain ⟨⟨v0, v1⟩, ⟨h0, h1⟩⟩ := h.bounds
  obtain ⟨cv0, cv1⟩ := qnhCoef_mem H nv mu hH
  obtain ⟨ch0, ch1⟩ := qnhCoef_mem H nh mu hH
  have sv : qnhSpecV e1 e2 H Q nv mu + qnhEmisV e1 e2 H Q nv mu = 1 := by
    unfold qnhSpecV qnhEmisV qnhMix Tv Th Rv Rh; ring
  have sh : qnhSpecH e1 e2 H Q nh mu + qnhEmisH e1 e2 H Q nh mu = 1 := by
    unfold qnhSpecH qnhEmisH qnhMix Tv Th Rv Rh; ring
  have bv := qnhMix_mem Q _ _ _ hQ0 hQ1 v0 v1 h0 h1 cv0.le cv1
  have bh := qnhMix_mem Q _ _ _ hQ0 hQ1 h0 h1 v0 v1 ch0.le ch1
  have bv' : 0 ≤ qnhSpecV e1 e2 H Q nv mu ∧ qnhSpecV e1 e2 H Q nv mu ≤ 1 := bv
  have bh' : 0 ≤ qnhSpecH e1 e2 H Q nh mu ∧ qnhSpecH e1 e2 H Q nh mu ≤ 1 := bh
  exact ⟨rfl, rfl, sv, sh, bv', bh', ⟨by linarith [bv'.2], by linarith [bv'.1]⟩, ⟨by linarith [bh'.2], by linarith [bh'.1]⟩⟩

/-- QNH honours its defaults: without `Nv` / `Nh` the exponent `N` is used for both polarisations, and with the
    documented defaults `Q = N = 0` the result is the flat reflectivity attenuated by `exp(-H)` (for `μ > 0`) -/
theorem qnh_defaults (e1 e2 : Cx ℝ) (H Q N mu : ℝ) (npol : Nat) (hmu : 0 < mu) :
    qnhSpec e1 e2 H Q N none none mu npol = qnhSpec e1 e2 H Q N (some N) (some N) mu npol ∧
    qnhEmis e1 e2 H Q N none none mu npol = qnhEmis e1 e2 H Q N (some N) (some N) mu npol ∧
    qnhSpec e1 e2 H 0 0 none none mu npol
      = [Rv e1 e2 mu * Real.exp (-H), Rh e1 e2 mu * Real.exp (-H)] ++ third npol (Ru e1 e2 mu) := by
  refine ⟨rfl, rfl, ?_⟩
  have hp : powr mu (0:ℝ) = 1 := by unfold powr; simp [hmu, Transc.exp]
  simp [qnhSpec, qnhSpecV, qnhSpecH, qnhMix, qnhCoef, hp, Transc.exp]

/-- QNH with `Q = 0` at zero roughness `H = 0` returns the flat matrices (all rows) -/
theorem qnh_smooth_limit (e1 e2 : Cx ℝ) (N : ℝ) (Nv Nh : Option ℝ) (mu : ℝ) (npol : Nat) :
    qnhSpec e1 e2 0 0 N Nv Nh mu npol = reflMat e1 e2 mu npol ∧ qnhEmis e1 e2 0 0 N Nv Nh mu npol = transMat e1 e2 mu npol := by
  have hc : ∀ n : ℝ, qnhCoef 0 n mu = 1 := by intro n; unfold qnhCoef; simp [Transc.exp]
  constructor
  · simp [qnhSpec, qnhSpecV, qnhSpecH, qnhMix, hc, reflMat, third]
  · simp [qnhEmis, qnhEmisV, qnhEmisH, qnhMix, hc, transMat, third]

/-- reflectors with prescribed reflectivities in [0,1] (`None` means 1): emissivity `1 - r` in [0,1], sum exactly 1;
    `reflector` refuses npol > 2, `reflector_backscatter` pads with zeros -/
theorem reflector_budget (rV rH : Option ℝ) (npol : Nat)
    (hV : ∀ r, rV = some r → 0 ≤ r ∧ r ≤ 1) (hH : ∀ r, rH = some r → 0 ≤ r ∧ r ≤ 1) :
    let v := reflDefault rV
    let h := reflDefault rH
    (npol ≤ 2 → reflectorSpec v h npol = .ok [v, h] ∧ reflectorEmis v h npol = .ok [1 - v, 1 - h]) ∧
    (2 < npol → reflectorSpec v h npol = .error "NotImplementedError" ∧ reflectorEmis v h npol = .error "NotImplementedError") ∧
    reflectorBSpec v h npol = [v, h] ++ zeros (npol - 2) ∧ reflectorBEmis v h npol = [1 - v, 1 - h] ++ zeros (npol - 2) ∧
    (0 ≤ v ∧ v ≤ 1) ∧ (0 ≤ h ∧ h ≤ 1) ∧ (0 ≤ 1 - v ∧ 1 - v ≤ 1) ∧ (0 ≤ 1 - h ∧ 1 - h ≤ 1) ∧
    v + (1 - v) = 1 ∧ h + (1 - h) = 1 := by
  intro v h
  have bv : 0 ≤ v ∧ v ≤ 1 := by
    cases hr : rV with
    | none => simp [v, reflDefault, hr]
    | some r => simpa [v, reflDefault, hr] using hV r hr
  have bh : 0 ≤ h ∧ h ≤ 1 := by
    cases hr : rH with
    | none => simp [h, reflDefault, hr]
    | some r => simpa [h, reflDefault, hr] using hH r hr
  refine ⟨?_, ?_, rfl, rfl, bv, bh, ⟨by linarith [bv.2], by linarith [bv.1]⟩, ⟨by linarith [bh.2], by linarith [bh.1]⟩,
    by ring, by ring⟩
  · intro hn
    have : ¬ npol > 2 := by omega
    simp [reflectorSpec, reflectorEmis, this]
  · intro hn
    have : npol > 2 := hn
    simp [reflectorSpec, reflectorEmis, this]

/-- a substrate derived from an interface returns that interface's coefficients at the substrate's permittivity, and
    refuses with `SMRTError` when it has no permittivity model -/
theorem adapter {β : Type} (method : Cx ℝ → β) (e2 : Cx ℝ) :
    substrateFromInterface method (some e2) = .ok (method e2) ∧
    substrateFromInterface method none = .error "SMRTError" := ⟨rfl, rfl⟩

/-! ### defaults: statements over the table regenerated from the package directories (`SmrtVerif/Gen/C12.lean`) -/

/-- every class shipped in `smrt/interface` and `smrt/substrate` is covered by a definition of the model -/
theorem every_class_modelled :
    ∀ c ∈ Gen.C12.classes, (c.1, c.2.1) ∈ registry.map (fun r => (r.1, r.2.1)) := by decide

/-- no optional argument whose default is NaN or None reaches the arithmetic: each one has a fallback in the model
    (for `soil_qnh` the fallback `Nv, Nh := N` is the documented behaviour the shipped code fails to implement) -/
theorem defaults_total :
    ∀ c ∈ Gen.C12.classes, ∀ o ∈ c.2.2.2.2, (o.2 = "nan" ∨ o.2 = "none") → (c.2.1, o.1) ∈ defaultFallbacks := by decide

/-- every default is of a known kind and every required argument is one the model knows -/
theorem arguments_known :
    ∀ c ∈ Gen.C12.classes, (∀ a ∈ c.2.2.2.1, a ∈ requiredKnown) ∧
      ∀ o ∈ c.2.2.2.2, o.2 ∈ ["num", "nan", "none", "str", "bool"] := by decide

/-! ### `coherent_flat`: the general statement is false for the shipped formula (DESIGN §5 #18); kept as a `def`, asserted nowhere.
    Witness found by the oracle (key `coherent_flat:budget`): zero thickness, vacuum above, `ε = 3+4i` below, normal incidence:
    `specV + transV = 0.2 + 1.0`. -/

def coherent_flat_budget_full : Prop :=
  ∀ (f : ℝ) (e0 es et : Cx ℝ) (d mu : ℝ), Admissible e0 es mu → 0 ≤ es.im → 0 ≤ et.im → 0 < et.abs2 → 0 ≤ d →
    Coherent.specV f e0 es et d mu + Coherent.transV f e0 es et d mu ≤ 1 ∧
    Coherent.specH f e0 es et d mu + Coherent.transH f e0 es et d mu ≤ 1

/-- what does hold for every input: both specular reflectivities of the slab are non-negative -/
theorem coherent_flat_budget_partial (f : ℝ) (e0 es et : Cx ℝ) (d mu : ℝ) :
    0 ≤ Coherent.specV f e0 es et d mu ∧ 0 ≤ Coherent.specH f e0 es et d mu :=
  ⟨abs2_nonneg _, abs2_nonneg _⟩

/-- the shipped slab formula breaks the budget: zero-thickness slab of vacuum between vacuum and `ε = 3+4i`,
    normal incidence: `R_V + T_V = 1/5 + 1 = 6/5` -/
example : ¬ coherent_flat_budget_full := by
  intro h
  have adm : Admissible (⟨1, 0⟩ : Cx ℝ) ⟨1, 0⟩ 1 :=
    ⟨by norm_num, by norm_num, by unfold Cx.abs2; norm_num, by norm_num, by norm_num⟩
  have := (h 0 ⟨1, 0⟩ ⟨1, 0⟩ ⟨3, 4⟩ 0 1 adm (by norm_num) (by norm_num) (by unfold Cx.abs2; norm_num) le_rfl).1
  have hm : Coherent.muClamped (⟨1, 0⟩ : Cx ℝ) ⟨1, 0⟩ 1 = 1 := by
    unfold Coherent.muClamped Coherent.muSlab; rw [mu2_one_one]; norm_num
  have he2 : Coherent.exp2Kd (0:ℝ) (⟨1, 0⟩ : Cx ℝ) ⟨1, 0⟩ 0 1 = ⟨1, 0⟩ := by
    unfold Coherent.exp2Kd Coherent.phase Coherent.cexp Cx.smul; simp
  have he1 : Coherent.expKd (0:ℝ) (⟨1, 0⟩ : Cx ℝ) ⟨1, 0⟩ 0 1 = ⟨1, 0⟩ := by
    unfold Coherent.expKd Coherent.phase Coherent.cexp Cx.smul; simp
  have hs : Coherent.specV (0:ℝ) (⟨1, 0⟩ : Cx ℝ) ⟨1, 0⟩ ⟨3, 4⟩ 0 1 = 0.2 := by
    unfold Coherent.specV Coherent.Rv Coherent.slabR Coherent.one
    rw [hm, he2, rv_one_one, rv_one_34]
    simp only [cmul_def, cadd_def, csub_def, cdiv_def, Cx.ofReal, Cx.abs2]
    norm_num
  have hn : Coherent.nt (⟨1, 0⟩ : Cx ℝ) ⟨3, 4⟩ = 2 := by
    unfold Coherent.nt
    have : (⟨3, 4⟩ : Cx ℝ) / ⟨1, 0⟩ = ⟨3, 4⟩ := by rw [cdiv_def]; norm_num
    rw [this, csqrt_3_4]
  have ht : Coherent.transV (0:ℝ) (⟨1, 0⟩ : Cx ℝ) ⟨1, 0⟩ ⟨3, 4⟩ 0 1 = 1 := by
    unfold Coherent.transV Coherent.Tvc Coherent.slabT Coherent.one Coherent.muT
    rw [hn, hm, he2, he1, rv_one_one, rv_one_34, mu2_one_34]
    simp only [cmul_def, cadd_def, csub_def, cdiv_def, Cx.ofReal, Cx.abs2]
    norm_num
  rw [hs, ht] at this
  norm_num at this

/-! ### the hypotheses are satisfiable -/

example : Admissible (⟨1, 0⟩ : Cx ℝ) ⟨3, 0.1⟩ 0.5 :=
  ⟨by norm_num, by norm_num, by unfold Cx.abs2; norm_num, by norm_num, by norm_num⟩
example : Admissible (⟨3.2, 0.001⟩ : Cx ℝ) ⟨1, 0⟩ 1 :=
  ⟨by norm_num, by norm_num, by unfold Cx.abs2; norm_num, by norm_num, by norm_num⟩
/-- Snell-conjugate cosines exist: `ε₁ = 1, ε₂ = 4, μ₁ = 0, μ₂² = 3/4` -/
example : (1:ℝ) * (1 - 0 * 0) = 4 * (1 - Real.sqrt (3 / 4) * Real.sqrt (3 / 4)) := by
  rw [Real.mul_self_sqrt (by norm_num)]; norm_num
/-- the critical-angle hypothesis of `total_reflection_lossless` is satisfiable: `ε₁ = 4, ε₂ = 1, μ = 1/2` -/
example : (1:ℝ) ≤ 4 * (1 - (1/2) * (1/2)) := by norm_num
/-- the Choudhury guard is satisfiable (zero roughness) -/
example (f : ℝ) (e1 : Cx ℝ) : ¬ (0.1 : ℝ) < ksigma f e1 0 := by unfold ksigma; norm_num

/-! ### `coherent_flat`: the loss-free budget closes exactly, whatever the thickness (wave 7) -/

section Slab
open Coherent
theorem add_re (a b : Cx ℝ) : (a + b).re = a.re + b.re := rfl
theorem add_im (a b : Cx ℝ) : (a + b).im = a.im + b.im := rfl
theorem mul_re (a b : Cx ℝ) : (a * b).re = a.re * b.re - a.im * b.im := rfl
theorem mul_im (a b : Cx ℝ) : (a * b).im = a.re * b.im + a.im * b.re := rfl
theorem one_re : (one : Cx ℝ).re = 1 := rfl
theorem one_im : (one : Cx ℝ).im = 0 := rfl

/-- the Airy identity behind the loss-free budget of the slab pseudo-interface: real interface coefficients `r01`, `r1t`
    (loss-free media, no total reflection), a pure phase `e2kd` (loss-free slab, any thickness - no coherency limit enters),
    `|ekd| = 1`.  Then `|R|² + |T|² · (1-r01)(1-r1t) / ((1+r01)(1+r1t)) = 1`; the factor is the power factor of the transmitted
    wave written with the Fresnel coefficients of the two faces. -/
theorem slab_lossless_core (r01 r1t : ℝ) (ekd e2kd : Cx ℝ) (h2 : e2kd.abs2 = 1) (h1 : ekd.abs2 = 1)
    (hden : ((one : Cx ℝ) + (⟨r01, 0⟩ : Cx ℝ) * ⟨r1t, 0⟩ * e2kd).abs2 ≠ 0) (ha : 1 + r01 ≠ 0) (hb : 1 + r1t ≠ 0) :
    (slabR (⟨r01, 0⟩ : Cx ℝ) ⟨r1t, 0⟩ e2kd).abs2
      + (slabT (⟨r01, 0⟩ : Cx ℝ) ⟨r1t, 0⟩ ekd e2kd).abs2 * ((1 - r01) * (1 - r1t) / ((1 + r01) * (1 + r1t))) = 1 := by
  unfold slabR slabT
  rw [abs2_div, abs2_div, abs2_mul, abs2_mul, h1]
  have hD : ((one : Cx ℝ) + (⟨r01, 0⟩ : Cx ℝ) * ⟨r1t, 0⟩ * e2kd).abs2
      = 1 + 2 * r01 * r1t * e2kd.re + r01 ^ 2 * r1t ^ 2 := by
    simp only [Cx.abs2, add_re, add_im, mul_re, mul_im, one_re, one_im] at h2 ⊢
    linear_combination (r01 ^ 2 * r1t ^ 2) * h2
  have hN : ((⟨r01, 0⟩ : Cx ℝ) + ⟨r1t, 0⟩ * e2kd).abs2 = r01 ^ 2 + 2 * r01 * r1t * e2kd.re + r1t ^ 2 := by
    simp only [Cx.abs2, add_re, add_im, mul_re, mul_im] at h2 ⊢
    linear_combination (r1t ^ 2) * h2
  have hA : ((one : Cx ℝ) + (⟨r01, 0⟩ : Cx ℝ)).abs2 = (1 + r01) ^ 2 := by
    simp only [Cx.abs2, add_re, add_im, one_re, one_im]; ring
  have hB : ((one : Cx ℝ) + (⟨r1t, 0⟩ : Cx ℝ)).abs2 = (1 + r1t) ^ 2 := by
    simp only [Cx.abs2, add_re, add_im, one_re, one_im]; ring
  rw [hD] at hden
  rw [hD, hN, hA, hB]
  have hK : (1 + r01) ^ 2 * (1 + r1t) ^ 2 * 1 * ((1 - r01) * (1 - r1t) / ((1 + r01) * (1 + r1t)))
      = (1 - r01 ^ 2) * (1 - r1t ^ 2) := by
    field_simp
    ring
  rw [div_mul_eq_mul_div, ← add_div, hK, div_eq_one_iff_eq hden]
  ring

/-- `|exp z|² = exp(2 Re z)` for the model's complex exponential -/
theorem cexp_abs2 (z : Cx ℝ) : (cexp z).abs2 = Real.exp (2 * z.re) := by
  simp only [cexp, Cx.abs2, transc_exp_real, transc_cos_real, transc_sin_real]
  have h := Real.cos_sq_add_sin_sq z.im
  have : Real.exp (2 * z.re) = Real.exp z.re * Real.exp z.re := by rw [← Real.exp_add]; ring_nf
  rw [this]
  linear_combination (Real.exp z.re * Real.exp z.re) * h

/-- a loss-free slab (real phase) only shifts phases, whatever its thickness: `|exp_kd| = |exp_2kd| = 1` -/
theorem pure_phase (f : ℝ) (e0 es : Cx ℝ) (d mu : ℝ) (h : (phase f e0 es d mu).im = 0) :
    (expKd f e0 es d mu).abs2 = 1 ∧ (exp2Kd f e0 es d mu).abs2 = 1 := by
  unfold expKd exp2Kd
  simp only [cexp_abs2, h]
  constructor <;> norm_num

/-- the H-polarised budget of `CoherentFlat` closes exactly for a loss-free slab between loss-free media, *whatever the thickness*
    (`_partial`: the two facts about the faces - real Fresnel coefficients, and the power factor written with them - are hypotheses
    here; `lossless_Rh` / `kyi_real` / `kyt_real` of Proofs/Fresnel.lean give the first one for real permittivities without total
    reflection).  The oracle checks the conclusion on the code for slabs from λ/60 to 10 λ (key `coherent_flat:lossless`). -/
theorem coherent_flat_lossless_H_partial (f : ℝ) (e0 es et : Cx ℝ) (d mu r01 r1t : ℝ)
    (h01 : rh e0 es mu = ⟨r01, 0⟩) (h1t : rh es et (muClamped e0 es mu) = ⟨r1t, 0⟩)
    (hph : (phase f e0 es d mu).im = 0)
    (hK : muT e0 es et mu / mu * nt e0 et = (1 - r01) * (1 - r1t) / ((1 + r01) * (1 + r1t)))
    (hden : ((one : Cx ℝ) + (⟨r01, 0⟩ : Cx ℝ) * ⟨r1t, 0⟩ * exp2Kd f e0 es d mu).abs2 ≠ 0) (ha : 1 + r01 ≠ 0) (hb : 1 + r1t ≠ 0) :
    specH f e0 es et d mu + transH f e0 es et d mu = 1 := by
  obtain ⟨h1, h2⟩ := pure_phase f e0 es d mu hph
  have key := slab_lossless_core r01 r1t (expKd f e0 es d mu) (exp2Kd f e0 es d mu) h2 h1 hden ha hb
  unfold specH transH Coherent.Rh Thc
  rw [h01, h1t]
  have : (slabT (⟨r01, 0⟩ : Cx ℝ) ⟨r1t, 0⟩ (expKd f e0 es d mu) (exp2Kd f e0 es d mu)).abs2 * muT e0 es et mu / mu * nt e0 et
       = (slabT (⟨r01, 0⟩ : Cx ℝ) ⟨r1t, 0⟩ (expKd f e0 es d mu) (exp2Kd f e0 es d mu)).abs2 * (muT e0 es et mu / mu * nt e0 et) := by ring
  rw [this, hK]
  exact key

/-- the hypotheses of the core identity are satisfiable by a non-trivial slab: `r01 = 0.3`, `r1t = 0.2`, a quarter-wave phase -/
example : (⟨0, 1⟩ : Cx ℝ).abs2 = 1 ∧ ((one : Cx ℝ) + (⟨0.3, 0⟩ : Cx ℝ) * ⟨0.2, 0⟩ * ⟨0, 1⟩).abs2 ≠ 0 ∧ (1 : ℝ) + 0.3 ≠ 0 ∧ (1 : ℝ) + 0.2 ≠ 0 := by
  refine ⟨by simp [Cx.abs2], ?_, by norm_num, by norm_num⟩
  simp only [Cx.abs2, add_re, add_im, mul_re, mul_im, one_re, one_im]
  norm_num
/-- V-polarised counterpart of `coherent_flat_lossless_H_partial` -/
theorem coherent_flat_lossless_V_partial (f : ℝ) (e0 es et : Cx ℝ) (d mu r01 r1t : ℝ)
    (h01 : rv e0 es mu = ⟨r01, 0⟩) (h1t : rv es et (muClamped e0 es mu) = ⟨r1t, 0⟩)
    (hph : (phase f e0 es d mu).im = 0)
    (hK : muT e0 es et mu / mu / nt e0 et = (1 - r01) * (1 - r1t) / ((1 + r01) * (1 + r1t)))
    (hden : ((one : Cx ℝ) + (⟨r01, 0⟩ : Cx ℝ) * ⟨r1t, 0⟩ * exp2Kd f e0 es d mu).abs2 ≠ 0) (ha : 1 + r01 ≠ 0) (hb : 1 + r1t ≠ 0) :
    specV f e0 es et d mu + transV f e0 es et d mu = 1 := by
  obtain ⟨h1, h2⟩ := pure_phase f e0 es d mu hph
  have key := slab_lossless_core r01 r1t (expKd f e0 es d mu) (exp2Kd f e0 es d mu) h2 h1 hden ha hb
  unfold specV transV Coherent.Rv Tvc
  rw [h01, h1t]
  have : (slabT (⟨r01, 0⟩ : Cx ℝ) ⟨r1t, 0⟩ (expKd f e0 es d mu) (exp2Kd f e0 es d mu)).abs2 * muT e0 es et mu / mu / nt e0 et
       = (slabT (⟨r01, 0⟩ : Cx ℝ) ⟨r1t, 0⟩ (expKd f e0 es d mu) (exp2Kd f e0 es d mu)).abs2 * (muT e0 es et mu / mu / nt e0 et) := by ring
  rw [this, hK]
  exact key

/-- **the loss-free budget of `CoherentFlat` (H polarisation) closes exactly, whatever the slab thickness and the frequency**: real positive
    permittivities in the three media, propagating waves in all three (Snell-conjugate cosines `mu0, mu1, mu2'`, the slab cosine not below
    the code's clamp `1e-4`). -/
theorem coherent_flat_lossless_H (f a0 a1 a2 d mu0 mu1 mu2' : ℝ) (h0 : 0 < a0) (h1 : 0 < a1) (h2 : 0 < a2)
    (hm0 : 0 < mu0) (hm1 : 1e-4 ≤ mu1) (hm2 : 0 < mu2')
    (s01 : a0 * (1 - mu0 * mu0) = a1 * (1 - mu1 * mu1)) (s12 : a1 * (1 - mu1 * mu1) = a2 * (1 - mu2' * mu2')) :
    specH f (⟨a0, 0⟩ : Cx ℝ) ⟨a1, 0⟩ ⟨a2, 0⟩ d mu0 + transH f (⟨a0, 0⟩ : Cx ℝ) ⟨a1, 0⟩ ⟨a2, 0⟩ d mu0 = 1 := by
  have hm1' : 0 < mu1 := lt_of_lt_of_le (by norm_num) hm1
  have hmuS : muSlab (⟨a0, 0⟩ : Cx ℝ) ⟨a1, 0⟩ mu0 = mu1 := mu2_real a0 a1 mu0 mu1 h0 h1 hm1' s01
  have hmc : muClamped (⟨a0, 0⟩ : Cx ℝ) ⟨a1, 0⟩ mu0 = mu1 := by
    unfold muClamped; rw [hmuS, if_neg (not_lt.mpr hm1)]
  set p0 := Real.sqrt a0 * mu0 with hp0
  set p1 := Real.sqrt a1 * mu1 with hp1
  set p2 := Real.sqrt a2 * mu2' with hp2
  have p0pos : 0 < p0 := mul_pos (Real.sqrt_pos.mpr h0) hm0
  have p1pos : 0 < p1 := mul_pos (Real.sqrt_pos.mpr h1) hm1'
  have p2pos : 0 < p2 := mul_pos (Real.sqrt_pos.mpr h2) hm2
  have h01 : rh (⟨a0, 0⟩ : Cx ℝ) ⟨a1, 0⟩ mu0 = ⟨(p0 - p1) / (p0 + p1), 0⟩ := rh_real a0 a1 mu0 mu1 h0 h1 hm0 hm1' s01
  have h1t : rh (⟨a1, 0⟩ : Cx ℝ) ⟨a2, 0⟩ (muClamped (⟨a0, 0⟩ : Cx ℝ) ⟨a1, 0⟩ mu0) = ⟨(p1 - p2) / (p1 + p2), 0⟩ := by
    rw [hmc]; exact rh_real a1 a2 mu1 mu2' h1 h2 hm1' hm2 s12
  have hph : (phase f (⟨a0, 0⟩ : Cx ℝ) ⟨a1, 0⟩ d mu0).im = 0 := by
    unfold phase; rw [csqrt_real_nonneg a1 h1.le]; simp [Cx.smul]
  obtain ⟨b01l, b01u⟩ := face_bounds p0 p1 p0pos p1pos
  obtain ⟨b1tl, b1tu⟩ := face_bounds p1 p2 p1pos p2pos
  have hK : muT (⟨a0, 0⟩ : Cx ℝ) ⟨a1, 0⟩ ⟨a2, 0⟩ mu0 / mu0 * nt (⟨a0, 0⟩ : Cx ℝ) ⟨a2, 0⟩
      = (1 - (p0 - p1) / (p0 + p1)) * (1 - (p1 - p2) / (p1 + p2)) / ((1 + (p0 - p1) / (p0 + p1)) * (1 + (p1 - p2) / (p1 + p2))) := by
    have hmT : muT (⟨a0, 0⟩ : Cx ℝ) ⟨a1, 0⟩ ⟨a2, 0⟩ mu0 = mu2' := by
      unfold muT; rw [hmc]; exact mu2_real a1 a2 mu1 mu2' h1 h2 hm2 s12
    have hnt : nt (⟨a0, 0⟩ : Cx ℝ) ⟨a2, 0⟩ = Real.sqrt a2 / Real.sqrt a0 := by
      unfold nt; rw [real_div_real _ _ h0.ne', csqrt_real_nonneg _ (div_nonneg h2.le h0.le), Real.sqrt_div h2.le]
    rw [hmT, hnt]
    have s0 : 0 < Real.sqrt a0 := Real.sqrt_pos.mpr h0
    have e1 : mu2' / mu0 * (Real.sqrt a2 / Real.sqrt a0) = p2 / p0 := by
      rw [hp2, hp0]; field_simp
    rw [e1]
    exact K_algebra p0 p1 p2 p0pos p1pos p2pos
  have hden : ((one : Cx ℝ) + (⟨(p0 - p1) / (p0 + p1), 0⟩ : Cx ℝ) * ⟨(p1 - p2) / (p1 + p2), 0⟩
      * exp2Kd f (⟨a0, 0⟩ : Cx ℝ) ⟨a1, 0⟩ d mu0).abs2 ≠ 0 := by
    obtain ⟨_, he2⟩ := pure_phase f (⟨a0, 0⟩ : Cx ℝ) ⟨a1, 0⟩ d mu0 hph
    set e := exp2Kd f (⟨a0, 0⟩ : Cx ℝ) ⟨a1, 0⟩ d mu0 with he
    set r01 := (p0 - p1) / (p0 + p1) with hr01
    set r1t := (p1 - p2) / (p1 + p2) with hr1t
    have hD : ((one : Cx ℝ) + (⟨r01, 0⟩ : Cx ℝ) * ⟨r1t, 0⟩ * e).abs2 = 1 + 2 * (r01 * r1t) * e.re + (r01 * r1t) ^ 2 := by
      have he2' := he2
      simp only [Cx.abs2, add_re, add_im, mul_re, mul_im, one_re, one_im] at he2' ⊢
      linear_combination (r01 ^ 2 * r1t ^ 2) * he2'
    rw [hD]
    have hrl : -1 < r01 * r1t := by nlinarith [mul_pos (sub_pos.mpr b01u) (sub_pos.mpr b1tu), mul_pos (by linarith : 0 < 1 + r01) (by linarith : 0 < 1 + r1t)]
    have hru : r01 * r1t < 1 := by nlinarith [mul_pos (sub_pos.mpr b01u) (by linarith : 0 < 1 + r1t), mul_pos (by linarith : 0 < 1 + r01) (sub_pos.mpr b1tu)]
    exact (den_pos (r01 * r1t) e he2 hrl hru).ne'
  exact coherent_flat_lossless_H_partial f _ _ _ d mu0 _ _ h01 h1t hph hK hden (by linarith) (by linarith)

/-- **the loss-free budget of `CoherentFlat` (V polarisation) closes exactly, whatever the slab thickness and the frequency** -/
theorem coherent_flat_lossless_V (f a0 a1 a2 d mu0 mu1 mu2' : ℝ) (h0 : 0 < a0) (h1 : 0 < a1) (h2 : 0 < a2)
    (hm0 : 0 < mu0) (hm1 : 1e-4 ≤ mu1) (hm2 : 0 < mu2')
    (s01 : a0 * (1 - mu0 * mu0) = a1 * (1 - mu1 * mu1)) (s12 : a1 * (1 - mu1 * mu1) = a2 * (1 - mu2' * mu2')) :
    specV f (⟨a0, 0⟩ : Cx ℝ) ⟨a1, 0⟩ ⟨a2, 0⟩ d mu0 + transV f (⟨a0, 0⟩ : Cx ℝ) ⟨a1, 0⟩ ⟨a2, 0⟩ d mu0 = 1 := by
  have hm1' : 0 < mu1 := lt_of_lt_of_le (by norm_num) hm1
  have hmuS : muSlab (⟨a0, 0⟩ : Cx ℝ) ⟨a1, 0⟩ mu0 = mu1 := mu2_real a0 a1 mu0 mu1 h0 h1 hm1' s01
  have hmc : muClamped (⟨a0, 0⟩ : Cx ℝ) ⟨a1, 0⟩ mu0 = mu1 := by
    unfold muClamped; rw [hmuS, if_neg (not_lt.mpr hm1)]
  have s0 : 0 < Real.sqrt a0 := Real.sqrt_pos.mpr h0
  have s1 : 0 < Real.sqrt a1 := Real.sqrt_pos.mpr h1
  have s2 : 0 < Real.sqrt a2 := Real.sqrt_pos.mpr h2
  have q0pos : 0 < mu0 / Real.sqrt a0 := div_pos hm0 s0
  have q1pos : 0 < mu1 / Real.sqrt a1 := div_pos hm1' s1
  have q2pos : 0 < mu2' / Real.sqrt a2 := div_pos hm2 s2
  have h01 := rv_real a0 a1 mu0 mu1 h0 h1 hm0 hm1' s01
  have h1t : rv (⟨a1, 0⟩ : Cx ℝ) ⟨a2, 0⟩ (muClamped (⟨a0, 0⟩ : Cx ℝ) ⟨a1, 0⟩ mu0)
      = ⟨(mu1 / Real.sqrt a1 - mu2' / Real.sqrt a2) / (mu1 / Real.sqrt a1 + mu2' / Real.sqrt a2), 0⟩ := by
    rw [hmc]; exact rv_real a1 a2 mu1 mu2' h1 h2 hm1' hm2 s12
  have hph : (phase f (⟨a0, 0⟩ : Cx ℝ) ⟨a1, 0⟩ d mu0).im = 0 := by
    unfold phase; rw [csqrt_real_nonneg a1 h1.le]; simp [Cx.smul]
  obtain ⟨b01l, b01u⟩ := face_bounds _ _ q0pos q1pos
  obtain ⟨b1tl, b1tu⟩ := face_bounds _ _ q1pos q2pos
  have hK : muT (⟨a0, 0⟩ : Cx ℝ) ⟨a1, 0⟩ ⟨a2, 0⟩ mu0 / mu0 / nt (⟨a0, 0⟩ : Cx ℝ) ⟨a2, 0⟩
      = (1 - (mu0 / Real.sqrt a0 - mu1 / Real.sqrt a1) / (mu0 / Real.sqrt a0 + mu1 / Real.sqrt a1))
        * (1 - (mu1 / Real.sqrt a1 - mu2' / Real.sqrt a2) / (mu1 / Real.sqrt a1 + mu2' / Real.sqrt a2))
        / ((1 + (mu0 / Real.sqrt a0 - mu1 / Real.sqrt a1) / (mu0 / Real.sqrt a0 + mu1 / Real.sqrt a1))
           * (1 + (mu1 / Real.sqrt a1 - mu2' / Real.sqrt a2) / (mu1 / Real.sqrt a1 + mu2' / Real.sqrt a2))) := by
    have hmT : muT (⟨a0, 0⟩ : Cx ℝ) ⟨a1, 0⟩ ⟨a2, 0⟩ mu0 = mu2' := by
      unfold muT; rw [hmc]; exact mu2_real a1 a2 mu1 mu2' h1 h2 hm2 s12
    have hnt : nt (⟨a0, 0⟩ : Cx ℝ) ⟨a2, 0⟩ = Real.sqrt a2 / Real.sqrt a0 := by
      unfold nt; rw [real_div_real _ _ h0.ne', csqrt_real_nonneg _ (div_nonneg h2.le h0.le), Real.sqrt_div h2.le]
    rw [hmT, hnt]
    have e1 : mu2' / mu0 / (Real.sqrt a2 / Real.sqrt a0) = (mu2' / Real.sqrt a2) / (mu0 / Real.sqrt a0) := by
      field_simp
    rw [e1]
    exact K_algebra _ _ _ q0pos q1pos q2pos
  have hden : ((one : Cx ℝ) + (⟨(mu0 / Real.sqrt a0 - mu1 / Real.sqrt a1) / (mu0 / Real.sqrt a0 + mu1 / Real.sqrt a1), 0⟩ : Cx ℝ)
      * ⟨(mu1 / Real.sqrt a1 - mu2' / Real.sqrt a2) / (mu1 / Real.sqrt a1 + mu2' / Real.sqrt a2), 0⟩
      * exp2Kd f (⟨a0, 0⟩ : Cx ℝ) ⟨a1, 0⟩ d mu0).abs2 ≠ 0 := by
    obtain ⟨_, he2⟩ := pure_phase f (⟨a0, 0⟩ : Cx ℝ) ⟨a1, 0⟩ d mu0 hph
    generalize exp2Kd f (⟨a0, 0⟩ : Cx ℝ) ⟨a1, 0⟩ d mu0 = e at he2 ⊢
    generalize (mu0 / Real.sqrt a0 - mu1 / Real.sqrt a1) / (mu0 / Real.sqrt a0 + mu1 / Real.sqrt a1) = r01 at b01l b01u ⊢
    generalize (mu1 / Real.sqrt a1 - mu2' / Real.sqrt a2) / (mu1 / Real.sqrt a1 + mu2' / Real.sqrt a2) = r1t at b1tl b1tu ⊢
    have hD : ((one : Cx ℝ) + (⟨r01, 0⟩ : Cx ℝ) * ⟨r1t, 0⟩ * e).abs2 = 1 + 2 * (r01 * r1t) * e.re + (r01 * r1t) ^ 2 := by
      have he2' := he2
      simp only [Cx.abs2, add_re, add_im, mul_re, mul_im, one_re, one_im] at he2' ⊢
      linear_combination (r01 ^ 2 * r1t ^ 2) * he2'
    rw [hD]
    have hrl : -1 < r01 * r1t := by nlinarith [mul_pos (sub_pos.mpr b01u) (sub_pos.mpr b1tu), mul_pos (by linarith : 0 < 1 + r01) (by linarith : 0 < 1 + r1t)]
    have hru : r01 * r1t < 1 := by nlinarith [mul_pos (sub_pos.mpr b01u) (by linarith : 0 < 1 + r1t), mul_pos (by linarith : 0 < 1 + r01) (sub_pos.mpr b1tu)]
    exact (den_pos (r01 * r1t) e he2 hrl hru).ne'
  exact coherent_flat_lossless_V_partial f _ _ _ d mu0 _ _ h01 h1t hph hK hden (by linarith) (by linarith)
/-- the hypotheses are satisfiable by a non-trivial slab: an ice-like slab (ε = 3) between air and a medium with ε = 2, normal incidence,
    any thickness and frequency, both polarisations -/
example (f d : ℝ) : specH f (⟨1, 0⟩ : Cx ℝ) ⟨3, 0⟩ ⟨2, 0⟩ d 1 + transH f (⟨1, 0⟩ : Cx ℝ) ⟨3, 0⟩ ⟨2, 0⟩ d 1 = 1
    ∧ specV f (⟨1, 0⟩ : Cx ℝ) ⟨3, 0⟩ ⟨2, 0⟩ d 1 + transV f (⟨1, 0⟩ : Cx ℝ) ⟨3, 0⟩ ⟨2, 0⟩ d 1 = 1 :=
  ⟨coherent_flat_lossless_H f 1 3 2 d 1 1 1 (by norm_num) (by norm_num) (by norm_num) (by norm_num) (by norm_num) (by norm_num)
    (by norm_num) (by norm_num),
   coherent_flat_lossless_V f 1 3 2 d 1 1 1 (by norm_num) (by norm_num) (by norm_num) (by norm_num) (by norm_num) (by norm_num)
    (by norm_num) (by norm_num)⟩
end Slab

end Smrt.Props.C12
