/-
  C04 — results do not depend on how a homogeneous layer is subdivided.

  `split_solution`: from any solution of the boundary system of a stack, the explicitly constructed vector solves the
  system of the stack in which layer `k` is cut into two identical sub-layers `d₁ + d₂` separated by an interface between
  identical media, for every position `k`, every stack, every azimuth mode and with or without the coherent-only pass
  (the theorem does not look at the mode: it holds for the passive and the active systems alike); the emerging intensity
  is unchanged.  By induction, any number of successive splits.
-/
import SmrtVerif.Model.Split
import SmrtVerif.Proofs.Split
import SmrtVerif.Proofs.DortFlat
import Mathlib.Tactic.Ring
import Mathlib.Tactic.Linarith
import Mathlib.Tactic.SplitIfs

set_option linter.unusedSectionVars false
set_option linter.unusedVariables false

namespace Smrt.Props.C04
open Smrt Smrt.Dort

/-- attenuation through a layer is multiplicative in the thickness (`transt`, `transb` entrywise) -/
theorem trans_multiplicative (β d1 d2 : ℝ) :
    Real.exp (-(if (0 : ℝ) < β then β else 0) * (d1 + d2))
      = Real.exp (-(if (0 : ℝ) < β then β else 0) * d1) * Real.exp (-(if (0 : ℝ) < β then β else 0) * d2) ∧
    Real.exp ((if β < (0 : ℝ) then β else 0) * (d1 + d2))
      = Real.exp ((if β < (0 : ℝ) then β else 0) * d1) * Real.exp ((if β < (0 : ℝ) then β else 0) * d2) := by
  constructor <;> (rw [← Real.exp_add]; congr 1; ring)

variable (S : DStack ℝ) (k : Nat) (d1 d2 : ℝ)

theorem tempOf_split_lt {l : Nat} (h : l < k) : tempOf (splitStack S k d1 d2) l = tempOf S l := by
  simp [tempOf, h]
theorem tempOf_split_k : tempOf (splitStack S k d1 d2) k = tempOf S k := by
  simp [tempOf, upperHalf]
theorem tempOf_split_k1 : tempOf (splitStack S k d1 d2) (k + 1) = tempOf S k := by
  simp [tempOf, lowerHalf]
theorem tempOf_split_gt {l : Nat} (h : k + 1 < l) : tempOf (splitStack S k d1 d2) l = tempOf S (l - 1) := by
  simp [tempOf, split_lay_gt S k d1 d2 h]

/-- **split_solution** -/
theorem split_solution (hk : k < S.L) (hd : (S.lay k).d = d1 + d2) (x : Nat → Nat → Nat → ℝ) (hsol : Solves S x) :
    Solves (splitStack S k d1 d2) (splitSol S k d1 d2 x) ∧
    ∀ i v, emergingB (splitStack S k d1 d2) (splitSol S k d1 d2 x) i v = emergingB S x i v := by
  have hL : (splitStack S k d1 d2).L = S.L + 1 := rfl
  have hnp : (splitStack S k d1 d2).npol = S.npol := rfl
  -- the unknowns of the two halves, as functions
  have xk : (splitSol S k d1 d2 x k) = (fun j v => x k j v * fU S k d2 j) := by
    funext j v; exact splitSol_k S k d1 d2 x j v
  have xk1 : (splitSol S k d1 d2 x (k + 1)) = (fun j v => x k j v * fL S k d1 j) := by
    funext j v; exact splitSol_k1 S k d1 d2 x j v
  have xlt : ∀ l, l < k → splitSol S k d1 d2 x l = x l := by
    intro l h; funext j v; exact splitSol_lt S k d1 d2 x h j v
  have xgt : ∀ l, k + 1 < l → splitSol S k d1 d2 x l = x (l - 1) := by
    intro l h; funext j v; exact splitSol_gt S k d1 d2 x h j v
  -- right-hand sides only look at globals that the split leaves alone
  have rT : ∀ (ly ab : DLayer ℝ) (a b : ℝ) (c : Prop) [Decidable c] (i v : Nat),
      rhsTopL (splitStack S k d1 d2) ly ab a b c i v = rhsTopL S ly ab a b c i v := fun _ _ _ _ _ _ _ _ => rfl
  have rB : ∀ (ly be : DLayer ℝ) (a b : ℝ) (c : Prop) [Decidable c] (i v : Nat),
      rhsBotL (splitStack S k d1 d2) ly be a b c i v = rhsBotL S ly be a b c i v := fun _ _ _ _ _ _ _ _ => rfl
  constructor
  · intro l hl i hi v
    rw [hL] at hl
    rw [lhsTop_local, lhsBot_local, rhsTop_local, rhsBot_local, rT, rB, hnp, hL]
    rcases Nat.lt_trichotomy l k with hlt | heq | hgt
    · -- strictly above the cut
      have hi' : i < (S.lay l).n * S.npol := by rw [split_lay_lt S k d1 d2 hlt, hnp] at hi; exact hi
      obtain ⟨ht, hb⟩ := hsol l (by omega) i hi' v
      rw [lhsTop_local, rhsTop_local] at ht
      rw [lhsBot_local, rhsBot_local] at hb
      constructor
      · rw [split_lay_lt S k d1 d2 hlt, xlt l hlt, tempOf_split_lt S k d1 d2 hlt]
        have hl1 : l - 1 < k := by omega
        rw [split_lay_lt S k d1 d2 hl1, xlt (l - 1) hl1, tempOf_split_lt S k d1 d2 hl1]
        exact ht
      · rw [split_lay_lt S k d1 d2 hlt, xlt l hlt, tempOf_split_lt S k d1 d2 hlt]
        by_cases hadj : l + 1 = k
        · rw [hadj, split_lay_k, xk, tempOf_split_k, lhsBotL_above S k d1 d2 hd]
          rw [hadj] at hb
          -- the right-hand side looks at ttop, n and the temperature of the layer below only
          have r : rhsBotL S (S.lay l) (upperHalf S k d1) (tempOf S l) (tempOf S k) (k < S.L + 1) i v
              = rhsBotL S (S.lay l) (S.lay k) (tempOf S l) (tempOf S k) (k < S.L) i v := by
            unfold rhsBotL
            have c : k < S.L + 1 := by omega
            simp only [c, hk, if_true]
            rfl
          have lq : lhsBotL S.npol (S.lay l) (S.lay k) (x l) (x k) (k < S.L + 1) i v
              = lhsBotL S.npol (S.lay l) (S.lay k) (x l) (x k) (k < S.L) i v := by
            unfold lhsBotL
            have c : k < S.L + 1 := by omega
            simp only [c, hk, if_true]
          rw [r, lq]; exact hb
        · have hl1 : l + 1 < k := by omega
          rw [split_lay_lt S k d1 d2 hl1, xlt (l + 1) hl1, tempOf_split_lt S k d1 d2 hl1]
          have c : l + 1 < S.L := by omega
          have c' : l + 1 < S.L + 1 := by omega
          unfold lhsBotL rhsBotL at hb ⊢
          simp only [c, c', if_true] at hb ⊢
          exact hb
    · -- the upper half
      subst heq
      have hi' : i < (S.lay l).n * S.npol := by rw [split_lay_k, hnp] at hi; exact hi
      obtain ⟨ht, hb⟩ := hsol l hk i hi' v
      rw [lhsTop_local, rhsTop_local] at ht
      constructor
      · rw [split_lay_k, xk, tempOf_split_k, lhsTopL_upper S l d1 d2 hd]
        have rr : ∀ (ab : DLayer ℝ) (Ta : ℝ),
            rhsTopL S (upperHalf S l d1) ab (tempOf S l) Ta (l = 0) i v = rhsTopL S (S.lay l) ab (tempOf S l) Ta (l = 0) i v :=
          fun _ _ => rfl
        rw [rr]
        by_cases h0 : l = 0
        · rw [lhsTopL_noabove S.npol _ _ (S.lay (l - 1)) _ _ (x (l - 1)) (0 < l) (by omega),
              rhsTopL_noabove S _ _ (S.lay (l - 1)) _ _ (tempOf S (l - 1)) (l = 0) h0]
          exact ht
        · have hl1 : l - 1 < l := by omega
          rw [split_lay_lt S l d1 d2 hl1, xlt (l - 1) hl1, tempOf_split_lt S l d1 d2 hl1]
          exact ht
      · rw [split_lay_k, split_lay_k1, xk, xk1, tempOf_split_k, tempOf_split_k1]
        rw [(lhs_cut S l d1 d2 (x l) i v hi' (l + 1 < S.L + 1) (by omega)).1,
            (rhs_cut S l d1 d2 i v hi' (tempOf S l) (l + 1 < S.L + 1) (by omega) False (by simp)).1]
    · -- below the cut
      rcases Nat.lt_trichotomy l (k + 1) with h1 | h1 | h1
      · omega
      · -- the lower half
        subst h1
        have hi' : i < (S.lay k).n * S.npol := by rw [split_lay_k1, hnp] at hi; exact hi
        obtain ⟨ht, hb⟩ := hsol k hk i hi' v
        rw [lhsBot_local, rhsBot_local] at hb
        have e0 : k + 1 - 1 = k := by omega
        constructor
        · rw [e0, split_lay_k1, split_lay_k, xk1, xk, tempOf_split_k1, tempOf_split_k]
          rw [(lhs_cut S k d1 d2 (x k) i v hi' (0 < k + 1) (by omega)).2,
              (rhs_cut S k d1 d2 i v hi' (tempOf S k) True trivial (k + 1 = 0) (by omega)).2]
        · have hg : k + 1 < k + 1 + 1 := by omega
          have e1 : k + 1 + 1 - 1 = k + 1 := by omega
          rw [split_lay_k1, xk1, tempOf_split_k1, split_lay_gt S k d1 d2 hg, xgt _ hg, tempOf_split_gt S k d1 d2 hg, e1,
              lhsBotL_lower S k d1 d2 hd]
          have rr : ∀ (be : DLayer ℝ) (Tb : ℝ) (c : Prop) [Decidable c],
              rhsBotL S (lowerHalf S k d2) be (tempOf S k) Tb c i v = rhsBotL S (S.lay k) be (tempOf S k) Tb c i v :=
            fun _ _ _ _ => rfl
          rw [rr, lhsBotL_prop S.npol _ _ _ _ (k + 1 + 1 < S.L + 1) (k + 1 < S.L) (by omega),
              rhsBotL_prop S _ _ _ _ (k + 1 + 1 < S.L + 1) (k + 1 < S.L) (by omega)]
          exact hb
      · -- strictly below the lower half: everything is shifted by one
        have hgl : k + 1 < l := h1
        have hi' : i < (S.lay (l - 1)).n * S.npol := by rw [split_lay_gt S k d1 d2 hgl, hnp] at hi; exact hi
        obtain ⟨ht, hb⟩ := hsol (l - 1) (by omega) i hi' v
        rw [lhsTop_local, rhsTop_local] at ht
        rw [lhsBot_local, rhsBot_local] at hb
        have hgl1 : k + 1 < l + 1 := by omega
        have e1 : l + 1 - 1 = l := by omega
        have e2 : l - 1 + 1 = l := by omega
        rw [e2] at hb
        constructor
        · rw [split_lay_gt S k d1 d2 hgl, xgt l hgl, tempOf_split_gt S k d1 d2 hgl]
          rw [lhsTopL_prop S.npol _ _ _ _ (0 < l) (0 < l - 1) (by omega), rhsTopL_prop S _ _ _ _ (l = 0) (l - 1 = 0) (by omega)]
          by_cases h2 : l = k + 2
          · have e3 : l - 1 = k + 1 := by omega
            have e4 : l - 1 - 1 = k := by omega
            rw [e3] at ht ⊢
            rw [split_lay_k1, xk1, tempOf_split_k1, lhsTopL_below S k d1 d2 hd]
            have e5 : k + 1 - 1 = k := by omega
            rw [e5] at ht
            have rr : ∀ (ly : DLayer ℝ) (Tl : ℝ) (c : Prop) [Decidable c],
                rhsTopL S ly (lowerHalf S k d2) Tl (tempOf S k) c i v = rhsTopL S ly (S.lay k) Tl (tempOf S k) c i v :=
              fun _ _ _ _ => rfl
            rw [rr]; exact ht
          · have hg2 : k + 1 < l - 1 := by omega
            rw [split_lay_gt S k d1 d2 hg2, xgt (l - 1) hg2, tempOf_split_gt S k d1 d2 hg2]
            exact ht
        · rw [split_lay_gt S k d1 d2 hgl, xgt l hgl, tempOf_split_gt S k d1 d2 hgl,
              split_lay_gt S k d1 d2 hgl1, xgt (l + 1) hgl1, tempOf_split_gt S k d1 d2 hgl1, e1]
          rw [lhsBotL_prop S.npol _ _ _ _ (l + 1 < S.L + 1) (l < S.L) (by omega),
              rhsBotL_prop S _ _ _ _ (l + 1 < S.L + 1) (l < S.L) (by omega)]
          exact hb
  · -- the emerging intensity only looks at the top layer
    intro i v
    simp only [emergingB, emerging]
    by_cases h0 : k = 0
    · subst h0
      have e : ∀ p q, i1up (splitStack S 0 d1 d2) (splitSol S 0 d1 d2 x 0) p q = i1up S (x 0) p q := by
        intro p q
        simp only [i1up, split_lay_k, hnp, tempOf_split_k]
        have en : (upperHalf S 0 d1).n = (S.lay 0).n := rfl
        rw [en]
        congr 1
        apply sumN_congr
        intro j
        rw [splitSol_k]
        have := transt_upper S 0 d1 d2 hd j
        have ee : (upperHalf S 0 d1).eu.f p j = (S.lay 0).eu.f p j := rfl
        rw [ee, ← this]; ring
      have e' : i1up (splitStack S 0 d1 d2) (splitSol S 0 d1 d2 x 0) = i1up S (x 0) := by
        funext p q; exact e p q
      rw [e', split_lay_k]
      rfl
    · have hk0 : 0 < k := Nat.pos_of_ne_zero h0
      have e' : i1up (splitStack S k d1 d2) (splitSol S k d1 d2 x 0) = i1up S (x 0) := by
        funext p q
        simp only [i1up, split_lay_lt S k d1 d2 hk0, hnp, tempOf_split_lt S k d1 d2 hk0, xlt 0 hk0]
        rfl
      rw [e', split_lay_lt S k d1 d2 hk0]
      rfl

/-- **flat = block** (shared by C01–C05 and C08): the code assembles and solves one flat banded system whose dense meaning is `sysEntry`
    / `rhsEntry` (corresponded entry by entry with `dort_modem_banded`); every theorem of the DORT group is stated on the per-layer
    block form `Solves`.  Any solution of the flat system, cut at the layer offsets, is a solution of the block system - for every
    stack in which each layer keeps at least one stream (the solver asserts at least two). -/
theorem flat_solution_is_block_solution (hw : ∀ l, l < S.L → 0 < 2 * ((S.lay l).n * S.npol)) (xf : Nat → Nat → ℝ)
    (h : ∀ r, r < nUnknown S → ∀ v, sumN (nUnknown S) (fun c => sysEntry S r c * xf c v) = rhsEntry S r v) :
    Solves S (fun l j v => xf (off S l + j) v) :=
  solvesFlat_solves S hw xf h

end Smrt.Props.C04
