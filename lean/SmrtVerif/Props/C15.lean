/-
  C15 — mixing formulae satisfy their defining equations, limits and rigorous bounds.
  Property theorems about the model `SmrtVerif/Model/Mixing.lean` at `α := ℝ` (permittivities in `Cx ℝ`).
  `pvs` is the function the driver runs: the quadratic root taken with `Cx.sqrt` (numpy's principal branch), whose
  specification `w*w = z ∧ 0 ≤ Re w` is proved in `Proofs/Mixing.lean` (`cxsqrt_isCSqrt`) and is all the theorems use.
-/
import SmrtVerif.Model.Mixing
import SmrtVerif.Proofs.Mixing
import SmrtVerif.Proofs.RealTransc
import Mathlib.Analysis.SpecialFunctions.Log.Deriv
import Mathlib.Analysis.SpecialFunctions.Trigonometric.Arctan
import Mathlib.Analysis.SpecialFunctions.Trigonometric.Bounds

namespace Smrt.Props.C15
open Smrt Smrt.Mixing

/-! ### Polder–van Santen / Bruggeman: defining equations -/

/-- the returned value solves the quadratic `a x² + b x + c = 0` of its inclusion shape (spheres and random needles) -/
theorem pvs_solves_quadratic (s : Shape) (f : ℝ) (e0 eps x : Cx ℝ) (a : ℝ) (b c : Cx ℝ)
    (h : pvs s f e0 eps = .ok x) (hc : pvsCoeffs s f e0 eps = some (a, b, c)) :
    Cx.smul a (x * x) + b * x + c = czero := by
  obtain ⟨_, _, a', b', c', hc', rfl⟩ := pvsWith_ok h
  rw [hc] at hc'
  simp only [Option.some.injEq, Prod.mk.injEq] at hc'
  obtain ⟨rfl, rfl, rfl⟩ := hc'
  exact quadRoot_solves _ cxsqrt_sq a (pvsCoeffs_a_ne_zero hc) b c

/-- spheres: the value solves the implicit Bruggeman equation
    `(1−f)(e0−x)/(e0+2x) + f(eps−x)/(eps+2x) = 0` (denominators non-zero) -/
theorem pvs_solves_bruggeman (f : ℝ) (e0 eps x : Cx ℝ) (h : pvs .spheres f e0 eps = .ok x)
    (hd0 : e0 + Cx.smul 2 x ≠ czero) (hd1 : eps + Cx.smul 2 x ≠ czero) :
    Cx.smul (1 - f) ((e0 - x) / (e0 + Cx.smul 2 x)) + Cx.smul f ((eps - x) / (eps + Cx.smul 2 x)) = czero :=
  bruggeman_of_quadratic f e0 eps x (pvs_solves_quadratic .spheres f e0 eps x 2 _ _ h rfl) hd0 hd1

/-- the value is a zero of the residual the three-component solver uses, reduced to two components
    (`x (1 − 3 f (eps−e0)/(2x+eps)) − e0`); random needles: of the general residual with depolarisation (1/2, 1/2, 0) -/
theorem pvs_zero_of_two_component_residual (f : ℝ) (e0 eps x : Cx ℝ) :
    (pvs .spheres f e0 eps = .ok x → Cx.smul 2 x + eps ≠ czero → resid2Sph f e0 eps x = czero) ∧
    (pvs .needles f e0 eps = .ok x → x ≠ czero → x + eps ≠ czero → resid2Gen f e0 eps [1 / 2, 1 / 2, 0] x = czero) := by
  constructor
  · intro h hden
    obtain ⟨_, _, a, b, c, hc, rfl⟩ := pvsWith_ok h
    simp only [pvsCoeffs, Option.some.injEq, Prod.mk.injEq] at hc
    obtain ⟨rfl, rfl, rfl⟩ := hc
    exact resid2Sph_root _ cxsqrt_sq f e0 eps hden
  · intro h hx0 hden
    obtain ⟨_, _, a, b, c, hc, hx⟩ := pvsWith_ok h
    simp only [pvsCoeffs, Option.some.injEq, Prod.mk.injEq] at hc
    obtain ⟨rfl, rfl, rfl⟩ := hc
    exact resid2Gen_needles_root _ cxsqrt_sq f e0 eps x hx hx0 hden

/-! ### symmetry and limits -/

/-- exchanging the two phases: `PvS(f, e0, eps) = PvS(1−f, eps, e0)` (spheres) -/
theorem pvs_symmetric (f : ℝ) (e0 eps : Cx ℝ) (hf0 : 0 ≤ f) (hf1 : f ≤ 1) :
    pvs .spheres f e0 eps = pvs .spheres (1 - f) eps e0 := by
  unfold pvs
  rw [pvsWith_spheres _ _ _ _ hf1, pvsWith_spheres _ _ _ _ (by linarith)]
  obtain ⟨hb, hc⟩ := pvs_sym_coeffs f e0 eps
  rw [hb, hc]

/-- `f = 0 ↦ e0`, `f = 1 ↦ eps`; the hypothesis places the perfect-square discriminant on the principal branch
    (it holds for every passive material, `Re ε > 0`) -/
theorem pvs_limits (e0 eps : Cx ℝ) :
    (0 < eps.re + 2 * e0.re → pvs .spheres 0 e0 eps = .ok e0) ∧
    (0 < e0.re + 2 * eps.re → pvs .spheres 1 e0 eps = .ok eps) ∧
    (0 < eps.re + e0.re → pvs .needles 0 e0 eps = .ok e0) ∧
    (0 < 2 * eps.re + e0.re → pvs .needles 1 e0 eps = .ok eps) :=
  ⟨pvs_spheres_f0 cxsqrt_isCSqrt e0 eps, pvs_spheres_f1 cxsqrt_isCSqrt e0 eps,
   pvs_needles_f0 cxsqrt_isCSqrt e0 eps, pvs_needles_f1 cxsqrt_isCSqrt e0 eps⟩

/-! ### Maxwell Garnett -/

/-- `maxwell_garnett_for_spheres` = `maxwell_garnett` with isotropic depolarisation (also the default, length ratio 1)
    = `permittivity_hashin_shtrikman`; the guards are the denominators of the three expressions -/
theorem mg_spheres_eq_general_eq_hs (f : ℝ) (e0 eps : Cx ℝ) (hf1 : f ≤ 1)
    (hD : eps + Cx.smul 2 e0 - Cx.smul f (eps - e0) ≠ czero) (hP : eps + Cx.smul 2 e0 ≠ czero) :
    maxwellGarnett f e0 eps true (1 / 3, 1 / 3, 1 / 3) = .ok (mgSpheres f e0 eps) ∧
    maxwellGarnett f e0 eps true (depolFactors 1) = .ok (mgSpheres f e0 eps) ∧
    hashinShtrikman f e0 eps = mgSpheres f e0 eps := by
  have h1 : maxwellGarnett f e0 eps true (1 / 3, 1 / 3, 1 / 3) = .ok (mgSpheres f e0 eps) := by
    simp only [maxwellGarnett, not_lt.mpr hf1, if_false, Bool.not_true, Bool.false_eq_true]
    rw [mgMean_iso, mgSpheres_eq_component f e0 eps hD]
  have hdep : depolFactors (1 : ℝ) = (1 / 3, 1 / 3, 1 / 3) := by
    simp only [depolFactors, anisotropyQ, lt_irrefl, if_false]; norm_num
  exact ⟨h1, by rw [hdep]; exact h1, hs_eq_mgSpheres f e0 eps hD hP⟩

/-- `f = 0 ↦ e0`, `f = 1 ↦ eps` for every depolarisation triple -/
theorem mg_limits (e0 eps : Cx ℝ) (A : ℝ × ℝ × ℝ) :
    mgMean 0 e0 eps A = e0 ∧ (e0 ≠ czero → mgMean 1 e0 eps A = eps) := by
  constructor
  · simp only [mgMean, mgComponent_f0]; apply toC_inj; simp only [toC_sdiv, toC_add]; push_cast; ring
  · intro h0
    simp only [mgMean, mgComponent_f1 _ _ _ h0]; apply toC_inj; simp only [toC_sdiv, toC_add]; push_cast; ring

/-- **mg_spheres_passive**: Maxwell Garnett for spheres (= Hashin-Shtrikman, = the general formula at depolarisation 1/3) of two passive
    media - positive real parts, non-negative imaginary parts - is passive for every fractional volume in `[0, 1]`: `Re > 0`, `Im ≥ 0`
    (the numerators are sums of non-negative monomials in the real and imaginary parts) -/
theorem mg_spheres_passive (f : ℝ) (e0 eps : Cx ℝ) (hf0 : 0 ≤ f) (hf1 : f ≤ 1) (h0 : 0 < e0.re) (he : 0 < eps.re)
    (h0i : 0 ≤ e0.im) (hei : 0 ≤ eps.im) : 0 < (mgSpheres f e0 eps).re ∧ 0 ≤ (mgSpheres f e0 eps).im := by
  rcases e0 with ⟨a, b⟩; rcases eps with ⟨c, d⟩
  exact ⟨mgSpheres_re_pos f a b c d hf0 hf1 h0 he h0i hei, mgSpheres_im_nonneg f a b c d hf0 hf1 h0 he h0i hei⟩

/-! ### loss-free constituents: bounds and monotonicity -/

/-- Maxwell Garnett with any depolarisation factors in `[0,1]` (spheres, spheroids of any length ratio) is real and lies
    between the Wiener bounds (harmonic and arithmetic means) -/
theorem mg_between_wiener (f e0 eps A1 A2 A3 : ℝ) (h0 : 0 < e0) (he : 0 < eps) (hf0 : 0 ≤ f) (hf1 : f ≤ 1)
    (hA1 : 0 ≤ A1 ∧ A1 ≤ 1) (hA2 : 0 ≤ A2 ∧ A2 ≤ 1) (hA3 : 0 ≤ A3 ∧ A3 ≤ 1) :
    (mgMean f ⟨e0, 0⟩ ⟨eps, 0⟩ (A1, A2, A3)).im = 0 ∧
    1 / ((1 - f) / e0 + f / eps) ≤ (mgMean f ⟨e0, 0⟩ ⟨eps, 0⟩ (A1, A2, A3)).re ∧
    (mgMean f ⟨e0, 0⟩ ⟨eps, 0⟩ (A1, A2, A3)).re ≤ (1 - f) * e0 + f * eps := by
  rw [mgMean_real]
  have l1 := harm_le_mgReal h0 he hf0 hf1 hA1.1 hA1.2
  have l2 := harm_le_mgReal h0 he hf0 hf1 hA2.1 hA2.2
  have l3 := harm_le_mgReal h0 he hf0 hf1 hA3.1 hA3.2
  have u1 := mgReal_le_arith h0 he hf0 hf1 hA1.1 hA1.2
  have u2 := mgReal_le_arith h0 he hf0 hf1 hA2.1 hA2.2
  have u3 := mgReal_le_arith h0 he hf0 hf1 hA3.1 hA3.2
  refine ⟨rfl, ?_, ?_⟩ <;> simp only <;> linarith

/-- Maxwell Garnett is monotone in the fractional volume: increasing if `e0 ≤ eps`, decreasing if `eps ≤ e0` -/
theorem mg_monotone (f g e0 eps A1 A2 A3 : ℝ) (h0 : 0 < e0) (he : 0 < eps) (hf0 : 0 ≤ f) (hfg : f ≤ g) (hg1 : g ≤ 1)
    (hA1 : 0 ≤ A1 ∧ A1 ≤ 1) (hA2 : 0 ≤ A2 ∧ A2 ≤ 1) (hA3 : 0 ≤ A3 ∧ A3 ≤ 1) :
    (e0 ≤ eps → (mgMean f ⟨e0, 0⟩ ⟨eps, 0⟩ (A1, A2, A3)).re ≤ (mgMean g ⟨e0, 0⟩ ⟨eps, 0⟩ (A1, A2, A3)).re) ∧
    (eps ≤ e0 → (mgMean g ⟨e0, 0⟩ ⟨eps, 0⟩ (A1, A2, A3)).re ≤ (mgMean f ⟨e0, 0⟩ ⟨eps, 0⟩ (A1, A2, A3)).re) := by
  rw [mgMean_real, mgMean_real]
  constructor <;> intro hle <;> simp only
  · have m1 := mgReal_mono h0 he hf0 hfg hg1 hA1.1 hA1.2 hle
    have m2 := mgReal_mono h0 he hf0 hfg hg1 hA2.1 hA2.2 hle
    have m3 := mgReal_mono h0 he hf0 hfg hg1 hA3.1 hA3.2 hle
    linarith
  · have m1 := mgReal_anti h0 he hf0 hfg hg1 hA1.1 hA1.2 hle
    have m2 := mgReal_anti h0 he hf0 hfg hg1 hA2.1 hA2.2 hle
    have m3 := mgReal_anti h0 he hf0 hfg hg1 hA3.1 hA3.2 hle
    linarith

/-- Polder–van Santen (spheres) is real and lies between the two Hashin–Shtrikman bounds
    `MG(f, e0, eps)` and `MG(1−f, eps, e0)` -/
theorem pvs_between_hs (f e0 eps : ℝ) (x : Cx ℝ) (h0 : 0 < e0) (he : 0 < eps) (hf0 : 0 ≤ f) (hf1 : f ≤ 1)
    (h : pvs .spheres f ⟨e0, 0⟩ ⟨eps, 0⟩ = .ok x) :
    x.im = 0 ∧
    (e0 ≤ eps → (mgSpheres f ⟨e0, 0⟩ ⟨eps, 0⟩).re ≤ x.re ∧ x.re ≤ (mgSpheres (1 - f) ⟨eps, 0⟩ ⟨e0, 0⟩).re) ∧
    (eps ≤ e0 → (mgSpheres (1 - f) ⟨eps, 0⟩ ⟨e0, 0⟩).re ≤ x.re ∧ x.re ≤ (mgSpheres f ⟨e0, 0⟩ ⟨eps, 0⟩).re) := by
  unfold pvs at h
  rw [pvs_spheres_real cxsqrt_isCSqrt h0 he hf1] at h
  simp only [Except.ok.injEq] at h
  subst h
  rw [mgSpheres_real h0 he hf0 hf1, mgSpheres_real he h0 (sub_nonneg.mpr hf1) (by linarith)]
  refine ⟨rfl, fun hle => pvs_between_hs_real h0 he hf0 hf1 hle, fun hle => ?_⟩
  have := pvs_between_hs_real he h0 (sub_nonneg.mpr hf1) (by linarith : 1 - f ≤ 1) hle
  rw [pvsRealS_symm, sub_sub_cancel] at this
  exact this

/-- Polder–van Santen is monotone in the fractional volume (both shapes) -/
theorem pvs_monotone (s : Shape) (f g e0 eps : ℝ) (x y : Cx ℝ) (h0 : 0 < e0) (he : 0 < eps) (hf0 : 0 ≤ f) (hfg : f ≤ g) (hg1 : g ≤ 1)
    (hx : pvs s f ⟨e0, 0⟩ ⟨eps, 0⟩ = .ok x) (hy : pvs s g ⟨e0, 0⟩ ⟨eps, 0⟩ = .ok y) :
    (e0 ≤ eps → x.re ≤ y.re) ∧ (eps ≤ e0 → y.re ≤ x.re) := by
  unfold pvs at hx hy
  cases s with
  | spheres =>
    rw [pvs_spheres_real cxsqrt_isCSqrt h0 he (hfg.trans hg1)] at hx
    rw [pvs_spheres_real cxsqrt_isCSqrt h0 he hg1] at hy
    simp only [Except.ok.injEq] at hx hy
    subst hx; subst hy
    exact ⟨pvsRealS_mono h0 he hfg, pvsRealS_anti h0 he hfg⟩
  | needles =>
    rw [pvs_needles_real cxsqrt_isCSqrt h0 he hf0 (hfg.trans hg1)] at hx
    rw [pvs_needles_real cxsqrt_isCSqrt h0 he (hf0.trans hfg) hg1] at hy
    simp only [Except.ok.injEq] at hx hy
    subst hx; subst hy
    exact ⟨pvsRealN_mono h0 he hf0 hfg hg1, pvsRealN_anti h0 he hf0 hfg hg1⟩
  | other => simp [pvsWith, pvsCoeffs, not_lt.mpr (hfg.trans hg1)] at hx

/-- random needles, proved part of the bounds: real, non-negative and below the arithmetic mean (upper Wiener bound) -/
theorem pvs_needles_bounds_partial (f e0 eps : ℝ) (x : Cx ℝ) (h0 : 0 < e0) (he : 0 < eps) (hf0 : 0 ≤ f) (hf1 : f ≤ 1)
    (h : pvs .needles f ⟨e0, 0⟩ ⟨eps, 0⟩ = .ok x) :
    x.im = 0 ∧ 0 ≤ x.re ∧ x.re ≤ (1 - f) * e0 + f * eps := by
  unfold pvs at h
  rw [pvs_needles_real cxsqrt_isCSqrt h0 he hf0 hf1] at h
  simp only [Except.ok.injEq] at h
  subst h
  exact ⟨rfl, pvsRealN_nonneg h0 he hf0 hf1, pvsRealN_le_arith h0 he hf0 hf1⟩

/-- **pvs_needles_between_hs** (formerly a `_full` claim): the random-needles Polder–van Santen value of two loss-free phases lies
    between the Hashin–Shtrikman bounds (the Maxwell Garnett values of the mixture and of its phase-inverted twin) - from the sign of the
    needles quadratic at the two bounds, `∓ f(1−f)(ε−e0)³·(positive)` -/
theorem pvs_needles_between_hs (f e0 eps : ℝ) (x : Cx ℝ) (h0 : 0 < e0) (he : 0 < eps) (hf0 : 0 ≤ f) (hf1 : f ≤ 1)
    (h : pvs .needles f ⟨e0, 0⟩ ⟨eps, 0⟩ = .ok x) :
    (e0 ≤ eps → (mgSpheres f ⟨e0, 0⟩ ⟨eps, 0⟩).re ≤ x.re ∧ x.re ≤ (mgSpheres (1 - f) ⟨eps, 0⟩ ⟨e0, 0⟩).re) ∧
    (eps ≤ e0 → (mgSpheres (1 - f) ⟨eps, 0⟩ ⟨e0, 0⟩).re ≤ x.re ∧ x.re ≤ (mgSpheres f ⟨e0, 0⟩ ⟨eps, 0⟩).re) ∧
    min (mgSpheres f ⟨e0, 0⟩ ⟨eps, 0⟩).re (mgSpheres (1 - f) ⟨eps, 0⟩ ⟨e0, 0⟩).re ≤ x.re ∧
    x.re ≤ max (mgSpheres f ⟨e0, 0⟩ ⟨eps, 0⟩).re (mgSpheres (1 - f) ⟨eps, 0⟩ ⟨e0, 0⟩).re := by
  unfold pvs at h
  rw [pvs_needles_real cxsqrt_isCSqrt h0 he hf0 hf1] at h
  simp only [Except.ok.injEq] at h
  subst h
  rw [mgSpheres_real h0 he hf0 hf1, mgSpheres_real he h0 (sub_nonneg.mpr hf1) (by linarith)]
  obtain ⟨hup, hdn⟩ := pvsN_between_hs_real h0 he hf0 hf1
  refine ⟨hup, hdn, ?_, ?_⟩
  · rcases le_total e0 eps with hle | hle
    · exact le_trans (min_le_left _ _) (hup hle).1
    · exact le_trans (min_le_right _ _) (hdn hle).1
  · rcases le_total e0 eps with hle | hle
    · exact le_trans (hup hle).2 (le_max_right _ _)
    · exact le_trans (hdn hle).2 (le_max_left _ _)

/-! ### mixtures of shapes -/

/-- a mixture is `Σ wᵢ · valueᵢ`; in the sequence form with one ratio less than shapes the last weight is deduced and the
    weights sum to 1; any other length mismatch is an `SMRTError` -/
theorem mixture_convex :
    (∀ ps : List (ℝ × Cx ℝ), toC (mixSum ps) = (ps.map (fun p => (p.1 : ℂ) * toC p.2)).sum) ∧
    (∀ (rs : List ℝ) (n : ℕ), rs.length + 1 = n → ∃ ws, mixWeights n rs = .ok ws ∧ ws.length = n ∧ ws.sum = 1) ∧
    (∀ (rs : List ℝ) (n : ℕ), rs.length + 1 ≠ n → rs.length ≠ n → mixWeights n rs = .error .smrt) :=
  ⟨toC_mixSum, mixWeights_deduced, fun rs n h1 h2 => by simp [mixWeights, h1, h2]⟩

/-- the documented two-shape mixture with ratio `r`: `r · PvS(spheres) + (1−r) · PvS(needles)`; for loss-free constituents
    and `0 ≤ r ≤ 1` it lies between the two components -/
theorem mixture_two_shapes (f r : ℝ) (e0 eps xs xn : Cx ℝ)
    (hs : pvs .spheres f e0 eps = .ok xs) (hn : pvs .needles f e0 eps = .ok xn) :
    ∃ m, pvsList f e0 eps false [.spheres, .needles] [r] = .ok m ∧
      pvsMixture f e0 eps false [(.spheres, r), (.needles, 1 - r)] = .ok m ∧
      toC m = (r : ℂ) * toC xs + ((1 - r : ℝ) : ℂ) * toC xn ∧
      (0 ≤ r → r ≤ 1 → min xs.re xn.re ≤ m.re ∧ m.re ≤ max xs.re xn.re) := by
  unfold pvs at hs hn
  refine ⟨mixSum [(r, xs), (1 - r, xn)], ?_, ?_, ?_, ?_⟩
  · simp [pvsList, mixWeights, pvsMixture, pvsMixtureWith, hs, hn, Except.map, bind, Except.bind, pure, Except.pure]
  · simp [pvsMixture, pvsMixtureWith, hs, hn, Except.map, bind, Except.bind, pure, Except.pure]
  · rw [toC_mixSum]; simp
  · intro hr0 hr1
    have hre : (mixSum [(r, xs), (1 - r, xn)]).re = r * xs.re + (1 - r) * xn.re := by
      rw [← toC_re, toC_mixSum]; simp [toC]
    rw [hre]
    constructor
    · rcases le_total xs.re xn.re with hle | hle
      · rw [min_eq_left hle]; nlinarith
      · rw [min_eq_right hle]; nlinarith
    · rcases le_total xs.re xn.re with hle | hle
      · rw [max_eq_right hle]; nlinarith
      · rw [max_eq_left hle]; nlinarith

/-! ### three components -/

/-- with a vanishing fraction the three-component residual *is* the two-component residual (both solvers), the general
    residual with isotropic depolarisation is the spherical one, hence the two-component PvS value is a root of the
    equation handed to the solver.  (That `scipy.optimize.root` converges to this root is not a theorem: the oracle
    tests it on the implementation.) -/
theorem three_reduce (f : ℝ) (e0 e1 e2 x : Cx ℝ) (A1 A2 : List ℝ) :
    resid3Sph f 0 e0 e1 e2 x = resid2Sph f e0 e1 x ∧
    resid3Sph 0 f e0 e1 e2 x = resid2Sph f e0 e2 x ∧
    resid3Gen f 0 e0 e1 e2 A1 A2 x = resid2Gen f e0 e1 A1 x ∧
    resid3Gen 0 f e0 e1 e2 A1 A2 x = resid2Gen f e0 e2 A2 x ∧
    resid2Gen f e0 e1 [1 / 3, 1 / 3, 1 / 3] x = resid2Sph f e0 e1 x ∧
    (pvs .spheres f e0 e1 = .ok x → Cx.smul 2 x + e1 ≠ czero →
      resid3Sph f 0 e0 e1 e2 x = czero ∧ resid3Gen f 0 e0 e1 e2 [1 / 3, 1 / 3, 1 / 3] A2 x = czero) := by
  refine ⟨resid3Sph_f2_zero .., resid3Sph_f1_zero .., resid3Gen_f2_zero .., resid3Gen_f1_zero .., resid2Gen_iso .., ?_⟩
  intro h hden
  have := (pvs_zero_of_two_component_residual f e0 e1 x).1 h hden
  exact ⟨by rw [resid3Sph_f2_zero, this], by rw [resid3Gen_f2_zero, resid2Gen_iso, this]⟩

/-! ### depolarisation factors -/

/-- the factors sum to 1 for every length ratio (whatever the transcendental functions return) and are (1/3, 1/3, 1/3)
    at ratio 1 -/
theorem depol_factors (lr : ℝ) :
    (depolFactors lr).1 + (depolFactors lr).2.1 + (depolFactors lr).2.2 = 1 ∧
    depolFactors (1 : ℝ) = (1 / 3, 1 / 3, 1 / 3) := by
  constructor
  · simp only [depolFactors]; ring
  · simp only [depolFactors, anisotropyQ, lt_irrefl, if_false]; norm_num

/-- `2χ ≤ ln((1+χ)/(1−χ)) ≤ 2χ/(1−χ²)` on `[0, 1)` (first terms of the series, Mathlib) -/
theorem artanh_bounds {x : ℝ} (h0 : 0 ≤ x) (h1 : x < 1) :
    2 * x ≤ Real.log ((1 + x) / (1 - x)) ∧ Real.log ((1 + x) / (1 - x)) ≤ 2 * x / (1 - x ^ 2) := by
  have a := Real.sum_range_le_log_div h0 h1 1
  have b := Real.log_div_le_sum_range_add h0 h1 0
  simp at a b
  constructor
  · linarith
  · have : 2 * x / (1 - x ^ 2) = 2 * (x / (1 - x ^ 2)) := by ring
    rw [this]; linarith

/-- `χ/(1+χ²) ≤ arctan χ ≤ χ` for `χ ≥ 0` -/
theorem arctan_bounds {x : ℝ} (h0 : 0 ≤ x) : x / (1 + x ^ 2) ≤ Real.arctan x ∧ Real.arctan x ≤ x := by
  set t := Real.arctan x with ht
  have ht0 : 0 ≤ t := by rw [ht, ← Real.arctan_zero]; exact Real.arctan_mono h0
  have ht1 : t < Real.pi / 2 := Real.arctan_lt_pi_div_two x
  have hx : x = Real.tan t := (Real.tan_arctan x).symm
  constructor
  · -- x / (1 + x²) = sin t cos t ≤ t
    have hc : 0 < Real.cos t := Real.cos_arctan_pos x
    have hs : Real.sin t ≤ t := Real.sin_le ht0
    have h1 : x / (1 + x ^ 2) = Real.sin t * Real.cos t := by
      have c2 : Real.cos t ^ 2 = 1 / (1 + x ^ 2) := Real.cos_sq_arctan x
      have hxs : x = Real.sin t / Real.cos t := by rw [hx, Real.tan_eq_sin_div_cos]
      have hpos : 0 < 1 + x ^ 2 := by positivity
      calc x / (1 + x ^ 2) = x * (1 / (1 + x ^ 2)) := by ring
        _ = x * Real.cos t ^ 2 := by rw [c2]
        _ = (Real.sin t / Real.cos t) * Real.cos t ^ 2 := by rw [← hxs]
        _ = Real.sin t * Real.cos t := by field_simp
    rw [h1]
    have hs0 : 0 ≤ Real.sin t := Real.sin_nonneg_of_nonneg_of_le_pi ht0 (by linarith [Real.pi_pos])
    calc Real.sin t * Real.cos t ≤ Real.sin t * 1 := by
          apply mul_le_mul_of_nonneg_left (Real.cos_le_one t) hs0
      _ ≤ t := by linarith
  · rw [hx]
    rcases eq_or_lt_of_le ht0 with h | h
    · rw [← h]; simp
    · exact (Real.lt_tan h ht1).le

/-- **depol_factors_in_unit_interval** (formerly a `_full` claim): for every positive length ratio the anisotropy factor `q` of
    Löwe et al. lies in `[0, 1/2]`, so the three depolarisation factors `(q, q, 1 − 2q)` lie in `[0, 1]` -/
theorem anisotropyQ_range (lr : ℝ) (h : 0 < lr) : 0 ≤ anisotropyQ lr ∧ anisotropyQ lr ≤ 1 / 2 := by
  unfold anisotropyQ
  have hs : 0 < lr * lr := mul_pos h h
  by_cases h1 : 1 < lr
  · rw [if_pos h1]
    simp only [transc_sqrt_real, transc_log_real]
    have hs1 : 1 < lr * lr := by nlinarith
    set s := lr * lr with hsdef
    set χ := Real.sqrt (1 - 1 / s) with hχ
    have harg : 0 < 1 - 1 / s := by
      have : 1 / s < 1 := by rw [div_lt_one hs]; exact hs1
      linarith
    have hχ0 : 0 < χ := Real.sqrt_pos.mpr harg
    have hχ2 : χ ^ 2 = 1 - 1 / s := Real.sq_sqrt harg.le
    have hχ1 : χ < 1 := by
      have hpos : 0 < 1 / s := by positivity
      have hlt : χ ^ 2 < 1 := by rw [hχ2]; linarith
      by_contra hge
      push Not at hge
      nlinarith
    obtain ⟨lo, hi⟩ := artanh_bounds hχ0.le hχ1
    set L := Real.log ((1 + χ) / (1 - χ)) with hL
    have h1mχ : 1 - χ ^ 2 = 1 / s := by rw [hχ2]; ring
    rw [h1mχ] at hi
    -- ratio r = L / (2χ) ∈ [1, s]
    have hr1 : 1 ≤ 1 / (2 * χ) * L := by
      rw [one_div, inv_mul_eq_div, le_div_iff₀ (by positivity)]; linarith
    have hr2 : 1 / (2 * χ) * L ≤ s := by
      rw [one_div, inv_mul_eq_div, div_le_iff₀ (by positivity)]
      have : 2 * χ / (1 / s) = s * (2 * χ) := by field_simp
      linarith
    have hsm : 0 < s - 1 := by linarith
    have e : (1 : ℝ) / (s - 1) * (1 - 1 / (2 * χ) * L) ≤ 0 := by
      apply mul_nonpos_of_nonneg_of_nonpos (by positivity) (by linarith)
    have e2 : -1 ≤ (1 : ℝ) / (s - 1) * (1 - 1 / (2 * χ) * L) := by
      have : (1 : ℝ) / (s - 1) * (1 - s) = -1 := by field_simp; ring
      rw [← this]
      apply mul_le_mul_of_nonneg_left (by linarith) (by positivity)
    generalize (1 : ℝ) / (s - 1) * (1 - 1 / (2 * χ) * L) = E at e e2 ⊢
    constructor <;> norm_num <;> linarith
  · rw [if_neg h1]
    by_cases h2 : lr < 1
    · rw [if_pos h2]
      simp only [transc_sqrt_real, transc_atan_real]
      have hs1 : lr * lr < 1 := by nlinarith
      set s := lr * lr with hsdef
      set χ := Real.sqrt (1 / s - 1) with hχ
      have harg : 0 < 1 / s - 1 := by
        have : 1 < 1 / s := by rw [lt_div_iff₀ hs]; linarith
        linarith
      have hχ0 : 0 < χ := Real.sqrt_pos.mpr harg
      have hχ2 : χ ^ 2 = 1 / s - 1 := Real.sq_sqrt harg.le
      obtain ⟨lo, hi⟩ := arctan_bounds hχ0.le
      set A := Real.arctan χ with hA
      have h1pχ : 1 + χ ^ 2 = 1 / s := by rw [hχ2]; ring
      rw [h1pχ] at lo
      have hr1 : s ≤ 1 / χ * A := by
        rw [one_div, inv_mul_eq_div, le_div_iff₀ hχ0]
        have : χ / (1 / s) = s * χ := by field_simp
        linarith
      have hr2 : 1 / χ * A ≤ 1 := by
        rw [one_div, inv_mul_eq_div, div_le_one hχ0]; exact hi
      have hsm : s - 1 < 0 := by linarith
      have hinv : (1 : ℝ) / (s - 1) < 0 := by rw [one_div]; exact inv_lt_zero.mpr hsm
      have e : (1 : ℝ) / (s - 1) * (1 - 1 / χ * A) ≤ 0 :=
        mul_nonpos_of_nonpos_of_nonneg hinv.le (by linarith)
      have e2 : -1 ≤ (1 : ℝ) / (s - 1) * (1 - 1 / χ * A) := by
        have : (1 : ℝ) / (s - 1) * (1 - s) = -1 := by
          have : s - 1 ≠ 0 := ne_of_lt hsm
          field_simp; ring
        rw [← this]
        apply mul_le_mul_of_nonpos_left (by linarith) hinv.le
      generalize (1 : ℝ) / (s - 1) * (1 - 1 / χ * A) = E at e e2 ⊢
      constructor <;> norm_num <;> linarith
    · rw [if_neg h2]; constructor <;> norm_num

theorem depol_factors_in_unit_interval (lr : ℝ) (h : 0 < lr) :
    0 ≤ (depolFactors lr).1 ∧ (depolFactors lr).1 ≤ 1 ∧ 0 ≤ (depolFactors lr).2.1 ∧ (depolFactors lr).2.1 ≤ 1 ∧
    0 ≤ (depolFactors lr).2.2 ∧ (depolFactors lr).2.2 ≤ 1 := by
  obtain ⟨a, b⟩ := anisotropyQ_range lr h
  simp only [depolFactors]
  refine ⟨a, by linarith, a, by linarith, by linarith, by linarith⟩

example : 0 ≤ (depolFactors (1.2 : ℝ)).2.2 ∧ (depolFactors (0.7 : ℝ)).1 ≤ 1 :=
  ⟨(depol_factors_in_unit_interval 1.2 (by norm_num)).2.2.2.2.1, (depol_factors_in_unit_interval 0.7 (by norm_num)).2.1⟩

/-! ### non-vacuity -/

example : pvs .spheres (0 : ℝ) ⟨1, 0⟩ ⟨3, 0⟩ = .ok ⟨1, 0⟩ := (pvs_limits ⟨1, 0⟩ ⟨3, 0⟩).1 (by norm_num)
example : pvs .needles (1 : ℝ) ⟨1, 0⟩ ⟨3, 1⟩ = .ok ⟨3, 1⟩ := (pvs_limits ⟨1, 0⟩ ⟨3, 1⟩).2.2.2 (by norm_num)
example : ∃ x, pvs .spheres (0.3 : ℝ) ⟨1, 0⟩ ⟨3, 0⟩ = .ok x :=
  ⟨_, pvs_spheres_real cxsqrt_isCSqrt (by norm_num) (by norm_num) (by norm_num)⟩
example : ((⟨3, 1⟩ : Cx ℝ) + Cx.smul 2 ⟨1, 0⟩ - Cx.smul 0.3 (⟨3, 1⟩ - ⟨1, 0⟩) ≠ czero) ∧ ((⟨3, 1⟩ : Cx ℝ) + Cx.smul 2 ⟨1, 0⟩ ≠ czero) := by
  constructor <;> (intro h; have := congrArg Cx.im h; simp [czero] at this; first | (change (1:ℝ) + 2 * 0 - 0.3 * (1 - 0) = 0 at this; norm_num at this) | (change (1:ℝ) + 2 * 0 = 0 at this; norm_num at this))
example : mixWeights 2 [(0.3 : ℝ)] = .ok [0.3, 1 - (0 + 0.3)] := by simp [mixWeights]

end Smrt.Props.C15
