/-
  C19 — results, sensors and plugin names resolve consistently.

  * Table theorems (`channel_resolution`, `custom_frequency_names`, `plugin_resolution`) are statements over the
    tables `Gen/C19Sensors.lean` and `Gen/C19Plugins.lean`, regenerated from smrt's source on every run and
    re-proved by kernel evaluation.
  * The other theorems are about the finite-map model of `smrt/core/result.py` (`Model/ResultMap.lean`), tied to
    the code by the correspondence of `harness/pC19.py`.
-/
import SmrtVerif.Model.ResultMap
import SmrtVerif.Proofs.ResultMap
import SmrtVerif.Gen.C19Sensors
import SmrtVerif.Gen.C19Plugins
import Mathlib.Tactic.FieldSimp
import Mathlib.Tactic.Ring
import Mathlib.Tactic.NormNum
import Mathlib.Tactic.Linarith

namespace Smrt.Props.C19
open Smrt Smrt.RM

/-! ### regenerated tables -/

/-- every predefined sensor (every constructor of `sensor_list` / `altimeter_list`, every documented channel
    argument): each value a channel fixes is one of the sensor's values on that dimension; a channel fixing every
    multi-valued dimension selects exactly one coordinate tuple; distinct channels select distinct tuples; all
    channels of a sensor fix the same dimensions. -/
theorem channel_resolution : ∀ s ∈ Gen.C19.allSensors, s.ChannelResolution := by decide +kernel

/-- the channels of a conical radiometer built from a custom frequency list are named by their GHz value -/
theorem custom_frequency_names : ∀ e ∈ Gen.C19.customChannels, CustomNameOk e := by decide +kernel

/-- every module file of emmodel, rtsolver, interface, substrate, microstructure_model, atmosphere that defines a
    class implementing the directory's interface resolves (by the rule of `plugin.do_import_class`: first public
    class by name defined in the module) to a class that implements it. -/
theorem plugin_resolution : ∀ m ∈ Gen.C19.plugins, m.Resolves Gen.C19.plugins := by decide +kernel

-- non-vacuity: the tables are not empty, there are model modules and multi-channel sensors
example : 100 ≤ Gen.C19.allSensors.length ∧ 40 ≤ (Gen.C19.plugins.filter (·.isModel Gen.C19.plugins)).length ∧
    10 ≤ (Gen.C19.allSensors.filter (fun s => 2 ≤ s.channels.length)).length ∧ 1 ≤ Gen.C19.customChannels.length := by
  decide +kernel

/-- the rule picks a public class defined in the module -/
theorem pick_public (m : Mod) (c : Cls) (h : m.pick = some c) : c ∈ m.classes ∧ c.name.startsWith "_" = false := by
  unfold Mod.pick at h
  have key : ∀ (l : List Cls) (acc : Option Cls),
      (∀ a, acc = some a → a ∈ m.classes ∧ a.name.startsWith "_" = false) →
      (∀ x ∈ l, x ∈ m.classes ∧ x.name.startsWith "_" = false) →
      ∀ a, l.foldl (fun acc c => match acc with
        | none => some c
        | some a => if c.name < a.name then some c else some a) acc = some a →
        a ∈ m.classes ∧ a.name.startsWith "_" = false := by
    intro l
    induction l with
    | nil => intro acc hacc _ a ha; exact hacc a ha
    | cons x xs ih =>
      intro acc hacc hl a ha
      simp only [List.foldl_cons] at ha
      refine ih _ ?_ (fun y hy => hl y (by simp [hy])) a ha
      intro b hb
      cases acc with
      | none => simp at hb; subst hb; exact hl x (by simp)
      | some a0 =>
        simp only at hb
        split at hb
        · simp at hb; subst hb; exact hl x (by simp)
        · simp at hb; subst hb; exact hacc a0 rfl
  refine key _ none (by simp) ?_ c h
  intro x hx
  have := List.mem_filter.mp hx
  exact ⟨this.1, by simpa using this.2⟩

/-- user-registered packages take precedence: the most recently registered package that has the module wins -/
theorem user_precedence (user : List Pkg) (p smrtPkg : Pkg) (m c : String)
    (hrel : isRelative m = false)
    (hp : doImport p m = some (some c)) :
    importClass (register user p) smrtPkg m = .cls 0 c := by
  simp [importClass, register, hrel, importClass.go, hp]

/-- without a user package providing the module, the class comes from smrt -/
theorem smrt_fallback (user : List Pkg) (smrtPkg : Pkg) (m c : String)
    (hrel : isRelative m = false)
    (hu : ∀ p ∈ user, doImport p m = none) (hs : doImport smrtPkg m = some (some c)) :
    importClass user smrtPkg m = .cls user.length c := by
  simp only [importClass, hrel]
  rw [importClass_go_skip user [smrtPkg] m 0 hu]
  simp [importClass.go, hs]

/-- an earlier registered package is shadowed only by later ones that have the module -/
theorem user_precedence_order (later : List Pkg) (p : Pkg) (earlier : List Pkg) (smrtPkg : Pkg) (m c : String)
    (hrel : isRelative m = false)
    (hl : ∀ q ∈ later, doImport q m = none) (hp : doImport p m = some (some c)) :
    importClass (later ++ p :: earlier) smrtPkg m = .cls later.length c := by
  simp only [importClass, hrel]
  rw [List.append_assoc, importClass_go_skip later _ m 0 hl]
  simp [importClass.go, hp]

example : importClass (register [] (fun n => if n == "emmodel.iba" then some ⟨"emmodel", "iba", [⟨"MyIBA", [], [], none⟩]⟩ else none))
    (fun n => if n == "emmodel.iba" then some ⟨"emmodel", "iba", [⟨"IBA", [], [], none⟩, ⟨"IBA_MM", [], [], none⟩]⟩ else none)
    "emmodel.iba" = .cls 0 "MyIBA" := by decide +kernel

/-! ### selection -/

/-- selecting by channel name is selecting by the channel's explicit coordinates (those of its map that are
    dimensions of the result) -/
theorem sel_channel_eq_explicit {α : Type} (r : Res α) (cm : List Chan) (ch : String) (fx : Fix)
    (h : r.channelFix cm ch = .ok fx) :
    r.selData cm (some ch) [] = r.selData cm none fx := by
  simp [Res.selData, Res.selArgs, h, Res.update, Except.map, Except.bind]

/-- explicit arguments that the channel fixes as well do not change the selection (`kwargs.update`) -/
theorem sel_channel_overrides {α : Type} (r : Res α) (cm : List Chan) (ch : String) (fx kw : Fix)
    (h : r.channelFix cm ch = .ok fx) (hk : ∀ p ∈ kw, (fx.lookup p.1).isSome = true) :
    r.selData cm (some ch) kw = r.sel fx := by
  have : kw.filter (fun p => (fx.lookup p.1).isNone) = [] := by
    rw [List.filter_eq_nil_iff]
    intro p hp
    simp [Option.isSome_iff_ne_none.mp (hk p hp)]
  simp [Res.selData, Res.selArgs, h, Res.update, Except.map, Except.bind, this]

/-- the channel's map only ever restricts dimensions the result has, and with the values of the map -/
theorem channelFix_sub {α : Type} (r : Res α) (cm : List Chan) (ch : String) (fx : Fix)
    (h : r.channelFix cm ch = .ok fx) :
    ∃ c ∈ cm, c.name = ch ∧ ∀ f ∈ fx, f ∈ c.fixes ∧ f.1 ∈ r.dims := by
  unfold Res.channelFix at h
  split at h
  · cases h
  · rename_i c hc
    cases h
    refine ⟨c, List.mem_of_find?_eq_some hc, by simpa using List.find?_some hc, ?_⟩
    intro f hf
    have := List.mem_filter.mp hf
    exact ⟨this.1, by simpa using this.2⟩

/-- **a single value**: when the selection fixes every dimension of a result whose cells have pairwise distinct
    coordinate tuples, and the fixed tuple is a cell, the selection is exactly that cell's value (0 dimensions). -/
theorem sel_single {α : Type} (r : Res α) (fix : Fix) (v : α)
    (hlen : ∀ c ∈ r.cells, c.1.length = r.dims.length)
    (hnd : (r.cells.map (·.1)).Nodup)
    (hall : ∀ d ∈ r.dims, (fix.lookup d).isSome = true)
    (hmem : (r.dims.map (fun d => (fix.lookup d).getD ""), v) ∈ r.cells) :
    r.selRaw fix = ⟨[], [([], v)]⟩ := by
  unfold Res.selRaw
  rw [Res.dropDims_all_fixed r.dims fix hall]
  rw [Res.filter_key_eq r.cells _ v (fun k => Res.keep r.dims fix k)
    (fun c hc => Res.keep_iff_eq r.dims fix c.1 (hlen c hc) hall) hnd hmem]
  simp [Res.dropKey_all_fixed r.dims fix _ hall]

example : ((⟨["frequency", "polarization"], [(["19", "V"], 15), (["19", "H"], 25), (["37", "V"], 35), (["37", "H"], 45)]⟩ : Res Nat).selRaw
    [("polarization", "H"), ("frequency", "37")]).cells = [([], 45)] := by decide +kernel

/-! ### backscatter and dB -/

/-- linear backscattering coefficient = 4π cos θ × the stored intensity (θ in degrees) -/
theorem sigma_conversion (θ I : ℝ) : sigmaLin Real.pi θ I = 4 * Real.pi * Real.cos (θ * Real.pi / 180) * I := by
  simp only [sigmaLin, deg2rad, Transc.cos]
  norm_num
  left; ring_nf

/-- with a scalar incidence angle, `sigma` is the selection at `theta_inc = θ` (and `theta = θ` when that
    dimension exists) with every cell multiplied by `4π cos θ`: the conversion commutes with selection. -/
theorem sigma_scalar {α : Type} [Add α] [Sub α] [Mul α] [Div α] [Neg α] [OfScientific α] [OfNat α 0] [OfNat α 1] [Transc α]
    (pi : α) (ang : String → α) (r : Res α) (t : String) (kw : Fix)
    (hkw : ∀ p ∈ kw, p.1 ≠ "theta" ∧ p.1 ≠ "theta_inc") :
    Res.sigma pi ang r [] none (("theta_inc", t) :: kw) = (r.selectTheta t kw).map (Res.mapVals (sigmaLin pi (ang t))) := by
  have hf : kw.filter (fun p => p.1 != "theta" && p.1 != "theta_inc") = kw := by
    rw [List.filter_eq_self]
    intro p hp
    simp [hkw p hp]
  have hth : kw.lookup "theta" = none := by
    rw [List.lookup_eq_none_iff]
    intro p hp
    simp only [bne_iff_ne, ne_eq]
    exact fun h => (hkw p hp).1 h.symm
  simp only [Res.sigma, Res.selArgs, bind, Except.bind, pure, Except.pure]
  simp [List.lookup, hth, hf, Except.map]

/-- `dB x = 10 log₁₀ x` on the range where the floor of −200 dB does not act -/
theorem dB_eq_logb (x : ℝ) (hx : 1e-20 ≤ x) : dB x = 10 * Real.logb 10 x := by
  simp only [dB, Transc.log, Real.logb]
  rw [if_neg (not_lt.mpr hx)]
  norm_num
  ring

/-- `invdB ∘ dB = id` for x ≥ 1e-20 (so for every physically meaningful backscatter) -/
theorem invdB_dB (x : ℝ) (hx : 1e-20 ≤ x) : invdB (dB x) = x := by
  have hx0 : 0 < x := lt_of_lt_of_le (by norm_num) hx
  have hl : Real.log 10 ≠ 0 := by
    have : (0:ℝ) < Real.log 10 := Real.log_pos (by norm_num)
    exact ne_of_gt this
  simp only [invdB, dB, Transc.log, Transc.exp]
  rw [if_neg (not_lt.mpr hx)]
  have : (10.0 * Real.log x / Real.log 10.0 / 10.0 * Real.log 10.0 : ℝ) = Real.log x := by
    norm_num
    field_simp
  rw [this, Real.exp_log hx0]

/-- `dB ∘ invdB = id` above −200 dB -/
theorem dB_invdB (y : ℝ) (hy : -200 ≤ y) : dB (invdB y) = y := by
  have hl : (0:ℝ) < Real.log 10 := Real.log_pos (by norm_num)
  have h10 : (10.0 : ℝ) = 10 := by norm_num
  simp only [invdB, dB, Transc.log, Transc.exp, h10]
  have hge : (1e-20 : ℝ) ≤ Real.exp (y / 10 * Real.log 10) := by
    have h1 : (1e-20 : ℝ) = Real.exp (-20 * Real.log 10) := by
      rw [show (-20 * Real.log 10 : ℝ) = Real.log ((10:ℝ) ^ (-20 : ℤ)) by rw [Real.log_zpow]; push_cast; ring]
      rw [Real.exp_log (by positivity)]
      norm_num
    rw [h1]
    apply Real.exp_le_exp.mpr
    nlinarith
  rw [if_neg (not_lt.mpr hge), Real.log_exp]
  field_simp

example : (1e-20 : ℝ) ≤ 0.003 := by norm_num

/-! ### sensors -/

/-- frequency × wavelength = c, whichever of the two the sensor was built from -/
theorem frequency_wavelength (c f : ℝ) (hf : f ≠ 0) : f * wavelengthOf c f = c := by
  simp only [wavelengthOf]; field_simp

theorem wavelength_frequency (c wl : ℝ) (hw : wl ≠ 0) : frequencyOf c wl * wl = c := by
  simp only [frequencyOf]; field_simp

/-- a sensor is accepted iff its zenith angles are pairwise distinct -/
theorem duplicate_angles_rejected (θ : List String) : checkAngles θ = .ok () ↔ θ.Nodup := by
  unfold checkAngles
  rw [← hasDup_eq_false_iff]
  cases hasDup θ <;> simp

/-! ### concatenation, exports, save / open -/

/-- concatenation along a new dimension keeps every value at its coordinate (and adds nothing): the cell
    `(vᵢ :: k, x)` is in the concatenated result iff `(k, x)` is a cell of the i-th piece -/
theorem concat_keeps {α : Type} (name : String) (vals : List String) (rs : List (Res α)) (c : Res α)
    (h : Res.concat name vals rs = .ok c) (hnd : vals.Nodup) (i : Nat) (hi : i < rs.length) (hiv : i < vals.length)
    (k : Key) (x : α) :
    (vals[i] :: k, x) ∈ c.cells ↔ (k, x) ∈ rs[i].cells := by
  cases rs with
  | nil => simp at hi
  | cons r0 rest =>
    simp only [Res.concat] at h
    split_ifs at h with h1 h2 h3
    cases h
    have hl : vals.length = (r0 :: rest).length := by simpa using h1
    simp only [List.mem_flatMap, List.mem_map]
    constructor
    · rintro ⟨p, hp, c', hc', heq⟩
      obtain ⟨j, hj, hpj⟩ := List.mem_iff_getElem.mp hp
      simp only [List.getElem_zip] at hpj
      simp only [List.length_zip] at hj
      have hv : p.1 = vals[i] := by injection heq with h1 _; injection h1
      have hk : c'.1 = k := by injection heq with h1 _; injection h1
      have hx : c'.2 = x := by injection heq
      have hji : j = i := by
        have : vals[j]'(by omega) = vals[i] := by rw [← hv, ← hpj]
        exact (List.Nodup.getElem_inj_iff hnd).mp this
      subst hji
      rw [← hpj] at hc'
      simp only at hc'
      rw [← hk, ← hx]
      exact hc'
    · intro hm
      refine ⟨(vals[i], (r0 :: rest)[i]), ?_, (k, x), hm, rfl⟩
      exact List.mem_iff_getElem.mpr ⟨i, by simp only [List.length_zip]; omega, by simp [List.getElem_zip]⟩

/-- … and the dimensions are the new one followed by those of the pieces -/
theorem concat_dims {α : Type} (name : String) (vals : List String) (r0 : Res α) (rs : List (Res α)) (c : Res α)
    (h : Res.concat name vals (r0 :: rs) = .ok c) : c.dims = name :: r0.dims := by
  unfold Res.concat at h
  simp only at h
  split at h
  · cases h
  · split at h
    · cases h
    · split at h
      · cases h
      · cases h; rfl

example : (Res.concat "time" ["0", "1"] [(⟨["p"], [(["V"], (1:Nat)), (["H"], 2)]⟩ : Res Nat), ⟨["p"], [(["V"], 3), (["H"], 4)]⟩]).toOption.isSome = true := by
  decide +kernel

/-- the data frame of a result holds exactly its values, one row per cell, in the same order -/
theorem dataframe_values {α : Type} (r : Res α) (name : String) :
    (r.toFrame name).rows.map (·.2) = r.cells.map (fun c => [c.2]) ∧ (r.toFrame name).columns = [name] := by
  unfold Res.toFrame
  split <;> simp

/-- full statement for the channel-indexed exports (`to_dataframe(channel_axis="column")`, `to_series`): every entry of the
    frame is the value of that column's channel selection at the row's coordinates.  Not proved (the inner join of the
    columns makes the proof long); the definition is exercised by the correspondence slices `result.*.frame` / `result.*.series`
    and the statement is evaluated on the implementation by the oracle (`dataframe-values`, `series-values`). -/
def frame_by_channel_values_full : Prop :=
  ∀ (α : Type) (sel : String → Except Err (Res α)) (cm : List Chan) (f : Frame α), Res.frameByChannel sel cm = .ok f →
    ∀ row ∈ f.rows, ∀ j (hj : j < cm.length) (hr : j < row.2.length), ∃ x, sel cm[j].name = .ok x ∧
      ((x.toFrame "").rows.find? (·.1 == row.1)).bind (·.2.head?) = some row.2[j]

/-- proved part: the frame has one column per channel of the map, in the map's order, and the series is its first row -/
theorem frame_by_channel_columns_partial {α : Type} (sel : String → Except Err (Res α)) (cm : List Chan) (f : Frame α)
    (h : Res.frameByChannel sel cm = .ok f) : f.columns = cm.map (·.name) := by
  unfold Res.frameByChannel at h
  simp only [bind, Except.bind] at h
  split at h
  · cases h
  · rename_i cols _
    cases cols with
    | nil => cases h
    | cons c0 rest => simp only [pure, Except.pure] at h; cases h; rfl

example : Res.seriesOf (⟨["theta"], ["a", "b"], [(["40"], [1, 2]), (["50"], [3, 4])]⟩ : Frame Nat) = some [("a", 1), ("b", 2)] := by
  decide +kernel

/-- a result written to disk and read again is the same map with the same mode, for every well-formed
    (row-major hyper-rectangular) result -/
theorem save_load {α : Type} (mode : String) (r : Res α) (hm : mode = "A" ∨ mode = "P")
    (hwf : r.cells.map (·.1) = tuples ((List.range r.dims.length).map r.coordsAt)) :
    load (save mode r) = (mode, r) := by
  have hzip : (r.cells.map (·.1)).zip (r.cells.map (·.2)) = r.cells := by
    induction r.cells with
    | nil => rfl
    | cons c cs ih => simp [ih]
  unfold load save
  simp only
  rw [← hwf, hzip]
  rcases hm with h | h <;> subst h <;> rfl

-- non-vacuity of `save_load` and `sel_single`: a 2×2 result satisfies the well-formedness hypotheses
example : let r : Res Nat := ⟨["frequency", "polarization"], [(["19", "V"], 15), (["19", "H"], 25), (["37", "V"], 35), (["37", "H"], 45)]⟩
    r.cells.map (·.1) = tuples ((List.range r.dims.length).map r.coordsAt) ∧ (r.cells.map (·.1)).Nodup ∧
    (∀ c ∈ r.cells, c.1.length = r.dims.length) := by decide +kernel

/-- a file without a usable mode attribute is taken as active iff it has an incidence-angle dimension -/
theorem load_guess_mode {α : Type} (s : Stored α) (hm : (s.mode == "A" || s.mode == "P") = false) :
    (load s).1 = if s.dims.contains "theta_inc" then "A" else "P" := by
  simp [load, hm]

/-! ### a list of incidence angles -/

theorem mapM_ok_mem {A B E : Type} (f : A → Except E B) : ∀ (l : List A) (out : List B), l.mapM f = .ok out →
    ∀ b ∈ out, ∃ a ∈ l, f a = .ok b := by
  intro l
  induction l with
  | nil =>
    intro out h b hb
    simp [List.mapM_nil, pure, Except.pure] at h
    subst h; simp at hb
  | cons a l ih =>
    intro out h b hb
    rw [List.mapM_cons] at h
    cases hfa : f a with
    | error e => rw [hfa] at h; simp [bind, Except.bind] at h
    | ok b0 =>
      rw [hfa] at h
      cases hl : l.mapM f with
      | error e => rw [hl] at h; simp [bind, Except.bind] at h
      | ok bs =>
        rw [hl] at h
        simp [bind, Except.bind, pure, Except.pure] at h
        subst h
        rcases List.mem_cons.mp hb with h1 | h1
        · exact ⟨a, by simp, by rw [hfa, h1]⟩
        · obtain ⟨a', ha', hfa'⟩ := ih bs hl b h1
          exact ⟨a', by simp [ha'], hfa'⟩

/-- **sigma_list_cells**: with a list of incidence angles, every cell of the result sits under its own angle `t` and holds
    `4π cos θ_t` times the stored intensity selected at `t` - whatever the number of angles and of remaining dimensions -/
theorem sigmaOver_cells {α : Type} [Add α] [Sub α] [Mul α] [Div α] [Neg α] [OfScientific α] [OfNat α 0] [OfNat α 1] [Transc α]
    (pi : α) (ang : String → α) (r : Res α) (kw' : Fix) (ts : List String) (out : Res α)
    (h : r.sigmaOver pi ang kw' ts = .ok out) :
    ∀ c ∈ out.cells, ∃ t ∈ ts, ∃ x : Res α, r.selectTheta t kw' = .ok x ∧ ∃ c0 ∈ x.cells, c = (t :: c0.1, sigmaLin pi (ang t) c0.2) := by
  intro c hc
  unfold Res.sigmaOver at h
  cases hm : ts.mapM (fun t => do
      let x ← r.selectTheta t kw'
      pure (x.mapVals (sigmaLin pi (ang t)), t)) with
  | error e => rw [hm] at h; simp [bind, Except.bind] at h
  | ok parts =>
    rw [hm] at h
    cases parts with
    | nil => simp [bind, Except.bind, throw, throwThe, MonadExceptOf.throw] at h
    | cons p0 ps =>
      simp only [bind, Except.bind, pure, Except.pure] at h
      injection h with h
      subst h
      simp only [List.mem_flatMap, List.mem_map] at hc
      obtain ⟨p, hp, c1, hc1, rfl⟩ := hc
      obtain ⟨t, ht, hft⟩ := mapM_ok_mem _ ts (p0 :: ps) hm p hp
      cases hx : r.selectTheta t kw' with
      | error e => rw [hx] at hft; simp [bind, Except.bind] at hft
      | ok x =>
        rw [hx] at hft
        simp only [bind, Except.bind, pure, Except.pure] at hft
        injection hft with hft
        subst hft
        simp only [Res.mapVals, List.mem_map] at hc1
        obtain ⟨c0, hc0, rfl⟩ := hc1
        exact ⟨t, ht, x, hx, c0, hc0, rfl⟩


/-! ### the class each shipped module name stands for

The table `shipped` is written by hand (it is what `make_model("iba", "dort")`, `make_soil("soil_wegmuller", …)`,
`make_snowpack(…, "sticky_hard_spheres")` … have always built); `Gen.C19.plugins` is regenerated from the source on every run.
The theorem says the rule of `do_import_class` (model: `Mod.pick`), applied to the classes the source defines *now*, still
gives every name its class: adding or renaming a class that sorts before the model class of its module breaks it.  The
rule itself is tied to the code by the correspondence (`Gen.Plugins` slice) and by the oracle key `plugin:own-class`. -/

def shipped : List (String × String × String) := [
  ("emmodel", "dmrt_qca_shortrange", "DMRT_QCA_ShortRange"),
  ("emmodel", "dmrt_qcacp_shortrange", "DMRT_QCACP_ShortRange"),
  ("emmodel", "iba", "IBA"),
  ("emmodel", "iba_maxwell_garnett", "IBA_MaxwellGarnett"),
  ("emmodel", "iba_original", "IBA_original"),
  ("emmodel", "nonscattering", "NonScattering"),
  ("emmodel", "prescribed_kskaeps", "Prescribed_KsKaEps"),
  ("emmodel", "rayleigh", "Rayleigh"),
  ("emmodel", "sce_common", "SCEBase"),
  ("emmodel", "sce_rechtsman08", "SCER08"),
  ("emmodel", "sce_torquato21", "SCETK21"),
  ("emmodel", "sce_torquato21_shortrange", "SCETK21_ShortRange"),
  ("emmodel", "sft_rayleigh", "SFT_Rayleigh"),
  ("emmodel", "symsce_torquato21", "SymSCETK21"),
  ("emmodel", "symsce_torquato21_shortrange", "SymSCETK21_ShortRange"),
  ("rtsolver", "dort", "DORT"),
  ("rtsolver", "dort_nonormalization", "DORT"),
  ("rtsolver", "nadir_lrm_altimetry", "NadirLRMAltimetry"),
  ("rtsolver", "waveform_model", "Brown1977"),
  ("interface", "coherent_flat", "CoherentFlat"),
  ("interface", "flat", "Flat"),
  ("interface", "geometrical_optics", "GeometricalOptics"),
  ("interface", "geometrical_optics_backscatter", "GeometricalOpticsBackscatter"),
  ("interface", "iem_fung92", "IEM_Fung92"),
  ("interface", "iem_fung92_brogioni10", "IEM_Fung92_Briogoni10"),
  ("interface", "radar_calibration_sphere", "RadarCalibrationSphere"),
  ("interface", "transparent", "Transparent"),
  ("substrate", "flat", "Flat"),
  ("substrate", "geometrical_optics", "GeometricalOptics"),
  ("substrate", "geometrical_optics_backscatter", "GeometricalOpticsBackscatter"),
  ("substrate", "iem_fung92", "IEM_Fung92"),
  ("substrate", "iem_fung92_brogioni10", "IEM_Fung92_Briogoni10"),
  ("substrate", "radar_calibration_sphere", "RadarCalibrationSphere"),
  ("substrate", "reflector", "Reflector"),
  ("substrate", "reflector_backscatter", "ReflectorBackscatter"),
  ("substrate", "rough_choudhury79", "ChoudhuryReflectivity"),
  ("substrate", "soil_qnh", "SoilQNH"),
  ("substrate", "soil_wegmuller", "SoilWegmuller"),
  ("substrate", "transparent", "Transparent"),
  ("microstructure_model", "autocorrelation", "Autocorrelation"),
  ("microstructure_model", "exponential", "Exponential"),
  ("microstructure_model", "gaussian_random_field", "GaussianRandomField"),
  ("microstructure_model", "homogeneous", "Homogeneous"),
  ("microstructure_model", "independent_sphere", "IndependentSphere"),
  ("microstructure_model", "sampled_autocorrelation", "SampledAutocorrelation"),
  ("microstructure_model", "sticky_hard_spheres", "StickyHardSpheres"),
  ("microstructure_model", "teubner_strey", "TeubnerStrey"),
  ("microstructure_model", "unified_autocorrelation", "UnifiedAutocorrelation"),
  ("microstructure_model", "unified_scaled_exponential", "UnifiedScaledExponential"),
  ("microstructure_model", "unified_sticky_hard_spheres", "UnifiedStickyHardSpheres"),
  ("microstructure_model", "unified_teubner_strey", "UnifiedTeubnerStrey"),
  ("atmosphere", "simple_atmosphere", "SimpleAtmosphere"),
  ("atmosphere", "simple_isotropic_atmosphere", "SimpleIsotropicAtmosphere")]
def resolvesTo (t : Table) (e : String × String × String) : Bool :=
  t.any fun m => m.dir == e.1 && m.name == e.2.1 && (m.pick.map (·.name)) == some e.2.2

/-- every shipped module name resolves, by the rule applied to the regenerated class table, to the class it stands for -/
theorem shipped_names_resolve : ∀ e ∈ shipped, resolvesTo Gen.C19.plugins e = true := by decide +kernel

end Smrt.Props.C19
