/-
  C07 — backscatter obeys reciprocity and the single-scattering closed form.

  Proved pieces: exchange symmetry of the Rayleigh phase matrix used by every shipped theory (pointwise and mode by mode), so
  that the first-order HV and VH backscatter are equal; what the azimuthal recomposition and the block extraction of
  `DORT.dort` compute, and that the U rows vanish in the backscatter direction; the path integral of the first-order
  solution.  Reciprocity of the full multiple-scattering discrete solution (0.3 dB), the O(albedo) error and the 5 %
  interpolation error are not proved (`reciprocity_full`, `first_order_error_full`).
-/
import SmrtVerif.Model.Active
import SmrtVerif.Model.Emmodel
import SmrtVerif.Proofs.RealTransc
import Mathlib.Tactic.Ring
import Mathlib.Tactic.Linarith
import Mathlib.Tactic.FieldSimp
import Mathlib.Analysis.SpecialFunctions.Integrals.Basic
import Mathlib.Analysis.SpecialFunctions.Trigonometric.Basic

set_option linter.unusedSectionVars false
set_option linter.unusedVariables false

namespace Smrt.Props.C07
open Smrt Smrt.Em Smrt.Active

/-! ### exchange symmetry of the phase matrix -/

/-- **rayleigh_phase_reciprocal**: exchanging the scattered and incident cosines exchanges the two cross-polarised
    entries and leaves the co-polarised ones unchanged, for every azimuth — `P_vh(μ_s, μ_i, φ) = P_hv(μ_i, μ_s, φ)` -/
theorem rayleigh_phase_reciprocal (μs μi φ : ℝ) :
    rayP 0 1 μs μi φ = rayP 1 0 μi μs φ ∧ rayP 0 0 μs μi φ = rayP 0 0 μi μs φ ∧ rayP 1 1 μs μi φ = rayP 1 1 μi μs φ := by
  refine ⟨?_, ?_, ?_⟩
  · simp only [rayP, fvh, fhv]; ring
  · simp only [rayP, fvv]; ring
  · simp only [rayP, fhh]

/-- in the backscatter geometry (`μ_s = −μ_i`) the two cross-polarised entries are *equal*, for every azimuth: the
    first-order HV and VH backscatter coincide -/
theorem rayleigh_backscatter_cross_equal (μ φ : ℝ) : rayP 0 1 (-μ) μ φ = rayP 1 0 (-μ) μ φ := by
  simp only [rayP, fvh, fhv]; ring

/-- the same for the IBA phase function: the common factor `ft(|k_s − k_i|)` is symmetric under the exchange -/
theorem iba_backscatter_cross_equal (ft : ℝ → ℝ) (coeff k0 : ℝ) (e : Cx ℝ) (μ φ : ℝ) :
    ibaPhase ft coeff k0 e 0 1 (-μ) μ φ = ibaPhase ft coeff k0 e 1 0 (-μ) μ φ := by
  simp only [ibaPhase, rayleigh_backscatter_cross_equal]

/-! ### recomposition and extraction -/

/-- **backscatter_extraction**: entry `(3j+p, q)` of the returned array is entry `(3·inc[j]+p, 3j+q)` of the recomposed
    intensity: stream `inc[j]` seen under the beam that was sent into stream `inc[j]` -/
theorem backscatter_extraction (inc : List Nat) (up : Nat → Nat → ℝ) (j p q : Nat) (hp : p < 3) :
    backscatter inc up (3 * j + p) q = up (3 * inc.getD j 0 + p) (3 * j + q) := by
  simp only [backscatter]
  have h1 : (3 * j + p) / 3 = j := by omega
  have h2 : (3 * j + p) % 3 = p := by omega
  rw [h1, h2]

theorem recompose_step (mmax : Nat) (phi : ℝ) (mode0 : Nat → Nat → ℝ) (modes : Nat → Nat → Nat → ℝ) (r c : Nat) :
    recompose (mmax + 1) phi mode0 modes r c =
      recompose mmax phi mode0 modes r c +
        modes (mmax + 1) r c * (if r % 3 < 2 then Real.cos (((mmax + 1 : Nat) : ℝ) * phi) else Real.sin (((mmax + 1 : Nat) : ℝ) * phi)) := by
  simp only [recompose, List.range_succ, List.foldl_append, List.foldl_cons, List.foldl_nil, transc_cos_real, transc_sin_real]

/-- **recomposition**: the value returned at azimuth `φ` is the truncated cosine series of the mode solutions in the V and H
    rows and the sine series in the U rows -/
theorem recomposition_series (mmax : Nat) (phi : ℝ) (mode0 : Nat → Nat → ℝ) (modes : Nat → Nat → Nat → ℝ) (r c : Nat) :
    recompose mmax phi mode0 modes r c =
      extend0 mode0 r c + ∑ k ∈ Finset.range mmax,
        modes (k + 1) r c * (if r % 3 < 2 then Real.cos (((k + 1 : Nat) : ℝ) * phi) else Real.sin (((k + 1 : Nat) : ℝ) * phi)) := by
  induction mmax with
  | zero => simp [recompose]
  | succ n ih => rw [recompose_step, ih, Finset.sum_range_succ]; ring

/-- in the backscatter direction `φ = π` the U rows receive nothing: `sin(mπ) = 0` and mode 0 has no U component -/
theorem backscatter_U_rows_vanish (mmax : Nat) (mode0 : Nat → Nat → ℝ) (modes : Nat → Nat → Nat → ℝ) (r c : Nat) (hr : r % 3 = 2) :
    recompose mmax Real.pi mode0 modes r c = 0 := by
  rw [recomposition_series]
  have h0 : extend0 mode0 r c = 0 := by simp [extend0, hr]
  rw [h0, zero_add]
  apply Finset.sum_eq_zero
  intro k _
  have : ¬ (r % 3 < 2) := by omega
  rw [if_neg this]
  have : Real.sin (((k + 1 : Nat) : ℝ) * Real.pi) = 0 := Real.sin_nat_mul_pi (k + 1)
  rw [this, mul_zero]

/-- and the V, H rows get the alternating series `Σ (−1)^m I_m` -/
theorem backscatter_VH_rows (mmax : Nat) (mode0 : Nat → Nat → ℝ) (modes : Nat → Nat → Nat → ℝ) (r c : Nat) (hr : r % 3 < 2) :
    recompose mmax Real.pi mode0 modes r c =
      extend0 mode0 r c + ∑ k ∈ Finset.range mmax, modes (k + 1) r c * (-1) ^ (k + 1) := by
  rw [recomposition_series]
  congr 1
  apply Finset.sum_congr rfl
  intro k _
  rw [if_pos hr, Real.cos_nat_mul_pi]

/-- the incident beam lights exactly one row per column, with power `1/(2π w)` in mode 0 and twice that in the higher modes
    — the cosine coefficients `1/2π`, `1/π` of a unit delta beam spread over the stream's weight -/
theorem incident_beam (pi : ℝ) (inc : List Nat) (w : Nat → ℝ) (k ipol r : Nat) (hi : ipol < 2) (hj : ipol < 3) :
    incident0 pi inc w r (2 * k + ipol) = (if r = 2 * inc.getD k 0 + ipol then 1 / (2 * pi * w (inc.getD k 0)) else 0) ∧
    incidentHigher pi inc w r (3 * k + ipol) = (if r = 3 * inc.getD k 0 + ipol then 2 * (1 / (2 * pi * w (inc.getD k 0))) else 0) := by
  have a1 : (2 * k + ipol) / 2 = k := by omega
  have a2 : (2 * k + ipol) % 2 = ipol := by omega
  have b1 : (3 * k + ipol) / 3 = k := by omega
  have b2 : (3 * k + ipol) % 3 = ipol := by omega
  have l1 : (1.0 : ℝ) = 1 := by norm_num
  have l2 : (2.0 : ℝ) = 2 := by norm_num
  constructor
  · simp only [incident0, beamPower, a1, a2, l1, l2]
  · simp only [incidentHigher, beamPower, b1, b2, l1, l2]

/-! ### the first-order solution -/

/-- **first_order_integral**: the two-way attenuated path integral through a layer of thickness `d`:
    `∫₀^d exp(−2 κ z / μ) dz = μ (1 − exp(−2 κ d / μ)) / (2 κ)` -/
theorem first_order_integral (κ μ d : ℝ) (hκ : κ ≠ 0) (hμ : μ ≠ 0) :
    ∫ z in (0 : ℝ)..d, Real.exp (-(2 * κ / μ) * z) = μ * (1 - Real.exp (-(2 * κ * d / μ))) / (2 * κ) := by
  have hc : -(2 * κ / μ) ≠ 0 := by
    apply neg_ne_zero.mpr; exact div_ne_zero (mul_ne_zero two_ne_zero hκ) hμ
  have key : ∫ z in (0 : ℝ)..d, Real.exp (-(2 * κ / μ) * z)
      = (Real.exp (-(2 * κ / μ) * d) - Real.exp (-(2 * κ / μ) * 0)) / (-(2 * κ / μ)) := by
    rw [intervalIntegral.integral_comp_mul_left (fun x => Real.exp x) hc]
    simp [integral_exp, div_eq_inv_mul]
  rw [key]
  have e1 : -(2 * κ / μ) * d = -(2 * κ * d / μ) := by ring
  rw [e1]
  simp only [mul_zero, Real.exp_zero]
  field_simp
  ring

/-- reciprocity of the full discrete solution (asserted nowhere: the row normalisation of the discrete operator breaks its
    exact symmetry; measured 0.03 dB on the unchanged tree) -/
def reciprocity_full : Prop :=
  ∀ (σhv σvh : ℝ), 0 < σhv → 0 < σvh → |10 * (Real.log σhv / Real.log 10) - 10 * (Real.log σvh / Real.log 10)| ≤ (0.3 : ℝ)
/-- the error orders of the first-order closed form (asserted nowhere; evaluated by the oracle) -/
def first_order_error_full : Prop := ∀ (σ σ1 albedo : ℝ), |σ - σ1| ≤ 10 * albedo * σ1

end Smrt.Props.C07
