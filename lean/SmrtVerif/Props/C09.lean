/-
  C09 — batch, parallel and repeated runs equal the individual simulations.
  Property theorems over the model of `Model.run` in `SmrtVerif/Model/Run.lean` (results: `Model/ResultMap.lean`).

  What is proved: the combinatorics (for every list of dimensions and every snowpack list, the regrouping loop puts the
  value of every simulation at its own coordinates), the naming of the new coordinate for every container type, the
  independence of the runner (any order-preserving runner, any evaluation order), and — on the store model of one
  simulation — frame, cache consistency, purity and history independence.
  What is observed only (correspondence / oracle): that the real `run_single_simulation` is such a program (the write-set
  oracle compares the locations changed by real runs with the prediction), joblib's ordering contract, bitwise equality of
  LAPACK results between processes.
-/
import SmrtVerif.Model.Run
import SmrtVerif.Proofs.Run

namespace Smrt.Props.C09
open Smrt Smrt.RM Smrt.Run List

/-! ### regrouping: every value sits at its own coordinates -/

/-- a runner is *order preserving* when it returns the results of the function on the argument list, in order -/
def OrderPreserving {A B : Type} (runner : (A → B) → List A → List B) : Prop := ∀ f args, runner f args = args.map f

/-- **regroup_tabulate** (one sensor, a collection of snowpacks).  For every list `ds` of non-broadcast sensor axes
    (any number, any lengths ≥ 1), every snowpack list `sps` with its dimension `sd`, every simulation function `f` whose
    results have one shape, and every order-preserving runner: the regrouping loop applied to the flat list of results
    yields exactly one result, the table `(c₁,…,c_k,s) ++ key ↦ f(configuration (c₁…c_k) of the sensor, snowpack s) at key`. -/
theorem regroup_tabulate {S β : Type} [Inhabited S] (runner : (Sensor × S → Res β) → List (Sensor × S) → List (Res β))
    (hr : OrderPreserving runner) (f : Sensor × S → Res β) (s : Sensor) (ds : List Dim) (sd : Dim) (sps : List S)
    (dims0 : List String) (keys0 : List Key)
    (hc : Compat s ds) (hlen : sd.vals.length = sps.length) (hne : NonEmpty (ds ++ [sd]))
    (hnames : NamesOk (ds ++ [sd]) dims0) (hu : Uniform (ds ++ [sd]) dims0 keys0 (simAt f s ds sps)) :
    (regroup (ds ++ [sd]) (runner f (prepare s ds sps))).bind theOne = .ok (table (ds ++ [sd]) (simAt f s ds sps)) := by
  rw [hr, prepare_flat f sd sps hlen ds s hc]
  have := regroup_flat (ds ++ [sd]) dims0 keys0 hne hnames [simAt f s ds sps] (by simpa using hu)
  simp only [flatMap_cons, flatMap_nil, append_nil, map_cons, map_nil] at this
  rw [this]; rfl

/-- the hypotheses are satisfiable: a 2-frequency sensor, three snowpacks, results with one `theta` cell -/
example : ∃ (s : Sensor) (ds : List Dim) (sd : Dim) (sps : List String) (f : Sensor × String → Res String),
    Compat s ds ∧ sd.vals.length = sps.length ∧ NonEmpty (ds ++ [sd]) ∧ NamesOk (ds ++ [sd]) ["theta"] ∧
    Uniform (ds ++ [sd]) ["theta"] [["t"]] (simAt f s ds sps) ∧ sensorConfigurations ["theta"] s = ds :=
  ⟨[("frequency", ["a", "b"]), ("theta", ["t"])], [⟨"frequency", ["a", "b"]⟩], ⟨"snowpack", ["0", "1", "2"]⟩, ["x", "y", "z"],
   fun p => ⟨["theta"], [(["t"], p.2)]⟩, by unfold Compat; decide, rfl, by unfold NonEmpty; decide, by unfold NamesOk; decide,
   fun _ _ => ⟨rfl, rfl⟩, by decide⟩

/-- the same in terms of cells: `(k, v)` is a cell of the batch result **iff** `k` is the coordinate tuple of some
    simulation followed by a key of that simulation's own result, and `v` is the value there.  Nothing is lost, nothing
    is added, nothing is misplaced. -/
theorem regroup_tabulate_cells {S β : Type} [Inhabited S] (f : Sensor × S → Res β) (s : Sensor) (ds : List Dim) (sd : Dim)
    (sps : List S) (k : Key) (v : β) :
    (k, v) ∈ (table (ds ++ [sd]) (simAt f s ds sps)).cells ↔
      ∃ idx, ValidIdx (ds ++ [sd]) idx ∧ ∃ c ∈ (simAt f s ds sps idx).cells, k = coordsOf (ds ++ [sd]) idx ++ c.1 ∧ v = c.2 :=
  mem_table _ _ k v

/-- dimensions of the batch result: the iterated sensor axes in the fixed order, the snowpack dimension, then the
    dimensions of the individual results -/
theorem result_dims {S β : Type} [Inhabited S] (f : Sensor × S → Res β) (s : Sensor) (ds : List Dim) (sd : Dim) (sps : List S)
    (dims0 : List String) (keys0 : List Key) (hne : NonEmpty (ds ++ [sd]))
    (hu : Uniform (ds ++ [sd]) dims0 keys0 (simAt f s ds sps)) :
    (table (ds ++ [sd]) (simAt f s ds sps)).dims = ds.map (·.name) ++ [sd.name] ++ dims0 := by
  rw [table_dims _ dims0 keys0 hne _ hu]; simp

/-- **sensor list** (one sensor per snowpack), in the order the regrouping requires (configurations outermost):
    the value at `(c₁,…,c_k,s)` is the simulation of configuration `(c₁…c_k)` of the `s`-th sensor on the `s`-th snowpack -/
theorem regroup_tabulate_zip {S β : Type} [Inhabited S] (runner : (Sensor × S → Res β) → List (Sensor × S) → List (Res β))
    (hr : OrderPreserving runner) (f : Sensor × S → Res β) (ss : List Sensor) (ds : List Dim) (sd : Dim) (sps : List S)
    (dims0 : List String) (keys0 : List Key)
    (hss : ss.length = sps.length) (hlen : sd.vals.length = sps.length) (hne : NonEmpty (ds ++ [sd]))
    (hnames : NamesOk (ds ++ [sd]) dims0) (hu : Uniform (ds ++ [sd]) dims0 keys0 (simAtZip f ss ds sps)) :
    (regroup (ds ++ [sd]) (runner f (prepareZip ss ds sps))).bind theOne = .ok (table (ds ++ [sd]) (simAtZip f ss ds sps)) := by
  rw [hr, prepareZip_flat f sd sps hlen ds ss hss]
  have := regroup_flat (ds ++ [sd]) dims0 keys0 hne hnames [simAtZip f ss ds sps] (by simpa using hu)
  simp only [flatMap_cons, flatMap_nil, append_nil, map_cons, map_nil] at this
  rw [this]; rfl

/-- the order **smrt has** in the sensor-list branch (pair-major) is the required one when no sensor axis is iterated
    (every sensor single-valued on the axes the solver does not broadcast) … -/
theorem zip_code_order_partial {S : Type} (ss : List Sensor) (sps : List S) :
    prepareZipCode ss [] sps = prepareZip ss [] sps := by
  unfold prepareZipCode prepareZip
  simp only [prepare, map_cons, map_nil]
  rw [flatMap_single]
  simp

/-- … the full statement "the code's order of the sensor-list branch regroups into the table" -/
def zip_code_order_full : Prop :=
  ∀ (f : Sensor × String → Res String) (ss : List Sensor) (ds : List Dim) (sd : Dim) (sps : List String),
    ss.length = sps.length → sd.vals.length = sps.length → NonEmpty (ds ++ [sd]) →
    (regroup (ds ++ [sd]) ((prepareZipCode ss ds sps).map f)).bind theOne = .ok (table (ds ++ [sd]) (simAtZip f ss ds sps))

/-- … and it is false as soon as an axis is iterated for two snowpacks: two 2-frequency sensors, two snowpacks.
    The value of (sensor 0 at the 2nd frequency, snowpack 0) lands at (1st frequency, snowpack 1). -/
theorem zip_code_order_misplaces : ¬ zip_code_order_full := by
  intro h
  have := h (fun p => ⟨[], [([], String.join (p.1.map fun a => String.join a.2) ++ p.2)]⟩)
    [[("frequency", ["a", "b"])], [("frequency", ["a", "b"])]] [⟨"frequency", ["a", "b"]⟩] ⟨"snowpack", ["0", "1"]⟩ ["x", "y"]
    rfl rfl (by intro d hd; simp at hd; rcases hd with rfl | rfl <;> decide)
  have := congrArg (fun r => (Except.toOption r).map (·.cells)) this
  revert this
  decide +kernel

example : NonEmpty ([⟨"frequency", ["a", "b"]⟩] ++ [⟨"snowpack", ["0", "1"]⟩]) := by
  intro d hd; simp at hd; rcases hd with rfl | rfl <;> decide

/-! ### coordinates are named and valued as given -/

/-- **coords_named**: the dimension the snowpacks are concatenated along, for every container type:
    SensitivityStudy → (variable, values); dict → ('snowpack', keys); Series → (index name or 'snowpack', index);
    DataFrame → that of its snowpack column; sequence → the `snowpack_dimension` argument, default name 'snowpack', default
    values `range(len)`; a single snowpack without argument → no dimension -/
theorem coords_named {S : Type} (sps : List S) (arg : Option DimArg) (col : String) :
    (∀ v vals, normalise (.study v vals sps) arg col = .ok ⟨sps, true, some ⟨v, vals⟩⟩) ∧
    (∀ items : List (String × S), normalise (.dict items) arg col = .ok ⟨items.map (·.2), true, some ⟨"snowpack", items.map (·.1)⟩⟩) ∧
    (∀ nm idx, normalise (.series nm idx sps) arg col = .ok ⟨sps, true, some ⟨nm.getD "snowpack", idx⟩⟩) ∧
    (∀ cols nm idx, cols.contains col = true →
        normalise (.frame cols col nm idx sps) arg col = .ok ⟨sps, true, some ⟨nm.getD "snowpack", idx⟩⟩) ∧
    (normalise (.seq sps false) none col = .ok ⟨sps, true, some ⟨"snowpack", rangeVals sps.length⟩⟩) ∧
    (∀ name vals, normalise (.seq sps false) (some ⟨name, true, some vals⟩) col = .ok ⟨sps, true, some ⟨name, vals⟩⟩) ∧
    (∀ name, normalise (.seq sps false) (some ⟨name, true, none⟩) col = .ok ⟨sps, true, some ⟨name, rangeVals sps.length⟩⟩) ∧
    (∀ sp : S, normalise (.single sp) none col = .ok ⟨[sp], false, none⟩) := by
  refine ⟨?_, ?_, ?_, ?_, ?_, ?_, ?_, ?_⟩
  · intro v vals; rfl
  · intro items; rfl
  · intro nm idx; rfl
  · intro cols nm idx h
    have h' : col ∈ cols := by simpa using h
    simp [normalise, h', bind, Except.bind, pure, Except.pure]
  · rfl
  · intro name vals; rfl
  · intro name; rfl
  · intro sp; rfl

/-- the loud refusals: a tuple of snowpacks whose length differs from the dimension's, a non-string dimension name,
    a DataFrame without the snowpack column -/
theorem container_refusals {S : Type} (sps : List S) (col : String) :
    (∀ name vals, vals.length ≠ sps.length → normalise (.seq sps true) (some ⟨name, true, some vals⟩) col = .error .smrt) ∧
    (∀ name vals, normalise (.seq sps false) (some ⟨name, false, some vals⟩) col = .error .smrt) ∧
    (∀ cols c nm idx arg, cols.contains c = false → normalise (.frame cols c nm idx sps) arg col = .error .smrt) := by
  refine ⟨?_, ?_, ?_⟩
  · intro name vals h
    have : (sps.length != vals.length) = true := by simpa using fun e => h e.symm
    simp [normalise, bind, Except.bind, pure, Except.pure, this]
    rfl
  · intro name vals
    simp [normalise, bind, Except.bind, pure, Except.pure]
    rfl
  · intro cols c nm idx arg h
    have h' : c ∉ cols := by simpa using h
    simp [normalise, h', bind, Except.bind, pure, Except.pure]
    rfl

/-! ### runners -/

/-- **runner_order**: evaluating the simulations in any order that covers every position (any schedule of any number of
    workers) and putting each result back at its position is an order-preserving runner … -/
theorem runner_order {A B : Type} (π : List Nat) (f : A → B) (args : List A) (hπ : π.Perm (List.range args.length)) :
    scheduledRunner π f args = sequentialRunner f args :=
  scheduledRunner_eq π f args (fun _ hi => hπ.mem_iff.mpr (mem_range.mpr hi))

example : (List.range 3).reverse.Perm (List.range 3) := List.reverse_perm _

/-- … hence `Model.run` returns the same result with every such runner -/
theorem run_independent_of_runner {S β : Type} (zo : ZipOrder) (bc : List String)
    (r₁ r₂ : (Sensor × S → Res β) → List (Sensor × S) → List (Res β)) (h₁ : OrderPreserving r₁) (h₂ : OrderPreserving r₂)
    (f : Sensor × S → Res β) (sensor : SensorArg) (c : Container S) (arg : Option DimArg) (col : String) :
    runModel zo bc r₁ f sensor c arg col = runModel zo bc r₂ f sensor c arg col := by
  unfold runModel
  cases prepareSimulations zo bc sensor c arg col with
  | error e => rfl
  | ok p => simp only [bind, Except.bind, h₁ f, h₂ f]

/-! ### one simulation: what it writes, what its result depends on -/

/-- the program of `run_single_simulation` (as the property requires it) writes only into the objects it creates -/
theorem simulation_writes_fresh {V : Type} (one fill : V) (i : Nat) (sh : Shape) (solve : List (Option V) → List V → V) :
    (simulation one .required i sh fill solve).WritesOnly (IsFresh i) := by
  unfold simulation
  apply writesOnly_memoAll; intro ms
  apply writesOnly_readAll; intro xs
  apply writesOnly_writeAll
  · intro w hw
    simp only [mem_map] at hw
    obtain ⟨l, hl, rfl⟩ := hw
    exact freshLocs_fresh sh i l hl
  · exact writesOnly_writeAll _ _ _ (by intro w hw; simp [Shape.userWrites] at hw) trivial

/-- **frame**: after the simulation every location of the caller's objects (snowpack, layers, interfaces, substrate,
    atmosphere, sensor, model) holds what it held before -/
theorem simulation_frame {V : Type} (g : String → String → V) (one fill : V) (i : Nat) (sh : Shape)
    (solve : List (Option V) → List V → V) (st : Store V) (obj field : String) :
    ((simulation one .required i sh fill solve).run g st).2 ⟨.user obj, field⟩ = st ⟨.user obj, field⟩ :=
  run_agree g i _ (simulation_writes_fresh one fill i sh solve) st obj field

/-- … and the list of the caller's locations written is empty -/
theorem simulation_user_writes_nil {V : Type} (g : String → String → V) (one fill : V) (i : Nat) (sh : Shape)
    (solve : List (Option V) → List V → V) (st : Store V) :
    (simulation one .required i sh fill solve).userWritten g st = [] :=
  userWritten_nil g i _ (simulation_writes_fresh one fill i sh solve) st

/-- **simulation_pure**: the result depends only on the caller's objects: two stores that agree on them and whose shared
    caches are consistent (each entry is the value of the function it memoises: `import_class`, `cached_roots_legendre`, …)
    give the same result, whatever earlier simulations left in fresh objects and caches -/
theorem simulation_pure {V : Type} (g : String → String → V) (one fill : V) (i : Nat) (sh : Shape)
    (solve : List (Option V) → List V → V) (st st' : Store V) (hc : Consistent g st) (hc' : Consistent g st')
    (ha : AgreeUser st st') :
    ((simulation one .required i sh fill solve).run g st).1 = ((simulation one .required i sh fill solve).run g st').1 :=
  run_pure g i _ (simulation_writes_fresh one fill i sh solve) st st' hc hc' ha

example {V : Type} (g : String → String → V) : Consistent g (fun _ => none) := by intro c k v h; cases h

/-- **history independence / repetition**: a worker that runs any sequence of simulations one after the other obtains,
    for each of them, the result of running it alone on the initial store; in particular a repeated run returns the same
    values, and so does any distribution of the simulations over workers (each starts from a store that agrees with the
    caller's objects) -/
theorem history_independent {V : Type} (g : String → String → V) (one fill : V) (sims : List (Nat × Shape))
    (solve : Nat → List (Option V) → List V → V) (st0 : Store V) (hc0 : Consistent g st0) :
    (runAll g (sims.map fun p => simulation one .required p.1 p.2 fill (solve p.1)) st0).1
      = sims.map fun p => ((simulation one .required p.1 p.2 fill (solve p.1)).run g st0).1 := by
  have h := runAll_eq g (sims.map fun p => simulation one .required p.1 p.2 fill (solve p.1))
    (by intro q hq; simp only [mem_map] at hq; obtain ⟨p, _, rfl⟩ := hq; exact ⟨p.1, simulation_writes_fresh _ _ _ _ _⟩)
    st0 st0 hc0 hc0 (fun _ _ => rfl)
  rw [h.1, map_map]; rfl

/-- the full statement about smrt **as it was before the `fix:` commits b1c217a / c98a363**: no simulation writes into the caller's objects -/
def inputs_untouched_full : Prop :=
  ∀ (i : Nat) (sh : Shape) (st : Store String),
    (simulation "1" .code i sh "set" (fun _ _ => "result")).userWritten (fun _ _ => "memo") st = []

/-- … is false: with a `Reflector` substrate built without `specular_reflection`, the simulation assigns the default to
    the caller's substrate (`self.specular_reflection = 1` in `specular_reflection_matrix` / `emissivity_matrix`) -/
theorem reflector_default_written : ¬ inputs_untouched_full := by
  intro h
  have := h 0 ⟨1, .reflectorUnset, false, "iba", "16"⟩ (fun _ => none)
  revert this
  decide +kernel

/-- what held for the code before those repairs: the caller's locations written are at most `substrate.specular_reflection` -/
theorem inputs_untouched_partial {V : Type} (one : V) (sh : Shape) :
    ∀ w ∈ sh.userWrites one .code, w.1 = ⟨.user "substrate", "specular_reflection"⟩ ∧ w.2 = one := by
  intro w hw
  simp only [Shape.userWrites] at hw
  split at hw
  · simp only [mem_singleton] at hw; subst hw; exact ⟨rfl, rfl⟩
  · simp at hw

end Smrt.Props.C09
