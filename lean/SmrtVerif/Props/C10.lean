/-
  C10 — every scattering theory conserves energy and its phase-function forms agree.
  Property theorems only (helper lemmas: SmrtVerif/Proofs/Emmodel.lean).  All statements are over ℝ with Mathlib's
  sqrt/sin/cos (`Smrt.instTranscReal`); π is an explicit argument `p` of the model.

  Proved for all inputs:
  * the Rayleigh matrix of `rayleigh_scattering_matrix_and_angle_tsang00` (what `phase()` of rayleigh, sft_rayleigh,
    dmrt_qca*, prescribed_kskaeps returns) is the trigonometric sum of the modes `ft_even_phase_baseonUlaby` hands to the
    solver, with the solver's sign convention; modes above 2 vanish;
  * the mode-0 matrix integrates to `ks` for both incident polarisations and every incident cosine;
  * the dipole pattern `P_vp + P_hp = F(Θ)(1 − (ŝ·p̂)²)` of the IBA / SCE phase functions; the SCE normalisation;
  * `ke = ks + ka` in every polarisation slot; signs of ks, ka for rayleigh, nonscattering, iba (see below);
  * the sign-convention guard of `effective_permittivity()`.

  Not proved (kept as `…_full : Prop`, asserted nowhere; evaluated by the oracle of harness/pC10.py):
  * `iba_energy_full` — the stream-frame 4π integral of the IBA phase function equals the Romberg 1-2-frame integral
    within 2 % (rotation invariance of the sphere integral + quadrature error);
  * (closed: `iba_ks_nonneg` is now a theorem — the 65 Romberg weights are positive, `Proofs/Romberg.lean`);
  * `ks_nonneg_difference_theories_full` — SFT / DMRT / SCE obtain ks or ka as a difference of two `Im √·`; the oracle
    finds `ka < 0` for dmrt_qca_shortrange inside the quantifier space (see the harness).
-/
import SmrtVerif.Model.Emmodel
import SmrtVerif.Proofs.Emmodel
import SmrtVerif.Proofs.Romberg
import SmrtVerif.Props.C15

set_option linter.unusedVariables false

namespace Smrt.Props.C10
open Smrt Smrt.Em

/-! ### 1. Ulaby's modes are the azimuthal Fourier series of the Rayleigh matrix -/

/-- for all directions and azimuths, entry `(p, q)` of `phase()` (3 polarisations; the 2-polarisation matrix is the
    block `p, q < 2`) equals `Σ_{m ≤ m_max} ft_even_phase[p, q, m] · basis`, where the basis is `cos mφ` for the even
    entries, `sin mφ` for (U, V|H) and `−sin mφ` for (V|H, U) — the convention of `generic_ft_even_matrix` -/
theorem ulaby_modes_are_fourier (ks μs μi φ : ℝ) (hs : μs * μs ≤ 1) (hi : μi * μi ≤ 1) (p q : Nat)
    (hp : p < 3) (hq : q < 3) (mmax : Nat) (hm : 2 ≤ mmax) :
    rayPhase ks p q μs μi φ = ∑ m ∈ Finset.range (mmax + 1), ulaby ks m p q μs μi * basis p q m φ := by
  rw [rayPhase_eq_three_modes ks μs μi φ hs hi p q hp hq]
  apply Finset.sum_subset
  · intro x hx; simp only [Finset.mem_range] at hx ⊢; omega
  · intro x _ hx
    simp only [Finset.mem_range, not_lt] at hx
    rw [ulaby_high ks x p q μs μi hx, zero_mul]

example : ∃ μs μi : ℝ, μs * μs ≤ 1 ∧ μi * μi ≤ 1 ∧ μs ≠ 0 ∧ μi ≠ 0 := ⟨1 / 2, -1 / 3, by norm_num, by norm_num, by norm_num, by norm_num⟩

/-- modes `m ≥ 3` handed to the solver are zero -/
theorem ulaby_modes_vanish_above_two (ks μs μi : ℝ) (m p q : Nat) (hm : 3 ≤ m) : ulaby ks m p q μs μi = 0 :=
  ulaby_high ks m p q μs μi hm

/-! ### 2. energy: the mode-0 matrix integrates to ks -/

/-- `(1/2) ∫_{-1}^{1} (P_vp + P_hp)_{m=0} dμ_s = ks` for `p ∈ {V, H}` and every incident cosine; `ks` is whatever the
    theory computed (rayleigh, sft_rayleigh, dmrt_qca*, prescribed_kskaeps all use this phase matrix with their own ks) -/
theorem rayleigh_energy (ks μi : ℝ) (pcol : Nat) (hp : pcol < 2) :
    (1 / 2 : ℝ) * ∫ μs in (-1 : ℝ)..1, (ulaby ks 0 0 pcol μs μi + ulaby ks 0 1 pcol μs μi) = ks := by
  interval_cases pcol
  · simp only [ulaby_col_v, integral_even_quadratic]; ring
  · simp only [ulaby_col_h, integral_even_quadratic]; ring

/-- the same with the scattering coefficient of the Rayleigh class itself -/
theorem rayleigh_energy_rayleigh_class (p f e0 : ℝ) (eps : Cx ℝ) (radius freq μi : ℝ) (pcol : Nat) (hp : pcol < 2) :
    (1 / 2 : ℝ) * ∫ μs in (-1 : ℝ)..1,
      (ulaby (rayleigh p f e0 eps radius freq).1 0 0 pcol μs μi + ulaby (rayleigh p f e0 eps radius freq).1 0 1 pcol μs μi)
      = (rayleigh p f e0 eps radius freq).1 :=
  rayleigh_energy _ μi pcol hp

/-! ### 3. dipole pattern of the direction-resolved phase functions (IBA / SCE family) -/

/-- incident V: `P_vv + P_hv = 1 − (ŝ·v̂_i)²` with `ŝ·v̂_i = sinθ_s cosθ_i cosφ − cosθ_s sinθ_i` -/
theorem dipole_pattern_v (μs μi φ : ℝ) (hs : μs * μs ≤ 1) (hi : μi * μi ≤ 1) :
    rayP 0 0 μs μi φ + rayP 1 0 μs μi φ = 1 - (sinOf μs * μi * Real.cos φ - μs * sinOf μi) ^ 2 := by
  have ha : Real.sqrt (1 - μs * μs) ^ 2 = 1 - μs * μs := Real.sq_sqrt (by linarith)
  have hb : Real.sqrt (1 - μi * μi) ^ 2 = 1 - μi * μi := Real.sq_sqrt (by linarith)
  have hc := Real.sin_sq_add_cos_sq φ
  simp only [rayP, fvv, fhv, sinOf, transc_sqrt_real, transc_cos_real, transc_sin_real]
  generalize Real.sqrt (1 - μs * μs) = a at ha ⊢
  generalize Real.sqrt (1 - μi * μi) = b at hb ⊢
  generalize Real.cos φ = c at hc ⊢
  generalize Real.sin φ = s at hc ⊢
  linear_combination (b ^ 2 + μi ^ 2 * c ^ 2) * ha + (1 - μs * μs + μs ^ 2) * hb + (μi ^ 2) * hc

/-- incident H: `P_vh + P_hh = 1 − (ŝ·ĥ_i)²` with `ŝ·ĥ_i = sinθ_s sinφ` -/
theorem dipole_pattern_h (μs μi φ : ℝ) (hs : μs * μs ≤ 1) :
    rayP 0 1 μs μi φ + rayP 1 1 μs μi φ = 1 - (sinOf μs * Real.sin φ) ^ 2 := by
  have ha : Real.sqrt (1 - μs * μs) ^ 2 = 1 - μs * μs := Real.sq_sqrt (by linarith)
  have hc := Real.sin_sq_add_cos_sq φ
  simp only [rayP, fvh, fhh, sinOf, transc_sqrt_real, transc_cos_real, transc_sin_real]
  generalize Real.sqrt (1 - μs * μs) = a at ha ⊢
  generalize Real.cos φ = c at hc ⊢
  generalize Real.sin φ = s at hc ⊢
  linear_combination (s ^ 2) * ha + hc

/-- the IBA phase function summed over the scattered polarisations is the angular factor `F(Θ) = ft(k_d)·iba_coeff`
    times the dipole pattern -/
theorem iba_dipole_pattern (ft : ℝ → ℝ) (coeff k0 : ℝ) (e : Cx ℝ) (μs μi φ : ℝ) (hs : μs * μs ≤ 1) (hi : μi * μi ≤ 1) :
    ibaPhase ft coeff k0 e 0 0 μs μi φ + ibaPhase ft coeff k0 e 1 0 μs μi φ
        = ft (2.0 * k0 * (csq e).re * sinHalf μs μi φ) * coeff * (1 - (sinOf μs * μi * Real.cos φ - μs * sinOf μi) ^ 2)
    ∧ ibaPhase ft coeff k0 e 0 1 μs μi φ + ibaPhase ft coeff k0 e 1 1 μs μi φ
        = ft (2.0 * k0 * (csq e).re * sinHalf μs μi φ) * coeff * (1 - (sinOf μs * Real.sin φ) ^ 2) := by
  unfold ibaPhase
  constructor
  · rw [← dipole_pattern_v μs μi φ hs hi]; ring
  · rw [← dipole_pattern_h μs μi φ hs]; ring

/-- the mechanism "ks is the integral of the same angular function that shapes the phase matrix": the integrand of
    `compute_ks` at `μ` is `P_vv + P_hh` of `phase()` in the 1-2 frame (incident direction on the polar axis, azimuth 0)
    when the effective medium is loss-free.  (For a lossy medium the code uses `|√ε_eff|` in `ks_integrand` and
    `Re √ε_eff` in `phase`: the two wavenumbers differ by `O((Im/Re)²)`.) -/
theorem iba_integrand_is_phase_12_frame (ft : ℝ → ℝ) (coeff k0 : ℝ) (e : Cx ℝ) (μ : ℝ) (h1 : -1 ≤ μ) (h2 : μ ≤ 1)
    (he : (csq e).im = 0) :
    ibaKsIntegrand ft coeff k0 e μ = ibaPhase ft coeff k0 e 0 0 μ 1 0 + ibaPhase ft coeff k0 e 1 1 μ 1 0 := by
  unfold ibaKsIntegrand ibaPhase
  rw [sinHalf_polar h1 h2, cabs_csq_of_im_zero e he]
  simp only [rayP, fvv, fhh, sinOf_one, transc_cos_real, transc_sqrt_real, Real.cos_zero]
  have : 2.0 * k0 * Real.sqrt ((1.0 - μ) / 2.0) * (csq e).re = 2.0 * k0 * (csq e).re * Real.sqrt ((1.0 - μ) / 2.0) :=
    mul_right_comm _ _ _
  rw [this]
  generalize ft (2.0 * k0 * (csq e).re * Real.sqrt ((1.0 - μ) / 2.0)) = F
  norm_num
  ring

example : (csq (⟨4, 0⟩ : Cx ℝ)).im = 0 := by
  have h := (Fresnel.csqrt_isSqrt (⟨4, 0⟩ : Cx ℝ))
  have hre := h.re_eq; have him := h.im_eq; have hn := h.re_nonneg
  simp only at hre him
  have h2 : (csq (⟨4, 0⟩ : Cx ℝ)).re * (csq (⟨4, 0⟩ : Cx ℝ)).im = 0 := by
    unfold csq; linarith
  rcases mul_eq_zero.mp h2 with h0 | h0
  · exfalso; unfold csq at h0; rw [h0] at hre; nlinarith [mul_self_nonneg (Fresnel.csqrt (⟨4, 0⟩ : Cx ℝ)).im]
  · exact h0

/-- `compute_phase_norm`: the normalisation makes the Romberg 1-2-frame integral of the SCE phase function equal to the
    `ks` of the theory, whenever neither is zero -/
theorem sce_phase_norm (ft : ℝ → ℝ) (ks k0 : ℝ) (e : Cx ℝ) (hks : ks ≠ 0)
    (hint : romb 6 (fun i => sceKsIntegrand ft k0 e (muGrid i)) (muGrid 0 - muGrid 1) ≠ 0) :
    scePhaseNorm ft ks k0 e * (romb 6 (fun i => sceKsIntegrand ft k0 e (muGrid i)) (muGrid 0 - muGrid 1) / 4) = ks := by
  have h1 : isZero ks = false := by
    unfold isZero; rcases lt_or_gt_of_ne hks with h | h <;> simp [h]
  have h2 : isZero (romb 6 (fun i => sceKsIntegrand ft k0 e (muGrid i)) (muGrid 0 - muGrid 1)) = false := by
    unfold isZero; rcases lt_or_gt_of_ne hint with h | h <;> simp [h]
  unfold scePhaseNorm
  simp only [h1, h2, Bool.false_eq_true, if_false]
  norm_num
  field_simp

/-! ### 4. extinction = scattering + absorption -/

/-- `ke(mu, npol)` returns `ks + ka` in every polarisation slot (the third slot is coded as the mean of the first two) -/
theorem ke_sum (ks ka : ℝ) (i : Nat) : ke ks ka i = ks + ka := by
  unfold ke extinctionSlot; split_ifs
  · norm_num; ring
  · rfl

/-- non-scattering medium: `ke = ka` (`ks = 0`) -/
theorem ke_sum_nonscattering (ka : ℝ) (i : Nat) : extinctionSlot ka i = 0 + ka := by
  unfold extinctionSlot; split_ifs
  · norm_num; ring
  · norm_num

/-! ### 5. signs -/

theorem rayleigh_ks_nonneg (p f e0 : ℝ) (eps : Cx ℝ) (radius freq : ℝ) (hf : 0 ≤ f) (hr : 0 ≤ radius) :
    0 ≤ (rayleigh p f e0 eps radius freq).1 := by
  simp only [rayleigh]
  have h1 := sq_nonneg' (cabs ((eps - creal e0) / (eps + Cx.smul 2.0 (creal e0))))
  have h2 := cube_nonneg hr
  have h3 := sq_nonneg' e0
  have h4 := pow4_nonneg (2.0 * p / (cSpeed / freq))
  positivity

theorem rayleigh_ka_nonneg (p f e0 : ℝ) (eps : Cx ℝ) (radius freq : ℝ) (hp : 0 ≤ p) (hf : 0 ≤ f) (hfreq : 0 ≤ freq)
    (him : 0 ≤ eps.im) : 0 ≤ (rayleigh p f e0 eps radius freq).2.1 := by
  simp only [rayleigh]
  have h1 := sq_nonneg' (cabs (creal e0 / (eps + Cx.smul 2.0 (creal e0))))
  have hk : 0 ≤ 2.0 * p / (cSpeed / freq) := by unfold cSpeed; positivity
  have : 0 ≤ f * 9.0 * (2.0 * p / (cSpeed / freq)) * eps.im * Em.sq (cabs (creal e0 / (eps + Cx.smul 2.0 (creal e0)))) := by
    positivity
  linarith

example : ∃ eps : Cx ℝ, 0 ≤ eps.im := ⟨⟨3.17, 1e-3⟩, by norm_num⟩

/-- non-scattering medium: `ks = 0`, and `ka ≥ 0` when the mixing formula returned a permittivity with `Im ≥ 0` -/
theorem nonscattering_signs (p f : ℝ) (e0 eps : Cx ℝ) (freq ks ka : ℝ) (e : Cx ℝ) (hp : 0 ≤ p) (hfreq : 0 ≤ freq)
    (h : nonscattering p f e0 eps freq = .ok (ks, ka, e)) : ks = 0 ∧ (0 ≤ e.im → 0 ≤ ka) := by
  unfold nonscattering at h
  cases hm : Mixing.pvsWith csq .spheres f e0 eps with
  | error err => rw [hm] at h; cases h
  | ok e' =>
    rw [hm] at h
    simp only [bind, Except.bind, pure, Except.pure, Except.ok.injEq, Prod.mk.injEq] at h
    obtain ⟨h1, h2, h3⟩ := h
    refine ⟨h1.symm, fun him => ?_⟩
    rw [← h2, h3]
    have := csq_im_nonneg e him
    have hk : 0 ≤ 2.0 * p * freq / cSpeed := by unfold cSpeed; positivity
    positivity

/-- IBA (all three variants): the integrand of `compute_ks` is non-negative on the whole Romberg grid whenever the
    spectrum of the microstructure model is (C17: exponential, spheres, sticky hard spheres, Teubner–Strey, unified) -/
theorem iba_ks_integrand_nonneg (v : IbaVariant) (ft : ℝ → ℝ) (hft : ∀ k, 0 ≤ ft k) (p k0 : ℝ) (hp : 0 ≤ p)
    (e e0 eps : Cx ℝ) (mu : ℝ) :
    0 ≤ ibaKsIntegrand ft (ibaCoeff p (meanSqFieldRatio v e e0 eps) k0 e0 eps) k0 e mu := by
  have hc := ibaCoeff_nonneg hp (meanSqFieldRatio_nonneg v e e0 eps) k0 e0 eps
  unfold ibaKsIntegrand
  have := hft (2.0 * k0 * Transc.sqrt ((1.0 - mu) / 2.0) * cabs (csq e))
  have hm := mul_self_nonneg mu
  positivity

example (p f ξ : ℝ) (hp : 0 ≤ p) (hf0 : 0 ≤ f) (hf1 : f ≤ 1) (hξ : 0 ≤ ξ) : ∀ k, 0 ≤ Micro.expFt p f ξ k :=
  fun k => expFt_nonneg p f ξ k hp hf0 hf1 hξ
example (p f R : ℝ) (hp : 0 ≤ p) (hf0 : 0 ≤ f) (hf1 : f ≤ 1) (hR : 0 ≤ R) : ∀ k, 0 ≤ Micro.sphFt p f R k :=
  fun k => sphFt_nonneg p f R k hp hf0 hf1 hR

/-- IBA absorption: `iba_original` (`k0 f Im ε |y²|`) for every lossy scatterer; `iba` and `iba_maxwell_garnett`
    (`2 k0 Im √ε_eff`) when the mixing formula returned `Im ε_eff ≥ 0` (the guard of §6 only excludes `Im < −1e-10`) -/
theorem iba_ka_nonneg_partial (v : IbaVariant) (f k0 y2 : ℝ) (e eps : Cx ℝ) (hf : 0 ≤ f) (hk : 0 ≤ k0)
    (him : 0 ≤ eps.im) (hie : 0 ≤ e.im) : 0 ≤ ibaKa v f k0 y2 e eps := by
  have h1 := csq_im_nonneg e hie
  have h2 : 0 ≤ Micro.absv y2 := by unfold Micro.absv; split_ifs with h <;> linarith
  cases v <;> simp only [ibaKa] <;> positivity

/-- full claim: ka ≥ 0 for passive constituents without assuming the sign of `Im ε_eff` (needs `Im ≥ 0` of the
    Polder–van Santen / Maxwell Garnett mixtures of passive media) -/
def iba_ka_nonneg_full : Prop :=
  ∀ (v : IbaVariant) (ft : ℝ → ℝ) (f : ℝ) (e0 eps : Cx ℝ) (freq : ℝ) (o : IbaOut ℝ),
    0 ≤ f → f ≤ 1 → 0 < e0.re → 0 < eps.re → 0 ≤ e0.im → 0 ≤ eps.im → 0 ≤ freq →
    iba v ft Real.pi f e0 eps freq = .ok o → 0 ≤ o.ka ∧ 0 ≤ o.eps.im

/-- `compute_ks` of a non-negative spectrum and coefficient is non-negative: the integrand is (above) and all 65 weights of
    `scipy.integrate.romb` on `2^6 + 1` samples are positive (`Proofs/Romberg.lean`: `romb_is_tableau`, `romb_weights`, `wR6_pos`) -/
theorem ibaKs_nonneg (ft : ℝ → ℝ) (hft : ∀ k, 0 ≤ ft k) (coeff k0 : ℝ) (hc : 0 ≤ coeff) (e : Cx ℝ) : 0 ≤ ibaKs ft coeff k0 e := by
  unfold ibaKs
  have hdx : (0 : ℝ) ≤ muGrid 0 - muGrid 1 := by unfold muGrid; norm_num
  have := romb6_nonneg (fun i => ibaKsIntegrand ft coeff k0 e (muGrid i)) (muGrid 0 - muGrid 1) hdx (by
    intro n _
    unfold ibaKsIntegrand
    have := hft (2.0 * k0 * Transc.sqrt ((1.0 - muGrid n) / 2.0) * cabs (csq e))
    have hm := mul_self_nonneg (muGrid n : ℝ)
    positivity)
  positivity

/-- **iba_ks_nonneg** (the former `_full` claim, now proved): whatever the variant, fractional volume, permittivities and frequency,
    the scattering coefficient IBA returns is non-negative as soon as the microstructure spectrum is -/
theorem iba_ks_nonneg (v : IbaVariant) (ft : ℝ → ℝ) (hft : ∀ k, 0 ≤ ft k) (f : ℝ) (e0 eps : Cx ℝ) (freq : ℝ) (o : IbaOut ℝ)
    (h : iba v ft Real.pi f e0 eps freq = .ok o) : 0 ≤ o.ks := by
  unfold iba at h
  cases he : ibaEpsEff v f e0 eps with
  | error err => rw [he] at h; simp [bind, Except.bind] at h
  | ok e =>
    rw [he] at h
    simp only [bind, Except.bind, pure, Except.pure, Except.ok.injEq] at h
    subst h
    exact ibaKs_nonneg ft hft _ _ (ibaCoeff_nonneg Real.pi_pos.le (meanSqFieldRatio_nonneg v e e0 eps) _ e0 eps) e

example : 0 ≤ ibaKs (fun k => Micro.expFt Real.pi 0.3 2e-4 k) 1 100 ⟨1.5, 0⟩ :=
  ibaKs_nonneg _ (fun k => expFt_nonneg Real.pi 0.3 2e-4 k Real.pi_pos.le (by norm_num) (by norm_num) (by norm_num)) 1 100 (by norm_num) _

/-- full claim (quadrature statement, 2 %): the 4π integral of the IBA phase function in the stream frame, evaluated
    through the mode-0 Fourier coefficient, equals the Romberg 1-2-frame integral `ks` -/
def iba_energy_full : Prop :=
  ∀ (v : IbaVariant) (ft : ℝ → ℝ) (f : ℝ) (e0 eps : Cx ℝ) (freq : ℝ) (o : IbaOut ℝ) (μi : ℝ) (pcol : Nat),
    iba v ft Real.pi f e0 eps freq = .ok o → 0 < μi → μi < 1 → pcol < 2 →
    |(1 / 2 : ℝ) * (∫ μs in (-1 : ℝ)..1,
        ((1 / (2 * Real.pi)) * ∫ φ in (0 : ℝ)..(2 * Real.pi),
          (ibaPhase ft o.coeff (waveNumber Real.pi freq) o.eps 0 pcol μs μi φ
            + ibaPhase ft o.coeff (waveNumber Real.pi freq) o.eps 1 pcol μs μi φ))) - o.ks| ≤ 0.02 * o.ks

/-- full claim: ks ≥ 0 and ka ≥ 0 for the theories that obtain one of them as a difference of two `Im √·` -/
def ks_nonneg_difference_theories_full : Prop :=
  ∀ (f : ℝ) (e0 es : Cx ℝ) (radius freq : ℝ) (tau : Option ℝ) (ks ka : ℝ) (e : Cx ℝ),
    0 < f → f < 1 → 0 < radius → 0 < freq → 0 ≤ es.im →
    dmrtQca Real.pi f e0 es radius freq tau = .ok (ks, ka, e) → 0 ≤ ks ∧ 0 ≤ ka

/-! ### 6. the sign-convention guard of `effective_permittivity()` -/

/-- `effective_permittivity()` raises SMRTError when the mixing formula returns `Im < −1e-10`, and otherwise returns
    the value unchanged -/
theorem epseff_guard (e : Cx ℝ) :
    (e.im < -1e-10 → epsGuard e = .error .smrt) ∧ (¬ e.im < -1e-10 → epsGuard e = .ok e) := by
  unfold epsGuard
  constructor <;> intro h <;> simp [h]

/-- whatever the IBA classes return as effective permittivity has `Im ≥ −1e-10` -/
theorem iba_epseff_im_bound (v : IbaVariant) (f : ℝ) (e0 eps e : Cx ℝ) (h : ibaEpsEff v f e0 eps = .ok e) :
    -1e-10 ≤ e.im := by
  unfold ibaEpsEff at h
  cases hr : ibaMixing v f e0 eps with
  | error err => rw [hr] at h; cases h
  | ok e' =>
    rw [hr] at h
    simp only [Except.bind, epsGuard] at h
    split_ifs at h with hlt
    cases h; exact not_lt.mp hlt

example : epsGuard (⟨2, -1e-3⟩ : Cx ℝ) = .error .smrt := (epseff_guard _).1 (by norm_num)
example : epsGuard (⟨2, 1e-3⟩ : Cx ℝ) = .ok ⟨2, 1e-3⟩ := (epseff_guard _).2 (by norm_num)

/-- IBA with the Maxwell Garnett mixing formula (`iba_maxwell_garnett`): for passive constituents the effective permittivity it returns
    is passive and its absorption coefficient is non-negative - the `maxwellGarnett` third of `iba_ka_nonneg_full` -/
theorem iba_mg_ka_nonneg (ft : ℝ → ℝ) (f : ℝ) (e0 eps : Cx ℝ) (freq : ℝ) (o : IbaOut ℝ)
    (hf0 : 0 ≤ f) (hf1 : f ≤ 1) (h0 : 0 < e0.re) (he : 0 < eps.re) (h0i : 0 ≤ e0.im) (hei : 0 ≤ eps.im) (hfr : 0 ≤ freq)
    (h : iba .maxwellGarnett ft Real.pi f e0 eps freq = .ok o) : 0 ≤ o.ka ∧ 0 ≤ o.eps.im := by
  rcases e0 with ⟨a, b⟩; rcases eps with ⟨c, d⟩
  simp only at h0 he h0i hei
  have hD : (⟨c, d⟩ : Cx ℝ) + Cx.smul 2 ⟨a, b⟩ - Cx.smul f (⟨c, d⟩ - ⟨a, b⟩) ≠ Mixing.czero := by
    intro hh
    have := congrArg Cx.re hh
    change c + 2 * a - f * (c - a) = 0 at this
    nlinarith
  have hP : (⟨c, d⟩ : Cx ℝ) + Cx.smul 2 ⟨a, b⟩ ≠ Mixing.czero := by
    intro hh
    have := congrArg Cx.re hh
    change c + 2 * a = 0 at this
    linarith
  have hmg := (Props.C15.mg_spheres_eq_general_eq_hs f ⟨a, b⟩ ⟨c, d⟩ hf1 hD hP).2.1
  have him := Mixing.mgSpheres_im_nonneg f a b c d hf0 hf1 h0 he h0i hei
  unfold iba at h
  have heps : ibaEpsEff .maxwellGarnett f ⟨a, b⟩ ⟨c, d⟩ = .ok (Mixing.mgSpheres f ⟨a, b⟩ ⟨c, d⟩) := by
    unfold ibaEpsEff ibaMixing depolSph
    rw [hmg]
    show epsGuard _ = _
    exact (epseff_guard _).2 (by linarith)
  rw [heps] at h
  simp only [bind, Except.bind, pure, Except.pure, Except.ok.injEq] at h
  subst h
  refine ⟨?_, him⟩
  have hk : 0 ≤ waveNumber Real.pi freq := by
    unfold waveNumber cSpeed
    have := Real.pi_pos
    positivity
  exact iba_ka_nonneg_partial .maxwellGarnett f (waveNumber Real.pi freq)
    (meanSqFieldRatio .maxwellGarnett (Mixing.mgSpheres f ⟨a, b⟩ ⟨c, d⟩) ⟨a, b⟩ ⟨c, d⟩) (Mixing.mgSpheres f ⟨a, b⟩ ⟨c, d⟩) ⟨c, d⟩ hf0 hk hei him

end Smrt.Props.C10
