/-
  C01 — an isothermal scene radiates at its own temperature.

  Theorems about the boundary system of `SmrtVerif/Model/Dort.lean` (what `dort_modem_banded` assembles) and the stream
  directions of `SmrtVerif/Model/Streams.lean`.  The energy budgets of the interfaces enter as hypotheses in exactly the
  form the assembly uses them (`R·1 + T·1 = 1` on the rows that are coupled); C12 proves them for flat interfaces between
  loss-free media and for every specular substrate class.
-/
import SmrtVerif.Model.Dort
import SmrtVerif.Model.Streams
import SmrtVerif.Model.Eigen
import SmrtVerif.Proofs.Sum
import Mathlib.Tactic.Ring
import Mathlib.Tactic.Linarith
import Mathlib.Tactic.SplitIfs
import Mathlib.Tactic.FieldSimp
import Mathlib.Tactic.NormNum
import SmrtVerif.Proofs.RealTransc
import SmrtVerif.Model.Fresnel
import SmrtVerif.Proofs.Fresnel

set_option linter.unusedSectionVars false
set_option linter.unusedVariables false

namespace Smrt.Props.C01
open Smrt Smrt.Dort

/-- `R @ (T·1)` = `(R·1)·T`: a compressed matrix applied to a constant field -/
theorem cvMulMat_const (R : CV ℝ) (rows cols n : Nat) (T : ℝ) (i v : Nat) (hi : i < n)
    (hR : match R with | .dense m => m.c = rows | _ => True) :
    cvMulMat R ⟨rows, cols, fun _ _ => T⟩ i v = CV.muleye n R i * T := by
  cases R with
  | zero => simp [cvMulMat, CV.muleye]
  | diag d => simp [cvMulMat, CV.muleye, mul_comm]
  | dense m =>
    simp only [cvMulMat, CV.muleye, hi, if_true, Mat.rowSums]
    rw [sumN_eq_sum, sumN_eq_sum, Finset.sum_mul]

/-- the hypotheses "the scene is isothermal at `T`" and "every interface keeps its energy budget on the coupled rows" -/
structure Isothermal (S : DStack ℝ) (T : ℝ) : Prop where
  passive : S.passive = true
  mode0 : S.mode0 = true
  Tpos : 0 < T
  temps : ∀ l, l < S.L → (S.lay l).temp = T
  sub : S.hasSubTemp = true ∧ S.tsub = T
  sky : S.idown = ⟨S.nAir * S.npol, S.nvec, fun _ _ => T⟩
  skyShape : match S.tbotAir with | .dense m => m.c = S.nAir * S.npol | _ => True
  /-- top of layer 0: reflection back into the layer + transmission of the sky through the surface -/
  budgetTop0 : ∀ i, i < (S.lay 0).n * S.npol →
    CV.muleye ((S.lay 0).n * S.npol) (S.lay 0).rtop i
      + (if i < commonRows S S.tbotAir (S.nAir * S.npol) (S.lay 0).n then CV.muleye ((S.lay 0).n * S.npol) S.tbotAir i else 0) = 1
  /-- top of layer l ≥ 1: reflection + what comes down from layer l-1 -/
  budgetTop : ∀ l i, 0 < l → l < S.L → i < (S.lay l).n * S.npol →
    CV.muleye ((S.lay l).n * S.npol) (S.lay l).rtop i
      + (if i < commonRows S (S.lay (l - 1)).tbot ((S.lay (l - 1)).n * S.npol) (S.lay l).n
          then CV.muleye ((S.lay (l - 1)).n * S.npol) (S.lay (l - 1)).tbot i else 0) = 1
  /-- bottom of layer l < L-1: reflection + what comes up from layer l+1 -/
  budgetBot : ∀ l i, l + 1 < S.L → i < (S.lay l).n * S.npol →
    CV.muleye ((S.lay l).n * S.npol) (S.lay l).rbot i
      + (if i < commonRows S (S.lay (l + 1)).ttop ((S.lay (l + 1)).n * S.npol) (S.lay l).n
          then CV.muleye ((S.lay (l + 1)).n * S.npol) (S.lay (l + 1)).ttop i else 0) = 1
  /-- bottom of the last layer: reflectivity + emissivity of the substrate -/
  budgetSub : ∀ i, i < (S.lay (S.L - 1)).n * S.npol →
    CV.muleye ((S.lay (S.L - 1)).n * S.npol) (S.lay (S.L - 1)).rbot i
      + (if i < commonRows S (S.lay (S.L - 1)).tbot ((S.lay (S.L - 1)).n * S.npol) (S.lay (S.L - 1)).n
          then CV.muleye ((S.lay (S.L - 1)).n * S.npol) (S.lay (S.L - 1)).tbot i else 0) = 1

theorem tempOf_iso {S : DStack ℝ} {T : ℝ} (h : Isothermal S T) (l : Nat) (hl : l < S.L) : tempOf S l = T := by
  simp [tempOf, h.temps l hl, h.Tpos]

/-- **isothermal_rhs_zero**: for any number of layers, any stream counts (hence any pattern of total reflection and
    of `ns_common` truncation), any eigen-solutions and thicknesses: in an isothermal scene whose interfaces keep their
    budgets, the right-hand side of the boundary system vanishes in every row -/
theorem isothermal_rhs_zero (S : DStack ℝ) (T : ℝ) (h : Isothermal S T) (hL : 0 < S.L) (l i v : Nat) (hl : l < S.L)
    (hi : i < (S.lay l).n * S.npol) :
    rhsTop S l i v = 0 ∧ rhsBot S l i v = 0 := by
  constructor
  · simp only [rhsTop, h.passive, h.mode0, Bool.and_self, if_true, tempOf_iso h l hl]
    by_cases h0 : l = 0
    · subst h0
      simp only [if_true]
      have hb := h.budgetTop0 i hi
      split_ifs at hb ⊢ with hc
      · rw [h.sky, cvMulMat_const S.tbotAir _ _ _ T i v hi h.skyShape]
        have : CV.muleye ((S.lay 0).n * S.npol) S.tbotAir i = 1 - CV.muleye ((S.lay 0).n * S.npol) (S.lay 0).rtop i := by linarith
        rw [this]; ring
      · have : CV.muleye ((S.lay 0).n * S.npol) (S.lay 0).rtop i = 1 := by linarith
        rw [this]; ring
    · have hpos : 0 < l := Nat.pos_of_ne_zero h0
      simp only [h0, if_false]
      have hb := h.budgetTop l i hpos hl hi
      rw [tempOf_iso h (l - 1) (by omega)]
      split_ifs at hb ⊢ with hc
      · have : CV.muleye ((S.lay (l - 1)).n * S.npol) (S.lay (l - 1)).tbot i
            = 1 - CV.muleye ((S.lay l).n * S.npol) (S.lay l).rtop i := by linarith
        rw [this]; ring
      · have : CV.muleye ((S.lay l).n * S.npol) (S.lay l).rtop i = 1 := by linarith
        rw [this]; ring
  · simp only [rhsBot, h.passive, h.mode0, Bool.and_self, if_true, tempOf_iso h l hl, h.sub.1, h.sub.2]
    by_cases hlast : l + 1 < S.L
    · simp only [hlast, if_true]
      have hb := h.budgetBot l i hlast hi
      rw [tempOf_iso h (l + 1) hlast]
      split_ifs at hb ⊢ with hc
      · have : CV.muleye ((S.lay (l + 1)).n * S.npol) (S.lay (l + 1)).ttop i
            = 1 - CV.muleye ((S.lay l).n * S.npol) (S.lay l).rbot i := by linarith
        rw [this]; ring
      · have : CV.muleye ((S.lay l).n * S.npol) (S.lay l).rbot i = 1 := by linarith
        rw [this]; ring
    · have hl' : l = S.L - 1 := by omega
      simp only [hlast, if_false]
      have hb := h.budgetSub i (hl' ▸ hi)
      rw [← hl'] at hb
      split_ifs at hb ⊢ with hc
      · have : CV.muleye ((S.lay l).n * S.npol) (S.lay l).tbot i
            = 1 - CV.muleye ((S.lay l).n * S.npol) (S.lay l).rbot i := by linarith
        rw [this]; ring
      · have : CV.muleye ((S.lay l).n * S.npol) (S.lay l).rbot i = 1 := by linarith
        rw [this]; ring

/-- every entry of the assembled right-hand side is one of the two kinds above -/
theorem rhsEntry_cases (S : DStack ℝ) (r v : Nat) :
    (∃ l i, rhsEntry S r v = rhsTop S l i v ∧ l = layerOf S r ∧ i < (S.lay l).n * S.npol) ∨
    (∃ l i, rhsEntry S r v = rhsBot S l i v ∧ l = layerOf S r) := by
  unfold rhsEntry
  by_cases h : r - off S (layerOf S r) < (S.lay (layerOf S r)).n * S.npol
  · left; exact ⟨_, _, by simp [h], rfl, h⟩
  · right
    exact ⟨layerOf S r, r - off S (layerOf S r) - (S.lay (layerOf S r)).n * S.npol, by simp [h], rfl⟩

/-- **isothermal_tb**: with the zero solution (the unique one when the system matrix is injective, since the right-hand
    side is zero) the intensity just under the surface is `T` in every stream and polarisation, and the emerging
    intensity is `T` in every air stream, provided the surface keeps its budget on the air side -/
theorem isothermal_tb (S : DStack ℝ) (T : ℝ) (h : Isothermal S T) (x : Nat → Nat → ℝ) (hx : ∀ k v, x k v = 0)
    (hTtop : match (S.lay 0).ttop with | .dense m => m.c = (S.lay 0).n * S.npol | _ => True)
    (hRair : match S.rbotAir with | .dense m => m.c = S.nAir * S.npol | _ => True)
    (hAirLe : S.nAir ≤ (S.lay 0).n) (hL : 0 < S.L)
    (budgetAir : ∀ i, i < S.nAir * S.npol →
      CV.muleye (S.nAir * S.npol) S.rbotAir i + CV.muleye ((S.lay 0).n * S.npol) (S.lay 0).ttop i = 1)
    (i v : Nat) (hi : i < S.nAir * S.npol) :
    (∀ j w, i1up S x j w = T) ∧ emerging S x i v = T := by
  have h1 : ∀ j w, i1up S x j w = T := by
    intro j w
    simp only [i1up, hx, mul_zero, h.passive, h.mode0, Bool.and_self, if_true, tempOf_iso h 0 hL]
    rw [sumN_eq_sum]; simp
  refine ⟨h1, ?_⟩
  have hi0 : i < (S.lay 0).n * S.npol := lt_of_lt_of_le hi (Nat.mul_le_mul_right _ hAirLe)
  have e1 : (⟨(S.lay 0).n * S.npol, S.nvec, i1up S x⟩ : Mat ℝ) = ⟨(S.lay 0).n * S.npol, S.nvec, fun _ _ => T⟩ := by
    congr 1; funext j w; exact h1 j w
  simp only [emerging]
  rw [e1, h.sky, cvMulMat_const S.rbotAir _ _ _ T i v hi hRair, cvMulMat_const (S.lay 0).ttop _ _ _ T i v hi0 hTtop]
  have := budgetAir i hi
  have e : CV.muleye (S.nAir * S.npol) S.rbotAir i = 1 - CV.muleye ((S.lay 0).n * S.npol) (S.lay 0).ttop i := by linarith
  rw [e]; ring

/-- an injective system with zero right-hand side has only the zero solution (so the solver's `x` is the one above) -/
theorem zero_solution_unique (N : Nat) (A : Nat → Nat → ℝ) (x : Nat → ℝ)
    (hinj : ∀ y : Nat → ℝ, (∀ r, r < N → sumN N (fun c => A r c * y c) = 0) → ∀ c, c < N → y c = 0)
    (hsol : ∀ r, r < N → sumN N (fun c => A r c * x c) = 0) : ∀ c, c < N → x c = 0 := hinj x hsol

/-! ### the row normalisation makes the constant field an exact particular solution -/

/-- **normalized_rows**: after `EigenValueSolver.normalize` every row of the weighted phase matrix sums to `−ks`,
    whatever the phase function and the quadrature, so that each row of the matrix handed to the eigen-solver sums to
    `(ke − ks)/μ = ka/μ` (with sign): the constant intensity `T·1` satisfies the discretised layer equation
    `μ dI/dz = −ke I + scattering + ka T` exactly, for any scattering strength (this is why the hard-wired thermal
    source `T` of the assembly is legitimate even at albedo 0.999) -/
theorem normalized_rows (npol ns : Nat) (coef ks : ℝ) (mu w : Nat → ℝ) (P : Nat → Nat → ℝ) (ke : Nat → ℝ) (r : Nat)
    (hr : r < 2 * (npol * ns))
    (hsum : sumN (2 * (npol * ns)) (fun c => Eigen.weighted npol ns coef w P r c) ≠ 0) :
    sumN (2 * (npol * ns)) (fun c => Eigen.weighted npol ns coef w P r c * Eigen.norm0 npol ns coef w P ks r) = - ks ∧
    sumN (2 * (npol * ns)) (fun c => Eigen.matrixA npol ns coef mu w P ke (Eigen.norm0 npol ns coef w P ks) r c)
      = Eigen.invmu npol ns mu r * (ke r - ks) := by
  have h1 : sumN (2 * (npol * ns)) (fun c => Eigen.weighted npol ns coef w P r c * Eigen.norm0 npol ns coef w P ks r) = - ks := by
    rw [sumN_eq_sum, ← Finset.sum_mul, ← sumN_eq_sum]
    unfold Eigen.norm0
    field_simp
  refine ⟨h1, ?_⟩
  unfold Eigen.matrixA
  rw [sumN_eq_sum, ← Finset.mul_sum, Finset.sum_add_distrib, ← sumN_eq_sum, h1]
  rw [Finset.sum_ite_eq (Finset.range (2 * (npol * ns))) r (fun _ => ke r)]
  simp only [Finset.mem_range, hr, if_true]
  ring

/-! ### stream directions obey Snell's law with the real index -/

/-- **snell_invariant**: a retained stream of a layer with relative real index `idx` satisfies
    `1 − μ² = idx²·(1 − μ_ref²)`, i.e. `sin θ = idx · sin θ_ref`; two layers therefore see the same reference stream under
    Snell-conjugate angles (`sin θ₁ / idx₁ = sin θ₂ / idx₂`) -/
theorem snell_invariant (idx muRef : ℝ) (hmu : muRef * muRef ≤ 1) (hret : Streams.relsin idx muRef < 1)
    (hidx : 0 ≤ idx) :
    let mu := Real.sqrt (1 - Streams.relsin idx muRef * Streams.relsin idx muRef)
    1 - mu * mu = idx * idx * (1 - muRef * muRef) := by
  intro mu
  have hs : 0 ≤ 1 - muRef * muRef := by linarith
  have hr0 : 0 ≤ Streams.relsin idx muRef := by
    unfold Streams.relsin; exact mul_nonneg hidx (Real.sqrt_nonneg _)
  have hr1 : Streams.relsin idx muRef * Streams.relsin idx muRef ≤ 1 := by nlinarith
  have hmu2 : mu * mu = 1 - Streams.relsin idx muRef * Streams.relsin idx muRef :=
    Real.mul_self_sqrt (by linarith)
  rw [hmu2]
  unfold Streams.relsin
  have : Transc.sqrt (1 - muRef * muRef) = Real.sqrt (1 - muRef * muRef) := rfl
  rw [this]
  have := Real.mul_self_sqrt hs
  nlinarith

/-- the retained streams are a prefix of the reference streams: `relsin` grows as the reference cosine decreases, so
    once a stream is totally reflected all the following (more grazing) ones are -/
theorem retained_is_prefix (idx mu1 mu2 : ℝ) (hidx : 0 ≤ idx) (h12 : mu2 ≤ mu1) (h2 : 0 ≤ mu2) (h1 : mu1 ≤ 1)
    (hret : Streams.relsin idx mu2 < 1) : Streams.relsin idx mu1 < 1 := by
  unfold Streams.relsin at *
  have hle : Real.sqrt (1 - mu1 * mu1) ≤ Real.sqrt (1 - mu2 * mu2) := by
    apply Real.sqrt_le_sqrt; nlinarith
  have : Transc.sqrt (1 - mu1 * mu1) = Real.sqrt (1 - mu1 * mu1) := rfl
  have e2 : Transc.sqrt (1 - mu2 * mu2) = Real.sqrt (1 - mu2 * mu2) := rfl
  rw [this]; rw [e2] at hret
  calc idx * Real.sqrt (1 - mu1 * mu1) ≤ idx * Real.sqrt (1 - mu2 * mu2) := mul_le_mul_of_nonneg_left hle hidx
    _ < 1 := hret

/-! ### where the budgets come from: flat interfaces between loss-free media (C12) -/
section budgets
open Smrt.Fresnel

/-- **interface_budget_lossless**: at a flat interface between two loss-free media, for a stream that propagates on both
    sides (Snell-conjugate cosines `μ₁`, `μ₂`), the reflectivity seen from medium 1 plus the transmissivity of what comes
    from medium 2 is one, in both polarisations — the `budgetTop`/`budgetBot` hypotheses of `Isothermal` on the coupled rows;
    and a stream of medium 1 that is totally reflected has reflectivity one — the rows beyond `ns_common` -/
theorem interface_budget_lossless (a1 a2 mu1 mu2 : ℝ) (h1 : 0 < a1) (h2 : 0 < a2) (hmu1 : 0 ≤ mu1) (hmu2 : 0 ≤ mu2)
    (snell : a1 * (1 - mu1 * mu1) = a2 * (1 - mu2 * mu2)) :
    Rv (⟨a1, 0⟩ : Cx ℝ) ⟨a2, 0⟩ mu1 + Tv (⟨a2, 0⟩ : Cx ℝ) ⟨a1, 0⟩ mu2 = 1 ∧
    Rh (⟨a1, 0⟩ : Cx ℝ) ⟨a2, 0⟩ mu1 + Th (⟨a2, 0⟩ : Cx ℝ) ⟨a1, 0⟩ mu2 = 1 := by
  -- reciprocity of the reflectivities (same argument as C12 `fresnel_reciprocal_lossless`, from the loss-free closed forms)
  have hh : Rh (⟨a1, 0⟩ : Cx ℝ) ⟨a2, 0⟩ mu1 = Rh (⟨a2, 0⟩ : Cx ℝ) ⟨a1, 0⟩ mu2 := by
    rw [lossless_Rh a1 a2 mu1 mu2 h1.le h2.le hmu1 hmu2 snell, lossless_Rh a2 a1 mu2 mu1 h2.le h1.le hmu2 hmu1 snell.symm,
      div_pow, div_pow]
    congr 1 <;> ring
  have hv : Rv (⟨a1, 0⟩ : Cx ℝ) ⟨a2, 0⟩ mu1 = Rv (⟨a2, 0⟩ : Cx ℝ) ⟨a1, 0⟩ mu2 := by
    rw [lossless_Rv a1 a2 mu1 mu2 h1 h2.le hmu1 hmu2 snell, lossless_Rv a2 a1 mu2 mu1 h2 h1.le hmu2 hmu1 snell.symm,
      div_pow, div_pow]
    congr 1 <;> ring
  constructor
  · rw [hv]; unfold Rv Tv; ring
  · rw [hh]; unfold Rh Th; ring

end budgets

/-! ### non-vacuity: a concrete isothermal one-layer scene satisfies every hypothesis -/

noncomputable def demoLayer : DLayer ℝ :=
  { n := 1, d := 1, temp := 250, beta := fun _ => 1, eu := ⟨2, 4, fun _ _ => 1⟩, ed := ⟨2, 4, fun _ _ => 1⟩,
    rtop := .diag ⟨2, fun _ => 1 / 4⟩, rbot := .diag ⟨2, fun _ => 1 / 2⟩,
    ttop := .diag ⟨2, fun _ => 3 / 4⟩, tbot := .diag ⟨2, fun _ => 1 / 2⟩ }

noncomputable def demoStack : DStack ℝ :=
  { npol := 2, L := 1, lay := fun _ => demoLayer, nAir := 1, nSub := 1,
    tbotAir := .diag ⟨2, fun _ => 3 / 4⟩, rbotAir := .diag ⟨2, fun _ => 1 / 4⟩,
    passive := true, hasSubTemp := true, tsub := 250, nvec := 1,
    idown := ⟨1 * 2, 1, fun _ _ => 250⟩, mode0 := true }

example : Isothermal demoStack 250 where
  passive := rfl
  mode0 := rfl
  Tpos := by norm_num
  temps := fun _ _ => rfl
  sub := ⟨rfl, rfl⟩
  sky := rfl
  skyShape := trivial
  budgetTop0 := by
    intro i hi
    simp only [demoStack, demoLayer, commonRows, cvRows, CV.muleye] at hi ⊢
    norm_num at hi ⊢
    split_ifs <;> first | norm_num | omega
  budgetTop := by intro l i h0 hl; simp [demoStack] at hl; omega
  budgetBot := by intro l i hl; simp [demoStack] at hl
  budgetSub := by
    intro i hi
    simp only [demoStack, demoLayer, commonRows, cvRows, CV.muleye] at hi ⊢
    norm_num at hi ⊢
    split_ifs <;> first | norm_num | omega

end Smrt.Props.C01
