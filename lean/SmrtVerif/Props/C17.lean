/-
  C17 — microstructure models are consistent Fourier pairs.
  Property theorems only (helper lemmas and the integrals live in SmrtVerif/Proofs/Microstructure.lean).
  All statements are over ℝ with Mathlib's exp/sin/cos/sqrt (`Smrt.instTranscReal` of Proofs/RealTransc.lean); the constant `π` of the
  model is an explicit argument `p`, instantiated at `Real.pi` where the statement needs it (Fourier pairs, mappings
  that divide by π).  The radial transform is  Ĉ(k) = (4π/k) ∫₀^∞ r C(r) sin(kr) dr.

  Four points of the model state the property, not the code at the pinned commit (the correspondence slices
  `unified_scaled_exponential.acf`, `sphere.acf.beyond2R`, `unified_teubner_strey.one.acf`, `grf.acf` break there and the oracle
  reports the failing inputs): see `Model/Microstructure.lean` and the refuting `example`s at the end of this file.

  Not proved (kept as `…_full : Prop`, asserted nowhere; evaluated by the oracle at 5 %):
  accuracy of the numerical sine-transform fall-backs (sticky hard spheres real-space form, Gaussian random field /
  sampled spectrum), and the Gaussian-random-field zero-lag value (its real-space form is itself a quadrature).
-/
import SmrtVerif.Model.Microstructure
import SmrtVerif.Proofs.Microstructure
import Mathlib.Analysis.SpecialFunctions.Gamma.Basic

set_option linter.unusedVariables false

namespace Smrt.Props.C17
open Smrt Smrt.Micro MeasureTheory Set Filter

/-! ### 1. zero lag: `acf(0) = f(1−f)` -/

theorem exp_acf_origin (f ξ : ℝ) (hξ : 0 < ξ) : expAcf f ξ 0 = acf0 f := by
  simp [expAcf]

theorem sph_acf_origin (f R : ℝ) (hR : 0 < R) : sphAcf f R 0 = acf0 f := by
  have h : ¬ (2.0 * R < 0) := by norm_num; linarith
  simp only [sphAcf, h, if_false, sphPoly, cube]
  norm_num

theorem ts_acf_origin (p f ξ d : ℝ) (hξ : 0 < ξ) (hd : 0 < d) : tsAcf p f ξ d 0 = acf0 f := by
  simp [tsAcf, sinc_zero]

theorem use_acf_origin (f lp K : ℝ) (hlp : 0 < lp) (hK : 0 < K) : useAcf f lp K 0 = acf0 f := by
  simp [useAcf]

theorem uts_acf_origin (p f lp K : ℝ) (hlp : 0 < lp) (hK : 0 < K) : utsAcf p f lp K 0 = acf0 f := by
  unfold utsAcf
  split_ifs with h
  · simp [utsAcfLo, sinc_zero]
  · have : ¬ ((1e-15 : ℝ) < 0) := by norm_num
    simp [utsAcfHi, this]



/-- `np.interp` at lag 0 returns the first sample (first node at lag 0, later nodes at positive lags) -/
theorem samp_acf_origin (n : Nat) (lag acf : Nat → ℝ) (hn : 1 ≤ n) (h0 : lag 0 = 0)
    (hpos : ∀ i, 0 < i → 0 < lag i) : sampAcf n lag acf 0 = acf 0 := by
  have hfilter : ∀ m, 1 ≤ m → (List.range m).filter (fun i => !(decide ((0:ℝ) < lag i))) = [0] := by
    intro m hm
    induction m with
    | zero => omega
    | succ m ih =>
      rcases Nat.eq_zero_or_pos m with rfl | hmpos
      · simp [h0]
      · rw [List.range_succ, List.filter_append, ih hmpos]
        simp [hpos m hmpos]
  unfold sampAcf interp
  have h1 : ¬ ((0:ℝ) < lag 0) := by rw [h0]; exact lt_irrefl 0
  have h2 : ¬ (lag (n - 1) < 0) := by
    rcases Nat.eq_zero_or_pos (n - 1) with h | h
    · rw [h, h0]; exact lt_irrefl 0
    · exact not_lt.2 (hpos _ h).le
  have h3 : ¬ (lag 0 < 0) := by rw [h0]; exact lt_irrefl 0
  simp only [h1, h2, if_false, hfilter n hn, List.length_singleton, Nat.sub_self, zero_add, h3]
  split_ifs <;> rfl

/-- … and when the first node is at a positive lag, lag 0 is left of the table: also the first sample -/
theorem samp_acf_origin_left (n : Nat) (lag acf : Nat → ℝ) (h0 : 0 < lag 0) : sampAcf n lag acf 0 = acf 0 := by
  simp [sampAcf, interp, h0]

/-! ### 2. large lag -/

theorem exp_acf_tendsto_zero (f ξ : ℝ) (hξ : 0 < ξ) : Tendsto (expAcf f ξ) atTop (nhds 0) := by
  have h := (Smrt.Integrals.tendsto_exp_neg_mul (a := 1 / ξ) (by positivity)).const_mul (acf0 f)
  simp only [mul_zero] at h
  refine h.congr (fun r => ?_)
  simp only [expAcf, tExp]
  congr 2; field_simp

/-- independent spheres are uncorrelated beyond one diameter -/
theorem sph_acf_beyond_diameter (f R r : ℝ) (h : 2 * R < r) : sphAcf f R r = 0 := by
  have h' : (2.0 : ℝ) * R < r := by norm_num; exact h
  simp [sphAcf, h']

/-- and the cubic reaches 0 at the diameter (no jump) -/
theorem sph_acf_at_diameter (f R : ℝ) (hR : 0 < R) : sphAcf f R (2 * R) = 0 := by
  have h' : ¬ ((2.0 : ℝ) * R < 2 * R) := by norm_num
  simp only [sphAcf, h', if_false, sphPoly, cube]
  have : R ≠ 0 := hR.ne'
  have hz : (1 : ℝ) - 2 * R / (4.0 * R / 3.0) + 2 * R * (2 * R) * (2 * R) / (2.0 * R * (2.0 * R) * (2.0 * R) * 2.0) = 0 := by
    norm_num
    field_simp
    ring
  rw [hz, mul_zero]

theorem ts_acf_bound (p f ξ d r : ℝ) : |tsAcf p f ξ d r| ≤ |acf0 f| * Real.exp (-r / ξ) := by
  simp only [tsAcf, tExp, abs_mul, abs_of_pos (Real.exp_pos _)]
  have := abs_sinc_le_one p (2.0 * r / d)
  have h1 : 0 ≤ |acf0 f| * Real.exp (-r / ξ) := by positivity
  nlinarith [abs_nonneg (acf0 f), Real.exp_pos (-r / ξ), abs_nonneg (Micro.sinc p (2.0 * r / d))]

theorem ts_acf_tendsto_zero (p f ξ d : ℝ) (hξ : 0 < ξ) : Tendsto (tsAcf p f ξ d) atTop (nhds 0) := by
  have h := (Smrt.Integrals.tendsto_exp_neg_mul (a := 1 / ξ) (by positivity)).const_mul |acf0 f|
  simp only [mul_zero] at h
  refine squeeze_zero_norm (fun r => ?_) (h.congr (fun r => ?_)) (a := fun r => |acf0 f| * Real.exp (-r / ξ))
  · rw [Real.norm_eq_abs]; exact ts_acf_bound p f ξ d r
  · congr 2; field_simp

/-! ### 3. analytic spectra are non-negative; their value at `k = 0` -/

theorem exp_ft_nonneg (p f ξ k : ℝ) (hp : 0 ≤ p) (hf0 : 0 ≤ f) (hf1 : f ≤ 1) (hξ : 0 ≤ ξ) : 0 ≤ expFt p f ξ k := by
  have := acf0_nonneg hf0 hf1
  simp only [expFt, sq_eq, cube_eq]
  positivity

theorem exp_ft_zero (p f ξ : ℝ) : expFt p f ξ 0 = acf0 f * 8 * p * ξ ^ 3 := by
  simp only [expFt, sq_eq, cube_eq]; norm_num

theorem sph_ft_nonneg (p f R k : ℝ) (hp : 0 ≤ p) (hf0 : 0 ≤ f) (hf1 : f ≤ 1) (hR : 0 ≤ R) : 0 ≤ sphFt p f R k := by
  have := acf0_nonneg hf0 hf1
  have hb : 0 ≤ sphBessel (R * k) := by
    unfold sphBessel; split_ifs
    · exact zero_le_one
    · rw [sq_eq]; positivity
  simp only [sphFt, cube_eq]
  positivity

/-- at `k = 0` the spectrum is `f(1−f)` times the sphere volume -/
theorem sph_ft_zero (p f R : ℝ) : sphFt p f R 0 = acf0 f * (4 / 3 * p * R ^ 3) := by
  have h : closeZero (1e-3 : ℝ) 0 = true := by
    rw [← Bool.not_eq_false, closeZero_false]; norm_num
  simp only [sphFt, sphBessel, mul_zero, h, if_true, cube_eq]; norm_num

theorem shs_ft_nonneg (p f R t k : ℝ) (hp : 0 ≤ p) (hf0 : 0 ≤ f) (hR : 0 ≤ R) : 0 ≤ shsFtT p f R t k := by
  unfold shsFtT
  simp only [sq_eq, cube_eq, shsFtZero]
  split_ifs <;> positivity

theorem ts_den_pos (X Y : ℝ) (hY : 0 < Y) : 0 < tsDen X Y := by
  have : tsDen X Y = (X + 1 - Y) ^ 2 + 4 * Y := by simp only [tsDen, sq_eq]; norm_num; ring
  rw [this]; positivity

theorem ts_ft_nonneg (p f ξ d k : ℝ) (hp : 0 ≤ p) (hf0 : 0 ≤ f) (hf1 : f ≤ 1) (hξ : 0 ≤ ξ) : 0 ≤ tsFt p f ξ d k := by
  have := acf0_nonneg hf0 hf1
  have hden : 0 ≤ tsDen (sq (k * ξ)) (sq (2.0 * p * ξ / d)) := by
    have : ∀ X Y : ℝ, 0 ≤ Y → 0 ≤ tsDen X Y := by
      intro X Y hY
      have : tsDen X Y = (X + 1 - Y) ^ 2 + 4 * Y := by simp only [tsDen, sq_eq]; norm_num; ring
      rw [this]; positivity
    exact this _ _ (sq_nonneg' _)
  simp only [tsFt, cube_eq]
  positivity

theorem ts_ft_zero (p f ξ d : ℝ) : tsFt p f ξ d 0 = acf0 f * (8 * p * ξ ^ 3 / (1 + (2 * p * ξ / d) ^ 2) ^ 2) := by
  simp only [tsFt, tsDen, sq_eq, cube_eq]; norm_num

theorem uts_ft_nonneg (p f lp K k : ℝ) (hp : 0 ≤ p) (hf0 : 0 ≤ f) (hf1 : f ≤ 1)
    (h1 : 0 ≤ utsZeta1 lp K) (h2 : 0 ≤ utsZeta2 lp K) : 0 ≤ utsFt p f lp K k := by
  have := acf0_nonneg hf0 hf1
  unfold utsFt
  split_ifs
  · simp only [utsFtLo, sq_eq, cube_eq]; positivity
  · simp only [utsFtHi, sq_eq]; positivity

theorem ushs_ft_nonneg (p f R t k : ℝ) (hp : 0 ≤ p) (hf0 : 0 ≤ f) (hR : 0 ≤ R) : 0 ≤ ushsFtCore p f R t k := by
  unfold ushsFtCore
  simp only [sq_eq, cube_eq, shsFtZero]
  split_ifs <;> positivity

/-! ### 4. unified ↔ classical parameter mappings give identical functions -/

/-- unified scaled exponential = exponential with `ξ = K·ℓ_P`, both forms -/
theorem use_eq_exponential (p f lp K r k : ℝ) :
    useAcf f lp K r = expAcf f (K * lp) r ∧ useFt p f lp K k = expFt p f (K * lp) k := by
  constructor <;> rfl

/-- unified Teubner–Strey, `K < 1`: Teubner–Strey with `ξ = ζ₁`, `d = 2π ζ₂` (real-space form) -/
theorem uts_lo_acf_eq_teubner_strey (p c f z1 z2 r : ℝ) (hp : p ≠ 0) (hz2 : z2 ≠ 0) :
    utsAcfLo p (acf0 f) z1 z2 r = tsAcf p f z1 (2 * p * z2) r := by
  simp only [utsAcfLo, tsAcf]
  have : (2.0 : ℝ) * r / (2 * p * z2) = r / z2 / p := by norm_num; field_simp
  rw [this]; ring

/-- … and spectral form -/
theorem uts_lo_ft_eq_teubner_strey (p f z1 z2 k : ℝ) (hp : p ≠ 0) (hz2 : z2 ≠ 0) :
    utsFtLo p (acf0 f) z1 z2 k = tsFt p f z1 (2 * p * z2) k := by
  simp only [utsFtLo, tsFt, tsDen, sq_eq, cube_eq]
  have : (2.0 : ℝ) * p * z1 / (2 * p * z2) = z1 / z2 := by norm_num; field_simp
  rw [this]
  congr 2
  norm_num
  ring

theorem uts_zeta_one (lp : ℝ) : utsZeta1 lp 1 = lp ∧ utsZeta2 lp 1 = lp := by
  simp [utsZeta1, utsZeta2, k32]

/-- unified Teubner–Strey at `K = 1` is the exponential model with `ξ = ℓ_P`, both forms
    (the code at the pinned commit returns the constant `f(1−f)` for the real-space form) -/
theorem uts_one_eq_exponential (p f lp r k : ℝ) (hlp : 0 < lp) :
    utsAcf p f lp 1 r = expAcf f lp r ∧ utsFt p f lp 1 k = expFt p f lp k := by
  obtain ⟨h1, h2⟩ := uts_zeta_one lp
  have hK : ¬ ((1:ℝ) < 1) := lt_irrefl 1
  have hg : ¬ ((1e-15 : ℝ) < r * (1 / lp - 1 / lp)) := by rw [sub_self, mul_zero]; norm_num
  constructor
  · simp only [utsAcf, hK, if_false, h1, h2, utsAcfHi, hg, expAcf]
  · simp only [utsFt, hK, if_false, h1, h2, utsFtHi, expFt, sq_eq, cube_eq]
    have : lp ≠ 0 := hlp.ne'
    field_simp
    norm_num
    ring

/-- unified sticky hard spheres: the class's own formula (volumes kept) is the classical spectrum for the same `t` -/
theorem ushs_eq_shs_same_t (p phi R t k : ℝ) (hp : p ≠ 0) (hR : R ≠ 0) :
    ushsFtCore p phi R t k = shsFtT p phi R t k := by
  have core : ∀ (vd X s cx sx c3 : ℝ), vd ≠ 0 →
      phi / vd * (1 / ((phi / (1 - phi) * ((1 - t * phi + c3 * phi / (1 - phi)) * (1 / vd)
          + (c3 - t * (1 - phi)) * (s / (vd * c3 * (s - cx) / X ^ 2))) + cx / (vd * c3 * (s - cx) / X ^ 2)) ^ 2
          + (phi / (1 - phi) * X * (1 / vd) + sx / (vd * c3 * (s - cx) / X ^ 2)) ^ 2))
      = phi * vd * (1 / ((phi / (1 - phi) * ((1 - t * phi + c3 * phi / (1 - phi)) * 1
          + (c3 - t * (1 - phi)) * (s / (c3 * (s - cx) / X ^ 2))) + cx / (c3 * (s - cx) / X ^ 2)) ^ 2
          + (phi / (1 - phi) * X * 1 + sx / (c3 * (s - cx) / X ^ 2)) ^ 2)) := by
    intro vd X s cx sx c3 hvd
    have e : ∀ y : ℝ, y / (vd * c3 * (s - cx) / X ^ 2) = (y / (c3 * (s - cx) / X ^ 2)) / vd := by
      intro y; rw [mul_assoc, mul_div_assoc, div_mul_eq_div_div_swap]
    rw [e s, e cx, e sx]
    generalize s / (c3 * (s - cx) / X ^ 2) = Psi
    generalize cx / (c3 * (s - cx) / X ^ 2) = ca
    generalize sx / (c3 * (s - cx) / X ^ 2) = sa
    have key : ∀ a b : ℝ, (a / vd) ^ 2 + (b / vd) ^ 2 = (a ^ 2 + b ^ 2) / vd ^ 2 := by
      intro a b; field_simp
    have eA : phi / (1 - phi) * ((1 - t * phi + c3 * phi / (1 - phi)) * (1 / vd) + (c3 - t * (1 - phi)) * (Psi / vd)) + ca / vd
        = (phi / (1 - phi) * ((1 - t * phi + c3 * phi / (1 - phi)) * 1 + (c3 - t * (1 - phi)) * Psi) + ca) / vd := by
      ring
    have eB : phi / (1 - phi) * X * (1 / vd) + sa / vd = (phi / (1 - phi) * X * 1 + sa) / vd := by ring
    rw [eA, eB, key, one_div_div]
    field_simp
  unfold ushsFtCore shsFtT
  simp only [sq_eq, cube_eq]
  split_ifs with h
  · rfl
  · have hvd : (4.0 / 3.0 * p * (2.0 * R / 2.0) ^ 3 : ℝ) ≠ 0 := by
      norm_num; exact ⟨hp, hR⟩
    exact core _ _ _ _ _ _ hvd

/-- `compute_stickiness` inverts the quadratic that defines `t` (Tsang II 8.4.22) -/
theorem ushs_stickiness_root (phi t : ℝ) (hphi : phi ≠ 1) (ht : t ≠ 0) :
    phi / 12 * t ^ 2 - (ushsStickiness phi t + phi / (1 - phi)) * t + (1 + phi / 2) / (1 - phi) ^ 2 = 0 := by
  have h1 : (1 - phi) ≠ 0 := sub_ne_zero.2 (Ne.symm hphi)
  simp only [ushsStickiness, sq_eq]
  norm_num
  field_simp
  ring

/-- the `t` computed by the classical spectral form is a root of the same quadratic -/
theorem shs_t_root (tau phi : ℝ) (h0 : 0 < phi) (h1 : phi < 1) (hD : 0 ≤ shsDisc tau phi) :
    phi / 12 * (shsT (some tau) phi) ^ 2 - (tau + phi / (1 - phi)) * shsT (some tau) phi + (1 + phi / 2) / (1 - phi) ^ 2 = 0 := by
  have h1' : (1 - phi) ≠ 0 := by linarith
  have h2 : (-1 + phi) ≠ 0 := by linarith
  have h3 : phi ≠ 0 := h0.ne'
  simp only [shsT, h0, if_true, tSqrt]
  have hs : Real.sqrt (shsDisc tau phi) ^ 2 = shsDisc tau phi := Real.sq_sqrt hD
  generalize Real.sqrt (shsDisc tau phi) = s at hs
  have hs' : s ^ 2 = 36 * tau ^ 2 * phi ^ 2 - 72 * tau * phi ^ 2 - 72 * tau ^ 2 * phi + 30 * phi ^ 2 + 72 * tau * phi + 36 * tau ^ 2 - 12 * phi := by
    rw [hs]; simp only [shsDisc, sq_eq]; norm_num
  norm_num
  field_simp
  ring_nf
  ring_nf at hs'
  nlinarith [hs']

/-! ### 5. phase inversion -/

theorem inverted_frac (f : ℝ) : invertedFrac f = 1 - f ∧ invertedFrac (invertedFrac f) = f ∧ acf0 (invertedFrac f) = acf0 f := by
  refine ⟨rfl, ?_, acf0_inverted f⟩
  unfold invertedFrac; ring

theorem exp_inverted (p f ξ r k : ℝ) :
    expAcf (invertedFrac f) ξ r = expAcf f ξ r ∧ expFt p (invertedFrac f) ξ k = expFt p f ξ k := by
  simp only [expAcf, expFt, acf0_inverted, and_self]

theorem sph_inverted (p f R r k : ℝ) :
    sphAcf (invertedFrac f) R r = sphAcf f R r ∧ sphFt p (invertedFrac f) R k = sphFt p f R k := by
  simp only [sphAcf, sphFt, acf0_inverted, and_self]

theorem ts_inverted (p f ξ d r k : ℝ) :
    tsAcf p (invertedFrac f) ξ d r = tsAcf p f ξ d r ∧ tsFt p (invertedFrac f) ξ d k = tsFt p f ξ d k := by
  simp only [tsAcf, tsFt, acf0_inverted, and_self]

theorem unified_inverted (p f lp K r k : ℝ) :
    useAcf (invertedFrac f) lp K r = useAcf f lp K r ∧ useFt p (invertedFrac f) lp K k = useFt p f lp K k ∧
    utsAcf p (invertedFrac f) lp K r = utsAcf p f lp K r ∧ utsFt p (invertedFrac f) lp K k = utsFt p f lp K k := by
  simp only [useAcf, useFt, utsAcf, utsFt, acf0_inverted, and_self]

/-- the documented mapping unified → classical sticky hard spheres: for the stickiness returned by
    `compute_stickiness`, the classical class recovers the same `t`, provided `t` is the smaller root of the
    quadratic (`(φ/12) t² ≤ (1+φ/2)/(1−φ)²`), which is the root `ft_autocorrelation_function` always takes -/
theorem ushs_t_roundtrip (phi t : ℝ) (h0 : 0 < phi) (h1 : phi < 1) (ht : 0 < t)
    (hroot : phi / 12 * t ^ 2 ≤ (1 + phi / 2) / (1 - phi) ^ 2) :
    shsT (some (ushsStickiness phi t)) phi = t := by
  have h1' : 0 < 1 - phi := by linarith
  have hne : (1 - phi) ≠ 0 := h1'.ne'
  have htne : t ≠ 0 := ht.ne'
  have hw0 : 0 ≤ 6 * (1 - phi) * ((1 + phi / 2) / ((1 - phi) ^ 2 * t) - phi / 12 * t) := by
    have : phi / 12 * t ≤ (1 + phi / 2) / ((1 - phi) ^ 2 * t) := by
      rw [le_div_iff₀ (by positivity)]
      rw [le_div_iff₀ (by positivity)] at hroot
      nlinarith
    have : 0 ≤ (1 + phi / 2) / ((1 - phi) ^ 2 * t) - phi / 12 * t := by linarith
    positivity
  have hdisc : shsDisc (ushsStickiness phi t) phi
      = (6 * (1 - phi) * ((1 + phi / 2) / ((1 - phi) ^ 2 * t) - phi / 12 * t)) ^ 2 := by
    simp only [shsDisc, ushsStickiness, sq_eq]
    norm_num
    field_simp
    ring
  simp only [shsT, h0, if_true, tSqrt, hdisc, Real.sqrt_sq hw0]
  simp only [ushsStickiness, sq_eq]
  norm_num
  have : phi ≠ 0 := h0.ne'
  have : (-1 + phi) ≠ 0 := by linarith
  field_simp
  ring

/-! ### 6. Fourier pairs: `Ĉ(k) = (4π/k) ∫₀^∞ r C(r) sin(kr) dr` -/

/-- exponential model (and therefore MEMLS/IBA): `8π ξ³ f(1−f) / (1+k²ξ²)²` is the 3-d transform of `f(1−f) e^{-r/ξ}` -/
theorem fourier_pair_exponential (f ξ k : ℝ) (hξ : 0 < ξ) (hk : 0 < k) :
    4 * Real.pi / k * ∫ r in Ioi (0:ℝ), r * expAcf f ξ r * Real.sin (k * r) = expFt Real.pi f ξ k := by
  have h := Smrt.Integrals.integral_mul_exp_neg_mul_sin (a := 1 / ξ) (by positivity) k
  have e : ∀ r : ℝ, r * expAcf f ξ r * Real.sin (k * r) = acf0 f * (r * Real.exp (-(1 / ξ) * r) * Real.sin (k * r)) := by
    intro r
    simp only [expAcf, tExp]
    have : -r / ξ = -(1 / ξ) * r := by field_simp
    rw [this]; ring
  simp_rw [e]
  rw [integral_const_mul, h, expFt_eq]
  have : k ≠ 0 := hk.ne'
  have : ξ ≠ 0 := hξ.ne'
  field_simp
  ring

/-- unified scaled exponential: the same pair with `ξ = K ℓ_P` (the code's real-space form is not this function) -/
theorem fourier_pair_unified_scaled_exponential (f lp K k : ℝ) (hlp : 0 < lp) (hK : 0 < K) (hk : 0 < k) :
    4 * Real.pi / k * ∫ r in Ioi (0:ℝ), r * useAcf f lp K r * Real.sin (k * r) = useFt Real.pi f lp K k :=
  fourier_pair_exponential f (K * lp) k (by positivity) hk


/-- Teubner–Strey -/
theorem fourier_pair_teubner_strey (f ξ d k : ℝ) (hξ : 0 < ξ) (hd : 0 < d) (hk : 0 < k) :
    4 * Real.pi / k * ∫ r in Ioi (0:ℝ), r * tsAcf Real.pi f ξ d r * Real.sin (k * r) = tsFt Real.pi f ξ d k := by
  have hpi : Real.pi ≠ 0 := Real.pi_ne_zero
  have hk0 : k ≠ 0 := hk.ne'
  have hξ0 : ξ ≠ 0 := hξ.ne'
  have hd0 : d ≠ 0 := hd.ne'
  have h := Smrt.Integrals.integral_exp_neg_mul_sin_mul_sin (a := 1 / ξ) (by positivity) (2 * Real.pi / d) k
  have e : EqOn (fun r : ℝ => r * tsAcf Real.pi f ξ d r * Real.sin (k * r))
      (fun r => acf0 f * (d / (2 * Real.pi)) * (Real.exp (-(1 / ξ) * r) * Real.sin (2 * Real.pi / d * r) * Real.sin (k * r))) (Ioi 0) := by
    intro r hr
    have hr0 : r ≠ 0 := (mem_Ioi.1 hr).ne'
    have hx : 2 * r / d ≠ 0 := by positivity
    simp only [tsAcf_eq, sinc_of_ne hx]
    have e1 : -r / ξ = -(1 / ξ) * r := by field_simp
    have e2 : Real.pi * (2 * r / d) = 2 * Real.pi / d * r := by field_simp
    rw [e1, e2]
    field_simp
  rw [setIntegral_congr_fun measurableSet_Ioi e, integral_const_mul, h, tsFt_eq]
  -- algebra: with a = 1/ξ, b = 2π/d the two Lorentzians combine to 4abk / (D₁ D₂), and ξ⁴ D₁ D₂ is the code's denominator
  have hD1 : (1 / ξ) ^ 2 + (2 * Real.pi / d - k) ^ 2 = (1 + (2 * Real.pi * ξ / d - k * ξ) ^ 2) / ξ ^ 2 := by field_simp
  have hD2 : (1 / ξ) ^ 2 + (2 * Real.pi / d + k) ^ 2 = (1 + (2 * Real.pi * ξ / d + k * ξ) ^ 2) / ξ ^ 2 := by field_simp
  have hden : (1 + (2 * Real.pi * ξ / d) ^ 2) ^ 2 + 2 * (1 - (2 * Real.pi * ξ / d) ^ 2) * (k * ξ) ^ 2 + ((k * ξ) ^ 2) ^ 2
      = (1 + (2 * Real.pi * ξ / d - k * ξ) ^ 2) * (1 + (2 * Real.pi * ξ / d + k * ξ) ^ 2) := by ring
  rw [hD1, hD2, hden]
  have p1 : (1 + (2 * Real.pi * ξ / d - k * ξ) ^ 2) ≠ 0 := by positivity
  have p2 : (1 + (2 * Real.pi * ξ / d + k * ξ) ^ 2) ≠ 0 := by positivity
  field_simp
  ring

/-- unified Teubner–Strey, `K ≥ 1` (two lengths `0 < ζ₁ < ζ₂`): main branch of the real-space form -/
theorem fourier_pair_unified_ts_hi (c z1 z2 k : ℝ) (h1 : 0 < z1) (h12 : z1 < z2) (hk : 0 < k) :
    4 * Real.pi / k * ∫ r in Ioi (0:ℝ), r * utsAcfHiMain c z1 z2 r * Real.sin (k * r) = utsFtHi Real.pi c z1 z2 k := by
  have h2 : 0 < z2 := h1.trans h12
  have hk0 : k ≠ 0 := hk.ne'
  have hz1 : z1 ≠ 0 := h1.ne'
  have hz2 : z2 ≠ 0 := h2.ne'
  have hihm : 1 / z1 - 1 / z2 ≠ 0 := by
    have : 1 / z2 < 1 / z1 := one_div_lt_one_div_of_lt h1 h12
    linarith
  have h := Smrt.Integrals.integral_exp_sub_exp_mul_sin (a1 := 1 / z1) (a2 := 1 / z2) (by positivity) (by positivity) k
  have e : EqOn (fun r : ℝ => r * utsAcfHiMain c z1 z2 r * Real.sin (k * r))
      (fun r => c / (1 / z1 - 1 / z2) * ((Real.exp (-(1 / z2) * r) - Real.exp (-(1 / z1) * r)) * Real.sin (k * r))) (Ioi 0) := by
    intro r hr
    have hr0 : r ≠ 0 := (mem_Ioi.1 hr).ne'
    simp only [utsAcfHiMain_eq]
    have e1 : -r / z1 = -(1 / z1) * r := by field_simp
    have e2 : -r / z2 = -(1 / z2) * r := by field_simp
    rw [e1, e2]
    field_simp
  rw [setIntegral_congr_fun measurableSet_Ioi e, integral_const_mul, h, utsFtHi_eq]
  have p1 : 1 + (z1 * k) ^ 2 ≠ 0 := by positivity
  have p2 : 1 + (z2 * k) ^ 2 ≠ 0 := by positivity
  have hd : z2 - z1 ≠ 0 := by linarith
  have q1 : (1 / z1) ^ 2 + k ^ 2 = (1 + (z1 * k) ^ 2) / z1 ^ 2 := by field_simp
  have q2 : (1 / z2) ^ 2 + k ^ 2 = (1 + (z2 * k) ^ 2) / z2 ^ 2 := by field_simp
  have q3 : 1 / z1 - 1 / z2 = (z2 - z1) / (z1 * z2) := by field_simp
  rw [q1, q2, q3]
  field_simp
  ring

/-- the guarded function the code evaluates is the main branch as soon as `r (1/ζ₁ − 1/ζ₂) > 1e-15` -/
theorem uts_hi_main_branch (c z1 z2 r : ℝ) (h : (1e-15 : ℝ) < r * (1 / z1 - 1 / z2)) :
    utsAcfHi c z1 z2 r = utsAcfHiMain c z1 z2 r := by
  simp only [utsAcfHi, h, if_true]

/-- unified Teubner–Strey, `K < 1` -/
theorem fourier_pair_unified_ts_lo (f z1 z2 k : ℝ) (h1 : 0 < z1) (h2 : 0 < z2) (hk : 0 < k) :
    4 * Real.pi / k * ∫ r in Ioi (0:ℝ), r * utsAcfLo Real.pi (acf0 f) z1 z2 r * Real.sin (k * r)
      = utsFtLo Real.pi (acf0 f) z1 z2 k := by
  have hp : Real.pi ≠ 0 := Real.pi_ne_zero
  have hA : ∀ r, utsAcfLo Real.pi (acf0 f) z1 z2 r = tsAcf Real.pi f z1 (2 * Real.pi * z2) r := by
    intro r
    simp only [utsAcfLo, tsAcf_eq, tExp]
    have : 2 * r / (2 * Real.pi * z2) = r / z2 / Real.pi := by field_simp
    rw [this]; ring
  have hF : utsFtLo Real.pi (acf0 f) z1 z2 k = tsFt Real.pi f z1 (2 * Real.pi * z2) k := by
    rw [tsFt_eq]
    simp only [utsFtLo, sq_eq, cube_eq]
    have : 2 * Real.pi * z1 / (2 * Real.pi * z2) = z1 / z2 := by field_simp
    rw [this]
    congr 2
    norm_num
    ring
  simp_rw [hA]
  rw [hF]
  exact fourier_pair_teubner_strey f z1 (2 * Real.pi * z2) k h1 (by positivity) hk

/-- independent sphere: the cubic on `[0, 2R]` (zero beyond, `sph_acf_beyond_diameter`) transforms to the squared
    Bessel-type term, for every `k` outside the code's `k ≈ 0` shortcut -/
theorem fourier_pair_sphere (f R k : ℝ) (hR : 0 < R) (hk : 0 < k) (hX : (1e-3 : ℝ) < R * k) :
    4 * Real.pi / k * ∫ r in (0:ℝ)..(2 * R), r * sphAcf f R r * Real.sin (k * r) = sphFt Real.pi f R k := by
  have hp : Real.pi ≠ 0 := Real.pi_ne_zero
  have h := Smrt.Integrals.integral_sphere hR hk.ne'
  have e : EqOn (fun r : ℝ => r * sphAcf f R r * Real.sin (k * r))
      (fun r => acf0 f * (r * (1 - r / (4 * R / 3) + r ^ 3 / ((2 * R) ^ 3 * 2)) * Real.sin (k * r))) (uIcc 0 (2 * R)) := by
    intro r hr
    rw [uIcc_of_le (by positivity)] at hr
    have : ¬ ((2.0 : ℝ) * R < r) := by norm_num; exact hr.2
    simp only [sphAcf, this, if_false, sphPoly_eq]
    ring
  rw [intervalIntegral.integral_congr e, intervalIntegral.integral_const_mul, h, sphFt_eq,
    sphBessel_far (by rw [abs_of_pos (by positivity)]; exact hX)]
  have hk0 : k ≠ 0 := hk.ne'
  field_simp

theorem uts_hi_acf_tendsto_zero (c z1 z2 : ℝ) (h1 : 0 < z1) (h12 : z1 < z2) :
    Tendsto (utsAcfHi c z1 z2) atTop (nhds 0) := by
  have h2 := h1.trans h12
  have hihm : 0 < 1 / z1 - 1 / z2 := sub_pos.2 (one_div_lt_one_div_of_lt h1 h12)
  have hmain : Tendsto (utsAcfHiMain c z1 z2) atTop (nhds 0) := by
    have e1 := Smrt.Integrals.tendsto_exp_neg_mul (a := 1 / z1) (by positivity)
    have e2 := Smrt.Integrals.tendsto_exp_neg_mul (a := 1 / z2) (by positivity)
    have e3 : Tendsto (fun r : ℝ => (r * (1 / z1 - 1 / z2))⁻¹) atTop (nhds 0) :=
      (tendsto_id.atTop_mul_const hihm).inv_tendsto_atTop
    have := ((e2.sub e1).mul e3).const_mul c
    simp only [sub_zero, mul_zero] at this
    refine this.congr (fun r => ?_)
    simp only [utsAcfHiMain_eq, div_eq_mul_inv]
    have a1 : -(1 * z1⁻¹) * r = -r * z1⁻¹ := by ring
    have a2 : -(1 * z2⁻¹) * r = -r * z2⁻¹ := by ring
    rw [a1, a2]
  refine hmain.congr' ?_
  filter_upwards [eventually_gt_atTop (1e-15 / (1 / z1 - 1 / z2))] with r hr
  have : (1e-15 : ℝ) < r * (1 / z1 - 1 / z2) := by rwa [div_lt_iff₀ hihm] at hr
  exact (uts_hi_main_branch c z1 z2 r this).symm


/-- at `k = 0` the spectrum is the volume integral of the autocorrelation function, `4π ∫₀^∞ r² C(r) dr` -/
theorem exp_ft_zero_is_volume_integral (f ξ : ℝ) (hξ : 0 < ξ) :
    4 * Real.pi * ∫ r in Ioi (0:ℝ), r ^ 2 * expAcf f ξ r = expFt Real.pi f ξ 0 := by
  have h := Real.integral_rpow_mul_exp_neg_mul_Ioi (a := 3) (r := 1 / ξ) (by norm_num) (by positivity)
  have hG : Real.Gamma 3 = 2 := by
    rw [show (3:ℝ) = ((2:ℕ):ℝ) + 1 by norm_num, Real.Gamma_nat_eq_factorial]
    simp [Nat.factorial]
  have e : EqOn (fun r : ℝ => r ^ 2 * expAcf f ξ r) (fun r => acf0 f * (r ^ ((3:ℝ) - 1) * Real.exp (-(1 / ξ * r)))) (Ioi 0) := by
    intro r hr
    have hr0 : (0:ℝ) ≤ r := (mem_Ioi.1 hr).le
    have : r ^ ((3:ℝ) - 1) = r ^ 2 := by
      rw [show (3:ℝ) - 1 = ((2:ℕ) : ℝ) by norm_num, Real.rpow_natCast]
    simp only [expAcf, tExp, this]
    have : -r / ξ = -(1 / ξ * r) := by field_simp
    rw [this]; ring
  rw [setIntegral_congr_fun measurableSet_Ioi e, integral_const_mul, h, hG, expFt_eq]
  have : (1 / (1 / ξ)) ^ (3:ℝ) = ξ ^ 3 := by
    rw [one_div_one_div, show (3:ℝ) = ((3:ℕ) : ℝ) by norm_num, Real.rpow_natCast]
  rw [this]
  ring

/-- corollary: unified sticky hard spheres coincide with the classical class at `radius = ¾ ℓ_P/(1−f)` and
    `stickiness = compute_stickiness()` -/
theorem ushs_eq_shs (f lp K k : ℝ) (h0 : 0 < f) (h1 : f < 1) (hlp : 0 < lp) (ht : 0 < ushsT f K)
    (hroot : f / 12 * (ushsT f K) ^ 2 ≤ (1 + f / 2) / (1 - f) ^ 2) :
    ushsFt Real.pi f lp K k
      = shsFt Real.pi f (ushsRadius f lp) (some (ushsStickiness f (ushsT f K))) k := by
  have hR : ushsRadius f lp ≠ 0 := by
    have : 0 < 1 - f := by linarith
    simp only [ushsRadius]; norm_num; exact ⟨hlp.ne', by linarith⟩
  rw [ushsFt, shsFt, ushs_t_roundtrip f (ushsT f K) h0 h1 ht hroot]
  exact ushs_eq_shs_same_t Real.pi f _ _ k Real.pi_ne_zero hR

/-! ### 7. statements left to the oracle (numerical forms, 5 %) -/

/-- the numerical spectrum (`ft_autocorrelation_function_fft`, N = 4096, dr = inv_slope/20) of a model with an
    analytic partner stays within 5 % of `ft(0)` of that partner — a quadrature-accuracy statement, not proved -/
def fallback_ft_consistent_full : Prop :=
  ∀ f ξ k : ℝ, 0.02 ≤ f → f ≤ 0.98 → 1e-5 ≤ ξ → ξ ≤ 5e-3 → 0 ≤ k → k ≤ 50 / ξ →
    |ftFft Real.pi (expAcf f ξ) (expInvSlope ξ) 4096 k - expFt Real.pi f ξ k| ≤ 0.05 * expFt Real.pi f ξ 0

/-- the numerical real-space form of sticky hard spheres (`autocorrelation_function_invfft` on a grid of `M` lags
    with the given spacing) has zero-lag value `f(1−f)` within 5 % — not proved -/
def shs_acf_origin_full : Prop :=
  ∀ (f R τ s : ℝ) (M : Nat), 0.02 ≤ f → f ≤ 0.98 → 1e-5 ≤ R → R ≤ 5e-3 → 0.1 ≤ τ → 0 < s → s ≤ R / 10 → 40 * R ≤ s * M →
    |invFft Real.pi (shsFt Real.pi f R (some τ)) s (M : ℝ) M 0 - acf0 f| ≤ 0.05 * acf0 f

/-- Gaussian random field: the quadrature of the real-space form gives `f(1−f)` at zero lag within 5 %
    (`beta` is the cut level with `P(X > beta) = f`; at zero lag the field correlation is 1).  A quadrature-accuracy
    statement, not proved; the oracle evaluates it on the implementation (pinned commit: 0.908, a finding). -/
def grf_acf_origin_full : Prop :=
  ∀ f beta ξ d : ℝ, 0.02 ≤ f → f ≤ 0.98 → 0 < ξ → 0 < d →
    (Real.sqrt (2 * Real.pi))⁻¹ * ∫ x in Ioi beta, Real.exp (-x ^ 2 / 2) = f →
    |grfAcf Real.pi beta ξ d 0 - acf0 f| ≤ 0.05 * acf0 f

/-! ### non-vacuity of the hypotheses, and refutation of the forms the pinned code evaluates -/

example : ∃ f ξ k : ℝ, 0 < ξ ∧ 0 < k ∧ 0 ≤ f ∧ f ≤ 1 := ⟨0.3, 1e-4, 1, by norm_num, by norm_num, by norm_num, by norm_num⟩
example : ∃ R k : ℝ, 0 < R ∧ 0 < k ∧ (1e-3 : ℝ) < R * k := ⟨1e-3, 2, by norm_num, by norm_num, by norm_num⟩
example : ∃ z1 z2 : ℝ, 0 < z1 ∧ z1 < z2 := ⟨1, 2, by norm_num, by norm_num⟩
example : ∃ (n : Nat) (lag : Nat → ℝ), 1 ≤ n ∧ lag 0 = 0 ∧ ∀ i, 0 < i → 0 < lag i :=
  ⟨3, fun i => (i : ℝ), by norm_num, by simp, fun i hi => by show (0:ℝ) < (i:ℝ); exact Nat.cast_pos.2 hi⟩
example : ∃ tau phi : ℝ, 0 < phi ∧ phi < 1 ∧ 0 ≤ shsDisc tau phi :=
  ⟨1, 0.5, by norm_num, by norm_num, by simp only [shsDisc, Micro.sq]; norm_num⟩
example : ∃ phi t : ℝ, 0 < phi ∧ phi < 1 ∧ 0 < t ∧ phi / 12 * t ^ 2 ≤ (1 + phi / 2) / (1 - phi) ^ 2 :=
  ⟨0.5, 1, by norm_num, by norm_num, by norm_num, by norm_num⟩
example : ∃ X Y : ℝ, 0 < Y ∧ 0 < tsDen X Y := ⟨1, 1, by norm_num, ts_den_pos 1 1 (by norm_num)⟩

/-- `unified_scaled_exponential.autocorrelation_function` at the pinned commit (`exp(-r·ξ)`) is not the exponential
    model with `ξ = K ℓ_P` (here `f = 0.3, ℓ_P = 1, K = 2, r = 1`: `e^{-2}` against `e^{-1/2}`) -/
example : useAcfCode (0.3 : ℝ) 1 2 1 ≠ useAcf 0.3 1 2 1 := by
  simp only [useAcfCode, useAcf, useXi, acf0, tExp]
  intro h
  have h' := mul_left_cancel₀ (by norm_num : (0.3 : ℝ) * (1 - 0.3) ≠ 0) h
  have := Real.exp_injective h'
  norm_num at this

/-- `unified_teubner_strey.autocorrelation_function` at the pinned commit is the constant `f(1−f)` when `K = 1`
    (every lag falls into the guard branch), so it neither decays nor pairs with its spectrum -/
example (p lp r : ℝ) : utsAcfCode p 0.3 lp 1 r = acf0 0.3 := by
  obtain ⟨h1, h2⟩ := uts_zeta_one lp
  have hK : ¬ ((1:ℝ) < 1) := lt_irrefl 1
  have hg : ¬ ((1e-15 : ℝ) < r * (1 / lp - 1 / lp)) := by rw [sub_self, mul_zero]; norm_num
  simp only [utsAcfCode, hK, if_false, h1, h2, utsAcfHiCode, hg, mul_one]

end Smrt.Props.C17
