/-
  C02 — non-scattering stacks reproduce the closed-form incoherent multilayer solution.

  `Consistent` states the physical boundary conditions of the incoherent problem for one (stream, polarisation):
  Beer–Lambert inside each layer, power reflection/transmission at each interface, substrate emission at the bottom.
  These are exactly the rows of the boundary system `dort_modem_banded` assembles when the eigen-solution is the trivial one
  (`E = I`, `β = ±ke/μ`) and the interface matrices are diagonal — see `trivial_rows` below.
  `textbook_solves_bc`: every solution of those conditions satisfies `I↑ = Γ I↓ + S` at every level with the `(Γ, S)` of
  the textbook recursion, and the emerging brightness temperature is the closed form — for any number of layers.
-/
import SmrtVerif.Model.Textbook
import SmrtVerif.Model.Dort
import SmrtVerif.Proofs.Sum
import SmrtVerif.Proofs.RealTransc
import Mathlib.Tactic.Ring
import Mathlib.Tactic.Linarith
import Mathlib.Tactic.FieldSimp
import Mathlib.Tactic.Positivity

set_option linter.unusedSectionVars false
set_option linter.unusedVariables false

namespace Smrt.Props.C02
open Smrt Smrt.Textbook

theorem sumN_congrFun {n : Nat} {f g : Nat → ℝ} (h : ∀ j, f j = g j) : sumN n f = sumN n g := by
  have : f = g := funext h
  rw [this]

/-- inside a layer: the departure from the layer temperature is attenuated by `t` along the path -/
def LayerEq (ly : SLayer ℝ) (ut dt ub db : ℝ) : Prop :=
  ut - ly.temp = ly.t * (ub - ly.temp) ∧ db - ly.temp = ly.t * (dt - ly.temp)

/-- the boundary conditions of the half-stack `ls` (listed top-down), `ub`/`db` being the up- and down-welling intensities
    just above the bottom interface of its first layer -/
def Consistent (tsub : ℝ) : List (SLayer ℝ) → ℝ → ℝ → Prop
  | [], _, _ => False
  | [ly], ub, db => ub = ly.rBot * db + ly.tauDn * tsub
  | up :: lower :: rest, ub, db =>
    ∃ ut dt ub' db', Consistent tsub (lower :: rest) ub' db' ∧ LayerEq lower ut dt ub' db' ∧
      dt = lower.rTop * ut + up.tauDn * db ∧ ub = up.rBot * db + lower.tauUp * ut

/-- the geometric series converge: no interface has `r_b · Γ' = 1` -/
def DenOk (tsub : ℝ) : List (SLayer ℝ) → Prop
  | [] => True
  | [_] => True
  | up :: lower :: rest =>
    DenOk tsub (lower :: rest) ∧
      1 - lower.rTop * (throughLayer lower (bottomOf tsub (lower :: rest)).1 (bottomOf tsub (lower :: rest)).2).1 ≠ 0

/-- **textbook_level**: at the bottom of every layer of every stack, `I↑ = Γ I↓ + S` with the textbook `(Γ, S)` -/
theorem textbook_level (tsub : ℝ) (ls : List (SLayer ℝ)) (ub db : ℝ) (hc : Consistent tsub ls ub db) (hd : DenOk tsub ls) :
    ub = (bottomOf tsub ls).1 * db + (bottomOf tsub ls).2 := by
  induction ls generalizing ub db with
  | nil => exact absurd hc (by simp [Consistent])
  | cons up rest ih =>
    cases rest with
    | nil => simpa [Consistent, bottomOf] using hc
    | cons lower rest =>
      obtain ⟨ut, dt, ub', db', hcons, ⟨hl1, hl2⟩, hdt, hub⟩ := hc
      obtain ⟨hd1, hd2⟩ := hd
      have hrec := ih ub' db' hcons hd1
      set g := (bottomOf tsub (lower :: rest)).1 with hg
      set s := (bottomOf tsub (lower :: rest)).2 with hs
      simp only [bottomOf, throughInterface, throughLayer]
      simp only [throughLayer] at hd2
      -- intensities at the top of the lower layer in terms of dt
      have hut : ut = lower.t * lower.t * g * dt + (lower.temp * (1 - lower.t) * (1 + lower.t * g) + lower.t * s) := by
        have h1 : ut = lower.temp + lower.t * (ub' - lower.temp) := by linarith
        have h2 : db' = lower.temp + lower.t * (dt - lower.temp) := by linarith
        rw [h1, hrec, h2]; ring
      set g' := lower.t * lower.t * g with hg'
      set s' := lower.temp * (1 - lower.t) * (1 + lower.t * g) + lower.t * s with hs'
      have hden : 1 - lower.rTop * g' ≠ 0 := hd2
      have hdt' : dt = (lower.rTop * s' + up.tauDn * db) / (1 - lower.rTop * g') := by
        rw [eq_div_iff hden]
        rw [hut] at hdt
        linear_combination hdt
      have hden' : 1 - g' * lower.rTop ≠ 0 := by rwa [mul_comm]
      rw [hub, hut, hdt']
      field_simp
      ring

/-- **textbook_solves_bc**: the brightness temperature of every solution of the incoherent boundary conditions is the
    textbook closed form, for any number of layers, thicknesses, temperatures, reflectivities, substrate and sky -/
theorem textbook_solves_bc (tsub tsky rAir tauAir : ℝ) (top : SLayer ℝ) (rest : List (SLayer ℝ))
    (ut dt ub db tb : ℝ) (hc : Consistent tsub (top :: rest) ub db) (hd : DenOk tsub (top :: rest))
    (hl : LayerEq top ut dt ub db)
    (hsurf : dt = top.rTop * ut + tauAir * tsky) (htb : tb = rAir * tsky + top.tauUp * ut)
    (hden : 1 - top.rTop * (throughLayer top (bottomOf tsub (top :: rest)).1 (bottomOf tsub (top :: rest)).2).1 ≠ 0) :
    tb = brightness tsub tsky rAir tauAir (top :: rest) := by
  have hrec := textbook_level tsub (top :: rest) ub db hc hd
  obtain ⟨hl1, hl2⟩ := hl
  set g := (bottomOf tsub (top :: rest)).1 with hg
  set s := (bottomOf tsub (top :: rest)).2 with hs
  simp only [brightness, throughLayer]
  simp only [throughLayer] at hden
  have hut : ut = top.t * top.t * g * dt + (top.temp * (1 - top.t) * (1 + top.t * g) + top.t * s) := by
    have h1 : ut = top.temp + top.t * (ub - top.temp) := by linarith
    have h2 : db = top.temp + top.t * (dt - top.temp) := by linarith
    rw [h1, hrec, h2]; ring
  set g' := top.t * top.t * g with hg'
  set s' := top.temp * (1 - top.t) * (1 + top.t * g) + top.t * s with hs'
  have hdt' : dt = (top.rTop * s' + tauAir * tsky) / (1 - top.rTop * g') := by
    rw [eq_div_iff hden]
    rw [hut] at hsurf
    linear_combination hsurf
  have hden' : 1 - g' * top.rTop ≠ 0 := by rwa [mul_comm]
  rw [htb, hut, hdt']
  field_simp
  ring

/-! ### the rows of the assembled system *are* these boundary conditions when the eigen-solution is trivial -/
section trivial
open Smrt.Dort

/-- a layer solved by the trivial eigen-solution of `EigenValueSolver.solve` (no scattering): `E = I`, i.e.
    `Eu = [I 0]`, `Ed = [0 I]`, `β = (κ₀ … κ_{N-1}, −κ₀ … −κ_{N-1})` with `κ > 0`, and diagonal interface matrices -/
structure TrivialLayer (ly : DLayer ℝ) (N : Nat) (κ rt rb tu td : Nat → ℝ) : Prop where
  eu : ∀ i j, ly.eu.f i j = if j = i then 1 else 0
  ed : ∀ i j, ly.ed.f i j = if j = N + i then 1 else 0
  betaUp : ∀ i, i < N → ly.beta i = κ i
  betaDn : ∀ i, i < N → ly.beta (N + i) = - κ i
  κpos : ∀ i, i < N → 0 < κ i
  rtop : ly.rtop = .diag ⟨N, rt⟩
  rbot : ly.rbot = .diag ⟨N, rb⟩
  ttop : ly.ttop = .diag ⟨N, tu⟩
  tbot : ly.tbot = .diag ⟨N, td⟩

theorem sum_two (M a b : Nat) (ha : a < M) (hb : b < M) (hab : a ≠ b) (A B : ℝ) :
    sumN M (fun j => (if j = a then A else 0) + (if j = b then B else 0)) = A + B := by
  rw [sumN_eq_sum, Finset.sum_add_distrib, Finset.sum_ite_eq' (Finset.range M) a (fun _ => A),
      Finset.sum_ite_eq' (Finset.range M) b (fun _ => B)]
  simp [ha, hb]

/-- **trivial_rows**: with the trivial eigen-solution, row `i` of each of the four blocks couples only the upward
    amplitude `x_i` and the downward amplitude `x_{N+i}` of the same stream and polarisation, with the Beer–Lambert factor
    `t = exp(−κ_i d)`:
    top rows `x_{N+i} − r_top t x_i`, bottom rows `x_i − r_bot t x_{N+i}`, coupling down `−τ_dn t x_{N+i}`, coupling up
    `−τ_up t x_i` — the incoherent boundary conditions `I↓ = r I↑ + τ I↓'`, `I↑ = r I↓ + τ I↑'` written for
    `I↑_top = t x_i + T`, `I↓_top = x_{N+i} + T`, `I↑_bot = x_i + T`, `I↓_bot = t x_{N+i} + T` -/
theorem trivial_rows (ly : DLayer ℝ) (N : Nat) (κ rt rb tu td : Nat → ℝ) (h : TrivialLayer ly N κ rt rb tu td)
    (x : Nat → ℝ) (i : Nat) (hi : i < N) :
    let t := Real.exp (-(κ i) * ly.d)
    sumN (2 * N) (fun j => topBlock ly i j * x j) = x (N + i) - rt i * t * x i ∧
    sumN (2 * N) (fun j => botBlock ly i j * x j) = x i - rb i * t * x (N + i) ∧
    sumN (2 * N) (fun j => downBlock ly i j * x j) = - (td i * t * x (N + i)) ∧
    sumN (2 * N) (fun j => upBlock ly i j * x j) = - (tu i * t * x i) := by
  intro t
  have hne : i ≠ N + i := by omega
  have hN : N ≠ 0 := by omega
  have tt_i : transt ly i = t := by
    simp only [transt, h.betaUp i hi, h.κpos i hi, if_true, transc_exp_real]; rfl
  have tt_Ni : transt ly (N + i) = 1 := by
    have : ¬ (0 : ℝ) < -κ i := by linarith [h.κpos i hi]
    simp [transt, h.betaDn i hi, this]
  have tb_i : transb ly i = 1 := by
    have : ¬ κ i < (0 : ℝ) := by linarith [h.κpos i hi]
    simp [transb, h.betaUp i hi, this]
  have tb_Ni : transb ly (N + i) = t := by
    have : -κ i < (0 : ℝ) := by linarith [h.κpos i hi]
    simp only [transb, h.betaDn i hi, this, if_true, transc_exp_real]; rfl
  refine ⟨?_, ?_, ?_, ?_⟩
  · have e : ∀ j, topBlock ly i j * x j
        = (if j = i then - (rt i * t * x i) else 0) + (if j = N + i then x (N + i) else 0) := by
      intro j
      simp only [topBlock, cvMulMat, h.rtop, h.eu, h.ed]
      by_cases h1 : j = i
      · subst h1; simp [hN, tt_i]
      · by_cases h2 : j = N + i
        · subst h2; simp [tt_Ni, hN]
        · simp [h1, h2]
    rw [sumN_congrFun e, sum_two (2 * N) i (N + i) (by omega) (by omega) hne]; ring
  · have e : ∀ j, botBlock ly i j * x j
        = (if j = i then x i else 0) + (if j = N + i then - (rb i * t * x (N + i)) else 0) := by
      intro j
      simp only [botBlock, cvMulMat, h.rbot, h.eu, h.ed]
      by_cases h1 : j = i
      · subst h1; simp [hN, tb_i]
      · by_cases h2 : j = N + i
        · subst h2; simp [tb_Ni, hN]
        · simp [h1, h2]
    rw [sumN_congrFun e, sum_two (2 * N) i (N + i) (by omega) (by omega) hne]; ring
  · have e : ∀ j, downBlock ly i j * x j
        = (if j = i then 0 else 0) + (if j = N + i then - (td i * t * x (N + i)) else 0) := by
      intro j
      simp only [downBlock, cvMulMat, h.tbot, h.ed]
      by_cases h2 : j = N + i
      · subst h2
        have e1 : (if N + i = i then (0 : ℝ) else 0) = 0 := by simp
        simp only [e1, if_true, tb_Ni, zero_add]; ring
      · simp [h2]
    rw [sumN_congrFun e, sum_two (2 * N) i (N + i) (by omega) (by omega) hne]; ring
  · have e : ∀ j, upBlock ly i j * x j
        = (if j = i then - (tu i * t * x i) else 0) + (if j = N + i then 0 else 0) := by
      intro j
      simp only [upBlock, cvMulMat, h.ttop, h.eu]
      by_cases h1 : j = i
      · subst h1
        have e1 : (if j = N + j then (0 : ℝ) else 0) = 0 := by simp
        simp only [e1, if_true, tt_i, add_zero]; ring
      · simp [h1]
    rw [sumN_congrFun e, sum_two (2 * N) i (N + i) (by omega) (by omega) hne]; ring

end trivial

/-! ### stringing the rows into the chain: any solution of the assembled system *is* the textbook -/
section chain
open Smrt.Dort
variable (S : DStack ℝ) (Nw : Nat → Nat) (κ rt rb tu td : Nat → Nat → ℝ)

/-- the scalar layer seen by stream/polarisation `i` in layer `l` -/
noncomputable def mk (i l : Nat) : SLayer ℝ :=
  { t := Real.exp (-(κ l i) * (S.lay l).d), temp := tempOf S l, rTop := rt l i, tauUp := tu l i, rBot := rb l i, tauDn := td l i }

/-- `m` layers of the chain starting at layer `k`, top-down -/
noncomputable def chainN (i : Nat) : Nat → Nat → List (SLayer ℝ)
  | _, 0 => []
  | k, m + 1 => mk S κ rt rb tu td i k :: chainN i (k + 1) m

/-- the stack is entirely non-scattering with specular interfaces; layer `l` has `Nw l = n_l · npol` stream-polarisations (the
    numbers may differ from layer to layer: the more refringent a layer, the more streams it has, the extra ones being totally
    reflected at its boundaries) -/
structure TrivialStack : Prop where
  passive : S.passive = true
  mode0 : S.mode0 = true
  sub : S.hasSubTemp = true
  width : ∀ l, l < S.L → (S.lay l).n * S.npol = Nw l
  lay : ∀ l, l < S.L → TrivialLayer (S.lay l) (Nw l) (κ l) (rt l) (rb l) (tu l) (td l)

variable {S Nw κ rt rb tu td}

theorem sum_delta (M i : Nat) (hi : i < M) (f : Nat → ℝ) :
    sumN M (fun k => (if k = i then (1 : ℝ) else 0) * f k) = f i := by
  rw [sumN_eq_sum]
  rw [Finset.sum_eq_single i]
  · simp
  · intro b _ hb; simp [hb]
  · intro h; exact absurd (Finset.mem_range.mpr hi) h

/-- the four intensities of layer `l` for stream `i`, column `v`, from the unknowns -/
noncomputable def ubOf (S : DStack ℝ) (x : Nat → Nat → Nat → ℝ) (i v l : Nat) : ℝ := x l i v + tempOf S l
noncomputable def dtOf (S : DStack ℝ) (Nw : Nat → Nat) (x : Nat → Nat → Nat → ℝ) (i v l : Nat) : ℝ := x l (Nw l + i) v + tempOf S l
noncomputable def utOf (S : DStack ℝ) (κ : Nat → Nat → ℝ) (x : Nat → Nat → Nat → ℝ) (i v l : Nat) : ℝ :=
  Real.exp (-(κ l i) * (S.lay l).d) * x l i v + tempOf S l
noncomputable def dbOf (S : DStack ℝ) (Nw : Nat → Nat) (κ : Nat → Nat → ℝ) (x : Nat → Nat → Nat → ℝ) (i v l : Nat) : ℝ :=
  Real.exp (-(κ l i) * (S.lay l).d) * x l (Nw l + i) v + tempOf S l

theorem layerEq_of (x : Nat → Nat → Nat → ℝ) (i v l : Nat) :
    LayerEq (mk S κ rt rb tu td i l) (utOf S κ x i v l) (dtOf S Nw x i v l) (ubOf S x i v l) (dbOf S Nw κ x i v l) := by
  simp only [LayerEq, mk, utOf, dtOf, ubOf, dbOf]
  constructor <;> ring

/-- row `i` is among the rows kept of a coupling block as soon as the stream exists on both sides -/
theorem lt_commonRows (S : DStack ℝ) (Ns : Nat) (T : Nat → ℝ) (src tgt Nt i : Nat) (ht : tgt * S.npol = Nt) (h1 : i < Ns) (h2 : i < Nt) :
    i < commonRows S (.diag ⟨Ns, T⟩) src tgt := by
  simp only [commonRows, cvRows, ht]; omega

/-- bottom rows of the last layer: the substrate condition -/
theorem bottom_condition (h : TrivialStack S Nw κ rt rb tu td) (x : Nat → Nat → Nat → ℝ) (hs : Solves S x)
    (i v : Nat) (hi : ∀ l, l < S.L → i < Nw l) (l : Nat) (hl : l + 1 = S.L) :
    ubOf S x i v l = rb l i * dbOf S Nw κ x i v l + td l i * S.tsub := by
  have hl' : l < S.L := by omega
  have hw := h.width l hl'
  have hil := hi l hl'
  have hb := (hs l hl' i (by rw [hw]; exact hil) v).2
  have tr := (trivial_rows (S.lay l) (Nw l) (κ l) (rt l) (rb l) (tu l) (td l) (h.lay l hl') (fun j => x l j v) i hil).2.1
  have hnot : ¬ (l + 1 < S.L) := by omega
  have hc := lt_commonRows S (Nw l) (td l) (Nw l) (S.lay l).n (Nw l) i hw hil hil
  simp only [lhsBot, rhsBot, hw, hnot, if_false, h.passive, h.mode0, h.sub, Bool.and_self, if_true, (h.lay l hl').rbot,
    (h.lay l hl').tbot, CV.muleye, hc] at hb
  rw [tr] at hb
  simp only [ubOf, dbOf]
  linear_combination hb

/-- bottom rows of layer `l` and top rows of layer `l+1`: the interface conditions -/
theorem interface_conditions (h : TrivialStack S Nw κ rt rb tu td) (x : Nat → Nat → Nat → ℝ) (hs : Solves S x)
    (i v : Nat) (hi : ∀ l, l < S.L → i < Nw l) (l : Nat) (hl : l + 1 < S.L) :
    dtOf S Nw x i v (l + 1) = rt (l + 1) i * utOf S κ x i v (l + 1) + td l i * dbOf S Nw κ x i v l ∧
    ubOf S x i v l = rb l i * dbOf S Nw κ x i v l + tu (l + 1) i * utOf S κ x i v (l + 1) := by
  have hl' : l < S.L := by omega
  have hw := h.width l hl'
  have hw1 := h.width (l + 1) hl
  have hil := hi l hl'
  have hil1 := hi (l + 1) hl
  have hb := (hs l hl' i (by rw [hw]; exact hil) v).2
  have ht := (hs (l + 1) hl i (by rw [hw1]; exact hil1) v).1
  have tr := trivial_rows (S.lay l) (Nw l) (κ l) (rt l) (rb l) (tu l) (td l) (h.lay l hl') (fun j => x l j v) i hil
  have tr1 := trivial_rows (S.lay (l + 1)) (Nw (l + 1)) (κ (l + 1)) (rt (l + 1)) (rb (l + 1)) (tu (l + 1)) (td (l + 1)) (h.lay (l + 1) hl)
    (fun j => x (l + 1) j v) i hil1
  have hcd := lt_commonRows S (Nw l) (td l) (Nw l) (S.lay (l + 1)).n (Nw (l + 1)) i hw1 hil hil1
  have hcu := lt_commonRows S (Nw (l + 1)) (tu (l + 1)) (Nw (l + 1)) (S.lay l).n (Nw l) i hw hil1 hil
  constructor
  · simp only [lhsTop, rhsTop, hw, hw1, Nat.succ_ne_zero, Nat.add_sub_cancel, Nat.succ_pos, if_false, if_true, h.passive, h.mode0,
      Bool.and_self, (h.lay (l + 1) hl).rtop, (h.lay l hl').tbot, CV.muleye, hcd] at ht
    rw [tr1.1, tr.2.2.1] at ht
    simp only [dtOf, utOf, dbOf]
    linear_combination ht
  · simp only [lhsBot, rhsBot, hw, hw1, hl, if_true, h.passive, h.mode0, Bool.and_self, (h.lay l hl').rbot,
      (h.lay (l + 1) hl).ttop, CV.muleye, hcu] at hb
    rw [tr.2.1, tr1.2.2.2] at hb
    simp only [ubOf, utOf, dbOf]
    linear_combination hb

/-- every half-stack of the solved system satisfies the incoherent boundary conditions -/
theorem consistent_of_solves (h : TrivialStack S Nw κ rt rb tu td) (x : Nat → Nat → Nat → ℝ) (hs : Solves S x)
    (i v : Nat) (hi : ∀ l, l < S.L → i < Nw l) (m k : Nat) (hk : k + m + 1 = S.L) :
    Consistent S.tsub (chainN S κ rt rb tu td i k (m + 1)) (ubOf S x i v k) (dbOf S Nw κ x i v k) := by
  induction m generalizing k with
  | zero =>
    simp only [chainN, Consistent, mk]
    exact bottom_condition h x hs i v hi k (by omega)
  | succ m ih =>
    have hrec := ih (k + 1) (by omega)
    have ic := interface_conditions h x hs i v hi k (by omega)
    simp only [chainN] at hrec ⊢
    refine ⟨utOf S κ x i v (k + 1), dtOf S Nw x i v (k + 1), ubOf S x i v (k + 1), dbOf S Nw κ x i v (k + 1), hrec,
      layerEq_of x i v (k + 1), ?_, ?_⟩
    · simpa [mk] using ic.1
    · simpa [mk] using ic.2

/-- **stack_is_textbook**: for every non-scattering stack with specular interfaces (any number of layers, thicknesses,
    temperatures, coefficients, substrate and sky, any number of streams per layer), *any* solution of the system
    `dort_modem_banded` assembles gives, at every (stream, polarisation) `i` that exists in every layer - in particular at every
    air stream - an emerging intensity equal to the textbook closed form -/
theorem stack_is_textbook (h : TrivialStack S Nw κ rt rb tu td) (x : Nat → Nat → Nat → ℝ) (hs : Solves S x)
    (i v : Nat) (hi : ∀ l, l < S.L → i < Nw l) (m : Nat) (hL : m + 1 = S.L)
    (Na : Nat) (hia : i < Na) (tdAir rAir : Nat → ℝ) (hta : S.tbotAir = .diag ⟨Na, tdAir⟩) (hra : S.rbotAir = .diag ⟨Na, rAir⟩)
    (hd : DenOk S.tsub (chainN S κ rt rb tu td i 0 (m + 1)))
    (hden : 1 - rt 0 i * (throughLayer (mk S κ rt rb tu td i 0) (bottomOf S.tsub (chainN S κ rt rb tu td i 0 (m + 1))).1
      (bottomOf S.tsub (chainN S κ rt rb tu td i 0 (m + 1))).2).1 ≠ 0) :
    emergingB S x i v = brightness S.tsub (S.idown.f i v) (rAir i) (tdAir i) (chainN S κ rt rb tu td i 0 (m + 1)) := by
  have h0 : 0 < S.L := by omega
  have hw := h.width 0 h0
  have hi0 := hi 0 h0
  have hc := consistent_of_solves h x hs i v hi m 0 (by omega)
  have tr := trivial_rows (S.lay 0) (Nw 0) (κ 0) (rt 0) (rb 0) (tu 0) (td 0) (h.lay 0 h0) (fun j => x 0 j v) i hi0
  have ht := (hs 0 h0 i (by rw [hw]; exact hi0) v).1
  have hca := lt_commonRows S Na tdAir (S.nAir * S.npol) (S.lay 0).n (Nw 0) i hw hia hi0
  simp only [lhsTop, rhsTop, hw, Nat.lt_irrefl, if_false, if_true, h.passive, h.mode0, Bool.and_self, (h.lay 0 h0).rtop, CV.muleye,
    hta, hca, cvMulMat] at ht
  rw [tr.1] at ht
  simp only [chainN] at hc hd hden ⊢
  apply textbook_solves_bc S.tsub (S.idown.f i v) (rAir i) (tdAir i) (mk S κ rt rb tu td i 0) (chainN S κ rt rb tu td i 1 m)
    (utOf S κ x i v 0) (dtOf S Nw x i v 0) (ubOf S x i v 0) (dbOf S Nw κ x i v 0) _ hc hd (layerEq_of x i v 0)
  · simp only [mk, dtOf, utOf]
    linear_combination ht
  · -- the emerging intensity
    have tt_i : transt (S.lay 0) i = Real.exp (-(κ 0 i) * (S.lay 0).d) := by
      simp only [transt, (h.lay 0 h0).betaUp i hi0, (h.lay 0 h0).κpos i hi0, if_true, transc_exp_real]
    have hi1 : i1up S (x 0) i v = utOf S κ x i v 0 := by
      simp only [i1up, hw, h.passive, h.mode0, Bool.and_self, if_true, utOf, (h.lay 0 h0).eu]
      have e : ∀ k, (if k = i then (1 : ℝ) else 0) * transt (S.lay 0) k * x 0 k v
          = (if k = i then (1 : ℝ) else 0) * (transt (S.lay 0) k * x 0 k v) := fun k => by ring
      rw [sumN_congrFun e, sum_delta (2 * Nw 0) i (by omega), tt_i]
    simp only [emergingB, emerging, hra, (h.lay 0 h0).ttop, cvMulMat, hi1, mk]
    ring
  · simpa [mk] using hden

end chain

/-- **bare_substrate**: a zero-thickness, transparent, non-emitting volume (`t = 1`, no reflection, unit transmission —
    what `add_transparent_layer` builds) over a substrate gives `e·T_sub + r·T_sky` -/
theorem bare_substrate (tsub tsky r e : ℝ) :
    brightness tsub tsky 0 1 [⟨1, 0, 0, 1, r, e⟩] = e * tsub + r * tsky := by
  simp [brightness, bottomOf, throughLayer]

/-- **textbook_weights_nonneg**: for coefficients in [0,1] with `r + τ ≤ 1` (which makes `r_b Γ' < 1`), one recursion step
    keeps `Γ ∈ [0,1]` and maps non-negative emission to non-negative emission — so `Tb` is a non-negative combination of
    the source temperatures (the non-scattering half of C03's convexity) -/
theorem textbook_step_nonneg (lower up : SLayer ℝ) (g s : ℝ)
    (hg0 : 0 ≤ g) (hg1 : g ≤ 1) (hs : 0 ≤ s) (ht0 : 0 ≤ lower.t) (ht1 : lower.t ≤ 1) (hT : 0 ≤ lower.temp)
    (hr0 : 0 ≤ lower.rTop) (hr1 : lower.rTop < 1) (hu0 : 0 ≤ lower.tauUp) (hu : lower.rTop + lower.tauUp ≤ 1)
    (ha0 : 0 ≤ up.rBot) (hd0 : 0 ≤ up.tauDn) (ha : up.rBot + up.tauDn ≤ 1) :
    let (g', s') := throughLayer lower g s
    let (g'', s'') := throughInterface lower up g' s'
    0 ≤ g' ∧ g' ≤ 1 ∧ 0 ≤ s' ∧ 0 ≤ g'' ∧ g'' ≤ 1 ∧ 0 ≤ s'' := by
  simp only [throughLayer, throughInterface]
  have hg'0 : 0 ≤ lower.t * lower.t * g := by positivity
  have hg'1 : lower.t * lower.t * g ≤ 1 := by nlinarith [mul_nonneg ht0 ht0]
  have hs' : 0 ≤ lower.temp * (1 - lower.t) * (1 + lower.t * g) + lower.t * s := by
    have : 0 ≤ 1 - lower.t := by linarith
    positivity
  have hden : 0 < 1 - lower.rTop * (lower.t * lower.t * g) := by nlinarith
  refine ⟨hg'0, hg'1, hs', ?_, ?_, ?_⟩
  · have : 0 ≤ lower.tauUp * up.tauDn * (lower.t * lower.t * g) / (1 - lower.rTop * (lower.t * lower.t * g)) := by positivity
    linarith
  · -- Γ'' ≤ r_a + τ_dn ≤ 1 because τ_up Γ' ≤ 1 − r_b Γ'
    have h1 : lower.tauUp * (lower.t * lower.t * g) ≤ 1 - lower.rTop * (lower.t * lower.t * g) := by nlinarith
    have h2 : lower.tauUp * up.tauDn * (lower.t * lower.t * g) / (1 - lower.rTop * (lower.t * lower.t * g)) ≤ up.tauDn := by
      rw [div_le_iff₀ hden]; nlinarith
    linarith
  · positivity

/-- a layer whose coefficients are physical: transmissivity and reflectivities in [0,1], budgets `r + τ ≤ 1`, `T ≥ 0` -/
structure Good (ly : SLayer ℝ) : Prop where
  t0 : 0 ≤ ly.t
  t1 : ly.t ≤ 1
  T0 : 0 ≤ ly.temp
  r0 : 0 ≤ ly.rTop
  r1 : ly.rTop < 1
  u0 : 0 ≤ ly.tauUp
  ru : ly.rTop + ly.tauUp ≤ 1
  b0 : 0 ≤ ly.rBot
  d0 : 0 ≤ ly.tauDn
  bd : ly.rBot + ly.tauDn ≤ 1

theorem bottomOf_nonneg (tsub : ℝ) (hts : 0 ≤ tsub) (ls : List (SLayer ℝ)) (hne : ls ≠ []) (hg : ∀ ly ∈ ls, Good ly) :
    0 ≤ (bottomOf tsub ls).1 ∧ (bottomOf tsub ls).1 ≤ 1 ∧ 0 ≤ (bottomOf tsub ls).2 := by
  induction ls with
  | nil => exact absurd rfl hne
  | cons up rest ih =>
    cases rest with
    | nil =>
      have g := hg up (by simp)
      simp only [bottomOf]
      exact ⟨g.b0, by linarith [g.bd, g.d0], mul_nonneg g.d0 hts⟩
    | cons lower rest =>
      have gu := hg up (by simp)
      have gl := hg lower (by simp)
      obtain ⟨h0, h1, h2⟩ := ih (by simp) (fun ly h => hg ly (by simp [h]))
      have := textbook_step_nonneg lower up _ _ h0 h1 h2 gl.t0 gl.t1 gl.T0 gl.r0 gl.r1 gl.u0 gl.ru gu.b0 gu.d0 gu.bd
      simp only [bottomOf]
      exact ⟨this.2.2.2.1, this.2.2.2.2.1, this.2.2.2.2.2⟩

/-- **brightness_nonneg** (`weights_nonneg_nonscattering` of C03): with physical coefficients the closed-form brightness
    temperature is non-negative for every non-negative set of source temperatures; being linear in them, each of its weights
    (response to a unit temperature in one source) is therefore non-negative -/
theorem brightness_nonneg (tsub tsky rAir tauAir : ℝ) (hts : 0 ≤ tsub) (hsky : 0 ≤ tsky) (hra : 0 ≤ rAir) (hta : 0 ≤ tauAir)
    (top : SLayer ℝ) (rest : List (SLayer ℝ)) (hg : ∀ ly ∈ top :: rest, Good ly) :
    0 ≤ brightness tsub tsky rAir tauAir (top :: rest) := by
  obtain ⟨h0, h1, h2⟩ := bottomOf_nonneg tsub hts (top :: rest) (by simp) hg
  have g := hg top (by simp)
  simp only [brightness, throughLayer]
  set G := (bottomOf tsub (top :: rest)).1
  set S := (bottomOf tsub (top :: rest)).2
  have hg' : 0 ≤ top.t * top.t * G := by have := g.t0; positivity
  have htt : top.t * top.t ≤ 1 := by nlinarith [g.t0, g.t1]
  have hg1 : top.t * top.t * G ≤ 1 := by nlinarith [mul_nonneg g.t0 g.t0]
  have hs' : 0 ≤ top.temp * (1 - top.t) * (1 + top.t * G) + top.t * S := by
    have : 0 ≤ 1 - top.t := by linarith [g.t1]
    have := g.t0; have := g.T0
    positivity
  have hden : 0 < 1 - top.rTop * (top.t * top.t * G) := by nlinarith [g.r0, g.r1]
  have := g.u0
  positivity

/-! ### the isothermal scene in closed form (Kirchhoff): energy-conserving, reciprocal interfaces -/

/-- no loss at the two interfaces of a layer: reflectivity + transmissivity = 1 on the layer's side -/
structure LosslessIf (ly : SLayer ℝ) : Prop where
  top : ly.rTop + ly.tauUp = 1
  bot : ly.rBot + ly.tauDn = 1

/-- reciprocity: the upward transmissivity out of a layer equals the downward transmissivity into it (chain listed top-down) -/
def Reciprocal : List (SLayer ℝ) → Prop
  | [] => True
  | [_] => True
  | up :: lower :: rest => lower.tauUp = up.tauDn ∧ Reciprocal (lower :: rest)

/-- at every level of an isothermal, loss-free-interface stack the emission seen is `T (1 − Γ)` -/
theorem bottomOf_isothermal (T : ℝ) (ls : List (SLayer ℝ)) (hne : ls ≠ []) (hT : ∀ ly ∈ ls, ly.temp = T)
    (hl : ∀ ly ∈ ls, LosslessIf ly) (hr : Reciprocal ls) (hd : DenOk T ls) :
    (bottomOf T ls).2 = T * (1 - (bottomOf T ls).1) := by
  induction ls with
  | nil => exact absurd rfl hne
  | cons up rest ih =>
    cases rest with
    | nil =>
      have := (hl up (by simp)).bot
      simp only [bottomOf]
      have e : up.tauDn = 1 - up.rBot := by linarith
      rw [e]; ring
    | cons lower rest =>
      obtain ⟨hrec1, hrec2⟩ := hr
      obtain ⟨hd1, hd2⟩ := hd
      have ihh := ih (by simp) (fun ly h => hT ly (by simp [h])) (fun ly h => hl ly (by simp [h])) hrec2 hd1
      have hTl : lower.temp = T := hT lower (by simp)
      have ltop := (hl lower (by simp)).top
      have ubot := (hl up (by simp)).bot
      simp only [bottomOf, throughInterface, throughLayer]
      simp only [throughLayer] at hd2
      set g := (bottomOf T (lower :: rest)).1 with hg
      set s := (bottomOf T (lower :: rest)).2 with hs
      rw [ihh, hTl]
      have hden : 1 - lower.rTop * (lower.t * lower.t * g) ≠ 0 := hd2
      have e1 : lower.rTop = 1 - lower.tauUp := by linarith
      have e2 : up.rBot = 1 - up.tauDn := by linarith
      rw [← hrec1] at e2
      rw [e2, ← hrec1]
      rw [e1] at hden ⊢
      have h1 := mul_inv_cancel₀ hden
      simp only [div_eq_mul_inv]
      linear_combination (lower.tauUp * T) * h1

/-- **brightness_isothermal** (C01 / Kirchhoff for non-scattering stacks): with every layer, the substrate and the sky at the same
    temperature `T`, loss-free and reciprocal interfaces (`r + τ = 1` on both sides, `τ↑ = τ↓`), the closed-form brightness temperature is
    exactly `T` - for any number of layers, any thicknesses and absorption -/
theorem brightness_isothermal (T rAir tauAir : ℝ) (top : SLayer ℝ) (rest : List (SLayer ℝ))
    (hT : ∀ ly ∈ top :: rest, ly.temp = T) (hl : ∀ ly ∈ top :: rest, LosslessIf ly) (hr : Reciprocal (top :: rest))
    (hd : DenOk T (top :: rest)) (hair : rAir + tauAir = 1) (hrecip : tauAir = top.tauUp)
    (hden : 1 - top.rTop * (throughLayer top (bottomOf T (top :: rest)).1 (bottomOf T (top :: rest)).2).1 ≠ 0) :
    brightness T T rAir tauAir (top :: rest) = T := by
  have hb := bottomOf_isothermal T (top :: rest) (by simp) hT hl hr hd
  have hTt : top.temp = T := hT top (by simp)
  have ltop := (hl top (by simp)).top
  simp only [brightness, throughLayer]
  simp only [throughLayer] at hden
  set g := (bottomOf T (top :: rest)).1 with hg
  rw [hb, hTt]
  have e1 : top.rTop = 1 - top.tauUp := by linarith
  have e2 : rAir = 1 - top.tauUp := by linarith
  rw [e1] at hden ⊢
  rw [e2, hrecip]
  have h1 := mul_inv_cancel₀ hden
  simp only [div_eq_mul_inv]
  linear_combination (top.tauUp * T) * h1

/-- the premises are satisfiable: two absorbing layers over a half-reflecting substrate -/
example : brightness (250 : ℝ) 250 (1 - 0.9) 0.9 [⟨0.5, 250, 0.1, 0.9, 0.2, 0.8⟩, ⟨0.7, 250, 0.2, 0.8, 0.6, 0.4⟩] = 250 := by
  refine brightness_isothermal 250 (1 - 0.9) 0.9 _ _ ?_ ?_ ?_ ?_ ?_ ?_ ?_
  · intro ly h; simp at h; rcases h with h | h <;> subst h <;> rfl
  · intro ly h; simp at h; rcases h with h | h <;> subst h <;> constructor <;> norm_num
  · simp [Reciprocal]
  · simp only [DenOk, bottomOf, throughLayer]; norm_num
  · norm_num
  · rfl
  · simp only [bottomOf, throughLayer, throughInterface]; norm_num

/-! ### maximum principle for non-scattering stacks (C03 / C01 in closed form) -/

/-- the algebra of one interface crossing: with `τ↑ = τ↓ = τ`, `r_b = 1 − τ`, `r_a = 1 − τ`:
    `1 − Γ'' = τ (1 − Γ') / D` with `D = 1 − r_b Γ'` -/
theorem one_sub_gamma_interface (τ g : ℝ) (hD0 : 1 - (1 - τ) * g ≠ 0) :
    1 - ((1 - τ) + τ * τ * g / (1 - (1 - τ) * g)) = τ * (1 - g) / (1 - (1 - τ) * g) := by
  have h1 := mul_inv_cancel₀ hD0
  simp only [div_eq_mul_inv]
  linear_combination (-τ) * h1

/-- one layer: `m (1 − Γ) ≤ S ≤ M (1 − Γ)` is preserved by `throughLayer` -/
theorem throughLayer_between (ly : SLayer ℝ) (g s m M : ℝ) (ht0 : 0 ≤ ly.t) (ht1 : ly.t ≤ 1) (hTm : m ≤ ly.temp) (hTM : ly.temp ≤ M)
    (hg0 : 0 ≤ g) (hl : m * (1 - g) ≤ s) (hu : s ≤ M * (1 - g)) :
    m * (1 - (throughLayer ly g s).1) ≤ (throughLayer ly g s).2 ∧ (throughLayer ly g s).2 ≤ M * (1 - (throughLayer ly g s).1) := by
  simp only [throughLayer]
  have h1 : 0 ≤ (1 - ly.t) * (1 + ly.t * g) := by
    have : 0 ≤ 1 - ly.t := by linarith
    positivity
  constructor
  · have e : ly.temp * (1 - ly.t) * (1 + ly.t * g) + ly.t * s - m * (1 - ly.t * ly.t * g)
        = (ly.temp - m) * ((1 - ly.t) * (1 + ly.t * g)) + ly.t * (s - m * (1 - g)) := by ring
    have : 0 ≤ (ly.temp - m) * ((1 - ly.t) * (1 + ly.t * g)) + ly.t * (s - m * (1 - g)) := by
      have a : 0 ≤ ly.temp - m := by linarith
      have b : 0 ≤ s - m * (1 - g) := by linarith
      positivity
    linarith
  · have e : M * (1 - ly.t * ly.t * g) - (ly.temp * (1 - ly.t) * (1 + ly.t * g) + ly.t * s)
        = (M - ly.temp) * ((1 - ly.t) * (1 + ly.t * g)) + ly.t * (M * (1 - g) - s) := by ring
    have : 0 ≤ (M - ly.temp) * ((1 - ly.t) * (1 + ly.t * g)) + ly.t * (M * (1 - g) - s) := by
      have a : 0 ≤ M - ly.temp := by linarith
      have b : 0 ≤ M * (1 - g) - s := by linarith
      positivity
    linarith

/-- **invariant of the maximum principle**: at every level, `m (1 − Γ) ≤ S ≤ M (1 − Γ)` when every source below is in `[m, M]` -/
theorem bottomOf_between (tsub m M : ℝ) (hm0 : 0 ≤ m) (hm : m ≤ tsub) (hM : tsub ≤ M) (ls : List (SLayer ℝ)) (hne : ls ≠ [])
    (hg : ∀ ly ∈ ls, Good ly) (hT : ∀ ly ∈ ls, m ≤ ly.temp ∧ ly.temp ≤ M) (hl : ∀ ly ∈ ls, LosslessIf ly) (hr : Reciprocal ls) :
    m * (1 - (bottomOf tsub ls).1) ≤ (bottomOf tsub ls).2 ∧ (bottomOf tsub ls).2 ≤ M * (1 - (bottomOf tsub ls).1) := by
  induction ls with
  | nil => exact absurd rfl hne
  | cons up rest ih =>
    cases rest with
    | nil =>
      have g := hg up (by simp)
      have := (hl up (by simp)).bot
      simp only [bottomOf]
      have e : 1 - up.rBot = up.tauDn := by linarith
      rw [e]
      constructor
      · rw [mul_comm]; exact mul_le_mul_of_nonneg_left hm g.d0
      · rw [mul_comm M]; exact mul_le_mul_of_nonneg_left hM g.d0
    | cons lower rest =>
      obtain ⟨hrec1, hrec2⟩ := hr
      obtain ⟨ihl, ihu⟩ := ih (by simp) (fun ly h => hg ly (by simp [h])) (fun ly h => hT ly (by simp [h]))
        (fun ly h => hl ly (by simp [h])) hrec2
      obtain ⟨hG0, hG1, _⟩ := bottomOf_nonneg tsub (le_trans hm0 hm) (lower :: rest) (by simp) (fun ly h => hg ly (by simp [h]))
      have gl := hg lower (by simp)
      have gu := hg up (by simp)
      obtain ⟨hTm, hTM⟩ := hT lower (by simp)
      have ltop := (hl lower (by simp)).top
      have ubot := (hl up (by simp)).bot
      set g := (bottomOf tsub (lower :: rest)).1 with hgdef
      set s := (bottomOf tsub (lower :: rest)).2 with hsdef
      obtain ⟨hl', hu'⟩ := throughLayer_between lower g s m M gl.t0 gl.t1 hTm hTM hG0 ihl ihu
      simp only [bottomOf, throughInterface]
      rw [← hgdef, ← hsdef]
      set g' := (throughLayer lower g s).1 with hg'
      set s' := (throughLayer lower g s).2 with hs'
      have hg'0 : 0 ≤ g' := by
        simp only [hg', throughLayer]; have := gl.t0; positivity
      have hg'1 : g' ≤ 1 := by
        simp only [hg', throughLayer]; nlinarith [mul_nonneg gl.t0 gl.t0, gl.t0, gl.t1]
      set τ := lower.tauUp with hτ
      have e1 : lower.rTop = 1 - τ := by linarith
      have e2 : up.rBot = 1 - τ := by rw [hrec1]; linarith
      have e3 : up.tauDn = τ := hrec1.symm
      have hτ0 : 0 ≤ τ := gl.u0
      have hD : 0 < 1 - (1 - τ) * g' := by
        have : (1 - τ) < 1 ∨ True := Or.inr trivial
        have r0 := gl.r0; have r1 := gl.r1
        rw [e1] at r0 r1
        nlinarith
      rw [e1, e2, e3]
      have key := one_sub_gamma_interface τ g' (ne_of_gt hD)
      have hq : 0 ≤ τ / (1 - (1 - τ) * g') := div_nonneg hτ0 hD.le
      constructor
      · rw [key]
        have : m * (τ * (1 - g') / (1 - (1 - τ) * g')) = (τ / (1 - (1 - τ) * g')) * (m * (1 - g')) := by ring
        rw [this]
        have : τ * s' / (1 - (1 - τ) * g') = (τ / (1 - (1 - τ) * g')) * s' := by ring
        rw [this]
        exact mul_le_mul_of_nonneg_left hl' hq
      · rw [key]
        have : M * (τ * (1 - g') / (1 - (1 - τ) * g')) = (τ / (1 - (1 - τ) * g')) * (M * (1 - g')) := by ring
        rw [this]
        have : τ * s' / (1 - (1 - τ) * g') = (τ / (1 - (1 - τ) * g')) * s' := by ring
        rw [this]
        exact mul_le_mul_of_nonneg_left hu' hq

/-- **brightness_between** (maximum principle, C03, for non-scattering stacks): with loss-free reciprocal interfaces and physical
    coefficients, the closed-form brightness temperature lies between the coldest and the warmest of the sources (layers, substrate, sky) -/
theorem brightness_between (tsub tsky rAir tauAir m M : ℝ) (hm0 : 0 ≤ m) (top : SLayer ℝ) (rest : List (SLayer ℝ))
    (hsub : m ≤ tsub ∧ tsub ≤ M) (hsky : m ≤ tsky ∧ tsky ≤ M)
    (hg : ∀ ly ∈ top :: rest, Good ly) (hT : ∀ ly ∈ top :: rest, m ≤ ly.temp ∧ ly.temp ≤ M) (hl : ∀ ly ∈ top :: rest, LosslessIf ly)
    (hr : Reciprocal (top :: rest)) (hair : rAir + tauAir = 1) (hrecip : tauAir = top.tauUp) :
    m ≤ brightness tsub tsky rAir tauAir (top :: rest) ∧ brightness tsub tsky rAir tauAir (top :: rest) ≤ M := by
  obtain ⟨ihl, ihu⟩ := bottomOf_between tsub m M hm0 hsub.1 hsub.2 (top :: rest) (by simp) hg hT hl hr
  obtain ⟨hG0, hG1, _⟩ := bottomOf_nonneg tsub (le_trans hm0 hsub.1) (top :: rest) (by simp) hg
  have gt := hg top (by simp)
  obtain ⟨hTm, hTM⟩ := hT top (by simp)
  have ltop := (hl top (by simp)).top
  set g := (bottomOf tsub (top :: rest)).1 with hgdef
  set s := (bottomOf tsub (top :: rest)).2 with hsdef
  obtain ⟨hl', hu'⟩ := throughLayer_between top g s m M gt.t0 gt.t1 hTm hTM hG0 ihl ihu
  simp only [brightness]
  rw [← hgdef, ← hsdef]
  set g' := (throughLayer top g s).1 with hg'
  set s' := (throughLayer top g s).2 with hs'
  have hg'0 : 0 ≤ g' := by
    simp only [hg', throughLayer]; have := gt.t0; positivity
  have hg'1 : g' ≤ 1 := by
    simp only [hg', throughLayer]; nlinarith [mul_nonneg gt.t0 gt.t0, gt.t0, gt.t1]
  set τ := top.tauUp with hτ
  have e1 : top.rTop = 1 - τ := by linarith
  have e2 : rAir = 1 - τ := by linarith
  have hτ0 : 0 ≤ τ := gt.u0
  have hD : 0 < 1 - (1 - τ) * g' := by
    have r0 := gt.r0; have r1 := gt.r1
    rw [e1] at r0 r1
    nlinarith
  rw [e1, e2, hrecip]
  have key := one_sub_gamma_interface τ g' (ne_of_gt hD)
  have hq : 0 ≤ τ / (1 - (1 - τ) * g') := div_nonneg hτ0 hD.le
  -- Tb = q s' + Γ'' tsky with 1 − Γ'' = q (1 − g')
  set G := (1 - τ) + τ * τ * g' / (1 - (1 - τ) * g') with hGdef
  have hG : 1 - G = (τ / (1 - (1 - τ) * g')) * (1 - g') := by rw [hGdef, key]; ring
  have hGnn : 0 ≤ G := by
    rw [hGdef]
    have : 0 ≤ τ * τ * g' / (1 - (1 - τ) * g') := by positivity
    have r0 := gt.r0; rw [e1] at r0
    linarith
  have eTb : τ * s' / (1 - (1 - τ) * g') + G * tsky = (τ / (1 - (1 - τ) * g')) * s' + G * tsky := by ring
  rw [eTb]
  constructor
  · have a := mul_le_mul_of_nonneg_left hl' hq
    have b := mul_le_mul_of_nonneg_left hsky.1 hGnn
    have : m = (τ / (1 - (1 - τ) * g')) * (m * (1 - g')) + G * m := by
      have : (τ / (1 - (1 - τ) * g')) * (m * (1 - g')) = m * (1 - G) := by rw [hG]; ring
      rw [this]; ring
    linarith
  · have a := mul_le_mul_of_nonneg_left hu' hq
    have b := mul_le_mul_of_nonneg_left hsky.2 hGnn
    have : M = (τ / (1 - (1 - τ) * g')) * (M * (1 - g')) + G * M := by
      have : (τ / (1 - (1 - τ) * g')) * (M * (1 - g')) = M * (1 - G) := by rw [hG]; ring
      rw [this]; ring
    linarith



theorem den_pos_of_good (ly : SLayer ℝ) (g s : ℝ) (hgd : Good ly) (hg0 : 0 ≤ g) (hg1 : g ≤ 1) :
    0 < 1 - ly.rTop * (throughLayer ly g s).1 := by
  simp only [throughLayer]
  have h1 : ly.t * ly.t * g ≤ 1 := by nlinarith [mul_nonneg hgd.t0 hgd.t0, hgd.t0, hgd.t1]
  have h0 : 0 ≤ ly.t * ly.t * g := by have := hgd.t0; positivity
  nlinarith [hgd.r0, hgd.r1]

/-- with physical coefficients every geometric series of the recursion converges -/
theorem denOk_of_good (tsub : ℝ) (h0 : 0 ≤ tsub) (ls : List (SLayer ℝ)) (hg : ∀ ly ∈ ls, Good ly) : DenOk tsub ls := by
  induction ls with
  | nil => trivial
  | cons up rest ih =>
    cases rest with
    | nil => trivial
    | cons lower rest =>
      refine ⟨ih (fun ly h => hg ly (by simp [h])), ?_⟩
      obtain ⟨hG0, hG1, _⟩ := bottomOf_nonneg tsub h0 (lower :: rest) (by simp) (fun ly h => hg ly (by simp [h]))
      exact ne_of_gt (den_pos_of_good lower _ _ (hg lower (by simp)) hG0 hG1)

/-- the premises of `brightness_between` are satisfiable: a warm layer over a colder one, substrate at 270 K, sky at 20 K -/
example : (20 : ℝ) ≤ brightness 270 20 (1 - 0.9) 0.9 [⟨0.5, 260, 0.1, 0.9, 0.2, 0.8⟩, ⟨0.7, 240, 0.2, 0.8, 0.6, 0.4⟩] ∧
    brightness (270 : ℝ) 20 (1 - 0.9) 0.9 [⟨0.5, 260, 0.1, 0.9, 0.2, 0.8⟩, ⟨0.7, 240, 0.2, 0.8, 0.6, 0.4⟩] ≤ 270 := by
  refine brightness_between 270 20 (1 - 0.9) 0.9 20 270 (by norm_num) _ _ ⟨by norm_num, by norm_num⟩ ⟨by norm_num, by norm_num⟩ ?_ ?_ ?_ ?_ ?_ ?_
  · intro ly h; simp at h; rcases h with h | h <;> subst h <;> constructor <;> norm_num
  · intro ly h; simp at h; rcases h with h | h <;> subst h <;> constructor <;> norm_num
  · intro ly h; simp at h; rcases h with h | h <;> subst h <;> constructor <;> norm_num
  · simp [Reciprocal]
  · norm_num
  · rfl

section chainBetween
open Smrt.Dort
variable {S : DStack ℝ} {Nw : Nat → Nat} {κ rt rb tu td : Nat → Nat → ℝ}

/-- **stack_max_principle**: for a non-scattering stack with loss-free reciprocal specular interfaces and physical coefficients, every
    solution of the system `dort_modem_banded` assembles gives, at every stream and polarisation, an emerging intensity between the
    coldest and the warmest of the sources (layers, substrate, incident sky) - the geometric series converge by themselves -/
theorem stack_max_principle (h : TrivialStack S Nw κ rt rb tu td) (x : Nat → Nat → Nat → ℝ) (hs : Solves S x)
    (i v : Nat) (hi : ∀ l, l < S.L → i < Nw l) (n : Nat) (hL : n + 1 = S.L)
    (Na : Nat) (hia : i < Na) (tdAir rAir : Nat → ℝ) (hta : S.tbotAir = .diag ⟨Na, tdAir⟩) (hra : S.rbotAir = .diag ⟨Na, rAir⟩)
    (m M : ℝ) (hm0 : 0 ≤ m) (hsub : m ≤ S.tsub ∧ S.tsub ≤ M) (hsky : m ≤ S.idown.f i v ∧ S.idown.f i v ≤ M)
    (hg : ∀ ly ∈ chainN S κ rt rb tu td i 0 (n + 1), Good ly)
    (hT : ∀ ly ∈ chainN S κ rt rb tu td i 0 (n + 1), m ≤ ly.temp ∧ ly.temp ≤ M)
    (hl : ∀ ly ∈ chainN S κ rt rb tu td i 0 (n + 1), LosslessIf ly)
    (hr : Reciprocal (chainN S κ rt rb tu td i 0 (n + 1)))
    (hair : rAir i + tdAir i = 1) (hrecip : tdAir i = tu 0 i) :
    m ≤ emergingB S x i v ∧ emergingB S x i v ≤ M := by
  have h0 : 0 ≤ S.tsub := le_trans hm0 hsub.1
  have hd := denOk_of_good S.tsub h0 _ hg
  obtain ⟨hG0, hG1, _⟩ := bottomOf_nonneg S.tsub h0 (chainN S κ rt rb tu td i 0 (n + 1)) (by simp [chainN]) hg
  have hden := ne_of_gt (den_pos_of_good (mk S κ rt rb tu td i 0) _ (bottomOf S.tsub (chainN S κ rt rb tu td i 0 (n + 1))).2
    (hg _ (by simp [chainN])) hG0 hG1)
  have e := stack_is_textbook h x hs i v hi n hL Na hia tdAir rAir hta hra hd (by simpa [mk] using hden)
  rw [e]
  simp only [chainN] at hg hT hl hr ⊢
  exact brightness_between S.tsub (S.idown.f i v) (rAir i) (tdAir i) m M hm0 _ _ hsub hsky hg hT hl hr hair (by simpa [mk] using hrecip)

end chainBetween

end Smrt.Props.C02
