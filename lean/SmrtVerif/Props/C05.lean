/-
  C05 — electromagnetic similarity: lengths × a with frequency / a changes nothing (non-dispersive materials).

  Joint homogeneity of the formulas of the model: wavenumber, microstructure spectra and autocorrelations, the rough
  boundary factors, and the boundary system of the solver (which sees thickness only through `β·d`).  The eigen-solver itself
  is outside the model: a matrix divided by `a` has the same eigenvectors and eigenvalues divided by `a` (trusted contract).
-/
import SmrtVerif.Model.Dort
import SmrtVerif.Model.Microstructure
import SmrtVerif.Model.Interface
import SmrtVerif.Proofs.RealTransc
import SmrtVerif.Proofs.Split
import SmrtVerif.Proofs.Romberg
import Mathlib.Tactic.Ring
import Mathlib.Tactic.Linarith
import Mathlib.Tactic.FieldSimp
import Mathlib.Tactic.SplitIfs
import Mathlib.Tactic.Positivity

set_option linter.unusedSectionVars false
set_option linter.unusedVariables false

namespace Smrt.Props.C05
open Smrt

/-! ### the solver sees thicknesses only through `β·d` -/
section dort
open Smrt.Dort

/-- the layer in the scaled scene: thickness × a, eigenvalues ÷ a (the eigen matrix is `ke/μ`- and `ks/μ`-homogeneous,
    both scale as 1/a), same eigenvectors, same interfaces -/
noncomputable def scaleLayer (ly : DLayer ℝ) (a : ℝ) : DLayer ℝ :=
  { ly with d := a * ly.d, beta := fun j => ly.beta j / a }

theorem exp_scale_pos (β d a : ℝ) (ha : 0 < a) :
    Real.exp (-(if 0 < β / a then β / a else 0) * (a * d)) = Real.exp (-(if 0 < β then β else 0) * d) := by
  have hp : (0 < β / a) ↔ (0 < β) := div_pos_iff_of_pos_right ha
  by_cases h : 0 < β
  · rw [if_pos (hp.mpr h), if_pos h]; congr 1; field_simp
  · rw [if_neg (fun x => h (hp.mp x)), if_neg h]; simp

theorem exp_scale_neg (β d a : ℝ) (ha : 0 < a) :
    Real.exp ((if β / a < 0 then β / a else 0) * (a * d)) = Real.exp ((if β < 0 then β else 0) * d) := by
  have hn : (β / a < 0) ↔ (β < 0) := by
    constructor
    · intro h; by_contra hc; push Not at hc; exact absurd h (not_lt.mpr (div_nonneg hc ha.le))
    · intro h; exact div_neg_of_neg_of_pos h ha
  by_cases h : β < 0
  · rw [if_pos (hn.mpr h), if_pos h]; congr 1; field_simp
  · rw [if_neg (fun x => h (hn.mp x)), if_neg h]; simp

theorem trans_scale (ly : DLayer ℝ) (a : ℝ) (ha : 0 < a) (j : Nat) :
    transt (scaleLayer ly a) j = transt ly j ∧ transb (scaleLayer ly a) j = transb ly j := by
  constructor
  · show Real.exp (-(if 0 < ly.beta j / a then ly.beta j / a else 0) * (a * ly.d))
        = Real.exp (-(if 0 < ly.beta j then ly.beta j else 0) * ly.d)
    exact exp_scale_pos _ _ _ ha
  · show Real.exp ((if ly.beta j / a < 0 then ly.beta j / a else 0) * (a * ly.d))
        = Real.exp ((if ly.beta j < 0 then ly.beta j else 0) * ly.d)
    exact exp_scale_neg _ _ _ ha

/-- **dort_similarity**: every block of the boundary system, hence the whole system, its right-hand side and the emerging
    intensity, are unchanged when each layer's thickness is multiplied by `a` and its eigenvalues divided by `a` -/
theorem dort_blocks_scale (ly : DLayer ℝ) (a : ℝ) (ha : 0 < a) (i j : Nat) :
    topBlock (scaleLayer ly a) i j = topBlock ly i j ∧ botBlock (scaleLayer ly a) i j = botBlock ly i j ∧
    upBlock (scaleLayer ly a) i j = upBlock ly i j ∧ downBlock (scaleLayer ly a) i j = downBlock ly i j := by
  obtain ⟨h1, h2⟩ := trans_scale ly a ha j
  refine ⟨?_, ?_, ?_, ?_⟩
  · rw [topBlock_eq, topBlock_eq, h1]; rfl
  · rw [botBlock_eq, botBlock_eq, h2]; rfl
  · rw [upBlock_eq, upBlock_eq, h1]; rfl
  · rw [downBlock_eq, downBlock_eq, h2]; rfl

noncomputable def scaleStack (S : DStack ℝ) (a : ℝ) : DStack ℝ := { S with lay := fun l => scaleLayer (S.lay l) a }

theorem dort_similarity (S : DStack ℝ) (a : ℝ) (ha : 0 < a) (x : Nat → Nat → Nat → ℝ) (hsol : Solves S x) :
    Solves (scaleStack S a) x ∧ ∀ i v, emergingB (scaleStack S a) x i v = emergingB S x i v := by
  constructor
  · intro l hl i hi v
    obtain ⟨ht, hb⟩ := hsol l hl i hi v
    constructor
    · have e : lhsTop (scaleStack S a) x l i v = lhsTop S x l i v := by
        simp only [lhsTop]
        show sumN (2 * ((S.lay l).n * S.npol)) (fun j => topBlock (scaleLayer (S.lay l) a) i j * x l j v)
            + (if 0 < l then
                (if i < commonRows S (S.lay (l - 1)).tbot ((S.lay (l - 1)).n * S.npol) (S.lay l).n
                  then sumN (2 * ((S.lay (l - 1)).n * S.npol)) (fun j => downBlock (scaleLayer (S.lay (l - 1)) a) i j * x (l - 1) j v) else 0)
               else 0) = _
        have e1 : (fun j => topBlock (scaleLayer (S.lay l) a) i j * x l j v) = (fun j => topBlock (S.lay l) i j * x l j v) := by
          funext j; rw [(dort_blocks_scale (S.lay l) a ha i j).1]
        have e2 : (fun j => downBlock (scaleLayer (S.lay (l - 1)) a) i j * x (l - 1) j v)
            = (fun j => downBlock (S.lay (l - 1)) i j * x (l - 1) j v) := by
          funext j; rw [(dort_blocks_scale (S.lay (l - 1)) a ha i j).2.2.2]
        rw [e1, e2]
      rw [e]; exact ht
    · have e : lhsBot (scaleStack S a) x l i v = lhsBot S x l i v := by
        simp only [lhsBot]
        show sumN (2 * ((S.lay l).n * S.npol)) (fun j => botBlock (scaleLayer (S.lay l) a) i j * x l j v)
            + (if l + 1 < S.L then
                (if i < commonRows S (S.lay (l + 1)).ttop ((S.lay (l + 1)).n * S.npol) (S.lay l).n
                  then sumN (2 * ((S.lay (l + 1)).n * S.npol)) (fun j => upBlock (scaleLayer (S.lay (l + 1)) a) i j * x (l + 1) j v) else 0)
               else 0) = _
        have e1 : (fun j => botBlock (scaleLayer (S.lay l) a) i j * x l j v) = (fun j => botBlock (S.lay l) i j * x l j v) := by
          funext j; rw [(dort_blocks_scale (S.lay l) a ha i j).2.1]
        have e2 : (fun j => upBlock (scaleLayer (S.lay (l + 1)) a) i j * x (l + 1) j v)
            = (fun j => upBlock (S.lay (l + 1)) i j * x (l + 1) j v) := by
          funext j; rw [(dort_blocks_scale (S.lay (l + 1)) a ha i j).2.2.1]
        rw [e1, e2]
      rw [e]; exact hb
  · intro i v
    simp only [emergingB, emerging]
    have e : i1up (scaleStack S a) (x 0) = i1up S (x 0) := by
      funext p q
      simp only [i1up]
      show sumN (2 * ((S.lay 0).n * S.npol)) (fun k => (S.lay 0).eu.f p k * transt (scaleLayer (S.lay 0) a) k * x 0 k q) + _ = _
      have : (fun k => (S.lay 0).eu.f p k * transt (scaleLayer (S.lay 0) a) k * x 0 k q)
          = (fun k => (S.lay 0).eu.f p k * transt (S.lay 0) k * x 0 k q) := by
        funext k; rw [(trans_scale (S.lay 0) a ha k).1]
      rw [this]; rfl
    rw [e]; rfl

/-- optical depth `ke·d` is invariant -/
theorem optical_depth_similarity (ke d a : ℝ) (ha : a ≠ 0) : (ke / a) * (a * d) = ke * d := by field_simp

end dort

/-! ### microstructure: `ft(k/a; a·ℓ) = a³ ft(k; ℓ)`, `acf(a·r; a·ℓ) = acf(r; ℓ)` -/
section micro
open Smrt.Micro

-- `ring` must not see scientific literals (it builds a kernel-rejected term for `8.0`): turn them into numerals first
theorem l8 : (8.0 : ℝ) = 8 := by norm_num
theorem l4 : (4.0 : ℝ) = 4 := by norm_num
theorem l3 : (3.0 : ℝ) = 3 := by norm_num
theorem l2 : (2.0 : ℝ) = 2 := by norm_num

theorem exponential_similarity (pi f xi k r a : ℝ) (ha : 0 < a) (hxi : xi ≠ 0) :
    expFt pi f (a * xi) (k / a) = a ^ 3 * expFt pi f xi k ∧ expAcf f (a * xi) (a * r) = expAcf f xi r := by
  have ha' : a ≠ 0 := ne_of_gt ha
  constructor
  · simp only [expFt, Micro.sq, Micro.cube, l8]
    have : k / a * (a * xi) = k * xi := by field_simp
    rw [this]; ring
  · simp only [expAcf, transc_exp_real]
    congr 2; field_simp

theorem teubner_strey_similarity (pi f xi d k r a : ℝ) (ha : 0 < a) (hxi : xi ≠ 0) (hd : d ≠ 0) :
    tsFt pi f (a * xi) (a * d) (k / a) = a ^ 3 * tsFt pi f xi d k ∧ tsAcf pi f (a * xi) (a * d) (a * r) = tsAcf pi f xi d r := by
  have ha' : a ≠ 0 := ne_of_gt ha
  constructor
  · simp only [tsFt, Micro.sq, Micro.cube, tsDen, l8, l2]
    have e1 : k / a * (a * xi) = k * xi := by field_simp
    have e2 : 2 * pi * (a * xi) / (a * d) = 2 * pi * xi / d := by field_simp
    rw [e1, e2]; ring
  · simp only [tsAcf, transc_exp_real]
    have e1 : -(a * r) / (a * xi) = -r / xi := by field_simp
    have e2 : 2 * (a * r) / (a * d) = 2 * r / d := by field_simp
    simp only [l2]
    rw [e1, e2]

theorem unified_scaled_exponential_similarity (pi f lp K k r a : ℝ) (ha : 0 < a) (hl : K * lp ≠ 0) :
    useFt pi f (a * lp) K (k / a) = a ^ 3 * useFt pi f lp K k ∧ useAcf f (a * lp) K (a * r) = useAcf f lp K r := by
  have ha' : a ≠ 0 := ne_of_gt ha
  constructor
  · simp only [useFt, useXi, Micro.sq, Micro.cube, l8]
    have : k / a * (K * (a * lp)) = k * (K * lp) := by field_simp
    rw [this]; ring
  · simp only [useAcf, useXi, transc_exp_real]
    congr 2
    have : K * (a * lp) = a * (K * lp) := by ring
    rw [this]; field_simp

theorem sphere_similarity (pi f R k r a : ℝ) (ha : 0 < a) (hR : 0 < R) :
    sphFt pi f (a * R) (k / a) = a ^ 3 * sphFt pi f R k ∧ sphAcf f (a * R) (a * r) = sphAcf f R r := by
  have ha' : a ≠ 0 := ne_of_gt ha
  have hR' : R ≠ 0 := ne_of_gt hR
  constructor
  · simp only [sphFt, Micro.cube, l4, l3]
    have : a * R * (k / a) = R * k := by field_simp
    rw [this]; ring
  · simp only [sphAcf, sphPoly, Micro.cube, l4, l3, l2]
    have c : (2 * (a * R) < a * r) ↔ (2 * R < r) := by
      constructor
      · intro h; by_contra hc; push Not at hc; nlinarith
      · intro h; nlinarith
    by_cases h : 2 * R < r
    · rw [if_pos (c.mpr h), if_pos h]
    · rw [if_neg (fun x => h (c.mp x)), if_neg h]
      congr 1
      have e1 : a * r / (4 * (a * R) / 3) = r / (4 * R / 3) := by field_simp
      have e2 : a * r * (a * r) * (a * r) / (2 * (a * R) * (2 * (a * R)) * (2 * (a * R)) * 2)
          = r * r * r / (2 * R * (2 * R) * (2 * R) * 2) := by field_simp
      rw [e1, e2]

/-- **sticky_hard_spheres_similarity**: the Percus-Yevick spectrum of sticky hard spheres is homogeneous of degree 3 under
    `R → a R`, `k → k / a` (stickiness and fractional volume fixed), on both branches of the code (small-argument limit and general form) -/
theorem sticky_hard_spheres_similarity (pi f R k a : ℝ) (tau : Option ℝ) (ha : 0 < a) :
    shsFt pi f (a * R) tau (k / a) = a ^ 3 * shsFt pi f R tau k := by
  have ha' : a ≠ 0 := ne_of_gt ha
  simp only [shsFt, shsFtT, shsFtZero, Micro.cube, Micro.sq, l2, l3, l4]
  have hX : k / a * (2 * (a * R)) / 2 = k * (2 * R) / 2 := by field_simp
  rw [hX]
  split
  · ring
  · ring

/-- **unified_sticky_hard_spheres_similarity**: same homogeneity for the unified form (`radius = ¾ ℓ_p / (1 − f)`), Porod length
    `ℓ_p → a ℓ_p`, polydispersity and fractional volume fixed -/
theorem unified_sticky_hard_spheres_similarity (pi f lp K k a : ℝ) (ha : 0 < a) (hv : pi ≠ 0) (hf : 1 - f ≠ 0) (hl : lp ≠ 0) :
    ushsFt pi f (a * lp) K (k / a) = a ^ 3 * ushsFt pi f lp K k := by
  have ha' : a ≠ 0 := ne_of_gt ha
  simp only [ushsFt, ushsFtCore, ushsRadius, shsFtZero, Micro.cube, Micro.sq, l2, l3, l4]
  have hX : k / a * (2 * (3 / 4 * (a * lp) / (1 - f))) / 2 = k * (2 * (3 / 4 * lp / (1 - f))) / 2 := by field_simp
  rw [hX]
  split
  · field_simp
  · field_simp

theorem l1 : (1.0 : ℝ) = 1 := by norm_num

theorem cx_ext {a b : Cx ℝ} (h1 : a.re = b.re) (h2 : a.im = b.im) : a = b := by
  cases a; cases b; simp only at h1 h2; subst h1; subst h2; rfl

open Smrt.Em in
/-- **sce_A2_local_similarity**: the numerically integrated second-order term of the short-range strong-contrast expansions
    (`compute_A2_local`: 4097-point Romberg integral of `r·acf(r)` up to 8 slopes-at-origin, plus `i/(4π) ft(0) Q`) is unchanged when the
    slope-at-origin length is multiplied by `a`, the spectrum at the origin by `a³` and the wavenumber divided by `a`, the autocorrelation
    function taking the same values at corresponding grid points - whatever those values are (uses `romb_weights` for `k = 12`) -/
theorem sce_A2_local_similarity (pi : ℝ) (g : Nat → ℝ) (ft0 invSlope a : ℝ) (Q : Cx ℝ) (ha : a ≠ 0) :
    sceA2Local pi g (a ^ 3 * ft0) (a * invSlope) (Cx.smul (1 / a) Q) = sceA2Local pi g ft0 invSlope Q := by
  unfold sceA2Local
  simp only [l8, l4, l2, l1]
  have hstep : (8 : ℝ) * (a * invSlope) / ((4096 : Nat) : ℝ) = a * (8 * invSlope / ((4096 : Nat) : ℝ)) := by ring
  rw [hstep]
  have hy : (fun i : Nat => ((i : ℝ) * (a * (8 * invSlope / ((4096 : Nat) : ℝ)))) * g i)
      = fun i : Nat => a * (((i : ℝ) * (8 * invSlope / ((4096 : Nat) : ℝ))) * g i) := by
    funext i; ring
  rw [hy, romb_smul, romb_weights 12 _ (a * _), romb_weights 12 _ (8 * invSlope / ((4096 : Nat) : ℝ))]
  generalize (∑ n ∈ Finset.range (2 ^ 12 + 1), ((wR 12 12 12 n : ℚ) : ℝ) * (((n : ℝ) * (8 * invSlope / ((4096 : Nat) : ℝ))) * g n)) = S
  generalize (8 * invSlope / ((4096 : Nat) : ℝ)) = h
  rcases Q with ⟨x, y⟩
  apply cx_ext
  · show (Cx.mul (Cx.smul 2 (Cx.mul (Cx.smul (1 / a) ⟨x, y⟩) (Cx.smul (1 / a) ⟨x, y⟩)))
        (Cx.add ⟨a * (a * h * S), 0⟩ (Cx.smul (a ^ 3 * ft0) (Cx.mul ⟨0, 1 / (4 * pi)⟩ (Cx.smul (1 / a) ⟨x, y⟩))))).re
      = (Cx.mul (Cx.smul 2 (Cx.mul ⟨x, y⟩ ⟨x, y⟩)) (Cx.add ⟨h * S, 0⟩ (Cx.smul ft0 (Cx.mul ⟨0, 1 / (4 * pi)⟩ ⟨x, y⟩)))).re
    simp only [Cx.mul, Cx.smul, Cx.add]
    field_simp
    ring
  · show (Cx.mul (Cx.smul 2 (Cx.mul (Cx.smul (1 / a) ⟨x, y⟩) (Cx.smul (1 / a) ⟨x, y⟩)))
        (Cx.add ⟨a * (a * h * S), 0⟩ (Cx.smul (a ^ 3 * ft0) (Cx.mul ⟨0, 1 / (4 * pi)⟩ (Cx.smul (1 / a) ⟨x, y⟩))))).im
      = (Cx.mul (Cx.smul 2 (Cx.mul ⟨x, y⟩ ⟨x, y⟩)) (Cx.add ⟨h * S, 0⟩ (Cx.smul ft0 (Cx.mul ⟨0, 1 / (4 * pi)⟩ ⟨x, y⟩)))).im
    simp only [Cx.mul, Cx.smul, Cx.add]
    field_simp
    ring

open Smrt.Em in
/-- the same for the exponential microstructure, end to end: correlation length `a ξ`, wavenumber `Q / a` -/
theorem sce_A2_local_similarity_exponential (pi f xi a : ℝ) (Q : Cx ℝ) (ha : 0 < a) (hxi : xi ≠ 0) :
    sceA2Local pi (fun i => expAcf f (a * xi) ((i : ℝ) * (8 * (a * xi) / 4096))) (expFt pi f (a * xi) 0) (a * xi) (Cx.smul (1 / a) Q)
      = sceA2Local pi (fun i => expAcf f xi ((i : ℝ) * (8 * xi / 4096))) (expFt pi f xi 0) xi Q := by
  have hg : (fun i : Nat => expAcf f (a * xi) ((i : ℝ) * (8 * (a * xi) / 4096))) = fun i : Nat => expAcf f xi ((i : ℝ) * (8 * xi / 4096)) := by
    funext i
    have := (exponential_similarity pi f xi 0 ((i : ℝ) * (8 * xi / 4096)) a ha hxi).2
    rw [← this]; congr 1; ring
  have hft : expFt pi f (a * xi) 0 = a ^ 3 * expFt pi f xi 0 := by
    have := (exponential_similarity pi f xi 0 0 a ha hxi).1
    simpa using this
  rw [hg, hft]
  exact sce_A2_local_similarity pi _ _ xi a Q (ne_of_gt ha)

end micro

/-! ### rough boundaries: the roughness enters through `k·σ` only -/
section rough
open Smrt.Iface Smrt.Fresnel

theorem ksigma_similarity (f rms a : ℝ) (e1 : Cx ℝ) (ha : a ≠ 0) :
    ksigma (f / a) e1 (a * rms) = ksigma f e1 rms := by
  simp only [ksigma]; field_simp

/-- Choudhury and Wegmüller factors and the IEM specular and transmission factors are invariant -/
theorem rough_factors_similarity (f rms mu a : ℝ) (e1 e2 : Cx ℝ) (ha : a ≠ 0) :
    choudhuryFactor (f / a) e1 (a * rms) mu = choudhuryFactor f e1 rms mu ∧
    wegmullerFactorH (f / a) e1 (a * rms) mu = wegmullerFactorH f e1 rms mu ∧
    iemSpecFactor (f / a) e1 (a * rms) mu = iemSpecFactor f e1 rms mu ∧
    iemTransFactor (f / a) e1 e2 (a * rms) mu = iemTransFactor f e1 e2 rms mu := by
  refine ⟨?_, ?_, ?_, ?_⟩
  · simp only [choudhuryFactor, ksigma_similarity f rms a e1 ha]
  · simp only [wegmullerFactorH, ksigma_similarity f rms a e1 ha]
  · simp only [iemSpecFactor]; congr 1; field_simp
  · simp only [iemTransFactor]; congr 1; field_simp

/-- the free-space wavenumber `k0 = 2π f / c` -/
theorem wavenumber_similarity (f c a : ℝ) (ha : a ≠ 0) : 2 * Real.pi * (f / a) / c = (2 * Real.pi * f / c) / a := by
  field_simp

end rough

end Smrt.Props.C05
