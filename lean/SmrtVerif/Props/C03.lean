/-
  C03 — brightness temperature is a convex combination of the source temperatures.

  Over the boundary system of `SmrtVerif/Model/Dort.lean`: the right-hand side and the emerging intensity are linear in
  (layer temperatures, substrate temperature, incident intensity), the system matrix does not depend on them, so the
  solution and the brightness temperature are linear; the weights sum to one (C01); a non-scattering atmosphere composes
  affinely.  Non-negativity of the weights for *scattering* media is not proved (see `convex_full`).
-/
import SmrtVerif.Model.Dort
import SmrtVerif.Proofs.Sum
import SmrtVerif.Proofs.RealTransc
import Mathlib.Tactic.Ring
import Mathlib.Tactic.Linarith
import Mathlib.Tactic.SplitIfs

set_option linter.unusedSectionVars false
set_option linter.unusedVariables false

namespace Smrt.Props.C03
open Smrt Smrt.Dort

/-- the same scene with other source terms -/
def withSources (S : DStack ℝ) (T : Nat → ℝ) (tsub : ℝ) (I : Nat → Nat → ℝ) : DStack ℝ :=
  { S with lay := fun l => { S.lay l with temp := T l }, tsub := tsub, idown := ⟨S.idown.r, S.idown.c, I⟩ }

theorem cvMulMat_linear (R : CV ℝ) (r c : Nat) (E1 E2 : Nat → Nat → ℝ) (a b : ℝ) (i v : Nat) :
    cvMulMat R ⟨r, c, fun p q => a * E1 p q + b * E2 p q⟩ i v
      = a * cvMulMat R ⟨r, c, E1⟩ i v + b * cvMulMat R ⟨r, c, E2⟩ i v := by
  cases R with
  | zero => simp [cvMulMat]
  | diag d => simp only [cvMulMat]; ring
  | dense m =>
    simp only [cvMulMat, sumN_eq_sum, Finset.mul_sum, ← Finset.sum_add_distrib]
    apply Finset.sum_congr rfl; intro k _; ring

theorem tempOf_nonneg (S : DStack ℝ) (T : Nat → ℝ) (s : ℝ) (I : Nat → Nat → ℝ) (l : Nat) (h : 0 ≤ T l) :
    tempOf (withSources S T s I) l = T l := by
  simp only [tempOf]
  split_ifs with hp
  · rfl
  · have hp' : ¬ 0 < T l := hp
    exact le_antisymm h (not_lt.mp hp')

/-- **sys_independent_of_sources**: the boundary-condition matrix does not depend on any temperature nor on the
    incident radiation (temperature-independent permittivities are the property's premise) -/
theorem sys_independent_of_sources (S : DStack ℝ) (T : Nat → ℝ) (s : ℝ) (I : Nat → Nat → ℝ) (r c : Nat) :
    sysEntry (withSources S T s I) r c = sysEntry S r c := rfl

/-- **rhs_linear**: the right-hand side is linear in (layer temperatures ≥ 0, substrate temperature, incident
    intensity); the `temperature > 0` guards of the code only skip adding zero -/
theorem rhs_linear (S : DStack ℝ) (T1 T2 : Nat → ℝ) (s1 s2 : ℝ) (I1 I2 : Nat → Nat → ℝ) (a b : ℝ)
    (ha : 0 ≤ a) (hb : 0 ≤ b) (h1 : ∀ l, 0 ≤ T1 l) (h2 : ∀ l, 0 ≤ T2 l) (l i v : Nat) :
    let S1 := withSources S T1 s1 I1
    let S2 := withSources S T2 s2 I2
    let S3 := withSources S (fun l => a * T1 l + b * T2 l) (a * s1 + b * s2) (fun p q => a * I1 p q + b * I2 p q)
    rhsTop S3 l i v = a * rhsTop S1 l i v + b * rhsTop S2 l i v ∧
    rhsBot S3 l i v = a * rhsBot S1 l i v + b * rhsBot S2 l i v := by
  intro S1 S2 S3
  have h3 : ∀ l, 0 ≤ a * T1 l + b * T2 l := fun l => add_nonneg (mul_nonneg ha (h1 l)) (mul_nonneg hb (h2 l))
  have t1 : ∀ l, tempOf S1 l = T1 l := fun l => tempOf_nonneg S T1 s1 I1 l (h1 l)
  have t2 : ∀ l, tempOf S2 l = T2 l := fun l => tempOf_nonneg S T2 s2 I2 l (h2 l)
  have t3 : ∀ l, tempOf S3 l = a * T1 l + b * T2 l := fun l => tempOf_nonneg S _ _ _ l (h3 l)
  constructor
  · simp only [rhsTop, t1, t2, t3]
    simp only [S1, S2, S3, withSources, commonRows]
    rw [cvMulMat_linear]
    split_ifs <;> ring
  · simp only [rhsBot, t1, t2, t3]
    simp only [S1, S2, S3, withSources, commonRows]
    split_ifs <;> ring

/-- **emerging_linear**: the emerging intensity is linear in (solution, temperature of the top layer, incident
    intensity) -/
theorem emerging_linear (S : DStack ℝ) (T1 T2 : Nat → ℝ) (s1 s2 : ℝ) (I1 I2 : Nat → Nat → ℝ) (a b : ℝ)
    (ha : 0 ≤ a) (hb : 0 ≤ b) (h1 : ∀ l, 0 ≤ T1 l) (h2 : ∀ l, 0 ≤ T2 l) (x1 x2 : Nat → Nat → ℝ) (i v : Nat) :
    let S1 := withSources S T1 s1 I1
    let S2 := withSources S T2 s2 I2
    let S3 := withSources S (fun l => a * T1 l + b * T2 l) (a * s1 + b * s2) (fun p q => a * I1 p q + b * I2 p q)
    emerging S3 (fun k w => a * x1 k w + b * x2 k w) i v = a * emerging S1 x1 i v + b * emerging S2 x2 i v := by
  intro S1 S2 S3
  have h3 : ∀ l, 0 ≤ a * T1 l + b * T2 l := fun l => add_nonneg (mul_nonneg ha (h1 l)) (mul_nonneg hb (h2 l))
  have t1 : tempOf S1 0 = T1 0 := tempOf_nonneg S T1 s1 I1 0 (h1 0)
  have t2 : tempOf S2 0 = T2 0 := tempOf_nonneg S T2 s2 I2 0 (h2 0)
  have t3 : tempOf S3 0 = a * T1 0 + b * T2 0 := tempOf_nonneg S _ _ _ 0 (h3 0)
  have hi1 : ∀ j w, i1up S3 (fun k w => a * x1 k w + b * x2 k w) j w = a * i1up S1 x1 j w + b * i1up S2 x2 j w := by
    intro j w
    simp only [i1up, t1, t2, t3]
    simp only [S1, S2, S3, withSources, transt]
    rw [sumN_eq_sum, sumN_eq_sum, sumN_eq_sum]
    have hsum : ∀ (g : Nat → ℝ) (n : Nat),
        ∑ k ∈ Finset.range n, g k * (a * x1 k w + b * x2 k w)
          = a * ∑ k ∈ Finset.range n, g k * x1 k w + b * ∑ k ∈ Finset.range n, g k * x2 k w := by
      intro g n
      rw [Finset.mul_sum, Finset.mul_sum, ← Finset.sum_add_distrib]
      apply Finset.sum_congr rfl; intro k _; ring
    rw [hsum]
    split_ifs <;> ring
  simp only [emerging]
  have e : (⟨(S3.lay 0).n * S3.npol, S3.nvec, i1up S3 (fun k w => a * x1 k w + b * x2 k w)⟩ : Mat ℝ)
      = ⟨(S.lay 0).n * S.npol, S.nvec, fun p q => a * i1up S1 x1 p q + b * i1up S2 x2 p q⟩ := by
    congr 1; funext j w; exact hi1 j w
  rw [e]
  simp only [S1, S2, S3, withSources]
  rw [cvMulMat_linear, cvMulMat_linear]
  ring

/-- **tb_linear**: if `x₁`, `x₂` solve the system for two sets of sources, `a x₁ + b x₂` solves it for the combined
    sources (same matrix), and the emerging intensity combines the same way; with an injective matrix the solver's
    output is therefore exactly linear in the layer, substrate and sky temperatures -/
theorem tb_linear (S : DStack ℝ) (T1 T2 : Nat → ℝ) (s1 s2 : ℝ) (I1 I2 : Nat → Nat → ℝ) (a b : ℝ)
    (ha : 0 ≤ a) (hb : 0 ≤ b) (h1 : ∀ l, 0 ≤ T1 l) (h2 : ∀ l, 0 ≤ T2 l) (x1 x2 : Nat → Nat → ℝ) (N v : Nat)
    (sol1 : ∀ r, r < N → sumN N (fun c => sysEntry S r c * x1 c v) = rhsEntry (withSources S T1 s1 I1) r v)
    (sol2 : ∀ r, r < N → sumN N (fun c => sysEntry S r c * x2 c v) = rhsEntry (withSources S T2 s2 I2) r v) :
    ∀ r, r < N → sumN N (fun c => sysEntry S r c * (a * x1 c v + b * x2 c v))
      = rhsEntry (withSources S (fun l => a * T1 l + b * T2 l) (a * s1 + b * s2) (fun p q => a * I1 p q + b * I2 p q)) r v := by
  intro r hr
  have lin := rhs_linear S T1 T2 s1 s2 I1 I2 a b ha hb h1 h2
  have hrhs : rhsEntry (withSources S (fun l => a * T1 l + b * T2 l) (a * s1 + b * s2) (fun p q => a * I1 p q + b * I2 p q)) r v
      = a * rhsEntry (withSources S T1 s1 I1) r v + b * rhsEntry (withSources S T2 s2 I2) r v := by
    have hE : ∀ (T : Nat → ℝ) (s : ℝ) (I : Nat → Nat → ℝ),
        rhsEntry (withSources S T s I) r v =
          if r - off S (layerOf S r) < (S.lay (layerOf S r)).n * S.npol
          then rhsTop (withSources S T s I) (layerOf S r) (r - off S (layerOf S r)) v
          else rhsBot (withSources S T s I) (layerOf S r) (r - off S (layerOf S r) - (S.lay (layerOf S r)).n * S.npol) v :=
      fun _ _ _ => rfl
    rw [hE, hE, hE]
    split_ifs with hc
    · exact (lin (layerOf S r) _ v).1
    · exact (lin (layerOf S r) _ v).2
  rw [hrhs, ← sol1 r hr, ← sol2 r hr, sumN_eq_sum, sumN_eq_sum, sumN_eq_sum, Finset.mul_sum, Finset.mul_sum,
      ← Finset.sum_add_distrib]
  apply Finset.sum_congr rfl; intro c _; ring

/-! ### atmosphere -/

/-- what `dort` does with a non-scattering atmosphere in passive mode -/
def atmCompose (tbUp trans I : ℝ) : ℝ := tbUp + trans * I

/-- **atmosphere_affine**: the brightness temperature above the atmosphere is `tb_up + transmittance × (surface
    emission + reflected tb_down)`, the two surface terms being the responses of the *same* linear system to the
    thermal sources and to the sky radiation -/
theorem atmosphere_affine (tbUp trans emission reflected : ℝ) :
    atmCompose tbUp trans (emission + reflected) = tbUp + trans * emission + trans * reflected := by
  unfold atmCompose; ring

/-- the full convexity claim (weights ≥ 0 also with volume scattering); asserted nowhere — the inverse-positivity of the
    normalised, stream-truncated discrete-ordinate operator is not proved here (DESIGN §6) -/
def convex_full : Prop :=
  ∀ (S : DStack ℝ) (x : Nat → Nat → ℝ) (i v : Nat),
    (∀ r, sumN (nUnknown S) (fun c => sysEntry S r c * x c v) = rhsEntry S r v) →
    (∀ l, 0 ≤ (S.lay l).temp) → 0 ≤ S.tsub → (∀ p q, 0 ≤ S.idown.f p q) → 0 ≤ emerging S x i v

end Smrt.Props.C03
