/-
  C16 — media stay well-formed under any sequence of construction and editing operations.
  Property theorems over the snowpack state machine of `SmrtVerif/Model/Snowpack.lean`.
-/
import SmrtVerif.Model.Snowpack
import SmrtVerif.Proofs.Snowpack
import Mathlib.Tactic.SplitIfs
import Mathlib.Tactic.Linarith
import Mathlib.Tactic.FieldSimp
import Mathlib.Tactic.Ring
import Mathlib.Data.Real.Basic

namespace Smrt.Props.C16
open Smrt Smrt.Snow

/-! ### well-formedness is an invariant of every operation, hence of every history -/

theorem addSP_inv (w : World) (a : Nat) (self : SP) (b : Operand) (hw : Snow.Inv w) (hs : self.wellFormed) :
    Snow.Inv (addSP w a self b).1 := by
  unfold addSP
  split
  · exact hw
  · split
    · exact hw
    · split
      · exact inv_append hw (by simpa [SP.wellFormed] using hs)
      · exact inv_append hw (by simp [SP.wellFormed] at hs ⊢; exact hs)
      · split
        · exact hw
        · rename_i o ho
          have := inv_get hw ho
          exact inv_append hw (by simp [SP.wellFormed] at hs this ⊢; omega)
      · exact hw

/-- one step preserves "as many interfaces as layers" for every snowpack object alive -/
theorem step_inv (w : World) (op : Op) (hw : Snow.Inv w) : Snow.Inv (step w op).1 := by
  cases op with
  | make ths tag0 nprop ifa surface sub atm =>
    simp only [step]
    split
    · exact hw
    · rename_i sp h; exact inv_append hw (makeSnowpack_wf h)
  | append id l k =>
    simp only [step]
    split
    · exact hw
    · rename_i s hs
      exact inv_set id hw (by have := inv_get hw hs; simp [SP.wellFormed] at this ⊢; exact this)
  | delete id i =>
    simp only [step]
    split
    · exact hw
    · rename_i s hs
      split_ifs with hi
      · refine inv_set id hw ?_
        have := inv_get hw hs
        simp only [SP.wellFormed] at this ⊢
        rw [List.length_eraseIdx, List.length_eraseIdx]
        simp [hi, ← this]
      · exact hw
  | deleteBottom id i =>
    simp only [step]
    split
    · exact hw
    · rename_i s hs
      split_ifs with hi
      · refine inv_set id hw ?_
        have := inv_get hw hs
        simp only [SP.wellFormed] at this ⊢
        simp [List.length_take, this]
      · exact hw
  | copy id cut =>
    simp only [step]
    split
    · exact hw
    · rename_i s hs
      have wf := inv_get hw hs
      split
      · exact inv_append hw wf
      · split_ifs
        · refine inv_append hw ?_
          simp only [SP.wellFormed] at wf ⊢
          simp [List.length_take, wf]
        · exact hw
  | deepcopy id =>
    simp only [step]
    split
    · exact hw
    · rename_i s hs; exact inv_append hw (inv_get hw hs)
  | add a b =>
    simp only [step]
    split
    · split
      · exact hw
      · rename_i self hself; exact addSP_inv w _ self b hw (inv_get hw hself)
    · split
      · split
        · exact hw
        · rename_i s hs
          have wf := inv_get hw hs
          exact inv_append hw (by simp [SP.wellFormed] at wf ⊢; exact wf)
      · exact hw
    · split
      · split_ifs <;> exact hw
      · exact hw
    · split
      · split
        · exact hw
        · rename_i s hs; exact inv_append hw (by have := inv_get hw hs; simpa [SP.wellFormed] using this)
      · exact hw
    · exact hw
    · exact hw
  | iadd id b =>
    simp only [step]
    split
    · exact hw
    · rename_i self hself
      have wf := inv_get hw hself
      split
      · exact hw
      · split
        · exact inv_set id hw (by simpa [SP.wellFormed] using wf)
        · exact inv_set id hw (by simp [SP.wellFormed] at wf ⊢; exact wf)
        · split
          · exact hw
          · rename_i o ho
            have wfo := inv_get hw ho
            exact inv_set id hw (by simp [SP.wellFormed] at wf wfo ⊢; omega)
        · exact hw

/-- **wellformed_reachable**: after *any* history (any length, any number of layers) every medium has as many
    interfaces as layers -/
theorem wellformed_reachable (ops : List Op) : Snow.Inv (run [] ops) := by
  suffices h : ∀ w, Snow.Inv w → Snow.Inv (run w ops) from h [] inv_nil
  induction ops with
  | nil => intro w hw; exact hw
  | cons op rest ih => intro w hw; exact ih _ (step_inv w op hw)

/-! ### operands of `+` (and every other medium) are unchanged by operations on other media -/

/-- the snowpack object an operation modifies in place, if any -/
def target : Op → Option Nat
  | .append id _ _ => some id
  | .delete id _ => some id
  | .deleteBottom id _ => some id
  | .iadd id _ => some id
  | _ => none

theorem addSP_frame (w : World) (a : Nat) (self : SP) (b : Operand) (id : Nat) (hid : id < w.length) :
    (addSP w a self b).1[id]? = w[id]? := by
  unfold addSP
  split
  · rfl
  · split
    · rfl
    · split
      · exact List.getElem?_append_left hid
      · exact List.getElem?_append_left hid
      · split
        · rfl
        · exact List.getElem?_append_left hid
      · rfl

/-- **frame**: a step changes no existing object other than its in-place target; `+`, `copy`, `deepcopy`,
    `make_*` change none at all (they only allocate) -/
theorem step_frame (w : World) (op : Op) (id : Nat) (hid : id < w.length) (hne : target op ≠ some id) :
    (step w op).1[id]? = w[id]? := by
  cases op with
  | make => simp only [step]; split; rfl; exact List.getElem?_append_left hid
  | append t l k =>
    simp only [step]; split; rfl
    have : t ≠ id := by intro h; exact hne (by simp [target, h])
    simp [List.getElem?_set_ne this]
  | delete t i =>
    simp only [step]; split; rfl
    have : t ≠ id := by intro h; exact hne (by simp [target, h])
    split_ifs <;> simp [List.getElem?_set_ne this]
  | deleteBottom t i =>
    simp only [step]; split; rfl
    have : t ≠ id := by intro h; exact hne (by simp [target, h])
    split_ifs <;> simp [List.getElem?_set_ne this]
  | copy t c =>
    simp only [step]; split; rfl
    split
    · exact List.getElem?_append_left hid
    · split_ifs
      · exact List.getElem?_append_left hid
      · rfl
  | deepcopy t => simp only [step]; split; rfl; exact List.getElem?_append_left hid
  | add a b =>
    simp only [step]
    split
    · split; rfl; exact addSP_frame w _ _ b id hid
    · split
      · split; rfl; exact List.getElem?_append_left hid
      · rfl
    · split
      · split_ifs <;> rfl
      · rfl
    · split
      · split; rfl; exact List.getElem?_append_left hid
      · rfl
    · rfl
    · rfl
  | iadd t b =>
    simp only [step]; split; rfl
    have : t ≠ id := by intro h; exact hne (by simp [target, h])
    split
    · rfl
    · split
      · simp [List.getElem?_set_ne this]
      · simp [List.getElem?_set_ne this]
      · split; rfl; simp [List.getElem?_set_ne this]
      · rfl

theorem addSP_length (w : World) (a : Nat) (self : SP) (b : Operand) : w.length ≤ (addSP w a self b).1.length := by
  unfold addSP
  split
  · exact le_refl _
  · split
    · exact le_refl _
    · split
      · simp
      · simp
      · split
        · exact le_refl _
        · simp
      · exact le_refl _

/-- the heap only grows: object identities stay valid -/
theorem step_length_mono (w : World) (op : Op) : w.length ≤ (step w op).1.length := by
  cases op with
  | make => simp only [step]; split; exact le_refl _; simp
  | append t l k => simp only [step]; split; exact le_refl _; simp
  | delete t i => simp only [step]; split; exact le_refl _; split_ifs <;> simp
  | deleteBottom t i => simp only [step]; split; exact le_refl _; split_ifs <;> simp
  | copy t c =>
    simp only [step]; split; exact le_refl _
    split
    · simp
    · split_ifs <;> simp
  | deepcopy t => simp only [step]; split; exact le_refl _; simp
  | add a b =>
    simp only [step]
    split
    · split; exact le_refl _; exact addSP_length w _ _ b
    · split
      · split; exact le_refl _; simp
      · exact le_refl _
    · split
      · split_ifs <;> exact le_refl _
      · exact le_refl _
    · split
      · split; exact le_refl _; simp
      · exact le_refl _
    · exact le_refl _
    · exact le_refl _
  | iadd t b =>
    simp only [step]; split; exact le_refl _
    split
    · exact le_refl _
    · split
      · simp
      · simp
      · split; exact le_refl _; simp
      · exact le_refl _

/-- **operands_unchanged**: after `c = a + b`, whatever is later done to `c` or to any medium other than `a`
    — any history that does not modify object `id` in place — leaves object `id` exactly as it was -/
theorem operands_unchanged (w : World) (ops : List Op) (id : Nat) (hid : id < w.length)
    (h : ∀ op ∈ ops, target op ≠ some id) : (run w ops)[id]? = w[id]? := by
  induction ops generalizing w with
  | nil => rfl
  | cons op rest ih =>
    have h1 := step_frame w op id hid (h op (by simp))
    have hl := step_length_mono w op
    simp only [run, List.foldl_cons] at ih ⊢
    rw [ih (step w op).1 (by omega) (fun o ho => h o (by simp [ho]))]
    exact h1

/-! ### `+` stacks the media in order; invalid combinations are refused -/

theorem thickness_append (a b : List Layer) :
    ((a ++ b).map (·.thickness)).foldl (· + ·) 0
      = (a.map (·.thickness)).foldl (· + ·) 0 + (b.map (·.thickness)).foldl (· + ·) 0 := by
  have gen : ∀ (l : List Int) (x : Int), l.foldl (· + ·) x = x + l.foldl (· + ·) 0 := by
    intro l; induction l with
    | nil => intro x; simp
    | cons h t ih => intro x; simp only [List.foldl_cons]; rw [ih (x + h), ih (0 + h)]; ring
  rw [List.map_append, List.foldl_append, gen]

/-- **add_stacks**: `a + b` of two snowpacks (top one without substrate, bottom one without atmosphere) is a *new*
    object whose layers and interfaces are those of `a` followed by those of `b`, in order; its thickness is the sum;
    it carries `b`'s substrate and `a`'s atmosphere -/
theorem add_stacks (w : World) (ia ib : Nat) (a b : SP) (ha : w[ia]? = some a) (hb : w[ib]? = some b)
    (hsub : a.substrate = none) (hatm : b.atmosphere = none) :
    step w (.add (.sp ia) (.sp ib)) =
      (w ++ [{ layers := a.layers ++ b.layers, ifaces := a.ifaces ++ b.ifaces,
               substrate := b.substrate, atmosphere := a.atmosphere }], .ok w.length) ∧
    ({ layers := a.layers ++ b.layers, ifaces := a.ifaces ++ b.ifaces,
       substrate := b.substrate, atmosphere := a.atmosphere } : SP).thickness = a.thickness + b.thickness := by
  refine ⟨?_, thickness_append _ _⟩
  simp [step, ha, addSP, checkAdd, hb, hsub, hatm]

/-- **invalid_combinations**: a second substrate, an atmosphere underneath, a top medium that has a substrate,
    a bottom medium that has an atmosphere, and a foreign operand all end in `SMRTError`, and the heap is untouched -/
theorem invalid_combinations (w : World) (ia : Nat) (a : SP) (ha : w[ia]? = some a) :
    (∀ t, a.substrate.isSome → step w (.add (.sp ia) (.substrate t)) = (w, .error .smrt)) ∧
    (∀ t, step w (.add (.sp ia) (.atmosphere t)) = (w, .error .smrt)) ∧
    (∀ t, step w (.iadd ia (.atmosphere t)) = (w, .error .smrt)) ∧
    (step w (.add (.sp ia) .other) = (w, .error .smrt)) ∧
    (∀ ib b, w[ib]? = some b → a.substrate.isSome → step w (.add (.sp ia) (.sp ib)) = (w, .error .smrt)) ∧
    (∀ ib b, w[ib]? = some b → b.atmosphere.isSome → step w (.add (.sp ia) (.sp ib)) = (w, .error .smrt)) ∧
    (∀ t, step w (.add (.substrate t) (.sp ia)) = (w, .error .smrt)) := by
  refine ⟨?_, ?_, ?_, ?_, ?_, ?_, ?_⟩
  · intro t h; simp [step, ha, addSP, checkAdd, h]
  · intro t; simp [step, ha, addSP, checkAdd]
  · intro t; simp [step, ha, checkAdd]
  · simp [step, ha, addSP, checkAdd]
  · intro ib b hb h; simp [step, ha, addSP, checkAdd, hb, h]
  · intro ib b hb h
    simp only [step, ha, addSP, checkAdd, hb]
    cases hs : a.substrate <;> simp [h]
  · intro t; simp [step]

/-! ### `make_snowpack`: broadcasting, dropped layers, array-length checks -/

/-- the layers `make_snowpack` keeps: positive thickness, original order, each with its own properties (tag) -/
def kept : List Int → Nat → List Layer
  | [], _ => []
  | dz :: rest, tag => if dz ≤ 0 then kept rest (tag + 1) else ⟨dz, tag⟩ :: kept rest (tag + 1)

theorem makeLoop_layers (ths : List Int) (i tag : Nat) (ifa : IfArg) (surface : Option IfKind) (sp sp' : SP)
    (h : makeLoop ths i tag ifa surface sp = .ok sp') :
    sp'.layers = sp.layers ++ kept ths tag ∧ sp'.substrate = sp.substrate ∧ sp'.atmosphere = sp.atmosphere := by
  induction ths generalizing i tag surface sp with
  | nil => simp [makeLoop] at h; subst h; simp [kept]
  | cons dz rest ih =>
    unfold makeLoop at h
    split_ifs at h with hdz
    · have := ih _ _ _ _ h; simp [kept, hdz, this]
    · split at h
      · cases h
      · have := ih _ _ _ _ h
        simp [kept, hdz, this]

/-- **make_spec**: when `make_snowpack` succeeds the medium consists of exactly the layers of positive thickness, in
    the order given, each with the properties of its own position (scalars are repeated); if none is left a single
    transparent zero-thickness layer stands in; substrate and atmosphere are as given -/
theorem make_spec {ths tag0 nprop ifa surface sub atm} {sp : SP}
    (h : makeSnowpack ths tag0 nprop ifa surface sub atm = .ok sp) :
    (kept ths tag0 ≠ [] → sp.layers = kept ths tag0) ∧
    (kept ths tag0 = [] → sp.layers = [⟨0, transparentTag⟩] ∧ sp.ifaces = [.transparent]) ∧
    sp.substrate = sub ∧ sp.atmosphere = atm := by
  unfold makeSnowpack at h
  split_ifs at h
  split at h
  · cases h
  · rename_i sp0 h0
    obtain ⟨hl, hs, ha⟩ := makeLoop_layers _ _ _ _ _ _ _ h0
    simp only [List.nil_append] at hl
    split_ifs at h with he <;> cases h
    · simp only [List.isEmpty_iff] at he
      refine ⟨fun hk => absurd (hl ▸ he) hk, fun _ => ⟨rfl, rfl⟩, hs, ha⟩
    · simp only [List.isEmpty_iff] at he
      refine ⟨fun _ => hl, fun hk => absurd (hl.trans hk) he, hs, ha⟩

/-- **length_mismatch**: a per-layer array or an interface list whose length differs from the thickness array, and
    `surface` together with an interface list, are refused with `SMRTError` -/
theorem length_mismatch (ths : List Int) (tag0 : Nat) (ifa : IfArg) (surface : Option IfKind) (sub atm : Option Nat) :
    (∀ n, n ≠ ths.length → makeSnowpack ths tag0 (some n) ifa surface sub atm = .error .smrt) ∧
    (∀ ks : List (Option IfKind), ks.length ≠ ths.length →
        makeSnowpack ths tag0 none (.list ks) surface sub atm = .error .smrt) ∧
    (∀ ks : List (Option IfKind), surface.isSome → makeSnowpack ths tag0 none (.list ks) surface sub atm = .error .smrt) := by
  refine ⟨?_, ?_, ?_⟩
  · intro n hn; simp [makeSnowpack, hn]
  · intro ks hk; simp [makeSnowpack, hk]
  · intro ks hs
    unfold makeSnowpack
    by_cases hk : ks.length = ths.length <;> simp [hk, hs]

/-! ### depth → thickness: the three documented conventions, everything else refused -/

theorem scanl_diffs (a : Int) (l : List Int) : List.scanl (· + ·) a (diffs (a :: l)) = a :: l := by
  induction l generalizing a with
  | nil => simp [diffs]
  | cons b t ih =>
    simp only [diffs, List.scanl_cons]
    have : a + (b - a) = b := by ring
    rw [this, ih b]

/-- **z_ascending**: positive, strictly increasing depths are the depths of the layer bottoms below the surface:
    the running sum of the returned thicknesses reproduces `z` -/
theorem z_ascending (z : List Int) (hne : z ≠ []) (hpos : z.all (· > 0) = true) (hasc : (diffs z).all (· > 0) = true) :
    ∃ t, thicknessFromZ z = .ok t ∧ List.scanl (· + ·) 0 t = 0 :: z := by
  have h0 : z.any (· == 0) = false := by
    rw [List.any_eq_false]; intro x hx
    have := List.all_eq_true.mp hpos x hx
    simp at this ⊢; omega
  have hdesc : (diffs z).all (· < 0) = false ∨ diffs z = [] := by
    cases hd : diffs z with
    | nil => right; rfl
    | cons d ds =>
      left
      rw [hd] at hasc
      simp only [List.all_cons, Bool.and_eq_true, decide_eq_true_eq] at hasc
      simp only [List.all_cons, Bool.and_eq_false_iff, decide_eq_false_iff_not]
      left; omega
  rcases hdesc with hd | hd
  · refine ⟨diffs (0 :: z), ?_, scanl_diffs 0 z⟩
    simp [thicknessFromZ, h0, hd, hasc, hpos]
  · -- a single depth: `np.diff` is empty, the code takes the "descending" branch, same result
    match z, hne with
    | [a], _ =>
      refine ⟨[a], ?_, by simp⟩
      simp only [List.all_cons, List.all_nil, Bool.and_true, decide_eq_true_eq] at hpos
      have ha : (a == 0) = false := by simp; omega
      simp [thicknessFromZ, diffs, ha, hpos]
    | a :: b :: r, _ => simp [diffs] at hd

/-- **z_refused**: a profile containing 0, or neither strictly increasing nor strictly decreasing, or increasing with
    a non-positive value, or decreasing with values of both signs, ends in `SMRTError` — never a number -/
theorem z_refused (z : List Int) :
    (z.any (· == 0) = true → thicknessFromZ z = .error .smrt) ∧
    ((diffs z).all (· < 0) = false → (diffs z).all (· > 0) = false → thicknessFromZ z = .error .smrt) ∧
    ((diffs z).all (· < 0) = false → z.all (· > 0) = false → thicknessFromZ z = .error .smrt) ∧
    ((diffs z).all (· < 0) = true → z.all (· > 0) = false → z.all (· < 0) = false → thicknessFromZ z = .error .smrt) := by
  refine ⟨?_, ?_, ?_, ?_⟩
  · intro h; simp [thicknessFromZ, h]
  · intro h1 h2; unfold thicknessFromZ; rw [h1, h2]; split_ifs <;> first | rfl | contradiction
  · intro h1 h2; unfold thicknessFromZ; rw [h1, h2]; split_ifs <;> first | rfl | contradiction
  · intro h1 h2 h3; unfold thicknessFromZ; rw [h1, h2, h3]; split_ifs <;> first | rfl | contradiction

theorem diffs_map_neg (l : List Int) : diffs (l.map (fun x => -x)) = (diffs l).map (fun x => -x) := by
  induction l with
  | nil => rfl
  | cons a t ih =>
    cases t with
    | nil => rfl
    | cons b r =>
      simp only [List.map_cons, diffs] at ih ⊢
      rw [ih]; congr 1; ring

theorem diffs_snoc (a : Int) (l : List Int) (x : Int) :
    diffs ((a :: l) ++ [x]) = diffs (a :: l) ++ [x - (a :: l).getLast (by simp)] := by
  induction l generalizing a with
  | nil => simp [diffs]
  | cons b t ih =>
    have := ih b
    simp only [List.cons_append, diffs] at this ⊢
    rw [this]; simp

/-- **z_thickness_positive**: whenever a thickness profile is returned, every thickness is strictly positive and
    there is one per depth — no layer is ever lost or given a negative thickness -/
theorem diffs_length (b : Int) (m : List Int) : (diffs (b :: m)).length = m.length := by
  induction m generalizing b with
  | nil => rfl
  | cons c r ih => simp [diffs, ih c]

theorem z_thickness_positive (z t : List Int) (h : thicknessFromZ z = .ok t) : (∀ x ∈ t, 0 < x) ∧ t.length = z.length := by
  unfold thicknessFromZ at h
  by_cases h0 : z.any (· == 0) = true
  · rw [if_pos h0] at h; cases h
  rw [if_neg h0] at h
  by_cases hdesc : (diffs z).all (· < 0) = true
  · rw [if_pos hdesc] at h
    by_cases hp : z.all (· > 0) = true
    · rw [if_pos hp] at h
      injection h with h; subst h
      -- descending, positive
      cases z with
      | nil => simp [diffs]
      | cons a l =>
        rw [diffs_map_neg, diffs_snoc]
        have hlast : 0 < (a :: l).getLast (by simp) := by
          have := List.all_eq_true.mp hp _ (List.getLast_mem (by simp : a :: l ≠ []))
          simpa using this
        constructor
        · intro x hx
          simp only [List.map_append, List.mem_append, List.mem_map] at hx
          rcases hx with ⟨y, hy, rfl⟩ | ⟨y, hy, rfl⟩
          · have := List.all_eq_true.mp hdesc y hy; simp at this; omega
          · simp at hy; subst hy; omega
        · simp [diffs_length]
    · rw [if_neg hp] at h
      by_cases hn : z.all (· < 0) = true
      · rw [if_pos hn] at h
        injection h with h; subst h
        cases z with
        | nil => simp at hp
        | cons a l =>
          have e : (0 :: a :: l).map (fun x => -x) = 0 :: ((a :: l).map (fun x => -x)) := by simp
          rw [e]
          have ha : a < 0 := by have := List.all_eq_true.mp hn a (by simp); simpa using this
          have hd : diffs (0 :: (a :: l).map (fun x => -x)) = (-a - 0) :: diffs ((a :: l).map (fun x => -x)) := by
            simp [diffs]
          rw [hd, diffs_map_neg]
          constructor
          · intro x hx
            simp only [List.mem_cons, List.mem_map] at hx
            rcases hx with rfl | ⟨y, hy, rfl⟩
            · omega
            · have := List.all_eq_true.mp hdesc y hy; simp at this; omega
          · simp [diffs_length]
      · rw [if_neg hn] at h; cases h
  · rw [if_neg hdesc] at h
    by_cases hasc : (diffs z).all (· > 0) = true
    · rw [if_pos hasc] at h
      by_cases hp2 : z.all (· > 0) = true
      · rw [if_pos hp2] at h
        injection h with h; subst h
        cases z with
        | nil => simp [diffs] at hdesc
        | cons a l =>
          have ha : 0 < a := by have := List.all_eq_true.mp hp2 a (by simp); simpa using this
          have hd : diffs (0 :: a :: l) = (a - 0) :: diffs (a :: l) := by simp [diffs]
          rw [hd]
          constructor
          · intro x hx
            simp only [List.mem_cons] at hx
            rcases hx with rfl | hy
            · omega
            · have := List.all_eq_true.mp hasc x hy; simpa using this
          · simp [diffs_length]
      · rw [if_neg hp2] at h; cases h
    · rw [if_neg hasc] at h; cases h

/-! ### volume fractions are consistent with density and water content -/

/-- **frac_volumes**: with `frac = (ρ − (ρw−ρi)·vlw)/ρi` and `lw = vlw/frac`:
    `frac·ρi + vlw·(ρw − ρi) = ρ` (mass balance) and `lw·frac = vlw`; and in the `liquid_water` form
    `frac·(ρi(1−lw) + ρw·lw) = ρ` -/
theorem frac_volumes (ρi ρw ρ vlw lw : ℝ) (hρi : ρi ≠ 0) :
    ((fracVolumesVLW ρi ρw ρ vlw).1 * ρi + vlw * (ρw - ρi) = ρ) ∧
    ((fracVolumesVLW ρi ρw ρ vlw).1 ≠ 0 → (fracVolumesVLW ρi ρw ρ vlw).2 * (fracVolumesVLW ρi ρw ρ vlw).1 = vlw) ∧
    (ρi * (1 - lw) + ρw * lw ≠ 0 → fracVolumeLW ρi ρw ρ lw * (ρi * (1 - lw) + ρw * lw) = ρ) := by
  refine ⟨?_, ?_, ?_⟩
  · simp only [fracVolumesVLW]; field_simp; ring
  · intro h; simp only [fracVolumesVLW] at h ⊢; exact div_mul_cancel₀ _ h
  · intro h; simp only [fracVolumeLW]; exact div_mul_cancel₀ _ h

/-- **clamp_below_one**: the rounding clamp never touches a fractional volume of at most one - a crust at 99.5 % of the density of
    ice keeps its 0.5 % of air -/
theorem clamp_below_one (f : ℝ) (h : f ≤ 1) : clampFrac f = f := by
  unfold clampFrac
  rw [if_neg]
  intro hh
  exact absurd hh.1 (not_lt.mpr h)

/-- **clamp_spec**: the clamp returns either its argument or (for arguments strictly between 1 and 1.01) exactly one -/
theorem clamp_spec (f : ℝ) : (clampFrac f = f ∧ ¬ (1 < f ∧ f < 1.01)) ∨ (clampFrac f = 1 ∧ 1 < f ∧ f < 1.01) := by
  unfold clampFrac
  by_cases h : 1 < f ∧ f < 1.01
  · right; rw [if_pos h]; exact ⟨rfl, h⟩
  · left; rw [if_neg h]; exact ⟨rfl, h⟩

/-- **compute_frac_volumes_range**: whatever `compute_frac_volumes` returns lies in `[0, 1]²`, the returned fractional volume is the
    mass-balance value unless that value exceeded one by less than 1 %, and a mass-balance value of at most one is returned unchanged -/
theorem compute_frac_volumes_range (f lw : ℝ) (r : ℝ × ℝ) (h : computeFracVolumes f lw = some r) :
    0 ≤ r.1 ∧ r.1 ≤ 1 ∧ 0 ≤ r.2 ∧ r.2 ≤ 1 ∧ r.2 = lw ∧ (f ≤ 1 → r.1 = f) ∧ (r.1 = f ∨ (r.1 = 1 ∧ 1 < f ∧ f < 1.01)) := by
  unfold computeFracVolumes at h
  simp only at h
  split at h
  · rename_i h1
    split at h
    · rename_i h2
      cases h
      refine ⟨h1.1, h1.2, h2.1, h2.2, rfl, fun hf => clamp_below_one f hf, ?_⟩
      rcases clamp_spec f with ⟨e, _⟩ | ⟨e, hh⟩
      · left; exact e
      · right; exact ⟨e, hh⟩
    · cases h
  · cases h

/-- a value above the clamp window, or negative, is refused -/
theorem compute_frac_volumes_refuses (f lw : ℝ) (h : 1.01 ≤ f ∨ f < 0) : computeFracVolumes f lw = none := by
  unfold computeFracVolumes clampFrac
  simp only
  rcases h with h | h
  · have : ¬ (1 < f ∧ f < 1.01) := fun hh => absurd hh.2 (not_lt.mpr h)
    rw [if_neg this, if_neg]
    intro hh
    have : (1.01 : ℝ) ≤ 1 := le_trans h hh.2
    norm_num at this
  · have : ¬ (1 < f ∧ f < 1.01) := fun hh => by linarith [hh.1]
    rw [if_neg this, if_neg]
    intro hh
    linarith [hh.1]

example : computeFracVolumes (0.995 : ℝ) 0 = some (0.995, 0) := by
  unfold computeFracVolumes clampFrac; norm_num
example : computeFracVolumes (1.0003 : ℝ) 0 = some (1, 0) := by
  unfold computeFracVolumes clampFrac; norm_num

/-! ### non-vacuity -/
example : thicknessFromZ [3, 2, 1] = .ok [1, 1, 1] ∧ thicknessFromZ [-1, -2, -4] = .ok [1, 1, 2] ∧
    thicknessFromZ [1, 2, 4] = .ok [1, 1, 2] ∧ thicknessFromZ [1, 3, 2] = .error .smrt ∧
    thicknessFromZ [2, 1, -1] = .error .smrt := by decide
/-- a three-step history that used to break the invariant (`delete_bottom`) and one that used to edit an operand -/
example : (run [] [.make [10, 20] 0 none .none none none none, .deleteBottom 0 1]) = [⟨[⟨10, 0⟩], [.flat], none, none⟩] := by decide
example : (run [] [.make [10] 0 none .none none none none, .add (.sp 0) (.substrate 7), .delete 1 0])[0]?
    = some ⟨[⟨10, 0⟩], [.flat], none, none⟩ := by decide

/-! ### derived depth views: functions of the layers the medium holds now -/

theorem foldl_eq_getLast_scanl (l : List Int) (a : Int) : (l.scanl (· + ·) a).getLast? = some (l.foldl (· + ·) a) := by
  induction l generalizing a with
  | nil => simp
  | cons x xs ih =>
    rw [List.scanl_cons, List.foldl_cons]
    have := ih (a + x)
    cases h : List.scanl (· + ·) (a + x) xs with
    | nil => rw [h] at this; simp at this
    | cons y ys => rw [h] at this; simpa [List.getLast?_cons_cons] using this

/-- one interface depth more than layers -/
theorem z_length (s : SP) : s.z.length = s.layers.length + 1 := by
  simp [SP.z, List.length_scanl]

theorem bottomDepths_length (s : SP) : s.bottomDepths.length = s.layers.length := by
  simp [SP.bottomDepths, z_length]

theorem topDepths_length (s : SP) : s.topDepths.length = s.layers.length := by
  simp [SP.topDepths, z_length]

/-- the deepest interface is at the total thickness of the layers the medium holds now -/
theorem z_last (s : SP) : s.z.getLast? = some s.thickness := by
  simp only [SP.z, SP.thickness]
  exact foldl_eq_getLast_scanl _ 0

/-- the first interface is the surface -/
theorem z_head (s : SP) : s.z.head? = some 0 := by
  simp only [SP.z]
  cases (s.layers.map (·.thickness)) <;> simp [List.scanl]


theorem scanl_lower (l : List Int) (a : Int) (h : ∀ x ∈ l, 0 < x) : ∀ y ∈ (l.scanl (· + ·) a), a ≤ y := by
  induction l generalizing a with
  | nil => intro y hy; simp at hy; omega
  | cons x xs ih =>
    intro y hy
    rw [List.scanl_cons] at hy
    rcases List.mem_cons.mp hy with h1 | h1
    · omega
    · have hx : 0 < x := h x (by simp)
      have := ih (a + x) (fun z hz => h z (by simp [hz])) y h1
      omega

/-- with positive layer thicknesses the interface depths increase strictly from the surface down -/
theorem z_increasing (s : SP) (hpos : ∀ l ∈ s.layers, 0 < l.thickness) : s.z.Pairwise (· < ·) := by
  simp only [SP.z]
  have hp : ∀ x ∈ s.layers.map (·.thickness), 0 < x := by
    intro x hx
    obtain ⟨l, hl, rfl⟩ := List.mem_map.mp hx
    exact hpos l hl
  generalize s.layers.map (·.thickness) = ts at hp
  generalize (0 : Int) = a
  induction ts generalizing a with
  | nil => simp
  | cons x xs ih =>
    rw [List.scanl_cons, List.pairwise_cons]
    refine ⟨?_, ih (fun z hz => hp z (by simp [hz])) (a + x)⟩
    intro y hy
    have hx : 0 < x := hp x (by simp)
    have := scanl_lower xs (a + x) (fun z hz => hp z (by simp [hz])) y hy
    omega


/-! ### the two definitions of the water content (wave 7: a conversion between the constructor's two arguments) -/

/-- the two documented definitions of the water content describe the same layer: a layer given by `liquid_water = lw` has fractional
    volume `f = fracVolumeLW …`; the volumetric water content of that layer is `lw * f`, and a layer given by *that* volumetric content
    gets the same fractional volume and reports the same `liquid_water` (what a conversion between the two arguments has to respect). -/
theorem water_definitions_agree (ρi ρw ρ lw : ℝ) (hD : ρi * (1 - lw) + ρw * lw ≠ 0) (hρi : ρi ≠ 0) (hρ : ρ ≠ 0) :
    fracVolumesVLW ρi ρw ρ (lw * fracVolumeLW ρi ρw ρ lw) = (fracVolumeLW ρi ρw ρ lw, lw) := by
  have hf : fracVolumeLW ρi ρw ρ lw ≠ 0 := by
    simp only [fracVolumeLW]; exact div_ne_zero hρ hD
  have h1 : (ρ - (ρw - ρi) * (lw * fracVolumeLW ρi ρw ρ lw)) / ρi = fracVolumeLW ρi ρw ρ lw := by
    simp only [fracVolumeLW]
    field_simp
    ring
  simp only [fracVolumesVLW]
  rw [h1]
  congr 1
  field_simp

/-- ... and the conversion `vlw = lw * ρ / ρi` (water over snow volume taken for water over ice volume) is not that one: a witness -/
example : fracVolumesVLW (917 : ℝ) 1000 300 (0.1 * 300 / 917) ≠ (fracVolumeLW 917 1000 300 0.1, 0.1) := by
  intro h
  have := congrArg Prod.fst h
  simp only [fracVolumesVLW, fracVolumeLW] at this
  norm_num at this

/-! ### depth-to-thickness conversion is scale covariant (wave 7: differences rounded to a fixed unit) -/

theorem diffs_scale (a : Int) : ∀ l : List Int, diffs (l.map (a * ·)) = (diffs l).map (a * ·)
  | [] => rfl
  | [_] => rfl
  | x :: y :: rest => by
    simp only [List.map, diffs]
    rw [← List.map_cons (f := (a * ·)) (a := y) (l := rest), diffs_scale a (y :: rest)]
    congr 1
    ring

theorem all_pos_scale (a : Int) (ha : 0 < a) (l : List Int) : (l.map (a * ·)).all (· > 0) = l.all (· > 0) := by
  induction l with
  | nil => rfl
  | cons x xs ih =>
    simp only [List.map, List.all_cons, ih]
    congr 1
    simp only [gt_iff_lt, decide_eq_decide]
    constructor
    · intro h; exact pos_of_mul_pos_right (by linarith : 0 < a * x) ha.le |> fun h' => h'
    · intro h; exact mul_pos ha h

theorem all_neg_scale (a : Int) (ha : 0 < a) (l : List Int) : (l.map (a * ·)).all (· < 0) = l.all (· < 0) := by
  induction l with
  | nil => rfl
  | cons x xs ih =>
    simp only [List.map, List.all_cons, ih]
    congr 1
    simp only [decide_eq_decide]
    constructor
    · intro h; by_contra hx; push_neg at hx; nlinarith [mul_nonneg ha.le hx]
    · intro h; nlinarith [mul_pos ha (neg_pos.mpr h)]

theorem any_zero_scale (a : Int) (ha : 0 < a) (l : List Int) : (l.map (a * ·)).any (· == 0) = l.any (· == 0) := by
  induction l with
  | nil => rfl
  | cons x xs ih =>
    simp only [List.map, List.any_cons, ih]
    congr 1
    simp only [beq_iff_eq, Bool.decide_eq_true, beq_eq_decide, decide_eq_decide]
    constructor
    · intro h; rcases Int.mul_eq_zero.mp h with h | h
      · omega
      · exact h
    · intro h; simp [h]

theorem neg_scale (a : Int) (l : List Int) : (l.map (a * ·)).map (fun x => -x) = (l.map (fun x => -x)).map (a * ·) := by
  simp only [List.map_map]; congr 1; funext x; simp [mul_neg]

/-- **depth-to-thickness conversion is scale covariant**: the same profile written in a unit `a` times smaller (every depth `a` times
    the number it was) gives `a` times the thicknesses, in each of the three conventions, and is refused exactly when the original is -
    no length is special (what a rounding of the differences to a fixed unit would break) -/
theorem thickness_from_z_scale (a : Int) (ha : 0 < a) (z : List Int) :
    thicknessFromZ (z.map (a * ·)) = (thicknessFromZ z).map (List.map (a * ·)) := by
  have e1 : ((z.map (a * ·)) ++ [0]).map (fun x => -x) = ((z ++ [0]).map (fun x => -x)).map (a * ·) := by
    have : (z.map (a * ·)) ++ [0] = (z ++ [0]).map (a * ·) := by simp
    rw [this, neg_scale]
  have e2 : (0 :: z.map (a * ·)).map (fun x => -x) = ((0 :: z).map (fun x => -x)).map (a * ·) := by
    have : (0 :: z.map (a * ·)) = (0 :: z).map (a * ·) := by simp
    rw [this, neg_scale]
  have e3 : (0 :: z.map (a * ·)) = (0 :: z).map (a * ·) := by simp
  unfold thicknessFromZ
  rw [any_zero_scale a ha, diffs_scale, all_neg_scale a ha, all_pos_scale a ha, all_pos_scale a ha, all_neg_scale a ha, e1, e2, e3,
    diffs_scale, diffs_scale, diffs_scale]
  split_ifs <;> rfl

example : thicknessFromZ ([87, 82, 69, 45, 30].map (3 * ·)) = .ok ([5, 13, 24, 15, 30].map (3 * ·)) := by decide

end Smrt.Props.C16
