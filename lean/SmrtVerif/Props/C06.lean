/-
  C06 — viewing-angle handling is exact, order-independent, never silently extrapolated.
  `K` is any linearly ordered field (ℝ for the code's doubles).
-/
import SmrtVerif.Model.Angles
import SmrtVerif.Proofs.Angles
import Mathlib.Tactic.Linarith
import Mathlib.Tactic.FieldSimp
import Mathlib.Tactic.Ring
import Mathlib.Tactic.Tauto
import Mathlib.Tactic.Positivity
import Mathlib.Data.Rat.Defs

set_option linter.unusedSectionVars false
set_option linter.unusedVariables false

namespace Smrt.Props.C06
open Smrt Smrt.Angles

variable {K : Type} [Field K] [LinearOrder K] [IsStrictOrderedRing K]

/-- **interp_at_nodes**: at the solver's own directions the interpolant returns the discrete solution -/
theorem interp_at_nodes (n : Nat) (xs ys : Nat → K) (h : StrictAsc n xs) (hn : 2 ≤ n) (i : Nat) (hi : i < n) :
    interp1d n xs ys (xs i) = ys i := by
  unfold interp1d
  rw [countLt_node h hi]
  rcases Nat.eq_zero_or_pos i with h0 | hpos
  · subst h0
    have : max 1 (min 0 (n - 1)) = 1 := by omega
    simp
  · have : max 1 (min i (n - 1)) = i := by omega
    simp only [this]
    have hd : xs i - xs (i - 1) ≠ 0 := by
      have := h (i - 1) i (by omega) hi
      exact ne_of_gt (sub_pos.mpr this)
    field_simp
    ring

/-- **no_extrapolation**: inside the node range the value is a convex combination of two *adjacent* nodes that bracket
    the abscissa — never a value outside their span, never an extrapolation -/
theorem interp_is_local_convex (n : Nat) (xs ys : Nat → K) (h : StrictAsc n xs) (hn : 2 ≤ n) (x : K)
    (hlo : xs 0 ≤ x) (hhi : x ≤ xs (n - 1)) :
    ∃ i t, 1 ≤ i ∧ i < n ∧ xs (i - 1) ≤ x ∧ x ≤ xs i ∧ 0 ≤ t ∧ t ≤ 1 ∧
      interp1d n xs ys x = (1 - t) * ys (i - 1) + t * ys i := by
  obtain ⟨hcn, hbelow, habove⟩ := countLt_spec h x
  set c := countLt n xs x with hc
  have hc1 : c ≤ n - 1 := by
    by_contra hgt
    have : xs (n - 1) < x := hbelow (n - 1) (by omega)
    exact absurd this (not_lt.mpr hhi)
  let i := max 1 (min c (n - 1))
  have hi1 : 1 ≤ i := by simp [i]
  have hin : i < n := by simp only [i]; omega
  have hxi : x ≤ xs i := by
    have : c ≤ i := by simp only [i]; omega
    exact not_lt.mp (habove i this hin)
  have hxl : xs (i - 1) ≤ x := by
    rcases Nat.eq_zero_or_pos c with h0 | hp
    · have : i = 1 := by simp only [i]; omega
      rw [this]; exact hlo
    · have : i = c := by simp only [i]; omega
      rw [this]; exact (hbelow (c - 1) (by omega)).le
  have hd : 0 < xs i - xs (i - 1) := sub_pos.mpr (h (i - 1) i (by omega) hin)
  refine ⟨i, (x - xs (i - 1)) / (xs i - xs (i - 1)), hi1, hin, hxl, hxi, ?_, ?_, ?_⟩
  · exact div_nonneg (sub_nonneg.mpr hxl) hd.le
  · rw [div_le_one hd]; linarith
  · show (ys i - ys (i - 1)) / (xs i - xs (i - 1)) * (x - xs (i - 1)) + ys (i - 1) = _
    field_simp; ring

/-- reversing a strictly descending array of `n` nodes gives a strictly ascending one -/
theorem rev_strictAsc (n : Nat) (mu : Nat → K) (hdesc : ∀ i j, i < j → j < n → mu j < mu i) : StrictAsc n (rev n mu) := by
  intro i j hij hj
  simp only [rev]
  exact hdesc (n - 1 - j) (n - 1 - i) (by omega) (by omega)

theorem insert0_desc (n : Nat) (mu : Nat → K) (hdesc : ∀ i j, i < j → j < n → mu j < mu i) (h1 : ∀ i, i < n → mu i < 1) :
    ∀ i j, i < j → j < n + 1 → insert0 (1 : K) mu j < insert0 (1 : K) mu i := by
  intro i j hij hj
  simp only [insert0]
  have hj0 : j ≠ 0 := by omega
  rw [if_neg hj0]
  split_ifs with hi0
  · exact h1 (j - 1) (by omega)
  · exact hdesc (i - 1) (j - 1) (by omega) (by omega)

/-- **nadir**: with the nadir node inserted, the value at `μ = 1` is the inserted value for every component; in passive
    mode that value is the same for V and H — the mean of the first direction — and lies between them -/
theorem nadir_value (n : Nat) (mu v : Nat → K) (nadir : K) (hn : 1 ≤ n)
    (hdesc : ∀ i j, i < j → j < n → mu j < mu i) (h1 : ∀ i, i < n → mu i < 1) :
    viewOne n mu v true nadir 1 = nadir := by
  simp only [viewOne, if_true]
  have hasc := rev_strictAsc (n + 1) (insert0 (1 : K) mu) (insert0_desc n mu hdesc h1)
  have := interp_at_nodes (n + 1) (rev (n + 1) (insert0 1 mu)) (rev (n + 1) (insert0 nadir v)) hasc (by omega) n (by omega)
  simp only [rev, insert0] at this ⊢
  simpa using this

theorem nadir_vh_equal_within (n : Nat) (mu iv ih : Nat → K) (hn : 1 ≤ n)
    (hdesc : ∀ i j, i < j → j < n → mu j < mu i) (h1 : ∀ i, i < n → mu i < 1) :
    let comps := passiveComps iv ih (1 / 2 : K)
    (∀ c ∈ comps, viewOne n mu c.1 true c.2 1 = (iv 0 + ih 0) * (1 / 2)) ∧
    min (iv 0) (ih 0) ≤ (iv 0 + ih 0) * (1 / 2) ∧ (iv 0 + ih 0) * (1 / 2) ≤ max (iv 0) (ih 0) := by
  refine ⟨?_, ?_, ?_⟩
  · intro c hc
    simp only [passiveComps, List.mem_cons, List.mem_nil_iff, or_false] at hc
    rcases hc with rfl | rfl <;> exact nadir_value n mu _ _ hn hdesc h1
  · rcases le_total (iv 0) (ih 0) with h | h <;> simp [h] <;> linarith
  · rcases le_total (iv 0) (ih 0) with h | h <;> simp [h] <;> linarith

/-- **nadir_insertion_local**: inserting the nadir node does not change the value at any cosine up to the first stream,
    so the value reported for such an angle does not depend on whether a companion angle forced the insertion -/
theorem nadir_insertion_local (n : Nat) (mu v : Nat → K) (nadir : K) (hn : 2 ≤ n)
    (hdesc : ∀ i j, i < j → j < n → mu j < mu i) (h1 : ∀ i, i < n → mu i < 1) (m : K) (hm : m ≤ mu 0) :
    viewOne n mu v true nadir m = viewOne n mu v false nadir m := by
  simp only [viewOne, if_true, Bool.false_eq_true, if_false]
  unfold interp1d
  -- below index n the augmented arrays coincide with the original ones
  have eqf : ∀ (f : Nat → K) (a : K) (j : Nat), j < n → rev (n + 1) (insert0 a f) j = rev n f j := by
    intro f a j hj
    simp only [rev, insert0]
    have h0 : n + 1 - 1 - j ≠ 0 := by omega
    have e : n + 1 - 1 - j - 1 = n - 1 - j := by omega
    rw [if_neg h0, e]
  -- the count of nodes below m is the same with and without the extra (largest) node
  have hcount : countLt (n + 1) (rev (n + 1) (insert0 (1 : K) mu)) m = countLt n (rev n mu) m := by
    unfold countLt
    rw [List.range_succ, List.filter_append]
    have hlast : ¬ (rev (n + 1) (insert0 (1 : K) mu) n < m) := by
      simp only [rev, insert0]
      have : n + 1 - 1 - n = 0 := by omega
      rw [this]; simp
      exact le_trans hm (h1 0 (by omega)).le
    have hsame : (List.range n).filter (fun i => decide (rev (n + 1) (insert0 (1 : K) mu) i < m))
        = (List.range n).filter (fun i => decide (rev n mu i < m)) := by
      apply List.filter_congr
      intro i hi
      have hi' : i < n := List.mem_range.mp hi
      rw [eqf mu 1 i hi']
    simp [hsame, hlast]
  have hasc := rev_strictAsc n mu hdesc
  obtain ⟨hcn, hbelow, habove⟩ := countLt_spec hasc m
  have hc1 : countLt n (rev n mu) m ≤ n - 1 := by
    by_contra hgt
    have : rev n mu (n - 1) < m := hbelow (n - 1) (by omega)
    simp only [rev] at this
    have e : n - 1 - (n - 1) = 0 := by omega
    rw [e] at this
    exact absurd this (not_lt.mpr hm)
  rw [hcount]
  set c := countLt n (rev n mu) m
  have hidx : max 1 (min c (n + 1 - 1)) = max 1 (min c (n - 1)) := by omega
  rw [hidx]
  set i := max 1 (min c (n - 1))
  have hi1 : 1 ≤ i := by simp [i]
  have hin : i < n := by simp only [i]; omega
  show (rev (n + 1) (insert0 nadir v) i - rev (n + 1) (insert0 nadir v) (i - 1)) /
          (rev (n + 1) (insert0 1 mu) i - rev (n + 1) (insert0 1 mu) (i - 1)) *
        (m - rev (n + 1) (insert0 1 mu) (i - 1)) + rev (n + 1) (insert0 nadir v) (i - 1)
      = (rev n v i - rev n v (i - 1)) / (rev n mu i - rev n mu (i - 1)) * (m - rev n mu (i - 1)) + rev n v (i - 1)
  rw [eqf mu 1 i hin, eqf mu 1 (i - 1) (by omega), eqf v nadir i hin, eqf v nadir (i - 1) (by omega)]

/-- **out_of_range**: a requested cosine below the last stream makes `solve` raise `SMRTError` — no value is returned -/
theorem out_of_range_raises (n : Nat) (mu : Nat → K) (comps : List ((Nat → K) × K)) (k : Nat) (req : Nat → K)
    (h : minN k req < minN n mu) : solveComps n mu comps k req = .error .smrt := by
  simp [solveComps, h]

/-! ### order independence: sorting the requested cosines and un-sorting the values is the identity -/

theorem mem_insertIdx {α : Type} [LT α] [DecidableRel (fun a b : α => a < b)] (key : Nat → α) (j x : Nat) (l : List Nat) :
    x ∈ insertIdx key j l ↔ x = j ∨ x ∈ l := by
  induction l with
  | nil => simp [insertIdx]
  | cons a t ih =>
    simp only [insertIdx]
    split_ifs
    · simp
    · simp only [List.mem_cons, ih]; tauto

theorem mem_argsort {α : Type} [LT α] [DecidableRel (fun a b : α => a < b)] (key : Nat → α) (k j : Nat) (hj : j < k) :
    j ∈ argsort k key := by
  unfold argsort
  suffices h : ∀ (n : Nat) (acc : List Nat), (j < n ∨ j ∈ acc) → j ∈ (List.range n).foldl (fun acc j => insertIdx key j acc) acc by
    exact h k [] (Or.inl hj)
  intro n
  induction n with
  | zero => intro acc h; rcases h with h | h; omega; simpa using h
  | succ n ih =>
    intro acc h
    rw [List.range_succ, List.foldl_append]
    simp only [List.foldl_cons, List.foldl_nil]
    rw [mem_insertIdx]
    by_cases hjn : j = n
    · left; exact hjn
    · right; apply ih; rcases h with h | h
      · left; omega
      · right; exact h

theorem getD_map_posOf {β : Type} (f : Nat → β) (d : β) (order : List Nat) (j : Nat) (hj : j ∈ order) :
    (order.map f).getD (posOf order j) d = f j := by
  induction order with
  | nil => cases hj
  | cons a t ih =>
    unfold posOf
    by_cases ha : a = j
    · subst ha; simp
    · have hne : (decide (a ≠ j)) = true := by simp [ha]
      rw [List.takeWhile_cons, if_pos hne]
      have : j ∈ t := by rcases List.mem_cons.mp hj with h | h; exact absurd h.symm ha; exact h
      simpa [posOf] using ih this

/-- **order_independent / coords_roundtrip**: when no angle is out of range, the value returned at position `j` of the
    request is the interpolated value for `req j` — whatever the order of the request and whatever the other angles are
    (the only thing companions decide, the nadir insertion, is harmless by `nadir_insertion_local`) -/
theorem solve_pointwise (n : Nat) (mu : Nat → K) (comps : List ((Nat → K) × K)) (k : Nat) (req : Nat → K)
    (h : ¬ minN k req < minN n mu) :
    solveComps n mu comps k req =
      .ok ((List.range k).map (fun j =>
        comps.map (fun c => viewOne n mu c.1 (decide (maxN n mu < maxN k req)) c.2 (req j)))) := by
  simp only [solveComps, if_neg h]
  congr 1
  apply List.map_congr_left
  intro j hj
  exact getD_map_posOf _ _ _ j (mem_argsort req k j (List.mem_range.mp hj))

/-! ### active mode: the streams lit for an incidence angle bracket it -/

/-- **bracket_included**: for every incidence cosine, the stream just above and the stream just below it (or the
    single end stream) are lit, so the backscatter at that angle is interpolated within its own bracket -/
theorem bracket_included (n : Nat) (outmu : Nat → K) (hn : 1 ≤ n) (hdesc : ∀ i j, i < j → j < n → outmu j < outmu i) (m : K) :
    let i0 := streamIndex n outmu m
    (i0 = 0 → bracket n outmu m = [0] ∧ ¬ m < outmu 0) ∧
    (i0 = n → bracket n outmu m = [n - 1] ∧ m < outmu (n - 1)) ∧
    (0 < i0 → i0 < n → bracket n outmu m = [i0 - 1, i0] ∧ m < outmu (i0 - 1) ∧ ¬ m < outmu i0) := by
  -- `streamIndex` counts the streams above m; on a descending array this is a threshold predicate
  have hasc : StrictAsc n (fun i => - outmu i) := by
    intro i j hij hj; simp only; exact neg_lt_neg (hdesc i j hij hj)
  have hcnt : streamIndex n outmu m = countLt n (fun i => - outmu i) (- m) := by
    unfold streamIndex countLt
    congr 1
    apply List.filter_congr
    intro i _
    simp
  obtain ⟨hcn, hbelow, habove⟩ := countLt_spec hasc (- m)
  rw [← hcnt] at hcn hbelow habove
  simp only [neg_lt_neg_iff] at hbelow habove
  refine ⟨?_, ?_, ?_⟩
  · intro h0
    refine ⟨by simp [bracket, h0], ?_⟩
    exact habove 0 (by omega) (by omega)
  · intro hN
    refine ⟨?_, hbelow (n - 1) (by omega)⟩
    simp only [bracket, hN]
    have : n ≠ 0 := by omega
    simp [this]
  · intro hp hl
    refine ⟨?_, hbelow _ (by omega), habove _ (le_refl _) hl⟩
    simp only [bracket]
    have h1 : streamIndex n outmu m ≠ 0 := by omega
    have h2 : streamIndex n outmu m ≠ n := by omega
    simp [h1, h2]

/-! ### non-vacuity -/
example : StrictAsc 3 (fun i => ((i : ℚ) + 1) / 4) := by
  intro i j hij hj; simp only; have : (i : ℚ) < j := by exact_mod_cast hij
  linarith
example : ∀ i j : Nat, i < j → j < 3 → ((3 - (j : ℚ)) / 4) < ((3 - (i : ℚ)) / 4) ∧ ((3 - (i : ℚ)) / 4) < 1 := by
  intro i j hij hj
  have : (i : ℚ) < j := by exact_mod_cast hij
  have : (0 : ℚ) ≤ i := by positivity
  constructor <;> linarith

end Smrt.Props.C06
