/-
  C18 — altimeter waveforms are non-negative, additive and sampling-consistent.
  Property theorems only (helper lemmas live in SmrtVerif/Proofs/Altimetry.lean).  The scalar type is ℝ (rounding is not
  modelled).  `solve`, `waveRows`, `vsdContrib`, … are the executable model of `smrt/rtsolver/nadir_lrm_altimetry.py`
  (SmrtVerif/Model/Altimetry.lean); the emmodel / interface scalars, the gate depths and the PFS⊗PTR⊗PDF vector are inputs.

  Not decided here (DESIGN §6): convergence of the echo energy with over-sampling / incidence sampling, and the agreement of
  the analytic PFS⊗PTR (erf form) with its numerical counterpart.

  Known finding mirrored by the model: `theta_inc_sampling > 1` with `return_theta_inc_sampling` or `skip_pfs_convolution`
  raises ValueError in the code (`solve_raises_with_return_theta_inc_sampling`), so the additivity statement over the whole
  option space (`contributions_additive_full`) is false and is proved on the combinations on which the solver returns.
-/
import SmrtVerif.Model.Altimetry
import SmrtVerif.Proofs.Altimetry

namespace Smrt.Props.C18
open Smrt Smrt.Altimetry

/-! ### non-negativity -/

/-- every row `vertical_scattering_distribution` produces (both forms) is ≥ 0, for non-negative backward phase values and
    interface echoes, positive extinction and permittivity, any transmissions, on a grid with non-negative sub-gate thicknesses -/
theorem vsd_nonneg (s : Stack ℝ) (hs : s.Valid) (tags : List Tag) (dz : List ℝ) (hdz : ∀ d ∈ dz, 0 ≤ d) (nmu : Nat) :
    (∀ r ∈ vsdContrib s tags dz nmu, ∀ x ∈ r, 0 ≤ x) ∧ (∀ x ∈ vsdTotal s tags dz, 0 ≤ x) :=
  ⟨nonneg_vsdContrib hs tags hdz nmu, nonneg_vsdTotal hs tags hdz⟩

/-- every array `solve` returns (total, or surface / interfaces / volume / total; over-sampled or gate-averaged; convolved or
    not; one or several incidence samples) is ≥ 0 when moreover the PFS⊗PTR⊗PDF vector is ≥ 0.
    `_hhead` is the code's own guard (the grid starts with the surface, otherwise `fill_forward` yields NaN); the proof does
    not need it because `0/0 = 0` in ℝ — it is kept so that the statement does not rest on that totalisation. -/
theorem waveform_nonneg (o : Opts) (inp : Input ℝ) (hs : inp.stack.Valid) (hp : ∀ x ∈ inp.pfs, 0 ≤ x)
    (hdz : ∀ d ∈ gridDz inp, 0 ≤ d) (_hhead : (gridTags inp).head? = some Tag.lay)
    (rows : List (List ℝ)) (z : List ℝ) (h : solve o inp = .ok (rows, z)) : ∀ r ∈ rows, ∀ x ∈ r, 0 ≤ x := by
  have hw := nonneg_waveRows o inp hs hp hdz
  unfold solve at h
  split at h
  · cases h
  · split at h
    · cases h
    · split at h
      · split at h
        · rename_i s i v hrows
          simp only [Except.ok.injEq, Prod.mk.injEq] at h
          obtain ⟨rfl, _⟩ := h
          have hs' : Nonneg s := hw s (by simp [hrows])
          have hi' : Nonneg i := hw i (by simp [hrows])
          have hv' : Nonneg v := hw v (by simp [hrows])
          intro r hr
          simp only [List.mem_cons, List.not_mem_nil, or_false] at hr
          rcases hr with rfl | rfl | rfl | rfl
          · exact hs'
          · exact hi'
          · exact hv'
          · exact nonneg_vadd (nonneg_vadd hs' hi') hv'
        · cases h
      · simp only [Except.ok.injEq, Prod.mk.injEq] at h
        obtain ⟨rfl, _⟩ := h
        exact hw

/-! ### no source, no waveform -/

/-- without volume scattering (zero backward phase value in every layer) and without interface or substrate echo, every
    returned array is identically zero — for every option combination on which the solver returns -/
theorem zero_without_sources (o : Opts) (inp : Input ℝ) (hs : inp.stack.NoSource)
    (rows : List (List ℝ)) (z : List ℝ) (h : solve o inp = .ok (rows, z)) : ∀ r ∈ rows, ∀ x ∈ r, x = 0 := by
  have hw := isZero_waveRows o inp hs
  unfold solve at h
  split at h
  · cases h
  · split at h
    · cases h
    · split at h
      · split at h
        · rename_i s i v hrows
          simp only [Except.ok.injEq, Prod.mk.injEq] at h
          obtain ⟨rfl, _⟩ := h
          have hs' : IsZero s := hw s (by simp [hrows])
          have hi' : IsZero i := hw i (by simp [hrows])
          have hv' : IsZero v := hw v (by simp [hrows])
          intro r hr
          simp only [List.mem_cons, List.not_mem_nil, or_false] at hr
          rcases hr with rfl | rfl | rfl | rfl
          · exact hs'
          · exact hi'
          · exact hv'
          · exact isZero_vadd (isZero_vadd hs' hi') hv'
        · cases h
      · simp only [Except.ok.injEq, Prod.mk.injEq] at h
        obtain ⟨rfl, _⟩ := h
        exact hw

/-! ### contributions add up, and to the waveform computed without separating them -/

/-- `vertical_scattering_distribution`: surface + interfaces + volume rows = the row of the non-separating path -/
theorem vsd_contributions_additive (s : Stack ℝ) (tags : List Tag) (dz : List ℝ) (hdz : dz.length + 1 = tags.length) :
    ∃ S I V : List ℝ, vsdContrib s tags dz 1 = [S, I, V] ∧ vsdTotal s tags dz = vadd (vadd S I) V
      ∧ S.length = I.length ∧ I.length = V.length :=
  vsd_additive s tags dz hdz

/-- discrete full convolution is additive in the backscatter profile (bilinearity, second argument) -/
theorem convolution_additive (p a b : List ℝ) (h : a.length = b.length) : conv p (vadd a b) = vadd (conv p a) (conv p b) :=
  conv_vadd p a b h

/-- gate aggregation (`cumsum`, gate mask, `diff`) is additive -/
theorem gate_aggregation_additive (a b : List ℝ) (m : List Bool) : gateAgg (vadd a b) m = vadd (gateAgg a m) (gateAgg b m) :=
  gateAgg_vadd a b m

/-- **contributions_additive**, on every option combination on which the solver returns a value
    (`¬ (theta_inc_sampling > 1 ∧ effective return_theta_inc_sampling)`; `theta_inc_sampling` a divisor of `ngate` when > 1):
    with `return_contributions=True` the result is `[surface, interfaces, volume, surface + interfaces + volume]`, and the
    same call with `return_contributions=False` returns exactly that total (same `z_gate`) — whatever `oversampling`,
    `return_oversampled`, `skip_pfs_convolution`, `theta_inc_sampling` are. -/
theorem contributions_additive_partial (o : Opts) (inp : Input ℝ) (hzl : inp.zl ≠ [])
    (hdiv : ¬ (1 < o.tis ∧ inp.ngate % o.tis ≠ 0)) (hok : ¬ (1 < o.tis ∧ o.rtEff = true)) :
    ∃ s i v : List ℝ,
      solve { o with rc := true } inp = .ok ([s, i, v, vadd (vadd s i) v], zGateOut o inp)
      ∧ solve { o with rc := false } inp = .ok ([vadd (vadd s i) v], zGateOut o inp) := by
  obtain ⟨s, i, v, h1, h0⟩ := waveRows_additive o inp hok (grid_dz_length inp hzl)
  refine ⟨s, i, v, ?_, ?_⟩
  · have c1 : (decide (1 < o.tis) && inp.ngate % o.tis != 0) = false := by
      by_cases ht : 1 < o.tis
      · have : inp.ngate % o.tis = 0 := by
          by_contra hne; exact hdiv ⟨ht, hne⟩
        simp [this]
      · simp [ht]
    have c2 : (decide (1 < o.tis) && o.rtEff) = false := by
      by_cases ht : 1 < o.tis
      · cases hr : o.rtEff with
        | false => simp
        | true => exact absurd ⟨ht, hr⟩ hok
      · simp [ht]
    have c2' : (decide (1 < o.tis) && ({ o with rc := true } : Opts).rtEff) = false := c2
    simp only [solve, c1, c2', Bool.false_eq_true, if_false, if_true, h1]
    rfl
  · have c1 : (decide (1 < o.tis) && inp.ngate % o.tis != 0) = false := by
      by_cases ht : 1 < o.tis
      · have : inp.ngate % o.tis = 0 := by
          by_contra hne; exact hdiv ⟨ht, hne⟩
        simp [this]
      · simp [ht]
    have c2 : (decide (1 < o.tis) && ({ o with rc := false } : Opts).rtEff) = false := by
      show (decide (1 < o.tis) && o.rtEff) = false
      by_cases ht : 1 < o.tis
      · cases hr : o.rtEff with
        | false => simp
        | true => exact absurd ⟨ht, hr⟩ hok
      · simp [ht]
    simp only [solve, c1, c2, Bool.false_eq_true, if_false, h0]
    rfl

/-- the statement over the *whole* option space (asserted nowhere): false for the code, see the `example` below -/
def contributions_additive_full : Prop :=
  ∀ (o : Opts) (inp : Input ℝ), inp.zl ≠ [] → ¬ (1 < o.tis ∧ inp.ngate % o.tis ≠ 0) →
    ∃ s i v : List ℝ, ∃ z : List ℝ,
      solve { o with rc := true } inp = .ok ([s, i, v, vadd (vadd s i) v], z)
      ∧ solve { o with rc := false } inp = .ok ([vadd (vadd s i) v], z)

/-- known finding (DESIGN §5 #19): for `theta_inc_sampling > 1` with `return_theta_inc_sampling` or `skip_pfs_convolution`
    (which forces it) the solver raises ValueError — on every input, whatever the other options -/
theorem solve_raises_with_return_theta_inc_sampling (o : Opts) (inp : Input ℝ) (ht : 1 < o.tis)
    (hdiv : inp.ngate % o.tis = 0) (hrt : o.rt = true ∨ o.sk = true) : solve o inp = .error .value := by
  have hr : o.rtEff = true := by
    rcases hrt with h | h <;> cases hs : o.sk <;> cases hr : o.rt <;> simp_all [Opts.rtEff, Nat.not_le.2 ht]
  simp [solve, ht, hdiv, hr]

/-- refutation of the full statement by a crashing combination -/
example : ¬ contributions_additive_full := by
  intro h
  obtain ⟨s, i, v, z, h1, _⟩ := h ⟨1, 2, false, false, false, true⟩
    ⟨2, 1, [0, 1], [0, 2], ⟨[1], [1], [0], [1], [[0], [0], [0]], none⟩, [1, 1]⟩ (by simp) (by simp)
  have := solve_raises_with_return_theta_inc_sampling ⟨1, 2, true, false, false, true⟩
    ⟨2, 1, [0, 1], [0, 2], ⟨[1], [1], [0], [1], [[0], [0], [0]], none⟩, [1, 1]⟩ (by simp) (by simp) (Or.inl rfl)
  rw [this] at h1
  cases h1

/-! ### sampling consistency -/

/-- `downsample_is_gate_mean`: with `oversampling > 1` the returned row is, gate by gate, the mean of the `oversampling`
    sub-gates of the row returned with `return_oversampled=True` -/
theorem downsample_is_gate_mean (o : Opts) (ngate : Nat) (row : List ℝ) (hos : 1 < o.oversampling)
    (hlen : ngate * o.oversampling ≤ row.length) (g : Nat) (hg : g < ngate) :
    (finish { o with ro := false } ngate row)[g]?
      = some (lsum (((finish { o with ro := true } ngate row).drop (g * o.oversampling)).take o.oversampling) / (o.oversampling : ℝ)) := by
  have h1 : finish { o with ro := false } ngate row = downsample o.oversampling ngate (row.take (ngate * o.oversampling)) := by
    simp [finish, hos]
  have h2 : finish { o with ro := true } ngate row = row.take (ngate * o.oversampling) := by
    simp [finish]
  rw [h1, h2]
  apply downsample_getElem? _ _ (by omega) _ _ hg
  rw [List.length_take, Nat.min_eq_left hlen]
  exact Nat.mul_lt_mul_of_pos_right hg (by omega)

/-- the entry of a down-sampled row, in terms of the over-sampled array itself (any array, any fuel ≥ gate index) -/
theorem resample_consistent (os fuel : Nat) (hos : 0 < os) (w : List ℝ) (g : Nat) (hg : g < fuel) (hw : g * os < w.length) :
    (downsample os fuel w)[g]? = some (lsum ((w.drop (g * os)).take os) / (os : ℝ)) :=
  downsample_getElem? os fuel hos w g hg hw

/-! ### Beer–Lambert -/

/-- `beer_lambert_telescopes`: a homogeneous layer (extinction `κ ≠ 0`, backscatter `γ`, interface attenuation `A`) cut into
    *any* sub-gates `dz`: the analytically integrated, attenuated sub-gate backscatters sum to the closed two-way form
    `A γ (1 − e^{−2κD}) / (2κ)`, `D = Σ dz` -/
theorem beer_lambert_telescopes (κ γ A : ℝ) (hκ : κ ≠ 0) (dz : List ℝ) :
    lsum (subgateVolume (List.replicate dz.length κ) (List.replicate dz.length γ) dz (List.replicate dz.length A))
      = A * γ * (1 - Real.exp (-(2 * κ * lsum dz))) / (2 * κ) := by
  have h := beer_lambert_aux κ γ A hκ dz 0
  simp only [subgateVolume, attenuationV, cumsum]
  rw [h]
  simp only [neg_zero, Real.exp_zero, zero_add]
  ring

/-! ### grid bookkeeping -/

/-- `fill_forward`: sub-gate `k` receives the value of the layer whose top is the last layer boundary at or above it
    (`cnt` = number of layer tops among the nodes `0..k`); the guard `cnt ≤ len(a)` is numpy's index check -/
theorem fill_forward_layer_value (a : List ℝ) (mask : List Bool) (k : Nat) (hk : k < mask.length)
    (hcnt : (mask.take (k + 1)).count true ≤ a.length) (hfirst : 0 < (mask.take (k + 1)).count true) :
    (fillForward a mask)[k]? = a[(mask.take (k + 1)).count true - 1]? := by
  unfold fillForward
  rw [fillForwardFrom_getElem? _ a mask k hk hcnt, if_neg (by omega)]

/-- gates and layer boundaries partition the merged grid, each kept in order -/
theorem grid_partition (zl zg : List ℝ) :
    ((grid zl zg).filter (fun a => a.2.isGate)).map Prod.fst = zg
      ∧ ((grid zl zg).filter (fun a => !a.2.isGate)).map Prod.fst = zl := by
  refine ⟨merge_gates _ _ (tagLayers_not_gate zl), ?_⟩
  unfold grid
  rw [merge_layers _ _ (tagLayers_not_gate zl), tagLayers_fst]

/-- the merged grid has one sub-gate thickness per node but the last -/
theorem grid_sizes (inp : Input ℝ) (h : inp.zl ≠ []) : (gridDz inp).length + 1 = (gridTags inp).length :=
  grid_dz_length inp h

/-! ### non-vacuity -/

/-- a stack satisfying `Valid` with a source, and one satisfying `NoSource` -/
example : (⟨[1.5], [0.2], [0.3], [0.9], [[0.01]], some [0.02]⟩ : Stack ℝ).Valid := by
  constructor
  · intro k hk; simp at hk; subst hk; norm_num
  · intro k hk; simp at hk; subst hk; norm_num
  · intro k hk; simp at hk; subst hk; norm_num
  · intro r hr; simp at hr; subst hr; intro x hx; simp at hx; subst hx; norm_num
  · intro r hr; simp at hr; subst hr; intro x hx; simp at hx; subst hx; norm_num

example : (⟨[1.5], [0.2], [0], [0.9], [[0]], none⟩ : Stack ℝ).NoSource := by
  constructor
  · intro k hk; simpa using hk
  · intro r hr; simp at hr; subst hr; intro x hx; simpa using hx
  · intro r hr; simp at hr

/-- option combinations satisfying the hypotheses of `contributions_additive_partial` exist with `theta_inc_sampling > 1` -/
example : ¬ (1 < (⟨4, 8, false, true, false, false⟩ : Opts).tis ∧ (⟨4, 8, false, true, false, false⟩ : Opts).rtEff = true) := by
  simp [Opts.rtEff]

end Smrt.Props.C18
