import SmrtVerif.Model.Container
namespace Smrt.Props.C20
open Smrt

theorem diag_getItem_eq_toMat {α : Type} [OfNat α 0] (d : Diag α) (i j : Nat) :
    d.getItem i j = d.toMat.f i j := rfl

end Smrt.Props.C20
