/-
  C20 — compact matrix containers and the Fourier helper are numerically faithful.
  Property theorems only (helper lemmas live in SmrtVerif/Proofs).  `R` is any commutative ring
  (instantiated at ℝ for the code's doubles; rounding is not modelled).
-/
import SmrtVerif.Model.Container
import SmrtVerif.Proofs.Sum
import SmrtVerif.Proofs.Todiag
import SmrtVerif.Proofs.Fourier
import Mathlib.Tactic.Ring
import Mathlib.Tactic.Linarith

set_option linter.unusedSectionVars false

namespace Smrt.Props.C20
open Smrt

variable {R : Type} [CommRing R]

/-! ### `smrt_diag` operators are the dense operations on `toMat` -/

/-- `D @ M` (rows scaled) is the dense product `toMat D · M` -/
theorem diag_matmul_ndarray (d : Diag R) (M : Mat R) (_hM : M.r = d.n) (i j : Nat) (hi : i < d.n) :
    (d.matmulMat M).f i j = (d.toMat.mul M).f i j := by
  simp only [Diag.matmulMat, Mat.mul, Diag.toMat]
  have : (fun k => (if i = k then d.d i else 0) * M.f k j) = (fun k => if i = k then d.d i * M.f k j else 0) := by
    funext k; split <;> simp
  rw [this, sumN_single' d.n i hi]; ring

/-- `M @ D` (columns scaled) is the dense product `M · toMat D` -/
theorem ndarray_matmul_diag (d : Diag R) (M : Mat R) (hM : M.c = d.n) (i j : Nat) (hj : j < d.n) :
    (Diag.rmatmul M d).f i j = (M.mul d.toMat).f i j := by
  simp only [Diag.rmatmul, Mat.mul, Diag.toMat, hM]
  have : (fun k => M.f i k * (if k = j then d.d k else 0)) = (fun k => if k = j then M.f i k * d.d k else 0) := by
    funext k; split <;> simp
  rw [this, sumN_single d.n j hj]

/-- `D₁ @ D₂` stays diagonal and equals the dense product -/
theorem diag_matmul_diag (a b : Diag R) (_hn : a.n = b.n) (i j : Nat) (hi : i < a.n) :
    (a.matmulDiag b).toMat.f i j = (a.toMat.mul b.toMat).f i j := by
  simp only [Diag.matmulDiag, Mat.mul, Diag.toMat]
  have : (fun k => (if i = k then a.d i else 0) * (if k = j then b.d k else 0))
       = (fun k => if i = k then (if k = j then a.d i * b.d k else 0) else 0) := by
    funext k; split <;> split <;> simp
  rw [this, sumN_single' a.n i hi]
  split <;> simp [mul_comm]

theorem diag_add_diag (a b : Diag R) (i j : Nat) :
    (a.addDiag b).toMat.f i j = (a.toMat.add b.toMat).f i j := by
  simp only [Diag.addDiag, Mat.add, Diag.toMat]; split <;> simp [add_comm]

/-- `self - other` is the dense difference (the code once returned `other - self`) -/
theorem diag_sub_diag (a b : Diag R) (i j : Nat) :
    (a.subDiag b).toMat.f i j = (a.toMat.sub b.toMat).f i j := by
  simp only [Diag.subDiag, Mat.sub, Diag.toMat]; split <;> simp

theorem diag_add_ndarray (a : Diag R) (M : Mat R) (i j : Nat) :
    (a.addMat M).f i j = (a.toMat.add M).f i j := by
  simp only [Diag.addMat, Mat.add, Diag.toMat]; split <;> simp [add_comm]

theorem diag_mul_scalar (a : Diag R) (s : R) (i j : Nat) :
    (a.mulScalar s).toMat.f i j = (Mat.smul s a.toMat).f i j ∧ (Diag.rmulScalar s a).toMat.f i j = (Mat.smul s a.toMat).f i j := by
  simp only [Diag.mulScalar, Diag.rmulScalar, Mat.smul, Diag.toMat]; split <;> simp [mul_comm]

/-! ### `compress`: polarisation is the fast index, direction the slow one -/

/-- dense4 ↦ entry `(i·npol + p, j·npol + q)` -/
theorem compress_dense4_layout (npol ns ni : Nat) (v : Nat → Nat → Nat → Nat → R) (mode : Option Nat) (ar : Bool)
    (p q i j : Nat) (hp : p < SM.redPol npol mode ar) (hq : q < SM.redPol npol mode ar) :
    ∃ m : Mat R, (SM.dense4 npol ns ni v).compress mode ar = .ok (.dense m) ∧
      m.r = ns * SM.redPol npol mode ar ∧ m.c = ni * SM.redPol npol mode ar ∧
      m.f (i * SM.redPol npol mode ar + p) (j * SM.redPol npol mode ar + q) = v p q i j := by
  refine ⟨_, rfl, rfl, rfl, ?_⟩
  have h0 : 0 < SM.redPol npol mode ar := Nat.lt_of_le_of_lt (Nat.zero_le _) hp
  simp only [Nat.mul_add_mod_self_right, Nat.mod_eq_of_lt hp, Nat.mod_eq_of_lt hq]
  rw [Nat.mul_comm i, Nat.mul_comm j, Nat.mul_add_div h0, Nat.mul_add_div h0, Nat.div_eq_of_lt hp, Nat.div_eq_of_lt hq]
  simp

/-- diagonal4 ↦ diagonal entry `i·npol + p` -/
theorem compress_diag4_layout (npol n : Nat) (v : Nat → Nat → R) (mode : Option Nat) (ar : Bool)
    (p i : Nat) (hp : p < SM.redPol npol mode ar) :
    ∃ d : Diag R, (SM.diag4 npol n v).compress mode ar = .ok (.diag d) ∧
      d.n = n * SM.redPol npol mode ar ∧ d.d (i * SM.redPol npol mode ar + p) = v p i := by
  refine ⟨_, rfl, rfl, ?_⟩
  have h0 : 0 < SM.redPol npol mode ar := Nat.lt_of_le_of_lt (Nat.zero_le _) hp
  simp only [Nat.mul_add_mod_self_right, Nat.mod_eq_of_lt hp]
  rw [Nat.mul_comm i, Nat.mul_add_div h0, Nat.div_eq_of_lt hp]; simp

/-- mode selection then compression = compression with that mode (dense5, diagonal5) -/
theorem compress_sel (s : SM R) (m : Nat) (ar : Bool) (s' : SM R) (h : s.sel m ar = .ok s') :
    ∃ c, s.compress (some m) ar = .ok c ∧ ∃ c', s'.compress none false = .ok c' ∧
      (match c, c' with
       | .dense a, .dense b => a.r = b.r ∧ a.c = b.c ∧ ∀ i j, a.f i j = b.f i j
       | .diag a, .diag b => a.n = b.n ∧ ∀ i, a.d i = b.d i
       | _, _ => False) := by
  cases s with
  | zero => simp [SM.sel] at h
  | diag4 => simp [SM.sel] at h
  | dense4 => simp [SM.sel] at h
  | diag5 npol nm n v =>
    simp only [SM.sel, Except.ok.injEq] at h; subst h
    refine ⟨_, rfl, _, rfl, ?_⟩
    simp [SM.redPol]
  | dense5 npol nm ns ni v =>
    simp only [SM.sel, Except.ok.injEq] at h; subst h
    refine ⟨_, rfl, _, rfl, ?_⟩
    simp [SM.redPol]

/-- compressing the dense form of a diagonal container gives the dense form of its compressed diagonal:
    `compress ∘ to_dense = toMat ∘ compress` (this is the law the old `to_dense` violated) -/
theorem compress_toDense_diag4 (npol n : Nat) (v : Nat → Nat → R) (_hnp : 0 < npol) (r c : Nat)
    (_hr : r < n * npol) (_hc : c < n * npol) :
    ∃ d : Diag R, ∃ m : Mat R, (SM.diag4 npol n v).compress none false = .ok (.diag d) ∧
      ((SM.diag4 npol n v).toDense >>= fun s => s.compress none false) = .ok (.dense m) ∧
      m.r = d.n ∧ m.c = d.n ∧ m.f r c = d.toMat.f r c := by
  refine ⟨_, _, rfl, rfl, rfl, rfl, ?_⟩
  simp only [SM.redPol, Diag.toMat]
  have hnp' : (npol = 3 && false && (none : Option Nat) == some 0) = false := by simp
  simp only [hnp', Bool.false_eq_true, if_false]
  by_cases hrc : r = c
  · subst hrc; simp
  · have : ¬ (r % npol = c % npol ∧ r / npol = c / npol) := by
      rintro ⟨h1, h2⟩
      exact hrc (by rw [← Nat.div_add_mod r npol, ← Nat.div_add_mod c npol, h1, h2])
    simp [this, hrc]

/-! ### binary operations on `smrt_matrix` commute with `to_dense` -/

/-- `(a - b).to_dense() = a.to_dense() - b.to_dense()` and the same for `+`, for diagonal4 operands
    (entry-wise; the dense layout has the diagonal value where both polarisations and both directions agree) -/
theorem sub_add_toDense_diag4 (npol n : Nat) (v w : Nat → Nat → R) :
    ((SM.diag4 npol n v).sub (SM.diag4 npol n w) >>= SM.toDense)
        = .ok (.dense4 npol n n (fun p q i j => if p = q ∧ i = j then v p i - w p i else 0)) ∧
    ((SM.diag4 npol n v).add (SM.diag4 npol n w) >>= SM.toDense)
        = .ok (.dense4 npol n n (fun p q i j => if p = q ∧ i = j then w p i + v p i else 0)) ∧
    ∀ p q i j : Nat,
      (if p = q ∧ i = j then v p i - w p i else 0)
        = (if p = q ∧ i = j then v p i else 0) - (if p = q ∧ i = j then w p i else (0 : R)) ∧
      (if p = q ∧ i = j then w p i + v p i else 0)
        = (if p = q ∧ i = j then v p i else 0) + (if p = q ∧ i = j then w p i else (0 : R)) := by
  refine ⟨?_, ?_, ?_⟩
  · simp [SM.sub, SM.zipWith, SM.toDense, bind, Except.bind]
  · simp [SM.add, SM.zipWith, SM.toDense, bind, Except.bind]
  · intro p q i j; constructor <;> split <;> simp [add_comm]

/-- a diagonal and a dense container combine as their dense forms (the case numpy used to broadcast by position) -/
theorem sub_mixed_dense (npol n : Nat) (v : Nat → Nat → R) (w : Nat → Nat → Nat → Nat → R) :
    (SM.diag4 npol n v).sub (SM.dense4 npol n n w)
      = .ok (.dense4 npol n n (fun p q i j => (if p = q ∧ i = j then v p i else 0) - w p q i j)) := by
  simp [SM.sub, SM.zipWith]

/-! ### `todiag`: blocks written into LAPACK banded storage -/

/-- **todiag_spec (writes)**: after `todiag(bmat, oi, oj, dmat)` entry `(i, j)` of the `n × m` block sits at
    `ab[u + (oi+i) − (oj+j), oj+j]`, for every block shape, offset and band width. -/
theorem todiag_writes {α : Type} (u oi oj n m : Nat) (d : Nat → Nat → α) (b : Banded α) (i j : Nat) (hi : i < n) (hj : j < m) :
    todiag u oi oj n m d b ((u : Int) + (oi : Int) + (i : Int) - (oj : Int) - (j : Int)) (oj + j) = d i j := by
  unfold todiag todiagLower todiagUpper
  rw [upper_loop u oi oj n m d b m (le_refl m), lower_loop u oi oj n m d _ (n - 1) (le_refl _)]
  simp only [lowerSpec, upperSpec]
  by_cases hij : i ≤ j
  · rw [if_neg (by omega), if_pos (by omega)]
    congr 1 <;> omega
  · rw [if_pos (by omega)]
    congr 1 <;> omega

/-- **todiag_spec (frame)**: every other entry of the banded array is left unchanged. -/
theorem todiag_frame {α : Type} (u oi oj n m : Nat) (d : Nat → Nat → α) (b : Banded α) (r : Int) (c : Nat)
    (h : ∀ i j : Nat, i < n → j < m → ¬ (r = (u : Int) + (oi : Int) + (i : Int) - (oj : Int) - (j : Int) ∧ c = oj + j)) :
    todiag u oi oj n m d b r c = b r c := by
  unfold todiag todiagLower todiagUpper
  rw [upper_loop u oi oj n m d b m (le_refl m), lower_loop u oi oj n m d _ (n - 1) (le_refl _)]
  simp only [lowerSpec, upperSpec]
  rw [if_neg, if_neg]
  · intro hc
    exact h (r - ((u : Int) + (oi : Int)) + (c : Int)).toNat (c - oj) (by omega) (by omega) (by omega)
  · intro hc
    exact h (r - ((u : Int) + (oi : Int)) + (c : Int)).toNat (c - oj) (by omega) (by omega) (by omega)

/-- **banded = dense**: in scipy's convention `ab[u + r − c, c] = A[r, c]`, the matrix that `solve_banded` solves
    has the block at rows `oi…`, columns `oj…`, provided the block lies inside the band. -/
theorem todiag_dense {α : Type} [OfNat α 0] (u oi oj n m : Nat) (d : Nat → Nat → α) (b : Banded α) (i j : Nat)
    (hi : i < n) (hj : j < m)
    (hband : ((oi + i : Nat) : Int) - ((oj + j : Nat) : Int) ≤ u ∧ ((oj + j : Nat) : Int) - ((oi + i : Nat) : Int) ≤ u) :
    (todiag u oi oj n m d b).toDense u (oi + i) (oj + j) = d i j := by
  unfold Banded.toDense
  rw [if_pos hband]
  have := todiag_writes u oi oj n m d b i j hi hj
  have e : (u : Int) + ((oi + i : Nat) : Int) - ((oj + j : Nat) : Int) = (u : Int) + (oi : Int) + (i : Int) - (oj : Int) - (j : Int) := by
    push_cast; ring
  rw [e]; exact this

/-- the block is inside the band exactly when `blockInBand` says so (the guard the driver uses) -/
theorem blockInBand_iff (u oi oj n m : Nat) (hn : 0 < n) (hm : 0 < m) :
    blockInBand u oi oj n m = true ↔
      ∀ i j : Nat, i < n → j < m →
        (0 : Int) ≤ (u : Int) + (oi : Int) + (i : Int) - (oj : Int) - (j : Int) ∧
        (u : Int) + (oi : Int) + (i : Int) - (oj : Int) - (j : Int) ≤ 2 * (u : Int) := by
  unfold blockInBand
  have hn' : (n == 0) = false := by simp; omega
  have hm' : (m == 0) = false := by simp; omega
  simp only [hn', hm', Bool.false_or, Bool.and_eq_true, decide_eq_true_eq]
  constructor
  · rintro ⟨h1, h2⟩ i j hi hj; omega
  · intro h
    have a := h 0 (m - 1) hn (by omega)
    have b := h (n - 1) 0 (by omega) hm
    constructor <;> omega

/-! ### the band width DORT allocates is sufficient for every block it writes -/

/-- offsets of consecutive layers tile the rows and columns of the boundary system -/
theorem offsets_tile (npol : Nat) (ns : List Nat) (l : Nat) (hl : l < ns.length) :
    ilBottom npol ns l = ilTop npol ns l + ns[l] * npol ∧
    ilTop npol ns (l + 1) = ilBottom npol ns l + ns[l] * npol ∧
    jl npol ns (l + 1) = jl npol ns l + 2 * (ns[l] * npol) ∧
    jl npol ns l = ilTop npol ns l := by
  have hA : streamsAbove ns (l + 1) = streamsAbove ns l + ns[l] := by
    unfold streamsAbove
    rw [List.take_succ_eq_append_getElem hl, List.foldl_append]; simp
  refine ⟨?_, ?_, ?_, rfl⟩
  · simp [ilBottom, List.getD_eq_getElem?_getD, hl]
  · simp only [ilBottom, ilTop, hA, List.getD_eq_getElem?_getD, List.getElem?_eq_getElem hl, Option.getD_some]; ring
  · simp only [jl, hA]; ring

/-- the band half-width covers every pair of adjacent layers -/
theorem pair_le_nbandAux (ns : List Nat) (l : Nat) (hl : l + 1 < ns.length) :
    2 * ns[l + 1] + ns[l] ≤ nbandAux ns ∧ ns[l + 1] + 2 * ns[l] ≤ nbandAux ns := by
  induction ns generalizing l with
  | nil => simp at hl
  | cons a t ih =>
    cases t with
    | nil => simp at hl
    | cons b rest =>
      cases l with
      | zero => simp only [nbandAux, List.getElem_cons_zero, List.getElem_cons_succ]; omega
      | succ l =>
        have := ih l (by simpa using hl)
        simp only [nbandAux, List.getElem_cons_succ] at this ⊢
        omega

/-- **nband_sufficient**: with `u = nband`, every block `dort_modem_banded` writes lies inside the band
    (`0 ≤ u + row − col ≤ 2u` for all its entries), for every vector of stream counts — whatever the pattern of
    total reflection — and any number of rows `k` kept by the `ns_common` truncation. -/
theorem nband_sufficient (npol : Nat) (ns : List Nat) (l : Nat) (hl : l < ns.length) (hnp : 0 < npol) (hpos : 0 < ns[l]) :
    (let (oi, oj, n, m) := blockTop npol ns l; blockInBand (nband npol ns) oi oj n m = true) ∧
    (let (oi, oj, n, m) := blockBottom npol ns l; blockInBand (nband npol ns) oi oj n m = true) ∧
    (∀ k, l + 1 < ns.length → k ≤ ns.getD (l + 1) 0 * npol →
      (let (oi, oj, n, m) := blockDown npol ns l k; blockInBand (nband npol ns) oi oj n m = true)) ∧
    (∀ k, l + 1 < ns.length → k ≤ ns[l] * npol →
      (let (oi, oj, n, m) := blockUp npol ns l k; blockInBand (nband npol ns) oi oj n m = true)) := by
  have hget : ns.getD l 0 = ns[l] := by simp [List.getD_eq_getElem?_getD, hl]
  have hT := offsets_tile npol ns l hl
  obtain ⟨hb, ht1, hj1, hjt⟩ := hT
  -- lower bound on the band width in terms of this layer and (if any) its lower neighbour
  have hself : 2 * (ns[l] * npol) ≤ nband npol ns + 0 ∧
      (∀ h : l + 1 < ns.length, (2 * ns[l + 1] + ns[l]) * npol ≤ nband npol ns ∧ (ns[l + 1] + 2 * ns[l]) * npol ≤ nband npol ns) := by
    match ns, hl with
    | [n], hl =>
      have : l = 0 := by simpa using hl
      subst this
      refine ⟨?_, fun h => by simp at h⟩
      simp only [nband, List.getElem_cons_zero]; nlinarith
    | a :: b :: rest, hl =>
      have key : ∀ h : l + 1 < (a :: b :: rest).length,
          (2 * (a :: b :: rest)[l + 1] + (a :: b :: rest)[l]) * npol ≤ nband npol (a :: b :: rest) ∧
          ((a :: b :: rest)[l + 1] + 2 * (a :: b :: rest)[l]) * npol ≤ nband npol (a :: b :: rest) := by
        intro h
        have := pair_le_nbandAux (a :: b :: rest) l h
        simp only [nband]
        constructor <;> nlinarith [this.1, this.2]
      refine ⟨?_, key⟩
      by_cases h : l + 1 < (a :: b :: rest).length
      · have := (key h).2; nlinarith
      · -- last layer: use the pair (l-1, l)
        have hl0 : 0 < l := by simp at h hl; omega
        obtain ⟨l', rfl⟩ : ∃ l', l = l' + 1 := ⟨l - 1, by omega⟩
        have := pair_le_nbandAux (a :: b :: rest) l' hl
        simp only [nband]; nlinarith [this.1]
  obtain ⟨hs, hpair⟩ := hself
  have hpos' : 0 < ns[l] * npol := Nat.mul_pos hpos hnp
  refine ⟨?_, ?_, ?_, ?_⟩
  · simp only [blockTop, blockInBand, hget, jl, ilTop]
    simp only [Bool.or_eq_true, Bool.and_eq_true, decide_eq_true_eq, beq_iff_eq]
    right; push_cast; constructor <;> omega
  · simp only [blockBottom, blockInBand, hget, hb, ← hjt]
    simp only [Bool.or_eq_true, Bool.and_eq_true, decide_eq_true_eq, beq_iff_eq]
    right; push_cast; constructor <;> omega
  · intro k h1 hk
    have hget1 : ns.getD (l + 1) 0 = ns[l + 1] := by simp [List.getD_eq_getElem?_getD, h1]
    have := hpair h1
    simp only [blockDown, blockInBand, hget, ht1, hb, ← hjt]
    simp only [Bool.or_eq_true, Bool.and_eq_true, decide_eq_true_eq, beq_iff_eq]
    rw [hget1] at hk
    right; push_cast; constructor
    · omega
    · nlinarith [this.1, this.2]
  · intro k h1 hk
    have hget1 : ns.getD (l + 1) 0 = ns[l + 1] := by simp [List.getD_eq_getElem?_getD, h1]
    have := hpair h1
    simp only [blockUp, blockInBand, hget1, hb, hj1, ← hjt]
    simp only [Bool.or_eq_true, Bool.and_eq_true, decide_eq_true_eq, beq_iff_eq]
    right; push_cast; constructor
    · nlinarith [this.1, this.2]
    · omega

/-! ### the azimuthal Fourier helper is exact on band-limited matrices -/
section fourier
open Smrt.FourierP Finset

/-- a cosine polynomial of degree ≤ M sampled at `φ_k = 2π k / N` -/
noncomputable def cosPoly (N M : Nat) (a : Nat → ℝ) (k : Nat) : ℝ := ∑ n ∈ range (M + 1), a n * Real.cos (ang N n k)
/-- a sine polynomial -/
noncomputable def sinPoly (N M : Nat) (b : Nat → ℝ) (k : Nat) : ℝ := ∑ n ∈ range (M + 1), b n * Real.sin (ang N n k)

theorem ang_mirror (N n k : Nat) (hN : 0 < N) (hk : k ≤ N) : ang N n (N - k) = (n : ℝ) * (2 * Real.pi) - ang N n k := by
  have hN' : (N : ℝ) ≠ 0 := by exact_mod_cast (Nat.pos_iff_ne_zero.mp hN)
  simp only [ang]; rw [Nat.cast_sub hk]; field_simp

theorem mirrored_cosPoly (N M : Nat) (a : Nat → ℝ) (hN : 0 < N) (k : Nat) (hk : k < N) :
    mirrored N false (cosPoly N M a) k = cosPoly N M a k := by
  simp only [mirrored, Bool.false_eq_true, if_false]
  by_cases h : k ≤ N / 2
  · rw [if_pos h]
  · rw [if_neg h]
    simp only [cosPoly]
    apply Finset.sum_congr rfl; intro n _
    rw [ang_mirror N n k hN hk.le, Real.cos_nat_mul_two_pi_sub]

theorem mirrored_sinPoly (N M : Nat) (b : Nat → ℝ) (hN : 0 < N) (k : Nat) (hk : k < N) :
    mirrored N true (sinPoly N M b) k = sinPoly N M b k := by
  simp only [mirrored, if_true]
  by_cases h : k ≤ N / 2
  · rw [if_pos h]
  · rw [if_neg h]
    simp only [sinPoly]
    rw [← Finset.sum_neg_distrib]
    apply Finset.sum_congr rfl; intro n _
    rw [ang_mirror N n k hN hk.le, Real.sin_nat_mul_two_pi_sub]; ring

theorem model_angle (N m k : Nat) : (2.0 : ℝ) * Real.pi * (m : ℝ) * (k : ℝ) / (N : ℝ) = ang N m k := by
  have : (2.0 : ℝ) = 2 := by norm_num
  simp only [ang, this]

/-- **fourier_exact (even entries)**: for a cosine polynomial of degree `M < N/2` sampled on the `N/2 + 1` points of `[0, π]`, the
    helper returns exactly its coefficients `a_m`, `m ≤ M` (V/H block, and the UU entry) -/
theorem fourier_exact_even (npol N M p q m : Nat) (a : Nat → ℝ) (hN : 0 < N) (hM : 2 * M < N) (hm : m ≤ M)
    (heven : oddEntry npol p q = false) :
    ftEvenCoef Real.pi npol N p q m (cosPoly N M a) = a m := by
  have hN' : (N : ℝ) ≠ 0 := by exact_mod_cast (Nat.pos_iff_ne_zero.mp hN)
  -- the DFT real part of the mirrored sequence
  have hre : dftRe Real.pi N m (mirrored N false (cosPoly N M a))
      = ∑ n ∈ range (M + 1), a n * ∑ k ∈ range N, Real.cos (ang N n k) * Real.cos (ang N m k) := by
    simp only [dftRe, transc_cos_real]
    rw [sumN_eq_sum]
    have : ∀ k ∈ range N, mirrored N false (cosPoly N M a) k * Real.cos (2.0 * Real.pi * (m : ℝ) * (k : ℝ) / (N : ℝ))
        = ∑ n ∈ range (M + 1), a n * (Real.cos (ang N n k) * Real.cos (ang N m k)) := by
      intro k hk
      rw [mirrored_cosPoly N M a hN k (Finset.mem_range.mp hk), model_angle, cosPoly, Finset.sum_mul]
      apply Finset.sum_congr rfl; intro n _; ring
    rw [Finset.sum_congr rfl this, Finset.sum_comm]
    apply Finset.sum_congr rfl; intro n _
    rw [Finset.mul_sum]
  have horth : ∀ n ∈ range (M + 1), a n * ∑ k ∈ range N, Real.cos (ang N n k) * Real.cos (ang N m k)
      = if n = m then a m * (if m = 0 then (N : ℝ) else (N : ℝ) / 2) else 0 := by
    intro n hn
    have hn' : n ≤ M := by have := Finset.mem_range.mp hn; omega
    rw [cos_cos_sum N n m hN (by omega)]
    by_cases e : n = m
    · subst e; simp
    · simp [e]
  have hsum : dftRe Real.pi N m (mirrored N false (cosPoly N M a)) = a m * (if m = 0 then (N : ℝ) else (N : ℝ) / 2) := by
    rw [hre, Finset.sum_congr rfl horth, Finset.sum_ite_eq' (range (M + 1)) m]
    simp [Finset.mem_range]; omega
  have l1 : (1.0 : ℝ) = 1 := by norm_num
  have l2 : (2.0 : ℝ) = 2 := by norm_num
  unfold ftEvenCoef
  simp only [heven]
  by_cases h0 : m = 0
  · subst h0
    simp only [if_true]
    rw [hsum]; simp only [if_true, l1]; field_simp
  · simp only [h0, if_false, Bool.false_eq_true]
    rw [hsum]; simp only [h0, if_false, l2]; field_simp

/-- **fourier_exact (odd entries)**: for the entries that are odd in the azimuth (VU, HU, UV, UH; 3 polarisations) given by a sine
    polynomial `Σ b_n sin(nφ)`, the helper returns `−b_m` in the (V|H, U) entries and `+b_m` in the (U, V|H) entries for
    `1 ≤ m ≤ M` — the code's sign convention — and 0 for `m = 0` -/
theorem fourier_exact_odd (N M p q m : Nat) (b : Nat → ℝ) (hN : 0 < N) (hM : 2 * M < N) (hm : m ≤ M)
    (hodd : oddEntry 3 p q = true) :
    ftEvenCoef Real.pi 3 N p q m (sinPoly N M b) = if m = 0 then 0 else (if q = 2 then - b m else b m) := by
  have hN' : (N : ℝ) ≠ 0 := by exact_mod_cast (Nat.pos_iff_ne_zero.mp hN)
  have hmir : ∀ k ∈ range N, mirrored N true (sinPoly N M b) k = sinPoly N M b k := by
    intro k hk
    exact mirrored_sinPoly N M b hN k (Finset.mem_range.mp hk)
  have him : dftIm Real.pi N m (mirrored N true (sinPoly N M b))
      = - ∑ n ∈ range (M + 1), b n * ∑ k ∈ range N, Real.sin (ang N n k) * Real.sin (ang N m k) := by
    simp only [dftIm, transc_sin_real]
    rw [sumN_eq_sum]
    have : ∀ k ∈ range N, mirrored N true (sinPoly N M b) k * Real.sin (2.0 * Real.pi * (m : ℝ) * (k : ℝ) / (N : ℝ))
        = ∑ n ∈ range (M + 1), b n * (Real.sin (ang N n k) * Real.sin (ang N m k)) := by
      intro k hk
      rw [hmir k hk, model_angle, sinPoly, Finset.sum_mul]
      apply Finset.sum_congr rfl; intro n _; ring
    rw [Finset.sum_congr rfl this, Finset.sum_comm]
    congr 1
    apply Finset.sum_congr rfl; intro n _
    rw [Finset.mul_sum]
  have hre0 : dftRe Real.pi N 0 (mirrored N true (sinPoly N M b)) = 0 := by
    simp only [dftRe, transc_cos_real]
    rw [sumN_eq_sum]
    have : ∀ k ∈ range N, mirrored N true (sinPoly N M b) k * Real.cos (2.0 * Real.pi * ((0 : Nat) : ℝ) * (k : ℝ) / (N : ℝ))
        = ∑ n ∈ range (M + 1), b n * Real.sin (ang N n k) := by
      intro k hk
      rw [hmir k hk]; simp [sinPoly]
    rw [Finset.sum_congr rfl this, Finset.sum_comm]
    apply Finset.sum_eq_zero; intro n _
    rw [← Finset.mul_sum, sin_sum N n hN, mul_zero]
  have horth : ∀ n ∈ range (M + 1), b n * ∑ k ∈ range N, Real.sin (ang N n k) * Real.sin (ang N m k)
      = if n = m then (if m = 0 then 0 else b m * ((N : ℝ) / 2)) else 0 := by
    intro n hn
    have hn' : n ≤ M := by have := Finset.mem_range.mp hn; omega
    rw [sin_sin_sum N n m hN (by omega)]
    by_cases e : n = m
    · subst e
      by_cases z : n = 0 <;> simp [z]
    · have : ¬ (n = m ∧ n ≠ 0) := fun h => e h.1
      simp [e, this]
  have hsum : dftIm Real.pi N m (mirrored N true (sinPoly N M b)) = - (if m = 0 then 0 else b m * ((N : ℝ) / 2)) := by
    rw [him, Finset.sum_congr rfl horth, Finset.sum_ite_eq' (range (M + 1)) m]
    have : m ∈ range (M + 1) := Finset.mem_range.mpr (by omega)
    simp [this]
  have l1 : (1.0 : ℝ) = 1 := by norm_num
  have l2 : (2.0 : ℝ) = 2 := by norm_num
  unfold ftEvenCoef
  simp only [hodd]
  by_cases h0 : m = 0
  · subst h0
    simp only [if_true]
    rw [hre0]; simp
  · simp only [h0, if_false, if_true]
    rw [hsum]; simp only [h0, if_false, l2]
    split_ifs <;> field_simp

/-- non-vacuity: the entry (V, U) of a 3-polarisation matrix is odd, (V, H) is even; 16 samples resolve degree 4 -/
example : oddEntry 3 0 2 = true ∧ oddEntry 3 0 1 = false ∧ oddEntry 2 0 1 = false ∧ 2 * 4 < 16 := by decide

end fourier

/-! ### non-vacuity: concrete instances of the hypotheses -/

/-- a 2×3 block at offset (4, 3) of a band with `u = 5` satisfies the hypotheses of `todiag_dense` -/
example : ((4 + 1 : Nat) : Int) - ((3 + 2 : Nat) : Int) ≤ (5 : Nat) ∧ ((3 + 2 : Nat) : Int) - ((4 + 1 : Nat) : Int) ≤ (5 : Nat) := by
  decide
/-- stream counts (3, 5, 4) with 2 polarisations: all layers satisfy the hypotheses of `nband_sufficient`, `nband = 28` -/
example : nband 2 [3, 5, 4] = 28 ∧ (0 < [3, 5, 4][1]) ∧ blockInBand 28 (ilTop 2 [3, 5, 4] 2) (jl 2 [3, 5, 4] 1) 8 20 = true := by
  decide
/-- and the band is tight up to one diagonal: with 26 the coupling block of layers (1, 2) loses an entry -/
example : blockInBand 26 (ilTop 2 [3, 5, 4] 2) (jl 2 [3, 5, 4] 1) 8 20 = false := by decide

/-! ### `dort.muleye` -/

/-- the vector of ones as an `m × 1` matrix -/
def onesCol (m : Nat) : Mat R := ⟨m, 1, fun _ _ => 1⟩

/-- `dort.muleye(x)` is the product of the matrix `x` stands for with the vector of ones, whatever the storage and the shape
    (diagonal: `n × n`; dense: `n × c`, rectangular blocks included; the scalar 0: the zero matrix): row `i` of `x · 1`. -/
theorem muleye_is_product_with_ones (x : CV R) (n c : Nat) (i : Nat) (hi : i < n)
    (hshape : match x with | .zero => True | .diag d => d.n = n ∧ c = n | .dense m => m.r = n ∧ m.c = c) :
    CV.muleye n x i = ((CV.toMat n c x).mul (onesCol c)).f i 0 := by
  cases x with
  | zero =>
    simp only [CV.muleye, CV.toMat, Mat.mul, Mat.zeros, onesCol, zero_mul]
    rw [sumN_eq_sum]; simp
  | diag d =>
    obtain ⟨hn, _⟩ := hshape
    simp only [CV.muleye, CV.toMat, Mat.mul, Diag.toMat, onesCol, mul_one]
    rw [sumN_single' d.n i (hn ▸ hi)]
  | dense m =>
    obtain ⟨_, _⟩ := hshape
    simp only [CV.muleye, CV.toMat, Mat.mul, Mat.rowSums, onesCol, mul_one, if_pos hi]

/-- ... and it is *not* the column sums: a 2 × 2 witness distinguishes `x · 1` from `1ᵀ · x` -/
example : CV.muleye 2 (.dense ⟨2, 2, fun i j => if i = 0 ∧ j = 1 then (1 : ℤ) else 0⟩) 0 = 1
    ∧ sumN 2 (fun k => (if k = 0 ∧ (0 : Nat) = 1 then (1 : ℤ) else 0)) = 0 := by
  decide

end Smrt.Props.C20
