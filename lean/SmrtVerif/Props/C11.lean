/-
  C11 — scattering theories agree in their common validity domain.
  Property theorems about the closed forms of `SmrtVerif/Model/TheoryLimits.lean` at `α := ℝ`.

  What is proved: the exact limits and symmetries (static-dilute IBA = (1−f)·Rayleigh, the power laws, the limit f → 0
  of DMRT-QCA short range for every stickiness law with t(f)·f → 0, ε_eff at f ∈ {0, 1}, invariance of the symmetrised
  strong-contrast expansion under phase inversion).  What is not: the percentages at finite size and density
  (`*_full` definitions at the end; the oracle of `harness/pC11.py` evaluates them on the implementation).
-/
import SmrtVerif.Model.TheoryLimits
import SmrtVerif.Proofs.TheoryLimits
import SmrtVerif.Proofs.Romberg

namespace Smrt.Props.C11
open Smrt Smrt.TheoryLimits Filter Topology
open Smrt.Mixing (toC toC_inj czero cone)

/-! ### IBA in the static, dilute limit -/

/-- with ε_eff replaced by its `f → 0` value `e0` and the spectrum by its `k = 0` value, IBA's scattering coefficient is
    `(1 − f)` times the Rayleigh value for independent spheres, and the Percus–Yevick factor times the Rayleigh value for
    sticky hard spheres (any `t`); for a real background the Rayleigh value is what `rayleigh.py` returns -/
theorem iba_static_dilute (p k0 f r : ℝ) (e0 eps : Cx ℝ) (hp : p ≠ 0) (hs : eps + Cx.smul 2 e0 ≠ czero) :
    ibaKsStaticSphere p k0 f r e0 eps e0 = (1 - f) * (f * rayleighPerVolume r k0 e0 eps) ∧
    (∀ t, 1 - f ≠ 0 → ibaKsStaticShs p k0 f r t e0 eps e0 = shsS f t * (f * rayleighPerVolume r k0 e0 eps)) ∧
    (e0.im = 0 → rayleighKs f r k0 e0 eps = ⟨f * rayleighPerVolume r k0 e0 eps, 0⟩) := by
  have hNs : Complex.normSq (toC eps + 2 * toC e0) ≠ 0 := by
    rw [Ne, Complex.normSq_eq_zero]
    have := (Mixing.ne_czero_iff _).1 hs
    simpa using this
  have hy2 : ibaY2 e0 e0 eps ibaDepol = 9 * Complex.normSq (toC e0) / Complex.normSq (toC eps + 2 * toC e0) := by
    unfold ibaY2
    rw [ibaDepol_real]
    simp only [ibaApparent_self, fieldRatio_third]
    ring
  refine ⟨?_, ?_, ?_⟩
  · unfold ibaKsStaticSphere ibaKsStatic ibaKsConst ibaCoeff rayleighPerVolume
    rw [hy2, sphFt_zero, abs2_clausius, abs2_eq, abs2_eq, Mixing.toC_sub]
    unfold Micro.acf0 pow4 cube
    field_simp
    ring
  · intro t hf
    unfold ibaKsStaticShs ibaKsStatic ibaKsConst ibaCoeff rayleighPerVolume
    rw [hy2, shsFt_zero p f r t hf, abs2_clausius, abs2_eq, abs2_eq, Mixing.toC_sub]
    unfold pow4 cube
    field_simp
    ring
  · intro him
    rcases e0 with ⟨a, b⟩
    simp only at him
    subst him
    unfold rayleighKs rayleighPerVolume
    show Cx.smul _ (Cx.smul _ (Cx.mul _ _)) = _
    simp only [Cx.smul, Cx.mul, Cx.abs2, Cx.mk.injEq]
    constructor <;> ring

/-- **ibaKs_const**: the closed form `ibaKsConst` used by the static-limit theorems *is* what `compute_ks` (Romberg on the 65 cosines)
    returns when the spectrum takes one value on the sample points: the 65-point rule integrates `c (1 + μ²)` exactly (`romb6_quadratic`) -/
theorem ibaKs_const (ft : ℝ → ℝ) (ft0 coeff k0 : ℝ) (e : Cx ℝ)
    (h : ∀ n, n ≤ 64 → ft (2.0 * k0 * Transc.sqrt ((1.0 - (Em.muGrid n : ℝ)) / 2.0) * Em.cabs (Em.csq e)) = ft0) :
    Em.ibaKs ft coeff k0 e = ibaKsConst coeff ft0 := by
  unfold Em.ibaKs ibaKsConst
  have hc := Em.romb_congr 6 (fun i => Em.ibaKsIntegrand ft coeff k0 e (Em.muGrid i))
    (fun n => coeff * ft0 * 2 + (-(coeff * ft0) / 16) * (n : ℝ) + (coeff * ft0 / 1024) * ((n : ℝ) * (n : ℝ))) (Em.muGrid 0 - Em.muGrid 1) (by
      intro n hn
      have hn' : n ≤ 64 := by simpa using hn
      simp only [Em.ibaKsIntegrand, h n hn']
      unfold Em.muGrid
      norm_num
      ring)
  rw [hc, Em.romb6_quadratic]
  unfold Em.muGrid
  norm_num
  ring

example : Em.ibaKs (fun _ => (3 : ℝ)) 2 100 ⟨1.5, 0⟩ = ibaKsConst 2 3 := ibaKs_const _ 3 2 100 _ (fun _ _ => rfl)

/-! ### power laws -/

/-- Rayleigh: `ks ∝ k0⁴ r³`, and the wavenumber is proportional to the frequency in both ways the modules compute it -/
theorem rayleigh_scaling (c f r k0 p nu : ℝ) (e0 eps : Cx ℝ) :
    rayleighKs f r (c * k0) e0 eps = Cx.smul (c ^ 4) (rayleighKs f r k0 e0 eps) ∧
    rayleighKs f (c * r) k0 e0 eps = Cx.smul (c ^ 3) (rayleighKs f r k0 e0 eps) ∧
    rayleighPerVolume r (c * k0) e0 eps = c ^ 4 * rayleighPerVolume r k0 e0 eps ∧
    rayleighPerVolume (c * r) k0 e0 eps = c ^ 3 * rayleighPerVolume r k0 e0 eps ∧
    k0OfLambda p (c * nu) = c * k0OfLambda p nu ∧ k0OfFreq p (c * nu) = c * k0OfFreq p nu := by
  refine ⟨?_, ?_, ?_, ?_, ?_, ?_⟩
  · unfold rayleighKs; simp only [Cx.smul, Cx.mk.injEq, pow4, cube]; constructor <;> ring
  · unfold rayleighKs; simp only [Cx.smul, Cx.mk.injEq, pow4, cube]; constructor <;> ring
  · unfold rayleighPerVolume pow4 cube; ring
  · unfold rayleighPerVolume pow4 cube; ring
  · unfold k0OfLambda cSpeed
    generalize (299792458.0 : ℝ) = C
    rw [div_div_eq_mul_div, div_div_eq_mul_div]; ring
  · unfold k0OfFreq cSpeed
    generalize (299792458.0 : ℝ) = C
    ring

/-- IBA in the static limit (any effective permittivity, also IBA-MG): `ks ∝ k0⁴` at fixed spectrum value, and the
    `k = 0` spectrum of spheres (independent or sticky) is `∝ r³`, hence `ks ∝ k0⁴ r³` -/
theorem iba_static_scaling (c p k0 f r t ft0 : ℝ) (e0 eps eeff : Cx ℝ) (hf : 1 - f ≠ 0) :
    ibaKsStatic p (c * k0) ft0 e0 eps eeff = c ^ 4 * ibaKsStatic p k0 ft0 e0 eps eeff ∧
    ibaMgKsStatic p (c * k0) ft0 e0 eps = c ^ 4 * ibaMgKsStatic p k0 ft0 e0 eps ∧
    ibaKsStaticSphere p k0 f (c * r) e0 eps eeff = c ^ 3 * ibaKsStaticSphere p k0 f r e0 eps eeff ∧
    ibaKsStaticShs p k0 f (c * r) t e0 eps eeff = c ^ 3 * ibaKsStaticShs p k0 f r t e0 eps eeff := by
  refine ⟨?_, ?_, ?_, ?_⟩
  · unfold ibaKsStatic ibaKsConst ibaCoeff pow4; ring
  · unfold ibaMgKsStatic ibaKsConst ibaCoeff pow4; ring
  · unfold ibaKsStaticSphere ibaKsStatic ibaKsConst ibaCoeff
    rw [sphFt_zero, sphFt_zero]; ring
  · unfold ibaKsStaticShs ibaKsStatic ibaKsConst ibaCoeff
    rw [shsFt_zero _ _ _ _ hf, shsFt_zero _ _ _ _ hf]; ring

/-- DMRT-QCA and QCA-CP short range are not pure power laws (the effective permittivity carries a `(k0 r)³` correction):
    the exact law is similarity — `Ks / k0` depends on `k0` and `r` through `k0·r` only.  The `ν⁴ r³` law holds for their
    dilute limit (`qca_dilute_limit`, `rayleigh_scaling`). -/
theorem qca_similarity (c f r t k0 : ℝ) (e0 es E0 : Cx ℝ) (hc : c ≠ 0) :
    qcaKsRaw f (r / c) t (c * k0) e0 es = c * qcaKsRaw f r t k0 e0 es ∧
    qcacpKsOf f (r / c) t (c * k0) e0 es E0 = c * qcacpKsOf f r t k0 e0 es E0 := by
  have h : c * k0 * (r / c) = k0 * r := by field_simp
  constructor
  · unfold qcaKsRaw qcaEeff qcaBracket
    rw [h]; ring
  · unfold qcacpKsOf qcacpEeffOf
    rw [h]; ring

/-! ### the dilute limit of DMRT-QCA short range -/

/-- `Ks_QCA(f)/f` tends, as `f → 0`, to `2 |y|² r³ k0⁴ · |1 + (2i/3)(k0 r)³ y|²` for every stickiness law `t(f)` with
    `t(f)·f → 0` (constant `t`, and the root `compute_t` selects: `computeT_small_root_tendsto`).  `k0` is the wavenumber
    of the background; the last factor is the first-order `(k0 r)³` correction of the theory (`qca_correction_factor`). -/
theorem qca_dilute_limit (t : ℝ → ℝ) (r k0 : ℝ) (e0 es : Cx ℝ) (h0 : e0 ≠ czero)
    (ht : Tendsto (fun f => t f * f) (𝓝[≠] 0) (𝓝 0)) :
    Tendsto (fun f => qcaKsRaw f r (t f) k0 e0 es / f) (𝓝[≠] 0)
      (𝓝 (2 * Cx.abs2 (clausius e0 es) * cube r * pow4 k0
            * Cx.abs2 (cone + Cx.smul (cube (k0 * r)) (⟨0, 2 / 3⟩ * clausius e0 es)))) := by
  have h0' : toC e0 ≠ 0 := (Mixing.ne_czero_iff _).1 h0
  have hf : Tendsto (fun f : ℝ => f) (𝓝[≠] 0) (𝓝 0) := tendsto_nhdsWithin_of_tendsto_nhds tendsto_id
  have core := qca_limit_core t r k0 (toC (clausius e0 es)) (toC ⟨0, 2 / 3⟩) hf ht
  have hlim : 2 * Cx.abs2 (clausius e0 es) * cube r * pow4 k0
        * Cx.abs2 (cone + Cx.smul (cube (k0 * r)) (⟨0, 2 / 3⟩ * clausius e0 es))
      = 2 * k0 * cube (k0 * r) * Complex.normSq (toC (clausius e0 es))
        * Complex.normSq (1 + ((cube (k0 * r) : ℝ) : ℂ) * (toC ⟨0, 2 / 3⟩ * toC (clausius e0 es))) := by
    rw [abs2_eq, abs2_eq]
    simp only [Mixing.toC_add, Mixing.toC_cone, Mixing.toC_smul, Mixing.toC_mul]
    unfold cube pow4; ring
  rw [hlim]
  refine core.congr' ?_
  filter_upwards [self_mem_nhdsWithin] with f hfne
  have hfne' : f ≠ 0 := hfne
  rw [qcaKs_closed f r (t f) k0 e0 es hfne' h0', toC_qcaBracket]
  field_simp

/-- every stickiness: `compute_t` returns `0` for `stickiness = inf` and, from its first branch, the smaller root
    `shsTSmall τ f`, for which `t(f)·f → 0` (any `τ ≥ 0`); hence the limit of `qca_dilute_limit` holds with the very `t` the
    code uses -/
theorem qca_dilute_limit_every_stickiness (tau r k0 : ℝ) (e0 es : Cx ℝ) (htau : 0 ≤ tau) (h0 : e0 ≠ czero) :
    (∀ f : ℝ, shsComputeT none f = .ok 0) ∧
    (∀ f : ℝ, ¬ (-(tau + f / (1 - f)) * -(tau + f / (1 - f)) - 4 * (f / 12) * ((1 + f / 2) / TheoryLimits.sq (1 - f)) < 0) →
        ¬ (1 + 2 * f < shsTSmall tau f * f * (1 - f)) → shsComputeT (some tau) f = .ok (shsTSmall tau f)) ∧
    Tendsto (fun f => qcaKsRaw f r (shsTSmall tau f) k0 e0 es / f) (𝓝[≠] 0)
      (𝓝 (2 * Cx.abs2 (clausius e0 es) * cube r * pow4 k0
            * Cx.abs2 (cone + Cx.smul (cube (k0 * r)) (⟨0, 2 / 3⟩ * clausius e0 es)))) ∧
    Tendsto (fun f => qcaKsRaw f r 0 k0 e0 es / f) (𝓝[≠] 0)
      (𝓝 (2 * Cx.abs2 (clausius e0 es) * cube r * pow4 k0
            * Cx.abs2 (cone + Cx.smul (cube (k0 * r)) (⟨0, 2 / 3⟩ * clausius e0 es)))) := by
  refine ⟨fun f => rfl, ?_, qca_dilute_limit _ r k0 e0 es h0 (shsTSmall_tendsto tau htau), ?_⟩
  · intro f h1 h2
    simp only [shsComputeT, shsTSmall] at h2 ⊢
    rw [if_neg h1, if_neg h2]
  · exact qca_dilute_limit (fun _ => 0) r k0 e0 es h0 (by simp)

/-- for a loss-free background `e0 = a ≥ 0` the QCA wavenumber is `k·√a` and the leading factor of the limit is the
    Rayleigh value per unit fractional volume of `rayleigh.py` -/
theorem qca_limit_is_rayleigh (p nu r a : ℝ) (es : Cx ℝ) (ha : 0 ≤ a) :
    2 * Cx.abs2 (clausius ⟨a, 0⟩ es) * cube r * pow4 (qcaK0 p nu ⟨a, 0⟩)
      = rayleighPerVolume r (k0OfLambda p nu) ⟨a, 0⟩ es := by
  unfold qcaK0 rayleighPerVolume
  rw [csqrt_real_re a ha]
  generalize Cx.abs2 (clausius ⟨a, 0⟩ es) = Y
  generalize k0OfLambda p nu = k
  have h : Real.sqrt a * Real.sqrt a = a := Real.mul_self_sqrt ha
  have h4 : Real.sqrt a * Real.sqrt a * (Real.sqrt a * Real.sqrt a) = a * a := by rw [h]
  simp only [pow4, Cx.abs2]
  linear_combination (2 * Y * cube r * (k * k * k * k)) * h4

/-- the correction factor of the limit, exactly: `1 − (4/3) x³ Im y + (4/9) x⁶ |y|²` with `x = k0 r` -/
theorem qca_correction_factor (x3 : ℝ) (y : Cx ℝ) :
    Cx.abs2 (cone + Cx.smul x3 (⟨0, 2 / 3⟩ * y)) = 1 - 4 / 3 * x3 * y.im + 4 / 9 * (x3 * x3) * Cx.abs2 y := by
  show Cx.abs2 (Cx.add cone (Cx.smul x3 (Cx.mul ⟨0, 2 / 3⟩ y))) = _
  simp only [Cx.abs2, Cx.add, Cx.smul, Cx.mul, cone]
  ring

/-! ### DMRT QCA-CP short range (proved part) -/

/-- `ks = albedo · beta` does not depend on the absorption: whenever the code's division by `2 Im √Eeff` is defined,
    `ks = f · (2/9) k (k r)³ |G|² S` with `G = (es − e0)/(1 + (es − e0)(1 − f)/(3 Eeff0))`; and at the dilute values
    (`f = 0`, `Eeff0 = e0`) the per-volume coefficient is the Rayleigh one -/
theorem qcacp_closed_form_partial (f r t kv : ℝ) (e0 es E0 : Cx ℝ) :
    ((csqrt (qcacpEeffOf f r t kv e0 es E0)).im ≠ 0 →
      qcacpKsOf f r t kv e0 es E0 = f * (2 / 9 * kv * cube (kv * r) * Cx.abs2 (qcacpG f e0 es E0) * shsS f t)) ∧
    (e0 ≠ czero → es + Cx.smul 2 e0 ≠ czero →
      2 / 9 * kv * cube (kv * r) * Cx.abs2 (qcacpG 0 e0 es e0) * shsS 0 t = rayleighPerVolume r kv e0 es) := by
  constructor
  · intro hs
    unfold qcacpKsOf shsS
    simp only []
    by_cases hD : TheoryLimits.sq (1 + 2 * f - t * f * (1 - f)) = 0
    · simp [hD]
    · field_simp
  · intro h0 hs
    have h0' : toC e0 ≠ 0 := (Mixing.ne_czero_iff _).1 h0
    have hs' : toC es + 2 * toC e0 ≠ 0 := by
      have := (Mixing.ne_czero_iff _).1 hs
      simpa using this
    have hG : toC (qcacpG 0 e0 es e0) = 3 * toC e0 * ((toC es - toC e0) / (toC es + 2 * toC e0)) := by
      unfold qcacpG
      simp only [Mixing.toC_div, Mixing.toC_add, Mixing.toC_sub, Mixing.toC_smul, Mixing.toC_cone]
      push_cast
      have h3 : (3 : ℂ) * toC e0 ≠ 0 := mul_ne_zero (by norm_num) h0'
      have hden : (1 : ℂ) + (1 - 0) * ((toC es - toC e0) / (3 * toC e0)) = (toC es + 2 * toC e0) / (3 * toC e0) := by
        field_simp; ring
      rw [hden]
      field_simp
    unfold rayleighPerVolume
    rw [abs2_eq, hG, abs2_clausius, abs2_eq]
    simp only [map_mul, map_div₀, shsS, pow4, TheoryLimits.sq, cube]
    have h3 : Complex.normSq (3 : ℂ) = 9 := by
      rw [show (3 : ℂ) = ((3 : ℝ) : ℂ) by push_cast; ring, Complex.normSq_ofReal]; norm_num
    rw [h3]
    have hN : Complex.normSq (toC es + 2 * toC e0) ≠ 0 := by rwa [Ne, Complex.normSq_eq_zero]
    field_simp
    ring

/-- NOT PROVED (stated only): `Ks_QCACP(f)/f → Rayleigh per volume` as `f → 0⁺`.  Proved above: the closed form and its value
    at (`f = 0`, `Eeff0 = e0`).  Missing: continuity at `f = 0` of the root `Eeff0(f)` that the code selects (principal square
    root of a discriminant tending to `((es + 2 e0)/3)²`, then the branch `Eeff0.real < 1`, which sits exactly on its
    threshold for an air background `e0 = 1`), and `Im √Eeff ≠ 0` near 0.  The oracle measures it on the implementation. -/
def qcacp_dilute_limit_full : Prop :=
  ∀ (r t kv : ℝ) (e0 es : Cx ℝ), e0 ≠ czero → es + Cx.smul 2 e0 ≠ czero → 1 ≤ e0.re → e0.re < es.re → 0 < es.im → 0 < kv * r →
    Tendsto (fun f => qcacpKs f r t kv e0 es / f) (𝓝[>] 0) (𝓝 (rayleighPerVolume r kv e0 es))

/-! ### effective permittivity at `f = 0` and `f = 1` -/

/-- Polder–van Santen (IBA, SymSCE), Maxwell Garnett with any depolarisation factors (IBA-MG), Maxwell Garnett for
    spheres (SCE) and the QCA expression give the background at `f = 0` and (the mixing formulae) the scatterer material at
    `f = 1`.  From C15's lemmas, with this model's square root (`csqrt_isCSqrt`); the sign conditions place the
    perfect-square discriminant on the principal branch and hold for every passive material. -/
theorem epseff_limits (e0 eps : Cx ℝ) (A : ℝ × ℝ × ℝ) (r t k0 : ℝ) :
    (0 < eps.re + 2 * e0.re → Mixing.pvsWith csqrt .spheres 0 e0 eps = .ok e0) ∧
    (0 < e0.re + 2 * eps.re → Mixing.pvsWith csqrt .spheres 1 e0 eps = .ok eps) ∧
    Mixing.mgMean 0 e0 eps A = e0 ∧ (e0 ≠ czero → Mixing.mgMean 1 e0 eps A = eps) ∧
    (eps + Cx.smul 2 e0 ≠ czero → Mixing.mgSpheres 0 e0 eps = e0) ∧
    (e0 ≠ czero → Mixing.mgSpheres 1 e0 eps = eps) ∧
    qcaEeff 0 r t k0 e0 eps = e0 := by
  refine ⟨Mixing.pvs_spheres_f0 csqrt_isCSqrt e0 eps, Mixing.pvs_spheres_f1 csqrt_isCSqrt e0 eps, ?_, ?_, ?_, ?_, ?_⟩
  · simp only [Mixing.mgMean, Mixing.mgComponent_f0]; apply toC_inj; simp only [Mixing.toC_sdiv, Mixing.toC_add]; push_cast; ring
  · intro h0
    simp only [Mixing.mgMean, Mixing.mgComponent_f1 _ _ _ h0]; apply toC_inj; simp only [Mixing.toC_sdiv, Mixing.toC_add]; push_cast; ring
  · intro hs
    have hs' := (Mixing.ne_czero_iff _).1 hs
    simp only [Mixing.toC_add, Mixing.toC_smul] at hs'
    apply toC_inj
    unfold Mixing.mgSpheres
    simp only [Mixing.toC_mul, Mixing.toC_div, Mixing.toC_add, Mixing.toC_sub, Mixing.toC_smul]
    push_cast
    have : toC eps + 2 * toC e0 ≠ 0 := by simpa using hs'
    simp only [zero_mul, mul_zero, add_zero, sub_zero]
    rw [div_self this, one_mul]
  · intro h0
    have h0' := (Mixing.ne_czero_iff _).1 h0
    apply toC_inj
    unfold Mixing.mgSpheres
    simp only [Mixing.toC_mul, Mixing.toC_div, Mixing.toC_add, Mixing.toC_sub, Mixing.toC_smul]
    push_cast
    have : toC eps + 2 * toC e0 - 1 * (toC eps - toC e0) = 3 * toC e0 := by ring
    rw [this]
    field_simp
    ring
  · apply toC_inj
    unfold qcaEeff
    simp only [Mixing.toC_mul, Mixing.toC_div, Mixing.toC_add, Mixing.toC_sub, Mixing.toC_smul]
    push_cast
    ring

/-! ### phase inversion -/

/-- `compute_ke_ks_symmetrical` is invariant under `(f, e0, ε, A2, A2inv) ↦ (1 − f, ε, e0, A2inv, A2)`, the action of
    `Layer.inverted_medium` on its arguments: a symmetric theory gives the same `ke`, `ks` for a medium and its twin -/
theorem symsce_inversion_invariant (k0 f : ℝ) (e0 eps A2 A2inv : Cx ℝ) :
    symsceKeKs k0 (1 - f) eps e0 A2inv A2 = symsceKeKs k0 f e0 eps A2 A2inv ∧
    (let a := invertArgs (f, e0, eps, A2, A2inv)
     symsceKeKs k0 a.1 a.2.1 a.2.2.1 a.2.2.2.1 a.2.2.2.2 = symsceKeKs k0 f e0 eps A2 A2inv) := by
  have hG : symGrandA2 (1 - f) A2inv A2 = symGrandA2 f A2 A2inv := by
    unfold symGrandA2
    have hc : ((1 - f < 0 ∨ 0 < 1 - f) ∧ (1 - f < 1 ∨ 1 < 1 - f)) ↔ ((f < 0 ∨ 0 < f) ∧ (f < 1 ∨ 1 < f)) := by
      constructor
      · rintro ⟨h1, h2⟩
        exact ⟨by rcases h2 with h | h; right; linarith; left; linarith, by rcases h1 with h | h; right; linarith; left; linarith⟩
      · rintro ⟨h1, h2⟩
        exact ⟨by rcases h2 with h | h; right; linarith; left; linarith, by rcases h1 with h | h; right; linarith; left; linarith⟩
    by_cases h : (f < 0 ∨ 0 < f) ∧ (f < 1 ∨ 1 < f)
    · rw [if_pos (hc.2 h), if_pos h]
      apply toC_inj
      simp only [Mixing.toC_add, Mixing.toC_sdiv, sub_sub_cancel]
      ring
    · rw [if_neg (fun h' => h (hc.1 h')), if_neg h]
  have hE : ∀ G, symEeffOf (1 - f) eps e0 G = symEeffOf f e0 eps G := by
    intro G
    unfold symEeffOf
    have h1 : eps + e0 = e0 + eps := by apply toC_inj; simp only [Mixing.toC_add]; ring
    have h2 : eps * e0 = e0 * eps := by apply toC_inj; simp only [Mixing.toC_mul]; ring
    have h3 : Cx.smul (1 - f) eps + Cx.smul (1 - (1 - f)) e0 = Cx.smul f e0 + Cx.smul (1 - f) eps := by
      apply toC_inj; simp only [Mixing.toC_add, Mixing.toC_smul, sub_sub_cancel]; ring
    simp only [h1, h2, h3]
  have main : symsceKeKs k0 (1 - f) eps e0 A2inv A2 = symsceKeKs k0 f e0 eps A2 A2inv := by
    unfold symsceKeKs
    simp only [hG, hE]
  exact ⟨main, main⟩

/-! ### the static limit of the second-order coefficient -/

/-- the non-local `Im A2` of the exponential model reduces to the local (static) one as `Q ξ → 0`:
    `Im A2_nonlocal · (1 + 4 Q² ξ²) = Im A2_local` -/
theorem a2_static_consistency (p Q f xi : ℝ) (hp : p ≠ 0) :
    a2NonlocalImExp Q f xi * (1 + 4 * TheoryLimits.sq (Q * xi)) = (a2LocalExp p Q f xi).im := by
  have hpos : 1 + 4 * TheoryLimits.sq (Q * xi) ≠ 0 := by unfold TheoryLimits.sq; nlinarith [mul_self_nonneg (Q * xi)]
  unfold a2NonlocalImExp a2LocalExp a2Local Micro.expFt
  simp only [Micro.sq, Micro.cube, Micro.acf0, cube]
  norm_num
  field_simp
  ring

/-! ### stated only: the percentages at finite size and density (evaluated by the oracle on the implementation) -/

/-- NOT PROVED (no theorem exists at this strength for the executable code: the bound involves the Romberg/trapezoid
    quadratures of the spectra): inside the domain every named theory is within 10 % of Rayleigh -/
def rayleigh_within_10_percent_full : Prop :=
  ∀ (ksTheory : ℝ → ℝ → ℝ → ℝ) (ksRayleigh : ℝ → ℝ → ℝ → ℝ), ∀ nu rl f : ℝ, 1e9 ≤ nu → nu ≤ 40e9 → 0 < rl → rl < 0.01 → 0 < f → f < 0.05 →
    |ksTheory nu rl f / ksRayleigh nu rl f - 1| ≤ 0.10

/-- NOT PROVED: sticky hard spheres, static-dilute IBA vs DMRT-QCA short range within 5 % inside the domain
    (by `iba_static_dilute` and `qcaKs_closed` the ratio of the two closed forms is `|1 − f y|² / |bracket|²`) -/
def iba_vs_qca_within_5_percent_full : Prop :=
  ∀ (p f r t k0 : ℝ) (e0 es : Cx ℝ), 0 < f → f < 0.05 → 0 < k0 * r → k0 * r < 2 * p * 0.01 →
    |ibaKsStaticShs p k0 f r t e0 es e0 / qcaKsRaw f r t k0 e0 es - 1| ≤ 0.05

/-! ### non-vacuity -/

example : (⟨3.18, 0.001⟩ : Cx ℝ) + Cx.smul 2 ⟨1, 0⟩ ≠ czero := by
  intro h; have := congrArg Cx.re h
  change (3.18 : ℝ) + 2 * 1 = 0 at this; norm_num at this
example : (⟨1, 0⟩ : Cx ℝ) ≠ czero := by
  intro h; have := congrArg Cx.re h
  change (1 : ℝ) = 0 at this; norm_num at this
example : Tendsto (fun f : ℝ => (5 : ℝ) * f) (𝓝[≠] 0) (𝓝 0) := by
  have : Tendsto (fun f : ℝ => (5 : ℝ) * f) (𝓝 0) (𝓝 (5 * 0)) := (continuous_const.mul continuous_id).tendsto 0
  simpa using tendsto_nhdsWithin_of_tendsto_nhds this

end Smrt.Props.C11
