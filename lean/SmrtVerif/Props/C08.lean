/-
  C08 — numerical options change cost, not physics; failures are reported, not hidden.

  Theorems: the control flow of `dort` under eigen-solver failures (every fault site, both `error_handling` values), the
  decision logic of `validate_eigen`, the 30 % guard of the phase normalisation, the pruning criterion, and the
  invariance of the boundary system under a permutation / rescaling of the eigen-basis (why the three diagonalisation
  methods agree wherever each returns a valid decomposition).  The analytic bounds (pruning with scattering, stream
  doubling) have no theorem (see `prune_bound_full`, `stream_doubling_full`).
-/
import SmrtVerif.Model.DortFlow
import SmrtVerif.Model.Eigen
import SmrtVerif.Model.Dort
import SmrtVerif.Proofs.Sum
import SmrtVerif.Proofs.Split
import SmrtVerif.Proofs.RealTransc
import Mathlib.Tactic.Ring
import Mathlib.Tactic.Linarith
import Mathlib.Tactic.SplitIfs
import Mathlib.Algebra.BigOperators.Group.Finset.Basic
import Mathlib.Tactic.FieldSimp
import Mathlib.Tactic.LinearCombination

set_option linter.unusedSectionVars false
set_option linter.unusedVariables false

namespace Smrt.Props.C08
open Smrt Smrt.Flow

/-- does some call of the eigen-solver made for mode `m` fail? (all layers, total pass, and the coherent pass if active) -/
def modeFails (active : Bool) (L : Nat) (fail : Site → Bool) (m : Nat) : Bool :=
  (List.range L).any (fun l => fail ⟨l, m, false⟩) || (active && (List.range L).any (fun l => fail ⟨l, m, true⟩))

theorem go_spec (active : Bool) (L : Nat) (fail : Site → Bool) (h : Handling) (ms : List Nat) (acc : Mask) :
    modeLoop.go active L fail h ms acc =
      if ms.any (modeFails active L fail) then (match h with | .nan => .values .allNaN | .exception => .raised)
      else .values acc := by
  induction ms generalizing acc with
  | nil => simp [modeLoop.go]
  | cons m rest ih =>
    simp only [modeLoop.go, modemPass, List.any_cons, modeFails]
    cases h <;> cases active <;>
      by_cases h1 : (List.range L).any (fun l => fail ⟨l, m, false⟩) = true <;>
      by_cases h2 : (List.range L).any (fun l => fail ⟨l, m, true⟩) = true <;>
      simp [h1, h2, ih, modeFails]

/-- a fault site the solver actually reaches: a layer of the stack, a mode it computes, the coherent pass only in active mode -/
def Reached (active : Bool) (mmax L : Nat) (s : Site) : Prop :=
  s.l < L ∧ s.m ≤ (if active then mmax else 0) ∧ (s.coh = true → active = true)

theorem any_modeFails_of_reached (active : Bool) (mmax L : Nat) (fail : Site → Bool) (s : Site)
    (hr : Reached active mmax L s) (hf : fail s = true) :
    (List.range ((if active then mmax else 0) + 1)).any (modeFails active L fail) = true := by
  obtain ⟨hl, hm, hc⟩ := hr
  rw [List.any_eq_true]
  refine ⟨s.m, List.mem_range.mpr (by omega), ?_⟩
  unfold modeFails
  obtain ⟨sl, sm, sc⟩ := s
  simp only at hl hm hc hf ⊢
  cases sc
  · have : (List.range L).any (fun l => fail ⟨l, sm, false⟩) = true := by
      rw [List.any_eq_true]; exact ⟨sl, List.mem_range.mpr hl, hf⟩
    simp [this]
  · have ha : active = true := hc rfl
    have : (List.range L).any (fun l => fail ⟨l, sm, true⟩) = true := by
      rw [List.any_eq_true]; exact ⟨sl, List.mem_range.mpr hl, hf⟩
    simp [this, ha]

/-- **fault_exception**: with `error_handling='exception'`, a failure at *any* reached site — any layer, any azimuth
    mode, total or coherent pass — makes the run end in `SMRTError` -/
theorem fault_exception (active : Bool) (mmax L : Nat) (fail : Site → Bool) (s : Site)
    (hr : Reached active mmax L s) (hf : fail s = true) :
    modeLoop active mmax L fail .exception = .raised := by
  unfold modeLoop
  rw [go_spec, any_modeFails_of_reached active mmax L fail s hr hf]; rfl

/-- **fault_nan**: with `error_handling='nan'` the run returns (it does not raise) and *every* class of entries of the
    result — V/H and U rows and columns alike — is NaN -/
theorem fault_nan (active : Bool) (mmax L : Nat) (fail : Site → Bool) (s : Site)
    (hr : Reached active mmax L s) (hf : fail s = true) :
    modeLoop active mmax L fail .nan = .values .allNaN := by
  unfold modeLoop
  rw [go_spec, any_modeFails_of_reached active mmax L fail s hr hf]; rfl

/-- without any failure the result is finite everywhere, whatever the handling -/
theorem no_fault_finite (active : Bool) (mmax L : Nat) (h : Handling) :
    modeLoop active mmax L (fun _ => false) h = .values .finite := by
  unfold modeLoop
  rw [go_spec]
  have : (List.range ((if active then mmax else 0) + 1)).any (modeFails active L (fun _ => false)) = false := by
    rw [List.any_eq_false]; intro m _; simp [modeFails]
  simp [this]

/-! ### `validate_eigen` and the normalisation guard -/

/-- **validate_rejects**: the eigen-decomposition is refused (SMRTError) exactly when some eigenvalue has a non-zero
    imaginary part beyond `max(Re β)·1e-7` or some eigenvector entry a non-zero imaginary part beyond `1e-6` -/
theorem validate_rejects (maxRe : ℝ) (imB imE : List ℝ) :
    eigenRejected maxRe imB imE = true ↔
      (∃ v ∈ imB, ¬ v ≤ maxRe * 1e-07 ∧ v ≠ 0) ∨ (∃ v ∈ imE, ¬ v ≤ 1e-6 ∧ v ≠ 0) := by
  simp [eigenRejected, notAllClose, List.any_eq_true]

/-- **threshold_raises**: with `phase_normalization=True` a normalisation factor further than 30 % from 1 in any row is
    refused — never a silently normalised matrix -/
theorem threshold_raises (N : Nat) (nrm : Nat → ℝ) :
    Eigen.normOutOfRange N nrm = true ↔ ∃ r, r < N ∧ ((0.3 : ℝ) < nrm r - 1 ∨ (0.3 : ℝ) < 1 - nrm r) := by
  simp [Eigen.normOutOfRange, List.any_eq_true]

/-! ### the boundary system does not depend on the eigen-basis chosen by the diagonalisation method -/
section invariance
open Smrt.Dort

/-- a re-ordering `σ` (with inverse `τ` on `[0, N)`) and a non-zero rescaling `s` of the eigenvectors of one layer -/
structure Rebase (N : Nat) where
  σ : Nat → Nat
  τ : Nat → Nat
  s : Nat → ℝ
  σ_lt : ∀ j, j < N → σ j < N
  τ_lt : ∀ j, j < N → τ j < N
  στ : ∀ j, j < N → σ (τ j) = j
  τσ : ∀ j, j < N → τ (σ j) = j
  s_ne : ∀ j, s j ≠ 0

/-- the layer with its eigen-solution re-ordered and rescaled: `(β', E') = (β∘σ, E[:, σ]·diag s)` -/
def rebaseLayer (ly : DLayer ℝ) {N : Nat} (rb : Rebase N) : DLayer ℝ :=
  { ly with beta := fun j => ly.beta (rb.σ j),
            eu := ⟨ly.eu.r, ly.eu.c, fun i j => ly.eu.f i (rb.σ j) * rb.s j⟩,
            ed := ⟨ly.ed.r, ly.ed.c, fun i j => ly.ed.f i (rb.σ j) * rb.s j⟩ }

theorem cvMulMat_rebase (R : CV ℝ) (E : Mat ℝ) (σ : Nat → Nat) (s : Nat → ℝ) (i j : Nat) :
    cvMulMat R ⟨E.r, E.c, fun a b => E.f a (σ b) * s b⟩ i j = cvMulMat R E i (σ j) * s j := by
  cases R with
  | zero => simp [cvMulMat]
  | diag d => simp only [cvMulMat]; ring
  | dense m =>
    simp only [cvMulMat, sumN_eq_sum, Finset.sum_mul]
    apply Finset.sum_congr rfl; intro k _; ring

theorem sum_rebase {N : Nat} (rb : Rebase N) (g : Nat → ℝ) :
    sumN N (fun j => g (rb.σ j)) = sumN N g := by
  rw [sumN_eq_sum, sumN_eq_sum]
  apply Finset.sum_nbij' rb.σ rb.τ
  · intro a ha; exact Finset.mem_range.mpr (rb.σ_lt a (Finset.mem_range.mp ha))
  · intro a ha; exact Finset.mem_range.mpr (rb.τ_lt a (Finset.mem_range.mp ha))
  · intro a ha; exact rb.τσ a (Finset.mem_range.mp ha)
  · intro a ha; exact rb.στ a (Finset.mem_range.mp ha)
  · intro a _; rfl

/-- each of the four blocks of a rebased layer, applied to the rebased unknowns `x'_j = x_{σ j} / s_j`, gives what the
    original block gives on the original unknowns -/
theorem blocks_rebase (ly : DLayer ℝ) {N : Nat} (rb : Rebase N) (x : Nat → ℝ) (i : Nat) :
    sumN N (fun j => topBlock (rebaseLayer ly rb) i j * (x (rb.σ j) / rb.s j)) = sumN N (fun j => topBlock ly i j * x j) ∧
    sumN N (fun j => botBlock (rebaseLayer ly rb) i j * (x (rb.σ j) / rb.s j)) = sumN N (fun j => botBlock ly i j * x j) ∧
    sumN N (fun j => upBlock (rebaseLayer ly rb) i j * (x (rb.σ j) / rb.s j)) = sumN N (fun j => upBlock ly i j * x j) ∧
    sumN N (fun j => downBlock (rebaseLayer ly rb) i j * (x (rb.σ j) / rb.s j)) = sumN N (fun j => downBlock ly i j * x j) := by
  have tt : ∀ j, transt (rebaseLayer ly rb) j = transt ly (rb.σ j) := fun j => rfl
  have tb : ∀ j, transb (rebaseLayer ly rb) j = transb ly (rb.σ j) := fun j => rfl
  have key : ∀ (c : ℝ) (j : Nat), c * rb.s j * (x (rb.σ j) / rb.s j) = c * x (rb.σ j) := by
    intro c j; have := rb.s_ne j; field_simp
  refine ⟨?_, ?_, ?_, ?_⟩
  · rw [← sum_rebase rb (fun j => topBlock ly i j * x j)]
    apply sumN_congr; intro j
    rw [topBlock_eq, topBlock_eq, tt]
    show ((ly.ed.f i (rb.σ j) * rb.s j) - cvMulMat ly.rtop ⟨ly.eu.r, ly.eu.c, fun a b => ly.eu.f a (rb.σ b) * rb.s b⟩ i j)
        * transt ly (rb.σ j) * (x (rb.σ j) / rb.s j) = _
    rw [cvMulMat_rebase]
    have := key ((ly.ed.f i (rb.σ j) - cvMulMat ly.rtop ly.eu i (rb.σ j)) * transt ly (rb.σ j)) j
    linear_combination this
  · rw [← sum_rebase rb (fun j => botBlock ly i j * x j)]
    apply sumN_congr; intro j
    rw [botBlock_eq, botBlock_eq, tb]
    show ((ly.eu.f i (rb.σ j) * rb.s j) - cvMulMat ly.rbot ⟨ly.ed.r, ly.ed.c, fun a b => ly.ed.f a (rb.σ b) * rb.s b⟩ i j)
        * transb ly (rb.σ j) * (x (rb.σ j) / rb.s j) = _
    rw [cvMulMat_rebase]
    have := key ((ly.eu.f i (rb.σ j) - cvMulMat ly.rbot ly.ed i (rb.σ j)) * transb ly (rb.σ j)) j
    linear_combination this
  · rw [← sum_rebase rb (fun j => upBlock ly i j * x j)]
    apply sumN_congr; intro j
    rw [upBlock_eq, upBlock_eq, tt]
    show -(cvMulMat ly.ttop ⟨ly.eu.r, ly.eu.c, fun a b => ly.eu.f a (rb.σ b) * rb.s b⟩ i j)
        * transt ly (rb.σ j) * (x (rb.σ j) / rb.s j) = _
    rw [cvMulMat_rebase]
    have := key (-(cvMulMat ly.ttop ly.eu i (rb.σ j)) * transt ly (rb.σ j)) j
    linear_combination this
  · rw [← sum_rebase rb (fun j => downBlock ly i j * x j)]
    apply sumN_congr; intro j
    rw [downBlock_eq, downBlock_eq, tb]
    show -(cvMulMat ly.tbot ⟨ly.ed.r, ly.ed.c, fun a b => ly.ed.f a (rb.σ b) * rb.s b⟩ i j)
        * transb ly (rb.σ j) * (x (rb.σ j) / rb.s j) = _
    rw [cvMulMat_rebase]
    have := key (-(cvMulMat ly.tbot ly.ed i (rb.σ j)) * transb ly (rb.σ j)) j
    linear_combination this

/-- the stack in which every layer's eigen-basis is re-ordered and rescaled (a different diagonalisation method) -/
def rebaseStack (S : DStack ℝ) (rb : ∀ l, Rebase (2 * ((S.lay l).n * S.npol))) : DStack ℝ :=
  { S with lay := fun l => rebaseLayer (S.lay l) (rb l) }

/-- **eigenbasis_invariance**: if `x` solves the boundary system built from one eigen-decomposition of every layer, then
    `x'_l,j = x_l,σ_l(j) / s_l,j` solves the system built from any re-ordered, rescaled decomposition, and the emerging
    intensity is the same — for every stack, mode and right-hand side.  This is why `eig`, `shur` and `shur_forcedtriu`
    give the same result wherever each returns a valid real decomposition of the same matrix with simple eigenvalues
    (the decomposition itself is LAPACK's and is not modelled). -/
theorem eigenbasis_invariance (S : DStack ℝ) (rb : ∀ l, Rebase (2 * ((S.lay l).n * S.npol)))
    (x : Nat → Nat → Nat → ℝ) (hsol : Solves S x) :
    let x' : Nat → Nat → Nat → ℝ := fun l j v => x l ((rb l).σ j) v / (rb l).s j
    Solves (rebaseStack S rb) x' ∧ ∀ i v, emergingB (rebaseStack S rb) x' i v = emergingB S x i v := by
  intro x'
  constructor
  · intro l hl i hi v
    obtain ⟨ht, hb⟩ := hsol l hl i hi v
    constructor
    · have e : lhsTop (rebaseStack S rb) x' l i v = lhsTop S x l i v := by
        simp only [lhsTop]
        show sumN (2 * ((S.lay l).n * S.npol)) (fun j => topBlock (rebaseLayer (S.lay l) (rb l)) i j * x' l j v)
            + (if 0 < l then
                (if i < commonRows S (S.lay (l - 1)).tbot ((S.lay (l - 1)).n * S.npol) (S.lay l).n
                  then sumN (2 * ((S.lay (l - 1)).n * S.npol))
                        (fun j => downBlock (rebaseLayer (S.lay (l - 1)) (rb (l - 1))) i j * x' (l - 1) j v) else 0)
               else 0) = _
        rw [(blocks_rebase (S.lay l) (rb l) (fun j => x l j v) i).1,
            (blocks_rebase (S.lay (l - 1)) (rb (l - 1)) (fun j => x (l - 1) j v) i).2.2.2]
      rw [e]; exact ht
    · have e : lhsBot (rebaseStack S rb) x' l i v = lhsBot S x l i v := by
        simp only [lhsBot]
        show sumN (2 * ((S.lay l).n * S.npol)) (fun j => botBlock (rebaseLayer (S.lay l) (rb l)) i j * x' l j v)
            + (if l + 1 < S.L then
                (if i < commonRows S (S.lay (l + 1)).ttop ((S.lay (l + 1)).n * S.npol) (S.lay l).n
                  then sumN (2 * ((S.lay (l + 1)).n * S.npol))
                        (fun j => upBlock (rebaseLayer (S.lay (l + 1)) (rb (l + 1))) i j * x' (l + 1) j v) else 0)
               else 0) = _
        rw [(blocks_rebase (S.lay l) (rb l) (fun j => x l j v) i).2.1,
            (blocks_rebase (S.lay (l + 1)) (rb (l + 1)) (fun j => x (l + 1) j v) i).2.2.1]
      rw [e]; exact hb
  · intro i v
    simp only [emergingB, emerging]
    have e : i1up (rebaseStack S rb) (x' 0) = i1up S (x 0) := by
      funext p q
      simp only [i1up]
      show sumN (2 * ((S.lay 0).n * S.npol))
            (fun k => (S.lay 0).eu.f p ((rb 0).σ k) * (rb 0).s k * transt (S.lay 0) ((rb 0).σ k) * (x 0 ((rb 0).σ k) q / (rb 0).s k))
          + _ = _
      congr 1
      rw [← sum_rebase (rb 0) (fun k => (S.lay 0).eu.f p k * transt (S.lay 0) k * x 0 k q)]
      apply sumN_congr; intro k
      have := (rb 0).s_ne k
      field_simp
    rw [e]
    rfl

end invariance

/-! ### pruning -/

/-- the criterion accumulates `min|β|·d`, a lower bound of the slant optical depth `|β_j|·d` of every eigen-stream -/
theorem prune_tau_slant (minAbsBeta absBetaJ d : ℝ) (hd : 0 ≤ d) (hmin : minAbsBeta ≤ absBetaJ) :
    minAbsBeta * d ≤ absBetaJ * d := mul_le_mul_of_nonneg_right hmin hd

/-- **prune_depth**: the number of layers kept is the first depth at which the accumulated optical depth exceeds the
    threshold (all layers if it never does): the kept prefix minus its last layer is still within the threshold -/
theorem prune_depth (tau : ℝ) (ods : List ℝ) (acc : ℝ) :
    keptLayers tau ods acc ≤ ods.length ∧
    (∀ k, k + 1 < keptLayers tau ods acc → acc + (ods.take (k + 1)).sum ≤ tau) := by
  induction ods generalizing acc with
  | nil => simp [keptLayers]
  | cons od rest ih =>
    simp only [keptLayers]
    split_ifs with hc
    · refine ⟨by simp, fun k hk => by omega⟩
    · obtain ⟨h1, h2⟩ := ih (acc + od)
      refine ⟨by simp; omega, ?_⟩
      intro k hk
      cases k with
      | zero => simp; linarith [not_lt.mp hc]
      | succ k =>
        have := h2 k (by omega)
        simp only [List.take_succ_cons, List.sum_cons] at this ⊢
        linarith

/-- the bound of the property for media with volume scattering (asserted nowhere; evaluated on real runs by the oracle) -/
def prune_bound_full : Prop :=
  ∀ (tbFull tbPruned contrast tau : ℝ), |tbFull - tbPruned| ≤ 5 * contrast * Real.exp (-tau)
def stream_doubling_full : Prop :=
  ∀ (n : Nat) (tbN tb2N : ℝ), 0 < n → |tb2N - tbN| < 200 / n

end Smrt.Props.C08
