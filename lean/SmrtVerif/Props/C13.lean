/-
  C13 — permittivity formulae are admissible, continuous in limits, mutually consistent.
  Property theorems over the model of `SmrtVerif/Model/Permittivity/*.lean` at `α := ℝ`.
  `Admissible r` = the call returned a value (no error) with `Re ≥ 1` and `Im ≥ 0`.
  Domains are written out as explicit inequalities; most theorems hold on a larger set than the documented range
  (ice: every `0 < T ≤ 273.15 K` and every `f > 0`, which contains 200 K..273.15 K × 0.3–200 GHz).
-/
import SmrtVerif.Model.Permittivity
import SmrtVerif.Proofs.Permittivity

namespace Smrt.Props.C13
open Smrt Smrt.Perm

/-! ### ice: admissibility on `0 < T ≤ 273.15 K`, `f > 0`; guards above the freezing point -/

theorem ice_maetzler06_admissible (f T : ℝ) (hf : 0 < f) (h0 : 0 < T) (hT : T ≤ 273.15) :
    Admissible (iceMaetzler06 f T) := by
  rw [iceMaetzler06_ok hT]
  refine admissible_ok (iceReal_ge_one (by linarith)) (le_of_lt ?_)
  have hθ := thetaIce_nonneg h0 (by linarith)
  have ha := huffordAlpha_pos hθ
  have hb := betaM0_pos h0
  have hg := fghz_pos hf
  have he := Real.exp_pos (-9.963 + 0.0372 * (T - 273.15))
  have h2 : 0 ≤ f / 1e9 * (f / 1e9) := mul_self_nonneg _
  exact hufford_im_pos ha (by nlinarith) hg

/-- no division by zero on the domain: `T ≠ 0`, `f/1e9 ≠ 0`, `exp(335/T) − 1 ≠ 0` -/
theorem ice_maetzler06_denominators (f T : ℝ) (hf : 0 < f) (h0 : 0 < T) :
    T ≠ 0 ∧ f / 1e9 ≠ 0 ∧ (Real.exp (335.0 / T) - 1) * (Real.exp (335.0 / T) - 1) ≠ 0 := by
  have h := betaM0_den_pos h0
  exact ⟨ne_of_gt h0, ne_of_gt (fghz_pos hf), ne_of_gt (mul_pos h h)⟩

theorem ice_maetzler06_guard (f T : ℝ) (h : 273.15 < T) : iceMaetzler06 f T = .error .smrt :=
  iceMaetzler06_guard h

example : Admissible (iceMaetzler06 (α := ℝ) 18e9 270) :=
  ice_maetzler06_admissible _ _ (by norm_num) (by norm_num) (by norm_num)

theorem ice_maetzler98_admissible (f T : ℝ) (hf : 0 < f) (h0 : 0 < T) (hT : T ≤ 273.15) :
    Admissible (iceMaetzler98 f T) := by
  have hg : ¬ (0 < T - (273.15 : ℝ)) := by linarith
  simp only [iceMaetzler98, freezingPoint, hg, if_false]
  have hθ := thetaIce_nonneg h0 (by linarith)
  exact admissible_ok (iceReal_ge_one (by linarith))
    (hufford_im_pos (huffordAlpha_pos hθ) (beta98_pos hθ).le (fghz_pos' hf)).le

theorem ice_maetzler98_guard (f T : ℝ) (h : 273.15 < T) : iceMaetzler98 f T = .error .smrt := by
  have hg : 0 < T - (273.15 : ℝ) := by linarith
  simp only [iceMaetzler98, freezingPoint, hg, if_true]

/-- both sides of the −10 °C branch -/
theorem ice_maetzler87_admissible (f T : ℝ) (hf : 0 < f) (h0 : 0 < T) (hT : T ≤ 273.15) :
    Admissible (iceMaetzler87 f T) := by
  have hg : ¬ (0 < T - (freezingPoint : ℝ)) := by unfold freezingPoint; linarith
  have hq := fghz_pos hf
  have hr : 1 ≤ iceReal (T - (freezingPoint : ℝ)) := iceReal_ge_one (by unfold freezingPoint; linarith)
  simp only [iceMaetzler87, hg, if_false]
  by_cases hb : T - (freezingPoint : ℝ) < -10.0
  · rw [if_pos hb]
    refine admissible_ok hr ?_
    have h1 : (0:ℝ) ≤ 3.5e-4 / (f / 1e9) := by positivity
    have h2 := rpow_nonneg (f / 1e9) 1.2
    dsimp only; nlinarith
  · rw [if_neg hb]
    refine admissible_ok hr ?_
    have h1 : (0:ℝ) ≤ 6e-4 / (f / 1e9) := by positivity
    have h2 := rpow_nonneg (f / 1e9) 1.07
    dsimp only; nlinarith

theorem ice_maetzler87_guard (f T : ℝ) (h : 273.15 < T) : iceMaetzler87 f T = .error .smrt := by
  have hg : 0 < T - (273.15 : ℝ) := by linarith
  simp only [iceMaetzler87, freezingPoint, hg, if_true]

theorem ice_tiuri84_admissible (f T : ℝ) (hf : 0 < f) (hT : T ≤ 273.15) :
    Admissible (iceTiuri84 f T) := by
  have hg : ¬ (0 < T - (273.15 : ℝ)) := by linarith
  simp only [iceTiuri84, freezingPoint, densityOfIce, hg, if_false, exp_eq, sqrt_eq]
  refine admissible_ok (by norm_num) ?_
  have h1 := Real.exp_pos (0.036 * (T - 273.15))
  have h2 := Real.sqrt_nonneg f
  positivity

theorem ice_tiuri84_guard (f T : ℝ) (h : 273.15 < T) : iceTiuri84 f T = .error .smrt := by
  have hg : 0 < T - (273.15 : ℝ) := by linarith
  simp only [iceTiuri84, freezingPoint, hg, if_true]

theorem ice_hufford91_admissible (f T : ℝ) (hf : 0 < f) (h0 : 100 ≤ T) (hT : T ≤ 273.15) :
    Admissible (iceHufford91 f T) := by
  have hg : ¬ ((273.15 : ℝ) < T) := by linarith
  have hT0 : (0 : ℝ) < T := by linarith
  simp only [iceHufford91, freezingPoint, hg, if_false]
  have hθ := thetaIce_nonneg hT0 (by linarith)
  have hθ3 : thetaIce T ≤ 3 := by
    unfold thetaIce
    have : 300.0 / T ≤ 3 := by rw [div_le_iff₀ hT0]; linarith
    linarith
  exact admissible_ok (iceReal_ge_one (by linarith))
    (hufford_im_pos (huffordAlpha_pos hθ) (betaHufford_pos hθ hθ3).le (fghz_pos' hf)).le

theorem ice_hufford91_guard (f T : ℝ) (h : 273.15 < T) : iceHufford91 f T = .error .smrt := by
  simp only [iceHufford91, freezingPoint, h, if_true]

/-- the HUT variant guards at 273.0 K -/
theorem ice_HUT_admissible (f T : ℝ) (hf : 0 < f) (h0 : 0 < T) (hT : T ≤ 273.0) :
    Admissible (iceHUT f T) := by
  have hg : ¬ ((273.0 : ℝ) < T) := by linarith
  simp only [iceHUT, hg, if_false]
  have hθ := thetaIce_nonneg h0 (by linarith)
  exact admissible_ok (iceReal_ge_one (by linarith))
    (hufford_im_pos (huffordAlpha_pos hθ) (betaLegacy_pos h0).le (fghz_pos' hf)).le

theorem ice_HUT_guard (f T : ℝ) (h : 273.0 < T) : iceHUT f T = .error .smrt := by
  simp only [iceHUT, h, if_true]

/-- `_ice_permittivity_DMRTML` has no guard: admissible up to 300 K (where Hufford's θ changes sign) -/
theorem ice_DMRTML_admissible (f T : ℝ) (hf : 0 < f) (h0 : 0 < T) (hT : T ≤ 300) :
    1 ≤ (iceDMRTML f T).re ∧ 0 ≤ (iceDMRTML f T).im := by
  simp only [iceDMRTML]
  have hθ := thetaIce_nonneg h0 hT
  exact ⟨iceReal_ge_one (by linarith),
    (hufford_im_pos (huffordAlpha_pos hθ) (betaLegacy_pos h0).le (fghz_pos' hf)).le⟩

/-- `_ice_permittivity_MEMLS` (salinity `S ≥ 0` in ppt), `T ≤ 273.16 K` keeps the salinity term's denominator positive -/
theorem ice_MEMLS_admissible (f T S : ℝ) (hf : 0 < f) (h0 : 0 < T) (hT : T ≤ 273.16) (hS : 0 ≤ S) :
    1 ≤ (iceMEMLS f T S).re ∧ 0 ≤ (iceMEMLS f T S).im := by
  simp only [iceMEMLS, exp_eq]
  have hθ := thetaIce_nonneg h0 (by linarith)
  have hq := fghz_pos' hf
  have he := Real.exp_pos (-0.317 * (f * 1e-9))
  have hden : 0 < 1866.0 * Real.exp (-0.317 * (f * 1e-9)) + (72.2 + 6.02 * (f * 1e-9)) * (273.16 - T) := by
    have : 0 ≤ (72.2 + 6.02 * (f * 1e-9)) * (273.16 - T) := mul_nonneg (by positivity) (by linarith)
    positivity
  refine ⟨iceReal_ge_one (by linarith), ?_⟩
  have h1 := hufford_im_pos (huffordAlpha_pos hθ) (betaLegacy_pos (f := f) (c0 := -9.963) (c1 := 0.0372) (tref := 273.0) h0).le hq
  have h2 : 0 ≤ S / (0.013 * (1866.0 * Real.exp (-0.317 * (f * 1e-9)) + (72.2 + 6.02 * (f * 1e-9)) * (273.16 - T))) :=
    div_nonneg hS (by positivity)
  linarith

/-! ### water: double Debye (Liebe 1991 / Mätzler 1987) on 273.15 K..310 K; guard below the freezing point -/

theorem water_maetzler87_admissible (f T : ℝ) (hf : 0 < f) (h1 : 273.15 ≤ T) (h2 : T ≤ 310) :
    Admissible (waterMaetzler87 f T) := by
  have hg : ¬ (T < (273.15 : ℝ)) := by linarith
  obtain ⟨ha, hb⟩ := thetaWater_bounds h1 h2
  have hf1 := liebeF1_pos (thetaWater T)
  simp only [waterMaetzler87, freezingPoint, hg, if_false]
  generalize thetaWater T = θ at ha hb hf1
  have hq := fghz_pos hf
  have d1 : 0 ≤ 0.0671 * (77.66 - 103.3 * θ) - (3.52 + 7.52 * θ) := by nlinarith
  have d2 : 0 ≤ 77.66 - 103.3 * θ - 0.0671 * (77.66 - 103.3 * θ) := by nlinarith
  have x1 : 0 ≤ f / 1e9 / (39.8 * liebeF1 θ) := by positivity
  have x2 : 0 ≤ f / 1e9 / liebeF1 θ := by positivity
  refine admissible_ok ?_ ?_
  · simp only [add_re, cre_re]
    have := debye_re_nonneg (x := f / 1e9 / (39.8 * liebeF1 θ)) d1
    have := debye_re_nonneg (x := f / 1e9 / liebeF1 θ) d2
    nlinarith
  · simp only [add_im, cre_im]
    have := debye_im_nonneg d1 x1
    have := debye_im_nonneg d2 x2
    linarith

theorem water_maetzler87_guard (f T : ℝ) (h : T < 273.15) : waterMaetzler87 f T = .error .smrt := by
  simp only [waterMaetzler87, freezingPoint, h, if_true]

example : Admissible (waterMaetzler87 (α := ℝ) 37e9 280) :=
  water_maetzler87_admissible _ _ (by norm_num) (by norm_num) (by norm_num)

/-- Tiuri & Schultz 1980 with a high-frequency permittivity `e2`: admissible as soon as `1 ≤ e2 ≤ 70`
    (the static value is ≥ 70 on 0..40 °C).  This is the formula the property requires (`e2 = 4.903`). -/
theorem water_tiuri80_admissible_partial (e2 f T : ℝ) (he : 1 ≤ e2) (he' : e2 ≤ 70) (hf : 0 < f) (h1 : 273.15 ≤ T) (h2 : T ≤ 310) :
    Admissible (waterTiuri80With e2 f T) := by
  have hg : ¬ (T - (273.15 : ℝ) < 0) := by linarith
  have hf1 := liebeF1_pos (thetaWater T)
  have he1 := tiuri80E1_ge (t := T - 273.15) (by linarith) (by linarith)
  simp only [waterTiuri80With, freezingPoint, ghz, hg, if_false]
  have d : 0 ≤ tiuri80E1 (T - 273.15) - e2 := by linarith
  have x : 0 ≤ f / 1e9 / liebeF1 (thetaWater T) := by positivity
  refine admissible_ok ?_ ?_
  · simp only [add_re, cre_re]; have := debye_re_nonneg (x := f / 1e9 / liebeF1 (thetaWater T)) d; linarith
  · simp only [add_im, cre_im]; have := debye_im_nonneg d x; linarith

/-- the full claim for the function as shipped (asserted nowhere: refuted by the `example` below) -/
def water_tiuri80_admissible_full : Prop :=
  ∀ f T : ℝ, 0 < f → 273.15 ≤ T → T ≤ 310 → Admissible (waterTiuri80 f T)

theorem water_tiuri80_guard (f T : ℝ) (h : T < 273.15) : waterTiuri80 f T = .error .smrt := by
  have hg : T - (273.15 : ℝ) < 0 := by linarith
  simp only [waterTiuri80, waterTiuri80With, freezingPoint, hg, if_true]

/-- the function as shipped in the audited tree (`e2 = 4.903e-2`) is *not* admissible: at 89 GHz and 273.15 K its real
    part is below 1 (≈ 0.91).  This is the replayed witness of DESIGN §5 #17. -/
example : ∃ e, waterTiuri80AsShipped (α := ℝ) 89e9 273.15 = .ok e ∧ e.re < 1 := by
  have hg : ¬ ((273.15 : ℝ) - 273.15 < 0) := by norm_num
  simp only [waterTiuri80AsShipped, waterTiuri80With, freezingPoint, ghz, hg, if_false]
  refine ⟨_, rfl, ?_⟩
  simp only [add_re, cre_re, debye_re, tiuri80E1, liebeF1, thetaWater, sub_self, mul_zero, add_zero, sub_zero]
  have hx : (89e9 : ℝ) / 1e9 = 89 := by norm_num
  have hf1 : (20.2 + 146.4 * (1 - 300.0 / 273.15) + 316.0 * ((1 - 300.0 / 273.15) * (1 - 300.0 / 273.15)) : ℝ) ≤ 9 := by norm_num
  have hf0 : (0 : ℝ) < 20.2 + 146.4 * (1 - 300.0 / 273.15) + 316.0 * ((1 - 300.0 / 273.15) * (1 - 300.0 / 273.15)) := by norm_num
  rw [hx]
  generalize (20.2 + 146.4 * (1 - 300.0 / 273.15) + 316.0 * ((1 - 300.0 / 273.15) * (1 - 300.0 / 273.15)) : ℝ) = g at hf1 hf0
  have hq : 9.8 ≤ 89 / g := by rw [le_div_iff₀ hf0]; linarith
  have hden : 97 ≤ 1 + 89 / g * (89 / g) := by nlinarith
  have : (87.74 - 4903e-5) / (1 + 89 / g * (89 / g)) ≤ (87.74 - 4903e-5) / 97 := by
    apply div_le_div_of_nonneg_left (by norm_num) (by norm_num) hden
  have h2 : ((87.74 : ℝ) - 4903e-5) / 97 < 0.95 := by norm_num
  have h3 : (4903e-5 : ℝ) < 0.05 := by norm_num
  linarith

/-! ### brine helpers and the Stogryn formulae on 235.15 K..273.15 K (−38 °C..0 °C), both sides of −22.9 °C -/

theorem brine_conductivity_nonneg (T : ℝ) (h : T ≤ 273.15) : 0 ≤ brineConductivity T := brineConductivity_nonneg h

theorem brine_relaxation_time_pos (T : ℝ) (h1 : 235.15 ≤ T) (h2 : T ≤ 273.15) : 0 < brineRelaxationTime T :=
  brineRelaxationTime_pos h1 h2

theorem brine_static_ge_high_frequency (T : ℝ) (h1 : 235.15 ≤ T) (h2 : T ≤ 273.15) :
    1 ≤ permittivityHighFrequencyLimit T ∧ permittivityHighFrequencyLimit T ≤ staticBrinePermittivity T :=
  ⟨highFreq_ge_one T, static_ge_highFreq h1 h2⟩

/-- Cox & Weeks brine salinity is non-negative on each of its three branches (−2 °C, −8.2 °C) -/
theorem brine_salinity_nonneg (T : ℝ) (h1 : 235.15 ≤ T) (h2 : T ≤ 273.15) : 0 ≤ brineSalinity T := brineSalinity_nonneg h1 h2

theorem brine_stogryn85_admissible (f T : ℝ) (hf : 0 < f) (h1 : 235.15 ≤ T) (h2 : T ≤ 273.15) :
    1 ≤ (brineStogryn85 f T).re ∧ 0 ≤ (brineStogryn85 f T).im := by
  simp only [brineStogryn85, add_re, add_im, cre_re, cre_im, cx_re, cx_im, ghz]
  have d : 0 ≤ staticBrinePermittivity T - permittivityHighFrequencyLimit T := by
    have := static_ge_highFreq h1 h2; linarith
  have x : 0 ≤ brineRelaxationTime T * f / 1e9 := by have := brineRelaxationTime_pos h1 h2; positivity
  have hs := brineConductivity_nonneg h2
  have hp := pi_pos'
  have he := eps0_pos
  constructor
  · have := debye_re_nonneg (x := brineRelaxationTime T * f / 1e9) d
    have := highFreq_ge_one T
    linarith
  · have := debye_im_nonneg d x
    have : 0 ≤ brineConductivity T / (2.0 * pi * eps0 * f) := div_nonneg hs (by positivity)
    linarith

/-- mutual consistency: the 1971 form written in real and imaginary parts *is* the 1985 Debye form -/
theorem stogryn71_eq_stogryn85 (f T : ℝ) : seawaterStogryn71 f T = brineStogryn85 f T := by
  have h : ∀ a b : Cx ℝ, a.re = b.re → a.im = b.im → a = b := by
    intro a b h1 h2; cases a; cases b; simp_all
  apply h
  · simp only [seawaterStogryn71, brineStogryn85, add_re, cre_re, cx_re, debye_re, mul_div_assoc, add_zero]
  · simp only [seawaterStogryn71, brineStogryn85, add_im, cre_im, cx_im, debye_im, zero_add]
    rw [show brineRelaxationTime T * f / ghz = brineRelaxationTime T * (f / ghz) from mul_div_assoc _ _ _]
    generalize (2.0 : ℝ) = two
    generalize brineRelaxationTime T * (f / ghz) = x
    generalize staticBrinePermittivity T - permittivityHighFrequencyLimit T = d
    congr 1
    · rw [← mul_div_assoc, mul_comm]
    · rw [show two * pi * f * eps0 = two * pi * eps0 * f by ring]

theorem seawater_stogryn71_admissible (f T : ℝ) (hf : 0 < f) (h1 : 235.15 ≤ T) (h2 : T ≤ 273.15) :
    1 ≤ (seawaterStogryn71 f T).re ∧ 0 ≤ (seawaterStogryn71 f T).im := by
  rw [stogryn71_eq_stogryn85]; exact brine_stogryn85_admissible f T hf h1 h2

/-! ### sea water, Klein & Swift 1976: `t = T − 273.15 ∈ [−2, 40] °C`, salinity 0..40 PSU (`S` in kg/kg) -/

/-- the code's guard (`tempC < tempF − 0.1` ⇒ SMRTError) is an explicit hypothesis -/
theorem seawater_klein76_admissible (f T S : ℝ) (hf : 0 < f) (h1 : 271.15 ≤ T) (h2 : T ≤ 313.15) (hS0 : 0 ≤ S) (hS : S ≤ 0.04)
    (hguard : ¬ (T - 273.15 < milleroTempF (S / 1e-3) - 0.1)) : Admissible (seawaterKlein76 f T S) := by
  simp only [seawaterKlein76, freezingPoint, psu, hguard, if_false]
  have ta : -2 ≤ T - 273.15 := by linarith
  have tb : T - 273.15 ≤ 40 := by linarith
  have sa : 0 ≤ S / 1e-3 := by positivity
  have sb : S / 1e-3 ≤ 40 := by rw [div_le_iff₀ (by norm_num)]; linarith
  generalize T - 273.15 = t at ta tb
  generalize S / 1e-3 = s at sa sb
  have hE := kleinEpsST_ge ta tb
  have hA := kleinA_ge ta tb sa sb
  have d : 0 ≤ kleinEpsST t * kleinA s t - 4.9 := by nlinarith [mul_nonneg (sub_nonneg.2 hE) (sub_nonneg.2 hA)]
  have hτ := mul_pos (kleinTau0_pos ta tb) (kleinB_pos ta tb sa sb)
  have hp := pi_pos'
  have x : 0 ≤ 2.0 * pi * f * (kleinTau0 t * kleinB s t) := by positivity
  have hσ := kleinSigma_nonneg (t := t) sa sb
  have he := eps0_pos
  refine admissible_ok ?_ ?_
  · simp only [add_re, cre_re, cx_re]
    have := debye_re_nonneg (x := 2.0 * pi * f * (kleinTau0 t * kleinB s t)) d
    norm_num; linarith
  · simp only [add_im, cre_im, cx_im]
    have := debye_im_nonneg d x
    have : 0 ≤ kleinSigma s t / (2.0 * pi * f * eps0) := div_nonneg hσ (by positivity)
    linarith

/-- vanishing salinity: the conductivity term disappears and Klein–Swift is the pure-water Debye form
    `4.9 + (ε_s(T) − 4.9)/(1 − i ω τ(T))` -/
theorem seawater_klein76_zero_salinity (f T : ℝ) (h : 273.05 ≤ T) :
    seawaterKlein76 f T 0 =
      .ok (cre 4.9 + debye (kleinEpsST (T - 273.15) - 4.9) (2.0 * pi * f * kleinTau0 (T - 273.15))) := by
  have hr : rpow (0 : ℝ) 1.5 = 0 := by unfold rpow; simp
  have hm : milleroTempF (0 : ℝ) = 0 := by unfold milleroTempF; rw [hr]; norm_num
  have hA : ∀ t : ℝ, kleinA 0 t = 1 := by intro t; unfold kleinA; norm_num
  have hB : ∀ t : ℝ, kleinB 0 t = 1 := by intro t; unfold kleinB; norm_num
  have hσ : ∀ t : ℝ, kleinSigma 0 t = 0 := by intro t; unfold kleinSigma kleinSigma25; norm_num
  have hg : ¬ (T - (273.15 : ℝ) < 0 - 0.1) := by linarith
  simp only [seawaterKlein76, freezingPoint, zero_div, hm, hg, if_false, hA, hB, hσ, mul_one]
  congr 1
  apply cx_ext
  · simp only [add_re, cx_re, add_zero]
  · simp only [add_im, cx_im, add_zero]

theorem seawater_klein76_guard (f T S : ℝ) (h : T - 273.15 < milleroTempF (S / 1e-3) - 0.1) :
    seawaterKlein76 f T S = .error .smrt := by
  simp only [seawaterKlein76, freezingPoint, psu, h, if_true]

example : Admissible (seawaterKlein76 (α := ℝ) 1.4e9 293.15 0) := by
  rw [seawater_klein76_zero_salinity _ _ (by norm_num)]
  refine admissible_ok ?_ ?_
  · simp only [add_re, cre_re]
    have := debye_re_nonneg (x := 2.0 * pi * 1.4e9 * kleinTau0 (293.15 - 273.15))
      (d := kleinEpsST (293.15 - 273.15) - 4.9) (by have := kleinEpsST_ge (t := 293.15 - 273.15) (by norm_num) (by norm_num); linarith)
    norm_num; linarith
  · simp only [add_im, cre_im]
    have hp := pi_pos'
    have ht := kleinTau0_pos (t := 293.15 - 273.15) (by norm_num) (by norm_num)
    have := debye_im_nonneg (x := 2.0 * pi * 1.4e9 * kleinTau0 (293.15 - 273.15))
      (d := kleinEpsST (293.15 - 273.15) - 4.9) (by have := kleinEpsST_ge (t := 293.15 - 273.15) (by norm_num) (by norm_num); linarith)
      (by positivity)
    linarith

/-! ### wet ice / wet snow grains: liquid water ≤ 0 returns the dry value (early return); the mixing branch reduces to it -/

theorem wetice_bohren83_dry (f T lw : ℝ) (h : lw ≤ 0) : weticeBohren83 f T lw = iceMaetzler06 f T := by
  unfold weticeBohren83
  cases iceMaetzler06 f T <;> simp [h, bind, Except.bind, pure, Except.pure]

theorem wetice_symmetric_dry (f T lw : ℝ) (h : lw ≤ 0) : weticeSymmetric f T lw = iceMaetzler06 f T := by
  unfold weticeSymmetric
  cases iceMaetzler06 f T <;> simp [h, bind, Except.bind, pure, Except.pure]

theorem wetsnow_permittivity_dry (f T lw : ℝ) (h : lw ≤ 0) : wetsnowPermittivity f T lw = iceMaetzler06 f T := by
  unfold wetsnowPermittivity
  cases iceMaetzler06 f T <;> simp [h, bind, Except.bind, pure, Except.pure]

/-- the non-early-return branch of Bohren's formula at `liquid_water = 0` (ice fraction 1) is the ice permittivity as well,
    whatever the (non-zero) water permittivity: `MG(1, e0, ε) = ε` -/
theorem wetice_mixing_branch_at_zero (epswater epsice : Cx ℝ) (h : epswater.re * epswater.re + epswater.im * epswater.im ≠ 0) :
    mgSpheres (1 - 0) epswater epsice = epsice := by
  rw [sub_zero]; exact mgSpheres_one _ _ h

/-- with liquid water the formulae need both the ice formula (T ≤ 273.15) and the water formula (T ≥ 273.15):
    below the freezing point a wet grain is refused -/
theorem wetice_bohren83_guard (f T lw : ℝ) (hl : 0 < lw) (hT : T < 273.15) : weticeBohren83 f T lw = .error .smrt := by
  unfold weticeBohren83
  rw [iceMaetzler06_ok hT.le, water_maetzler87_guard f T hT]
  simp [not_le.2 hl, bind, Except.bind, pure, Except.pure]

/-! ### impure ice (Mätzler 2006, eq. 5.36–5.38) -/

theorem impure_ice_zero_salinity (f T : ℝ) : impureIceMaetzler06 f T 0 = iceMaetzler06 f T := by
  unfold impureIceMaetzler06
  cases iceMaetzler06 f T with
  | error e => rfl
  | ok e =>
    simp only [bind, Except.bind, pure, Except.pure, mul_zero, zero_mul, zero_div]
    congr 1
    apply cx_ext <;> simp

theorem impure_ice_admissible (f T S : ℝ) (hf : 0 < f) (h0 : 0 < T) (hT : T ≤ 273.15) (hS : 0 ≤ S) :
    Admissible (impureIceMaetzler06 f T S) := by
  obtain ⟨e, he, h1, h2⟩ := ice_maetzler06_admissible f T hf h0 hT
  unfold impureIceMaetzler06
  rw [he]
  simp only [bind, Except.bind]
  have hδ := impureDeltaEimag_nonneg hf.le hT
  refine admissible_ok ?_ ?_
  · simp only [add_re, cx_re]; linarith
  · simp only [add_im, cx_im]
    have : 0 ≤ impureDeltaEimag f T * S * 1e3 / 0.013 := by positivity
    linarith

/-! ### guards of the wet-snow formulae and of the soil formulae -/

theorem wetsnow_guards (f T d lw : ℝ) (hT : T < 273.15) (hl : 0 < lw) :
    wetsnowTinga73 f T d lw = .error .smrt ∧ wetsnowWiesmann99 f T d lw = .error .smrt ∧
    wetsnowMemls f T d lw = .error .smrt ∧ ∀ k x, threeResidual k f T d lw x = .error .smrt := by
  have hg : wetGuard T lw = true := by simp [wetGuard, freezingPoint, hT, hl]
  refine ⟨?_, ?_, ?_, ?_⟩
  · simp [wetsnowTinga73, hg, bind, Except.bind, throw, throwThe, MonadExceptOf.throw]
  · simp [wetsnowWiesmann99, hg, bind, Except.bind, throw, throwThe, MonadExceptOf.throw]
  · simp [wetsnowMemls, hg, bind, Except.bind, throw, throwThe, MonadExceptOf.throw]
  · intro k x; simp [threeResidual, hg, bind, Except.bind, throw, throwThe, MonadExceptOf.throw]

theorem soil_hut_guard (f T sm sand clay dm : ℝ) (h : T < 273.15) : soilHut f T sm sand clay dm = .error .smrt := by
  have hg : ¬ (0 ≤ T - (273.15 : ℝ)) := by linarith
  simp only [soilHut, hg, if_false]

theorem soil_montpetit_guard (f T : ℝ) (h : 273.15 < T) : soilMontpetit2008 f T = .error .smrt := by
  simp only [soilMontpetit2008, h, if_true]

/-- Hallikainen's modified Debye model: the loss is non-negative for every frequency, density and wetness -/
theorem wetsnow_hallikainen86_im_nonneg_partial (f d lw : ℝ) (hf : 0 ≤ f) :
    0 ≤ (wetsnowHallikainen86 f d lw).im ∧ 0 ≤ (wetsnowHallikainen86Ulaby14 f d lw).im := by
  have key : ∀ a mv : ℝ, 0 ≤ (hallDebye a (f * 1e-9) mv).im := by
    intro a mv
    simp only [hallDebye]
    have h1 := hallA2_pos (f * 1e-9)
    have h2 := rpow_nonneg mv 1.31
    have h3 : 0 ≤ f * 1e-9 / 9.07 := by positivity
    have h4 := debye_den_pos (f * 1e-9 / 9.07)
    positivity
  constructor
  · simp only [wetsnowHallikainen86]; exact key _ _
  · simp only [wetsnowHallikainen86Ulaby14]; exact key _ _

/-- the full admissibility claim on the documented box (3–37 GHz, mv 1–12 %, dry density 0.09–0.38 g cm⁻³) is *false* for the
    shipped coefficients (known finding): stated, asserted nowhere -/
def wetsnow_hallikainen86_admissible_full : Prop :=
  ∀ f d lw : ℝ, 3e9 ≤ f → f ≤ 37e9 → 1 ≤ (hallInputs d lw).1 → (hallInputs d lw).1 ≤ 12 →
    0.09 ≤ (hallInputs d lw).2 → (hallInputs d lw).2 ≤ 0.38 →
    1 ≤ (wetsnowHallikainen86Ulaby14 f d lw).re ∧ 1 ≤ (wetsnowHallikainen86 f d lw).re

/-- witness inside the documented box (37 GHz, mv = 1 %, dry density 0.09 g cm⁻³, i.e. density 99.1 kg m⁻³ and
    liquid water 9167/98267): `Re ε ≈ 0.954 < 1`.  Refutes `wetsnow_hallikainen86_admissible_full`. -/
example : (hallInputs (99.1 : ℝ) (9167 / 98267)).1 = 1 ∧ (hallInputs (99.1 : ℝ) (9167 / 98267)).2 = 0.09 ∧
    (wetsnowHallikainen86Ulaby14 (37e9 : ℝ) 99.1 (9167 / 98267)).re < 1 := by
  have h1 : (hallInputs (99.1 : ℝ) (9167 / 98267)).1 = 1 := by
    simp only [hallInputs, fracVolumes, densityOfIce, densityOfWater]; norm_num
  have h2 : (hallInputs (99.1 : ℝ) (9167 / 98267)).2 = 0.09 := by
    simp only [hallInputs, fracVolumes, densityOfIce, densityOfWater]; norm_num
  refine ⟨h1, h2, ?_⟩
  have hr : ∀ y : ℝ, rpow 1 y = 1 := by
    intro y; unfold rpow; simp
  have hv : wetsnowHallikainen86Ulaby14 (37e9 : ℝ) 99.1 (9167 / 98267) =
      hallDebye (hallA1 (37e9 * 1e-9) * (1.0 + 1.83 * (hallInputs (99.1 : ℝ) (9167 / 98267)).2 +
        0.02 * rpow (hallInputs (99.1 : ℝ) (9167 / 98267)).1 1.015) + hallB1 (37e9 * 1e-9)) (37e9 * 1e-9)
        (hallInputs (99.1 : ℝ) (9167 / 98267)).1 := rfl
  rw [hv, h1, h2]
  simp only [hallDebye, hr, hallA1, hallB1]
  norm_num

/-! ### Cox–Weeks / Leppäranta–Manninen brine volume: every returned value is a fraction; below −38 °C the call is refused -/

theorem brine_volume_cox83_range (T S p : ℝ) (bd : Option ℝ) (v : ℝ) (h : brineVolumeCox83 T S p bd = .ok v) :
    0 ≤ v ∧ v ≤ 1 := brineVolumeCox83_range h

theorem brine_volume_cox83_guard (T S p : ℝ) (bd : Option ℝ) (h1 : T ≤ waterFreezingTemperature S) (h2 : T - 273.15 < -38) :
    brineVolumeCox83 T S p bd = .error .smrt := brineVolumeCox83_guard h1 h2

/-! ### frozen-soil permittivity of Montpetit et al. (piecewise linear in frequency, extrapolated) -/

theorem soil_montpetit_admissible (f T : ℝ) (hf : 0 ≤ f) (hT : T ≤ 273.15) : Admissible (soilMontpetit2008 f T) := by
  have hg : ¬ ((273.15 : ℝ) < T) := not_lt.2 hT
  simp only [soilMontpetit2008, hg, if_false]
  by_cases hb : (19e9 : ℝ) < f
  · rw [if_pos hb]
    refine admissible_ok ?_ ?_
    · simp only [add_re, smul_re, sub_re]; norm_num at hb ⊢; nlinarith
    · simp only [add_im, smul_im, sub_im]; norm_num at hb ⊢; nlinarith
  · rw [if_neg hb]
    refine admissible_ok ?_ ?_
    · simp only [add_re, smul_re, sub_re]; norm_num at hb ⊢; nlinarith
    · simp only [add_im, smul_im, sub_im]; norm_num at hb ⊢; nlinarith

/-! ### Stogryn 1995 sea water (double Debye + conductivity): admissible as soon as the fitted pieces are ordered -/

/-- proved part: with the side conditions on the fitted rational functions as hypotheses.  Missing for the full claim:
    the side conditions themselves on the box 0..40 °C × 0..40 PSU (two-variable rational inequalities, checked on grids by the oracle). -/
theorem seawater_stogryn95_admissible_partial (f T S : ℝ) (hf : 0 < f)
    (h1 : st95EpsInf (T - 273.15) ≤ 7.87e-2 * (st95EpsS0 (T - 273.15) * st95A (S / 1e-3) (T - 273.15)))
    (hinf : 1 ≤ st95EpsInf (T - 273.15))
    (hτ : 0 ≤ st95Tau1 (T - 273.15) * st95B (S / 1e-3) (T - 273.15))
    (hσ : 0 ≤ st95Sigma (S / 1e-3) (T - 273.15)) :
    1 ≤ (seawaterStogryn95 f T S).re ∧ 0 ≤ (seawaterStogryn95 f T S).im := by
  simp only [seawaterStogryn95, freezingPoint, psu, ghz, add_re, add_im, cre_re, cre_im, cx_re, cx_im]
  generalize st95EpsS0 (T - 273.15) * st95A (S / 1e-3) (T - 273.15) = es at h1
  generalize st95Tau1 (T - 273.15) * st95B (S / 1e-3) (T - 273.15) = τ at hτ
  have hq := fghz_pos hf
  have d1 : 0 ≤ es - 7.87e-2 * es := by nlinarith
  have d2 : 0 ≤ 7.87e-2 * es - st95EpsInf (T - 273.15) := by linarith
  have x1 : 0 ≤ τ * (f / 1e9) := by positivity
  have x2 : (0 : ℝ) ≤ 0.628e-2 * (f / 1e9) := by positivity
  constructor
  · have := debye_re_nonneg (x := τ * (f / 1e9)) d1
    have := debye_re_nonneg (x := 0.628e-2 * (f / 1e9)) d2
    linarith
  · have := debye_im_nonneg d1 x1
    have := debye_im_nonneg d2 x2
    have : 0 ≤ st95Sigma (S / 1e-3) (T - 273.15) * 17.97510 / (f / 1e9) := by positivity
    linarith

def seawater_stogryn95_admissible_full : Prop :=
  ∀ f T S : ℝ, 0 < f → 273.15 ≤ T → T ≤ 313.15 → 0 ≤ S → S ≤ 0.04 →
    1 ≤ (seawaterStogryn95 f T S).re ∧ 0 ≤ (seawaterStogryn95 f T S).im

/-! ### statements kept at full strength but not proved here (asserted nowhere) -/

theorem cext {a b : Cx ℝ} (h1 : a.re = b.re) (h2 : a.im = b.im) : a = b := by
  cases a; cases b; simp only at h1 h2; subst h1; subst h2; rfl
theorem neg_re_fn (a : Cx ℝ) : (Cx.neg a).re = -a.re := rfl
theorem neg_im_fn (a : Cx ℝ) : (Cx.neg a).im = -a.im := rfl

/-- the numerically stable principal square root returns `w` for the perfect square `w²` whenever `Re w > 0` -/
theorem csqrt_sq_self (w : Cx ℝ) (hw : 0 < w.re) : csqrt (w * w) = w := by
  rcases w with ⟨x, y⟩
  simp only at hw
  have hm : Real.sqrt ((x * x - y * y) * (x * x - y * y) + (x * y + y * x) * (x * y + y * x)) = x * x + y * y := by
    have : (x * x - y * y) * (x * x - y * y) + (x * y + y * x) * (x * y + y * x) = (x * x + y * y) ^ 2 := by ring
    rw [this, Real.sqrt_sq (add_nonneg (mul_self_nonneg x) (mul_self_nonneg y))]
  have two : (2.0 : ℝ) = 2 := by norm_num
  unfold csqrt
  simp only [mul_re, mul_im, transc_sqrt_real, hm, two]
  by_cases h : 0 ≤ x * x - y * y
  · rw [if_pos h]
    have ha : Real.sqrt ((x * x + y * y + (x * x - y * y)) / 2) = x := by
      have : (x * x + y * y + (x * x - y * y)) / 2 = x ^ 2 := by ring
      rw [this, Real.sqrt_sq hw.le]
    simp only [ha, if_pos hw]
    apply cext
    · rfl
    · show (x * y + y * x) / (2 * x) = y
      rw [div_eq_iff (by positivity)]; ring
  · rw [if_neg h]
    have hy : y ≠ 0 := by
      intro h0; subst h0; apply h; nlinarith
    have hb : Real.sqrt ((x * x + y * y - (x * x - y * y)) / 2) = |y| := by
      have : (x * x + y * y - (x * x - y * y)) / 2 = y ^ 2 := by ring
      rw [this, Real.sqrt_sq_eq_abs]
    simp only [hb]
    by_cases hneg : x * y + y * x < 0
    · rw [if_pos hneg]
      have hy0 : y < 0 := by
        by_contra hc; push Not at hc
        have : 0 ≤ x * y + y * x := by nlinarith
        linarith
      rw [abs_of_neg hy0]
      apply cext
      · show -(x * y + y * x) / (2 * -y) = x
        rw [div_eq_iff (by linarith)]; ring
      · show - -y = y
        ring
    · rw [if_neg hneg]
      have hy0 : 0 < y := by
        rcases lt_or_gt_of_ne hy with h1 | h1
        · exfalso; apply hneg; nlinarith
        · exact h1
      rw [abs_of_pos hy0]
      apply cext
      · show (x * y + y * x) / (2 * y) = x
        rw [div_eq_iff (by positivity)]; ring
      · rfl

theorem lit2 : (2.0 : ℝ) = 2 := by norm_num
theorem lit3 : (3.0 : ℝ) = 3 := by norm_num
theorem lit4 : (4.0 : ℝ) = 4 := by norm_num
theorem lit5 : (5.0 : ℝ) = 5 := by norm_num

/-- Polder-van Santen (spheres) at zero fractional volume is the background, on the principal branch -/
theorem pvsSpheres_zero (e0 eps : Cx ℝ) (h : 0 < eps.re + 2 * e0.re) : pvsSpheres 0 e0 eps = e0 := by
  unfold pvsSpheres
  simp only [lit2, lit3, lit4]
  have hd : (eps - Cx.smul 2 e0 - Cx.smul (3 * 0) (eps - e0)) * (eps - Cx.smul 2 e0 - Cx.smul (3 * 0) (eps - e0))
      - Cx.smul (4 * 2) (Cx.neg (eps * e0)) = (eps + Cx.smul 2 e0) * (eps + Cx.smul 2 e0) := by
    apply cext
    · simp only [sub_re, mul_re, smul_re, sub_im, smul_im, neg_re_fn, add_re, add_im, mul_im]; ring
    · simp only [sub_re, mul_re, smul_re, sub_im, smul_im, neg_im_fn, add_re, add_im, mul_im]; ring
  rw [hd, csqrt_sq_self _ (by simpa [add_re, smul_re] using h)]
  apply cext
  · simp only [sub_re, mul_re, smul_re, sub_im, smul_im, neg_re_fn, add_re, add_im, mul_im]; ring
  · simp only [sub_re, mul_re, smul_re, sub_im, smul_im, neg_im_fn, add_re, add_im, mul_im]; ring

/-- ... and for random needles -/
theorem pvsNeedles_zero (e0 eps : Cx ℝ) (h : 0 < eps.re + e0.re) : pvsNeedles 0 e0 eps = e0 := by
  unfold pvsNeedles
  simp only [lit2, lit3, lit4, lit5]
  have hd : (eps - e0 - Cx.smul (5 / 3 * 0) (eps - e0)) * (eps - e0 - Cx.smul (5 / 3 * 0) (eps - e0))
      - Cx.smul (4 * 1) (Cx.neg (eps * (e0 + Cx.smul (1 / 3 * 0) (eps - e0)))) = (eps + e0) * (eps + e0) := by
    apply cext
    · simp only [sub_re, mul_re, smul_re, sub_im, smul_im, neg_re_fn, add_re, add_im, mul_im]; ring
    · simp only [sub_re, mul_re, smul_re, sub_im, smul_im, neg_im_fn, add_re, add_im, mul_im]; ring
  rw [hd, csqrt_sq_self _ (by simpa [add_re] using h)]
  apply cext
  · simp only [sub_re, mul_re, smul_re, sub_im, smul_im, neg_re_fn, add_re, add_im, mul_im]; ring
  · simp only [sub_re, mul_re, smul_re, sub_im, smul_im, neg_im_fn, add_re, add_im, mul_im]; ring

/-- **saline_ice_zero_brine** (formerly a `_full` claim): with no brine, the Polder-van Santen saline ice of either inclusion shape is
    exactly the pure-ice permittivity (the discriminant is a perfect square and the stable square root returns its principal root) -/
theorem saline_ice_zero_brine (sh : Shape) (f T : ℝ) (hf : 0 < f) (h1 : 235.15 ≤ T) (h2 : T ≤ 273.15) :
    salineIcePvs sh f T 0 = iceMaetzler06 f T := by
  have hb := (brine_stogryn85_admissible f T hf h1 h2).1
  have hi : 1 ≤ iceReal (T - 273.15) := iceReal_ge_one (by linarith)
  unfold salineIcePvs
  rw [iceMaetzler06_ok h2]
  simp only [bind, Except.bind, pure, Except.pure]
  congr 1
  cases sh with
  | spheres => exact pvsSpheres_zero _ _ (by simp only; linarith)
  | needles => exact pvsNeedles_zero _ _ (by simp only; linarith)

/-- admissibility of the *mixed* materials (Maxwell-Garnett / Polder–van Santen / Tinga / MEMLS / Wiesmann outputs for admissible
    constituents) is a property of the mixing formulae (C15); here only on grids (oracle). -/
def wetice_admissible_full : Prop :=
  ∀ f lw : ℝ, 0 < f → 0 ≤ lw → lw ≤ 1 → Admissible (weticeBohren83 f 273.15 lw) ∧ Admissible (weticeSymmetric f 273.15 lw)

end Smrt.Props.C13
