/-
  Helper lemmas for C12: the complex square root of the model satisfies its specification, the two Maezawa identities
  behind `0 ≤ R ≤ 1`, closed forms for loss-free media, and the bounds of the roughness factors.
-/
import SmrtVerif.Model.Fresnel
import SmrtVerif.Model.Interface
import SmrtVerif.Proofs.RealTransc
import Mathlib.Analysis.SpecialFunctions.Sqrt
import Mathlib.Analysis.SpecialFunctions.Log.Basic
import Mathlib.Analysis.SpecialFunctions.Trigonometric.Arctan
import Mathlib.Tactic.Ring
import Mathlib.Tactic.Linarith
import Mathlib.Tactic.Positivity
import Mathlib.Tactic.FieldSimp
import Mathlib.Tactic.NormNum

namespace Smrt

namespace Fresnel

/-! ### the complex square root -/

/-- specification of a principal square root `w` of `z` -/
structure IsSqrt (w z : Cx ℝ) : Prop where
  re_eq : w.re * w.re - w.im * w.im = z.re
  im_eq : w.re * w.im + w.im * w.re = z.im
  re_nonneg : 0 ≤ w.re
  im_nonneg : 0 ≤ z.im → 0 ≤ w.im

theorem csqrt_isSqrt (z : Cx ℝ) : IsSqrt (csqrt z) z := by
  have hm : 0 ≤ z.re * z.re + z.im * z.im := add_nonneg (mul_self_nonneg _) (mul_self_nonneg _)
  set m := Real.sqrt (z.re * z.re + z.im * z.im) with hmdef
  have hm0 : 0 ≤ m := Real.sqrt_nonneg _
  have hmm : m * m = z.re * z.re + z.im * z.im := Real.mul_self_sqrt hm
  have hmre : |z.re| ≤ m := by
    rw [hmdef]; apply Real.abs_le_sqrt; nlinarith [mul_self_nonneg z.im]
  have hmre' := abs_le.mp hmre
  unfold csqrt
  simp only [Transc.sqrt, ← hmdef]
  by_cases hre : z.re < 0
  · simp only [hre, if_true]
    have hb2 : 0 < (m - z.re) / 2.0 := by norm_num; linarith
    set b := Real.sqrt ((m - z.re) / 2.0) with hbdef
    have hb : 0 < b := Real.sqrt_pos.mpr hb2
    have hbb : b * b = (m - z.re) / 2.0 := Real.mul_self_sqrt hb2.le
    have hbb' : 2 * (b * b) = m - z.re := by rw [hbb]; norm_num; ring
    have h4 : 4 * (b * b) * (b * b) = (m - z.re) * (m - z.re) := by nlinarith
    by_cases him : z.im < 0
    · simp only [him, if_true]
      refine ⟨?_, ?_, ?_, ?_⟩
      · have : (2.0 : ℝ) = 2 := by norm_num
        rw [this]; field_simp; nlinarith
      · have : (2.0 : ℝ) = 2 := by norm_num
        rw [this]; field_simp; ring
      · apply div_nonneg (by linarith); norm_num; exact hb.le
      · intro h; linarith
    · simp only [him, if_false]
      refine ⟨?_, ?_, ?_, ?_⟩
      · have : (2.0 : ℝ) = 2 := by norm_num
        rw [this]; field_simp; nlinarith
      · have : (2.0 : ℝ) = 2 := by norm_num
        rw [this]; field_simp; ring
      · apply div_nonneg (by linarith); norm_num; exact hb.le
      · intro _; exact hb.le
  · simp only [hre, if_false]
    have hre' : 0 ≤ z.re := not_lt.mp hre
    have ha2 : 0 ≤ (m + z.re) / 2.0 := by norm_num; linarith
    set a := Real.sqrt ((m + z.re) / 2.0) with hadef
    have ha0 : 0 ≤ a := Real.sqrt_nonneg _
    have haa : a * a = (m + z.re) / 2.0 := Real.mul_self_sqrt ha2
    have haa' : 2 * (a * a) = m + z.re := by rw [haa]; norm_num; ring
    by_cases hpos : 0 < a
    · simp only [hpos, if_true]
      refine ⟨?_, ?_, hpos.le, ?_⟩
      · have : (2.0 : ℝ) = 2 := by norm_num
        rw [this]; field_simp; nlinarith
      · have : (2.0 : ℝ) = 2 := by norm_num
        rw [this]; field_simp; ring
      · intro h; apply div_nonneg h; norm_num; exact hpos.le
    · simp only [hpos, if_false]
      have ha : a = 0 := le_antisymm (not_lt.mp hpos) ha0
      have hz : m + z.re = 0 := by rw [← haa', ha]; ring
      have hre0 : z.re = 0 := by linarith
      have him0 : z.im = 0 := by
        have : m = 0 := by linarith
        have h2 : z.im * z.im = 0 := by nlinarith
        exact mul_self_eq_zero.mp h2
      refine ⟨by simp [hre0], by simp [him0], le_refl _, fun _ => le_refl _⟩

/-! ### squared moduli and the two Maezawa identities -/

theorem abs2_nonneg (a : Cx ℝ) : 0 ≤ a.abs2 := add_nonneg (mul_self_nonneg _) (mul_self_nonneg _)

theorem abs2_div (a b : Cx ℝ) : (a / b).abs2 = a.abs2 / b.abs2 := by
  show (Cx.div a b).abs2 = _
  simp only [Cx.div, Cx.abs2]
  by_cases h : b.re * b.re + b.im * b.im = 0
  · simp [h]
  · set d := b.re * b.re + b.im * b.im with hd
    have hd0 : d ≠ 0 := h
    field_simp
    rw [hd]; ring

theorem abs2_mul (a b : Cx ℝ) : (a * b).abs2 = a.abs2 * b.abs2 := by
  show (Cx.mul a b).abs2 = _
  simp only [Cx.mul, Cx.abs2]; ring

theorem abs2_conj (a : Cx ℝ) : a.conj.abs2 = a.abs2 := by
  simp only [Cx.conj, Cx.abs2]; ring

/-- H polarisation: `|conj a + b|² − |a − b|² = 4 Re a Re b` -/
theorem h_identity (a b : Cx ℝ) : (a.conj + b).abs2 - (a - b).abs2 = 4 * a.re * b.re := by
  show (Cx.add a.conj b).abs2 - (Cx.sub a b).abs2 = _
  simp only [Cx.add, Cx.sub, Cx.conj, Cx.abs2]; ring

/-- `Re (conj e * w)` -/
def reConjMul (e w : Cx ℝ) : ℝ := e.re * w.re + e.im * w.im

/-- V polarisation: `|e2 conj a + conj e1 b|² − |e2 a − e1 b|² = 4 Re(conj e2 b) Re(conj e1 a)` -/
theorem v_identity (e1 e2 a b : Cx ℝ) :
    (e2 * a.conj + e1.conj * b).abs2 - (e2 * a - e1 * b).abs2 = 4 * reConjMul e2 b * reConjMul e1 a := by
  show (Cx.add (Cx.mul e2 a.conj) (Cx.mul e1.conj b)).abs2 - (Cx.sub (Cx.mul e2 a) (Cx.mul e1 b)).abs2 = _
  simp only [Cx.add, Cx.sub, Cx.mul, Cx.conj, Cx.abs2, reConjMul]; ring

/-- `Re (D * conj (e2 * conj e1))` for the V denominator -/
theorem v_den_identity (e1 e2 a b : Cx ℝ) :
    let D := e2 * a.conj + e1.conj * b
    let X := e2 * e1.conj
    D.re * X.re + D.im * X.im = e2.abs2 * reConjMul e1 a + e1.abs2 * reConjMul e2 b := by
  show (Cx.add (Cx.mul e2 a.conj) (Cx.mul e1.conj b)).re * (Cx.mul e2 e1.conj).re
     + (Cx.add (Cx.mul e2 a.conj) (Cx.mul e1.conj b)).im * (Cx.mul e2 e1.conj).im = _
  simp only [Cx.add, Cx.mul, Cx.conj, Cx.abs2, reConjMul]; ring

/-- `Re(conj e * k) = -(|w|² + s) Re w` for `k = -w`, `w² = e - s` -/
theorem reConjMul_neg_root (e w : Cx ℝ) (s : ℝ) (h : IsSqrt w (e - Cx.ofReal s)) :
    reConjMul e (-w) = -((w.re * w.re + w.im * w.im + s) * w.re) := by
  have h1 := h.re_eq
  have h2 := h.im_eq
  change _ = (Cx.sub e (Cx.ofReal s)).re at h1
  change _ = (Cx.sub e (Cx.ofReal s)).im at h2
  simp only [Cx.sub, Cx.ofReal] at h1 h2
  show e.re * (Cx.neg w).re + e.im * (Cx.neg w).im = _
  simp only [Cx.neg]
  have e1 : e.re = w.re * w.re - w.im * w.im + s := by linarith
  have e2 : e.im = w.re * w.im + w.im * w.re := by linarith
  rw [e1, e2]; ring


/-! ### signs of the normal wavenumbers; 0 ≤ R ≤ 1 -/

theorem kiz2_nonneg (e1 : Cx ℝ) (mu : ℝ) (h0 : 0 ≤ mu) (h1 : mu ≤ 1) : 0 ≤ kiz2 e1 mu := by
  unfold kiz2
  have : 0 ≤ 1 - mu * mu := by nlinarith
  exact mul_nonneg (mul_self_nonneg _) this

/-- the incident normal wavenumber has a strictly positive real part -/
theorem wi_re_pos (e1 : Cx ℝ) (mu : ℝ) (hre : 0 < e1.re) (him : 0 ≤ e1.im) (h0 : 0 < mu) (h1 : mu ≤ 1) :
    0 < (csqrt (e1 - Cx.ofReal (kiz2 e1 mu))).re := by
  have hn := csqrt_isSqrt e1
  have hw := csqrt_isSqrt (e1 - Cx.ofReal (kiz2 e1 mu))
  set n := csqrt e1
  set w := csqrt (e1 - Cx.ofReal (kiz2 e1 mu)) with hwdef
  have n1 := hn.re_eq
  have n2 := hn.im_eq
  have n3 := hn.re_nonneg
  have n4 := hn.im_nonneg him
  have w1 := hw.re_eq
  have w2 := hw.im_eq
  have w3 := hw.re_nonneg
  change _ = (Cx.sub e1 (Cx.ofReal (kiz2 e1 mu))).re at w1
  change _ = (Cx.sub e1 (Cx.ofReal (kiz2 e1 mu))).im at w2
  simp only [Cx.sub, Cx.ofReal] at w1 w2
  have hk : kiz2 e1 mu = n.re * n.re * (1 - mu * mu) := rfl
  rcases w3.lt_or_eq with h | h
  · exact h
  · exfalso
    rw [← h] at w1 w2
    have eim : e1.im = 0 := by linarith
    have hnn : n.re * n.im = 0 := by nlinarith
    have hnre : n.re ≠ 0 := by
      intro h0'
      rw [h0'] at n1
      nlinarith [mul_self_nonneg n.im]
    have hnim : n.im = 0 := by
      rcases mul_eq_zero.mp hnn with h' | h'
      · exact absurd h' hnre
      · exact h'
    rw [hnim] at n1
    have : e1.re - kiz2 e1 mu = e1.re * (mu * mu) := by rw [hk]; nlinarith
    have hpos : 0 < e1.re * (mu * mu) := by positivity
    nlinarith [mul_self_nonneg w.im]


theorem neg_re (a : Cx ℝ) : (-a).re = -a.re := rfl
theorem neg_im (a : Cx ℝ) : (-a).im = -a.im := rfl

theorem abs2_pos_of_re_ne (a : Cx ℝ) (h : a.re ≠ 0) : 0 < a.abs2 := by
  unfold Cx.abs2
  have := mul_self_pos.mpr h
  nlinarith [mul_self_nonneg a.im]

theorem Rh_eq (e1 e2 : Cx ℝ) (mu : ℝ) : Rh e1 e2 mu = (rhNum e1 e2 mu).abs2 / (rhDen e1 e2 mu).abs2 := by
  unfold Rh rh; exact abs2_div _ _

theorem rh_gap (e1 e2 : Cx ℝ) (mu : ℝ) :
    (rhDen e1 e2 mu).abs2 - (rhNum e1 e2 mu).abs2 = 4 * (kyi e1 mu).re * (kyt e1 e2 mu).re := by
  unfold rhDen rhNum; exact h_identity _ _

theorem kyi_re_neg (e1 : Cx ℝ) (mu : ℝ) (hre : 0 < e1.re) (him : 0 ≤ e1.im) (h0 : 0 < mu) (h1 : mu ≤ 1) :
    (kyi e1 mu).re < 0 := by
  unfold kyi; rw [neg_re]; linarith [wi_re_pos e1 mu hre him h0 h1]

theorem kyt_re_nonpos (e1 e2 : Cx ℝ) (mu : ℝ) : (kyt e1 e2 mu).re ≤ 0 := by
  unfold kyt; rw [neg_re]; linarith [(csqrt_isSqrt (e2 - Cx.ofReal (kiz2 e1 mu))).re_nonneg]

theorem rhDen_pos (e1 e2 : Cx ℝ) (mu : ℝ) (hre : 0 < e1.re) (him : 0 ≤ e1.im) (h0 : 0 < mu) (h1 : mu ≤ 1) :
    0 < (rhDen e1 e2 mu).abs2 := by
  apply abs2_pos_of_re_ne
  have a := kyi_re_neg e1 mu hre him h0 h1
  have b := kyt_re_nonpos e1 e2 mu
  have : (rhDen e1 e2 mu).re = (kyi e1 mu).re + (kyt e1 e2 mu).re := rfl
  rw [this]; linarith

theorem Rh_bounds (e1 e2 : Cx ℝ) (mu : ℝ) (hre : 0 < e1.re) (him : 0 ≤ e1.im) (h0 : 0 < mu) (h1 : mu ≤ 1) :
    0 ≤ Rh e1 e2 mu ∧ Rh e1 e2 mu ≤ 1 := by
  rw [Rh_eq]
  have hd := rhDen_pos e1 e2 mu hre him h0 h1
  have hg := rh_gap e1 e2 mu
  have a := kyi_re_neg e1 mu hre him h0 h1
  have b := kyt_re_nonpos e1 e2 mu
  have : 0 ≤ 4 * (kyi e1 mu).re * (kyt e1 e2 mu).re := by nlinarith
  refine ⟨div_nonneg (abs2_nonneg _) hd.le, ?_⟩
  rw [div_le_one hd]; linarith

/-! V polarisation -/

theorem Rv_eq (e1 e2 : Cx ℝ) (mu : ℝ) (hre : 0 < e1.re) :
    Rv e1 e2 mu = (rvNum e1 e2 mu).abs2 / (rvDen e1 e2 mu).abs2 := by
  unfold Rv rv
  rw [abs2_div, abs2_mul, abs2_mul, abs2_conj]
  have hn : (csqrt e1).abs2 ≠ 0 := by
    have h := (csqrt_isSqrt e1).re_eq
    intro h0
    unfold Cx.abs2 at h0
    have h1 : (csqrt e1).re * (csqrt e1).re = 0 := by nlinarith [mul_self_nonneg (csqrt e1).re, mul_self_nonneg (csqrt e1).im]
    nlinarith [mul_self_nonneg (csqrt e1).im]
  rw [mul_div_mul_left _ _ hn]

theorem rv_gap (e1 e2 : Cx ℝ) (mu : ℝ) :
    (rvDen e1 e2 mu).abs2 - (rvNum e1 e2 mu).abs2
      = 4 * reConjMul e2 (kyt e1 e2 mu) * reConjMul e1 (kyi e1 mu) := by
  unfold rvDen rvNum; exact v_identity _ _ _ _

theorem reConj_kyi_neg (e1 : Cx ℝ) (mu : ℝ) (hre : 0 < e1.re) (him : 0 ≤ e1.im) (h0 : 0 < mu) (h1 : mu ≤ 1) :
    reConjMul e1 (kyi e1 mu) < 0 := by
  unfold kyi
  rw [reConjMul_neg_root e1 _ (kiz2 e1 mu) (csqrt_isSqrt _)]
  have hw := wi_re_pos e1 mu hre him h0 h1
  have hs := kiz2_nonneg e1 mu h0.le h1
  set w := csqrt (e1 - Cx.ofReal (kiz2 e1 mu))
  have : 0 < w.re * w.re + w.im * w.im + kiz2 e1 mu := by nlinarith [mul_self_nonneg w.im]
  nlinarith

theorem reConj_kyt_nonpos (e1 e2 : Cx ℝ) (mu : ℝ) (h0 : 0 ≤ mu) (h1 : mu ≤ 1) :
    reConjMul e2 (kyt e1 e2 mu) ≤ 0 := by
  unfold kyt
  rw [reConjMul_neg_root e2 _ (kiz2 e1 mu) (csqrt_isSqrt _)]
  have hs := kiz2_nonneg e1 mu h0 h1
  have hw := (csqrt_isSqrt (e2 - Cx.ofReal (kiz2 e1 mu))).re_nonneg
  set w := csqrt (e2 - Cx.ofReal (kiz2 e1 mu))
  have : 0 ≤ w.re * w.re + w.im * w.im + kiz2 e1 mu := by nlinarith [mul_self_nonneg w.im, mul_self_nonneg w.re]
  nlinarith

theorem rvDen_pos (e1 e2 : Cx ℝ) (mu : ℝ) (hre : 0 < e1.re) (him : 0 ≤ e1.im) (h2 : 0 < e2.abs2)
    (h0 : 0 < mu) (h1 : mu ≤ 1) : 0 < (rvDen e1 e2 mu).abs2 := by
  have key := v_den_identity e1 e2 (kyi e1 mu) (kyt e1 e2 mu)
  simp only at key
  have a := reConj_kyi_neg e1 mu hre him h0 h1
  have b := reConj_kyt_nonpos e1 e2 mu h0.le h1
  have h1' : 0 ≤ e1.abs2 := abs2_nonneg _
  have hneg : e2.abs2 * reConjMul e1 (kyi e1 mu) + e1.abs2 * reConjMul e2 (kyt e1 e2 mu) < 0 := by nlinarith
  rcases (abs2_nonneg (rvDen e1 e2 mu)).lt_or_eq with h | h
  · exact h
  · exfalso
    unfold Cx.abs2 at h
    have hr : (rvDen e1 e2 mu).re = 0 := by nlinarith [mul_self_nonneg (rvDen e1 e2 mu).re, mul_self_nonneg (rvDen e1 e2 mu).im]
    have hi : (rvDen e1 e2 mu).im = 0 := by nlinarith [mul_self_nonneg (rvDen e1 e2 mu).re, mul_self_nonneg (rvDen e1 e2 mu).im]
    unfold rvDen at hr hi
    rw [hr, hi] at key
    linarith

theorem Rv_bounds (e1 e2 : Cx ℝ) (mu : ℝ) (hre : 0 < e1.re) (him : 0 ≤ e1.im) (h2 : 0 < e2.abs2)
    (h0 : 0 < mu) (h1 : mu ≤ 1) : 0 ≤ Rv e1 e2 mu ∧ Rv e1 e2 mu ≤ 1 := by
  rw [Rv_eq e1 e2 mu hre]
  have hd := rvDen_pos e1 e2 mu hre him h2 h0 h1
  have hg := rv_gap e1 e2 mu
  have a := reConj_kyi_neg e1 mu hre him h0 h1
  have b := reConj_kyt_nonpos e1 e2 mu h0.le h1
  have : 0 ≤ 4 * reConjMul e2 (kyt e1 e2 mu) * reConjMul e1 (kyi e1 mu) := by nlinarith
  refine ⟨div_nonneg (abs2_nonneg _) hd.le, ?_⟩
  rw [div_le_one hd]; linarith


/-! ### loss-free media: closed forms -/

theorem two_lit : (2.0 : ℝ) = 2 := by norm_num

theorem csqrt_real_nonneg (x : ℝ) (hx : 0 ≤ x) : csqrt (⟨x, 0⟩ : Cx ℝ) = ⟨Real.sqrt x, 0⟩ := by
  unfold csqrt
  simp only [Transc.sqrt, not_lt.mpr hx, if_false, mul_zero, add_zero, Real.sqrt_mul_self hx, two_lit]
  have : (x + x) / 2 = x := by ring
  rw [this]
  by_cases h : 0 < Real.sqrt x
  · simp [h]
  · have : Real.sqrt x = 0 := le_antisymm (not_lt.mp h) (Real.sqrt_nonneg _)
    simp [this]

theorem csqrt_real_neg (x : ℝ) (hx : x < 0) : csqrt (⟨x, 0⟩ : Cx ℝ) = ⟨0, Real.sqrt (-x)⟩ := by
  unfold csqrt
  have hm : Real.sqrt (x * x) = -x := by
    rw [← neg_mul_neg]; exact Real.sqrt_mul_self (by linarith)
  simp only [Transc.sqrt, hx, if_true, mul_zero, add_zero, hm, two_lit, lt_irrefl, if_false]
  have : (-x - x) / 2 = -x := by ring
  rw [this]; simp


theorem kiz2_real (a1 mu : ℝ) (h1 : 0 ≤ a1) : kiz2 (⟨a1, 0⟩ : Cx ℝ) mu = a1 * (1 - mu * mu) := by
  unfold kiz2
  rw [csqrt_real_nonneg a1 h1]
  simp only [Real.mul_self_sqrt h1]

theorem sub_ofReal (e : Cx ℝ) (s : ℝ) : e - Cx.ofReal s = ⟨e.re - s, e.im⟩ := by
  show Cx.sub e (Cx.ofReal s) = _
  simp [Cx.sub, Cx.ofReal]

theorem neg_mk (a b : ℝ) : -(⟨a, b⟩ : Cx ℝ) = ⟨-a, -b⟩ := rfl

/-- incident normal wavenumber in a loss-free medium: `kyi = -(n1 mu)` -/
theorem kyi_real (a1 mu : ℝ) (h1 : 0 ≤ a1) (hmu : 0 ≤ mu) :
    kyi (⟨a1, 0⟩ : Cx ℝ) mu = ⟨-(Real.sqrt a1 * mu), 0⟩ := by
  unfold kyi
  rw [kiz2_real a1 mu h1, sub_ofReal]
  have : a1 - a1 * (1 - mu * mu) = a1 * (mu * mu) := by ring
  simp only [this]
  rw [csqrt_real_nonneg _ (by positivity), neg_mk, Real.sqrt_mul h1, Real.sqrt_mul_self hmu]
  simp

/-- transmitted normal wavenumber between loss-free media for Snell-conjugate cosines -/
theorem kyt_real (a1 a2 mu1 mu2 : ℝ) (h1 : 0 ≤ a1) (h2 : 0 ≤ a2) (hmu2 : 0 ≤ mu2)
    (snell : a1 * (1 - mu1 * mu1) = a2 * (1 - mu2 * mu2)) :
    kyt (⟨a1, 0⟩ : Cx ℝ) ⟨a2, 0⟩ mu1 = ⟨-(Real.sqrt a2 * mu2), 0⟩ := by
  unfold kyt
  rw [kiz2_real a1 mu1 h1, sub_ofReal, snell]
  have : a2 - a2 * (1 - mu2 * mu2) = a2 * (mu2 * mu2) := by ring
  simp only [this]
  rw [csqrt_real_nonneg _ (by positivity), neg_mk, Real.sqrt_mul h2, Real.sqrt_mul_self hmu2]
  simp

theorem lossless_Rh (a1 a2 mu1 mu2 : ℝ) (h1 : 0 ≤ a1) (h2 : 0 ≤ a2) (hmu1 : 0 ≤ mu1) (hmu2 : 0 ≤ mu2)
    (snell : a1 * (1 - mu1 * mu1) = a2 * (1 - mu2 * mu2)) :
    Rh (⟨a1, 0⟩ : Cx ℝ) ⟨a2, 0⟩ mu1
      = ((Real.sqrt a1 * mu1 - Real.sqrt a2 * mu2) / (Real.sqrt a1 * mu1 + Real.sqrt a2 * mu2)) ^ 2 := by
  rw [Rh_eq]
  unfold rhNum rhDen
  rw [kyi_real a1 mu1 h1 hmu1, kyt_real a1 a2 mu1 mu2 h1 h2 hmu2 snell]
  show (Cx.sub _ _).abs2 / (Cx.add (Cx.conj _) _).abs2 = _
  simp only [Cx.sub, Cx.add, Cx.conj, Cx.abs2]
  rw [div_pow]
  congr 1 <;> ring

theorem lossless_Rv (a1 a2 mu1 mu2 : ℝ) (h1 : 0 < a1) (h2 : 0 ≤ a2) (hmu1 : 0 ≤ mu1) (hmu2 : 0 ≤ mu2)
    (snell : a1 * (1 - mu1 * mu1) = a2 * (1 - mu2 * mu2)) :
    Rv (⟨a1, 0⟩ : Cx ℝ) ⟨a2, 0⟩ mu1
      = ((a2 * (Real.sqrt a1 * mu1) - a1 * (Real.sqrt a2 * mu2)) / (a2 * (Real.sqrt a1 * mu1) + a1 * (Real.sqrt a2 * mu2))) ^ 2 := by
  rw [Rv_eq _ _ _ (by exact h1)]
  unfold rvNum rvDen
  rw [kyi_real a1 mu1 h1.le hmu1, kyt_real a1 a2 mu1 mu2 h1.le h2 hmu2 snell]
  show (Cx.sub (Cx.mul _ _) (Cx.mul _ _)).abs2 / (Cx.add (Cx.mul _ (Cx.conj _)) (Cx.mul (Cx.conj _) _)).abs2 = _
  simp only [Cx.sub, Cx.add, Cx.mul, Cx.conj, Cx.abs2]
  rw [div_pow]
  congr 1 <;> ring


end Fresnel
end Smrt

namespace Smrt.Fresnel
open Smrt

/-! ### total reflection, identical media -/

theorem Rh_one_of_kyt_re_zero (e1 e2 : Cx ℝ) (mu : ℝ) (hre : 0 < e1.re) (him : 0 ≤ e1.im) (h0 : 0 < mu) (h1 : mu ≤ 1)
    (hk : (kyt e1 e2 mu).re = 0) : Rh e1 e2 mu = 1 := by
  rw [Rh_eq]
  have hd := rhDen_pos e1 e2 mu hre him h0 h1
  have hg := rh_gap e1 e2 mu
  rw [hk, mul_zero] at hg
  rw [div_eq_one_iff_eq hd.ne']; linarith

theorem Rv_one_of_kyt_re_zero (e1 e2 : Cx ℝ) (mu : ℝ) (hre : 0 < e1.re) (him : 0 ≤ e1.im) (h2 : 0 < e2.abs2)
    (h2im : e2.im = 0) (h0 : 0 < mu) (h1 : mu ≤ 1) (hk : (kyt e1 e2 mu).re = 0) : Rv e1 e2 mu = 1 := by
  rw [Rv_eq e1 e2 mu hre]
  have hd := rvDen_pos e1 e2 mu hre him h2 h0 h1
  have hg := rv_gap e1 e2 mu
  have : reConjMul e2 (kyt e1 e2 mu) = 0 := by unfold reConjMul; rw [hk, h2im]; ring
  rw [this] at hg
  rw [div_eq_one_iff_eq hd.ne']; linarith

theorem kyt_re_zero_of_real_le (e1 : Cx ℝ) (a2 mu : ℝ) (hle : a2 ≤ kiz2 e1 mu) :
    (kyt e1 (⟨a2, 0⟩ : Cx ℝ) mu).re = 0 := by
  unfold kyt
  rw [sub_ofReal]
  rcases hle.lt_or_eq with h | h
  · rw [csqrt_real_neg _ (by simpa using h)]; simp [neg_mk]
  · have : a2 - kiz2 e1 mu = 0 := by rw [h]; ring
    simp only [this]
    rw [csqrt_real_nonneg 0 le_rfl]; simp [neg_mk]

theorem kyt_self (e : Cx ℝ) (mu : ℝ) : kyt e e mu = kyi e mu := rfl

theorem Rh_self (e : Cx ℝ) (mu : ℝ) : Rh e e mu = 0 := by
  rw [Rh_eq]; unfold rhNum; rw [kyt_self]
  have : (kyi e mu - kyi e mu).abs2 = 0 := by
    show (Cx.sub _ _).abs2 = 0
    simp [Cx.sub, Cx.abs2]
  rw [this, zero_div]

theorem Rv_self (e : Cx ℝ) (mu : ℝ) (hre : 0 < e.re) : Rv e e mu = 0 := by
  rw [Rv_eq e e mu hre]; unfold rvNum; rw [kyt_self]
  have : (e * kyi e mu - e * kyi e mu).abs2 = 0 := by
    show (Cx.sub _ _).abs2 = 0
    simp [Cx.sub, Cx.abs2]
  rw [this, zero_div]

/-! ### one concrete evaluation (vacuum over `ε = 3+4i`, normal incidence), used to refute the slab budget -/

theorem cmul_def (a b : Cx ℝ) : a * b = ⟨a.re * b.re - a.im * b.im, a.re * b.im + a.im * b.re⟩ := rfl
theorem cadd_def (a b : Cx ℝ) : a + b = ⟨a.re + b.re, a.im + b.im⟩ := rfl
theorem csub_def (a b : Cx ℝ) : a - b = ⟨a.re - b.re, a.im - b.im⟩ := rfl
theorem cneg_def (a : Cx ℝ) : -a = ⟨-a.re, -a.im⟩ := rfl
theorem cdiv_def (a b : Cx ℝ) : a / b = ⟨(a.re * b.re + a.im * b.im) / (b.re * b.re + b.im * b.im),
    (a.im * b.re - a.re * b.im) / (b.re * b.re + b.im * b.im)⟩ := rfl

theorem csqrt_3_4 : csqrt (⟨3, 4⟩ : Cx ℝ) = ⟨2, 1⟩ := by
  unfold csqrt
  have h25 : Real.sqrt (3 * 3 + 4 * 4) = 5 := by
    rw [show (3 * 3 + 4 * 4 : ℝ) = 5 * 5 by norm_num]; exact Real.sqrt_mul_self (by norm_num)
  have h4 : Real.sqrt ((5 + 3) / 2.0) = 2 := by
    rw [show ((5 + 3) / 2.0 : ℝ) = 2 * 2 by norm_num]; exact Real.sqrt_mul_self (by norm_num)
  simp only [transc_sqrt_real, h25, h4]
  norm_num

theorem csqrt_one : csqrt (⟨1, 0⟩ : Cx ℝ) = ⟨1, 0⟩ := by
  rw [csqrt_real_nonneg 1 zero_le_one, Real.sqrt_one]

theorem kyi_one : kyi (⟨1, 0⟩ : Cx ℝ) 1 = ⟨-1, 0⟩ := by
  rw [kyi_real 1 1 zero_le_one zero_le_one, Real.sqrt_one]; norm_num

theorem kyt_one_34 : kyt (⟨1, 0⟩ : Cx ℝ) ⟨3, 4⟩ 1 = ⟨-2, -1⟩ := by
  unfold kyt
  rw [kiz2_real 1 1 zero_le_one, sub_ofReal]
  norm_num
  rw [csqrt_3_4]; rfl

theorem rv_one_34 : rv (⟨1, 0⟩ : Cx ℝ) ⟨3, 4⟩ 1 = ⟨0.4, 0.2⟩ := by
  unfold rv rvNum rvDen
  rw [kyi_one, kyt_one_34, csqrt_one]
  simp only [cmul_def, cadd_def, csub_def, cdiv_def, Cx.conj]
  norm_num

theorem rv_one_one : rv (⟨1, 0⟩ : Cx ℝ) ⟨1, 0⟩ 1 = ⟨0, 0⟩ := by
  unfold rv rvNum rvDen
  rw [kyt_self, kyi_one, csqrt_one]
  simp only [cmul_def, cadd_def, csub_def, cdiv_def, Cx.conj]
  norm_num

theorem mu2_one_one : mu2 (⟨1, 0⟩ : Cx ℝ) ⟨1, 0⟩ 1 = 1 := by
  unfold mu2; rw [kyt_self, kyi_one, csqrt_one]; norm_num

theorem mu2_one_34 : mu2 (⟨1, 0⟩ : Cx ℝ) ⟨3, 4⟩ 1 = 1 := by
  unfold mu2; rw [kyt_one_34, csqrt_3_4]; norm_num

/-- hypotheses on the media and the cosine shared by the class theorems of C12: medium 1 has `Re ε > 0`, `Im ε ≥ 0`,
    medium 2 is not `ε = 0`, the incidence cosine is in (0,1] -/
structure Admissible (e1 e2 : Cx ℝ) (mu : ℝ) : Prop where
  re1 : 0 < e1.re
  im1 : 0 ≤ e1.im
  ne2 : 0 < e2.abs2
  mu_pos : 0 < mu
  mu_le : mu ≤ 1

theorem Admissible.bounds {e1 e2 : Cx ℝ} {mu : ℝ} (h : Admissible e1 e2 mu) :
    (0 ≤ Rv e1 e2 mu ∧ Rv e1 e2 mu ≤ 1) ∧ (0 ≤ Rh e1 e2 mu ∧ Rh e1 e2 mu ≤ 1) :=
  ⟨Rv_bounds e1 e2 mu h.re1 h.im1 h.ne2 h.mu_pos h.mu_le, Rh_bounds e1 e2 mu h.re1 h.im1 h.mu_pos h.mu_le⟩

end Smrt.Fresnel

namespace Smrt.Iface

open Smrt Smrt.Fresnel

/-! ### the roughness factors lie in (0, 1] -/

theorem exp_neg_mem {x : ℝ} (hx : x ≤ 0) : 0 < Real.exp x ∧ Real.exp x ≤ 1 :=
  ⟨Real.exp_pos _, Real.exp_le_one_iff.mpr hx⟩

theorem powr_nonneg (x p : ℝ) : 0 ≤ powr x p := by
  unfold powr; split_ifs
  · exact (Real.exp_pos _).le
  · exact le_rfl

theorem iemSpecFactor_mem (f : ℝ) (e1 : Cx ℝ) (rms mu : ℝ) :
    0 < iemSpecFactor f e1 rms mu ∧ iemSpecFactor f e1 rms mu ≤ 1 := by
  unfold iemSpecFactor
  apply exp_neg_mem
  have h1 : 0 ≤ e1.abs2 := abs2_nonneg _
  have : 0 ≤ (2.0 * pi * f / cSpeed) * (2.0 * pi * f / cSpeed) * e1.abs2 * (rms * rms) * (mu * mu) :=
    mul_nonneg (mul_nonneg (mul_nonneg (mul_self_nonneg _) h1) (mul_self_nonneg _)) (mul_self_nonneg _)
  nlinarith

theorem iemTransFactor_mem (f : ℝ) (e1 e2 : Cx ℝ) (rms mu : ℝ) :
    0 < iemTransFactor f e1 e2 rms mu ∧ iemTransFactor f e1 e2 rms mu ≤ 1 := by
  unfold iemTransFactor
  apply exp_neg_mem
  nlinarith [mul_nonneg (mul_self_nonneg (2.0 * pi * f / cSpeed * (csqrt (e2 - Cx.smul (1 - mu * mu) e1)).re
    - 2.0 * pi * f / cSpeed * (csqrt e1).re * mu)) (mul_self_nonneg rms)]

theorem choudhuryFactor_mem (f : ℝ) (e1 : Cx ℝ) (rms mu : ℝ) :
    0 < choudhuryFactor f e1 rms mu ∧ choudhuryFactor f e1 rms mu ≤ 1 := by
  unfold choudhuryFactor
  apply exp_neg_mem
  nlinarith [mul_nonneg (mul_self_nonneg (ksigma f e1 rms)) (mul_self_nonneg mu)]

theorem wegmullerFactorH_mem (f : ℝ) (e1 : Cx ℝ) (rms mu : ℝ) :
    0 < wegmullerFactorH f e1 rms mu ∧ wegmullerFactorH f e1 rms mu ≤ 1 := by
  unfold wegmullerFactorH
  apply exp_neg_mem
  linarith [powr_nonneg (ksigma f e1 rms) (Transc.sqrt (0.1 * mu))]

theorem qnhCoef_mem (H N mu : ℝ) (hH : 0 ≤ H) : 0 < qnhCoef H N mu ∧ qnhCoef H N mu ≤ 1 := by
  unfold qnhCoef
  apply exp_neg_mem
  nlinarith [powr_nonneg mu N]

theorem qnhMix_mem (Q a b c : ℝ) (hQ0 : 0 ≤ Q) (hQ1 : Q ≤ 1) (ha0 : 0 ≤ a) (ha1 : a ≤ 1) (hb0 : 0 ≤ b) (hb1 : b ≤ 1)
    (hc0 : 0 ≤ c) (hc1 : c ≤ 1) : 0 ≤ qnhMix Q a b c ∧ qnhMix Q a b c ≤ 1 := by
  unfold qnhMix
  have h1 : 0 ≤ (1 - Q) * a + Q * b := by nlinarith [mul_nonneg (sub_nonneg.mpr hQ1) ha0, mul_nonneg hQ0 hb0]
  have h2 : (1 - Q) * a + Q * b ≤ 1 := by nlinarith [mul_nonneg (sub_nonneg.mpr hQ1) (sub_nonneg.mpr ha1), mul_nonneg hQ0 (sub_nonneg.mpr hb1)]
  constructor
  · exact mul_nonneg h1 hc0
  · nlinarith [mul_nonneg h1 (sub_nonneg.mpr hc1)]

theorem powr_655_mem (mu : ℝ) (h0 : 0 < mu) (h1 : mu ≤ 1) : 0 ≤ powr mu 0.655 ∧ powr mu 0.655 ≤ 1 := by
  unfold powr
  simp only [h0, if_true]
  have hl : Real.log mu ≤ 0 := Real.log_nonpos h0.le h1
  have h655 : (0:ℝ) ≤ 0.655 := by norm_num
  have := Real.exp_le_one_iff.mpr (mul_nonpos_of_nonneg_of_nonpos h655 hl)
  exact ⟨(Real.exp_pos _).le, this⟩

theorem weg_low_mem (mu : ℝ) (h0 : 0 < mu) (h1 : mu ≤ 1) :
    0 ≤ (0.635 - 0.0014 * (acos mu * 180.0 / pi - 60.0) : ℝ) ∧ (0.635 - 0.0014 * (acos mu * 180.0 / pi - 60.0) : ℝ) ≤ 1 := by
    have ha0 : 0 ≤ acos mu := by
      unfold acos
      apply Real.arctan_nonneg.mpr
      exact div_nonneg (Real.sqrt_nonneg _) h0.le
    have ha1 : acos mu < 2 := by
      unfold acos
      have := Real.arctan_lt_pi_div_two (Transc.sqrt (1 - mu * mu) / mu)
      have := Real.pi_le_four
      show Real.arctan _ < 2
      linarith
    rw [mul_div_assoc]
    have hc : (180.0 / pi : ℝ) ≤ 58 := by
      show (180.0 / 3.141592653589793 : ℝ) ≤ 58
      norm_num
    have hc0 : (0:ℝ) ≤ (180.0 / pi : ℝ) := by
      show (0:ℝ) ≤ (180.0 / 3.141592653589793 : ℝ)
      norm_num
    generalize (180.0 / pi : ℝ) = c at hc hc0 ⊢
    generalize acos mu = x at ha0 ha1 ⊢
    constructor
    · norm_num
      nlinarith
    · norm_num
      nlinarith [mul_nonneg ha0 hc0]

theorem wegmullerRatioV_mem (mu : ℝ) (h0 : 0 < mu) (h1 : mu ≤ 1) :
    0 ≤ wegmullerRatioV mu ∧ wegmullerRatioV mu ≤ 1 := by
  unfold wegmullerRatioV
  split_ifs
  · exact weg_low_mem mu h0 h1
  · exact powr_655_mem mu h0 h1

end Smrt.Iface
