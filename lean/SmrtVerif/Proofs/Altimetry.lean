/- helper lemmas for C18 (altimetry): linearity of the array pipeline, non-negativity, Beer–Lambert telescoping -/
import SmrtVerif.Model.Altimetry
import SmrtVerif.Proofs.RealTransc
import Mathlib.Tactic.Ring
import Mathlib.Tactic.Linarith
import Mathlib.Tactic.Positivity
import Mathlib.Tactic.FieldSimp

namespace Smrt.Altimetry

/-! ### elementwise sum and linear array operators -/

@[simp] theorem vadd_nil_left (b : List ℝ) : vadd [] b = [] := by simp [vadd]
@[simp] theorem vadd_nil_right (a : List ℝ) : vadd a [] = [] := by simp [vadd]
@[simp] theorem vadd_cons (x y : ℝ) (a b : List ℝ) : vadd (x :: a) (y :: b) = (x + y) :: vadd a b := by simp [vadd]

theorem vadd_length (a b : List ℝ) (h : a.length = b.length) : (vadd a b).length = a.length := by
  simp [vadd, h]

theorem cumsumFrom_length (s : ℝ) (a : List ℝ) : (cumsumFrom s a).length = a.length := by
  induction a generalizing s with
  | nil => rfl
  | cons x a ih => simp [cumsumFrom, ih]

theorem cumsumFrom_vadd (s t : ℝ) (a b : List ℝ) :
    cumsumFrom (s + t) (vadd a b) = vadd (cumsumFrom s a) (cumsumFrom t b) := by
  induction a generalizing s t b with
  | nil => simp [cumsumFrom]
  | cons x a ih =>
    cases b with
    | nil => simp [cumsumFrom]
    | cons y b =>
      have e : s + t + (x + y) = (s + x) + (t + y) := by ring
      simp only [vadd_cons, cumsumFrom, e, ih]

theorem select_vadd (a b : List ℝ) (m : List Bool) : select (vadd a b) m = vadd (select a m) (select b m) := by
  induction m generalizing a b with
  | nil => cases a <;> cases b <;> simp [select]
  | cons c m ih =>
    cases a with
    | nil => simp [select]
    | cons x a =>
      cases b with
      | nil => simp [select]
      | cons y b => cases c <;> simp [select, ih]

theorem diffFrom_vadd (p q : ℝ) (a b : List ℝ) :
    diffFrom (p + q) (vadd a b) = vadd (diffFrom p a) (diffFrom q b) := by
  induction a generalizing p q b with
  | nil => simp [diffFrom]
  | cons x a ih =>
    cases b with
    | nil => simp [diffFrom]
    | cons y b =>
      have e : x + y - (p + q) = (x - p) + (y - q) := by ring
      simp only [vadd_cons, diffFrom, e, ih]

theorem gateAgg_vadd (a b : List ℝ) (m : List Bool) : gateAgg (vadd a b) m = vadd (gateAgg a m) (gateAgg b m) := by
  unfold gateAgg cumsum
  have h0 : (0 : ℝ) = 0 + 0 := by ring
  conv_lhs => rw [h0, cumsumFrom_vadd, select_vadd, diffFrom_vadd]

theorem select_length_le (a : List ℝ) (m : List Bool) (h : m.length ≤ a.length) : (select a m).length = m.count true := by
  induction m generalizing a with
  | nil => cases a <;> simp [select]
  | cons c m ih =>
    cases a with
    | nil => simp at h
    | cons x a =>
      have h' : m.length ≤ a.length := by simpa using h
      cases c <;> simp [select, ih a h']

theorem diffFrom_length (p : ℝ) (a : List ℝ) : (diffFrom p a).length = a.length := by
  induction a generalizing p with
  | nil => rfl
  | cons x a ih => simp [diffFrom, ih]

theorem gateAgg_length (a : List ℝ) (m : List Bool) (h : m.length ≤ a.length) : (gateAgg a m).length = m.count true := by
  unfold gateAgg cumsum
  rw [diffFrom_length, select_length_le]
  rw [cumsumFrom_length]; exact h

/-! ### padding, convolution, truncation, down-sampling are linear -/

theorem zeros_length (n : Nat) : (zeros n : List ℝ).length = n := by simp [zeros]

theorem vadd_zeros (n : Nat) : vadd (zeros n : List ℝ) (zeros n) = zeros n := by
  induction n with
  | zero => simp [zeros]
  | succ n ih => simp only [zeros, List.replicate_succ, vadd_cons, add_zero] at ih ⊢; rw [ih]

theorem vadd_append (a b c d : List ℝ) (h : a.length = b.length) : vadd (a ++ c) (b ++ d) = vadd a b ++ vadd c d := by
  induction a generalizing b with
  | nil => cases b with
    | nil => simp
    | cons y b => simp at h
  | cons x a ih => cases b with
    | nil => simp at h
    | cons y b => simp only [List.cons_append, vadd_cons, ih b (by simpa using h)]

theorem padTo_length (n : Nat) (a : List ℝ) : (padTo n a).length = max n a.length := by
  simp [padTo, zeros]; omega

theorem padTo_vadd (n : Nat) (a b : List ℝ) (h : a.length = b.length) : padTo n (vadd a b) = vadd (padTo n a) (padTo n b) := by
  unfold padTo
  rw [vadd_append _ _ _ _ h, vadd_length a b h, h, vadd_zeros]

theorem addPad_length (a b : List ℝ) : (addPad a b).length = max a.length b.length := by
  induction a generalizing b with
  | nil => simp [addPad]
  | cons x a ih => cases b with
    | nil => simp [addPad]
    | cons y b => simp only [addPad, List.length_cons, ih]; omega

theorem addPad_vadd (a1 a2 b1 b2 : List ℝ) (ha : a1.length = a2.length) (hb : b1.length = b2.length) :
    addPad (vadd a1 a2) (vadd b1 b2) = vadd (addPad a1 b1) (addPad a2 b2) := by
  induction a1 generalizing a2 b1 b2 with
  | nil =>
    cases a2 with
    | nil => simp [addPad]
    | cons y a2 => simp at ha
  | cons x a1 ih =>
    cases a2 with
    | nil => simp at ha
    | cons y a2 =>
      cases b1 with
      | nil => cases b2 with
        | nil => simp [addPad]
        | cons v b2 => simp at hb
      | cons u b1 => cases b2 with
        | nil => simp at hb
        | cons v b2 =>
          have e : x + y + (u + v) = (x + u) + (y + v) := by ring
          simp only [vadd_cons, addPad, e, ih a2 b1 b2 (by simpa using ha) (by simpa using hb)]

theorem map_mul_add (p : List ℝ) (x y : ℝ) :
    p.map (fun z => z * (x + y)) = vadd (p.map (fun z => z * x)) (p.map (fun z => z * y)) := by
  induction p with
  | nil => simp
  | cons z p ih => simp only [List.map_cons, vadd_cons]; rw [ih, mul_add]

theorem conv_length_congr (p a b : List ℝ) (h : a.length = b.length) : (conv p a).length = (conv p b).length := by
  induction a generalizing b with
  | nil => cases b with
    | nil => rfl
    | cons y b => simp at h
  | cons x a ih => cases b with
    | nil => simp at h
    | cons y b =>
      simp only [conv, addPad_length, List.length_map, List.length_cons, ih b (by simpa using h)]

theorem conv_length_ge (p a : List ℝ) : a.length ≤ (conv p a).length := by
  induction a with
  | nil => simp [conv]
  | cons x a ih => simp only [conv, addPad_length, List.length_cons]; omega

theorem conv_vadd (p a b : List ℝ) (h : a.length = b.length) : conv p (vadd a b) = vadd (conv p a) (conv p b) := by
  induction a generalizing b with
  | nil => simp [conv]
  | cons x a ih => cases b with
    | nil => simp at h
    | cons y b =>
      have h' : a.length = b.length := by simpa using h
      simp only [vadd_cons, conv, ih b h', map_mul_add]
      have e : (0 : ℝ) :: vadd (conv p a) (conv p b) = vadd (0 :: conv p a) (0 :: conv p b) := by simp
      rw [e, addPad_vadd]
      · simp
      · simp [conv_length_congr p a b h']

theorem take_vadd (n : Nat) (a b : List ℝ) : (vadd a b).take n = vadd (a.take n) (b.take n) := by
  simp [vadd, List.take_zipWith]

theorem drop_vadd (n : Nat) (a b : List ℝ) : (vadd a b).drop n = vadd (a.drop n) (b.drop n) := by
  simp [vadd, List.drop_zipWith]

theorem lsum_vadd (a b : List ℝ) (h : a.length = b.length) : lsum (vadd a b) = lsum a + lsum b := by
  induction a generalizing b with
  | nil => cases b with
    | nil => simp [lsum]
    | cons y b => simp at h
  | cons x a ih => cases b with
    | nil => simp at h
    | cons y b => simp only [vadd_cons, lsum, ih b (by simpa using h)]; ring

theorem downsample_length_congr (os fuel : Nat) (a b : List ℝ) (h : a.length = b.length) :
    (downsample os fuel a).length = (downsample os fuel b).length := by
  induction fuel generalizing a b with
  | zero => rfl
  | succ f ih =>
    have hd : (a.drop os).length = (b.drop os).length := by simp [h]
    cases a with
    | nil => cases b with
      | nil => rfl
      | cons y b => simp at h
    | cons x a => cases b with
      | nil => simp at h
      | cons y b => simp only [downsample, List.isEmpty_cons, Bool.false_eq_true, if_false, List.length_cons, ih _ _ hd]

theorem downsample_vadd (os fuel : Nat) (a b : List ℝ) (h : a.length = b.length) :
    downsample os fuel (vadd a b) = vadd (downsample os fuel a) (downsample os fuel b) := by
  induction fuel generalizing a b with
  | zero => simp [downsample]
  | succ f ih =>
    have hd : (a.drop os).length = (b.drop os).length := by simp [h]
    have ht : (a.take os).length = (b.take os).length := by simp [h]
    cases a with
    | nil => simp [downsample]
    | cons x a => cases b with
      | nil => simp at h
      | cons y b =>
        rw [show downsample os (f + 1) (vadd (x :: a) (y :: b)) = lsum ((vadd (x :: a) (y :: b)).take os) / (os : ℝ)
              :: downsample os f ((vadd (x :: a) (y :: b)).drop os) from by simp [downsample]]
        rw [take_vadd, drop_vadd, lsum_vadd _ _ ht, ih _ _ hd]
        simp [downsample, add_div]

/-- a length-respecting additive array operator -/
def LinOp (F : List ℝ → List ℝ) : Prop :=
  ∀ a b : List ℝ, a.length = b.length → F (vadd a b) = vadd (F a) (F b) ∧ (F a).length = (F b).length

theorem LinOp.id : LinOp (fun x => x) := fun _ _ h => ⟨rfl, h⟩

theorem LinOp.comp {F G : List ℝ → List ℝ} (hF : LinOp F) (hG : LinOp G) : LinOp (fun x => G (F x)) := by
  intro a b h
  obtain ⟨e, l⟩ := hF a b h
  obtain ⟨e', l'⟩ := hG (F a) (F b) l
  exact ⟨by show G (F (vadd a b)) = vadd (G (F a)) (G (F b)); rw [e, e'], l'⟩

theorem LinOp.three {F : List ℝ → List ℝ} (hF : LinOp F) (a b c : List ℝ) (hab : a.length = b.length) (hbc : b.length = c.length) :
    F (vadd (vadd a b) c) = vadd (vadd (F a) (F b)) (F c) := by
  have h1 : (vadd a b).length = c.length := by rw [vadd_length a b hab, hab, hbc]
  rw [(hF _ _ h1).1, (hF a b hab).1]

theorem LinOp.padTo (n : Nat) : LinOp (padTo n) := fun a b h => ⟨padTo_vadd n a b h, by simp [padTo_length, h]⟩
theorem LinOp.conv (p : List ℝ) : LinOp (conv p) := fun a b h => ⟨conv_vadd p a b h, conv_length_congr p a b h⟩
theorem LinOp.take (n : Nat) : LinOp (List.take n) := fun a b h => ⟨take_vadd n a b, by simp [h]⟩
theorem LinOp.downsample (os fuel : Nat) : LinOp (downsample os fuel) :=
  fun a b h => ⟨downsample_vadd os fuel a b h, downsample_length_congr os fuel a b h⟩

/-- a linear operator maps the zero array to a zero array -/
theorem LinOp.zero {F : List ℝ → List ℝ} (hF : LinOp F) (n : Nat) : ∀ x ∈ F (zeros n), x = 0 := by
  have h := (hF (zeros n) (zeros n) rfl).1
  rw [vadd_zeros] at h
  generalize F (zeros n) = l at h
  intro x hx
  induction l with
  | nil => simp at hx
  | cons y l ih =>
    simp only [vadd_cons, List.cons.injEq] at h
    rcases List.mem_cons.1 hx with rfl | hx'
    · linarith [h.1]
    · exact ih h.2 hx'

/-! ### Beer–Lambert telescoping -/

theorem two_eq : (2.0 : ℝ) = 2 := by norm_num

theorem beer_lambert_aux (κ γ A : ℝ) (hκ : κ ≠ 0) (dz : List ℝ) (t0 : ℝ) :
    lsum (attenuate (subgateRaw (subgateDtau (List.replicate dz.length κ) dz) (List.replicate dz.length κ)
            (List.replicate dz.length γ))
          (((t0 : ℝ) :: cumsumFrom t0 (subgateDtau (List.replicate dz.length κ) dz)).map (fun t => Transc.exp (-t)))
          (List.replicate dz.length A))
      = A * γ / (2 * κ) * (Real.exp (-t0) - Real.exp (-(t0 + 2 * κ * lsum dz))) := by
  induction dz generalizing t0 with
  | nil => simp [subgateDtau, subgateRaw, attenuate, lsum]
  | cons d dz ih =>
    have ih' := ih (t0 + 2 * κ * d)
    simp only [subgateDtau, subgateRaw, attenuate, two_eq, transc_exp_real, List.map_cons] at ih' ⊢
    simp only [List.length_cons, List.replicate_succ, List.zipWith_cons_cons, List.zip_cons_cons, cumsumFrom, List.map_cons, lsum]
    rw [ih']
    have e1 : Real.exp (-(t0 + 2 * κ * d)) = Real.exp (-t0) * Real.exp (-(2 * κ * d)) := by
      rw [← Real.exp_add]; congr 1; ring
    have e2 : Real.exp (-(t0 + 2 * κ * (d + lsum dz))) = Real.exp (-(t0 + 2 * κ * d + 2 * κ * lsum dz)) := by
      congr 1; ring
    rw [e2, e1]
    field_simp
    ring

/-! ### the surface / interfaces / volume split of `vertical_scattering_distribution` -/

theorem cumsumFrom_zeros (c : ℝ) (k : Nat) : cumsumFrom c (zeros k) = List.replicate k c := by
  induction k with
  | zero => rfl
  | succ k ih => simp only [zeros, List.replicate_succ, cumsumFrom, add_zero] at ih ⊢; rw [ih]

theorem select_nil_right (a : List ℝ) : select a [] = [] := by cases a <;> rfl
theorem select_nil_left (m : List Bool) : select ([] : List ℝ) m = [] := by cases m <;> rfl

theorem select_replicate (c : ℝ) (k : Nat) (m : List Bool) (h : m.length ≤ k) :
    select (List.replicate k c) m = List.replicate (m.count true) c := by
  induction m generalizing k with
  | nil => simp [select_nil_right]
  | cons b m ih => cases k with
    | zero => simp at h
    | succ k => cases b <;> simp [select, List.replicate_succ, ih k (by simpa using h)]

theorem diffFrom_replicate (c : ℝ) (j : Nat) : diffFrom c (List.replicate j c) = zeros j := by
  induction j with
  | zero => rfl
  | succ j ih => simp only [List.replicate_succ, diffFrom, sub_self, ih, zeros]

theorem surfaceRow_length (c : ℝ) (n : Nat) : (surfaceRow c n).length = n := by
  cases n <;> simp [surfaceRow, zeros]

theorem gateAgg_unit (c : ℝ) (k : Nat) (m : List Bool) (h : m.length ≤ k + 1) :
    gateAgg (c :: zeros k) m = surfaceRow c (m.count true) := by
  unfold gateAgg cumsum
  simp only [cumsumFrom, zero_add]
  rw [cumsumFrom_zeros, ← List.replicate_succ, select_replicate _ _ _ h]
  cases m.count true with
  | zero => rfl
  | succ j => simp only [List.replicate_succ, diffFrom, sub_zero, diffFrom_replicate, surfaceRow]

theorem vadd_zeros_left (t : List ℝ) : vadd (zeros t.length) t = t := by
  induction t with
  | nil => rfl
  | cons x t ih => simp only [List.length_cons, zeros, List.replicate_succ, vadd_cons, zero_add] at ih ⊢; rw [ih]

/-- the three rows of the separating path add up to the row of the non-separating path -/
theorem vsd_core_additive (b bv : List ℝ) (m : List Bool) (h : m.length ≤ b.length) :
    vadd (vadd (surfaceRow (b.headD 0) (m.count true)) (gateAgg (zeroHead b) m)) (gateAgg bv m) = gateAgg (vadd b bv) m := by
  cases b with
  | nil =>
    have hm : m = [] := by simpa using h
    subst hm
    simp [gateAgg, select_nil_right, diffFrom, surfaceRow]
  | cons x t =>
    have hb : x :: t = vadd (x :: zeros t.length) (zeroHead (x :: t)) := by
      simp only [zeroHead, vadd_cons, add_zero, vadd_zeros_left]
    conv_rhs => rw [hb, gateAgg_vadd, gateAgg_vadd, gateAgg_unit x t.length m (by simpa using h)]
    simp

/-! ### lengths of the sub-gate arrays -/

theorem fillForwardFrom_length (c : ℝ) (a : List ℝ) (m : List Bool) : (fillForwardFrom c a m).length = m.length := by
  induction m generalizing c a with
  | nil => cases a <;> rfl
  | cons b m ih => cases b <;> cases a <;> simp [fillForwardFrom, ih]

theorem fill_length (a : List ℝ) (m : List Bool) : (fill a m).length = m.length := by
  induction m generalizing a with
  | nil => cases a <;> rfl
  | cons b m ih => cases b <;> cases a <;> simp [fill, ih]

theorem belowBottom_length (tags : List Tag) : (belowBottom tags).length = tags.length := by
  induction tags with
  | nil => rfl
  | cons t ts ih => cases t <;> simp [belowBottom, ih]

theorem subgates_lengths (s : Stack ℝ) (tags : List Tag) (dz : List ℝ) (nmu : Nat) (hdz : dz.length + 1 = tags.length) :
    (subgates s tags dz nmu).1.length = tags.length ∧ (∀ b ∈ (subgates s tags dz nmu).2.1, b.length = tags.length)
      ∧ (subgates s tags dz nmu).2.2.length = tags.length := by
  refine ⟨?_, ?_, ?_⟩
  · simp only [subgates, subgateVolume, attenuate, subgateRaw, attenuationV, subgateDtau, maskZero, fillForward, cumsum,
      List.length_cons, List.length_zipWith, List.length_zip, List.length_map, fillForwardFrom_length, cumsumFrom_length,
      belowBottom_length, List.length_dropLast, List.length_tail]
    omega
  · intro b hb
    simp only [subgates, List.mem_map] at hb
    obtain ⟨k, _, rfl⟩ := hb
    simp only [subgateInterface, attenuationV, subgateDtau, fillForward, cumsum,
      List.length_cons, List.length_zipWith, List.length_zip, List.length_map, fillForwardFrom_length, cumsumFrom_length,
      fill_length, List.length_dropLast]
    omega
  · simp [subgates]

theorem vsd_additive (s : Stack ℝ) (tags : List Tag) (dz : List ℝ) (hdz : dz.length + 1 = tags.length) :
    ∃ S I V : List ℝ, vsdContrib s tags dz 1 = [S, I, V] ∧ vsdTotal s tags dz = vadd (vadd S I) V
      ∧ S.length = I.length ∧ I.length = V.length := by
  obtain ⟨h1, h2, h3⟩ := subgates_lengths s tags dz 1 hdz
  have hbi : ∃ b, (subgates s tags dz 1).2.1 = [b] := by
    simp only [subgates, List.range_one, List.map_cons, List.map_nil]
    exact ⟨_, rfl⟩
  obtain ⟨b, hb⟩ := hbi
  have hbl : b.length = tags.length := h2 b (by simp [hb])
  refine ⟨surfaceRow (b.headD 0) ((subgates s tags dz 1).2.2.count true), gateAgg (zeroHead b) (subgates s tags dz 1).2.2,
    gateAgg (subgates s tags dz 1).1 (subgates s tags dz 1).2.2, ?_, ?_, ?_, ?_⟩
  · simp only [vsdContrib, hb, List.map_cons, List.map_nil, List.cons_append, List.nil_append]
  · simp only [vsdTotal, hb, List.headD_cons]
    rw [vsd_core_additive]
    omega
  · rw [surfaceRow_length, gateAgg_length]
    cases b <;> simp_all [zeroHead]
  · rw [gateAgg_length, gateAgg_length]
    · omega
    · cases b <;> simp_all [zeroHead]

/-! ### `solve`: contributions add up, and to the non-separated waveform -/

theorem finish_linop (o : Opts) (ngate : Nat) : LinOp (finish (α := ℝ) o ngate) := by
  intro a b h
  simp only [finish]
  split
  · exact (LinOp.comp (LinOp.take _) (LinOp.downsample _ _)) a b h
  · exact LinOp.take _ a b h

theorem finish_three_ge (o : Opts) (ngate : Nat) (a b c : List ℝ) (ha : ngate * o.oversampling ≤ a.length)
    (hb : ngate * o.oversampling ≤ b.length) (hc : ngate * o.oversampling ≤ c.length) :
    finish o ngate (vadd (vadd a b) c) = vadd (vadd (finish o ngate a) (finish o ngate b)) (finish o ngate c) := by
  simp only [finish, take_vadd]
  split
  · apply LinOp.three (LinOp.downsample _ _) <;> simp only [List.length_take] <;> omega
  · rfl

theorem finish_rc (o : Opts) (c : Bool) (n : Nat) (row : List ℝ) : finish { o with rc := c } n row = finish o n row := rfl

theorem rtEff_rc (o : Opts) (c : Bool) : ({ o with rc := c } : Opts).rtEff = o.rtEff := rfl

theorem padTo_length_ge (n : Nat) (a : List ℝ) : n ≤ (padTo n a).length := by rw [padTo_length]; omega
theorem padTo_length_ge' (n : Nat) (a : List ℝ) : a.length ≤ (padTo n a).length := by rw [padTo_length]; omega

theorem waveRows_additive (o : Opts) (inp : Input ℝ) (hok : ¬ (1 < o.tis ∧ o.rtEff = true))
    (hdz : (gridDz inp).length + 1 = (gridTags inp).length) :
    ∃ s i v : List ℝ, waveRows { o with rc := true } inp = [s, i, v]
      ∧ waveRows { o with rc := false } inp = [vadd (vadd s i) v] := by
  by_cases ht : 1 < o.tis
  · have hrt : o.rtEff = false := by
      cases h : o.rtEff with
      | false => rfl
      | true => exact absurd ⟨ht, h⟩ hok
    have hsk : o.sk = false := by
      cases h : o.sk with
      | false => rfl
      | true => simp [Opts.rtEff, h, ht, Nat.not_le.2 ht] at hrt
    obtain ⟨os, tis, rc, ro, sk, rt⟩ := o
    simp only at hsk ht
    subst hsk
    have e1 : Opts.rtEff ⟨os, tis, true, ro, false, rt⟩ = false := hrt
    have e0 : Opts.rtEff ⟨os, tis, false, ro, false, rt⟩ = false := hrt
    simp only [waveRows, convolve, e1, e0, ht, decide_true, Bool.or_true, Bool.not_false, Bool.and_self,
      Bool.false_eq_true, if_true, if_false, List.map_cons, List.map_nil]
    show ∃ s i v, [finish ⟨os, tis, rc, ro, false, rt⟩ inp.ngate _, finish ⟨os, tis, rc, ro, false, rt⟩ inp.ngate _,
      finish ⟨os, tis, rc, ro, false, rt⟩ inp.ngate _] = [s, i, v] ∧ [finish ⟨os, tis, rc, ro, false, rt⟩ inp.ngate _] = _
    refine ⟨_, _, _, rfl, ?_⟩
    congr 1
    have hv : inp.ngate * os ≤ (conv inp.pfs (List.getLastD (List.map (padTo (inp.ngate * os))
        (vsdContrib inp.stack (gridTags inp) (gridDz inp) (tis + 1))) [])).length := by
      refine le_trans ?_ (conv_length_ge _ _)
      simp only [vsdContrib, List.map_append, List.map_cons, List.map_nil, List.getLastD_concat]
      exact padTo_length_ge _ _
    apply finish_three_ge
    · exact le_trans hv (padTo_length_ge _ _)
    · exact le_trans hv (padTo_length_ge _ _)
    · exact hv
  · obtain ⟨S, I, V, hc, htot, l1, l2⟩ := vsd_additive inp.stack (gridTags inp) (gridDz inp) hdz
    have hrt : o.rtEff = false := by
      have : o.tis ≤ 1 := Nat.not_lt.1 ht
      cases h : o.sk <;> cases h' : o.rt <;> simp [Opts.rtEff, h, h', ht, this]
    simp only [waveRows, convolve, rtEff_rc, hrt, ht, decide_false, Bool.or_false, Bool.false_and, Bool.true_or,
      Bool.false_eq_true, if_true, if_false, hc, htot, List.map_cons, List.map_nil, finish_rc]
    cases o.sk
    · simp only [Bool.false_eq_true, if_false, List.map_cons, List.map_nil]
      refine ⟨_, _, _, rfl, ?_⟩
      congr 1
      exact LinOp.three (LinOp.comp (LinOp.comp (LinOp.padTo _) (LinOp.conv _)) (finish_linop o inp.ngate)) S I V l1 l2
    · simp only [if_true, List.map_cons, List.map_nil]
      refine ⟨_, _, _, rfl, ?_⟩
      congr 1
      exact LinOp.three (LinOp.comp (LinOp.padTo _) (finish_linop o inp.ngate)) S I V l1 l2

/-! ### non-negativity -/

/-- every entry is ≥ 0 -/
def Nonneg (xs : List ℝ) : Prop := ∀ x ∈ xs, 0 ≤ x

theorem Nonneg.nil : Nonneg [] := fun _ h => by simp at h
theorem Nonneg.cons {x : ℝ} {xs : List ℝ} (hx : 0 ≤ x) (h : Nonneg xs) : Nonneg (x :: xs) := by
  intro y hy; rcases List.mem_cons.1 hy with rfl | hy
  · exact hx
  · exact h y hy
theorem Nonneg.head {x : ℝ} {xs : List ℝ} (h : Nonneg (x :: xs)) : 0 ≤ x := h x (by simp)
theorem Nonneg.tail {x : ℝ} {xs : List ℝ} (h : Nonneg (x :: xs)) : Nonneg xs := fun y hy => h y (by simp [hy])
theorem nonneg_zeros (n : Nat) : Nonneg (zeros n) := by intro x hx; simp [zeros] at hx; simp [hx.2]

theorem mem_zipWith_elim {β γ δ : Type} {f : β → γ → δ} {a : List β} {b : List γ} {z : δ} (h : z ∈ List.zipWith f a b) :
    ∃ x ∈ a, ∃ y ∈ b, z = f x y := by
  induction a generalizing b with
  | nil => simp at h
  | cons x a ih => cases b with
    | nil => simp at h
    | cons y b =>
      simp only [List.zipWith_cons_cons, List.mem_cons] at h
      rcases h with rfl | h
      · exact ⟨x, by simp, y, by simp, rfl⟩
      · obtain ⟨x', hx', y', hy', e⟩ := ih h
        exact ⟨x', by simp [hx'], y', by simp [hy'], e⟩

theorem nonneg_zipWith {f : ℝ → ℝ → ℝ} (hf : ∀ x y, 0 ≤ x → 0 ≤ y → 0 ≤ f x y) {a b : List ℝ} (ha : Nonneg a) (hb : Nonneg b) :
    Nonneg (List.zipWith f a b) := by
  intro z hz
  obtain ⟨x, hx, y, hy, rfl⟩ := mem_zipWith_elim hz
  exact hf x y (ha x hx) (hb y hy)

theorem nonneg_vadd {a b : List ℝ} (ha : Nonneg a) (hb : Nonneg b) : Nonneg (vadd a b) :=
  nonneg_zipWith (fun _ _ hx hy => add_nonneg hx hy) ha hb
theorem nonneg_vmul {a b : List ℝ} (ha : Nonneg a) (hb : Nonneg b) : Nonneg (vmul a b) :=
  nonneg_zipWith (fun _ _ hx hy => mul_nonneg hx hy) ha hb

theorem nonneg_padTo (n : Nat) {a : List ℝ} (ha : Nonneg a) : Nonneg (padTo n a) := by
  intro x hx
  rcases List.mem_append.1 hx with h | h
  · exact ha x h
  · exact nonneg_zeros _ x h

theorem nonneg_take (n : Nat) {a : List ℝ} (ha : Nonneg a) : Nonneg (a.take n) := fun x hx => ha x (List.mem_of_mem_take hx)
theorem nonneg_drop (n : Nat) {a : List ℝ} (ha : Nonneg a) : Nonneg (a.drop n) := fun x hx => ha x (List.mem_of_mem_drop hx)

theorem nonneg_addPad {a b : List ℝ} (ha : Nonneg a) (hb : Nonneg b) : Nonneg (addPad a b) := by
  induction a generalizing b with
  | nil => simpa [addPad] using hb
  | cons x a ih => cases b with
    | nil => simpa [addPad] using ha
    | cons y b =>
      simp only [addPad]
      exact Nonneg.cons (add_nonneg ha.head hb.head) (ih ha.tail hb.tail)

theorem nonneg_conv {p b : List ℝ} (hp : Nonneg p) (hb : Nonneg b) : Nonneg (conv p b) := by
  induction b with
  | nil => exact Nonneg.nil
  | cons y b ih =>
    simp only [conv]
    apply nonneg_addPad
    · intro z hz
      obtain ⟨x, hx, rfl⟩ := List.mem_map.1 hz
      exact mul_nonneg (hp x hx) hb.head
    · exact Nonneg.cons le_rfl (ih hb.tail)

theorem lsum_nonneg {a : List ℝ} (ha : Nonneg a) : 0 ≤ lsum a := by
  induction a with
  | nil => simp [lsum]
  | cons x a ih => simp only [lsum]; exact add_nonneg ha.head (ih ha.tail)

theorem nonneg_downsample (os fuel : Nat) {a : List ℝ} (ha : Nonneg a) : Nonneg (downsample os fuel a) := by
  induction fuel generalizing a with
  | zero => exact Nonneg.nil
  | succ f ih =>
    simp only [downsample]
    split
    · exact Nonneg.nil
    · exact Nonneg.cons (div_nonneg (lsum_nonneg (nonneg_take _ ha)) (Nat.cast_nonneg _)) (ih (nonneg_drop _ ha))

theorem nonneg_finish (o : Opts) (n : Nat) {a : List ℝ} (ha : Nonneg a) : Nonneg (finish o n a) := by
  simp only [finish]
  split
  · exact nonneg_downsample _ _ (nonneg_take _ ha)
  · exact nonneg_take _ ha

/-- the primitive `cumsum` of a non-negative array is non-decreasing -/
theorem cumsumFrom_pairwise (acc : ℝ) {xs : List ℝ} (h : Nonneg xs) : List.Pairwise (· ≤ ·) (acc :: cumsumFrom acc xs) := by
  induction xs generalizing acc with
  | nil => simp [cumsumFrom]
  | cons x xs ih =>
    have ih' := ih (acc + x) h.tail
    simp only [cumsumFrom]
    rw [List.pairwise_cons] at ih' ⊢
    refine ⟨?_, List.pairwise_cons.2 ih'⟩
    intro y hy
    rcases List.mem_cons.1 hy with rfl | hy
    · linarith [h.head]
    · linarith [h.head, ih'.1 y hy]

theorem select_sublist (a : List ℝ) (m : List Bool) : (select a m).Sublist a := by
  induction m generalizing a with
  | nil => simp [select_nil_right]
  | cons c m ih => cases a with
    | nil => simp [select_nil_left]
    | cons x a => cases c
                  · simp only [select]; exact (ih a).cons _
                  · simp only [select]; exact (ih a).cons₂ _

theorem diffFrom_nonneg (p : ℝ) {ys : List ℝ} (h : List.Pairwise (· ≤ ·) (p :: ys)) : Nonneg (diffFrom p ys) := by
  induction ys generalizing p with
  | nil => exact Nonneg.nil
  | cons y ys ih =>
    rw [List.pairwise_cons] at h
    simp only [diffFrom]
    exact Nonneg.cons (by linarith [h.1 y (by simp)]) (ih y h.2)

/-- gate aggregation (difference of the selected primitive) of a non-negative profile is non-negative -/
theorem nonneg_gateAgg {xs : List ℝ} (h : Nonneg xs) (m : List Bool) : Nonneg (gateAgg xs m) := by
  unfold gateAgg cumsum
  apply diffFrom_nonneg
  exact (cumsumFrom_pairwise 0 h).sublist ((select_sublist _ m).cons₂ 0)

theorem fillForwardFrom_mem (c : ℝ) (a : List ℝ) (m : List Bool) : ∀ x ∈ fillForwardFrom c a m, x = c ∨ x ∈ a := by
  induction m generalizing c a with
  | nil => intro x hx; cases a <;> simp [fillForwardFrom] at hx
  | cons b m ih =>
    intro x hx
    cases b <;> cases a with
    | nil =>
      simp only [fillForwardFrom, List.mem_cons] at hx
      rcases hx with rfl | hx
      · exact Or.inl rfl
      · exact ih c [] x hx
    | cons y a =>
      simp only [fillForwardFrom, List.mem_cons] at hx
      first
        | (rcases hx with rfl | hx
           · exact Or.inl rfl
           · exact ih c (y :: a) x hx)
        | (rcases hx with rfl | hx
           · exact Or.inr (by simp)
           · rcases ih y a x hx with rfl | h
             · exact Or.inr (by simp)
             · exact Or.inr (by simp [h]))

theorem nonneg_fillForward {a : List ℝ} (ha : Nonneg a) (m : List Bool) : Nonneg (fillForward a m) := by
  intro x hx
  rcases fillForwardFrom_mem _ a m x hx with rfl | h
  · simp
  · exact ha x h

theorem fill_mem (a : List ℝ) (m : List Bool) : ∀ x ∈ fill a m, x = 0 ∨ x ∈ a := by
  induction m generalizing a with
  | nil => intro x hx; cases a <;> simp [fill] at hx
  | cons b m ih =>
    intro x hx
    cases b <;> cases a with
    | nil =>
      simp only [fill, List.mem_cons] at hx
      rcases hx with rfl | hx
      · exact Or.inl rfl
      · exact ih [] x hx
    | cons y a =>
      simp only [fill, List.mem_cons] at hx
      first
        | (rcases hx with rfl | hx
           · exact Or.inl rfl
           · exact ih (y :: a) x hx)
        | (rcases hx with rfl | hx
           · exact Or.inr (by simp)
           · rcases ih a x hx with rfl | h
             · exact Or.inl rfl
             · exact Or.inr (by simp [h]))

theorem nonneg_fill {a : List ℝ} (ha : Nonneg a) (m : List Bool) : Nonneg (fill a m) := by
  intro x hx
  rcases fill_mem a m x hx with rfl | h
  · exact le_rfl
  · exact ha x h

theorem nonneg_cumprodFrom (acc : ℝ) (hacc : 0 ≤ acc) {xs : List ℝ} (h : Nonneg xs) : Nonneg (cumprodFrom acc xs) := by
  induction xs generalizing acc with
  | nil => exact Nonneg.nil
  | cons x xs ih =>
    simp only [cumprodFrom]
    exact Nonneg.cons (mul_nonneg hacc h.head) (ih _ (mul_nonneg hacc h.head) h.tail)

theorem nonneg_attenuationV (dtau : List ℝ) : Nonneg (attenuationV dtau) := by
  intro x hx
  obtain ⟨t, _, rfl⟩ := List.mem_map.1 hx
  exact (Real.exp_pos _).le

theorem nonneg_subgateDtau {ke dz : List ℝ} (hk : Nonneg ke) (hd : Nonneg dz) : Nonneg (subgateDtau ke dz) :=
  nonneg_zipWith (fun _ _ hx hy => by rw [two_eq]; positivity) hk hd

theorem nonneg_subgateRaw {dtau ke gam : List ℝ} (ht : Nonneg dtau) (hk : Nonneg ke) (hg : Nonneg gam) :
    Nonneg (subgateRaw dtau ke gam) := by
  intro z hz
  obtain ⟨tk, htk, g, hg', rfl⟩ := mem_zipWith_elim hz
  obtain ⟨h1, h2⟩ := List.of_mem_zip htk
  have ht1 := ht _ h1
  have hk2 := hk _ h2
  have : Real.exp (-tk.1) ≤ 1 := by rw [Real.exp_le_one_iff]; linarith
  rw [two_eq, transc_exp_real]
  exact mul_nonneg (div_nonneg (by linarith) (by positivity)) (hg _ hg')

theorem nonneg_attenuate {raw attv atti : List ℝ} (hr : Nonneg raw) (hv : Nonneg attv) (hi : Nonneg atti) :
    Nonneg (attenuate raw attv atti) := by
  intro z hz
  obtain ⟨b, hb, a, ha, rfl⟩ := mem_zipWith_elim hz
  obtain ⟨h1, h2⟩ := List.of_mem_zip ha
  exact mul_nonneg (hr _ hb) (mul_nonneg (hv _ h1) (hi _ h2))

theorem nonneg_maskZero {xs : List ℝ} (h : Nonneg xs) (m : List Bool) : Nonneg (maskZero xs m) := by
  intro z hz
  obtain ⟨x, hx, b, _, rfl⟩ := mem_zipWith_elim hz
  cases b
  · simpa using h x hx
  · simp

theorem nonneg_subgateInterface {echo attv atti : List ℝ} (he : Nonneg echo) (m : List Bool) (hv : Nonneg attv) (hi : Nonneg atti) :
    Nonneg (subgateInterface echo m attv atti) := by
  intro z hz
  obtain ⟨e, he', a, ha, rfl⟩ := mem_zipWith_elim hz
  obtain ⟨h1, h2⟩ := List.of_mem_zip ha
  exact mul_nonneg (mul_nonneg (nonneg_fill he m _ he') (hv _ h1)) (hi _ h2)

theorem interp_nonneg (x : ℝ) (xp fp : List ℝ) (h : Nonneg fp) : 0 ≤ interp x xp fp := by
  induction xp generalizing fp with
  | nil => cases fp <;> simp [interp]
  | cons x0 xs ih =>
    cases xs with
    | nil =>
      cases fp with
      | nil => simp [interp]
      | cons f0 fs =>
        cases fs with
        | nil => simpa [interp] using h.head
        | cons f1 fs => simp [interp]
    | cons x1 xs =>
      cases fp with
      | nil => simp [interp]
      | cons f0 fs =>
        cases fs with
        | nil => simp [interp]
        | cons f1 fs =>
          simp only [interp]
          split_ifs with h0 h1
          · exact h.head
          · have hf0 := h.head
            have hf1 := h.tail.head
            have hd : 0 < x1 - x0 := by linarith [not_lt.1 h0]
            have e : (f1 - f0) / (x1 - x0) * (x - x0) + f0 = (f0 * (x1 - x) + f1 * (x - x0)) / (x1 - x0) := by
              field_simp; ring
            rw [e]
            apply div_nonneg _ hd.le
            have := mul_nonneg hf0 (by linarith : (0 : ℝ) ≤ x1 - x)
            have := mul_nonneg hf1 (by linarith [not_lt.1 h0] : (0 : ℝ) ≤ x - x0)
            linarith
          · exact ih (f1 :: fs) h.tail

theorem nonneg_angularResponse (tg ti : List ℝ) {pfs col : List ℝ} (hp : Nonneg pfs) (hc : Nonneg col) :
    Nonneg (angularResponse tg ti pfs col) := by
  apply nonneg_vmul _ hp
  intro z hz
  obtain ⟨t, _, rfl⟩ := List.mem_map.1 hz
  exact interp_nonneg _ _ _ hc

theorem nonneg_interfaceLoop (tg ti : List ℝ) {pfs : List ℝ} (hp : Nonneg pfs) (cols : List (List ℝ))
    (hc : ∀ c ∈ cols, Nonneg c) : Nonneg (interfaceLoop tg ti pfs cols) := by
  induction cols with
  | nil => exact Nonneg.nil
  | cons c cols ih =>
    have hrest : Nonneg ((0 : ℝ) :: interfaceLoop tg ti pfs cols) :=
      Nonneg.cons le_rfl (ih (fun c' hc' => hc c' (by simp [hc'])))
    simp only [interfaceLoop]
    split
    · exact nonneg_addPad (nonneg_angularResponse tg ti hp (hc c (by simp))) hrest
    · exact hrest

theorem nonneg_headD {a : List ℝ} (h : Nonneg a) : 0 ≤ a.headD 0 := by
  cases a with
  | nil => simp
  | cons x a => simpa using h.head

theorem nonneg_tail' {a : List ℝ} (h : Nonneg a) : Nonneg a.tail := fun x hx => h x (List.mem_of_mem_tail hx)

theorem nonneg_transposeN (n : Nat) (rows : List (List ℝ)) (h : ∀ r ∈ rows, Nonneg r) : ∀ c ∈ transposeN n rows, Nonneg c := by
  induction n generalizing rows with
  | zero => intro c hc; simp [transposeN] at hc
  | succ n ih =>
    intro c hc
    simp only [transposeN, List.mem_cons] at hc
    rcases hc with rfl | hc
    · intro z hz
      obtain ⟨r, hr, rfl⟩ := List.mem_map.1 hz
      exact nonneg_headD (h r hr)
    · refine ih _ ?_ c hc
      intro r hr
      obtain ⟨r', hr', rfl⟩ := List.mem_map.1 hr
      exact nonneg_tail' (h r' hr')

/-! ### non-negativity of `vertical_scattering_distribution` and of the waveform rows -/

/-- the physical sign conditions on what the emmodels and interfaces deliver -/
structure Stack.Valid (s : Stack ℝ) : Prop where
  ke_pos : ∀ k ∈ s.ke, 0 < k
  eps_pos : ∀ e ∈ s.eps, 0 < e
  phase_nonneg : Nonneg s.phase
  echo_nonneg : ∀ r ∈ s.echo, Nonneg r
  sub_nonneg : ∀ r, s.subEcho = some r → Nonneg r

theorem getD_nonneg {l : List ℝ} (h : Nonneg l) (i : Nat) : 0 ≤ l.getD i 0 := by
  rw [List.getD_eq_getElem?_getD]
  cases h' : l[i]? with
  | none => simp
  | some x => simpa using h x (List.mem_of_getElem? h')

theorem getLastD_mem_cons {β : Type} (x : β) (l : List β) : l.getLastD x ∈ x :: l := by
  induction l generalizing x with
  | nil => simp
  | cons y l ih => rw [List.getLastD_cons]; exact List.mem_cons_of_mem _ (ih y)

theorem getLastD_nonneg {l : List ℝ} (h : Nonneg l) : 0 ≤ l.getLastD 1 := by
  cases l with
  | nil => simp
  | cons x l => rw [List.getLastD_cons]; exact h _ (getLastD_mem_cons _ _)

theorem nonneg_layerEcho {s : Stack ℝ} (hs : s.Valid) (m : Nat) : Nonneg (layerEcho s m) := by
  have heps : Nonneg s.eps := fun e he => (hs.eps_pos e he).le
  have hup : Nonneg (epsUpper s.eps) := Nonneg.cons zero_le_one (fun e he => heps e (List.mem_of_mem_dropLast he))
  have hrow : Nonneg (s.echo.getD m []) := by
    rw [List.getD_eq_getElem?_getD]
    cases h' : s.echo[m]? with
    | none => exact Nonneg.nil
    | some r => simpa using hs.echo_nonneg r (List.mem_of_getElem? h')
  have he : Nonneg (List.zipWith (fun x e1 => x / e1) (s.echo.getD m []) (epsUpper s.eps)) :=
    nonneg_zipWith (fun _ _ hx hy => div_nonneg hx hy) hrow hup
  unfold layerEcho
  cases hsub : s.subEcho with
  | none =>
    intro x hx
    rcases List.mem_append.1 hx with h | h
    · exact he x h
    · simp at h; simp [h]
  | some se =>
    intro x hx
    rcases List.mem_append.1 hx with h | h
    · exact he x h
    · simp only [List.mem_singleton] at h
      rw [h]
      exact div_nonneg (getD_nonneg (hs.sub_nonneg se hsub) m) (getLastD_nonneg heps)

theorem nonneg_subgates {s : Stack ℝ} (hs : s.Valid) (tags : List Tag) {dz : List ℝ} (hdz : Nonneg dz) (nmu : Nat) :
    Nonneg (subgates s tags dz nmu).1 ∧ ∀ b ∈ (subgates s tags dz nmu).2.1, Nonneg b := by
  have hke : Nonneg (fillForward s.ke (List.map Tag.isLay tags).dropLast) :=
    nonneg_fillForward (fun k hk => (hs.ke_pos k hk).le) _
  have hgam : Nonneg (fillForward (List.zipWith (fun p e => p / 12.566370614359172 / e) s.phase s.eps)
      (List.map Tag.isLay tags).dropLast) := by
    apply nonneg_fillForward
    exact nonneg_zipWith (fun _ _ hx hy => div_nonneg (div_nonneg hx (by norm_num)) hy) hs.phase_nonneg
      (fun e he => (hs.eps_pos e he).le)
  have hT : Nonneg (cumprodFrom 1 (List.map (fun t => t * t) s.trans)) := by
    apply nonneg_cumprodFrom 1 zero_le_one
    intro z hz
    obtain ⟨t, _, rfl⟩ := List.mem_map.1 hz
    exact mul_self_nonneg t
  have hatti : Nonneg ((1 : ℝ) :: fillForward (cumprodFrom 1 (List.map (fun t => t * t) s.trans)) (List.map Tag.isLay tags).dropLast) :=
    Nonneg.cons zero_le_one (nonneg_fillForward hT _)
  refine ⟨?_, ?_⟩
  · simp only [subgates]
    apply Nonneg.cons le_rfl
    apply nonneg_maskZero
    simp only [subgateVolume]
    exact nonneg_attenuate (nonneg_subgateRaw (nonneg_subgateDtau hke hdz) hke hgam) (nonneg_attenuationV _) hatti.tail
  · intro b hb
    simp only [subgates, List.mem_map] at hb
    obtain ⟨m, _, rfl⟩ := hb
    exact nonneg_subgateInterface (nonneg_layerEcho hs m) _ (nonneg_attenuationV _) hatti

theorem nonneg_surfaceRow {c : ℝ} (hc : 0 ≤ c) (n : Nat) : Nonneg (surfaceRow c n) := by
  cases n with
  | zero => exact Nonneg.nil
  | succ n => exact Nonneg.cons hc (nonneg_zeros n)

theorem nonneg_zeroHead {a : List ℝ} (h : Nonneg a) : Nonneg (zeroHead a) := by
  cases a with
  | nil => exact Nonneg.nil
  | cons x a => exact Nonneg.cons le_rfl h.tail

theorem nonneg_vsdContrib {s : Stack ℝ} (hs : s.Valid) (tags : List Tag) {dz : List ℝ} (hdz : Nonneg dz) (nmu : Nat) :
    ∀ r ∈ vsdContrib s tags dz nmu, Nonneg r := by
  obtain ⟨hv, hi⟩ := nonneg_subgates hs tags hdz nmu
  intro r hr
  simp only [vsdContrib, List.mem_append, List.mem_map, List.mem_singleton] at hr
  rcases hr with (⟨b, hb, rfl⟩ | ⟨b, hb, rfl⟩) | rfl
  · exact nonneg_surfaceRow (nonneg_headD (hi b hb)) _
  · exact nonneg_gateAgg (nonneg_zeroHead (hi b hb)) _
  · exact nonneg_gateAgg hv _

theorem nonneg_vsdTotal {s : Stack ℝ} (hs : s.Valid) (tags : List Tag) {dz : List ℝ} (hdz : Nonneg dz) :
    Nonneg (vsdTotal s tags dz) := by
  obtain ⟨hv, hi⟩ := nonneg_subgates hs tags hdz 1
  simp only [vsdTotal]
  apply nonneg_gateAgg
  apply nonneg_vadd _ hv
  cases h : (subgates s tags dz 1).2.1 with
  | nil => exact Nonneg.nil
  | cons b bs => exact hi b (by simp [h])

theorem nonneg_convolve (o : Opts) (inp : Input ℝ) (hp : Nonneg inp.pfs) (rows : List (List ℝ)) (hr : ∀ r ∈ rows, Nonneg r) :
    ∀ r ∈ convolve o inp rows, Nonneg r := by
  have hlast : Nonneg (rows.getLastD []) := by
    cases rows with
    | nil => exact Nonneg.nil
    | cons r rs => rw [List.getLastD_cons]; exact hr _ (getLastD_mem_cons _ _)
  have hws : Nonneg (angularResponse (tGate (inp.ngate * o.oversampling) inp.bw o.oversampling) (tInc inp.ngate inp.bw o.tis) inp.pfs
      (List.map (fun r => r.headD 0) (List.take (o.tis + 1) rows))) := by
    apply nonneg_angularResponse _ _ hp
    intro z hz
    obtain ⟨r, hr', rfl⟩ := List.mem_map.1 hz
    exact nonneg_headD (hr r (List.mem_of_mem_take hr'))
  have hwi : Nonneg (interfaceLoop (tGate (inp.ngate * o.oversampling) inp.bw o.oversampling) (tInc inp.ngate inp.bw o.tis) inp.pfs
      (transposeN (rows.getLastD []).length (List.take (o.tis + 1) (List.drop (o.tis + 1) rows)))) := by
    apply nonneg_interfaceLoop _ _ hp
    apply nonneg_transposeN
    intro r hr'
    exact hr r (List.mem_of_mem_drop (List.mem_of_mem_take hr'))
  intro r hmem
  simp only [convolve] at hmem
  split at hmem
  · split at hmem
    · simp only [List.mem_cons, List.not_mem_nil, or_false] at hmem
      rcases hmem with rfl | rfl | rfl
      · exact nonneg_padTo _ hws
      · exact nonneg_padTo _ hwi
      · exact nonneg_conv hp hlast
    · simp only [List.mem_singleton] at hmem
      rw [hmem]
      exact nonneg_vadd (nonneg_vadd (nonneg_padTo _ hws) (nonneg_padTo _ hwi)) (nonneg_conv hp hlast)
  · obtain ⟨r', hr', rfl⟩ := List.mem_map.1 hmem
    exact nonneg_conv hp (hr r' hr')

theorem nonneg_waveRows (o : Opts) (inp : Input ℝ) (hs : inp.stack.Valid) (hp : Nonneg inp.pfs) (hdz : Nonneg (gridDz inp)) :
    ∀ r ∈ waveRows o inp, Nonneg r := by
  have hrows : ∀ r ∈ (if (o.rc || decide (1 < o.tis)) = true then
      vsdContrib inp.stack (gridTags inp) (gridDz inp) (if 1 < o.tis then o.tis + 1 else 1)
      else [vsdTotal inp.stack (gridTags inp) (gridDz inp)]).map (padTo (inp.ngate * o.oversampling)), Nonneg r := by
    intro r hr
    obtain ⟨r', hr', rfl⟩ := List.mem_map.1 hr
    apply nonneg_padTo
    split at hr'
    · exact nonneg_vsdContrib hs _ hdz _ r' hr'
    · simp only [List.mem_singleton] at hr'
      rw [hr']
      exact nonneg_vsdTotal hs _ hdz
  intro r hr
  simp only [waveRows] at hr
  obtain ⟨r', hr', rfl⟩ := List.mem_map.1 hr
  apply nonneg_finish
  split at hr'
  · exact hrows r' hr'
  · exact nonneg_convolve o inp hp _ hrows r' hr'

/-! ### no sources, no waveform -/

/-- every entry is 0 -/
def IsZero (xs : List ℝ) : Prop := ∀ x ∈ xs, x = 0

theorem IsZero.nil : IsZero [] := fun _ h => by simp at h
theorem IsZero.cons {x : ℝ} {xs : List ℝ} (hx : x = 0) (h : IsZero xs) : IsZero (x :: xs) := by
  intro y hy; rcases List.mem_cons.1 hy with rfl | hy
  · exact hx
  · exact h y hy
theorem IsZero.head {x : ℝ} {xs : List ℝ} (h : IsZero (x :: xs)) : x = 0 := h x (by simp)
theorem IsZero.tail {x : ℝ} {xs : List ℝ} (h : IsZero (x :: xs)) : IsZero xs := fun y hy => h y (by simp [hy])
theorem isZero_zeros (n : Nat) : IsZero (zeros n) := by intro x hx; simp [zeros] at hx; exact hx.2
theorem IsZero.nonneg {xs : List ℝ} (h : IsZero xs) : Nonneg xs := fun x hx => (h x hx).ge

theorem isZero_zipWith_left {γ : Type} {f : ℝ → γ → ℝ} (hf : ∀ y, f 0 y = 0) {a : List ℝ} (ha : IsZero a) (b : List γ) :
    IsZero (List.zipWith f a b) := by
  intro z hz
  obtain ⟨x, hx, y, _, rfl⟩ := mem_zipWith_elim hz
  rw [ha x hx, hf]

theorem isZero_zipWith_both {f : ℝ → ℝ → ℝ} (hf : f 0 0 = 0) {a b : List ℝ} (ha : IsZero a) (hb : IsZero b) :
    IsZero (List.zipWith f a b) := by
  intro z hz
  obtain ⟨x, hx, y, hy, rfl⟩ := mem_zipWith_elim hz
  rw [ha x hx, hb y hy, hf]

theorem isZero_vadd {a b : List ℝ} (ha : IsZero a) (hb : IsZero b) : IsZero (vadd a b) :=
  isZero_zipWith_both (by simp) ha hb

theorem isZero_padTo (n : Nat) {a : List ℝ} (ha : IsZero a) : IsZero (padTo n a) := by
  intro x hx
  rcases List.mem_append.1 hx with h | h
  · exact ha x h
  · exact isZero_zeros _ x h

theorem isZero_take (n : Nat) {a : List ℝ} (ha : IsZero a) : IsZero (a.take n) := fun x hx => ha x (List.mem_of_mem_take hx)
theorem isZero_drop (n : Nat) {a : List ℝ} (ha : IsZero a) : IsZero (a.drop n) := fun x hx => ha x (List.mem_of_mem_drop hx)

theorem isZero_addPad {a b : List ℝ} (ha : IsZero a) (hb : IsZero b) : IsZero (addPad a b) := by
  induction a generalizing b with
  | nil => simpa [addPad] using hb
  | cons x a ih => cases b with
    | nil => simpa [addPad] using ha
    | cons y b =>
      simp only [addPad]
      exact IsZero.cons (by rw [ha.head, hb.head, add_zero]) (ih ha.tail hb.tail)

theorem isZero_conv (p : List ℝ) {b : List ℝ} (hb : IsZero b) : IsZero (conv p b) := by
  induction b with
  | nil => exact IsZero.nil
  | cons y b ih =>
    simp only [conv]
    apply isZero_addPad
    · intro z hz
      obtain ⟨x, _, rfl⟩ := List.mem_map.1 hz
      rw [hb.head, mul_zero]
    · exact IsZero.cons rfl (ih hb.tail)

theorem lsum_isZero {a : List ℝ} (ha : IsZero a) : lsum a = 0 := by
  induction a with
  | nil => simp [lsum]
  | cons x a ih => simp only [lsum]; rw [ha.head, ih ha.tail, add_zero]

theorem isZero_downsample (os fuel : Nat) {a : List ℝ} (ha : IsZero a) : IsZero (downsample os fuel a) := by
  induction fuel generalizing a with
  | zero => exact IsZero.nil
  | succ f ih =>
    simp only [downsample]
    split
    · exact IsZero.nil
    · exact IsZero.cons (by rw [lsum_isZero (isZero_take _ ha), zero_div]) (ih (isZero_drop _ ha))

theorem isZero_finish (o : Opts) (n : Nat) {a : List ℝ} (ha : IsZero a) : IsZero (finish o n a) := by
  simp only [finish]
  split
  · exact isZero_downsample _ _ (isZero_take _ ha)
  · exact isZero_take _ ha

theorem cumsumFrom_isZero {xs : List ℝ} (h : IsZero xs) : IsZero (cumsumFrom 0 xs) := by
  induction xs with
  | nil => exact IsZero.nil
  | cons x xs ih =>
    simp only [cumsumFrom, h.head, add_zero]
    exact IsZero.cons rfl (ih h.tail)

theorem diffFrom_isZero {ys : List ℝ} (h : IsZero ys) : IsZero (diffFrom 0 ys) := by
  induction ys with
  | nil => exact IsZero.nil
  | cons y ys ih =>
    simp only [diffFrom, h.head, sub_zero]
    exact IsZero.cons rfl (ih h.tail)

theorem isZero_gateAgg {xs : List ℝ} (h : IsZero xs) (m : List Bool) : IsZero (gateAgg xs m) := by
  unfold gateAgg cumsum
  apply diffFrom_isZero
  intro x hx
  exact cumsumFrom_isZero h x ((select_sublist _ m).subset hx)

theorem isZero_fillForward {a : List ℝ} (ha : IsZero a) (m : List Bool) : IsZero (fillForward a m) := by
  intro x hx
  rcases fillForwardFrom_mem _ a m x hx with rfl | h
  · simp
  · exact ha x h

theorem isZero_fill {a : List ℝ} (ha : IsZero a) (m : List Bool) : IsZero (fill a m) := by
  intro x hx
  rcases fill_mem a m x hx with rfl | h
  · rfl
  · exact ha x h

theorem isZero_headD {a : List ℝ} (h : IsZero a) : a.headD 0 = 0 := by
  cases a with
  | nil => rfl
  | cons x a => simpa using h.head

theorem interp_isZero (x : ℝ) (xp fp : List ℝ) (h : IsZero fp) : interp x xp fp = 0 :=
  le_antisymm (by
    induction xp generalizing fp with
    | nil => cases fp <;> simp [interp]
    | cons x0 xs ih =>
      cases xs with
      | nil =>
        cases fp with
        | nil => simp [interp]
        | cons f0 fs =>
          cases fs with
          | nil => simp [interp, h.head]
          | cons f1 fs => simp [interp]
      | cons x1 xs =>
        cases fp with
        | nil => simp [interp]
        | cons f0 fs =>
          cases fs with
          | nil => simp [interp]
          | cons f1 fs =>
            simp only [interp]
            split_ifs
            · exact (h.head).le
            · rw [h.head, h.tail.head]; simp
            · exact ih (f1 :: fs) h.tail) (interp_nonneg x xp fp h.nonneg)

theorem isZero_angularResponse (tg ti pfs : List ℝ) {col : List ℝ} (hc : IsZero col) : IsZero (angularResponse tg ti pfs col) := by
  apply isZero_zipWith_left (by simp)
  intro z hz
  obtain ⟨t, _, rfl⟩ := List.mem_map.1 hz
  exact interp_isZero _ _ _ hc

theorem isZero_interfaceLoop (tg ti pfs : List ℝ) (cols : List (List ℝ)) (hc : ∀ c ∈ cols, IsZero c) :
    IsZero (interfaceLoop tg ti pfs cols) := by
  induction cols with
  | nil => exact IsZero.nil
  | cons c cols ih =>
    have hrest : IsZero ((0 : ℝ) :: interfaceLoop tg ti pfs cols) :=
      IsZero.cons rfl (ih (fun c' hc' => hc c' (by simp [hc'])))
    simp only [interfaceLoop]
    split
    · exact isZero_addPad (isZero_angularResponse tg ti pfs (hc c (by simp))) hrest
    · exact hrest

theorem isZero_transposeN (n : Nat) (rows : List (List ℝ)) (h : ∀ r ∈ rows, IsZero r) : ∀ c ∈ transposeN n rows, IsZero c := by
  induction n generalizing rows with
  | zero => intro c hc; simp [transposeN] at hc
  | succ n ih =>
    intro c hc
    simp only [transposeN, List.mem_cons] at hc
    rcases hc with rfl | hc
    · intro z hz
      obtain ⟨r, hr, rfl⟩ := List.mem_map.1 hz
      exact isZero_headD (h r hr)
    · refine ih _ ?_ c hc
      intro r hr
      obtain ⟨r', hr', rfl⟩ := List.mem_map.1 hr
      exact fun x hx => h r' hr' x (List.mem_of_mem_tail hx)

/-- no volume scattering (zero backward phase value) and no interface / substrate echo -/
structure Stack.NoSource (s : Stack ℝ) : Prop where
  phase_zero : IsZero s.phase
  echo_zero : ∀ r ∈ s.echo, IsZero r
  sub_zero : ∀ r, s.subEcho = some r → IsZero r

theorem isZero_layerEcho {s : Stack ℝ} (hs : s.NoSource) (m : Nat) : IsZero (layerEcho s m) := by
  have hrow : IsZero (s.echo.getD m []) := by
    rw [List.getD_eq_getElem?_getD]
    cases h' : s.echo[m]? with
    | none => exact IsZero.nil
    | some r => simpa using hs.echo_zero r (List.mem_of_getElem? h')
  have he : IsZero (List.zipWith (fun x e1 => x / e1) (s.echo.getD m []) (epsUpper s.eps)) :=
    isZero_zipWith_left (by simp) hrow _
  unfold layerEcho
  cases hsub : s.subEcho with
  | none =>
    intro x hx
    rcases List.mem_append.1 hx with h | h
    · exact he x h
    · simpa using h
  | some se =>
    intro x hx
    rcases List.mem_append.1 hx with h | h
    · exact he x h
    · simp only [List.mem_singleton] at h
      have : se.getD m 0 = 0 := by
        rw [List.getD_eq_getElem?_getD]
        cases h' : se[m]? with
        | none => simp
        | some y => simpa using hs.sub_zero se hsub y (List.mem_of_getElem? h')
      rw [h, this, zero_div]

theorem isZero_subgates {s : Stack ℝ} (hs : s.NoSource) (tags : List Tag) (dz : List ℝ) (nmu : Nat) :
    IsZero (subgates s tags dz nmu).1 ∧ ∀ b ∈ (subgates s tags dz nmu).2.1, IsZero b := by
  refine ⟨?_, ?_⟩
  · simp only [subgates]
    apply IsZero.cons rfl
    intro z hz
    obtain ⟨x, hx, b, _, rfl⟩ := mem_zipWith_elim hz
    cases b
    · simp only [Bool.false_eq_true, if_false]
      simp only [subgateVolume, attenuate] at hx
      obtain ⟨r, hr, a, _, rfl⟩ := mem_zipWith_elim hx
      simp only [subgateRaw] at hr
      obtain ⟨tk, _, g, hg, rfl⟩ := mem_zipWith_elim hr
      have : g = 0 := by
        refine isZero_fillForward ?_ _ g hg
        exact isZero_zipWith_left (by simp) hs.phase_zero _
      rw [this]; simp
    · simp
  · intro b hb
    simp only [subgates, List.mem_map] at hb
    obtain ⟨m, _, rfl⟩ := hb
    simp only [subgateInterface]
    exact isZero_zipWith_left (by simp) (isZero_fill (isZero_layerEcho hs m) _) _

theorem isZero_vsdContrib {s : Stack ℝ} (hs : s.NoSource) (tags : List Tag) (dz : List ℝ) (nmu : Nat) :
    ∀ r ∈ vsdContrib s tags dz nmu, IsZero r := by
  obtain ⟨hv, hi⟩ := isZero_subgates hs tags dz nmu
  intro r hr
  simp only [vsdContrib, List.mem_append, List.mem_map, List.mem_singleton] at hr
  rcases hr with (⟨b, hb, rfl⟩ | ⟨b, hb, rfl⟩) | rfl
  · rw [isZero_headD (hi b hb)]
    cases (subgates s tags dz nmu).2.2.count true with
    | zero => exact IsZero.nil
    | succ n => exact IsZero.cons rfl (isZero_zeros n)
  · apply isZero_gateAgg
    cases b with
    | nil => exact IsZero.nil
    | cons x b => exact IsZero.cons rfl (hi _ hb).tail
  · exact isZero_gateAgg hv _

theorem isZero_vsdTotal {s : Stack ℝ} (hs : s.NoSource) (tags : List Tag) (dz : List ℝ) : IsZero (vsdTotal s tags dz) := by
  obtain ⟨hv, hi⟩ := isZero_subgates hs tags dz 1
  simp only [vsdTotal]
  apply isZero_gateAgg
  apply isZero_vadd _ hv
  cases h : (subgates s tags dz 1).2.1 with
  | nil => exact IsZero.nil
  | cons b bs => exact hi b (by simp [h])

theorem isZero_convolve (o : Opts) (inp : Input ℝ) (rows : List (List ℝ)) (hr : ∀ r ∈ rows, IsZero r) :
    ∀ r ∈ convolve o inp rows, IsZero r := by
  have hlast : IsZero (rows.getLastD []) := by
    cases rows with
    | nil => exact IsZero.nil
    | cons r rs => rw [List.getLastD_cons]; exact hr _ (getLastD_mem_cons _ _)
  have hws : IsZero (angularResponse (tGate (inp.ngate * o.oversampling) inp.bw o.oversampling) (tInc inp.ngate inp.bw o.tis) inp.pfs
      (List.map (fun r => r.headD 0) (List.take (o.tis + 1) rows))) := by
    apply isZero_angularResponse
    intro z hz
    obtain ⟨r, hr', rfl⟩ := List.mem_map.1 hz
    exact isZero_headD (hr r (List.mem_of_mem_take hr'))
  have hwi : IsZero (interfaceLoop (tGate (inp.ngate * o.oversampling) inp.bw o.oversampling) (tInc inp.ngate inp.bw o.tis) inp.pfs
      (transposeN (rows.getLastD []).length (List.take (o.tis + 1) (List.drop (o.tis + 1) rows)))) := by
    apply isZero_interfaceLoop
    apply isZero_transposeN
    intro r hr'
    exact hr r (List.mem_of_mem_drop (List.mem_of_mem_take hr'))
  intro r hmem
  simp only [convolve] at hmem
  split at hmem
  · split at hmem
    · simp only [List.mem_cons, List.not_mem_nil, or_false] at hmem
      rcases hmem with rfl | rfl | rfl
      · exact isZero_padTo _ hws
      · exact isZero_padTo _ hwi
      · exact isZero_conv _ hlast
    · simp only [List.mem_singleton] at hmem
      rw [hmem]
      exact isZero_vadd (isZero_vadd (isZero_padTo _ hws) (isZero_padTo _ hwi)) (isZero_conv _ hlast)
  · obtain ⟨r', hr', rfl⟩ := List.mem_map.1 hmem
    exact isZero_conv _ (hr r' hr')

theorem isZero_waveRows (o : Opts) (inp : Input ℝ) (hs : inp.stack.NoSource) : ∀ r ∈ waveRows o inp, IsZero r := by
  have hrows : ∀ r ∈ (if (o.rc || decide (1 < o.tis)) = true then
      vsdContrib inp.stack (gridTags inp) (gridDz inp) (if 1 < o.tis then o.tis + 1 else 1)
      else [vsdTotal inp.stack (gridTags inp) (gridDz inp)]).map (padTo (inp.ngate * o.oversampling)), IsZero r := by
    intro r hr
    obtain ⟨r', hr', rfl⟩ := List.mem_map.1 hr
    apply isZero_padTo
    split at hr'
    · exact isZero_vsdContrib hs _ _ _ r' hr'
    · simp only [List.mem_singleton] at hr'
      rw [hr']
      exact isZero_vsdTotal hs _ _
  intro r hr
  simp only [waveRows] at hr
  obtain ⟨r', hr', rfl⟩ := List.mem_map.1 hr
  apply isZero_finish
  split at hr'
  · exact hrows r' hr'
  · exact isZero_convolve o inp _ hrows r' hr'

/-! ### down-sampling is the gate mean; `fill_forward` hands every sub-gate the value of its layer -/

theorem downsample_getElem? (os fuel : Nat) (hos : 0 < os) (w : List ℝ) (g : Nat) (hg : g < fuel) (hw : g * os < w.length) :
    (downsample os fuel w)[g]? = some (lsum ((w.drop (g * os)).take os) / (os : ℝ)) := by
  induction fuel generalizing w g with
  | zero => omega
  | succ f ih =>
    have hne : w.isEmpty = false := by cases w with
      | nil => simp at hw
      | cons x w => rfl
    simp only [downsample, hne, Bool.false_eq_true, if_false]
    cases g with
    | zero => simp
    | succ g =>
      have hw' : g * os < (w.drop os).length := by
        simp only [List.length_drop]
        have : (g + 1) * os = g * os + os := by ring
        omega
      rw [List.getElem?_cons_succ, ih (w.drop os) g (by omega) hw', List.drop_drop]
      congr 4
      ring_nf

theorem fillForwardFrom_getElem? (c : ℝ) (a : List ℝ) (m : List Bool) (k : Nat) (hk : k < m.length)
    (hcnt : (m.take (k + 1)).count true ≤ a.length) :
    (fillForwardFrom c a m)[k]? = if (m.take (k + 1)).count true = 0 then some c else a[(m.take (k + 1)).count true - 1]? := by
  induction m generalizing c a k with
  | nil => simp at hk
  | cons b m ih =>
    cases b with
    | false =>
      have e : fillForwardFrom c a (false :: m) = c :: fillForwardFrom c a m := by cases a <;> rfl
      rw [e]
      cases k with
      | zero => simp
      | succ k =>
        have hk' : k < m.length := by simpa using hk
        have := ih c a k hk' (by simpa using hcnt)
        simpa using this
    | true =>
      cases a with
      | nil => simp at hcnt
      | cons x a =>
        cases k with
        | zero => simp [fillForwardFrom]
        | succ k =>
          have hk' : k < m.length := by simpa using hk
          have hc' : (List.take (k + 1) m).count true ≤ a.length := by simpa using hcnt
          simp only [fillForwardFrom, List.getElem?_cons_succ, List.take_succ_cons, List.count_cons_self, Nat.succ_ne_zero,
            if_false, Nat.add_sub_cancel]
          rw [ih x a k hk' hc']
          by_cases h0 : (List.take (k + 1) m).count true = 0
          · simp [h0]
          · obtain ⟨j, hj⟩ := Nat.exists_eq_succ_of_ne_zero h0
            simp [hj]

/-! ### the merged grid -/

theorem diff_length (l : List ℝ) : (diff l).length = l.length - 1 := by
  cases l with
  | nil => rfl
  | cons z zs => simp [diff]

theorem tagLayers_ne_nil (zl : List ℝ) (h : zl ≠ []) : tagLayers zl ≠ [] := by
  cases zl with
  | nil => exact absurd rfl h
  | cons z zs => cases zs <;> simp [tagLayers]

theorem merge_ne_nil (ls : List (ℝ × Tag)) (gs : List ℝ) (h : ls ≠ []) : merge ls gs ≠ [] := by
  cases ls with
  | nil => exact absurd rfl h
  | cons a ls => simp [merge]

theorem grid_dz_length (inp : Input ℝ) (h : inp.zl ≠ []) : (gridDz inp).length + 1 = (gridTags inp).length := by
  have hne : grid inp.zl inp.zg ≠ [] := merge_ne_nil _ _ (tagLayers_ne_nil _ h)
  have hpos : 0 < (grid inp.zl inp.zg).length := List.length_pos_of_ne_nil hne
  simp only [gridDz, gridTags, diff_length, List.length_map]
  omega

/-- gates and layer boundaries partition the merged grid: the gate entries are exactly the gate depths, in order -/
theorem merge_gates (ls : List (ℝ × Tag)) (gs : List ℝ) (hl : ∀ a ∈ ls, a.2 ≠ Tag.gate) :
    ((merge ls gs).filter (fun a => a.2.isGate)).map Prod.fst = gs := by
  induction ls generalizing gs with
  | nil => simp [merge, List.filter_map, Function.comp_def, Tag.isGate]
  | cons a ls ih =>
    have ha : a.2.isGate = false := by
      have := hl a (by simp)
      cases h : a.2 <;> simp_all [Tag.isGate]
    simp only [merge, List.filter_append, List.filter_cons, ha, Bool.false_eq_true, if_false, List.map_append]
    rw [ih _ (fun b hb => hl b (by simp [hb]))]
    simp [List.filter_map, Function.comp_def, Tag.isGate]

/-- … and the other entries are exactly the layer boundaries, in order -/
theorem merge_layers (ls : List (ℝ × Tag)) (gs : List ℝ) (hl : ∀ a ∈ ls, a.2 ≠ Tag.gate) :
    (merge ls gs).filter (fun a => !a.2.isGate) = ls := by
  induction ls generalizing gs with
  | nil => simp [merge, List.filter_map, Function.comp_def, Tag.isGate]
  | cons a ls ih =>
    have ha : a.2.isGate = false := by
      have := hl a (by simp)
      cases h : a.2 <;> simp_all [Tag.isGate]
    simp only [merge, List.filter_append, List.filter_cons, ha, Bool.not_false, if_true]
    rw [ih _ (fun b hb => hl b (by simp [hb]))]
    simp [List.filter_map, Function.comp_def, Tag.isGate]

theorem tagLayers_not_gate (zl : List ℝ) : ∀ a ∈ tagLayers zl, a.2 ≠ Tag.gate := by
  induction zl with
  | nil => simp [tagLayers]
  | cons z zs ih =>
    cases zs with
    | nil => simp [tagLayers]
    | cons z' zs =>
      intro a ha
      simp only [tagLayers, List.mem_cons] at ha
      rcases ha with rfl | ha
      · simp
      · exact ih a (by simpa [tagLayers] using ha)

theorem tagLayers_fst (zl : List ℝ) : (tagLayers zl).map Prod.fst = zl := by
  induction zl with
  | nil => rfl
  | cons z zs ih =>
    cases zs with
    | nil => rfl
    | cons z' zs => simp only [tagLayers, List.map_cons] at ih ⊢; rw [ih]

end Smrt.Altimetry
