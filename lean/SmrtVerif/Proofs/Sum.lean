/- bridging lemmas between the executable `sumN` (a left fold) and `Finset.sum` -/
import SmrtVerif.Model.Basic
import Mathlib.Algebra.BigOperators.Group.Finset.Basic
import Mathlib.Algebra.BigOperators.Ring.Finset
import Mathlib.Algebra.BigOperators.Intervals

namespace Smrt
open Finset

theorem sumN_eq_sum {M : Type} [AddCommMonoid M] (n : Nat) (f : Nat → M) :
    sumN n f = ∑ k ∈ range n, f k := by
  unfold sumN
  induction n with
  | zero => simp
  | succ n ih =>
    rw [List.range_succ, List.foldl_append, ih, Finset.sum_range_succ]
    simp

theorem sumN_single {M : Type} [AddCommMonoid M] (n i : Nat) (hi : i < n) (g : Nat → M) :
    sumN n (fun k => if k = i then g k else 0) = g i := by
  rw [sumN_eq_sum, Finset.sum_ite_eq' (range n) i g]
  simp [hi]

theorem sumN_single' {M : Type} [AddCommMonoid M] (n i : Nat) (hi : i < n) (g : Nat → M) :
    sumN n (fun k => if i = k then g k else 0) = g i := by
  rw [sumN_eq_sum, Finset.sum_ite_eq (range n) i g]
  simp [hi]

end Smrt
