/- discrete orthogonality of cosines and sines on N equispaced points (for the exactness of the Fourier helper, C20) -/
import SmrtVerif.Model.Fourier
import SmrtVerif.Proofs.Sum
import SmrtVerif.Proofs.RealTransc
import Mathlib.RingTheory.RootsOfUnity.Complex
import Mathlib.Algebra.Field.GeomSum
import Mathlib.Analysis.SpecialFunctions.Trigonometric.Basic
import Mathlib.Tactic.Ring
import Mathlib.Tactic.Linarith
import Mathlib.Tactic.FieldSimp
import Mathlib.Algebra.BigOperators.Field

namespace Smrt.FourierP
open Finset

/-- the angle `2π j k / N` -/
noncomputable def ang (N j k : Nat) : ℝ := 2 * Real.pi * (j : ℝ) * (k : ℝ) / (N : ℝ)

theorem exp_sum_zero (N j : Nat) (hN : 0 < N) (hj : ¬ N ∣ j) :
    ∑ k ∈ range N, Complex.exp ((ang N j k : ℝ) * Complex.I) = 0 := by
  have hN' : N ≠ 0 := Nat.pos_iff_ne_zero.mp hN
  have hζ := Complex.isPrimitiveRoot_exp N hN'
  set ζ := Complex.exp (2 * Real.pi * Complex.I / N) with hζdef
  have hterm : ∀ k, Complex.exp ((ang N j k : ℝ) * Complex.I) = (ζ ^ j) ^ k := by
    intro k
    rw [hζdef, ← Complex.exp_nat_mul, ← Complex.exp_nat_mul]
    congr 1
    simp only [ang]
    push_cast
    have : (N : ℂ) ≠ 0 := by exact_mod_cast hN'
    field_simp
  simp only [hterm]
  have hne : ζ ^ j ≠ 1 := by
    intro h
    exact hj ((hζ.pow_eq_one_iff_dvd j).mp h)
  rw [geom_sum_eq hne]
  have : (ζ ^ j) ^ N = 1 := by rw [← pow_mul, mul_comm, pow_mul, hζ.pow_eq_one, one_pow]
  rw [this]; simp

theorem cos_sum (N j : Nat) (hN : 0 < N) :
    ∑ k ∈ range N, Real.cos (ang N j k) = if N ∣ j then (N : ℝ) else 0 := by
  split_ifs with h
  · obtain ⟨t, rfl⟩ := h
    have : ∀ k, Real.cos (ang N (N * t) k) = 1 := by
      intro k
      have hN' : (N : ℝ) ≠ 0 := by exact_mod_cast (Nat.pos_iff_ne_zero.mp hN)
      have e : ang N (N * t) k = ((t * k : Nat) : ℝ) * (2 * Real.pi) := by
        simp only [ang]; push_cast; field_simp
      rw [e, Real.cos_nat_mul_two_pi]
    simp [this]
  · have := congrArg Complex.re (exp_sum_zero N j hN h)
    simp only [Complex.re_sum, Complex.exp_ofReal_mul_I_re, Complex.zero_re] at this
    exact this

theorem sin_sum (N j : Nat) (hN : 0 < N) : ∑ k ∈ range N, Real.sin (ang N j k) = 0 := by
  by_cases h : N ∣ j
  · obtain ⟨t, rfl⟩ := h
    have : ∀ k, Real.sin (ang N (N * t) k) = 0 := by
      intro k
      have hN' : (N : ℝ) ≠ 0 := by exact_mod_cast (Nat.pos_iff_ne_zero.mp hN)
      have e : ang N (N * t) k = ((2 * (t * k) : Nat) : ℝ) * Real.pi := by
        simp only [ang]; push_cast; field_simp
      rw [e, Real.sin_nat_mul_pi]
    simp [this]
  · have := congrArg Complex.im (exp_sum_zero N j hN h)
    simp only [Complex.im_sum, Complex.exp_ofReal_mul_I_im, Complex.zero_im] at this
    exact this

theorem ang_add (N a b k : Nat) : ang N (a + b) k = ang N a k + ang N b k := by
  simp only [ang]; push_cast; ring
theorem ang_sub (N a b k : Nat) (h : b ≤ a) : ang N (a - b) k = ang N a k - ang N b k := by
  simp only [ang]; rw [Nat.cast_sub h]; ring

/-- `Σ_k cos(2π n k/N) cos(2π m k/N)` for `n + m < N`: `N` if `n = m = 0`, `N/2` if `n = m > 0`, else 0 -/
theorem cos_cos_sum (N n m : Nat) (hN : 0 < N) (hnm : n + m < N) :
    ∑ k ∈ range N, Real.cos (ang N n k) * Real.cos (ang N m k)
      = if n = m then (if n = 0 then (N : ℝ) else (N : ℝ) / 2) else 0 := by
  -- product to sum with the natural difference |n − m|
  have key : ∀ (a b : Nat), b ≤ a → a + b < N →
      ∑ k ∈ range N, Real.cos (ang N a k) * Real.cos (ang N b k)
        = ((if N ∣ (a - b) then (N : ℝ) else 0) + (if N ∣ (a + b) then (N : ℝ) else 0)) / 2 := by
    intro a b hab hlt
    rw [← cos_sum N (a - b) hN, ← cos_sum N (a + b) hN, ← Finset.sum_add_distrib, Finset.sum_div _ _ _]
    apply Finset.sum_congr rfl
    intro k _
    rw [ang_sub N a b k hab, ang_add, Real.cos_sub, Real.cos_add]; ring
  have dvd_small : ∀ t, t < N → (N ∣ t ↔ t = 0) := by
    intro t ht
    constructor
    · intro h; exact Nat.eq_zero_of_dvd_of_lt h ht
    · intro h; subst h; exact dvd_zero N
  rcases Nat.le_total m n with h | h
  · rw [key n m h hnm]
    rw [if_congr (dvd_small (n - m) (by omega)) rfl rfl, if_congr (dvd_small (n + m) hnm) rfl rfl]
    by_cases e : n = m
    · subst e
      by_cases z : n = 0
      · subst z; simp
      · have : ¬ (n + n = 0) := by omega
        simp [z, this]
    · have h1 : ¬ (n - m = 0) := by omega
      have h2 : ¬ (n + m = 0) := by omega
      rw [if_neg h1, if_neg h2, if_neg e]; simp
  · have := key m n h (by omega)
    have comm : ∑ k ∈ range N, Real.cos (ang N n k) * Real.cos (ang N m k)
        = ∑ k ∈ range N, Real.cos (ang N m k) * Real.cos (ang N n k) := by
      apply Finset.sum_congr rfl; intro k _; ring
    rw [comm, this]
    rw [if_congr (dvd_small (m - n) (by omega)) rfl rfl, if_congr (dvd_small (m + n) (by omega)) rfl rfl]
    by_cases e : n = m
    · subst e
      by_cases z : n = 0
      · subst z; simp
      · have : ¬ (n + n = 0) := by omega
        simp [z, this]
    · have h1 : ¬ (m - n = 0) := by omega
      have h2 : ¬ (m + n = 0) := by omega
      rw [if_neg h1, if_neg h2, if_neg e]; simp

/-- `Σ_k sin(2π n k/N) sin(2π m k/N)` for `n + m < N`: `N/2` if `n = m > 0`, else 0 -/
theorem sin_sin_sum (N n m : Nat) (hN : 0 < N) (hnm : n + m < N) :
    ∑ k ∈ range N, Real.sin (ang N n k) * Real.sin (ang N m k)
      = if n = m ∧ n ≠ 0 then (N : ℝ) / 2 else 0 := by
  have key : ∀ (a b : Nat), b ≤ a → a + b < N →
      ∑ k ∈ range N, Real.sin (ang N a k) * Real.sin (ang N b k)
        = ((if N ∣ (a - b) then (N : ℝ) else 0) - (if N ∣ (a + b) then (N : ℝ) else 0)) / 2 := by
    intro a b hab hlt
    rw [← cos_sum N (a - b) hN, ← cos_sum N (a + b) hN, ← Finset.sum_sub_distrib, Finset.sum_div _ _ _]
    apply Finset.sum_congr rfl
    intro k _
    rw [ang_sub N a b k hab, ang_add, Real.cos_sub, Real.cos_add]; ring
  have dvd_small : ∀ t, t < N → (N ∣ t ↔ t = 0) := by
    intro t ht
    constructor
    · intro h; exact Nat.eq_zero_of_dvd_of_lt h ht
    · intro h; subst h; exact dvd_zero N
  rcases Nat.le_total m n with h | h
  · rw [key n m h hnm]
    rw [if_congr (dvd_small (n - m) (by omega)) rfl rfl, if_congr (dvd_small (n + m) hnm) rfl rfl]
    by_cases e : n = m
    · subst e
      by_cases z : n = 0
      · subst z; simp
      · have : ¬ (n + n = 0) := by omega
        simp [z, this]
    · have h1 : ¬ (n - m = 0) := by omega
      have h2 : ¬ (n + m = 0) := by omega
      have h3 : ¬ (n = m ∧ n ≠ 0) := fun h => e h.1
      rw [if_neg h1, if_neg h2, if_neg h3]; simp
  · have := key m n h (by omega)
    have comm : ∑ k ∈ range N, Real.sin (ang N n k) * Real.sin (ang N m k)
        = ∑ k ∈ range N, Real.sin (ang N m k) * Real.sin (ang N n k) := by
      apply Finset.sum_congr rfl; intro k _; ring
    rw [comm, this]
    rw [if_congr (dvd_small (m - n) (by omega)) rfl rfl, if_congr (dvd_small (m + n) (by omega)) rfl rfl]
    by_cases e : n = m
    · subst e
      by_cases z : n = 0
      · subst z; simp
      · have : ¬ (n + n = 0) := by omega
        simp [z, this]
    · have h1 : ¬ (m - n = 0) := by omega
      have h2 : ¬ (m + n = 0) := by omega
      have h3 : ¬ (n = m ∧ n ≠ 0) := fun h => e h.1
      rw [if_neg h1, if_neg h2, if_neg h3]; simp

end Smrt.FourierP
