/- the transcendental functions of the model, instantiated at ℝ (shared by all proof files) -/
import SmrtVerif.Model.Basic
import Mathlib.Analysis.Real.Sqrt
import Mathlib.Analysis.SpecialFunctions.Log.Basic
import Mathlib.Analysis.SpecialFunctions.Trigonometric.Arctan

namespace Smrt

noncomputable instance instTranscReal : Transc ℝ where
  sqrt := Real.sqrt
  exp := Real.exp
  log := Real.log
  cos := Real.cos
  sin := Real.sin
  atan := Real.arctan

@[simp] theorem transc_sqrt_real (x : ℝ) : Transc.sqrt x = Real.sqrt x := rfl
@[simp] theorem transc_exp_real (x : ℝ) : Transc.exp x = Real.exp x := rfl
@[simp] theorem transc_log_real (x : ℝ) : Transc.log x = Real.log x := rfl
@[simp] theorem transc_cos_real (x : ℝ) : Transc.cos x = Real.cos x := rfl
@[simp] theorem transc_sin_real (x : ℝ) : Transc.sin x = Real.sin x := rfl
@[simp] theorem transc_atan_real (x : ℝ) : Transc.atan x = Real.arctan x := rfl

end Smrt
