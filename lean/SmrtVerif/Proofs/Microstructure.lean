/-
  Helper lemmas for C17 (microstructure models as Fourier pairs).

  Part 1 (`Smrt.Integrals`): the Laplace-type integrals behind the analytic transform pairs, each by an explicit
  antiderivative and `integral_Ioi_of_hasDerivAt_of_tendsto'`:
    ∫₀^∞ e^{-ar} cos(cr) = a/(a²+c²),  ∫₀^∞ e^{-ar} sin(cr) = c/(a²+c²),  ∫₀^∞ r e^{-ar} sin(kr) = 2ak/(a²+k²)²,
    ∫₀^∞ e^{-ar} sin(br) sin(kr),  ∫₀^∞ (e^{-a₂r} − e^{-a₁r}) sin(kr),  and the finite sphere integral on [0, 2R].
  Part 2 (`Smrt.Micro`): the model of `Model/Microstructure.lean` read over ℝ.
-/
import SmrtVerif.Model.Microstructure
import SmrtVerif.Proofs.RealTransc
import Mathlib.Analysis.SpecialFunctions.ImproperIntegrals
import Mathlib.MeasureTheory.Integral.IntegralEqImproper
import Mathlib.Analysis.SpecialFunctions.Integrals.Basic
import Mathlib.Analysis.SpecialFunctions.Trigonometric.Deriv
import Mathlib.Analysis.SpecialFunctions.Pow.Asymptotics
import Mathlib.Analysis.SpecialFunctions.Trigonometric.Bounds
import Mathlib.Analysis.SpecialFunctions.Sqrt
import Mathlib.Tactic.Ring
import Mathlib.Tactic.Linarith
import Mathlib.Tactic.Positivity
import Mathlib.Tactic.FieldSimp
import Mathlib.Tactic.NormNum

namespace Smrt.Integrals

open MeasureTheory Set Real Filter

/-! ### Basic limits and derivatives -/

theorem tendsto_exp_neg_mul {a : ℝ} (ha : 0 < a) :
    Tendsto (fun r : ℝ => Real.exp (-a * r)) atTop (nhds 0) := by
  simpa using tendsto_rpow_mul_exp_neg_mul_atTop_nhds_zero 0 a ha

theorem tendsto_mul_exp_neg_mul {a : ℝ} (ha : 0 < a) :
    Tendsto (fun r : ℝ => r * Real.exp (-a * r)) atTop (nhds 0) := by
  simpa using tendsto_rpow_mul_exp_neg_mul_atTop_nhds_zero 1 a ha

theorem tendsto_mul_sin {g : ℝ → ℝ} (k : ℝ) (hg : Tendsto g atTop (nhds 0)) :
    Tendsto (fun r : ℝ => g r * Real.sin (k * r)) atTop (nhds 0) := by
  have := bdd_le_mul_tendsto_zero' (f := fun r : ℝ => Real.sin (k * r)) (1 : ℝ)
    (Eventually.of_forall fun r => abs_sin_le_one _) hg
  simpa [mul_comm] using this

theorem tendsto_mul_cos {g : ℝ → ℝ} (k : ℝ) (hg : Tendsto g atTop (nhds 0)) :
    Tendsto (fun r : ℝ => g r * Real.cos (k * r)) atTop (nhds 0) := by
  have := bdd_le_mul_tendsto_zero' (f := fun r : ℝ => Real.cos (k * r)) (1 : ℝ)
    (Eventually.of_forall fun r => abs_cos_le_one _) hg
  simpa [mul_comm] using this

theorem hasDerivAt_exp_neg_mul (a r : ℝ) :
    HasDerivAt (fun r : ℝ => Real.exp (-a * r)) (-a * Real.exp (-a * r)) r := by
  have h := ((hasDerivAt_id' r).const_mul (-a)).exp
  convert h using 1
  ring

theorem hasDerivAt_sin_mul (k r : ℝ) :
    HasDerivAt (fun r : ℝ => Real.sin (k * r)) (k * Real.cos (k * r)) r := by
  have h := ((hasDerivAt_id' r).const_mul k).sin
  convert h using 1
  ring

theorem hasDerivAt_cos_mul (k r : ℝ) :
    HasDerivAt (fun r : ℝ => Real.cos (k * r)) (-(k * Real.sin (k * r))) r := by
  have h := ((hasDerivAt_id' r).const_mul k).cos
  convert h using 1
  ring

theorem sq_add_sq_ne_zero {a : ℝ} (ha : 0 < a) (c : ℝ) : a ^ 2 + c ^ 2 ≠ 0 := by
  positivity

/-! ### L1, L2 -/

/-- antiderivative of `exp (-a r) cos (c r)` -/
noncomputable def Gcos (a c r : ℝ) : ℝ :=
  Real.exp (-a * r) * (-a * Real.cos (c * r) + c * Real.sin (c * r)) / (a ^ 2 + c ^ 2)

/-- antiderivative of `exp (-a r) sin (c r)` -/
noncomputable def Gsin (a c r : ℝ) : ℝ :=
  Real.exp (-a * r) * (-a * Real.sin (c * r) - c * Real.cos (c * r)) / (a ^ 2 + c ^ 2)

theorem hasDerivAt_Gcos {a : ℝ} (ha : 0 < a) (c r : ℝ) :
    HasDerivAt (Gcos a c) (Real.exp (-a * r) * Real.cos (c * r)) r := by
  have hne := sq_add_sq_ne_zero ha c
  have h := ((hasDerivAt_exp_neg_mul a r).mul
    (((hasDerivAt_cos_mul c r).const_mul (-a)).add
      ((hasDerivAt_sin_mul c r).const_mul c))).div_const (a ^ 2 + c ^ 2)
  refine HasDerivAt.congr_deriv h ?_
  simp only [Pi.add_apply]
  field_simp
  ring

theorem hasDerivAt_Gsin {a : ℝ} (ha : 0 < a) (c r : ℝ) :
    HasDerivAt (Gsin a c) (Real.exp (-a * r) * Real.sin (c * r)) r := by
  have hne := sq_add_sq_ne_zero ha c
  have h := ((hasDerivAt_exp_neg_mul a r).mul
    (((hasDerivAt_sin_mul c r).const_mul (-a)).sub
      ((hasDerivAt_cos_mul c r).const_mul c))).div_const (a ^ 2 + c ^ 2)
  refine HasDerivAt.congr_deriv h ?_
  simp only [Pi.sub_apply]
  field_simp
  ring

theorem Gcos_zero (a c : ℝ) : Gcos a c 0 = -a / (a ^ 2 + c ^ 2) := by
  simp [Gcos]

theorem Gsin_zero (a c : ℝ) : Gsin a c 0 = -c / (a ^ 2 + c ^ 2) := by
  simp [Gsin]

theorem tendsto_Gcos {a : ℝ} (ha : 0 < a) (c : ℝ) : Tendsto (Gcos a c) atTop (nhds 0) := by
  have h1 := (tendsto_mul_cos c (tendsto_exp_neg_mul ha)).const_mul (-a / (a ^ 2 + c ^ 2))
  have h2 := (tendsto_mul_sin c (tendsto_exp_neg_mul ha)).const_mul (c / (a ^ 2 + c ^ 2))
  have h := h1.add h2
  simp only [mul_zero, add_zero] at h
  refine h.congr fun r => ?_
  simp only [Gcos]
  ring

theorem tendsto_Gsin {a : ℝ} (ha : 0 < a) (c : ℝ) : Tendsto (Gsin a c) atTop (nhds 0) := by
  have h1 := (tendsto_mul_sin c (tendsto_exp_neg_mul ha)).const_mul (-a / (a ^ 2 + c ^ 2))
  have h2 := (tendsto_mul_cos c (tendsto_exp_neg_mul ha)).const_mul (-c / (a ^ 2 + c ^ 2))
  have h := h1.add h2
  simp only [mul_zero, add_zero] at h
  refine h.congr fun r => ?_
  simp only [Gsin]
  ring

theorem integrableOn_exp_neg_mul {a : ℝ} (ha : 0 < a) :
    IntegrableOn (fun r : ℝ => Real.exp (-a * r)) (Ioi 0) :=
  integrableOn_exp_mul_Ioi (by linarith) 0

theorem integrableOn_exp_neg_mul_cos {a : ℝ} (ha : 0 < a) (c : ℝ) :
    IntegrableOn (fun r : ℝ => Real.exp (-a * r) * Real.cos (c * r)) (Ioi 0) := by
  refine (integrableOn_exp_neg_mul ha).mono' (by fun_prop) ?_
  refine Eventually.of_forall fun r => ?_
  rw [norm_mul, Real.norm_eq_abs, Real.norm_eq_abs, abs_of_pos (Real.exp_pos _)]
  exact mul_le_of_le_one_right (Real.exp_pos _).le (abs_cos_le_one _)

theorem integrableOn_exp_neg_mul_sin {a : ℝ} (ha : 0 < a) (c : ℝ) :
    IntegrableOn (fun r : ℝ => Real.exp (-a * r) * Real.sin (c * r)) (Ioi 0) := by
  refine (integrableOn_exp_neg_mul ha).mono' (by fun_prop) ?_
  refine Eventually.of_forall fun r => ?_
  rw [norm_mul, Real.norm_eq_abs, Real.norm_eq_abs, abs_of_pos (Real.exp_pos _)]
  exact mul_le_of_le_one_right (Real.exp_pos _).le (abs_sin_le_one _)

theorem integral_exp_neg_mul_cos {a : ℝ} (ha : 0 < a) (c : ℝ) :
    ∫ r in Ioi (0:ℝ), Real.exp (-a * r) * Real.cos (c * r) = a / (a ^ 2 + c ^ 2) := by
  rw [integral_Ioi_of_hasDerivAt_of_tendsto' (fun r _ => hasDerivAt_Gcos ha c r)
    (integrableOn_exp_neg_mul_cos ha c) (tendsto_Gcos ha c), Gcos_zero]
  ring

theorem integral_exp_neg_mul_sin {a : ℝ} (ha : 0 < a) (c : ℝ) :
    ∫ r in Ioi (0:ℝ), Real.exp (-a * r) * Real.sin (c * r) = c / (a ^ 2 + c ^ 2) := by
  rw [integral_Ioi_of_hasDerivAt_of_tendsto' (fun r _ => hasDerivAt_Gsin ha c r)
    (integrableOn_exp_neg_mul_sin ha c) (tendsto_Gsin ha c), Gsin_zero]
  ring

/-! ### L3 -/

/-- antiderivative of `r * exp (-a r) * sin (k r)` -/
noncomputable def F (a k r : ℝ) : ℝ :=
  -(Real.exp (-a * r) *
    ((a / (a ^ 2 + k ^ 2) * r + (a ^ 2 - k ^ 2) / (a ^ 2 + k ^ 2) ^ 2) * Real.sin (k * r) +
     (k / (a ^ 2 + k ^ 2) * r + 2 * a * k / (a ^ 2 + k ^ 2) ^ 2) * Real.cos (k * r)))

theorem hasDerivAt_linear (A B r : ℝ) : HasDerivAt (fun r : ℝ => A * r + B) A r := by
  simpa using ((hasDerivAt_id' r).const_mul A).add_const B

theorem hasDerivAt_F_of_ne {a k : ℝ} (hne : a ^ 2 + k ^ 2 ≠ 0) (r : ℝ) :
    HasDerivAt (F a k) (r * Real.exp (-a * r) * Real.sin (k * r)) r := by
  have h := ((hasDerivAt_exp_neg_mul a r).mul
    (((hasDerivAt_linear (a / (a ^ 2 + k ^ 2)) ((a ^ 2 - k ^ 2) / (a ^ 2 + k ^ 2) ^ 2) r).mul
        (hasDerivAt_sin_mul k r)).add
      ((hasDerivAt_linear (k / (a ^ 2 + k ^ 2)) (2 * a * k / (a ^ 2 + k ^ 2) ^ 2) r).mul
        (hasDerivAt_cos_mul k r)))).neg
  refine HasDerivAt.congr_deriv h ?_
  simp only [Pi.add_apply, Pi.mul_apply]
  field_simp
  ring

theorem hasDerivAt_F {a : ℝ} (ha : 0 < a) (k r : ℝ) :
    HasDerivAt (F a k) (r * Real.exp (-a * r) * Real.sin (k * r)) r :=
  hasDerivAt_F_of_ne (sq_add_sq_ne_zero ha k) r

theorem F_zero (a k : ℝ) : F a k 0 = -(2 * a * k) / (a ^ 2 + k ^ 2) ^ 2 := by
  simp [F]
  ring

theorem tendsto_F {a : ℝ} (ha : 0 < a) (k : ℝ) : Tendsto (F a k) atTop (nhds 0) := by
  have e0 := tendsto_exp_neg_mul ha
  have e1 := tendsto_mul_exp_neg_mul ha
  have h1 := (tendsto_mul_sin k e1).const_mul (-(a / (a ^ 2 + k ^ 2)))
  have h2 := (tendsto_mul_sin k e0).const_mul (-((a ^ 2 - k ^ 2) / (a ^ 2 + k ^ 2) ^ 2))
  have h3 := (tendsto_mul_cos k e1).const_mul (-(k / (a ^ 2 + k ^ 2)))
  have h4 := (tendsto_mul_cos k e0).const_mul (-(2 * a * k / (a ^ 2 + k ^ 2) ^ 2))
  have h := ((h1.add h2).add h3).add h4
  simp only [mul_zero, add_zero] at h
  refine h.congr fun r => ?_
  simp only [F]
  ring

/-- antiderivative of `r * exp (-a r)` -/
noncomputable def H (a r : ℝ) : ℝ := -(Real.exp (-a * r) * (1 / a * r + 1 / a ^ 2))

theorem hasDerivAt_H {a : ℝ} (ha : 0 < a) (r : ℝ) :
    HasDerivAt (H a) (r * Real.exp (-a * r)) r := by
  have h := ((hasDerivAt_exp_neg_mul a r).mul (hasDerivAt_linear (1 / a) (1 / a ^ 2) r)).neg
  refine HasDerivAt.congr_deriv h ?_
  field_simp
  ring

theorem tendsto_H {a : ℝ} (ha : 0 < a) : Tendsto (H a) atTop (nhds 0) := by
  have h := ((tendsto_mul_exp_neg_mul ha).const_mul (-(1 / a))).add
    ((tendsto_exp_neg_mul ha).const_mul (-(1 / a ^ 2)))
  simp only [mul_zero, add_zero] at h
  refine h.congr fun r => ?_
  simp only [H]
  ring

theorem integrableOn_mul_exp_neg_mul {a : ℝ} (ha : 0 < a) :
    IntegrableOn (fun r : ℝ => r * Real.exp (-a * r)) (Ioi 0) :=
  integrableOn_Ioi_deriv_of_nonneg' (fun r _ => hasDerivAt_H ha r)
    (fun _ hr => mul_nonneg (le_of_lt hr) (Real.exp_pos _).le) (tendsto_H ha)

theorem integrableOn_mul_exp_neg_mul_sin {a : ℝ} (ha : 0 < a) (k : ℝ) :
    IntegrableOn (fun r : ℝ => r * Real.exp (-a * r) * Real.sin (k * r)) (Ioi 0) := by
  refine (integrableOn_mul_exp_neg_mul ha).mono' (by fun_prop) ?_
  refine (ae_restrict_mem measurableSet_Ioi).mono fun r hr => ?_
  have h0 : 0 ≤ r * Real.exp (-a * r) := mul_nonneg (le_of_lt hr) (Real.exp_pos _).le
  rw [norm_mul, Real.norm_eq_abs, Real.norm_eq_abs, abs_of_nonneg h0]
  exact mul_le_of_le_one_right h0 (abs_sin_le_one _)

theorem integral_mul_exp_neg_mul_sin {a : ℝ} (ha : 0 < a) (k : ℝ) :
    ∫ r in Ioi (0:ℝ), r * Real.exp (-a * r) * Real.sin (k * r)
      = 2 * a * k / (a ^ 2 + k ^ 2) ^ 2 := by
  rw [integral_Ioi_of_hasDerivAt_of_tendsto' (fun r _ => hasDerivAt_F ha k r)
    (integrableOn_mul_exp_neg_mul_sin ha k) (tendsto_F ha k), F_zero]
  ring

/-! ### L4, L5 -/

theorem integral_exp_neg_mul_sin_mul_sin {a : ℝ} (ha : 0 < a) (b k : ℝ) :
    ∫ r in Ioi (0:ℝ), Real.exp (-a * r) * Real.sin (b * r) * Real.sin (k * r)
      = (a / (a ^ 2 + (b - k) ^ 2) - a / (a ^ 2 + (b + k) ^ 2)) / 2 := by
  have hfun : (fun r : ℝ => Real.exp (-a * r) * Real.sin (b * r) * Real.sin (k * r))
      = fun r : ℝ => (Real.exp (-a * r) * Real.cos ((b - k) * r)
          - Real.exp (-a * r) * Real.cos ((b + k) * r)) / 2 := by
    funext r
    rw [sub_mul, add_mul, Real.cos_sub, Real.cos_add]
    ring
  rw [hfun, integral_div, integral_sub (integrableOn_exp_neg_mul_cos ha _)
    (integrableOn_exp_neg_mul_cos ha _), integral_exp_neg_mul_cos ha, integral_exp_neg_mul_cos ha]

theorem integrableOn_exp_neg_mul_sin_mul_sin {a : ℝ} (ha : 0 < a) (b k : ℝ) :
    IntegrableOn (fun r : ℝ => Real.exp (-a * r) * Real.sin (b * r) * Real.sin (k * r))
      (Ioi 0) := by
  refine (integrableOn_exp_neg_mul_sin ha b).norm.mono' (by fun_prop) ?_
  refine Eventually.of_forall fun r => ?_
  rw [norm_mul]
  exact mul_le_of_le_one_right (norm_nonneg (Real.exp (-a * r) * Real.sin (b * r)))
    (abs_sin_le_one _)

theorem integral_exp_sub_exp_mul_sin {a1 a2 : ℝ} (ha1 : 0 < a1) (ha2 : 0 < a2) (k : ℝ) :
    ∫ r in Ioi (0:ℝ), (Real.exp (-a2 * r) - Real.exp (-a1 * r)) * Real.sin (k * r)
      = k / (a2 ^ 2 + k ^ 2) - k / (a1 ^ 2 + k ^ 2) := by
  simp_rw [sub_mul]
  rw [integral_sub (integrableOn_exp_neg_mul_sin ha2 k) (integrableOn_exp_neg_mul_sin ha1 k),
    integral_exp_neg_mul_sin ha2, integral_exp_neg_mul_sin ha1]

theorem integrableOn_exp_sub_exp_mul_sin {a1 a2 : ℝ} (ha1 : 0 < a1) (ha2 : 0 < a2) (k : ℝ) :
    IntegrableOn (fun r : ℝ => (Real.exp (-a2 * r) - Real.exp (-a1 * r)) * Real.sin (k * r))
      (Ioi 0) := by
  simp_rw [sub_mul]
  exact (integrableOn_exp_neg_mul_sin ha2 k).sub (integrableOn_exp_neg_mul_sin ha1 k)

/-! ### L6 (finite interval, sphere) -/

/-- quartic polynomial with explicit coefficients -/
noncomputable def quart (c0 c1 c2 c3 c4 r : ℝ) : ℝ :=
  c0 + c1 * r + c2 * r ^ 2 + c3 * r ^ 3 + c4 * r ^ 4

theorem hasDerivAt_quart (c0 c1 c2 c3 c4 r : ℝ) :
    HasDerivAt (quart c0 c1 c2 c3 c4) (quart c1 (2 * c2) (3 * c3) (4 * c4) 0 r) r := by
  have h := ((((hasDerivAt_const r c0).add ((hasDerivAt_id' r).const_mul c1)).add
    ((hasDerivAt_pow 2 r).const_mul c2)).add ((hasDerivAt_pow 3 r).const_mul c3)).add
    ((hasDerivAt_pow 4 r).const_mul c4)
  refine HasDerivAt.congr_deriv h ?_
  simp only [quart]
  push_cast
  ring

/-- Repeated integration by parts: antiderivative of `p0 r * sin (k r)` for a polynomial `p0`
with `p0' = p1`, ..., `p4' = 0`. -/
theorem hasDerivAt_poly_sin {p0 p1 p2 p3 p4 : ℝ → ℝ} {k : ℝ} (hk : k ≠ 0) (r : ℝ)
    (h0 : HasDerivAt p0 (p1 r) r) (h1 : HasDerivAt p1 (p2 r) r) (h2 : HasDerivAt p2 (p3 r) r)
    (h3 : HasDerivAt p3 (p4 r) r) (h4 : HasDerivAt p4 0 r) :
    HasDerivAt (fun r : ℝ => -(p0 r * Real.cos (k * r)) / k + p1 r * Real.sin (k * r) / k ^ 2
        + p2 r * Real.cos (k * r) / k ^ 3 - p3 r * Real.sin (k * r) / k ^ 4
        - p4 r * Real.cos (k * r) / k ^ 5)
      (p0 r * Real.sin (k * r)) r := by
  have h := (((((h0.mul (hasDerivAt_cos_mul k r)).neg.div_const k).add
    ((h1.mul (hasDerivAt_sin_mul k r)).div_const (k ^ 2))).add
    ((h2.mul (hasDerivAt_cos_mul k r)).div_const (k ^ 3))).sub
    ((h3.mul (hasDerivAt_sin_mul k r)).div_const (k ^ 4))).sub
    ((h4.mul (hasDerivAt_cos_mul k r)).div_const (k ^ 5))
  refine HasDerivAt.congr_deriv h ?_
  field_simp
  ring

/-- antiderivative for L6 -/
noncomputable def Q (R k r : ℝ) : ℝ :=
  -(quart 0 1 (-(3 / (4 * R))) 0 (1 / (16 * R ^ 3)) r * Real.cos (k * r)) / k
  + quart 1 (2 * -(3 / (4 * R))) (3 * 0) (4 * (1 / (16 * R ^ 3))) 0 r * Real.sin (k * r) / k ^ 2
  + quart (2 * -(3 / (4 * R))) (2 * (3 * 0)) (3 * (4 * (1 / (16 * R ^ 3)))) (4 * 0) 0 r
      * Real.cos (k * r) / k ^ 3
  - quart (2 * (3 * 0)) (2 * (3 * (4 * (1 / (16 * R ^ 3))))) (3 * (4 * 0)) (4 * 0) 0 r
      * Real.sin (k * r) / k ^ 4
  - quart (2 * (3 * (4 * (1 / (16 * R ^ 3))))) (2 * (3 * (4 * 0))) (3 * (4 * 0)) (4 * 0) 0 r
      * Real.cos (k * r) / k ^ 5

theorem hasDerivAt_Q {R k : ℝ} (hR : R ≠ 0) (hk : k ≠ 0) (r : ℝ) :
    HasDerivAt (Q R k)
      (r * (1 - r / (4 * R / 3) + r ^ 3 / ((2 * R) ^ 3 * 2)) * Real.sin (k * r)) r := by
  have h := hasDerivAt_poly_sin hk r
    (hasDerivAt_quart 0 1 (-(3 / (4 * R))) 0 (1 / (16 * R ^ 3)) r) (hasDerivAt_quart _ _ _ _ _ r)
    (hasDerivAt_quart _ _ _ _ _ r) (hasDerivAt_quart _ _ _ _ _ r)
    ((hasDerivAt_quart (2 * (3 * (4 * (1 / (16 * R ^ 3))))) (2 * (3 * (4 * 0))) (3 * (4 * 0))
      (4 * 0) 0 r).congr_deriv (by simp [quart]))
  refine HasDerivAt.congr_deriv h ?_
  simp only [quart]
  field_simp
  ring

theorem sin_sub_mul_cos_sq (x : ℝ) :
    (Real.sin x - x * Real.cos x) ^ 2
      = (1 - Real.cos (2 * x)) / 2 - x * Real.sin (2 * x) + x ^ 2 * (1 + Real.cos (2 * x)) / 2 := by
  rw [Real.cos_two_mul, Real.sin_two_mul]
  linear_combination Real.sin_sq_add_cos_sq x

theorem Q_sub {R k : ℝ} (hR : R ≠ 0) (hk : k ≠ 0) :
    Q R k (2 * R) - Q R k 0 = (k / (4 * Real.pi)) * (4 / 3 * Real.pi * R ^ 3)
      * (9 * ((Real.sin (R * k) - (R * k) * Real.cos (R * k)) / (R * k) ^ 3) ^ 2) := by
  have hpi : Real.pi ≠ 0 := Real.pi_ne_zero
  rw [div_pow, sin_sub_mul_cos_sq]
  have h2 : k * (2 * R) = 2 * (R * k) := by ring
  simp only [Q, quart, h2, mul_zero, Real.sin_zero, Real.cos_zero]
  field_simp
  ring

theorem integral_sphere {R k : ℝ} (hR : 0 < R) (hk : k ≠ 0) :
    ∫ r in (0:ℝ)..(2 * R),
        r * (1 - r / (4 * R / 3) + r ^ 3 / ((2 * R) ^ 3 * 2)) * Real.sin (k * r)
      = (k / (4 * Real.pi)) * (4 / 3 * Real.pi * R ^ 3)
        * (9 * ((Real.sin (R * k) - (R * k) * Real.cos (R * k)) / (R * k) ^ 3) ^ 2) := by
  rw [intervalIntegral.integral_eq_sub_of_hasDerivAt (fun r _ => hasDerivAt_Q hR.ne' hk r)
    (Continuous.intervalIntegrable (by fun_prop) _ _), Q_sub hR.ne' hk]

end Smrt.Integrals



/-! ## Part 2: the microstructure model over ℝ -/

namespace Smrt.Micro
open Real

/- the transcendental functions of the model at ℝ are Mathlib's (shared instance `Smrt.instTranscReal`) -/
@[simp] theorem tExp (x : ℝ) : Transc.exp x = Real.exp x := rfl
@[simp] theorem tSin (x : ℝ) : Transc.sin x = Real.sin x := rfl
@[simp] theorem tCos (x : ℝ) : Transc.cos x = Real.cos x := rfl
@[simp] theorem tSqrt (x : ℝ) : Transc.sqrt x = Real.sqrt x := rfl

theorem sq_eq (x : ℝ) : sq x = x ^ 2 := by unfold sq; ring
theorem cube_eq (x : ℝ) : cube x = x ^ 3 := by unfold cube; ring
theorem sq_nonneg' (x : ℝ) : 0 ≤ sq x := mul_self_nonneg x

theorem acf0_nonneg {f : ℝ} (h0 : 0 ≤ f) (h1 : f ≤ 1) : 0 ≤ acf0 f :=
  mul_nonneg h0 (sub_nonneg.2 h1)

theorem acf0_inverted (f : ℝ) : acf0 (invertedFrac f) = acf0 f := by
  unfold acf0 invertedFrac; ring

theorem sinc_zero (p : ℝ) : sinc p 0 = 1 := by
  unfold sinc; simp

theorem sinc_of_ne {p x : ℝ} (hx : x ≠ 0) : sinc p x = Real.sin (p * x) / (p * x) := by
  unfold sinc
  have : x < 0 ∨ 0 < x := lt_or_gt_of_ne hx
  simp [this]

theorem abs_sinc_le_one (p x : ℝ) : |sinc p x| ≤ 1 := by
  by_cases hx : x = 0
  · subst hx; rw [sinc_zero]; simp
  · rw [sinc_of_ne hx, abs_div]
    by_cases hp : p * x = 0
    · rw [hp]; simp
    · exact (div_le_one (abs_pos.2 hp)).2 Real.abs_sin_le_abs

/-- `np.isclose(x, 0, atol)` is false exactly when `atol < |x|` -/
theorem closeZero_false {atol x : ℝ} : closeZero atol x = false ↔ atol < |x| := by
  unfold closeZero absv
  have : (if x < 0 then -x else x) = |x| := by
    split_ifs with h
    · exact (abs_of_neg h).symm
    · exact (abs_of_nonneg (not_lt.1 h)).symm
  rw [this]; simp


/-! clean forms (scientific literals of the source replaced by numerals, `sq`/`cube` by powers) -/

theorem expFt_eq (p f ξ k : ℝ) : expFt p f ξ k = acf0 f * 8 * p * ξ ^ 3 / (1 + (k * ξ) ^ 2) ^ 2 := by
  simp only [expFt, sq_eq, cube_eq]; norm_num

theorem tsFt_eq (p f ξ d k : ℝ) :
    tsFt p f ξ d k = acf0 f * (8 * p * ξ ^ 3 /
      ((1 + (2 * p * ξ / d) ^ 2) ^ 2 + 2 * (1 - (2 * p * ξ / d) ^ 2) * (k * ξ) ^ 2 + ((k * ξ) ^ 2) ^ 2)) := by
  simp only [tsFt, tsDen, sq_eq, cube_eq]; norm_num

theorem tsAcf_eq (p f ξ d r : ℝ) : tsAcf p f ξ d r = acf0 f * (Real.exp (-r / ξ) * sinc p (2 * r / d)) := by
  simp only [tsAcf, tExp]; norm_num

theorem utsFtHi_eq (p c z1 z2 k : ℝ) :
    utsFtHi p c z1 z2 k = c * (4 * p * z1 * z2 * (z1 + z2) / ((1 + (z1 * k) ^ 2) * (1 + (z2 * k) ^ 2))) := by
  simp only [utsFtHi, sq_eq]; norm_num

theorem utsAcfHiMain_eq (c z1 z2 r : ℝ) :
    utsAcfHiMain c z1 z2 r = c * ((Real.exp (-r / z2) - Real.exp (-r / z1)) / (r * (1 / z1 - 1 / z2))) := rfl

theorem sphPoly_eq (R r : ℝ) : sphPoly R r = 1 - r / (4 * R / 3) + r ^ 3 / ((2 * R) ^ 3 * 2) := by
  simp only [sphPoly, cube_eq]; norm_num

theorem sphBessel_far {X : ℝ} (h : (1e-3 : ℝ) < |X|) :
    sphBessel X = 9 * ((Real.sin X - X * Real.cos X) / X ^ 3) ^ 2 := by
  have := closeZero_false.2 h
  simp only [sphBessel, this, sq_eq, cube_eq, tSin, tCos]; norm_num

theorem sphFt_eq (p f R k : ℝ) : sphFt p f R k = acf0 f * (4 / 3 * p * R ^ 3) * sphBessel (R * k) := by
  simp only [sphFt, cube_eq]; norm_num

end Smrt.Micro
