/- the flat boundary-condition matrix `sysEntry` (what the banded storage stands for) and the block form `lhsTop/lhsBot` -/
import SmrtVerif.Model.Dort
import SmrtVerif.Proofs.Sum
import SmrtVerif.Proofs.RealTransc
import Mathlib.Tactic.Ring
import Mathlib.Tactic.Linarith
import Mathlib.Tactic.SplitIfs
import Mathlib.Algebra.BigOperators.Intervals

set_option linter.unusedSectionVars false
set_option linter.unusedVariables false

namespace Smrt.Dort
open Finset

variable (S : DStack ℝ)

/-- width of the column block of layer `l`: `2 · n_l · npol` unknowns -/
def width (l : Nat) : Nat := 2 * ((S.lay l).n * S.npol)

theorem streamsAbove_nsList (l : Nat) (hl : l ≤ S.L) :
    streamsAbove (nsList S) l = ∑ k ∈ range l, (S.lay k).n := by
  induction l with
  | zero => simp [streamsAbove]
  | succ l ih =>
    have hl' : l < S.L := by omega
    have hlen : l < (nsList S).length := by simp [nsList]; exact hl'
    have hA : streamsAbove (nsList S) (l + 1) = streamsAbove (nsList S) l + (nsList S)[l] := by
      unfold streamsAbove
      rw [List.take_succ_eq_append_getElem hlen, List.foldl_append]; simp
    rw [hA, ih (by omega), Finset.sum_range_succ]
    congr 1
    simp [nsList]

theorem off_succ (l : Nat) (hl : l < S.L) : off S (l + 1) = off S l + width S l := by
  simp only [off, jl, width]
  rw [streamsAbove_nsList S (l + 1) (by omega), streamsAbove_nsList S l (by omega), Finset.sum_range_succ]
  ring

theorem off_zero : off S 0 = 0 := by simp [off, jl, streamsAbove]

theorem off_mono (hw : ∀ l, l < S.L → 0 < width S l) (a b : Nat) (hab : a < b) (hb : b ≤ S.L) : off S a < off S b := by
  induction b with
  | zero => omega
  | succ b ih =>
    rw [off_succ S b (by omega)]
    have := hw b (by omega)
    rcases Nat.lt_or_ge a b with h | h
    · have := ih h (by omega); omega
    · have : a = b := by omega
      subst this; omega

theorem nUnknown_eq_off : nUnknown S = off S S.L := by
  simp only [nUnknown, nboundary, off, jl]
  have : (nsList S).foldl (· + ·) 0 = streamsAbove (nsList S) S.L := by
    unfold streamsAbove
    have : (nsList S).length = S.L := by simp [nsList]
    rw [← this, List.take_length]
  rw [this]; ring

/-- locating an index: `off l + j` with `j` inside the block of layer `l` belongs to layer `l` -/
theorem layerOf_off (hw : ∀ l, l < S.L → 0 < width S l) (l j : Nat) (hl : l < S.L) (hj : j < width S l) :
    layerOf S (off S l + j) = l := by
  unfold layerOf
  have key : ∀ l', l' < S.L → (decide (off S l' ≤ off S l + j) = true ↔ l' < l + 1) := by
    intro l' hl'
    simp only [decide_eq_true_eq]
    constructor
    · intro h
      by_contra hc
      have hlt : l + 1 ≤ l' := by omega
      have h1 : off S (l + 1) ≤ off S l' := by
        rcases Nat.eq_or_lt_of_le hlt with e | e
        · rw [e]
        · exact (off_mono S hw (l + 1) l' e (by omega)).le
      rw [off_succ S l hl] at h1
      omega
    · intro h
      rcases Nat.eq_or_lt_of_le (Nat.lt_succ_iff.mp h) with e | e
      · rw [e]; omega
      · have := off_mono S hw l' l e (by omega); omega
  -- count of the indices below the threshold
  have cnt : ∀ n, n ≤ S.L → ((List.range n).filter (fun l' => decide (off S l' ≤ off S l + j))).length = min (l + 1) n := by
    intro n
    induction n with
    | zero => intro _; simp
    | succ n ih =>
      intro hn
      rw [List.range_succ, List.filter_append, List.length_append, ih (by omega)]
      by_cases hp : decide (off S n ≤ off S l + j) = true
      · have : n < l + 1 := (key n (by omega)).mp hp
        simp [hp]; omega
      · have : ¬ n < l + 1 := fun hlt => hp ((key n (by omega)).mpr hlt)
        simp [hp]; omega
  rw [cnt S.L (le_refl _)]
  omega

/-- a sum over all unknowns is the sum over layers of the sums over each layer's block -/
theorem sum_by_layers (F : Nat → ℝ) : ∀ L', L' ≤ S.L →
    ∑ c ∈ range (off S L'), F c = ∑ l ∈ range L', ∑ j ∈ range (width S l), F (off S l + j) := by
  intro L'
  induction L' with
  | zero => intro _; simp [off_zero]
  | succ L' ih =>
    intro h
    rw [off_succ S L' (by omega), Finset.sum_range_add, ih (by omega), Finset.sum_range_succ]

end Smrt.Dort

namespace Smrt.Dort
open Finset
variable (S : DStack ℝ)

theorem sum_ite_shift (L l : Nat) (hl : l ≤ L) (B : Nat → ℝ) :
    ∑ l' ∈ range L, (if l' + 1 = l then B l' else 0) = if 0 < l then B (l - 1) else 0 := by
  by_cases h0 : 0 < l
  · rw [if_pos h0]
    have : ∀ l' ∈ range L, (if l' + 1 = l then B l' else 0) = (if l' = l - 1 then B l' else 0) := by
      intro l' _
      have : (l' + 1 = l) ↔ (l' = l - 1) := by omega
      simp only [this]
    rw [Finset.sum_congr rfl this, Finset.sum_ite_eq' (range L) (l - 1)]
    have : l - 1 ∈ range L := Finset.mem_range.mpr (by omega)
    simp [this]
  · rw [if_neg h0]
    apply Finset.sum_eq_zero
    intro l' _
    have : ¬ (l' + 1 = l) := by omega
    simp [this]

theorem sum_ite_next (L l : Nat) (B : Nat → ℝ) :
    ∑ l' ∈ range L, (if l' = l + 1 ∧ l' < L then B l' else 0) = if l + 1 < L then B (l + 1) else 0 := by
  by_cases h : l + 1 < L
  · rw [if_pos h]
    have : ∀ l' ∈ range L, (if l' = l + 1 ∧ l' < L then B l' else 0) = (if l' = l + 1 then B l' else 0) := by
      intro l' hl'
      have : (l' = l + 1 ∧ l' < L) ↔ (l' = l + 1) := ⟨fun h => h.1, fun h => ⟨h, Finset.mem_range.mp hl'⟩⟩
      simp only [this]
    rw [Finset.sum_congr rfl this, Finset.sum_ite_eq' (range L) (l + 1)]
    simp [Finset.mem_range.mpr h]
  · rw [if_neg h]
    apply Finset.sum_eq_zero
    intro l' hl'
    have : ¬ (l' = l + 1 ∧ l' < L) := by
      rintro ⟨h1, h2⟩; have := Finset.mem_range.mp hl'; omega
    simp [this]

/-- **flat = block**: row `off l + i` of the dense matrix the banded storage stands for, applied to the flattened unknowns,
    is the left-hand side of the corresponding top (`i < n_l npol`) or bottom row of layer `l` in block form -/
theorem flat_row_eq_block (hw : ∀ l, l < S.L → 0 < width S l) (xf : Nat → Nat → ℝ) (l i v : Nat) (hl : l < S.L)
    (hi : i < width S l) :
    sumN (nUnknown S) (fun c => sysEntry S (off S l + i) c * xf c v) =
      (if i < (S.lay l).n * S.npol then lhsTop S (fun l' j v => xf (off S l' + j) v) l i v
       else lhsBot S (fun l' j v => xf (off S l' + j) v) l (i - (S.lay l).n * S.npol) v) := by
  rw [sumN_eq_sum, nUnknown_eq_off, sum_by_layers S _ S.L (le_refl _)]
  have hrow : layerOf S (off S l + i) = l := layerOf_off S hw l i hl hi
  have hsub : off S l + i - off S l = i := by omega
  -- every entry, with both indices located
  have hentry : ∀ l' j, l' < S.L → j < width S l' →
      sysEntry S (off S l + i) (off S l' + j) =
        (if i < (S.lay l).n * S.npol then
          (if l' = l then topBlock (S.lay l) i j
           else if l' + 1 = l then
             (if i < commonRows S (S.lay l').tbot ((S.lay l').n * S.npol) (S.lay l).n then downBlock (S.lay l') i j else 0)
           else 0)
         else
          (if l' = l then botBlock (S.lay l) (i - (S.lay l).n * S.npol) j
           else if l' = l + 1 ∧ l' < S.L then
             (if i - (S.lay l).n * S.npol < commonRows S (S.lay l').ttop ((S.lay l').n * S.npol) (S.lay l).n
               then upBlock (S.lay l') (i - (S.lay l).n * S.npol) j else 0)
           else 0)) := by
    intro l' j hl' hj
    have hcol : layerOf S (off S l' + j) = l' := layerOf_off S hw l' j hl' hj
    have hsubc : off S l' + j - off S l' = j := by omega
    simp only [sysEntry, hrow, hcol, hsub, hsubc]
  have hinner : ∀ l' ∈ range S.L, ∑ j ∈ range (width S l'), sysEntry S (off S l + i) (off S l' + j) * xf (off S l' + j) v
      = (if i < (S.lay l).n * S.npol then
          ((if l' = l then ∑ j ∈ range (width S l), topBlock (S.lay l) i j * xf (off S l + j) v else 0)
           + (if l' + 1 = l then
               (if i < commonRows S (S.lay l').tbot ((S.lay l').n * S.npol) (S.lay l).n
                 then ∑ j ∈ range (width S l'), downBlock (S.lay l') i j * xf (off S l' + j) v else 0) else 0))
         else
          ((if l' = l then ∑ j ∈ range (width S l), botBlock (S.lay l) (i - (S.lay l).n * S.npol) j * xf (off S l + j) v else 0)
           + (if l' = l + 1 ∧ l' < S.L then
               (if i - (S.lay l).n * S.npol < commonRows S (S.lay l').ttop ((S.lay l').n * S.npol) (S.lay l).n
                 then ∑ j ∈ range (width S l'), upBlock (S.lay l') (i - (S.lay l).n * S.npol) j * xf (off S l' + j) v else 0)
              else 0))) := by
    intro l' hl'
    have hl'' := Finset.mem_range.mp hl'
    have e : ∀ j ∈ range (width S l'), sysEntry S (off S l + i) (off S l' + j) * xf (off S l' + j) v = _ :=
      fun j hj => by rw [hentry l' j hl'' (Finset.mem_range.mp hj)]
    rw [Finset.sum_congr rfl e]
    by_cases htop : i < (S.lay l).n * S.npol
    · simp only [htop, if_true]
      by_cases h1 : l' = l
      · subst h1
        have : ¬ (l' + 1 = l') := by omega
        simp [this]
      · by_cases h2 : l' + 1 = l
        · simp only [h1, h2, if_false, if_true, zero_add]
          split_ifs
          · rfl
          · simp
        · simp [h1, h2]
    · simp only [htop, if_false]
      by_cases h1 : l' = l
      · subst h1
        have : ¬ (l' = l' + 1 ∧ l' < S.L) := by omega
        simp [this]
      · by_cases h2 : l' = l + 1 ∧ l' < S.L
        · obtain ⟨h2a, h2b⟩ := h2
          subst h2a
          have h3 : ¬ (l + 1 = l) := by omega
          simp only [h3, h2b, and_self, if_false, if_true, zero_add]
          split_ifs
          · rfl
          · simp
        · simp [h1, h2]
  rw [Finset.sum_congr rfl hinner]
  by_cases htop : i < (S.lay l).n * S.npol
  · simp only [htop, if_true]
    rw [Finset.sum_add_distrib, Finset.sum_ite_eq' (range S.L) l, sum_ite_shift S.L l hl.le]
    simp only [Finset.mem_range, hl, if_true, lhsTop, sumN_eq_sum, width]
  · simp only [htop, if_false]
    rw [Finset.sum_add_distrib, Finset.sum_ite_eq' (range S.L) l, sum_ite_next S.L l]
    simp only [Finset.mem_range, hl, if_true, lhsBot, sumN_eq_sum, width]

end Smrt.Dort

namespace Smrt.Dort
variable (S : DStack ℝ)

/-- the flat system `A x = b` with `A = sysEntry`, `b = rhsEntry` (what `dort_modem_banded` assembles in banded storage and hands to
    the LAPACK banded solver) -/
def SolvesFlat (xf : Nat → Nat → ℝ) : Prop :=
  ∀ r, r < nUnknown S → ∀ v, sumN (nUnknown S) (fun c => sysEntry S r c * xf c v) = rhsEntry S r v

/-- **a solution of the flat system, cut into layers, solves the block system** on which the C01–C05/C08 theorems are stated -/
theorem solvesFlat_solves (hw : ∀ l, l < S.L → 0 < width S l) (xf : Nat → Nat → ℝ) (h : SolvesFlat S xf) :
    Solves S (fun l j v => xf (off S l + j) v) := by
  intro l hl i hi v
  have hwid : width S l = 2 * ((S.lay l).n * S.npol) := rfl
  have hlt : ∀ j, j < width S l → off S l + j < nUnknown S := by
    intro j hj
    rw [nUnknown_eq_off]
    have hle : off S (l + 1) ≤ off S S.L := by
      by_cases hq : l + 1 = S.L
      · rw [hq]
      · exact (off_mono S hw (l + 1) S.L (by omega) (le_refl _)).le
    rw [off_succ S l hl] at hle; omega
  constructor
  · have hi' : i < width S l := by omega
    have e := flat_row_eq_block S hw xf l i v hl hi'
    rw [if_pos hi] at e
    rw [← e, h _ (hlt i hi') v]
    have hrow : layerOf S (off S l + i) = l := layerOf_off S hw l i hl hi'
    simp only [rhsEntry, hrow, Nat.add_sub_cancel_left, if_pos hi]
  · have hi' : (S.lay l).n * S.npol + i < width S l := by omega
    have e := flat_row_eq_block S hw xf l ((S.lay l).n * S.npol + i) v hl hi'
    have hn : ¬ ((S.lay l).n * S.npol + i < (S.lay l).n * S.npol) := by omega
    rw [if_neg hn, Nat.add_sub_cancel_left] at e
    rw [← e, h _ (hlt _ hi') v]
    have hrow : layerOf S (off S l + ((S.lay l).n * S.npol + i)) = l := layerOf_off S hw l _ hl hi'
    simp only [rhsEntry, hrow, Nat.add_sub_cancel_left, if_neg hn]

end Smrt.Dort
