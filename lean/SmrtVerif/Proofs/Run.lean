/- helper lemmas for the model of `Model.run` (C09) -/
import SmrtVerif.Model.Run
import Mathlib.Data.List.Basic
import Mathlib.Data.List.Range
import Mathlib.Data.List.Nodup
import Mathlib.Data.List.Perm.Basic
import Mathlib.Tactic.Ring

namespace Smrt.Run
open Smrt.RM List

/-! ### list combinatorics -/

theorem mapE_ok {α β ε : Type} (f : α → Except ε β) (h : α → β) (l : List α) (hf : ∀ a ∈ l, f a = .ok (h a)) :
    mapE f l = .ok (l.map h) := by
  induction l with
  | nil => rfl
  | cons a l ih =>
    have h1 := hf a (by simp)
    have h2 := ih (fun x hx => hf x (by simp [hx]))
    simp [mapE, h1, h2]

theorem mapE_map_ok {γ α β ε : Type} (f : α → Except ε β) (H : γ → α) (T : γ → β) (l : List γ)
    (hf : ∀ a ∈ l, f (H a) = .ok (T a)) : mapE f (l.map H) = .ok (l.map T) := by
  induction l with
  | nil => rfl
  | cons a l ih =>
    have h1 := hf a (by simp)
    have h2 := ih (fun x hx => hf x (by simp [hx]))
    simp [mapE, h1, h2]

/-- chunking a concatenation of blocks of equal length `n > 0` returns the blocks -/
theorem chunk_flatten {α : Type} (n : Nat) (hn : 0 < n) (L : List (List α)) (hL : ∀ b ∈ L, b.length = n) :
    chunk n L.flatten = L := by
  induction L with
  | nil => simp [chunk]; omega
  | cons b L ih =>
    have hb : b.length = n := hL b (by simp)
    have ih' := ih (fun x hx => hL x (by simp [hx]))
    have hlen : ∀ (M : List (List α)), (∀ x ∈ M, x.length = n) → M.flatten.length = M.length * n := by
      intro M hM
      induction M with
      | nil => simp
      | cons x M ihM =>
        simp only [flatten_cons, length_append, length_cons]
        rw [ihM (fun y hy => hM y (by simp [hy])), hM x (by simp)]; ring
    have hl1 : (b :: L).flatten.length = (L.length + 1) * n := by
      simpa using hlen (b :: L) hL
    have hl2 : L.flatten.length = L.length * n := hlen L (fun x hx => hL x (by simp [hx]))
    have hc1 : ((L.length + 1) * n + n - 1) / n = L.length + 1 := by
      have : (L.length + 1) * n + n - 1 = (n - 1) + n * (L.length + 1) := by
        have : 1 ≤ n := hn
        rw [Nat.mul_comm]; omega
      rw [this, Nat.add_mul_div_left _ _ hn, Nat.div_eq_of_lt (by omega)]; simp
    have hc2 : (L.length * n + n - 1) / n = L.length := by
      have : L.length * n + n - 1 = (n - 1) + n * L.length := by
        have : 1 ≤ n := hn
        rw [Nat.mul_comm]; omega
      rw [this, Nat.add_mul_div_left _ _ hn, Nat.div_eq_of_lt (by omega)]; simp
    unfold chunk at ih' ⊢
    rw [hl1, hc1, range_succ_eq_map]
    rw [hl2, hc2] at ih'
    simp only [map_cons, map_map, flatten_cons, Nat.zero_mul, drop_zero]
    congr 1
    · exact take_left' hb
    · conv_rhs => rw [← ih']
      apply map_congr_left
      intro i _
      simp only [Function.comp, Nat.succ_eq_add_one]
      congr 1
      have : (i + 1) * n = b.length + i * n := by rw [hb]; ring
      rw [this, drop_append, drop_eq_nil_of_le (by omega)]
      simp

theorem regroup_cons {β : Type} (d : Dim) (ds : List Dim) (rs : List (Res β)) :
    regroup (d :: ds) rs = match regroup ds rs with | .error e => .error e | .ok ys => regroupStep d ys := by
  simp only [regroup, reverse_cons, foldl_append, foldl_cons, foldl_nil]
  rfl

theorem regroup_nil {β : Type} (rs : List (Res β)) : regroup [] rs = .ok rs := rfl

/-- pairing the values with `range`-indexed pieces -/
theorem zip_range_map {R : Type} (vals : List String) (h : Nat → R) :
    vals.zip ((range vals.length).map h) = (range vals.length).map fun i => (vals.getD i "", h i) := by
  apply ext_getElem
  · simp
  · intro i h1 h2
    simp only [length_map, length_range] at h2
    simp [getElem_zip, getD_eq_getElem?_getD, h2]

/-! ### the table -/

/-- all dimensions have at least one value (`assert n > 0`) -/
def NonEmpty (ds : List Dim) : Prop := ∀ d ∈ ds, 0 < d.vals.length

/-- leaves of identical shape: same dimensions and the same keys in the same order (the simulations of one call differ
    in the configuration and the snowpack, not in the axes the solver broadcasts) -/
def Uniform {β : Type} (ds : List Dim) (dims0 : List String) (keys0 : List Key) (g : List Nat → Res β) : Prop :=
  ∀ idx, ValidIdx ds idx → (g idx).dims = dims0 ∧ (g idx).cells.map (·.1) = keys0

/-- the keys of the table, row-major -/
def tkeys : List Dim → List Key → List Key
  | [], k0 => k0
  | d :: ds, k0 => (range d.vals.length).flatMap fun i => (tkeys ds k0).map (d.vals.getD i "" :: ·)

theorem uniform_cons {β : Type} {d : Dim} {ds : List Dim} {dims0 : List String} {keys0 : List Key} {g : List Nat → Res β}
    (h : Uniform (d :: ds) dims0 keys0 g) (i : Nat) (hi : i < d.vals.length) :
    Uniform ds dims0 keys0 (fun t => g (i :: t)) :=
  fun idx hv => h (i :: idx) ⟨hi, hv⟩

theorem table_dims {β : Type} (ds : List Dim) (dims0 : List String) (keys0 : List Key) (hne : NonEmpty ds)
    (g : List Nat → Res β) (hu : Uniform ds dims0 keys0 g) : (table ds g).dims = ds.map (·.name) ++ dims0 := by
  induction ds generalizing g with
  | nil => exact (hu [] trivial).1
  | cons d ds ih =>
    have h0 : 0 < d.vals.length := hne d (by simp)
    simp only [table, map_cons, cons_append]
    rw [ih (fun x hx => hne x (by simp [hx])) _ (uniform_cons hu 0 h0)]

theorem table_keys {β : Type} (ds : List Dim) (dims0 : List String) (keys0 : List Key)
    (g : List Nat → Res β) (hu : Uniform ds dims0 keys0 g) : (table ds g).cells.map (·.1) = tkeys ds keys0 := by
  induction ds generalizing g with
  | nil => exact (hu [] trivial).2
  | cons d ds ih =>
    simp only [table, tkeys, map_flatMap, map_map]
    apply flatMap_congr
    intro i hi
    rw [← ih _ (uniform_cons hu i (mem_range.mp hi))]
    simp [Function.comp_def]

theorem concat_ok {α : Type} (name : String) (vals : List String) (r0 : Res α) (rest : List (Res α))
    (hlen : vals.length = rest.length + 1)
    (hu : ∀ r ∈ rest, r.dims = r0.dims ∧ r.cells.map (·.1) = r0.cells.map (·.1)) (hn : name ∉ r0.dims) :
    Res.concat name vals (r0 :: rest) =
      .ok ⟨name :: r0.dims, (vals.zip (r0 :: rest)).flatMap fun p => p.2.cells.map fun c => (p.1 :: c.1, c.2)⟩ := by
  unfold Res.concat
  have h1 : (vals.length != (r0 :: rest).length) = false := by simp [hlen]
  have h2 : ((r0 :: rest).any fun r => r.dims != r0.dims || r.cells.map (·.1) != r0.cells.map (·.1)) = false := by
    rw [any_eq_false]
    intro r hr
    rcases mem_cons.mp hr with rfl | hr
    · simp
    · simp [(hu r hr).1, (hu r hr).2]
  have h3 : r0.dims.contains name = false := by simpa using hn
  simp only [h1, h2, h3]
  rfl

/-- one concatenation of the regrouping loop builds one more level of the table -/
theorem concat_table {β : Type} (d : Dim) (ds : List Dim) (dims0 : List String) (keys0 : List Key)
    (hne : NonEmpty (d :: ds)) (hname : d.name ∉ ds.map (·.name) ++ dims0)
    (g : List Nat → Res β) (hu : Uniform (d :: ds) dims0 keys0 g) :
    Res.concat d.name d.vals ((range d.vals.length).map fun i => table ds fun t => g (i :: t)) = .ok (table (d :: ds) g) := by
  obtain ⟨m, hm⟩ : ∃ m, d.vals.length = m + 1 := ⟨d.vals.length - 1, by have := hne d (by simp); omega⟩
  have hne' : NonEmpty ds := fun x hx => hne x (by simp [hx])
  have hdims : ∀ i, i < d.vals.length → (table ds fun t => g (i :: t)).dims = ds.map (·.name) ++ dims0 :=
    fun i hi => table_dims ds dims0 keys0 hne' _ (uniform_cons hu i hi)
  have hkeys : ∀ i, i < d.vals.length → (table ds fun t => g (i :: t)).cells.map (·.1) = tkeys ds keys0 :=
    fun i hi => table_keys ds dims0 keys0 _ (uniform_cons hu i hi)
  have hz := zip_range_map d.vals (fun i => table ds fun t => g (i :: t))
  rw [hm] at hz ⊢
  rw [range_succ_eq_map, map_cons] at hz ⊢
  rw [concat_ok]
  · rw [hz]
    simp only [table, hm, range_succ_eq_map, flatMap_cons, map_cons, flatMap_map]
  · simp [hm]
  · intro r hr
    simp only [map_map, mem_map, mem_range, Function.comp] at hr
    obtain ⟨i, hi, rfl⟩ := hr
    rw [hdims _ (by omega), hdims 0 (by omega), hkeys _ (by omega), hkeys 0 (by omega)]
    exact ⟨rfl, rfl⟩
  · rw [hdims 0 (by omega)]; exact hname

/-- names of the dimensions pairwise distinct and distinct from those of the leaves -/
def NamesOk (ds : List Dim) (dims0 : List String) : Prop := (ds.map (·.name) ++ dims0).Nodup

/-- **regrouping**: for any number of blocks, the loop turns the flat row-major list of leaves into the tables -/
theorem regroup_flat {β : Type} (ds : List Dim) (dims0 : List String) (keys0 : List Key) (hne : NonEmpty ds)
    (hnames : NamesOk ds dims0) (gs : List (List Nat → Res β)) (hu : ∀ g ∈ gs, Uniform ds dims0 keys0 g) :
    regroup ds (gs.flatMap (flat ds)) = .ok (gs.map (table ds)) := by
  induction ds generalizing gs with
  | nil =>
    rw [regroup_nil]
    congr 1
    induction gs with
    | nil => rfl
    | cons g gs ih => simp [flat, table] at ih ⊢; exact ih (fun g hg => hu g (by simp [hg]))
  | cons d ds ih =>
    have hne' : NonEmpty ds := fun x hx => hne x (by simp [hx])
    have h0 : 0 < d.vals.length := hne d (by simp)
    have hnames' : NamesOk ds dims0 := by
      unfold NamesOk at hnames ⊢; simp only [map_cons, cons_append, nodup_cons] at hnames; exact hnames.2
    have hname : d.name ∉ ds.map (·.name) ++ dims0 := by
      unfold NamesOk at hnames; simp only [map_cons, cons_append, nodup_cons] at hnames; exact hnames.1
    let gs' : List (List Nat → Res β) := gs.flatMap fun g => (range d.vals.length).map fun i => fun t => g (i :: t)
    have hflat : gs.flatMap (flat (d :: ds)) = gs'.flatMap (flat ds) := by
      simp only [gs', flat, flatMap_assoc, flatMap_map]
    have hu' : ∀ g ∈ gs', Uniform ds dims0 keys0 g := by
      intro g hg
      simp only [gs', mem_flatMap, mem_map, mem_range] at hg
      obtain ⟨g0, hg0, i, hi, rfl⟩ := hg
      exact uniform_cons (hu g0 hg0) i hi
    rw [regroup_cons, hflat, ih hne' hnames' gs' hu']
    simp only [regroupStep, Nat.ne_of_gt h0, if_false]
    have hchunk : chunk d.vals.length (gs'.map (table ds)) =
        gs.map fun g => (range d.vals.length).map fun i => table ds fun t => g (i :: t) := by
      have : gs'.map (table ds) = (gs.map fun g => (range d.vals.length).map fun i => table ds fun t => g (i :: t)).flatten := by
        simp only [gs', flatMap_def, map_flatten, map_map, Function.comp_def]
      rw [this]
      apply chunk_flatten _ h0
      intro b hb
      simp only [mem_map] at hb
      obtain ⟨g, _, rfl⟩ := hb
      simp
    rw [hchunk]
    apply mapE_map_ok
    intro g hg
    exact concat_table d ds dims0 keys0 hne hname g (hu g hg)

/-! ### the flat list of simulations is the row-major list of leaves -/

theorem flatMap_single {α β : Type} (φ : α → β) (l : List α) : (l.flatMap fun a => [φ a]) = l.map φ := by
  induction l with
  | nil => rfl
  | cons a l ih => simp [ih]

theorem eq_range_map {α : Type} (l : List α) (dflt : α) : l = (range l.length).map fun i => (l[i]?).getD dflt := by
  apply ext_getElem
  · simp
  · intro i h1 h2; simp [h1]

theorem flatMap_eq_range {α β : Type} (l : List α) (dflt : α) (H : α → List β) :
    l.flatMap H = (range l.length).flatMap fun i => H ((l[i]?).getD dflt) := by
  conv_lhs => rw [eq_range_map l dflt]
  rw [flatMap_map]

theorem values_set_ne (s : Sensor) (a b : String) (v : List String) (h : b ≠ a) : values (set s a v) b = values s b := by
  unfold values set
  induction s with
  | nil => rfl
  | cons p s ih =>
    obtain ⟨k, w⟩ := p
    simp only [map_cons]
    by_cases hp : k = a
    · have hpa : (k == a) = true := by simpa using hp
      have hb : (b == k) = false := by rw [hp]; simpa using h
      simp only [hpa, if_true, List.lookup_cons, hb]
      exact ih
    · have hpa : (k == a) = false := by simpa using hp
      simp only [hpa, Bool.false_eq_true, if_false, List.lookup_cons]
      cases hb : (b == k)
      · exact ih
      · rfl

/-- the dimension list agrees with the sensor: same values, distinct axes -/
def Compat (s : Sensor) (ds : List Dim) : Prop := (∀ d ∈ ds, values s d.name = d.vals) ∧ (ds.map (·.name)).Nodup

theorem prepare_flat {S X : Type} [Inhabited S] (f : Sensor × S → X) (sd : Dim) (sps : List S) (hlen : sd.vals.length = sps.length)
    (ds : List Dim) (s : Sensor) (hc : Compat s ds) :
    (prepare s ds sps).map f = flat (ds ++ [sd]) (simAt f s ds sps) := by
  induction ds generalizing s with
  | nil =>
    simp only [prepare, nil_append, flat, hlen, map_map]
    rw [flatMap_single]
    conv_lhs => rw [eq_range_map sps default]
    rw [map_map]
    apply map_congr_left
    intro j _
    simp [simAt, cfgAt, List.getD_eq_getElem?_getD]
  | cons d ds ih =>
    have hv : values s d.name = d.vals := hc.1 d (by simp)
    have hnd := hc.2
    simp only [map_cons, nodup_cons] at hnd
    simp only [prepare, cons_append, flat, map_flatMap]
    rw [flatMap_eq_range _ s]
    have hl : (iterate s d.name).length = d.vals.length := by simp [iterate, hv]
    rw [hl]
    apply flatMap_congr
    intro i hi
    have hi' : i < d.vals.length := mem_range.mp hi
    have hget : ((iterate s d.name)[i]?).getD s = set s d.name [d.vals[i]] := by
      simp [iterate, hv, hi']
    rw [ih]
    · congr 1
    · rw [hget]
      refine ⟨fun d' hd' => ?_, hnd.2⟩
      rw [values_set_ne]
      · exact hc.1 d' (by simp [hd'])
      · intro he
        exact hnd.1 (mem_map.mpr ⟨d', hd', he⟩)

theorem iterate_nil (a : String) : iterate [] a = [] := rfl

theorem prepareZip_flat {S X : Type} [Inhabited S] (f : Sensor × S → X) (sd : Dim) (sps : List S)
    (hlen : sd.vals.length = sps.length) (ds : List Dim) (ss : List Sensor) (hss : ss.length = sps.length) :
    (prepareZip ss ds sps).map f = flat (ds ++ [sd]) (simAtZip f ss ds sps) := by
  induction ds generalizing ss with
  | nil =>
    simp only [prepareZip, nil_append, flat, hlen]
    rw [flatMap_single]
    apply ext_getElem
    · simp [hss]
    · intro j h1 h2
      simp only [length_map, length_zip, hss, Nat.min_self] at h1
      simp [simAtZip, cfgAt, List.getD_eq_getElem?_getD, h1, hss]
  | cons d ds ih =>
    simp only [prepareZip, cons_append, flat, map_flatMap]
    apply flatMap_congr
    intro i _
    rw [ih _ (by simpa using hss)]
    congr 1
    funext t
    simp only [simAtZip, length_cons, getD_cons_succ, take_succ_cons, cfgAt]
    generalize t.getD ds.length 0 = j
    simp only [List.getD_eq_getElem?_getD, getElem?_map]
    cases h : ss[j]? <;> simp [iterate_nil]

/-! ### every value at its own coordinates -/

theorem mem_table {β : Type} (ds : List Dim) (g : List Nat → Res β) (k : Key) (v : β) :
    (k, v) ∈ (table ds g).cells ↔
      ∃ idx, ValidIdx ds idx ∧ ∃ c ∈ (g idx).cells, k = coordsOf ds idx ++ c.1 ∧ v = c.2 := by
  induction ds generalizing g k v with
  | nil =>
    constructor
    · intro h; exact ⟨[], trivial, (k, v), h, by simp [coordsOf], rfl⟩
    · rintro ⟨idx, hv, c, hc, hk, hvv⟩
      cases idx with
      | nil =>
        have : (k, v) = c := by rw [hk, hvv]; simp [coordsOf]
        rw [this]; exact hc
      | cons a t => exact hv.elim
  | cons d ds ih =>
    simp only [table, mem_flatMap, mem_range, mem_map]
    constructor
    · rintro ⟨i, hi, c', hc', heq⟩
      have hk : k = d.vals.getD i "" :: c'.1 := by injection heq with h1 _; exact h1.symm
      have hvv : v = c'.2 := by injection heq with _ h2; exact h2.symm
      obtain ⟨idx, hval, c, hc, hk', hv'⟩ := (ih (fun t => g (i :: t)) c'.1 c'.2).mp hc'
      exact ⟨i :: idx, ⟨hi, hval⟩, c, hc, by rw [hk, hk']; simp [coordsOf], by rw [hvv, hv']⟩
    · rintro ⟨idx, hval, c, hc, hk, hvv⟩
      cases idx with
      | nil => exact hval.elim
      | cons i t =>
        refine ⟨i, hval.1, (coordsOf ds t ++ c.1, c.2), ?_, ?_⟩
        · exact (ih (fun t => g (i :: t)) _ _).mpr ⟨t, hval.2, c, hc, rfl, rfl⟩
        · rw [hk, hvv]; simp [coordsOf]

/-! ### runners -/

theorem filterMap_range_getElem? {A B : Type} (args : List A) (f : A → B) :
    (range args.length).filterMap (fun i => (args[i]?).map f) = args.map f := by
  induction args with
  | nil => rfl
  | cons a l ih =>
    rw [length_cons, range_succ_eq_map, filterMap_cons]
    simp only [getElem?_cons_zero, Option.map_some, filterMap_map, Function.comp_def, Nat.succ_eq_add_one,
      getElem?_cons_succ, map_cons]
    rw [ih]

theorem lookup_map_self {B : Type} (π : List Nat) (h : Nat → B) (i : Nat) (hi : i ∈ π) :
    (π.map fun j => (j, h j)).lookup i = some (h i) := by
  induction π with
  | nil => simp at hi
  | cons a π ih =>
    simp only [map_cons, List.lookup_cons]
    by_cases hia : i = a
    · subst hia; simp
    · have : (i == a) = false := by simpa using hia
      simp only [this]
      exact ih (by simpa [hia] using hi)

/-- evaluating in any order that covers every position and putting the results back in place gives the list `map f` -/
theorem scheduledRunner_eq {A B : Type} (π : List Nat) (f : A → B) (args : List A)
    (hπ : ∀ i, i < args.length → i ∈ π) : scheduledRunner π f args = args.map f := by
  unfold scheduledRunner
  conv_rhs => rw [← filterMap_range_getElem? args f]
  apply List.filterMap_congr
  intro i hi
  rw [lookup_map_self π (fun j => (args[j]?).map f) i (hπ i (mem_range.mp hi))]
  simp

/-! ### one simulation: frame, consistency of the shared caches, purity -/

/-- locations of the objects created by simulation `i` -/
def IsFresh (i : Nat) (l : Loc) : Prop := ∃ inst, l.owner = .fresh i inst

/-- two stores hold the same values in the caller's objects -/
def AgreeUser {V : Type} (st st' : Store V) : Prop := ∀ o f, st ⟨.user o, f⟩ = st' ⟨.user o, f⟩

theorem set_other {V : Type} (st : Store V) (l l' : Loc) (v : V) (h : l' ≠ l) : (st.set l v) l' = st l' := by
  simp [Store.set, h]

theorem consistent_set_fresh {V : Type} (g : String → String → V) (st : Store V) (i : Nat) (l : Loc) (v : V)
    (hl : IsFresh i l) (hc : Consistent g st) : Consistent g (st.set l v) := by
  intro c key w hw
  obtain ⟨inst, hi⟩ := hl
  rw [set_other] at hw
  · exact hc c key w hw
  · intro he; rw [← he] at hi; cases hi

theorem consistent_set_memo {V : Type} (g : String → String → V) (st : Store V) (c key : String)
    (hc : Consistent g st) : Consistent g (st.set ⟨.shared c, key⟩ (g c key)) := by
  intro c' key' w hw
  by_cases he : (⟨.shared c', key'⟩ : Loc) = ⟨.shared c, key⟩
  · simp only [Store.set, he, if_true] at hw
    injection he with h1 h2; injection h1 with h1
    subst h1 h2; injection hw with hw; exact hw.symm
  · rw [set_other _ _ _ _ he] at hw; exact hc c' key' w hw

theorem agree_set_left {V : Type} (st st' : Store V) (l : Loc) (v : V) (hl : ∀ o, l.owner ≠ .user o)
    (h : AgreeUser st st') : AgreeUser (st.set l v) st' := by
  intro o f
  rw [set_other]
  · exact h o f
  · intro he; exact hl o (by rw [← he])

theorem agree_symm {V : Type} {st st' : Store V} (h : AgreeUser st st') : AgreeUser st' st := fun o f => (h o f).symm

theorem fresh_not_user {i : Nat} {l : Loc} (h : IsFresh i l) : ∀ o, l.owner ≠ .user o := by
  obtain ⟨inst, hi⟩ := h; intro o he; rw [he] at hi; cases hi

/-- **frame**: a program whose writes go to the fresh objects of simulation `i` leaves every other location unchanged,
    except that shared caches may have been filled -/
theorem run_frame {V : Type} (g : String → String → V) (i : Nat) (p : Prog V) (hp : p.WritesOnly (IsFresh i)) (st : Store V)
    (l : Loc) (hl : ¬ IsFresh i l) (hs : ∀ c, l.owner ≠ .shared c) : (p.run g st).2 l = st l := by
  induction p generalizing st with
  | ret v => rfl
  | read o f k ih => exact ih _ (hp _) st
  | write l' v k ih =>
    simp only [Prog.run]
    rw [ih hp.2, set_other]
    intro he; exact hl (he ▸ hp.1)
  | memo c key k ih =>
    simp only [Prog.run]
    cases h : st ⟨.shared c, key⟩ with
    | some w => simp only []; exact ih _ (hp _) st
    | none =>
      simp only []
      rw [ih _ (hp _), set_other]
      intro he; exact hs c (by rw [he])

/-- the shared caches stay consistent with the functions they memoise -/
theorem run_consistent {V : Type} (g : String → String → V) (i : Nat) (p : Prog V) (hp : p.WritesOnly (IsFresh i))
    (st : Store V) (hc : Consistent g st) : Consistent g (p.run g st).2 := by
  induction p generalizing st with
  | ret v => exact hc
  | read o f k ih => exact ih _ (hp _) st hc
  | write l' v k ih => exact ih hp.2 _ (consistent_set_fresh g st i l' v hp.1 hc)
  | memo c key k ih =>
    simp only [Prog.run]
    cases h : st ⟨.shared c, key⟩ with
    | some w => simp only []; exact ih _ (hp _) st hc
    | none => simp only []; exact ih _ (hp _) _ (consistent_set_memo g st c key hc)

/-- **purity**: the result of a simulation depends only on the caller's objects, not on the state of the caches nor on
    what earlier simulations left behind -/
theorem run_pure {V : Type} (g : String → String → V) (i : Nat) (p : Prog V) (hp : p.WritesOnly (IsFresh i))
    (st st' : Store V) (hc : Consistent g st) (hc' : Consistent g st') (ha : AgreeUser st st') :
    (p.run g st).1 = (p.run g st').1 := by
  induction p generalizing st st' with
  | ret v => rfl
  | read o f k ih =>
    simp only [Prog.run]
    rw [ha o f]
    exact ih _ (hp _) st st' hc hc' ha
  | write l v k ih =>
    simp only [Prog.run]
    apply ih hp.2
    · exact consistent_set_fresh g st i l v hp.1 hc
    · exact consistent_set_fresh g st' i l v hp.1 hc'
    · exact agree_set_left _ _ l v (fresh_not_user hp.1) (agree_symm (agree_set_left _ _ l v (fresh_not_user hp.1) (agree_symm ha)))
  | memo c key k ih =>
    simp only [Prog.run]
    have hnu : ∀ o, (⟨.shared c, key⟩ : Loc).owner ≠ .user o := by intro o he; cases he
    cases h : st ⟨.shared c, key⟩ with
    | some w =>
      have hw := hc c key w h
      cases h' : st' ⟨.shared c, key⟩ with
      | some w' =>
        have hw' := hc' c key w' h'
        simp only []; rw [hw, hw']; exact ih _ (hp _) st st' hc hc' ha
      | none =>
        simp only []; rw [hw]
        exact ih _ (hp _) st _ hc (consistent_set_memo g st' c key hc') (agree_symm (agree_set_left _ _ _ _ hnu (agree_symm ha)))
    | none =>
      cases h' : st' ⟨.shared c, key⟩ with
      | some w' =>
        have hw' := hc' c key w' h'
        simp only []; rw [hw']
        exact ih _ (hp _) _ st' (consistent_set_memo g st c key hc) hc' (agree_set_left _ _ _ _ hnu ha)
      | none =>
        simp only []
        exact ih _ (hp _) _ _ (consistent_set_memo g st c key hc) (consistent_set_memo g st' c key hc')
          (agree_set_left _ _ _ _ hnu (agree_symm (agree_set_left _ _ _ _ hnu (agree_symm ha))))

/-- the caller's objects after a program that writes only fresh objects -/
theorem run_agree {V : Type} (g : String → String → V) (i : Nat) (p : Prog V) (hp : p.WritesOnly (IsFresh i)) (st : Store V) :
    AgreeUser (p.run g st).2 st := by
  intro o f
  apply run_frame g i p hp
  · rintro ⟨inst, hi⟩; cases hi
  · intro c he; cases he

/-- running a list of simulations one after the other on one store (one worker) -/
def runAll {V : Type} (g : String → String → V) : List (Prog V) → Store V → List V × Store V
  | [], st => ([], st)
  | p :: ps, st => let r := p.run g st; let rs := runAll g ps r.2; (r.1 :: rs.1, rs.2)

/-- **history independence**: in a sequence of simulations on one worker, every result is the one the simulation gives
    when run alone on the initial store -/
theorem runAll_eq {V : Type} (g : String → String → V) (ps : List (Prog V)) (hp : ∀ p ∈ ps, ∃ i, p.WritesOnly (IsFresh i))
    (st0 st : Store V) (hc0 : Consistent g st0) (hc : Consistent g st) (ha : AgreeUser st st0) :
    (runAll g ps st).1 = ps.map (fun p => (p.run g st0).1) ∧ AgreeUser (runAll g ps st).2 st0
      ∧ Consistent g (runAll g ps st).2 := by
  induction ps generalizing st with
  | nil => exact ⟨rfl, ha, hc⟩
  | cons p ps ih =>
    obtain ⟨i, hi⟩ := hp p (by simp)
    have h1 := run_pure g i p hi st st0 hc hc0 ha
    have hc1 := run_consistent g i p hi st hc
    have ha1 : AgreeUser (p.run g st).2 st0 := fun o f => (run_agree g i p hi st o f).trans (ha o f)
    obtain ⟨r1, r2, r3⟩ := ih (fun q hq => hp q (by simp [hq])) (p.run g st).2 hc1 ha1
    refine ⟨?_, r2, r3⟩
    simp only [runAll, map_cons]
    rw [h1, r1]

theorem writesOnly_writeAll {V : Type} (P : Loc → Prop) (ws : List (Loc × V)) (k : Prog V) (hw : ∀ w ∈ ws, P w.1)
    (hk : k.WritesOnly P) : (writeAll ws k).WritesOnly P := by
  induction ws with
  | nil => exact hk
  | cons w ws ih =>
    obtain ⟨l, v⟩ := w
    exact ⟨hw (l, v) (by simp), ih (fun x hx => hw x (by simp [hx]))⟩

theorem writesOnly_readAll {V : Type} (P : Loc → Prop) (rs : List (String × String)) (k : List (Option V) → Prog V)
    (hk : ∀ xs, (k xs).WritesOnly P) : (readAll rs k).WritesOnly P := by
  induction rs generalizing k with
  | nil => exact hk []
  | cons r rs ih => obtain ⟨o, f⟩ := r; intro x; exact ih _ (fun xs => hk (x :: xs))

theorem writesOnly_memoAll {V : Type} (P : Loc → Prop) (rs : List (String × String)) (k : List V → Prog V)
    (hk : ∀ xs, (k xs).WritesOnly P) : (memoAll rs k).WritesOnly P := by
  induction rs generalizing k with
  | nil => exact hk []
  | cons r rs ih => obtain ⟨o, f⟩ := r; intro x; exact ih _ (fun xs => hk (x :: xs))

theorem freshLocs_fresh (sh : Shape) (i : Nat) : ∀ l ∈ sh.freshLocs i, IsFresh i l := by
  intro l hl
  simp only [Shape.freshLocs, mem_append, mem_flatMap, mem_range, mem_map] at hl
  rcases hl with ⟨k, _, hk⟩ | ⟨f, _, rfl⟩
  · simp only [mem_singleton] at hk; subst hk; exact ⟨_, rfl⟩
  · exact ⟨_, rfl⟩

/-- a program that writes only fresh objects writes nothing of the caller's -/
theorem userWritten_nil {V : Type} (g : String → String → V) (i : Nat) (p : Prog V) (hp : p.WritesOnly (IsFresh i)) (st : Store V) :
    p.userWritten g st = [] := by
  induction p generalizing st with
  | ret v => rfl
  | read o f k ih => exact ih _ (hp _) st
  | write l v k ih =>
    simp only [Prog.userWritten]
    obtain ⟨inst, hi⟩ := hp.1
    rw [hi, ih hp.2]; rfl
  | memo c key k ih =>
    simp only [Prog.userWritten]
    cases h : st ⟨.shared c, key⟩ with
    | some w => simp only []; exact ih _ (hp _) st
    | none => simp only []; exact ih _ (hp _) _

end Smrt.Run
