/- helper lemmas for C11 (common limits of the scattering theories): specification of the executable complex square root
   `TheoryLimits.csqrt`, moduli of quotients, the closed forms over ℝ / ℂ and the limit `f → 0` of the QCA expressions. -/
import SmrtVerif.Model.TheoryLimits
import SmrtVerif.Proofs.Mixing
import SmrtVerif.Proofs.Microstructure
import Mathlib.Analysis.Complex.Basic
import Mathlib.Topology.Algebra.GroupWithZero
import Mathlib.Tactic.Ring
import Mathlib.Tactic.FieldSimp
import Mathlib.Tactic.Linarith
import Mathlib.Tactic.LinearCombination
import Mathlib.Tactic.Positivity
import Mathlib.Tactic.NormNum

namespace Smrt.TheoryLimits
open Smrt.Mixing (toC toC_inj IsCSqrt sdiv cone czero)

/-! ### the executable square root is a principal square root -/

theorem csqrt_spec (z : Cx ℝ) : csqrt z * csqrt z = z ∧ 0 ≤ (csqrt z).re := by
  rcases z with ⟨x, y⟩
  have hm0 : 0 ≤ x * x + y * y := by nlinarith [mul_self_nonneg x, mul_self_nonneg y]
  have hm : Real.sqrt (x * x + y * y) * Real.sqrt (x * x + y * y) = x * x + y * y := Real.mul_self_sqrt hm0
  have hmn : 0 ≤ Real.sqrt (x * x + y * y) := Real.sqrt_nonneg _
  have hmx : |x| ≤ Real.sqrt (x * x + y * y) := by
    apply Real.abs_le_sqrt; nlinarith
  set m := Real.sqrt (x * x + y * y) with hmdef
  have hxm : x ≤ m := (le_abs_self x).trans hmx
  have hxm' : -x ≤ m := (neg_le_abs x).trans hmx
  unfold csqrt
  simp only [transc_sqrt_real, ← hmdef]
  by_cases hx : x < 0
  · simp only [hx, if_true]
    have hpos : 0 < (m - x) / 2 := by linarith
    have ht : Real.sqrt ((m - x) / 2) * Real.sqrt ((m - x) / 2) = (m - x) / 2 := Real.mul_self_sqrt hpos.le
    have htp : 0 < Real.sqrt ((m - x) / 2) := Real.sqrt_pos.mpr hpos
    set t := Real.sqrt ((m - x) / 2)
    have key : y * y = (2 * t * t + 2 * x) * (2 * t * t) := by
      have : 2 * t * t = m - x := by linarith
      rw [show 2 * t * t + 2 * x = m + x by linarith, this]; nlinarith
    by_cases hy : y < 0
    · simp only [hy, if_true]
      refine ⟨?_, ?_⟩
      · show Cx.mul _ _ = _
        simp only [Cx.mul, Cx.mk.injEq]
        constructor
        · field_simp; nlinarith
        · field_simp; ring
      · have : 0 < -y := by linarith
        show 0 ≤ -y / (2 * t)
        positivity
    · simp only [hy, if_false]
      have hy0 : 0 ≤ y := not_lt.mp hy
      refine ⟨?_, by positivity⟩
      show Cx.mul _ _ = _
      simp only [Cx.mul, Cx.mk.injEq]
      constructor
      · field_simp; nlinarith
      · field_simp; ring
  · simp only [hx, if_false]
    have hx0 : 0 ≤ x := not_lt.mp hx
    have hnn : 0 ≤ (m + x) / 2 := by linarith
    have ht : Real.sqrt ((m + x) / 2) * Real.sqrt ((m + x) / 2) = (m + x) / 2 := Real.mul_self_sqrt hnn
    set t := Real.sqrt ((m + x) / 2) with htdef
    by_cases htp : 0 < t
    · simp only [htp, if_true]
      refine ⟨?_, htp.le⟩
      have key : y * y = (2 * t * t - 2 * x) * (2 * t * t) := by
        have : 2 * t * t = m + x := by linarith
        rw [show 2 * t * t - 2 * x = m - x by linarith, this]; nlinarith
      show Cx.mul _ _ = _
      simp only [Cx.mul, Cx.mk.injEq]
      constructor
      · field_simp; nlinarith
      · field_simp; ring
    · simp only [htp, if_false]
      have ht0 : t = 0 := le_antisymm (not_lt.mp htp) (Real.sqrt_nonneg _)
      have hmx0 : m + x = 0 := by
        have : (m + x) / 2 = 0 := by rw [← ht, ht0]; ring
        linarith
      have hx00 : x = 0 := by linarith
      have hm00 : m = 0 := by linarith
      have hy00 : y = 0 := by
        have : y * y = 0 := by nlinarith
        exact mul_self_eq_zero.mp this
      refine ⟨?_, le_refl _⟩
      show Cx.mul _ _ = _
      simp [Cx.mul, hx00, hy00]

theorem csqrt_isCSqrt : IsCSqrt (csqrt (α := ℝ)) := csqrt_spec


/-! ### moduli -/

theorem abs2_eq (z : Cx ℝ) : Cx.abs2 z = Complex.normSq (toC z) := by
  simp [Cx.abs2, toC, Complex.normSq_apply]

theorem toC_ofReal (x : ℝ) : toC (Cx.ofReal x) = (x : ℂ) := by
  apply Complex.ext <;> simp [toC, Cx.ofReal]

theorem abs2_clausius (e0 eps : Cx ℝ) :
    Cx.abs2 (clausius e0 eps) = Complex.normSq (toC eps - toC e0) / Complex.normSq (toC eps + 2 * toC e0) := by
  rw [abs2_eq]; unfold clausius
  simp only [Mixing.toC_div, Mixing.toC_sub, Mixing.toC_add, Mixing.toC_smul, map_div₀]
  norm_num

theorem ibaDepol_real : (ibaDepol : ℝ × ℝ × ℝ) = (1 / 3, 1 / 3, 1 / 3) := by
  simp only [ibaDepol, Mixing.depolFactors, Mixing.anisotropyQ, lt_irrefl, if_false]; norm_num

theorem ibaApparent_self (e0 : Cx ℝ) (A : ℝ) : ibaApparent e0 e0 A = e0 := by
  apply toC_inj; unfold ibaApparent; simp only [Mixing.toC_add, Mixing.toC_smul]; push_cast; ring

/-- `|e0 / (e0 + (eps − e0)/3)|² = 9 |e0|² / |eps + 2 e0|²` -/
theorem fieldRatio_third (e0 eps : Cx ℝ) :
    fieldRatio e0 e0 eps (1 / 3) = 9 * Complex.normSq (toC e0) / Complex.normSq (toC eps + 2 * toC e0) := by
  unfold fieldRatio
  rw [abs2_eq]
  simp only [Mixing.toC_div, Mixing.toC_add, Mixing.toC_smul, Mixing.toC_sub, map_div₀]
  have : toC e0 + ((1 / 3 : ℝ) : ℂ) * (toC eps - toC e0) = (1 / 3 : ℂ) * (toC eps + 2 * toC e0) := by push_cast; ring
  rw [this, map_mul]
  have h3 : Complex.normSq (1 / 3 : ℂ) = 1 / 9 := by
    rw [show (1 / 3 : ℂ) = ((1 / 3 : ℝ) : ℂ) by push_cast; ring, Complex.normSq_ofReal]; norm_num
  rw [h3]
  by_cases h : Complex.normSq (toC eps + 2 * toC e0) = 0
  · simp [h]
  · field_simp

theorem sphFt_zero (p f R : ℝ) : Micro.sphFt p f R 0 = Micro.acf0 f * (4 / 3 * p * (R * R * R)) := by
  have h : Micro.closeZero (1e-3 : ℝ) 0 = true := by
    rw [← Bool.not_eq_false, Micro.closeZero_false]; norm_num
  simp only [Micro.sphFt, Micro.sphBessel, mul_zero, h, if_true, Micro.cube]; norm_num

/-- `shsFtT` at `k = 0`: `f · V · (1−f)⁴ / (1 + 2f − t f (1−f))²` -/
theorem shsFt_zero (p f R t : ℝ) (hf : 1 - f ≠ 0) :
    Micro.shsFtT p f R t 0 = f * (4 / 3 * p * (R * R * R)) * shsS f t := by
  have h : Micro.closeZero (1e-3 : ℝ) (0 * (2.0 * R) / 2.0) = true := by
    rw [← Bool.not_eq_false, Micro.closeZero_false]; norm_num
  simp only [Micro.shsFtT, h, if_true, Micro.shsFtZero, Micro.cube, Micro.sq, shsS, pow4, sq]
  norm_num
  by_cases hD : 1 + 2 * f - t * f * (1 - f) = 0
  · have : f / (1 - f) * (1 - t * f + 3 * f / (1 - f) + (3 - t * (1 - f))) + 1 = 0 := by
      field_simp
      linear_combination hD
    simp [this, hD]
  · have : f / (1 - f) * (1 - t * f + 3 * f / (1 - f) + (3 - t * (1 - f))) + 1
        = (1 + 2 * f - t * f * (1 - f)) / ((1 - f) * (1 - f)) := by
      field_simp; ring
    rw [this]
    field_simp


/-! ### DMRT-QCA short range: closed form and the limit `f → 0` -/

open Filter Topology

/-- `Eeff/e0 − 1 = f · 3 y/(1 − f y) · bracket` -/
theorem qca_ratio (f r t k0 : ℝ) (e0 es : Cx ℝ) (h0 : toC e0 ≠ 0) :
    toC (qcaEeff f r t k0 e0 es / e0 - cone)
      = (f : ℂ) * (3 * toC (clausius e0 es) / (1 - (f : ℂ) * toC (clausius e0 es))
                    * toC (qcaBracket f r t k0 (clausius e0 es))) := by
  unfold qcaEeff
  simp only [Mixing.toC_sub, Mixing.toC_div, Mixing.toC_add, Mixing.toC_mul, Mixing.toC_smul, Mixing.toC_cone]
  set Y := toC (clausius e0 es)
  set B := toC (qcaBracket f r t k0 (clausius e0 es))
  by_cases hd : (1 : ℂ) - (f : ℂ) * Y = 0
  · simp [hd, h0]
  · field_simp
    push_cast
    ring

/-- the bracket in `ℂ` -/
theorem toC_qcaBracket (f r t k0 : ℝ) (y : Cx ℝ) :
    toC (qcaBracket f r t k0 y)
      = 1 + ((pow4 (1 - f) : ℝ) : ℂ) * (((cube (k0 * r) : ℝ) : ℂ) * (toC ⟨0, 2 / 3⟩ * toC y))
            / (((sq (1 + 2 * f - t * f * (1 - f)) : ℝ) : ℂ) * (1 - (f : ℂ) * toC y)) := by
  unfold qcaBracket
  simp only [Mixing.toC_sub, Mixing.toC_div, Mixing.toC_add, Mixing.toC_mul, Mixing.toC_smul, Mixing.toC_cone]

/-- closed form of `Ks` (valid for `f ≠ 0`, `e0 ≠ 0`) -/
theorem qcaKs_closed (f r t k0 : ℝ) (e0 es : Cx ℝ) (hf : f ≠ 0) (h0 : toC e0 ≠ 0) :
    qcaKsRaw f r t k0 e0 es
      = f * (2 * k0 * cube (k0 * r) * Complex.normSq (toC (clausius e0 es)) * shsS f t
             * Complex.normSq (toC (qcaBracket f r t k0 (clausius e0 es)))
             / Complex.normSq (1 - (f : ℂ) * toC (clausius e0 es))) := by
  unfold qcaKsRaw
  rw [abs2_eq, qca_ratio f r t k0 e0 es h0]
  simp only [map_mul, map_div₀, Complex.normSq_ofReal, shsS]
  have h3 : Complex.normSq (3 : ℂ) = 9 := by
    rw [show (3 : ℂ) = ((3 : ℝ) : ℂ) by push_cast; ring, Complex.normSq_ofReal]; norm_num
  rw [h3]
  by_cases hN : Complex.normSq (1 - (f : ℂ) * toC (clausius e0 es)) = 0
  · simp [hN]
  by_cases hD : sq (1 + 2 * f - t * f * (1 - f)) = 0
  · simp [hD]
  field_simp

theorem tendsto_ofReal' {l : Filter ℝ} {g : ℝ → ℝ} {a : ℝ} (h : Tendsto g l (𝓝 a)) :
    Tendsto (fun x => ((g x : ℝ) : ℂ)) l (𝓝 (a : ℂ)) := (Complex.continuous_ofReal.tendsto a).comp h

theorem tendsto_normSq' {l : Filter ℝ} {g : ℝ → ℂ} {a : ℂ} (h : Tendsto g l (𝓝 a)) :
    Tendsto (fun x => Complex.normSq (g x)) l (𝓝 (Complex.normSq a)) := (Complex.continuous_normSq.tendsto a).comp h

theorem tendsto_div' {β : Type} [DivisionRing β] [TopologicalSpace β] [IsTopologicalDivisionRing β] {l : Filter ℝ}
    {g h : ℝ → β} {a b : β} (hg : Tendsto g l (𝓝 a)) (hh : Tendsto h l (𝓝 b)) (hb : b ≠ 0) :
    Tendsto (fun x => g x / h x) l (𝓝 (a / b)) := hg.div hh hb

/-- the analytic core of the dilute limit: along any filter on which `f → 0` and `t(f)·f → 0` -/
theorem qca_limit_core {l : Filter ℝ} (t : ℝ → ℝ) (r k0 : ℝ) (Y c : ℂ)
    (hf : Tendsto (fun f : ℝ => f) l (𝓝 0)) (hu : Tendsto (fun f => t f * f) l (𝓝 0)) :
    Tendsto (fun f : ℝ => 2 * k0 * cube (k0 * r) * Complex.normSq Y * shsS f (t f)
        * Complex.normSq (1 + ((pow4 (1 - f) : ℝ) : ℂ) * (((cube (k0 * r) : ℝ) : ℂ) * (c * Y))
            / (((sq (1 + 2 * f - t f * f * (1 - f)) : ℝ) : ℂ) * (1 - (f : ℂ) * Y)))
        / Complex.normSq (1 - (f : ℂ) * Y)) l
      (𝓝 (2 * k0 * cube (k0 * r) * Complex.normSq Y * Complex.normSq (1 + ((cube (k0 * r) : ℝ) : ℂ) * (c * Y)))) := by
  have h1f : Tendsto (fun f : ℝ => 1 - f) l (𝓝 1) := by
    simpa using (tendsto_const_nhds (x := (1 : ℝ))).sub hf
  have hp4 : Tendsto (fun f : ℝ => pow4 (1 - f)) l (𝓝 1) := by
    simpa [pow4] using ((h1f.mul h1f).mul h1f).mul h1f
  have hD : Tendsto (fun f : ℝ => 1 + 2 * f - t f * f * (1 - f)) l (𝓝 1) := by
    simpa using ((tendsto_const_nhds (x := (1 : ℝ))).add (hf.const_mul 2)).sub (hu.mul h1f)
  have hD2 : Tendsto (fun f : ℝ => sq (1 + 2 * f - t f * f * (1 - f))) l (𝓝 1) := by
    simpa [sq] using hD.mul hD
  have hS : Tendsto (fun f : ℝ => shsS f (t f)) l (𝓝 1) := by
    simpa [shsS] using tendsto_div' hp4 hD2 one_ne_zero
  have hfc : Tendsto (fun f : ℝ => (f : ℂ)) l (𝓝 0) := by
    simpa using tendsto_ofReal' hf
  have hden : Tendsto (fun f : ℝ => (1 : ℂ) - (f : ℂ) * Y) l (𝓝 1) := by
    simpa using (tendsto_const_nhds (x := (1 : ℂ))).sub (hfc.mul_const Y)
  have hp4c : Tendsto (fun f : ℝ => ((pow4 (1 - f) : ℝ) : ℂ)) l (𝓝 1) := by
    simpa using tendsto_ofReal' hp4
  have hD2c : Tendsto (fun f : ℝ => ((sq (1 + 2 * f - t f * f * (1 - f)) : ℝ) : ℂ)) l (𝓝 1) := by
    simpa using tendsto_ofReal' hD2
  have hB : Tendsto (fun f : ℝ => 1 + ((pow4 (1 - f) : ℝ) : ℂ) * (((cube (k0 * r) : ℝ) : ℂ) * (c * Y))
            / (((sq (1 + 2 * f - t f * f * (1 - f)) : ℝ) : ℂ) * (1 - (f : ℂ) * Y))) l
      (𝓝 (1 + ((cube (k0 * r) : ℝ) : ℂ) * (c * Y))) := by
    have := (tendsto_const_nhds (x := (1 : ℂ))).add
      (tendsto_div' (hp4c.mul_const (((cube (k0 * r) : ℝ) : ℂ) * (c * Y))) (hD2c.mul hden) (by norm_num))
    simpa using this
  have hNB := tendsto_normSq' hB
  have hNd : Tendsto (fun f : ℝ => Complex.normSq (1 - (f : ℂ) * Y)) l (𝓝 1) := by
    simpa using tendsto_normSq' hden
  have := tendsto_div' (((tendsto_const_nhds (x := 2 * k0 * cube (k0 * r) * Complex.normSq Y)).mul hS).mul hNB) hNd one_ne_zero
  simpa using this


/-! ### the wavenumber of a loss-free background, the root selected by `compute_t` -/

theorem csqrt_real_re (a : ℝ) (ha : 0 ≤ a) : (csqrt (⟨a, 0⟩ : Cx ℝ)).re = Real.sqrt a := by
  unfold csqrt
  have hm : Real.sqrt (a * a + 0 * 0) = a := by rw [mul_zero, add_zero, Real.sqrt_mul_self ha]
  simp only [transc_sqrt_real, hm, not_lt.mpr ha, if_false]
  have ht : (a + a) / 2 = a := by ring
  rw [ht]
  by_cases h : 0 < Real.sqrt a
  · simp [h]
  · simp only [h, if_false]
    exact (le_antisymm (not_lt.mp h) (Real.sqrt_nonneg a)).symm

theorem shsTSmall_mul (tau f : ℝ) (hf : f ≠ 0) :
    shsTSmall tau f * f
      = 6 * (-(-(tau + f / (1 - f))) - Real.sqrt (-(tau + f / (1 - f)) * -(tau + f / (1 - f))
              - 4 * (f / 12) * ((1 + f / 2) / sq (1 - f)))) := by
  simp only [shsTSmall, transc_sqrt_real]
  field_simp
  ring

theorem shsTSmall_tendsto (tau : ℝ) (htau : 0 ≤ tau) :
    Tendsto (fun f => shsTSmall tau f * f) (𝓝[≠] 0) (𝓝 0) := by
  have hf : Tendsto (fun f : ℝ => f) (𝓝[≠] 0) (𝓝 0) := tendsto_nhdsWithin_of_tendsto_nhds tendsto_id
  have h1f : Tendsto (fun f : ℝ => 1 - f) (𝓝[≠] 0) (𝓝 1) := by
    simpa using (tendsto_const_nhds (x := (1 : ℝ))).sub hf
  have hq : Tendsto (fun f : ℝ => f / (1 - f)) (𝓝[≠] 0) (𝓝 0) := by
    simpa using tendsto_div' hf h1f one_ne_zero
  have hb : Tendsto (fun f : ℝ => -(tau + f / (1 - f))) (𝓝[≠] 0) (𝓝 (-tau)) := by
    simpa using ((tendsto_const_nhds (x := tau)).add hq).neg
  have hc : Tendsto (fun f : ℝ => (1 + f / 2) / sq (1 - f)) (𝓝[≠] 0) (𝓝 1) := by
    have h2 : Tendsto (fun f : ℝ => 1 + f / 2) (𝓝[≠] 0) (𝓝 1) := by
      simpa using (tendsto_const_nhds (x := (1 : ℝ))).add (hf.div_const 2)
    have h3 : Tendsto (fun f : ℝ => sq (1 - f)) (𝓝[≠] 0) (𝓝 1) := by simpa [sq] using h1f.mul h1f
    simpa using tendsto_div' h2 h3 one_ne_zero
  have ha : Tendsto (fun f : ℝ => 4 * (f / 12)) (𝓝[≠] 0) (𝓝 0) := by
    simpa using (hf.div_const 12).const_mul 4
  have hdisc : Tendsto (fun f : ℝ => -(tau + f / (1 - f)) * -(tau + f / (1 - f)) - 4 * (f / 12) * ((1 + f / 2) / sq (1 - f)))
      (𝓝[≠] 0) (𝓝 (tau * tau)) := by
    simpa using (hb.mul hb).sub (ha.mul hc)
  have hs : Tendsto (fun f : ℝ => Real.sqrt (-(tau + f / (1 - f)) * -(tau + f / (1 - f)) - 4 * (f / 12) * ((1 + f / 2) / sq (1 - f))))
      (𝓝[≠] 0) (𝓝 tau) := by
    have := (Real.continuous_sqrt.tendsto (tau * tau)).comp hdisc
    rw [Real.sqrt_mul_self htau] at this
    exact this
  have hall : Tendsto (fun f : ℝ => 6 * (-(-(tau + f / (1 - f))) - Real.sqrt (-(tau + f / (1 - f)) * -(tau + f / (1 - f))
      - 4 * (f / 12) * ((1 + f / 2) / sq (1 - f))))) (𝓝[≠] 0) (𝓝 0) := by
    simpa using (hb.neg.sub hs).const_mul 6
  refine hall.congr' ?_
  filter_upwards [self_mem_nhdsWithin] with f hfne
  exact (shsTSmall_mul tau f hfne).symm

end Smrt.TheoryLimits
