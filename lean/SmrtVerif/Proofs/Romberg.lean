/- `scipy.integrate.romb` as modelled (`Smrt.Em.romb`, a fold over arrays) is the corner of the Romberg tableau, and the tableau is
   `dx` times a fixed rational combination of the samples — for every number `2^k + 1` of samples.  For `k = 6` (the 65 cosines of
   `compute_ks` in iba.py and sce_common.py) the weights are evaluated in the kernel: all positive, exact on quadratics. -/
import SmrtVerif.Model.Emmodel
import SmrtVerif.Proofs.Sum
import Mathlib.Tactic.Ring
import Mathlib.Tactic.NormNum
import Mathlib.Tactic.Linarith
import Mathlib.Data.Real.Basic
import Mathlib.Data.Rat.Cast.Order
import Mathlib.Data.Rat.BigOperators
import Mathlib.Algebra.Order.BigOperators.Group.Finset
import Mathlib.Tactic.SplitIfs
import Mathlib.Tactic.Push

namespace Smrt.Em
open Smrt

section tableau
variable (k : Nat) (y : Nat → ℝ) (dx : ℝ)

/-- gate width after `i` halvings, as the code computes it -/
noncomputable def rombH : Nat → ℝ
  | 0 => ((2 ^ k : Nat) : ℝ) * dx
  | i + 1 => rombH i / (2.0 : ℝ)

/-- composite trapezoid value with `2^i` panels, by the code's recurrence -/
noncomputable def rombT : Nat → ℝ
  | 0 => (y 0 + y (2 ^ k)) / (2.0 : ℝ) * (((2 ^ k : Nat) : ℝ) * dx)
  | i + 1 => (0.5 : ℝ) * (rombT i + rombH k dx i * sumN (2 ^ i) (fun t => y ((2 ^ k >>> (i + 1)) + t * (2 ^ k >>> i))))

/-- the Romberg tableau -/
noncomputable def rombR : Nat → Nat → ℝ
  | i, 0 => rombT k y dx i
  | 0, _ + 1 => 0
  | i + 1, j + 1 => rombR (i + 1) j + (rombR (i + 1) j - rombR i j) / ((4 ^ (j + 1) - 1 : Nat) : ℝ)

/-- the body of the loop of `rombExtrap` -/
noncomputable def rombStep (prev : Array ℝ) (row : Array ℝ) (j' : Nat) : Array ℝ :=
  row.push (row.getD j' 0 + (row.getD j' 0 - prev.getD j' 0) / ((4 ^ (j' + 1) - 1 : Nat) : ℝ))

theorem rombExtrap_eq (prev : Array ℝ) (r0 : ℝ) (i : Nat) :
    rombExtrap prev r0 i = (List.range i).foldl (rombStep prev) #[r0] := rfl

theorem rombStep_fold (i : Nat) (prev : Array ℝ) (hprev : ∀ j, j ≤ i → prev.getD j 0 = rombR k y dx i j) (m : Nat) (hm : m ≤ i + 1) :
    ((List.range m).foldl (rombStep prev) #[rombR k y dx (i + 1) 0]).size = m + 1 ∧
    ∀ j, j ≤ m → ((List.range m).foldl (rombStep prev) #[rombR k y dx (i + 1) 0]).getD j 0 = rombR k y dx (i + 1) j := by
  induction m with
  | zero =>
    refine ⟨by simp, ?_⟩
    intro j hj
    have : j = 0 := by omega
    subst this
    simp
  | succ m ih =>
    obtain ⟨hs, hv⟩ := ih (by omega)
    rw [List.range_succ, List.foldl_append]
    simp only [List.foldl_cons, List.foldl_nil]
    generalize hrow : (List.range m).foldl (rombStep prev) #[rombR k y dx (i + 1) 0] = row at hs hv
    unfold rombStep
    refine ⟨by rw [Array.size_push, hs], ?_⟩
    intro j hj
    rw [Array.getD_eq_getD_getElem?, Array.getElem?_push, hs]
    by_cases hjm : j = m + 1
    · subst hjm
      simp only [if_true, Option.getD_some]
      rw [hv m le_rfl, hprev m (by omega)]
      rfl
    · simp only [hjm, if_false]
      rw [← Array.getD_eq_getD_getElem?]
      exact hv j (by omega)

/-- the body of the outer loop of `romb` -/
noncomputable def rombOuter (st : Array ℝ × ℝ) (i' : Nat) : Array ℝ × ℝ :=
  (rombExtrap st.1 ((0.5 : ℝ) * (st.1.getD 0 0 + st.2 * sumN (2 ^ i') (fun t => y ((2 ^ k >>> (i' + 1)) + t * (2 ^ k >>> i'))))) (i' + 1),
   st.2 / (2.0 : ℝ))

theorem romb_eq (k : Nat) (y : Nat → ℝ) (dx : ℝ) :
    romb k y dx = (((List.range k).foldl (rombOuter k y)
      (#[(y 0 + y (2 ^ k)) / (2.0 : ℝ) * (((2 ^ k : Nat) : ℝ) * dx)], ((2 ^ k : Nat) : ℝ) * dx)).1).getD k 0 := rfl

theorem rombOuter_fold (m : Nat) :
    (((List.range m).foldl (rombOuter k y)
      (#[(y 0 + y (2 ^ k)) / (2.0 : ℝ) * (((2 ^ k : Nat) : ℝ) * dx)], ((2 ^ k : Nat) : ℝ) * dx)).2 = rombH k dx m) ∧
    ∀ j, j ≤ m → (((List.range m).foldl (rombOuter k y)
      (#[(y 0 + y (2 ^ k)) / (2.0 : ℝ) * (((2 ^ k : Nat) : ℝ) * dx)], ((2 ^ k : Nat) : ℝ) * dx)).1).getD j 0 = rombR k y dx m j := by
  induction m with
  | zero =>
    refine ⟨rfl, ?_⟩
    intro j hj
    have : j = 0 := by omega
    subst this
    simp [rombR, rombT]
  | succ m ih =>
    obtain ⟨hh, hv⟩ := ih
    rw [List.range_succ, List.foldl_append]
    simp only [List.foldl_cons, List.foldl_nil]
    generalize (List.range m).foldl (rombOuter k y) _ = st at hh hv
    unfold rombOuter
    refine ⟨by simp only [hh, rombH], ?_⟩
    have h0 : (0.5 : ℝ) * (st.1.getD 0 0 + st.2 * sumN (2 ^ m) (fun t => y ((2 ^ k >>> (m + 1)) + t * (2 ^ k >>> m))))
        = rombR k y dx (m + 1) 0 := by
      rw [hv 0 (Nat.zero_le _), hh]
      simp only [rombR, rombT]
    simp only [h0]
    rw [rombExtrap_eq]
    exact (rombStep_fold k y dx m st.1 hv (m + 1) le_rfl).2

/-- **romb_is_tableau**: `scipy.integrate.romb` as modelled returns the corner `R(k, k)` of the Romberg tableau built from the
    composite trapezoid values by Richardson extrapolation, for every number `2^k + 1` of samples -/
theorem romb_is_tableau : romb k y dx = rombR k y dx k k := by
  rw [romb_eq]
  exact (rombOuter_fold k y dx k).2 k le_rfl

end tableau
section weights
open Finset
variable (k : Nat)

/-- `1` on the samples `start, start + step, …` (`cnt` of them), `0` elsewhere -/
def wInd (start step cnt n : Nat) : ℚ :=
  if start ≤ n ∧ (n - start) % step = 0 ∧ (n - start) / step < cnt then 1 else 0

def wH : Nat → ℚ
  | 0 => 2 ^ k
  | i + 1 => wH i / 2

/-- weights of the composite trapezoid rule with `2^i` panels on the `2^k + 1` samples (for `dx = 1`) -/
def wT : Nat → Nat → ℚ
  | 0, n => ((if n = 0 then 1 else 0) + (if n = 2 ^ k then 1 else 0)) / 2 * 2 ^ k
  | i + 1, n => (1 / 2) * (wT i n + wH k i * wInd (2 ^ k >>> (i + 1)) (2 ^ k >>> i) (2 ^ i) n)

/-- weights of the tableau entry `R(i, j)` -/
def wR : Nat → Nat → Nat → ℚ
  | i, 0, n => wT k i n
  | 0, _ + 1, _ => 0
  | i + 1, j + 1, n => wR (i + 1) j n + (wR (i + 1) j n - wR i j n) / (4 ^ (j + 1) - 1)

theorem wInd_succ (start step cnt n : Nat) (hs : 0 < step) :
    wInd start step (cnt + 1) n = wInd start step cnt n + (if n = start + cnt * step then 1 else 0) := by
  unfold wInd
  by_cases h : n = start + cnt * step
  · subst h
    have h1 : start + cnt * step - start = cnt * step := by omega
    simp [h1, Nat.mul_mod_left, Nat.mul_div_cancel _ hs]
  · simp only [h, if_false, add_zero]
    by_cases h2 : start ≤ n ∧ (n - start) % step = 0
    · obtain ⟨ha, hb⟩ := h2
      have hq : (n - start) / step ≠ cnt := by
        intro hc
        apply h
        have := Nat.div_add_mod (n - start) step
        rw [hb, hc] at this
        rw [Nat.mul_comm] at this
        omega
      have : ((n - start) / step < cnt + 1) ↔ ((n - start) / step < cnt) := by omega
      simp only [ha, hb, this, true_and]
    · have e1 : ¬ (start ≤ n ∧ (n - start) % step = 0 ∧ (n - start) / step < cnt + 1) := fun hh => h2 ⟨hh.1, hh.2.1⟩
      have e2 : ¬ (start ≤ n ∧ (n - start) % step = 0 ∧ (n - start) / step < cnt) := fun hh => h2 ⟨hh.1, hh.2.1⟩
      simp only [e1, e2, if_false]

theorem sum_wInd (N start step cnt : Nat) (hs : 0 < step) (hN : start + cnt * step ≤ N + step) (y : Nat → ℝ) :
    sumN cnt (fun t => y (start + t * step)) = ∑ n ∈ range (N + 1), ((wInd start step cnt n : ℚ) : ℝ) * y n := by
  rw [sumN_eq_sum]
  induction cnt with
  | zero => simp [wInd]
  | succ c ih =>
    rw [Finset.sum_range_succ, ih (by nlinarith)]
    have : ∀ n, ((wInd start step (c + 1) n : ℚ) : ℝ) * y n
        = ((wInd start step c n : ℚ) : ℝ) * y n + (if n = start + c * step then y n else 0) := by
      intro n
      rw [wInd_succ _ _ _ _ hs]
      push_cast
      split_ifs <;> ring
    simp only [this, Finset.sum_add_distrib]
    congr 1
    rw [Finset.sum_ite_eq' (range (N + 1)) (start + c * step) y]
    have : start + c * step ∈ range (N + 1) := by
      rw [Finset.mem_range]; nlinarith
    simp [this]

theorem rombH_eq (dx : ℝ) (i : Nat) : rombH k dx i = dx * ((wH k i : ℚ) : ℝ) := by
  induction i with
  | zero => simp [rombH, wH]; ring
  | succ i ih => simp only [rombH, wH, ih]; push_cast; norm_num; ring

theorem shift_pow (i : Nat) (hi : i ≤ k) : 2 ^ k >>> i = 2 ^ (k - i) := by
  rw [Nat.shiftRight_eq_div_pow, Nat.pow_div hi (by norm_num)]

theorem rombT_eq (y : Nat → ℝ) (dx : ℝ) (i : Nat) (hi : i ≤ k) :
    rombT k y dx i = dx * ∑ n ∈ range (2 ^ k + 1), ((wT k i n : ℚ) : ℝ) * y n := by
  induction i with
  | zero =>
    have h0 : (0 : Nat) ∈ range (2 ^ k + 1) := by simp
    have hN : 2 ^ k ∈ range (2 ^ k + 1) := by simp
    have : ∀ n, ((wT k 0 n : ℚ) : ℝ) * y n
        = (2 ^ k / 2 : ℝ) * (if n = 0 then y n else 0) + (2 ^ k / 2 : ℝ) * (if n = 2 ^ k then y n else 0) := by
      intro n
      simp only [wT]
      push_cast
      split_ifs <;> ring
    simp only [this, Finset.sum_add_distrib, ← Finset.mul_sum, Finset.sum_ite_eq', h0, hN, if_true, rombT]
    push_cast
    norm_num
    ring
  | succ i ih =>
    have hs : 0 < 2 ^ k >>> i := by rw [shift_pow k i (by omega)]; positivity
    have hb : 2 ^ k >>> (i + 1) + 2 ^ i * 2 ^ k >>> i ≤ 2 ^ k + 2 ^ k >>> i := by
      rw [shift_pow k i (by omega), shift_pow k (i + 1) hi, ← pow_add]
      have h1 : i + (k - i) = k := by omega
      have h2 : 2 ^ (k - (i + 1)) ≤ 2 ^ (k - i) := Nat.pow_le_pow_right (by norm_num) (by omega)
      rw [h1]; omega
    simp only [rombT]
    rw [ih (by omega), rombH_eq, sum_wInd (2 ^ k) _ _ _ hs hb y]
    have : ∀ n, ((wT k (i + 1) n : ℚ) : ℝ) * y n
        = (1 / 2 : ℝ) * (((wT k i n : ℚ) : ℝ) * y n)
          + (1 / 2 : ℝ) * ((wH k i : ℚ) : ℝ) * (((wInd (2 ^ k >>> (i + 1)) (2 ^ k >>> i) (2 ^ i) n : ℚ) : ℝ) * y n) := by
      intro n
      simp only [wT]
      push_cast
      ring
    simp only [this, Finset.sum_add_distrib, ← Finset.mul_sum]
    norm_num
    ring

/-- every entry of the tableau is `dx` times a fixed rational combination of the samples -/
theorem rombR_eq (y : Nat → ℝ) (dx : ℝ) (j : Nat) : ∀ i, i ≤ k →
    rombR k y dx i j = dx * ∑ n ∈ range (2 ^ k + 1), ((wR k i j n : ℚ) : ℝ) * y n := by
  induction j with
  | zero => intro i hi; simp only [rombR, wR]; exact rombT_eq k y dx i hi
  | succ j ih =>
    intro i hi
    cases i with
    | zero => simp [rombR, wR]
    | succ i =>
      simp only [rombR]
      rw [ih (i + 1) hi, ih i (by omega)]
      have : ∀ n, ((wR k (i + 1) (j + 1) n : ℚ) : ℝ) * y n
          = ((wR k (i + 1) j n : ℚ) : ℝ) * y n
            + (((4 : ℝ) ^ (j + 1) - 1)⁻¹ * (((wR k (i + 1) j n : ℚ) : ℝ) * y n)
               - ((4 : ℝ) ^ (j + 1) - 1)⁻¹ * (((wR k i j n : ℚ) : ℝ) * y n)) := by
        intro n
        simp only [wR]
        push_cast
        ring
      simp only [this, Finset.sum_add_distrib, Finset.sum_sub_distrib, ← Finset.mul_sum]
      have h4 : (((4 ^ (j + 1) - 1 : Nat)) : ℝ) = (4 : ℝ) ^ (j + 1) - 1 := by
        have : 1 ≤ 4 ^ (j + 1) := Nat.one_le_pow _ _ (by norm_num)
        push_cast [Nat.cast_sub this]
        ring
      rw [h4]
      ring

/-- **romb_weights**: for every `k`, `romb` on `2^k + 1` samples is `dx` times a fixed rational combination of the samples -/
theorem romb_weights (y : Nat → ℝ) (dx : ℝ) :
    romb k y dx = dx * ∑ n ∈ range (2 ^ k + 1), ((wR k k k n : ℚ) : ℝ) * y n := by
  rw [romb_is_tableau]; exact rombR_eq k y dx k k le_rfl

/-- only the `2^k + 1` samples matter -/
theorem romb_congr (y z : Nat → ℝ) (dx : ℝ) (h : ∀ n, n ≤ 2 ^ k → y n = z n) : romb k y dx = romb k z dx := by
  rw [romb_weights, romb_weights]
  congr 1
  apply Finset.sum_congr rfl
  intro n hn
  rw [h n (by have := Finset.mem_range.mp hn; omega)]

/-- linear in the samples -/
theorem romb_add (y z : Nat → ℝ) (dx : ℝ) : romb k (fun n => y n + z n) dx = romb k y dx + romb k z dx := by
  simp only [romb_weights, mul_add, Finset.sum_add_distrib]

theorem romb_smul (c : ℝ) (y : Nat → ℝ) (dx : ℝ) : romb k (fun n => c * y n) dx = c * romb k y dx := by
  simp only [romb_weights]
  rw [show ∑ n ∈ range (2 ^ k + 1), ((wR k k k n : ℚ) : ℝ) * (c * y n) = c * ∑ n ∈ range (2 ^ k + 1), ((wR k k k n : ℚ) : ℝ) * y n by
    rw [Finset.mul_sum]; apply Finset.sum_congr rfl; intro n _; ring]
  ring

end weights
section k6
open Finset

theorem wR6_pos : ∀ n, n < 65 → 0 < wR 6 6 6 n := by decide +kernel
theorem wR6_sum0 : ∑ n ∈ range 65, wR 6 6 6 n = 64 := by decide +kernel
theorem wR6_sum1 : ∑ n ∈ range 65, wR 6 6 6 n * n = 2048 := by decide +kernel
theorem wR6_sum2 : ∑ n ∈ range 65, wR 6 6 6 n * n * n = 262144 / 3 := by decide +kernel

/-- **romb6_nonneg**: the 65-point Romberg value of non-negative samples is non-negative (all 65 weights are positive) -/
theorem romb6_nonneg (y : Nat → ℝ) (dx : ℝ) (hdx : 0 ≤ dx) (hy : ∀ n, n ≤ 64 → 0 ≤ y n) : 0 ≤ romb 6 y dx := by
  rw [romb_weights]
  apply mul_nonneg hdx
  apply Finset.sum_nonneg
  intro n hn
  have hn' : n < 65 := by simpa using hn
  have hw : (0 : ℝ) < ((wR 6 6 6 n : ℚ) : ℝ) := by exact_mod_cast wR6_pos n hn'
  exact mul_nonneg hw.le (hy n (by omega))

/-- monotone: larger samples, larger Romberg value -/
theorem romb6_mono (y z : Nat → ℝ) (dx : ℝ) (hdx : 0 ≤ dx) (h : ∀ n, n ≤ 64 → y n ≤ z n) : romb 6 y dx ≤ romb 6 z dx := by
  rw [romb_weights, romb_weights]
  apply mul_le_mul_of_nonneg_left _ hdx
  apply Finset.sum_le_sum
  intro n hn
  have hn' : n < 65 := by simpa using hn
  have hw : (0 : ℝ) < ((wR 6 6 6 n : ℚ) : ℝ) := by exact_mod_cast wR6_pos n hn'
  exact mul_le_mul_of_nonneg_left (h n (by omega)) hw.le

/-- **romb6_quadratic**: the rule is exact on quadratics in the sample index: `∫₀⁶⁴ (a + b t + c t²) dt = 64 a + 2048 b + 262144/3 c` -/
theorem romb6_quadratic (a b c dx : ℝ) :
    romb 6 (fun n => a + b * (n : ℝ) + c * ((n : ℝ) * (n : ℝ))) dx = dx * (64 * a + 2048 * b + 262144 / 3 * c) := by
  rw [romb_weights]
  congr 1
  have h0 : ∑ n ∈ range 65, ((wR 6 6 6 n : ℚ) : ℝ) = 64 := by
    have := congrArg (fun q : ℚ => (q : ℝ)) wR6_sum0
    simp only [Rat.cast_sum] at this
    exact_mod_cast this
  have h1 : ∑ n ∈ range 65, ((wR 6 6 6 n : ℚ) : ℝ) * (n : ℝ) = 2048 := by
    have := congrArg (fun q : ℚ => (q : ℝ)) wR6_sum1
    simp only [Rat.cast_sum] at this
    exact_mod_cast this
  have h2 : ∑ n ∈ range 65, ((wR 6 6 6 n : ℚ) : ℝ) * (n : ℝ) * (n : ℝ) = 262144 / 3 := by
    have : ((∑ n ∈ range 65, wR 6 6 6 n * n * n : ℚ) : ℝ) = ((262144 / 3 : ℚ) : ℝ) := by rw [wR6_sum2]
    push_cast at this
    exact this
  have : ∀ n : Nat, ((wR 6 6 6 n : ℚ) : ℝ) * (a + b * (n : ℝ) + c * ((n : ℝ) * (n : ℝ)))
      = a * ((wR 6 6 6 n : ℚ) : ℝ) + b * (((wR 6 6 6 n : ℚ) : ℝ) * (n : ℝ)) + c * (((wR 6 6 6 n : ℚ) : ℝ) * (n : ℝ) * (n : ℝ)) := by
    intro n; ring
  have e : (2 : ℕ) ^ 6 + 1 = 65 := by norm_num
  rw [e]
  simp only [this, Finset.sum_add_distrib, ← Finset.mul_sum, h0, h1, h2]
  ring

end k6
end Smrt.Em
