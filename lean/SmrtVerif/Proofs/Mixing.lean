/- helper lemmas for the mixing formulae (C15): transport of `Cx ℝ` to Mathlib's `ℂ`, the specification of the
   executable complex square root, and the real-analysis lemmas behind the bounds.
   The `Transc ℝ` instance is the shared one of `SmrtVerif/Proofs/RealTransc.lean`. -/
import SmrtVerif.Model.Mixing
import SmrtVerif.Proofs.RealTransc
import Mathlib.Data.Complex.Basic
import Mathlib.Tactic.Ring
import Mathlib.Tactic.FieldSimp
import Mathlib.Tactic.Linarith
import Mathlib.Tactic.LinearCombination
import Mathlib.Tactic.Positivity
import Mathlib.Tactic.NormNum

namespace Smrt.Mixing

/-! ### `Cx ℝ` is `ℂ` -/

def toC (z : Cx ℝ) : ℂ := ⟨z.re, z.im⟩

theorem toC_inj {a b : Cx ℝ} (h : toC a = toC b) : a = b := by
  cases a; cases b
  simp only [toC, Complex.mk.injEq] at h
  simp [h.1, h.2]

theorem toC_mk (x y : ℝ) : toC ⟨x, y⟩ = ⟨x, y⟩ := rfl
theorem toC_real (x : ℝ) : toC ⟨x, 0⟩ = (x : ℂ) := rfl
@[simp] theorem toC_add (a b : Cx ℝ) : toC (a + b) = toC a + toC b := by
  show toC (Cx.add a b) = _
  apply Complex.ext <;> simp [toC, Cx.add]
@[simp] theorem toC_sub (a b : Cx ℝ) : toC (a - b) = toC a - toC b := by
  show toC (Cx.sub a b) = _
  apply Complex.ext <;> simp [toC, Cx.sub]
@[simp] theorem toC_neg (a : Cx ℝ) : toC (-a) = -toC a := by
  show toC (Cx.neg a) = _
  apply Complex.ext <;> simp [toC, Cx.neg]
@[simp] theorem toC_mul (a b : Cx ℝ) : toC (a * b) = toC a * toC b := by
  show toC (Cx.mul a b) = _
  apply Complex.ext <;> simp [toC, Cx.mul]
@[simp] theorem toC_div (a b : Cx ℝ) : toC (a / b) = toC a / toC b := by
  show toC (Cx.div a b) = _
  apply Complex.ext <;> simp [toC, Cx.div, Complex.div_re, Complex.div_im, Complex.normSq_apply] <;> ring
@[simp] theorem toC_smul (s : ℝ) (a : Cx ℝ) : toC (Cx.smul s a) = (s : ℂ) * toC a := by
  apply Complex.ext <;> simp [toC, Cx.smul]
@[simp] theorem toC_sdiv (a : Cx ℝ) (d : ℝ) : toC (sdiv a d) = toC a / (d : ℂ) := by
  apply Complex.ext <;> simp [toC, sdiv, Complex.div_re, Complex.div_im, Complex.normSq_apply]
  · by_cases h : d = 0
    · simp [h]
    · field_simp
  · by_cases h : d = 0
    · simp [h]
    · field_simp
@[simp] theorem toC_cone : toC (cone : Cx ℝ) = 1 := by apply Complex.ext <;> simp [toC, cone]
@[simp] theorem toC_czero : toC (czero : Cx ℝ) = 0 := by apply Complex.ext <;> simp [toC, czero]
theorem toC_re (a : Cx ℝ) : (toC a).re = a.re := rfl
theorem toC_im (a : Cx ℝ) : (toC a).im = a.im := rfl
theorem eq_czero_iff (a : Cx ℝ) : a = czero ↔ toC a = 0 :=
  ⟨fun h => by rw [h, toC_czero], fun h => toC_inj (by rw [h, toC_czero])⟩


/-- specification of a complex square root: principal branch -/
def IsCSqrt (csqrt : Cx ℝ → Cx ℝ) : Prop := ∀ z, csqrt z * csqrt z = z ∧ 0 ≤ (csqrt z).re

theorem cxsqrt_unfold (z : Cx ℝ) : Cx.sqrt z =
    ⟨Real.sqrt ((Real.sqrt (z.re * z.re + z.im * z.im) + z.re) / 2),
     if z.im < 0 then -Real.sqrt ((Real.sqrt (z.re * z.re + z.im * z.im) - z.re) / 2)
     else Real.sqrt ((Real.sqrt (z.re * z.re + z.im * z.im) - z.re) / 2)⟩ := rfl

theorem cxsqrt_isCSqrt : IsCSqrt (Cx.sqrt (α := ℝ)) := by
  intro z
  rw [cxsqrt_unfold]
  set m := Real.sqrt (z.re * z.re + z.im * z.im) with hm
  have hm0 : 0 ≤ m := Real.sqrt_nonneg _
  have hmm : m * m = z.re * z.re + z.im * z.im := Real.mul_self_sqrt (by nlinarith [mul_self_nonneg z.re, mul_self_nonneg z.im])
  have h1 : 0 ≤ (m + z.re) / 2 := by nlinarith [mul_self_nonneg z.im, mul_self_nonneg (m + z.re)]
  have h2 : 0 ≤ (m - z.re) / 2 := by nlinarith [mul_self_nonneg z.im, mul_self_nonneg (m - z.re)]
  set a := Real.sqrt ((m + z.re) / 2) with ha
  set b := Real.sqrt ((m - z.re) / 2) with hb
  have haa : a * a = (m + z.re) / 2 := Real.mul_self_sqrt h1
  have hbb : b * b = (m - z.re) / 2 := Real.mul_self_sqrt h2
  have hab : a * b = |z.im| / 2 := by
    rw [ha, hb, ← Real.sqrt_mul h1]
    have : (m + z.re) / 2 * ((m - z.re) / 2) = (|z.im| / 2) * (|z.im| / 2) := by
      have : |z.im| * |z.im| = z.im * z.im := abs_mul_abs_self _
      nlinarith
    rw [this, Real.sqrt_mul_self (by positivity)]
  refine ⟨?_, Real.sqrt_nonneg _⟩
  cases z with
  | mk re im =>
  simp only at *
  show Cx.mul _ _ = _
  simp only [Cx.mul]
  split_ifs with hneg
  · have : |im| = -im := abs_of_neg hneg
    congr 1 <;> nlinarith
  · have : |im| = im := abs_of_nonneg (not_lt.mp hneg)
    congr 1 <;> nlinarith


theorem cxsqrt_sq (z : Cx ℝ) : Cx.sqrt z * Cx.sqrt z = z := (cxsqrt_isCSqrt z).1

/-! ### algebra in `ℂ` -/

/-- principal branch: the root with non-negative real part of a perfect square `z²`, `Re z > 0`, is `z` -/
theorem principal_root_of_sq {w z : ℂ} (h : w * w = z * z) (hw : 0 ≤ w.re) (hz : 0 < z.re) : w = z := by
  have : (w - z) * (w + z) = 0 := by linear_combination h
  rcases mul_eq_zero.mp this with h1 | h1
  · exact sub_eq_zero.mp h1
  · exfalso
    have : w.re + z.re = 0 := by simpa using congrArg Complex.re h1
    linarith

/-- the value `(-b + w)/(2a)` with `w² = b² - 4ac` solves `a x² + b x + c = 0` -/
theorem quad_root_C (a : ℝ) (ha : a ≠ 0) (b c w : ℂ) (hw : w * w = b * b - (4 * a : ℝ) * c) :
    (a : ℂ) * ((-b + w) / ((2 * a : ℝ) : ℂ) * ((-b + w) / ((2 * a : ℝ) : ℂ))) + b * ((-b + w) / ((2 * a : ℝ) : ℂ)) + c = 0 := by
  have ha' : (a : ℂ) ≠ 0 := by exact_mod_cast ha
  push_cast at hw ⊢
  field_simp
  linear_combination hw

theorem quadRoot_solves (csqrt : Cx ℝ → Cx ℝ) (hs : ∀ z, csqrt z * csqrt z = z) (a : ℝ) (ha : a ≠ 0) (b c : Cx ℝ) :
    Cx.smul a (quadRoot csqrt a b c * quadRoot csqrt a b c) + b * quadRoot csqrt a b c + c = czero := by
  apply toC_inj
  have h := congrArg toC (hs (b * b - Cx.smul (4 * a) c))
  simp only [toC_mul, toC_sub, toC_smul] at h
  simp only [quadRoot, toC_add, toC_mul, toC_smul, toC_sdiv, toC_neg, toC_czero]
  exact quad_root_C a ha (toC b) (toC c) _ h


/-! ### Polder–van Santen: unfolding, symmetry, limits -/

theorem pvsWith_spheres (csqrt : Cx ℝ → Cx ℝ) (f : ℝ) (e0 eps : Cx ℝ) (hf : f ≤ 1) :
    pvsWith csqrt .spheres f e0 eps = .ok (quadRoot csqrt 2 (eps - Cx.smul 2 e0 - Cx.smul (3 * f) (eps - e0)) ((-eps) * e0)) := by
  simp [pvsWith, pvsCoeffs, not_lt.mpr hf]

theorem pvsWith_needles (csqrt : Cx ℝ → Cx ℝ) (f : ℝ) (e0 eps : Cx ℝ) (hf : f ≤ 1) :
    pvsWith csqrt .needles f e0 eps = .ok (quadRoot csqrt 1 (eps - e0 - Cx.smul (5 / 3 * f) (eps - e0))
      ((-eps) * (e0 + Cx.smul (1 / 3 * f) (eps - e0)))) := by
  simp [pvsWith, pvsCoeffs, not_lt.mpr hf]

/-- an `ok` result is the quadratic root of the coefficients of the shape, and `f ≤ 1` -/
theorem pvsWith_ok {csqrt : Cx ℝ → Cx ℝ} {s : Shape} {f : ℝ} {e0 eps x : Cx ℝ} {d : Bool}
    (h : pvsWith csqrt s f e0 eps d = .ok x) :
    f ≤ 1 ∧ d = false ∧ ∃ a b c, pvsCoeffs s f e0 eps = some (a, b, c) ∧ x = quadRoot csqrt a b c := by
  unfold pvsWith at h
  split_ifs at h with h1 h2
  cases hc : pvsCoeffs s f e0 eps with
  | none => simp [hc] at h
  | some abc =>
    obtain ⟨a, b, c⟩ := abc
    simp only [hc, Except.ok.injEq] at h
    exact ⟨not_lt.mp h1, by simpa using h2, a, b, c, rfl, h.symm⟩

theorem pvsCoeffs_a_ne_zero {s : Shape} {f : ℝ} {e0 eps : Cx ℝ} {a : ℝ} {b c : Cx ℝ}
    (h : pvsCoeffs s f e0 eps = some (a, b, c)) : a ≠ 0 := by
  cases s <;> simp [pvsCoeffs] at h <;> (obtain ⟨rfl, -, -⟩ := h; norm_num)

theorem pvs_sym_coeffs (f : ℝ) (e0 eps : Cx ℝ) :
    (eps - Cx.smul 2 e0 - Cx.smul (3 * f) (eps - e0) = e0 - Cx.smul 2 eps - Cx.smul (3 * (1 - f)) (e0 - eps)) ∧
    ((-eps) * e0 = (-e0) * eps) := by
  constructor <;> apply toC_inj <;> simp only [toC_sub, toC_smul, toC_mul, toC_neg] <;> push_cast <;> ring

/-- if the discriminant is the perfect square `R²` with `Re R > 0`, the principal root gives `(-b + R)/(2a)` -/
theorem quadRoot_of_sq {csqrt : Cx ℝ → Cx ℝ} (hcs : IsCSqrt csqrt) (a : ℝ) (b c : Cx ℝ) (R : ℂ)
    (hd : toC b * toC b - ((4 * a : ℝ) : ℂ) * toC c = R * R) (hR : 0 < R.re) :
    toC (quadRoot csqrt a b c) = (-toC b + R) / ((2 * a : ℝ) : ℂ) := by
  obtain ⟨h1, h2⟩ := hcs (b * b - Cx.smul (4 * a) c)
  have h := congrArg toC h1
  simp only [toC_mul, toC_sub, toC_smul] at h
  rw [hd] at h
  have := principal_root_of_sq h (by rw [toC_re]; exact h2) hR
  simp only [quadRoot, toC_sdiv, toC_add, toC_neg, this]

theorem pvs_spheres_f0 {csqrt : Cx ℝ → Cx ℝ} (hcs : IsCSqrt csqrt) (e0 eps : Cx ℝ) (h : 0 < eps.re + 2 * e0.re) :
    pvsWith csqrt .spheres 0 e0 eps = .ok e0 := by
  rw [pvsWith_spheres _ _ _ _ (by norm_num)]
  congr 1
  apply toC_inj
  rw [quadRoot_of_sq hcs 2 _ _ (toC eps + 2 * toC e0)]
  · simp only [toC_sub, toC_smul]; push_cast; ring
  · simp only [toC_sub, toC_smul, toC_mul, toC_neg]; push_cast; ring
  · simpa [toC] using h

theorem pvs_spheres_f1 {csqrt : Cx ℝ → Cx ℝ} (hcs : IsCSqrt csqrt) (e0 eps : Cx ℝ) (h : 0 < e0.re + 2 * eps.re) :
    pvsWith csqrt .spheres 1 e0 eps = .ok eps := by
  rw [pvsWith_spheres _ _ _ _ (le_refl _)]
  congr 1
  apply toC_inj
  rw [quadRoot_of_sq hcs 2 _ _ (toC e0 + 2 * toC eps)]
  · simp only [toC_sub, toC_smul]; push_cast; ring
  · simp only [toC_sub, toC_smul, toC_mul, toC_neg]; push_cast; ring
  · simpa [toC] using h

theorem pvs_needles_f0 {csqrt : Cx ℝ → Cx ℝ} (hcs : IsCSqrt csqrt) (e0 eps : Cx ℝ) (h : 0 < eps.re + e0.re) :
    pvsWith csqrt .needles 0 e0 eps = .ok e0 := by
  rw [pvsWith_needles _ _ _ _ (by norm_num)]
  congr 1
  apply toC_inj
  rw [quadRoot_of_sq hcs 1 _ _ (toC eps + toC e0)]
  · simp only [toC_sub, toC_smul]; push_cast; ring
  · simp only [toC_sub, toC_add, toC_smul, toC_mul, toC_neg]; push_cast; ring
  · simpa [toC] using h

theorem pvs_needles_f1 {csqrt : Cx ℝ → Cx ℝ} (hcs : IsCSqrt csqrt) (e0 eps : Cx ℝ) (h : 0 < 2 * eps.re + e0.re) :
    pvsWith csqrt .needles 1 e0 eps = .ok eps := by
  rw [pvsWith_needles _ _ _ _ (le_refl _)]
  congr 1
  apply toC_inj
  rw [quadRoot_of_sq hcs 1 _ _ ((2 / 3 : ℝ) * (2 * toC eps + toC e0))]
  · simp only [toC_sub, toC_smul]; push_cast; ring
  · simp only [toC_sub, toC_add, toC_smul, toC_mul, toC_neg]; push_cast; ring
  · simp [toC]; linarith


/-! ### loss-free constituents: everything is real -/

theorem csqrt_real {csqrt : Cx ℝ → Cx ℝ} (hcs : IsCSqrt csqrt) (d : ℝ) (hd : 0 < d) :
    csqrt ⟨d, 0⟩ = ⟨Real.sqrt d, 0⟩ := by
  apply toC_inj
  obtain ⟨h1, h2⟩ := hcs ⟨d, 0⟩
  have h := congrArg toC h1
  rw [toC_mul, toC_real] at h
  have hd' : ((d : ℝ) : ℂ) = ((Real.sqrt d : ℝ) : ℂ) * ((Real.sqrt d : ℝ) : ℂ) := by
    exact_mod_cast (Real.mul_self_sqrt hd.le).symm
  rw [hd'] at h
  rw [toC_real]
  exact principal_root_of_sq h (by rw [toC_re]; exact h2) (by simpa using Real.sqrt_pos.mpr hd)

theorem quadRoot_real {csqrt : Cx ℝ → Cx ℝ} (hcs : IsCSqrt csqrt) (a b c : ℝ) (hD : 0 < b * b - 4 * a * c) :
    quadRoot csqrt a ⟨b, 0⟩ ⟨c, 0⟩ = ⟨(-b + Real.sqrt (b * b - 4 * a * c)) / (2 * a), 0⟩ := by
  have hdisc : (⟨b, 0⟩ * ⟨b, 0⟩ - Cx.smul (4 * a) ⟨c, 0⟩ : Cx ℝ) = ⟨b * b - 4 * a * c, 0⟩ := by
    apply toC_inj
    simp only [toC_sub, toC_mul, toC_smul, toC_real]; push_cast; ring
  unfold quadRoot
  rw [hdisc, csqrt_real hcs _ hD]
  apply toC_inj
  simp only [toC_sdiv, toC_add, toC_neg, toC_real]; push_cast; ring

/-- a point where the quadratic is non-positive lies below the larger root -/
theorem le_root_of_nonpos {a b c y s : ℝ} (ha : 0 < a) (_hs : 0 ≤ s) (hss : s * s = b * b - 4 * a * c)
    (hy : a * y * y + b * y + c ≤ 0) : y ≤ (-b + s) / (2 * a) := by
  by_contra h
  rw [not_le] at h
  rw [div_lt_iff₀ (by positivity)] at h
  have ht : 0 < (2 * a * y + b) - s := by linarith
  have ht2 : 0 < (2 * a * y + b) + s := by linarith
  have : 0 < ((2 * a * y + b) - s) * ((2 * a * y + b) + s) := mul_pos ht ht2
  nlinarith

/-- a non-negative point where the quadratic (with `c < 0`) is non-negative lies above the larger root -/
theorem root_le_of_nonneg {a b c y s : ℝ} (ha : 0 < a) (hs : 0 ≤ s) (hss : s * s = b * b - 4 * a * c) (hc : c < 0)
    (hy0 : 0 ≤ y) (hy : 0 ≤ a * y * y + b * y + c) : (-b + s) / (2 * a) ≤ y := by
  by_contra h
  rw [not_le] at h
  rw [lt_div_iff₀ (by positivity)] at h
  have hsb : -s < b := by
    by_contra hb
    rw [not_lt] at hb
    have : s * s ≤ b * b := by nlinarith
    nlinarith [mul_pos ha (neg_pos.mpr hc)]
  have ht : 0 < s - (2 * a * y + b) := by linarith
  have ht2 : 0 < (2 * a * y + b) + s := by nlinarith [mul_nonneg ha.le hy0]
  have : 0 < (s - (2 * a * y + b)) * ((2 * a * y + b) + s) := mul_pos ht ht2
  nlinarith

/-- the larger root is non-negative when `c ≤ 0` -/
theorem root_nonneg {a b c s : ℝ} (ha : 0 < a) (hs : 0 ≤ s) (hss : s * s = b * b - 4 * a * c) (hc : c ≤ 0) :
    0 ≤ (-b + s) / (2 * a) := by
  apply div_nonneg _ (by positivity)
  by_contra h
  rw [not_le] at h
  have : s * s < b * b := by nlinarith
  nlinarith [mul_nonneg ha.le (neg_nonneg.mpr hc)]

/-- real form of one Maxwell Garnett component -/
noncomputable def mgReal (f e0 eps A : ℝ) : ℝ := e0 * (1 + f * (eps - e0) / (e0 + (1 - f) * A * (eps - e0)))

theorem mgComponent_real (f e0 eps A : ℝ) : mgComponent f ⟨e0, 0⟩ ⟨eps, 0⟩ A = ⟨mgReal f e0 eps A, 0⟩ := by
  apply toC_inj
  simp only [mgComponent, mgReal, toC_mul, toC_add, toC_div, toC_smul, toC_sub, toC_cone, toC_real]
  push_cast; ring

theorem mg_den_pos {f e0 eps A : ℝ} (h0 : 0 < e0) (he : 0 < eps) (hf0 : 0 ≤ f) (hf1 : f ≤ 1) (hA0 : 0 ≤ A) (hA1 : A ≤ 1) :
    0 < e0 + (1 - f) * A * (eps - e0) := by
  have ht0 : 0 ≤ (1 - f) * A := mul_nonneg (by linarith) hA0
  have ht1 : (1 - f) * A ≤ 1 := by nlinarith
  nlinarith [mul_nonneg ht0 he.le, mul_nonneg (sub_nonneg.mpr ht1) h0.le]

theorem mgReal_le_arith {f e0 eps A : ℝ} (h0 : 0 < e0) (he : 0 < eps) (hf0 : 0 ≤ f) (hf1 : f ≤ 1) (hA0 : 0 ≤ A) (hA1 : A ≤ 1) :
    mgReal f e0 eps A ≤ (1 - f) * e0 + f * eps := by
  have hd := mg_den_pos h0 he hf0 hf1 hA0 hA1
  have key : (1 - f) * e0 + f * eps - mgReal f e0 eps A
      = f * (1 - f) * A * (eps - e0) ^ 2 / (e0 + (1 - f) * A * (eps - e0)) := by
    have hd' := hd.ne'
    unfold mgReal
    set d := e0 + (1 - f) * A * (eps - e0) with hdef
    field_simp
    rw [hdef]; ring
  have : 0 ≤ f * (1 - f) * A * (eps - e0) ^ 2 / (e0 + (1 - f) * A * (eps - e0)) :=
    div_nonneg (by have := sub_nonneg.mpr hf1; positivity) hd.le
  linarith

theorem harm_le_mgReal {f e0 eps A : ℝ} (h0 : 0 < e0) (he : 0 < eps) (hf0 : 0 ≤ f) (hf1 : f ≤ 1) (hA0 : 0 ≤ A) (hA1 : A ≤ 1) :
    1 / ((1 - f) / e0 + f / eps) ≤ mgReal f e0 eps A := by
  have hd := mg_den_pos h0 he hf0 hf1 hA0 hA1
  have hh : 0 < (1 - f) * eps + f * e0 := by nlinarith [mul_nonneg (sub_nonneg.mpr hf1) he.le, mul_nonneg hf0 h0.le]
  have key : mgReal f e0 eps A - 1 / ((1 - f) / e0 + f / eps)
      = e0 * f * (1 - f) * (1 - A) * (eps - e0) ^ 2 / ((e0 + (1 - f) * A * (eps - e0)) * ((1 - f) * eps + f * e0)) := by
    have hd' := hd.ne'
    have hh' := hh.ne'
    unfold mgReal
    have h1 : (1 - f) / e0 + f / eps = ((1 - f) * eps + f * e0) / (e0 * eps) := by field_simp
    rw [h1]
    set d := e0 + (1 - f) * A * (eps - e0) with hdef
    set h := (1 - f) * eps + f * e0 with hhdef
    field_simp
    rw [hdef, hhdef]; ring
  have : 0 ≤ e0 * f * (1 - f) * (1 - A) * (eps - e0) ^ 2 / ((e0 + (1 - f) * A * (eps - e0)) * ((1 - f) * eps + f * e0)) := by
    apply div_nonneg _ (mul_pos hd hh).le
    have := sub_nonneg.mpr hf1; have := sub_nonneg.mpr hA1; positivity
  linarith

theorem mgReal_diff {f g e0 eps A : ℝ} (hdf : e0 + (1 - f) * A * (eps - e0) ≠ 0) (hdg : e0 + (1 - g) * A * (eps - e0) ≠ 0) :
    mgReal g e0 eps A - mgReal f e0 eps A
      = e0 * (eps - e0) * (g - f) * ((1 - A) * e0 + A * eps)
        / ((e0 + (1 - f) * A * (eps - e0)) * (e0 + (1 - g) * A * (eps - e0))) := by
  unfold mgReal
  set d1 := e0 + (1 - f) * A * (eps - e0) with hd1
  set d2 := e0 + (1 - g) * A * (eps - e0) with hd2
  field_simp
  rw [hd1, hd2]; ring


/-! ### Polder–van Santen for loss-free constituents -/

theorem root_is_root {a b c s : ℝ} (ha : a ≠ 0) (hss : s * s = b * b - 4 * a * c) :
    a * ((-b + s) / (2 * a)) * ((-b + s) / (2 * a)) + b * ((-b + s) / (2 * a)) + c = 0 := by
  field_simp
  linear_combination hss

/-- real coefficient `b` of the quadratic (spheres) -/
noncomputable def bS (f e0 eps : ℝ) : ℝ := eps - 2 * e0 - 3 * f * (eps - e0)
/-- real coefficients of the quadratic (random needles) -/
noncomputable def bN (f e0 eps : ℝ) : ℝ := eps - e0 - 5 / 3 * f * (eps - e0)
noncomputable def cN (f e0 eps : ℝ) : ℝ := -eps * (e0 + 1 / 3 * f * (eps - e0))

/-- the real value of PvS for spheres -/
noncomputable def pvsRealS (f e0 eps : ℝ) : ℝ :=
  (-bS f e0 eps + Real.sqrt (bS f e0 eps * bS f e0 eps - 4 * 2 * (-eps * e0))) / (2 * 2)
/-- the real value of PvS for random needles -/
noncomputable def pvsRealN (f e0 eps : ℝ) : ℝ :=
  (-bN f e0 eps + Real.sqrt (bN f e0 eps * bN f e0 eps - 4 * 1 * cN f e0 eps)) / (2 * 1)

theorem discS_pos {f e0 eps : ℝ} (h0 : 0 < e0) (he : 0 < eps) : 0 < bS f e0 eps * bS f e0 eps - 4 * 2 * (-eps * e0) := by
  nlinarith [mul_self_nonneg (bS f e0 eps), mul_pos he h0]

theorem cN_neg {f e0 eps : ℝ} (h0 : 0 < e0) (he : 0 < eps) (hf0 : 0 ≤ f) (hf1 : f ≤ 1) : cN f e0 eps < 0 := by
  unfold cN
  have : 0 < e0 + 1 / 3 * f * (eps - e0) := by nlinarith [mul_nonneg hf0 he.le, mul_nonneg (sub_nonneg.mpr hf1) h0.le]
  nlinarith [mul_pos he this]

theorem discN_pos {f e0 eps : ℝ} (h0 : 0 < e0) (he : 0 < eps) (hf0 : 0 ≤ f) (hf1 : f ≤ 1) :
    0 < bN f e0 eps * bN f e0 eps - 4 * 1 * cN f e0 eps := by
  nlinarith [mul_self_nonneg (bN f e0 eps), cN_neg h0 he hf0 hf1]

theorem pvs_spheres_real {csqrt : Cx ℝ → Cx ℝ} (hcs : IsCSqrt csqrt) {f e0 eps : ℝ} (h0 : 0 < e0) (he : 0 < eps) (hf1 : f ≤ 1) :
    pvsWith csqrt .spheres f ⟨e0, 0⟩ ⟨eps, 0⟩ = .ok ⟨pvsRealS f e0 eps, 0⟩ := by
  rw [pvsWith_spheres _ _ _ _ hf1]
  have hb : (⟨eps, 0⟩ - Cx.smul 2 ⟨e0, 0⟩ - Cx.smul (3 * f) (⟨eps, 0⟩ - ⟨e0, 0⟩) : Cx ℝ) = ⟨bS f e0 eps, 0⟩ := by
    apply toC_inj; simp only [toC_sub, toC_smul, toC_real, bS]; push_cast; ring
  have hc : ((-⟨eps, 0⟩) * ⟨e0, 0⟩ : Cx ℝ) = ⟨-eps * e0, 0⟩ := by
    apply toC_inj; simp only [toC_mul, toC_neg, toC_real]; push_cast; ring
  rw [hb, hc, quadRoot_real hcs _ _ _ (discS_pos h0 he)]
  rfl

theorem pvs_needles_real {csqrt : Cx ℝ → Cx ℝ} (hcs : IsCSqrt csqrt) {f e0 eps : ℝ} (h0 : 0 < e0) (he : 0 < eps)
    (hf0 : 0 ≤ f) (hf1 : f ≤ 1) :
    pvsWith csqrt .needles f ⟨e0, 0⟩ ⟨eps, 0⟩ = .ok ⟨pvsRealN f e0 eps, 0⟩ := by
  rw [pvsWith_needles _ _ _ _ hf1]
  have hb : (⟨eps, 0⟩ - ⟨e0, 0⟩ - Cx.smul (5 / 3 * f) (⟨eps, 0⟩ - ⟨e0, 0⟩) : Cx ℝ) = ⟨bN f e0 eps, 0⟩ := by
    apply toC_inj; simp only [toC_sub, toC_smul, toC_real, bN]; push_cast; ring
  have hc : ((-⟨eps, 0⟩) * (⟨e0, 0⟩ + Cx.smul (1 / 3 * f) (⟨eps, 0⟩ - ⟨e0, 0⟩)) : Cx ℝ) = ⟨cN f e0 eps, 0⟩ := by
    apply toC_inj; simp only [toC_mul, toC_neg, toC_add, toC_sub, toC_smul, toC_real, cN]; push_cast; ring
  rw [hb, hc, quadRoot_real hcs _ _ _ (discN_pos h0 he hf0 hf1)]
  rfl

/-- value of the spheres quadratic at the Maxwell Garnett (Hashin–Shtrikman) permittivity -/
theorem qS_at_mg {f e0 eps : ℝ} (hd : e0 + (1 - f) * (1 / 3) * (eps - e0) ≠ 0) :
    2 * mgReal f e0 eps (1 / 3) * mgReal f e0 eps (1 / 3) + bS f e0 eps * mgReal f e0 eps (1 / 3) + (-eps * e0)
      = -(2 / 3) * e0 * f ^ 2 * (1 - f) * (eps - e0) ^ 3 / (e0 + (1 - f) * (1 / 3) * (eps - e0)) ^ 2 := by
  unfold mgReal bS
  set d := e0 + (1 - f) * (1 / 3) * (eps - e0) with hdef
  field_simp
  rw [hdef]; ring

theorem bS_symm (f e0 eps : ℝ) : bS (1 - f) eps e0 = bS f e0 eps := by unfold bS; ring

theorem pvsRealS_nonneg {f e0 eps : ℝ} (h0 : 0 < e0) (he : 0 < eps) : 0 ≤ pvsRealS f e0 eps :=
  root_nonneg (by norm_num) (Real.sqrt_nonneg _) (Real.mul_self_sqrt (discS_pos h0 he).le) (by nlinarith [mul_pos he h0])

/-- Hashin–Shtrikman bounds for the Bruggeman/PvS value, `e0 ≤ eps` -/
theorem pvs_between_hs_real {f e0 eps : ℝ} (h0 : 0 < e0) (he : 0 < eps) (hf0 : 0 ≤ f) (hf1 : f ≤ 1) (hle : e0 ≤ eps) :
    mgReal f e0 eps (1 / 3) ≤ pvsRealS f e0 eps ∧ pvsRealS f e0 eps ≤ mgReal (1 - f) eps e0 (1 / 3) := by
  have hs := Real.mul_self_sqrt (discS_pos (f := f) h0 he).le
  have hd1 := mg_den_pos h0 he hf0 hf1 (A := 1 / 3) (by norm_num) (by norm_num)
  have hd2 := mg_den_pos he h0 (sub_nonneg.mpr hf1) (by linarith : 1 - f ≤ 1) (A := 1 / 3) (by norm_num) (by norm_num)
  constructor
  · apply le_root_of_nonpos (by norm_num : (0:ℝ) < 2) (Real.sqrt_nonneg _) hs
    have := qS_at_mg (f := f) (e0 := e0) (eps := eps) hd1.ne'
    have h2 : 0 ≤ (2 / 3) * e0 * f ^ 2 * (1 - f) * (eps - e0) ^ 3 / (e0 + (1 - f) * (1 / 3) * (eps - e0)) ^ 2 := by
      apply div_nonneg _ (by positivity)
      have := sub_nonneg.mpr hf1; have := sub_nonneg.mpr hle; positivity
    have h3 : -(2 / 3) * e0 * f ^ 2 * (1 - f) * (eps - e0) ^ 3 / (e0 + (1 - f) * (1 / 3) * (eps - e0)) ^ 2
        = -((2 / 3) * e0 * f ^ 2 * (1 - f) * (eps - e0) ^ 3 / (e0 + (1 - f) * (1 / 3) * (eps - e0)) ^ 2) := by ring
    rw [h3] at this
    linarith
  · unfold pvsRealS
    apply root_le_of_nonneg (by norm_num : (0:ℝ) < 2) (Real.sqrt_nonneg _) hs (by nlinarith [mul_pos he h0])
    · have := harm_le_mgReal he h0 (sub_nonneg.mpr hf1) (by linarith : 1 - f ≤ 1) (A := 1 / 3) (by norm_num) (by norm_num)
      have hpos : 0 < 1 / ((1 - (1 - f)) / eps + (1 - f) / e0) := by
        apply one_div_pos.mpr
        have h1 : 0 ≤ (1 - (1 - f)) / eps := div_nonneg (by linarith) he.le
        have h2 : 0 ≤ (1 - f) / e0 := div_nonneg (by linarith) h0.le
        by_cases hf : f = 0
        · subst hf; simp; exact h0
        · have : 0 < (1 - (1 - f)) / eps := div_pos (by rcases lt_or_eq_of_le hf0 with h | h; linarith; exact absurd h.symm hf) he
          linarith
      linarith
    · have := qS_at_mg (f := 1 - f) (e0 := eps) (eps := e0) hd2.ne'
      rw [bS_symm] at this
      have h2 : 0 ≤ (2 / 3) * eps * (1 - f) ^ 2 * f * (eps - e0) ^ 3 / (eps + (1 - (1 - f)) * (1 / 3) * (e0 - eps)) ^ 2 := by
        apply div_nonneg _ (by positivity)
        have := sub_nonneg.mpr hf1; have := sub_nonneg.mpr hle; positivity
      have h3 : -(2 / 3) * eps * (1 - f) ^ 2 * (1 - (1 - f)) * (e0 - eps) ^ 3 / (eps + (1 - (1 - f)) * (1 / 3) * (e0 - eps)) ^ 2
          = (2 / 3) * eps * (1 - f) ^ 2 * f * (eps - e0) ^ 3 / (eps + (1 - (1 - f)) * (1 / 3) * (e0 - eps)) ^ 2 := by
        congr 1; ring
      rw [h3] at this
      have hc : -e0 * eps = -eps * e0 := by ring
      rw [hc] at this
      linarith

/-- PvS (spheres) is monotone in the fractional volume, increasing when `e0 ≤ eps` -/
theorem pvsRealS_mono {f g e0 eps : ℝ} (h0 : 0 < e0) (he : 0 < eps) (hfg : f ≤ g) (hle : e0 ≤ eps) :
    pvsRealS f e0 eps ≤ pvsRealS g e0 eps := by
  have hsf := Real.mul_self_sqrt (discS_pos (f := f) h0 he).le
  have hsg := Real.mul_self_sqrt (discS_pos (f := g) h0 he).le
  have hx0 := pvsRealS_nonneg (f := f) h0 he
  have hroot : 2 * pvsRealS f e0 eps * pvsRealS f e0 eps + bS f e0 eps * pvsRealS f e0 eps + -eps * e0 = 0 :=
    root_is_root (a := 2) (by norm_num) hsf
  apply le_root_of_nonpos (by norm_num : (0:ℝ) < 2) (Real.sqrt_nonneg _) hsg
  have hb : bS g e0 eps = bS f e0 eps - 3 * (g - f) * (eps - e0) := by unfold bS; ring
  rw [hb]
  nlinarith [mul_nonneg (mul_nonneg (sub_nonneg.mpr hfg) (sub_nonneg.mpr hle)) hx0]

theorem pvsRealS_anti {f g e0 eps : ℝ} (h0 : 0 < e0) (he : 0 < eps) (hfg : f ≤ g) (hle : eps ≤ e0) :
    pvsRealS g e0 eps ≤ pvsRealS f e0 eps := by
  have hsf := Real.mul_self_sqrt (discS_pos (f := f) h0 he).le
  have hsg := Real.mul_self_sqrt (discS_pos (f := g) h0 he).le
  have hx0 := pvsRealS_nonneg (f := g) h0 he
  have hroot : 2 * pvsRealS g e0 eps * pvsRealS g e0 eps + bS g e0 eps * pvsRealS g e0 eps + -eps * e0 = 0 :=
    root_is_root (a := 2) (by norm_num) hsg
  apply le_root_of_nonpos (by norm_num : (0:ℝ) < 2) (Real.sqrt_nonneg _) hsf
  have hb : bS f e0 eps = bS g e0 eps + 3 * (g - f) * (eps - e0) := by unfold bS; ring
  rw [hb]
  nlinarith [mul_nonneg (mul_nonneg (sub_nonneg.mpr hfg) (sub_nonneg.mpr hle)) hx0]


/-! ### Maxwell Garnett identities -/

theorem ne_czero_iff (a : Cx ℝ) : a ≠ czero ↔ toC a ≠ 0 := not_congr (eq_czero_iff a)

theorem mgMean_iso (f : ℝ) (e0 eps : Cx ℝ) : mgMean f e0 eps (1 / 3, 1 / 3, 1 / 3) = mgComponent f e0 eps (1 / 3) := by
  apply toC_inj
  simp only [mgMean, toC_sdiv, toC_add]
  push_cast; ring

theorem mgSpheres_eq_component (f : ℝ) (e0 eps : Cx ℝ)
    (hD : eps + Cx.smul 2 e0 - Cx.smul f (eps - e0) ≠ czero) :
    mgSpheres f e0 eps = mgComponent f e0 eps (1 / 3) := by
  rw [ne_czero_iff] at hD
  apply toC_inj
  simp only [mgSpheres, mgComponent, toC_mul, toC_div, toC_add, toC_sub, toC_smul, toC_cone] at hD ⊢
  set E := toC eps; set E0 := toC e0
  push_cast at hD ⊢
  have h3 : E0 + (1 - (f : ℂ)) * (1 / 3) * (E - E0) = (E + 2 * E0 - f * (E - E0)) / 3 := by ring
  rw [h3]
  set D := E + 2 * E0 - ↑f * (E - E0) with hDdef
  field_simp
  rw [hDdef]; ring

theorem hs_eq_mgSpheres (f : ℝ) (e0 eps : Cx ℝ)
    (hD : eps + Cx.smul 2 e0 - Cx.smul f (eps - e0) ≠ czero) (hP : eps + Cx.smul 2 e0 ≠ czero) :
    hashinShtrikman f e0 eps = mgSpheres f e0 eps := by
  rw [ne_czero_iff] at hD hP
  apply toC_inj
  simp only [mgSpheres, hashinShtrikman, toC_mul, toC_div, toC_add, toC_sub, toC_smul, toC_cone] at hD hP ⊢
  set E := toC eps; set E0 := toC e0
  push_cast at hD hP ⊢
  set P := E + 2 * E0 with hPdef
  have h1 : (1 : ℂ) - (f : ℂ) * ((E - E0) / P) = (P - f * (E - E0)) / P := by
    field_simp
  rw [h1]
  set D := P - ↑f * (E - E0) with hDdef
  field_simp
  rw [hDdef, hPdef]; ring

theorem mgComponent_f0 (e0 eps : Cx ℝ) (A : ℝ) : mgComponent 0 e0 eps A = e0 := by
  apply toC_inj
  simp only [mgComponent, toC_mul, toC_div, toC_add, toC_sub, toC_smul, toC_cone]
  push_cast; simp

theorem mgComponent_f1 (e0 eps : Cx ℝ) (A : ℝ) (h0 : e0 ≠ czero) : mgComponent 1 e0 eps A = eps := by
  rw [ne_czero_iff] at h0
  apply toC_inj
  simp only [mgComponent, toC_mul, toC_div, toC_add, toC_sub, toC_smul, toC_cone]
  push_cast; simp only [sub_self, zero_mul, add_zero, one_mul]
  field_simp; ring

/-! ### three components -/

theorem resid3Sph_f2_zero (f1 : ℝ) (e0 e1 e2 x : Cx ℝ) : resid3Sph f1 0 e0 e1 e2 x = resid2Sph f1 e0 e1 x := by
  apply toC_inj
  simp only [resid3Sph, resid2Sph, toC_mul, toC_div, toC_add, toC_sub, toC_smul, toC_cone]
  push_cast; simp

theorem resid3Sph_f1_zero (f2 : ℝ) (e0 e1 e2 x : Cx ℝ) : resid3Sph 0 f2 e0 e1 e2 x = resid2Sph f2 e0 e2 x := by
  apply toC_inj
  simp only [resid3Sph, resid2Sph, toC_mul, toC_div, toC_add, toC_sub, toC_smul, toC_cone]
  push_cast; simp

theorem resid3Gen_f2_zero (f1 : ℝ) (e0 e1 e2 x : Cx ℝ) (A1 A2 : List ℝ) :
    resid3Gen f1 0 e0 e1 e2 A1 A2 x = resid2Gen f1 e0 e1 A1 x := by
  apply toC_inj
  simp only [resid3Gen, resid2Gen, toC_mul, toC_sub, toC_smul, toC_cone]
  push_cast; simp

theorem resid3Gen_f1_zero (f2 : ℝ) (e0 e1 e2 x : Cx ℝ) (A1 A2 : List ℝ) :
    resid3Gen 0 f2 e0 e1 e2 A1 A2 x = resid2Gen f2 e0 e2 A2 x := by
  apply toC_inj
  simp only [resid3Gen, resid2Gen, toC_mul, toC_sub, toC_smul, toC_cone]
  push_cast; simp

/-- the spheres root of PvS is a zero of the two-component residual -/
theorem resid2Sph_root (csqrt : Cx ℝ → Cx ℝ) (hs : ∀ z, csqrt z * csqrt z = z) (f : ℝ) (e0 eps : Cx ℝ)
    (hden : Cx.smul 2 (quadRoot csqrt 2 (eps - Cx.smul 2 e0 - Cx.smul (3 * f) (eps - e0)) ((-eps) * e0)) + eps ≠ czero) :
    resid2Sph f e0 eps (quadRoot csqrt 2 (eps - Cx.smul 2 e0 - Cx.smul (3 * f) (eps - e0)) ((-eps) * e0)) = czero := by
  have hq := congrArg toC (quadRoot_solves csqrt hs 2 (by norm_num) (eps - Cx.smul 2 e0 - Cx.smul (3 * f) (eps - e0)) ((-eps) * e0))
  set x := quadRoot csqrt 2 (eps - Cx.smul 2 e0 - Cx.smul (3 * f) (eps - e0)) ((-eps) * e0)
  rw [ne_czero_iff] at hden
  rw [eq_czero_iff]
  simp only [resid2Sph, toC_mul, toC_div, toC_add, toC_sub, toC_smul, toC_cone, toC_neg, toC_czero] at hq hden ⊢
  push_cast at hq hden ⊢
  set X := toC x
  set Dn := 2 * X + toC eps with hDn
  field_simp
  rw [hDn]
  linear_combination hq

/-- the general two-component residual with isotropic depolarisation is the spherical one -/
theorem resid2Gen_iso (f : ℝ) (e0 eps x : Cx ℝ) :
    resid2Gen f e0 eps [1 / 3, 1 / 3, 1 / 3] x = resid2Sph f e0 eps x := by
  apply toC_inj
  simp only [resid2Gen, resid2Sph, sumInv, List.foldl, toC_mul, toC_div, toC_add, toC_sub, toC_smul, toC_cone, toC_czero]
  set X := toC x; set E := toC eps; set E0 := toC e0
  push_cast
  have h3 : X + (1 / 3 : ℂ) * (E - X) = (2 * X + E) / 3 := by ring
  rw [h3]
  field_simp
  ring

/-- the needles root of PvS is a zero of the general two-component residual with depolarisation (1/2, 1/2, 0) -/
theorem resid2Gen_needles_root (csqrt : Cx ℝ → Cx ℝ) (hs : ∀ z, csqrt z * csqrt z = z) (f : ℝ) (e0 eps : Cx ℝ)
    (x : Cx ℝ) (hx : x = quadRoot csqrt 1 (eps - e0 - Cx.smul (5 / 3 * f) (eps - e0)) ((-eps) * (e0 + Cx.smul (1 / 3 * f) (eps - e0))))
    (hx0 : x ≠ czero) (hden : x + eps ≠ czero) :
    resid2Gen f e0 eps [1 / 2, 1 / 2, 0] x = czero := by
  have hq := congrArg toC (quadRoot_solves csqrt hs 1 (by norm_num) (eps - e0 - Cx.smul (5 / 3 * f) (eps - e0))
    ((-eps) * (e0 + Cx.smul (1 / 3 * f) (eps - e0))))
  rw [← hx] at hq
  rw [ne_czero_iff] at hden hx0
  rw [eq_czero_iff]
  simp only [resid2Gen, sumInv, List.foldl, toC_mul, toC_div, toC_add, toC_sub, toC_smul, toC_cone, toC_neg, toC_czero] at hq hden ⊢
  set X := toC x; set E := toC eps; set E0 := toC e0
  push_cast at hq ⊢
  have h2 : X + (1 / 2 : ℂ) * (E - X) = (X + E) / 2 := by ring
  have h0 : X + (0 : ℂ) * (E - X) = X := by ring
  rw [h2, h0]
  field_simp
  linear_combination (3 : ℂ) * hq

/-! ### mixtures -/

theorem foldl_add_sum (a : ℝ) (rs : List ℝ) : rs.foldl (· + ·) a = a + rs.sum := by
  induction rs generalizing a with
  | nil => simp
  | cons r rs ih => simp [List.foldl, ih, add_assoc]

theorem mixWeights_deduced (rs : List ℝ) (n : ℕ) (h : rs.length + 1 = n) :
    ∃ ws, mixWeights n rs = .ok ws ∧ ws.length = n ∧ ws.sum = 1 := by
  refine ⟨rs ++ [1 - rs.foldl (· + ·) 0], by simp [mixWeights, h], by simp [h], ?_⟩
  rw [foldl_add_sum]; simp

theorem mixSum_foldl (acc : Cx ℝ) (ps : List (ℝ × Cx ℝ)) :
    toC (ps.foldl (fun acc p => acc + Cx.smul p.1 p.2) acc) = toC acc + (ps.map (fun p => (p.1 : ℂ) * toC p.2)).sum := by
  induction ps generalizing acc with
  | nil => simp
  | cons p ps ih => simp [List.foldl, ih, add_assoc]

/-- a mixture is the weighted sum of its components -/
theorem toC_mixSum (ps : List (ℝ × Cx ℝ)) : toC (mixSum ps) = (ps.map (fun p => (p.1 : ℂ) * toC p.2)).sum := by
  unfold mixSum; rw [mixSum_foldl]; simp


/-! ### further lemmas used by the property theorems -/

/-- the Bruggeman form of the mixing equation follows from the quadratic -/
theorem bruggeman_of_quadratic (f : ℝ) (e0 eps x : Cx ℝ)
    (hq : Cx.smul 2 (x * x) + (eps - Cx.smul 2 e0 - Cx.smul (3 * f) (eps - e0)) * x + (-eps) * e0 = czero)
    (hd0 : e0 + Cx.smul 2 x ≠ czero) (hd1 : eps + Cx.smul 2 x ≠ czero) :
    Cx.smul (1 - f) ((e0 - x) / (e0 + Cx.smul 2 x)) + Cx.smul f ((eps - x) / (eps + Cx.smul 2 x)) = czero := by
  rw [ne_czero_iff] at hd0 hd1
  rw [eq_czero_iff] at hq ⊢
  simp only [toC_mul, toC_div, toC_add, toC_sub, toC_smul, toC_neg] at hq hd0 hd1 ⊢
  push_cast at hq hd0 hd1 ⊢
  set X := toC x; set E := toC eps; set E0 := toC e0
  set D0 := E0 + 2 * X with hD0
  set D1 := E + 2 * X with hD1
  field_simp
  rw [hD0, hD1]
  linear_combination (-1 : ℂ) * hq

theorem mgMean_real (f e0 eps A1 A2 A3 : ℝ) :
    mgMean f ⟨e0, 0⟩ ⟨eps, 0⟩ (A1, A2, A3) = ⟨(mgReal f e0 eps A1 + mgReal f e0 eps A2 + mgReal f e0 eps A3) / 3, 0⟩ := by
  apply toC_inj
  simp only [mgMean, mgComponent_real, toC_sdiv, toC_add, toC_real]
  push_cast; ring

theorem mgSpheres_real {f e0 eps : ℝ} (h0 : 0 < e0) (he : 0 < eps) (hf0 : 0 ≤ f) (hf1 : f ≤ 1) :
    mgSpheres f ⟨e0, 0⟩ ⟨eps, 0⟩ = ⟨mgReal f e0 eps (1 / 3), 0⟩ := by
  rw [mgSpheres_eq_component, mgComponent_real]
  rw [ne_czero_iff]
  simp only [toC_add, toC_sub, toC_smul, toC_real]
  have hd := mg_den_pos h0 he hf0 hf1 (A := 1 / 3) (by norm_num) (by norm_num)
  have : ((eps : ℂ) + ((2 : ℝ) : ℂ) * (e0 : ℂ) - (f : ℂ) * ((eps : ℂ) - (e0 : ℂ))) = ((3 * (e0 + (1 - f) * (1 / 3) * (eps - e0)) : ℝ) : ℂ) := by
    push_cast; ring
  rw [this]
  exact_mod_cast (by positivity : (3 * (e0 + (1 - f) * (1 / 3) * (eps - e0))) ≠ 0)

theorem mgReal_mono {f g e0 eps A : ℝ} (h0 : 0 < e0) (he : 0 < eps) (hf0 : 0 ≤ f) (hfg : f ≤ g) (hg1 : g ≤ 1)
    (hA0 : 0 ≤ A) (hA1 : A ≤ 1) (hle : e0 ≤ eps) : mgReal f e0 eps A ≤ mgReal g e0 eps A := by
  have hd1 := mg_den_pos h0 he hf0 (hfg.trans hg1) hA0 hA1
  have hd2 := mg_den_pos h0 he (hf0.trans hfg) hg1 hA0 hA1
  have := mgReal_diff (f := f) (g := g) (e0 := e0) (eps := eps) (A := A) hd1.ne' hd2.ne'
  have h2 : 0 ≤ e0 * (eps - e0) * (g - f) * ((1 - A) * e0 + A * eps)
      / ((e0 + (1 - f) * A * (eps - e0)) * (e0 + (1 - g) * A * (eps - e0))) := by
    apply div_nonneg _ (mul_pos hd1 hd2).le
    have := sub_nonneg.mpr hle; have := sub_nonneg.mpr hfg; have := sub_nonneg.mpr hA1; positivity
  linarith

theorem mgReal_anti {f g e0 eps A : ℝ} (h0 : 0 < e0) (he : 0 < eps) (hf0 : 0 ≤ f) (hfg : f ≤ g) (hg1 : g ≤ 1)
    (hA0 : 0 ≤ A) (hA1 : A ≤ 1) (hle : eps ≤ e0) : mgReal g e0 eps A ≤ mgReal f e0 eps A := by
  have hd1 := mg_den_pos h0 he hf0 (hfg.trans hg1) hA0 hA1
  have hd2 := mg_den_pos h0 he (hf0.trans hfg) hg1 hA0 hA1
  have := mgReal_diff (f := f) (g := g) (e0 := e0) (eps := eps) (A := A) hd1.ne' hd2.ne'
  have h2 : 0 ≤ e0 * (e0 - eps) * (g - f) * ((1 - A) * e0 + A * eps)
      / ((e0 + (1 - f) * A * (eps - e0)) * (e0 + (1 - g) * A * (eps - e0))) := by
    apply div_nonneg _ (mul_pos hd1 hd2).le
    have := sub_nonneg.mpr hle; have := sub_nonneg.mpr hfg; have := sub_nonneg.mpr hA1; positivity
  have h3 : e0 * (eps - e0) * (g - f) * ((1 - A) * e0 + A * eps)
      / ((e0 + (1 - f) * A * (eps - e0)) * (e0 + (1 - g) * A * (eps - e0)))
      = -(e0 * (e0 - eps) * (g - f) * ((1 - A) * e0 + A * eps)
      / ((e0 + (1 - f) * A * (eps - e0)) * (e0 + (1 - g) * A * (eps - e0)))) := by ring
  linarith

theorem pvsRealS_symm (f e0 eps : ℝ) : pvsRealS (1 - f) eps e0 = pvsRealS f e0 eps := by
  unfold pvsRealS
  rw [bS_symm]
  have : -e0 * eps = -eps * e0 := by ring
  rw [this]

/-! ### random needles, loss-free: monotone, and below the arithmetic mean -/

theorem pvsRealN_nonneg {f e0 eps : ℝ} (h0 : 0 < e0) (he : 0 < eps) (hf0 : 0 ≤ f) (hf1 : f ≤ 1) : 0 ≤ pvsRealN f e0 eps :=
  root_nonneg (by norm_num) (Real.sqrt_nonneg _) (Real.mul_self_sqrt (discN_pos h0 he hf0 hf1).le) (cN_neg h0 he hf0 hf1).le

theorem pvsRealN_le_arith {f e0 eps : ℝ} (h0 : 0 < e0) (he : 0 < eps) (hf0 : 0 ≤ f) (hf1 : f ≤ 1) :
    pvsRealN f e0 eps ≤ (1 - f) * e0 + f * eps := by
  have hs := Real.mul_self_sqrt (discN_pos h0 he hf0 hf1).le
  apply root_le_of_nonneg (by norm_num : (0:ℝ) < 1) (Real.sqrt_nonneg _) hs (cN_neg h0 he hf0 hf1)
  · nlinarith [mul_nonneg (sub_nonneg.mpr hf1) h0.le, mul_nonneg hf0 he.le]
  · have : 1 * ((1 - f) * e0 + f * eps) * ((1 - f) * e0 + f * eps) + bN f e0 eps * ((1 - f) * e0 + f * eps) + cN f e0 eps
        = 2 / 3 * f * (1 - f) * (eps - e0) ^ 2 := by unfold bN cN; ring
    rw [this]
    have := sub_nonneg.mpr hf1; positivity

theorem pvsRealN_mono {f g e0 eps : ℝ} (h0 : 0 < e0) (he : 0 < eps) (hf0 : 0 ≤ f) (hfg : f ≤ g) (hg1 : g ≤ 1) (hle : e0 ≤ eps) :
    pvsRealN f e0 eps ≤ pvsRealN g e0 eps := by
  have hsf := Real.mul_self_sqrt (discN_pos h0 he hf0 (hfg.trans hg1)).le
  have hsg := Real.mul_self_sqrt (discN_pos h0 he (hf0.trans hfg) hg1).le
  have hx0 := pvsRealN_nonneg h0 he hf0 (hfg.trans hg1)
  have hroot : 1 * pvsRealN f e0 eps * pvsRealN f e0 eps + bN f e0 eps * pvsRealN f e0 eps + cN f e0 eps = 0 :=
    root_is_root (a := 1) (by norm_num) hsf
  apply le_root_of_nonpos (by norm_num : (0:ℝ) < 1) (Real.sqrt_nonneg _) hsg
  have hb : bN g e0 eps = bN f e0 eps - 5 / 3 * (g - f) * (eps - e0) := by unfold bN; ring
  have hc : cN g e0 eps = cN f e0 eps - 1 / 3 * eps * (g - f) * (eps - e0) := by unfold cN; ring
  rw [hb, hc]
  have h1 : 0 ≤ (g - f) * (eps - e0) := mul_nonneg (sub_nonneg.mpr hfg) (sub_nonneg.mpr hle)
  nlinarith [mul_nonneg h1 hx0, mul_nonneg h1 he.le]

theorem pvsRealN_anti {f g e0 eps : ℝ} (h0 : 0 < e0) (he : 0 < eps) (hf0 : 0 ≤ f) (hfg : f ≤ g) (hg1 : g ≤ 1) (hle : eps ≤ e0) :
    pvsRealN g e0 eps ≤ pvsRealN f e0 eps := by
  have hsf := Real.mul_self_sqrt (discN_pos h0 he hf0 (hfg.trans hg1)).le
  have hsg := Real.mul_self_sqrt (discN_pos h0 he (hf0.trans hfg) hg1).le
  have hx0 := pvsRealN_nonneg h0 he (hf0.trans hfg) hg1
  have hroot : 1 * pvsRealN g e0 eps * pvsRealN g e0 eps + bN g e0 eps * pvsRealN g e0 eps + cN g e0 eps = 0 :=
    root_is_root (a := 1) (by norm_num) hsg
  apply le_root_of_nonpos (by norm_num : (0:ℝ) < 1) (Real.sqrt_nonneg _) hsf
  have hb : bN f e0 eps = bN g e0 eps - 5 / 3 * (g - f) * (e0 - eps) := by unfold bN; ring
  have hc : cN f e0 eps = cN g e0 eps - 1 / 3 * eps * (g - f) * (e0 - eps) := by unfold cN; ring
  rw [hb, hc]
  have h1 : 0 ≤ (g - f) * (e0 - eps) := mul_nonneg (sub_nonneg.mpr hfg) (sub_nonneg.mpr hle)
  nlinarith [mul_nonneg h1 hx0, mul_nonneg h1 he.le]

/-- value of the needles quadratic at the Maxwell Garnett (Hashin–Shtrikman) permittivity of the same mixture -/
theorem qN_at_mg {f e0 eps : ℝ} (hd : e0 + (1 - f) * (1 / 3) * (eps - e0) ≠ 0) :
    1 * mgReal f e0 eps (1 / 3) * mgReal f e0 eps (1 / 3) + bN f e0 eps * mgReal f e0 eps (1 / 3) + cN f e0 eps
      = -(f * (1 - f) * (eps - e0) ^ 3 * (10 * e0 * f + 2 * e0 + eps * (1 - f)) / 27) / (e0 + (1 - f) * (1 / 3) * (eps - e0)) ^ 2 := by
  unfold mgReal bN cN
  set d := e0 + (1 - f) * (1 / 3) * (eps - e0) with hdef
  field_simp
  rw [hdef]; ring

/-- … and at the Maxwell Garnett permittivity of the phase-inverted mixture -/
theorem qN_at_mg_inv {f e0 eps : ℝ} (hd : eps + (1 - (1 - f)) * (1 / 3) * (e0 - eps) ≠ 0) :
    1 * mgReal (1 - f) eps e0 (1 / 3) * mgReal (1 - f) eps e0 (1 / 3) + bN f e0 eps * mgReal (1 - f) eps e0 (1 / 3) + cN f e0 eps
      = (eps * f * (1 - f) ^ 2 * (eps - e0) ^ 3 / 3) / (eps + (1 - (1 - f)) * (1 / 3) * (e0 - eps)) ^ 2 := by
  unfold mgReal bN cN
  set d := eps + (1 - (1 - f)) * (1 / 3) * (e0 - eps) with hdef
  field_simp
  rw [hdef]; ring

theorem mgReal_nonneg {f e0 eps A : ℝ} (h0 : 0 < e0) (he : 0 < eps) (hf0 : 0 ≤ f) (hf1 : f ≤ 1) (hA0 : 0 ≤ A) (hA1 : A ≤ 1) :
    0 ≤ mgReal f e0 eps A := by
  have hd := mg_den_pos h0 he hf0 hf1 hA0 hA1
  unfold mgReal
  have : 1 + f * (eps - e0) / (e0 + (1 - f) * A * (eps - e0)) = (e0 + (1 - f) * A * (eps - e0) + f * (eps - e0)) / (e0 + (1 - f) * A * (eps - e0)) := by
    rw [add_div, div_self hd.ne']
  rw [this]
  apply mul_nonneg h0.le
  apply div_nonneg _ hd.le
  -- e0 + ((1-f) A + f)(eps - e0) is a convex combination of e0 and eps
  have hw0 : 0 ≤ (1 - f) * A + f := by nlinarith
  have hw1 : (1 - f) * A + f ≤ 1 := by nlinarith
  nlinarith

/-- Hashin–Shtrikman bounds for the random-needles Polder–van Santen value -/
theorem pvsN_between_hs_real {f e0 eps : ℝ} (h0 : 0 < e0) (he : 0 < eps) (hf0 : 0 ≤ f) (hf1 : f ≤ 1) :
    (e0 ≤ eps → mgReal f e0 eps (1 / 3) ≤ pvsRealN f e0 eps ∧ pvsRealN f e0 eps ≤ mgReal (1 - f) eps e0 (1 / 3)) ∧
    (eps ≤ e0 → mgReal (1 - f) eps e0 (1 / 3) ≤ pvsRealN f e0 eps ∧ pvsRealN f e0 eps ≤ mgReal f e0 eps (1 / 3)) := by
  have hs := Real.mul_self_sqrt (discN_pos (f := f) h0 he hf0 hf1).le
  have hc := cN_neg (f := f) h0 he hf0 hf1
  have hd1 := mg_den_pos h0 he hf0 hf1 (A := 1 / 3) (by norm_num) (by norm_num)
  have hd2 := mg_den_pos he h0 (sub_nonneg.mpr hf1) (by linarith : 1 - f ≤ 1) (A := 1 / 3) (by norm_num) (by norm_num)
  have q1 := qN_at_mg (f := f) (e0 := e0) (eps := eps) hd1.ne'
  have q2 := qN_at_mg_inv (f := f) (e0 := e0) (eps := eps) hd2.ne'
  have m1nn := mgReal_nonneg h0 he hf0 hf1 (A := 1 / 3) (by norm_num) (by norm_num)
  have m2nn := mgReal_nonneg he h0 (sub_nonneg.mpr hf1) (by linarith : 1 - f ≤ 1) (A := 1 / 3) (by norm_num) (by norm_num)
  have hP : 0 < 10 * e0 * f + 2 * e0 + eps * (1 - f) := by nlinarith [mul_nonneg he.le (sub_nonneg.mpr hf1), mul_nonneg h0.le hf0]
  have h1f := sub_nonneg.mpr hf1
  constructor
  · intro hle
    have hde := sub_nonneg.mpr hle
    constructor
    · apply le_root_of_nonpos (by norm_num : (0:ℝ) < 1) (Real.sqrt_nonneg _) hs
      rw [q1]
      apply div_nonpos_of_nonpos_of_nonneg _ (by positivity)
      have : 0 ≤ f * (1 - f) * (eps - e0) ^ 3 * (10 * e0 * f + 2 * e0 + eps * (1 - f)) / 27 := by positivity
      linarith
    · unfold pvsRealN
      apply root_le_of_nonneg (by norm_num : (0:ℝ) < 1) (Real.sqrt_nonneg _) hs hc m2nn
      rw [q2]
      apply div_nonneg _ (by positivity)
      positivity
  · intro hle
    have hde : eps - e0 ≤ 0 := sub_nonpos.mpr hle
    have hcube : (eps - e0) ^ 3 ≤ 0 := by
      have : (eps - e0) ^ 3 = (eps - e0) * (eps - e0) ^ 2 := by ring
      rw [this]; exact mul_nonpos_of_nonpos_of_nonneg hde (sq_nonneg _)
    constructor
    · apply le_root_of_nonpos (by norm_num : (0:ℝ) < 1) (Real.sqrt_nonneg _) hs
      rw [q2]
      apply div_nonpos_of_nonpos_of_nonneg _ (by positivity)
      have : eps * f * (1 - f) ^ 2 * (eps - e0) ^ 3 = (eps * f * (1 - f) ^ 2) * (eps - e0) ^ 3 := by ring
      rw [this]
      apply div_nonpos_of_nonpos_of_nonneg _ (by norm_num)
      exact mul_nonpos_of_nonneg_of_nonpos (by positivity) hcube
    · unfold pvsRealN
      apply root_le_of_nonneg (by norm_num : (0:ℝ) < 1) (Real.sqrt_nonneg _) hs hc m1nn
      rw [q1]
      apply div_nonneg _ (by positivity)
      have : f * (1 - f) * (eps - e0) ^ 3 * (10 * e0 * f + 2 * e0 + eps * (1 - f)) / 27
          = (f * (1 - f) * (10 * e0 * f + 2 * e0 + eps * (1 - f)) / 27) * (eps - e0) ^ 3 := by ring
      rw [this]
      have : (f * (1 - f) * (10 * e0 * f + 2 * e0 + eps * (1 - f)) / 27) * (eps - e0) ^ 3 ≤ 0 :=
        mul_nonpos_of_nonneg_of_nonpos (by positivity) hcube
      linarith

/-- **Maxwell Garnett (spheres) of two passive media is passive**: `Im ε_eff ≥ 0` whenever both constituents have a positive real part
    and a non-negative imaginary part, for every fractional volume in `[0, 1]` -/
theorem mgSpheres_im_nonneg (f a b c d : ℝ) (hf0 : 0 ≤ f) (hf1 : f ≤ 1) (ha : 0 < a) (hc : 0 < c) (hb : 0 ≤ b) (hd : 0 ≤ d) :
    0 ≤ (mgSpheres f ⟨a, b⟩ ⟨c, d⟩).im := by
  have hDr : 0 < (1 - f) * c + (2 + f) * a := by nlinarith
  have hden : 0 < ((1 - f) * c + (2 + f) * a) ^ 2 + ((1 - f) * d + (2 + f) * b) ^ 2 := by positivity
  have key : (mgSpheres f ⟨a, b⟩ ⟨c, d⟩).im
      = (9 * a ^ 2 * d * f + b ^ 3 * (2 * (1 - f) * (2 + f)) + b ^ 2 * d * (4 + f + 4 * f ^ 2)
          + b * (a ^ 2 * (2 * (1 - f) * (2 + f)) + 4 * a * c * (1 - f) ^ 2 + c ^ 2 * ((1 - f) * (1 + 2 * f)) + d ^ 2 * ((1 - f) * (1 + 2 * f))))
        / (((1 - f) * c + (2 + f) * a) ^ 2 + ((1 - f) * d + (2 + f) * b) ^ 2) := by
    show (Cx.mul (Cx.div (Cx.add (Cx.add ⟨c, d⟩ (Cx.smul 2 ⟨a, b⟩)) (Cx.smul 2 (Cx.smul f (Cx.sub ⟨c, d⟩ ⟨a, b⟩))))
        (Cx.sub (Cx.add ⟨c, d⟩ (Cx.smul 2 ⟨a, b⟩)) (Cx.smul f (Cx.sub ⟨c, d⟩ ⟨a, b⟩)))) ⟨a, b⟩).im = _
    simp only [Cx.mul, Cx.div, Cx.add, Cx.sub, Cx.smul]
    have hden' : (c + 2 * a - f * (c - a)) * (c + 2 * a - f * (c - a)) + (d + 2 * b - f * (d - b)) * (d + 2 * b - f * (d - b))
        = ((1 - f) * c + (2 + f) * a) ^ 2 + ((1 - f) * d + (2 + f) * b) ^ 2 := by ring
    rw [hden']
    field_simp
    ring
  rw [key]
  apply div_nonneg _ hden.le
  have h1f : 0 ≤ 1 - f := by linarith
  positivity

theorem mgSpheres_re_pos (f a b c d : ℝ) (hf0 : 0 ≤ f) (hf1 : f ≤ 1) (ha : 0 < a) (hc : 0 < c) (hb : 0 ≤ b) (hd : 0 ≤ d) :
    0 < (mgSpheres f ⟨a, b⟩ ⟨c, d⟩).re := by
  have hDr : 0 < (1 - f) * c + (2 + f) * a := by nlinarith
  have hden : 0 < ((1 - f) * c + (2 + f) * a) ^ 2 + ((1 - f) * d + (2 + f) * b) ^ 2 := by positivity
  have key : (mgSpheres f ⟨a, b⟩ ⟨c, d⟩).re
      = (a ^ 3 * (2 * (1 - f) * (2 + f)) + a ^ 2 * c * (4 + f + 4 * f ^ 2)
          + a * (b ^ 2 * (2 * (1 - f) * (2 + f)) + 4 * b * d * (1 - f) ^ 2 + c ^ 2 * ((1 - f) * (1 + 2 * f)) + d ^ 2 * ((1 - f) * (1 + 2 * f)))
          + 9 * b ^ 2 * c * f)
        / (((1 - f) * c + (2 + f) * a) ^ 2 + ((1 - f) * d + (2 + f) * b) ^ 2) := by
    show (Cx.mul (Cx.div (Cx.add (Cx.add ⟨c, d⟩ (Cx.smul 2 ⟨a, b⟩)) (Cx.smul 2 (Cx.smul f (Cx.sub ⟨c, d⟩ ⟨a, b⟩))))
        (Cx.sub (Cx.add ⟨c, d⟩ (Cx.smul 2 ⟨a, b⟩)) (Cx.smul f (Cx.sub ⟨c, d⟩ ⟨a, b⟩)))) ⟨a, b⟩).re = _
    simp only [Cx.mul, Cx.div, Cx.add, Cx.sub, Cx.smul]
    have hden' : (c + 2 * a - f * (c - a)) * (c + 2 * a - f * (c - a)) + (d + 2 * b - f * (d - b)) * (d + 2 * b - f * (d - b))
        = ((1 - f) * c + (2 + f) * a) ^ 2 + ((1 - f) * d + (2 + f) * b) ^ 2 := by ring
    rw [hden']
    field_simp
    ring
  rw [key]
  apply div_pos _ hden
  have h1f : 0 ≤ 1 - f := by linarith
  have t2 : 0 < a ^ 2 * c * (4 + f + 4 * f ^ 2) := by positivity
  have t1 : 0 ≤ a ^ 3 * (2 * (1 - f) * (2 + f)) := by positivity
  have t3 : 0 ≤ a * (b ^ 2 * (2 * (1 - f) * (2 + f)) + 4 * b * d * (1 - f) ^ 2 + c ^ 2 * ((1 - f) * (1 + 2 * f)) + d ^ 2 * ((1 - f) * (1 + 2 * f))) := by positivity
  have t4 : 0 ≤ 9 * b ^ 2 * c * f := by positivity
  linarith

end Smrt.Mixing
