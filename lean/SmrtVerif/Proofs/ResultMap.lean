/- helper lemmas for the finite-map model of results (C19) -/
import SmrtVerif.Model.ResultMap
import SmrtVerif.Proofs.RealTransc
import Mathlib.Data.List.Nodup
import Mathlib.Data.List.Zip
import Mathlib.Analysis.SpecialFunctions.Log.Base
import Mathlib.Analysis.SpecialFunctions.Trigonometric.Basic

namespace Smrt.RM

theorem hasDup_eq_false_iff (l : List String) : hasDup l = false ↔ l.Nodup := by
  induction l with
  | nil => simp [hasDup]
  | cons x xs ih => simp [hasDup, List.nodup_cons, ih]

namespace Res
variable {α : Type}

/-- when every dimension is fixed, a key of the right length is kept iff it is the fixed tuple -/
theorem keep_iff_eq (dims : List String) (fix : Fix) (k : Key) (hlen : k.length = dims.length)
    (hall : ∀ d ∈ dims, (fix.lookup d).isSome = true) :
    keep dims fix k = true ↔ k = dims.map (fun d => (fix.lookup d).getD "") := by
  induction dims generalizing k with
  | nil =>
    cases k with
    | nil => simp [keep]
    | cons a t => simp at hlen
  | cons d ds ih =>
    cases k with
    | nil => simp at hlen
    | cons a t =>
      have hd : (fix.lookup d).isSome = true := hall d (by simp)
      obtain ⟨v, hv⟩ := Option.isSome_iff_exists.mp hd
      have ih' := ih t (by simpa using hlen) (fun d' hd' => hall d' (by simp [hd']))
      have hk : keep (d :: ds) fix (a :: t) = ((a == v) && keep ds fix t) := by
        simp [keep, hv]
      rw [hk, Bool.and_eq_true, ih']
      simp [hv]

theorem dropKey_all_fixed (dims : List String) (fix : Fix) (k : Key)
    (hall : ∀ d ∈ dims, (fix.lookup d).isSome = true) : dropKey dims fix k = [] := by
  unfold dropKey
  rw [List.map_eq_nil_iff, List.filter_eq_nil_iff]
  intro p hp
  have := hall p.1 (List.of_mem_zip hp).1
  simp [Option.isNone_iff_eq_none, Option.isSome_iff_ne_none.mp this]

theorem dropDims_all_fixed (dims : List String) (fix : Fix)
    (hall : ∀ d ∈ dims, (fix.lookup d).isSome = true) : dropDims dims fix = [] := by
  unfold dropDims
  rw [List.filter_eq_nil_iff]
  intro d hd
  simp [Option.isSome_iff_ne_none.mp (hall d hd)]

/-- in a list of cells with pairwise distinct keys, filtering on "key = k" returns exactly the cell of `k` -/
theorem filter_key_eq (cells : List (Key × α)) (k : Key) (v : α) (p : Key → Bool)
    (hp : ∀ c ∈ cells, p c.1 = true ↔ c.1 = k)
    (hnd : (cells.map (·.1)).Nodup) (hmem : (k, v) ∈ cells) :
    cells.filter (fun c => p c.1) = [(k, v)] := by
  induction cells with
  | nil => cases hmem
  | cons c cs ih =>
    have hnd' : c.1 ∉ cs.map (·.1) ∧ (cs.map (·.1)).Nodup := List.nodup_cons.mp hnd
    rcases List.mem_cons.mp hmem with h | h
    · subst h
      have hk : p k = true := (hp (k, v) (by simp)).mpr rfl
      have hrest : cs.filter (fun c => p c.1) = [] := by
        rw [List.filter_eq_nil_iff]
        intro c' hc' hpc'
        have : c'.1 = k := (hp c' (by simp [hc'])).mp hpc'
        exact hnd'.1 (by rw [← this]; exact List.mem_map.mpr ⟨c', hc', rfl⟩)
      simp [hk, hrest]
    · have hne : c.1 ≠ k := by
        intro hck
        exact hnd'.1 (by rw [hck]; exact List.mem_map.mpr ⟨(k, v), h, rfl⟩)
      have hpc : p c.1 = false := by
        cases hpc : p c.1 with
        | false => rfl
        | true => exact absurd ((hp c (by simp)).mp hpc) hne
      simp only [List.filter_cons, hpc]
      exact ih (fun c' hc' => hp c' (by simp [hc'])) hnd'.2 h

end Res

/-- `go` of `importClass`: packages without the module are skipped -/
theorem importClass_go_skip (ps qs : List Pkg) (m : String) (i : Nat)
    (h : ∀ p ∈ ps, doImport p m = none) :
    importClass.go m (ps ++ qs) i = importClass.go m qs (i + ps.length) := by
  induction ps generalizing i with
  | nil => simp
  | cons p ps ih =>
    have hp : doImport p m = none := h p (by simp)
    simp only [List.cons_append, importClass.go, hp]
    rw [ih (i + 1) (fun q hq => h q (by simp [hq]))]
    simp [Nat.add_assoc, Nat.add_comm 1]

end Smrt.RM
