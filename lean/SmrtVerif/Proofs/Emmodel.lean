/-
  Helper lemmas for C10 (electromagnetic models): the model of `Model/Emmodel.lean` read over ℝ.
  * the nine trigonometric identities behind "Ulaby's modes are the Fourier series of the Rayleigh matrix";
  * the polynomial integral behind the energy balance of the Rayleigh phase matrix;
  * sign lemmas (squares, `Im √z ≥ 0` when `Im z ≥ 0`, spectra of the microstructure models).
-/
import SmrtVerif.Model.Emmodel
import SmrtVerif.Proofs.RealTransc
import SmrtVerif.Proofs.Fresnel
import SmrtVerif.Proofs.Microstructure
import Mathlib.Analysis.SpecialFunctions.Integrals.Basic
import Mathlib.Analysis.SpecialFunctions.Trigonometric.Basic
import Mathlib.Analysis.SpecialFunctions.Sqrt
import Mathlib.Tactic.Ring
import Mathlib.Tactic.Linarith
import Mathlib.Tactic.Positivity
import Mathlib.Tactic.NormNum
import Mathlib.Tactic.IntervalCases
import Mathlib.Tactic.LinearCombination

namespace Smrt.Em

/-! ### the Rayleigh matrix and Ulaby's modes -/

/-- modes `m ≥ 3` of `ft_even_phase_baseonUlaby` are zero (`P[:, :, 3:, :, :] = 0`) -/
theorem ulaby_high (ks : ℝ) (m p q : Nat) (μs μi : ℝ) (hm : 3 ≤ m) : ulaby ks m p q μs μi = 0 := by
  obtain ⟨k, rfl⟩ : ∃ k, m = k + 3 := ⟨m - 3, by omega⟩
  simp [ulaby, ulabySigned, ulabyRaw]

/-- the nine identities: entry `(p, q)` of `1.5·ks·P(μ_s, μ_i, φ)` is the three-term trigonometric sum with the coded
    coefficients -/
theorem rayPhase_eq_three_modes (ks μs μi φ : ℝ) (hs : μs * μs ≤ 1) (hi : μi * μi ≤ 1) (p q : Nat)
    (hp : p < 3) (hq : q < 3) :
    rayPhase ks p q μs μi φ = ∑ m ∈ Finset.range 3, ulaby ks m p q μs μi * basis p q m φ := by
  have ha : Real.sqrt (1 - μs * μs) ^ 2 = 1 - μs * μs := Real.sq_sqrt (by linarith)
  have hb : Real.sqrt (1 - μi * μi) ^ 2 = 1 - μi * μi := Real.sq_sqrt (by linarith)
  have hc := Real.sin_sq_add_cos_sq φ
  simp only [Finset.sum_range_succ, Finset.sum_range_zero]
  interval_cases p <;> interval_cases q <;>
    simp only [rayPhase, rayP, ulaby, ulabySigned, ulabyRaw, basis, fvv, fvh, fhv, fhh, sinOf, transc_sqrt_real,
      transc_cos_real, transc_sin_real] <;>
    norm_num [Real.cos_two_mul, Real.sin_two_mul] <;>
    generalize Real.sqrt (1 - μs * μs) = a at ha ⊢ <;>
    generalize Real.sqrt (1 - μi * μi) = b at hb ⊢ <;>
    generalize Real.cos φ = c at hc ⊢ <;>
    generalize Real.sin φ = s at hc ⊢ <;>
    first
      | ring1
      | linear_combination (3 / 2 * ks * b ^ 2) * ha + (3 / 2 * ks * (1 - μs * μs)) * hb
      | linear_combination (3 / 2 * ks * μs ^ 2) * hc
      | linear_combination (3 / 2 * ks * μi ^ 2) * hc
      | linear_combination (-(3 / 2) * ks * μs * μi) * hc

/-! ### the polynomial integral of the energy balance -/

theorem integral_even_quadratic (a b : ℝ) : ∫ x in (-1 : ℝ)..1, (a + b * x ^ 2) = 2 * a + 2 / 3 * b := by
  have h1 : IntervalIntegrable (fun _ : ℝ => a) MeasureTheory.volume (-1) 1 := intervalIntegrable_const
  have h2 : IntervalIntegrable (fun x : ℝ => b * x ^ 2) MeasureTheory.volume (-1) 1 :=
    (continuous_const.mul (continuous_pow 2)).intervalIntegrable _ _
  rw [intervalIntegral.integral_add h1 h2, intervalIntegral.integral_const_mul, integral_pow]
  simp; ring

/-- mode 0, incident V: `P_vv + P_hv` as a polynomial in `μ_s` -/
theorem ulaby_col_v (ks μs μi : ℝ) : ulaby ks 0 0 0 μs μi + ulaby ks 0 1 0 μs μi
    = (3 * ks / 2 * ((1 - μi * μi) + 1 / 2 * (μi * μi))) + (3 * ks / 2 * (1 / 2 * (μi * μi) - (1 - μi * μi))) * μs ^ 2 := by
  simp only [ulaby, ulabySigned, ulabyRaw]; norm_num; ring

/-- mode 0, incident H: `P_vh + P_hh` -/
theorem ulaby_col_h (ks μs μi : ℝ) : ulaby ks 0 0 1 μs μi + ulaby ks 0 1 1 μs μi
    = (3 * ks / 2 * (1 / 2)) + (3 * ks / 2 * (1 / 2)) * μs ^ 2 := by
  simp only [ulaby, ulabySigned, ulabyRaw]; norm_num; ring

/-! ### signs -/

theorem sq_nonneg' (x : ℝ) : 0 ≤ sq x := mul_self_nonneg x
theorem pow4_nonneg (x : ℝ) : 0 ≤ pow4 x := by
  have : pow4 x = (x * x) * (x * x) := by unfold pow4; ring
  rw [this]; exact mul_self_nonneg _
theorem cube_nonneg {x : ℝ} (h : 0 ≤ x) : 0 ≤ cube x := by unfold cube; positivity
theorem cabs_nonneg (z : Cx ℝ) : 0 ≤ cabs z := Real.sqrt_nonneg _
theorem sq_cabs (z : Cx ℝ) : sq (cabs z) = Cx.abs2 z := by
  unfold sq cabs
  exact Real.mul_self_sqrt (add_nonneg (mul_self_nonneg _) (mul_self_nonneg _))

/-- the principal root of a number with non-negative imaginary part has a non-negative imaginary part -/
theorem csq_im_nonneg (z : Cx ℝ) (h : 0 ≤ z.im) : 0 ≤ (csq z).im := (Fresnel.csqrt_isSqrt z).im_nonneg h
theorem csq_re_nonneg (z : Cx ℝ) : 0 ≤ (csq z).re := (Fresnel.csqrt_isSqrt z).re_nonneg

theorem waveNumber_nonneg {p freq : ℝ} (hp : 0 ≤ p) (hf : 0 ≤ freq) : 0 ≤ waveNumber p freq := by
  unfold waveNumber cSpeed; positivity

theorem fieldRatioTerm_nonneg (app e0 eps : Cx ℝ) (A : ℝ) : 0 ≤ fieldRatioTerm app e0 eps A := sq_nonneg' _

theorem meanSqFieldRatio_nonneg (v : IbaVariant) (e e0 eps : Cx ℝ) : 0 ≤ meanSqFieldRatio v e e0 eps := by
  unfold meanSqFieldRatio
  apply mul_nonneg (by norm_num)
  have h := fieldRatioTerm_nonneg
  exact add_nonneg (add_nonneg (add_nonneg le_rfl (h _ _ _ _)) (h _ _ _ _)) (h _ _ _ _)

theorem ibaCoeff_nonneg {p : ℝ} (hp : 0 ≤ p) {y2 : ℝ} (hy : 0 ≤ y2) (k0 : ℝ) (e0 eps : Cx ℝ) : 0 ≤ ibaCoeff p y2 k0 e0 eps := by
  unfold ibaCoeff
  have := sq_nonneg' (cabs (eps - e0))
  have := pow4_nonneg k0
  positivity

/-- spectra of two microstructure models (the others: `Props/C17.lean`) -/
theorem expFt_nonneg (p f ξ k : ℝ) (hp : 0 ≤ p) (hf0 : 0 ≤ f) (hf1 : f ≤ 1) (hξ : 0 ≤ ξ) : 0 ≤ Micro.expFt p f ξ k := by
  have := Micro.acf0_nonneg hf0 hf1
  simp only [Micro.expFt, Micro.sq_eq, Micro.cube_eq]
  positivity

theorem sphFt_nonneg (p f R k : ℝ) (hp : 0 ≤ p) (hf0 : 0 ≤ f) (hf1 : f ≤ 1) (hR : 0 ≤ R) : 0 ≤ Micro.sphFt p f R k := by
  have := Micro.acf0_nonneg hf0 hf1
  have hb : 0 ≤ Micro.sphBessel (R * k) := by
    unfold Micro.sphBessel; split_ifs
    · exact zero_le_one
    · rw [Micro.sq_eq]; positivity
  simp only [Micro.sphFt, Micro.cube_eq]
  positivity

/-! ### the 1-2 frame -/

theorem clip1_id {x : ℝ} (h1 : -1 ≤ x) (h2 : x ≤ 1) : clip1 x = x := by
  unfold clip1
  have a : ¬ x < -1.0 := by norm_num; linarith
  have b : ¬ (1.0 : ℝ) < x := by norm_num; linarith
  simp only [a, b, if_false]

/-- in a loss-free effective medium `|√ε| = Re √ε` -/
theorem cabs_csq_of_im_zero (e : Cx ℝ) (he : (csq e).im = 0) : cabs (csq e) = (csq e).re := by
  unfold cabs Cx.abs2
  rw [he, mul_zero, add_zero]
  exact Real.sqrt_mul_self (csq_re_nonneg e)

theorem sinOf_one : sinOf (1 : ℝ) = 0 := by simp [sinOf]

/-- incident direction on the polar axis, azimuth 0: `sin(Θ/2) = √((1−μ)/2)` -/
theorem sinHalf_polar {μ : ℝ} (h1 : -1 ≤ μ) (h2 : μ ≤ 1) : sinHalf μ 1 0 = Real.sqrt ((1.0 - μ) / 2.0) := by
  unfold sinHalf
  rw [sinOf_one]
  simp only [transc_cos_real, Real.cos_zero, mul_one, mul_zero, add_zero, transc_sqrt_real]
  rw [clip1_id h1 h2]
  congr 1; norm_num; ring

end Smrt.Em
