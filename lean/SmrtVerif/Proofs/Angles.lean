/- helper lemmas for the viewing-angle model -/
import SmrtVerif.Model.Angles
import Mathlib.Algebra.Order.Field.Basic
import Mathlib.Tactic.Linarith
import Mathlib.Tactic.FieldSimp
import Mathlib.Tactic.Ring

set_option linter.unusedSectionVars false
namespace Smrt.Angles

/-- a predicate that holds exactly below a threshold `i` selects `min i n` indices of `range n` -/
theorem filter_threshold_length (p : Nat → Bool) (i N : Nat) (h : ∀ j, j < N → (p j = true ↔ j < i)) :
    ∀ n, n ≤ N → ((List.range n).filter p).length = min i n := by
  intro n
  induction n with
  | zero => intro _; simp
  | succ n ih =>
    intro hn
    rw [List.range_succ, List.filter_append, List.length_append, ih (by omega)]
    by_cases hp : p n = true
    · have : n < i := (h n (by omega)).mp hp
      simp [hp]; omega
    · have : ¬ n < i := fun hlt => hp ((h n (by omega)).mpr hlt)
      simp [hp]; omega

variable {K : Type} [Field K] [LinearOrder K] [IsStrictOrderedRing K]

/-- strictly ascending on the first `n` indices -/
def StrictAsc (n : Nat) (xs : Nat → K) : Prop := ∀ i j, i < j → j < n → xs i < xs j

theorem strictAsc_lt_iff {n : Nat} {xs : Nat → K} (h : StrictAsc n xs) {i j : Nat} (hi : i < n) (hj : j < n) :
    xs j < xs i ↔ j < i := by
  constructor
  · intro hlt
    by_contra hge
    rcases Nat.lt_or_ge i j with h1 | h1
    · exact absurd (h i j h1 hj) (not_lt.mpr hlt.le)
    · have : i = j := by omega
      subst this; exact lt_irrefl _ hlt
  · intro hlt; exact h j i hlt hi

theorem countLt_node {n : Nat} {xs : Nat → K} (h : StrictAsc n xs) {i : Nat} (hi : i < n) :
    countLt n xs (xs i) = i := by
  unfold countLt
  have := filter_threshold_length (fun j => decide (xs j < xs i)) i n
    (fun j hj => by simp only [decide_eq_true_eq]; exact strictAsc_lt_iff h hi hj) n (le_refl n)
  rw [this]; omega

/-- for any abscissa, the nodes `< x` are an initial segment of length `countLt` -/
theorem countLt_spec {n : Nat} {xs : Nat → K} (h : StrictAsc n xs) (x : K) :
    countLt n xs x ≤ n ∧ (∀ j, j < countLt n xs x → xs j < x) ∧ (∀ j, countLt n xs x ≤ j → j < n → ¬ xs j < x) := by
  -- the threshold is the number of nodes below x; by monotonicity the predicate is downward closed
  classical
  by_cases hall : ∀ j, j < n → xs j < x
  · have := filter_threshold_length (fun j => decide (xs j < x)) n n
      (fun j hj => by simp only [decide_eq_true_eq]; exact ⟨fun _ => hj, fun _ => hall j hj⟩) n (le_refl n)
    have hc : countLt n xs x = n := by unfold countLt; rw [this]; omega
    rw [hc]; exact ⟨le_refl n, fun j hj => hall j hj, fun j h1 h2 => absurd h2 (by omega)⟩
  · push Not at hall
    -- least index that is not below x
    have hex : ∃ j, j < n ∧ x ≤ xs j := hall
    let t := Nat.find hex
    have ht : t < n ∧ x ≤ xs t := Nat.find_spec hex
    have hmin : ∀ j, j < t → ¬ (j < n ∧ x ≤ xs j) := fun j hj => Nat.find_min hex hj
    have key : ∀ j, j < n → ((decide (xs j < x)) = true ↔ j < t) := by
      intro j hj
      simp only [decide_eq_true_eq]
      constructor
      · intro hlt
        by_contra hge
        have hge' : t ≤ j := by omega
        rcases Nat.eq_or_lt_of_le hge' with he | hl
        · rw [← he] at hlt; exact absurd hlt (not_lt.mpr ht.2)
        · exact absurd (lt_trans (h t j hl hj) hlt) (not_lt.mpr ht.2)
      · intro hlt
        have := hmin j hlt
        push Not at this
        exact this hj
    have := filter_threshold_length (fun j => decide (xs j < x)) t n key n (le_refl n)
    have hc : countLt n xs x = t := by unfold countLt; rw [this]; omega
    rw [hc]
    refine ⟨by omega, fun j hj => ?_, fun j h1 h2 => ?_⟩
    · exact (key j (by omega)).mpr hj |> fun h => by simpa using h
    · intro hlt; have := (key j h2).mp (by simpa using hlt); omega

end Smrt.Angles
