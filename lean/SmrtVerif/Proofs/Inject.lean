/- helper lemmas for C14 (finite maps, the two injection loops, argument binding) -/
import SmrtVerif.Model.Inject

namespace Smrt.Inject
variable {V : Type}

theorem get?_put (k k' : String) (v : V) (m : Env V) :
    get? k (put k' v m) = if k = k' then some v else get? k m := by
  induction m with
  | nil =>
    by_cases h : k = k'
    · simp [put, get?, h]
    · have h' : ¬ k' = k := fun e => h e.symm
      simp [put, get?, h, h']
  | cons kv m ih =>
    obtain ⟨k0, v0⟩ := kv
    by_cases h0 : k0 = k'
    · by_cases h : k = k'
      · simp [put, get?, h0, h]
      · have h' : ¬ k' = k := fun e => h e.symm
        simp [put, get?, h0, h, h']
    · by_cases h1 : k0 = k
      · have h : ¬ k = k' := fun e => h0 (h1.trans e)
        simp [put, get?, h1, h]
      · simp [put, get?, h0, h1, ih]

theorem has_iff (k : String) (m : Env V) : has k m = true ↔ ∃ v, get? k m = some v := by
  unfold has; cases get? k m <;> simp

theorem has_of_mem_keys (k : String) (m : Env V) : has k m = true ↔ k ∈ keys m := by
  induction m with
  | nil => simp [has, get?, keys]
  | cons kv m ih =>
    obtain ⟨k0, v0⟩ := kv
    by_cases h : k0 = k
    · simp [has, get?, keys, h]
    · have h' : ¬ k = k0 := fun e => h e.symm
      have : has k m = true ↔ k ∈ keys m := ih
      simp only [has, keys] at this
      simp [has, get?, keys, h, h', this]

/-- the loop over the required names, when none is missing -/
theorem injectRequired_ok (attrs : Env V) (rs : List String) (kw : Env V)
    (h : ∀ r ∈ rs, has r attrs = true) :
    ∃ out, injectRequired attrs rs kw = .ok out ∧
      ∀ k, get? k out = if k ∈ rs then get? k attrs else get? k kw := by
  induction rs generalizing kw with
  | nil => exact ⟨kw, rfl, fun k => by simp⟩
  | cons r rs ih =>
    obtain ⟨v, hv⟩ := (has_iff r attrs).1 (h r (by simp))
    obtain ⟨out, ho, hk⟩ := ih (put r v kw) (fun r' hr' => h r' (by simp [hr']))
    refine ⟨out, by simp [injectRequired, hv, ho], fun k => ?_⟩
    rw [hk k, get?_put]
    by_cases h1 : k ∈ rs
    · simp [h1]
    · by_cases h2 : k = r
      · subst h2; simp [hv]
      · simp [h1, h2]

/-- the loop over the required names stops at the first missing one -/
theorem injectRequired_missing (attrs : Env V) (rs : List String) (kw : Env V)
    (h : ∃ r ∈ rs, has r attrs = false) :
    ∃ r ∈ rs, has r attrs = false ∧ injectRequired attrs rs kw = .error (.missingAttribute r) := by
  induction rs generalizing kw with
  | nil => simp at h
  | cons r rs ih =>
    cases hr : get? r attrs with
    | none => exact ⟨r, by simp, by simp [has, hr], by simp [injectRequired, hr]⟩
    | some v =>
      have h' : ∃ r' ∈ rs, has r' attrs = false := by
        obtain ⟨r', hm, hf⟩ := h
        rcases List.mem_cons.1 hm with e | hm'
        · subst e; simp [has, hr] at hf
        · exact ⟨r', hm', hf⟩
      obtain ⟨r', hm, hf, he⟩ := ih (put r v kw) h'
      exact ⟨r', by simp [hm], hf, by simp [injectRequired, hr, he]⟩

/-- the loop over the optional names -/
theorem injectOptional_spec (attrs : Env V) (os : List String) (kw : Env V) (k : String) :
    get? k (injectOptional attrs os kw) = if k ∈ os then (get? k attrs).or (get? k kw) else get? k kw := by
  induction os generalizing kw with
  | nil => simp [injectOptional]
  | cons o os ih =>
    cases ho : get? o attrs with
    | none =>
      simp only [injectOptional, ho]
      rw [ih kw]
      by_cases h1 : k ∈ os
      · simp [h1]
      · by_cases h2 : k = o
        · subst h2; simp [h1, ho]
        · simp [h1, h2]
    | some v =>
      simp only [injectOptional, ho]
      rw [ih (put o v kw), get?_put]
      by_cases h2 : k = o
      · subst h2; simp [ho]
      · by_cases h1 : k ∈ os <;> simp [h1, h2]

theorem get?_filter (p : String → Bool) (m : Env V) (k : String) :
    get? k (m.filter (fun kv => p kv.1)) = if p k then get? k m else none := by
  induction m with
  | nil => simp [get?]
  | cons kv m ih =>
    obtain ⟨k0, v0⟩ := kv
    by_cases hp : p k0 = true
    · by_cases h : k0 = k
      · subst h; simp [List.filter, hp, get?]
      · simp only [List.filter, hp, get?, h, if_false, ih]
    · by_cases h : k0 = k
      · subst h; simp only [List.filter, hp, get?, if_true, ih]; simp
      · simp only [List.filter, hp, get?, h, if_false, ih]

/-- whatever `bindFrom` returns is one entry per parameter, in order; a value comes from the positional arguments or
    from the keyword of that name; a default is used only when no keyword of that name was given -/
theorem bindFrom_sound (nreq : Nat) (kw : Env V) (i : Nat) (ps : List String) (vs : List V)
    (b : List (String × Arg V)) (h : bindFrom nreq kw i ps vs = .ok b) :
    b.map (·.1) = ps ∧ ∀ p a, (p, a) ∈ b →
      (match a with | .given v => v ∈ vs ∨ get? p kw = some v | .dflt => get? p kw = none) := by
  induction ps generalizing i vs b with
  | nil => simp [bindFrom] at h; subst h; simp
  | cons p ps ih =>
    cases vs with
    | cons v vs =>
      simp only [bindFrom] at h
      cases hr : bindFrom nreq kw (i + 1) ps vs with
      | error e => simp [hr] at h
      | ok r =>
        simp [hr] at h; subst h
        obtain ⟨h1, h2⟩ := ih (i + 1) vs r hr
        refine ⟨by simp [h1], fun p' a hm => ?_⟩
        rcases List.mem_cons.1 hm with e | hm'
        · cases e; simp
        · have := h2 p' a hm'
          cases a with
          | given w => rcases this with hw | hw; exact Or.inl (by simp [hw]); exact Or.inr hw
          | dflt => exact this
    | nil =>
      simp only [bindFrom] at h
      cases hg : get? p kw with
      | some v =>
        simp only [hg] at h
        cases hr : bindFrom nreq kw (i + 1) ps [] with
        | error e => simp [hr] at h
        | ok r =>
          simp [hr] at h; subst h
          obtain ⟨h1, h2⟩ := ih (i + 1) [] r hr
          refine ⟨by simp [h1], fun p' a hm => ?_⟩
          rcases List.mem_cons.1 hm with e | hm'
          · cases e; exact Or.inr hg
          · exact h2 p' a hm'
      | none =>
        simp only [hg] at h
        by_cases hi : i < nreq
        · simp [hi] at h
        · simp only [hi, if_false] at h
          cases hr : bindFrom nreq kw (i + 1) ps [] with
          | error e => simp [hr] at h
          | ok r =>
            simp [hr] at h; subst h
            obtain ⟨h1, h2⟩ := ih (i + 1) [] r hr
            refine ⟨by simp [h1], fun p' a hm => ?_⟩
            rcases List.mem_cons.1 hm with e | hm'
            · cases e; exact hg
            · exact h2 p' a hm'

end Smrt.Inject
