/- helper lemmas for the snowpack state machine -/
import SmrtVerif.Model.Snowpack
import Mathlib.Tactic.SplitIfs
import Mathlib.Tactic.Linarith

namespace Smrt.Snow

/-- every snowpack object of the heap has as many interfaces as layers -/
def Inv (w : World) : Prop := ∀ s ∈ w, s.wellFormed

theorem inv_nil : Inv [] := by intro s hs; cases hs

theorem inv_append {w : World} {s : SP} (hw : Inv w) (hs : s.wellFormed) : Inv (w ++ [s]) := by
  intro x hx
  rcases List.mem_append.mp hx with h | h
  · exact hw x h
  · simp at h; subst h; exact hs

theorem inv_set {w : World} {s : SP} (id : Nat) (hw : Inv w) (hs : s.wellFormed) : Inv (w.set id s) := by
  intro x hx
  rcases List.mem_or_eq_of_mem_set hx with h | h
  · exact hw x h
  · subst h; exact hs

theorem inv_get {w : World} {id : Nat} {s : SP} (hw : Inv w) (h : w[id]? = some s) : s.wellFormed :=
  hw s (List.mem_of_getElem? h)

theorem makeLoop_wf (ths : List Int) (i tag : Nat) (ifa : IfArg) (surface : Option IfKind) (sp sp' : SP)
    (h : makeLoop ths i tag ifa surface sp = .ok sp') (hwf : sp.wellFormed) : sp'.wellFormed := by
  induction ths generalizing i tag surface sp with
  | nil => simp [makeLoop] at h; subst h; exact hwf
  | cons dz rest ih =>
    unfold makeLoop at h
    split_ifs at h with hdz
    · exact ih _ _ _ _ h hwf
    · split at h
      · cases h
      · rename_i k hk
        refine ih _ _ _ _ h ?_
        simp [SP.wellFormed] at hwf ⊢; exact hwf

theorem makeSnowpack_wf {ths tag0 nprop ifa surface sub atm} {sp : SP}
    (h : makeSnowpack ths tag0 nprop ifa surface sub atm = .ok sp) : sp.wellFormed := by
  unfold makeSnowpack at h
  split_ifs at h
  split at h
  · cases h
  · rename_i sp0 h0
    have wf0 : sp0.wellFormed := makeLoop_wf _ _ _ _ _ _ _ h0 (by simp [SP.wellFormed])
    split_ifs at h
    · cases h; simp [SP.wellFormed]
    · cases h; exact wf0

end Smrt.Snow
