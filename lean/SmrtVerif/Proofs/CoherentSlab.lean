/-
  helper lemmas for the loss-free budget of the coherent slab (`smrt/interface/coherent_flat.py`): the Fresnel coefficients of a face
  between loss-free media are real numbers, the cosines the code computes are the Snell-conjugate ones, and two pieces of real algebra.
-/
import SmrtVerif.Model.CoherentFlat
import SmrtVerif.Proofs.Fresnel
import Mathlib.Tactic.FieldSimp
import Mathlib.Tactic.Ring
import Mathlib.Tactic.Linarith
import Mathlib.Tactic.LinearCombination
import Mathlib.Tactic.Positivity

namespace Smrt.Iface.Coherent
open Smrt Smrt.Fresnel Smrt.Iface

/-- a real over a non-zero real, in the model's complex division -/
theorem real_div_real (x y : ℝ) (hy : y ≠ 0) : (⟨x, 0⟩ : Cx ℝ) / ⟨y, 0⟩ = ⟨x / y, 0⟩ := by
  rw [cdiv_def]
  congr 1
  · field_simp
    ring
  · simp

/-- the H coefficient of a face between loss-free media (Snell-conjugate cosines, no total reflection) is the real number
    `(p₁ - p₂)/(p₁ + p₂)`, `p = n μ` -/
theorem rh_real (a1 a2 mu1 mu2 : ℝ) (h1 : 0 < a1) (h2 : 0 < a2) (hmu1 : 0 < mu1) (hmu2 : 0 < mu2)
    (snell : a1 * (1 - mu1 * mu1) = a2 * (1 - mu2 * mu2)) :
    rh (⟨a1, 0⟩ : Cx ℝ) ⟨a2, 0⟩ mu1
      = ⟨(Real.sqrt a1 * mu1 - Real.sqrt a2 * mu2) / (Real.sqrt a1 * mu1 + Real.sqrt a2 * mu2), 0⟩ := by
  have hp1 : 0 < Real.sqrt a1 * mu1 := mul_pos (Real.sqrt_pos.mpr h1) hmu1
  have hp2 : 0 < Real.sqrt a2 * mu2 := mul_pos (Real.sqrt_pos.mpr h2) hmu2
  unfold rh rhNum rhDen
  rw [kyi_real a1 mu1 h1.le hmu1.le, kyt_real a1 a2 mu1 mu2 h1.le h2.le hmu2.le snell]
  have e1 : (⟨-(Real.sqrt a1 * mu1), 0⟩ : Cx ℝ) - ⟨-(Real.sqrt a2 * mu2), 0⟩
      = ⟨-(Real.sqrt a1 * mu1 - Real.sqrt a2 * mu2), 0⟩ := by
    rw [csub_def]; congr 1 <;> ring
  have e2 : (⟨-(Real.sqrt a1 * mu1), 0⟩ : Cx ℝ).conj + ⟨-(Real.sqrt a2 * mu2), 0⟩
      = ⟨-(Real.sqrt a1 * mu1 + Real.sqrt a2 * mu2), 0⟩ := by
    rw [cadd_def]; simp only [Cx.conj]; congr 1 <;> ring
  rw [e1, e2, real_div_real _ _ (by linarith)]
  congr 1
  rw [neg_div_neg_eq]

/-- the V coefficient of a face between loss-free media (Snell-conjugate cosines, no total reflection) is the real number
    `(q₁ - q₂)/(q₁ + q₂)`, `q = μ / n` -/
theorem rv_real (a1 a2 mu1 mu2 : ℝ) (h1 : 0 < a1) (h2 : 0 < a2) (hmu1 : 0 < mu1) (hmu2 : 0 < mu2)
    (snell : a1 * (1 - mu1 * mu1) = a2 * (1 - mu2 * mu2)) :
    rv (⟨a1, 0⟩ : Cx ℝ) ⟨a2, 0⟩ mu1
      = ⟨(mu1 / Real.sqrt a1 - mu2 / Real.sqrt a2) / (mu1 / Real.sqrt a1 + mu2 / Real.sqrt a2), 0⟩ := by
  have s1 : 0 < Real.sqrt a1 := Real.sqrt_pos.mpr h1
  have s2 : 0 < Real.sqrt a2 := Real.sqrt_pos.mpr h2
  have sq1 : Real.sqrt a1 * Real.sqrt a1 = a1 := Real.mul_self_sqrt h1.le
  have sq2 : Real.sqrt a2 * Real.sqrt a2 = a2 := Real.mul_self_sqrt h2.le
  unfold rv rvNum rvDen
  rw [kyi_real a1 mu1 h1.le hmu1.le, kyt_real a1 a2 mu1 mu2 h1.le h2.le hmu2.le snell, csqrt_real_nonneg a1 h1.le]
  have eN : (⟨Real.sqrt a1, 0⟩ : Cx ℝ).conj * ((⟨a2, 0⟩ : Cx ℝ) * ⟨-(Real.sqrt a1 * mu1), 0⟩ - (⟨a1, 0⟩ : Cx ℝ) * ⟨-(Real.sqrt a2 * mu2), 0⟩)
      = ⟨-(Real.sqrt a1 * (a2 * (Real.sqrt a1 * mu1) - a1 * (Real.sqrt a2 * mu2))), 0⟩ := by
    simp only [cmul_def, csub_def, Cx.conj]; congr 1 <;> ring
  have eD : (⟨Real.sqrt a1, 0⟩ : Cx ℝ) * ((⟨a2, 0⟩ : Cx ℝ) * (⟨-(Real.sqrt a1 * mu1), 0⟩ : Cx ℝ).conj + (⟨a1, 0⟩ : Cx ℝ).conj * ⟨-(Real.sqrt a2 * mu2), 0⟩)
      = ⟨-(Real.sqrt a1 * (a2 * (Real.sqrt a1 * mu1) + a1 * (Real.sqrt a2 * mu2))), 0⟩ := by
    simp only [cmul_def, cadd_def, Cx.conj]; congr 1 <;> ring
  have hpos : 0 < a2 * (Real.sqrt a1 * mu1) + a1 * (Real.sqrt a2 * mu2) := by positivity
  rw [eN, eD, real_div_real _ _ (by have := mul_pos s1 hpos; linarith)]
  congr 1
  rw [neg_div_neg_eq]
  have hq : 0 < mu1 / Real.sqrt a1 + mu2 / Real.sqrt a2 := by positivity
  rw [div_eq_div_iff (mul_pos s1 hpos).ne' hq.ne']
  field_simp
  linear_combination (2 * mu1 * mu2 * a2) * sq1 - (2 * mu1 * mu2 * a1) * sq2

/-- the cosine in the second medium computed by the code is the Snell-conjugate one -/
theorem mu2_real (a1 a2 mu1 mu2' : ℝ) (h1 : 0 < a1) (h2 : 0 < a2) (hmu2 : 0 < mu2')
    (snell : a1 * (1 - mu1 * mu1) = a2 * (1 - mu2' * mu2')) :
    mu2 (⟨a1, 0⟩ : Cx ℝ) ⟨a2, 0⟩ mu1 = mu2' := by
  unfold mu2
  rw [kyt_real a1 a2 mu1 mu2' h1.le h2.le hmu2.le snell, csqrt_real_nonneg a2 h2.le]
  have : Real.sqrt a2 ≠ 0 := (Real.sqrt_pos.mpr h2).ne'
  field_simp

theorem face_bounds (p q : ℝ) (hp : 0 < p) (hq : 0 < q) : -1 < (p - q) / (p + q) ∧ (p - q) / (p + q) < 1 := by
  have hs : 0 < p + q := by linarith
  constructor
  · rw [lt_div_iff₀ hs]; linarith
  · rw [div_lt_one hs]; linarith

theorem K_algebra (p0 p1 p2 : ℝ) (h0 : 0 < p0) (h1 : 0 < p1) (h2 : 0 < p2) :
    p2 / p0 = (1 - (p0 - p1) / (p0 + p1)) * (1 - (p1 - p2) / (p1 + p2)) / ((1 + (p0 - p1) / (p0 + p1)) * (1 + (p1 - p2) / (p1 + p2))) := by
  have e1 : 1 - (p0 - p1) / (p0 + p1) = 2 * p1 / (p0 + p1) := by field_simp; ring
  have e2 : 1 - (p1 - p2) / (p1 + p2) = 2 * p2 / (p1 + p2) := by field_simp; ring
  have e3 : 1 + (p0 - p1) / (p0 + p1) = 2 * p0 / (p0 + p1) := by field_simp; ring
  have e4 : 1 + (p1 - p2) / (p1 + p2) = 2 * p1 / (p1 + p2) := by field_simp; ring
  rw [e1, e2, e3, e4]
  field_simp

/-- `|1 + r e|² > 0` for a real `|r| < 1` and a pure phase `e` -/
theorem den_pos (r : ℝ) (e : Cx ℝ) (he : e.abs2 = 1) (hr1 : -1 < r) (hr2 : r < 1) :
    0 < 1 + 2 * r * e.re + r ^ 2 := by
  have hc : e.re * e.re ≤ 1 := by
    simp only [Cx.abs2] at he; nlinarith [mul_self_nonneg e.im]
  have hc1 : e.re ≤ 1 := by nlinarith [mul_self_nonneg (e.re - 1)]
  have hc2 : -1 ≤ e.re := by nlinarith [mul_self_nonneg (e.re + 1)]
  have hrp : 0 < (1 + r) ^ 2 := by have : 0 < 1 + r := by linarith
                                   positivity
  have hrm : 0 < (1 - r) ^ 2 := by have : 0 < 1 - r := by linarith
                                   positivity
  rcases le_total 0 e.re with h | h
  · nlinarith [mul_nonneg (by linarith : (0:ℝ) ≤ 1 - e.re) hrm.le, mul_nonneg h hrp.le]
  · nlinarith [mul_nonneg (by linarith : (0:ℝ) ≤ 1 + e.re) hrp.le, mul_nonneg (by linarith : (0:ℝ) ≤ -e.re) hrm.le]


end Smrt.Iface.Coherent
