/- helper lemmas for the split-layer theorem (C04) -/
import SmrtVerif.Model.Split
import SmrtVerif.Proofs.Sum
import SmrtVerif.Proofs.RealTransc
import Mathlib.Tactic.Ring
import Mathlib.Tactic.Linarith
import Mathlib.Tactic.SplitIfs

set_option linter.unusedSectionVars false
set_option linter.unusedVariables false

namespace Smrt.Dort

/-! scalar identities: attenuation through `d₁ + d₂` factorises -/

theorem transt_split (β d1 d2 : ℝ) :
    Real.exp (-(if (0 : ℝ) < β then β else 0) * d1) * (if (0 : ℝ) < β then Real.exp (-β * d2) else 1)
      = Real.exp (-(if (0 : ℝ) < β then β else 0) * (d1 + d2)) := by
  split_ifs
  · rw [← Real.exp_add]; congr 1; ring
  · simp

theorem transb_split (β d1 d2 : ℝ) :
    Real.exp ((if β < (0 : ℝ) then β else 0) * d2) * (if β < (0 : ℝ) then Real.exp (β * d1) else 1)
      = Real.exp ((if β < (0 : ℝ) then β else 0) * (d1 + d2)) := by
  split_ifs
  · rw [← Real.exp_add]; congr 1; ring
  · simp

theorem trans_cross (β d1 d2 : ℝ) :
    Real.exp ((if β < (0 : ℝ) then β else 0) * d1) * (if (0 : ℝ) < β then Real.exp (-β * d2) else 1)
      = Real.exp (-(if (0 : ℝ) < β then β else 0) * d2) * (if β < (0 : ℝ) then Real.exp (β * d1) else 1) := by
  by_cases h1 : β < 0
  · have h2 : ¬ (0 : ℝ) < β := by linarith
    simp [h1, h2]
  · by_cases h2 : (0 : ℝ) < β
    · simp [h1, h2]
    · simp [h1, h2]

/-! column scaling commutes with the application of a compressed matrix -/

theorem cvMulMat_colscale (R : CV ℝ) (r c : Nat) (E : Nat → Nat → ℝ) (s : Nat → ℝ) (i j : Nat) :
    cvMulMat R ⟨r, c, fun a b => E a b * s b⟩ i j = cvMulMat R ⟨r, c, E⟩ i j * s j := by
  cases R with
  | zero => simp [cvMulMat]
  | diag d => simp only [cvMulMat]; ring
  | dense m =>
    simp only [cvMulMat, sumN_eq_sum, Finset.sum_mul]
    apply Finset.sum_congr rfl; intro k _; ring

theorem cvMulMat_eta (R : CV ℝ) (E : Mat ℝ) (i j : Nat) : cvMulMat R ⟨E.r, E.c, E.f⟩ i j = cvMulMat R E i j := rfl

/-- the four blocks are a thickness-independent core times the layer transmittance of the column -/
theorem topBlock_eq (ly : DLayer ℝ) (i j : Nat) :
    topBlock ly i j = (ly.ed.f i j - cvMulMat ly.rtop ly.eu i j) * transt ly j := rfl
theorem botBlock_eq (ly : DLayer ℝ) (i j : Nat) :
    botBlock ly i j = (ly.eu.f i j - cvMulMat ly.rbot ly.ed i j) * transb ly j := rfl
theorem upBlock_eq (ly : DLayer ℝ) (i j : Nat) :
    upBlock ly i j = - (cvMulMat ly.ttop ly.eu i j) * transt ly j := by
  simp only [upBlock]; rw [cvMulMat_colscale, cvMulMat_eta]; ring
theorem downBlock_eq (ly : DLayer ℝ) (i j : Nat) :
    downBlock ly i j = - (cvMulMat ly.tbot ly.ed i j) * transb ly j := by
  simp only [downBlock]; rw [cvMulMat_colscale, cvMulMat_eta]; ring

theorem cvMulMat_zeroDiag (n : Nat) (E : Mat ℝ) (i j : Nat) : cvMulMat (zeroDiag n) E i j = 0 := by
  simp [cvMulMat, zeroDiag]
theorem cvMulMat_oneDiag (n : Nat) (E : Mat ℝ) (i j : Nat) : cvMulMat (oneDiag n) E i j = E.f i j := by
  simp [cvMulMat, oneDiag]
theorem muleye_zeroDiag (n m : Nat) (i : Nat) : CV.muleye m (zeroDiag n : CV ℝ) i = 0 := by simp [CV.muleye, zeroDiag]
theorem muleye_oneDiag (n m : Nat) (i : Nat) : CV.muleye m (oneDiag n : CV ℝ) i = 1 := by simp [CV.muleye, oneDiag]

end Smrt.Dort

namespace Smrt.Dort
section
variable (S : DStack ℝ) (k : Nat) (d1 d2 : ℝ)

theorem sumN_congr {n : Nat} {f g : Nat → ℝ} (h : ∀ j, f j = g j) : sumN n f = sumN n g := by
  have : f = g := funext h
  rw [this]

theorem sumN_add_zero {n : Nat} {f g : Nat → ℝ} (h : ∀ j, f j + g j = 0) : sumN n f + sumN n g = 0 := by
  rw [sumN_eq_sum, sumN_eq_sum, ← Finset.sum_add_distrib]
  exact Finset.sum_eq_zero (fun j _ => h j)

@[simp] theorem split_lay_lt {l : Nat} (h : l < k) : (splitStack S k d1 d2).lay l = S.lay l := by
  simp [splitStack, h]
@[simp] theorem split_lay_k : (splitStack S k d1 d2).lay k = upperHalf S k d1 := by
  simp [splitStack]
@[simp] theorem split_lay_k1 : (splitStack S k d1 d2).lay (k + 1) = lowerHalf S k d2 := by
  simp [splitStack]
theorem split_lay_gt {l : Nat} (h : k + 1 < l) : (splitStack S k d1 d2).lay l = S.lay (l - 1) := by
  have h1 : ¬ l < k := by omega
  have h2 : l ≠ k := by omega
  have h3 : l ≠ k + 1 := by omega
  simp [splitStack, h1, h2, h3]

noncomputable def fU (j : Nat) : ℝ := if (0 : ℝ) < (S.lay k).beta j then Real.exp (-((S.lay k).beta j) * d2) else 1
noncomputable def fL (j : Nat) : ℝ := if (S.lay k).beta j < (0 : ℝ) then Real.exp ((S.lay k).beta j * d1) else 1

theorem splitSol_lt (x : Nat → Nat → Nat → ℝ) {l : Nat} (h : l < k) (j v : Nat) : splitSol S k d1 d2 x l j v = x l j v := by
  simp [splitSol, h]
theorem splitSol_k (x : Nat → Nat → Nat → ℝ) (j v : Nat) : splitSol S k d1 d2 x k j v = x k j v * fU S k d2 j := by
  simp [splitSol, fU]
theorem splitSol_k1 (x : Nat → Nat → Nat → ℝ) (j v : Nat) : splitSol S k d1 d2 x (k + 1) j v = x k j v * fL S k d1 j := by
  simp [splitSol, fL]
theorem splitSol_gt (x : Nat → Nat → Nat → ℝ) {l : Nat} (h : k + 1 < l) (j v : Nat) :
    splitSol S k d1 d2 x l j v = x (l - 1) j v := by
  have h1 : ¬ l < k := by omega
  have h2 : l ≠ k := by omega
  have h3 : l ≠ k + 1 := by omega
  simp [splitSol, h1, h2, h3]

variable (hd : (S.lay k).d = d1 + d2)
include hd

theorem transt_upper (j : Nat) : transt (upperHalf S k d1) j * fU S k d2 j = transt (S.lay k) j := by
  simp only [transt, upperHalf, fU, hd, transc_exp_real]
  exact transt_split _ d1 d2
theorem transb_lower (j : Nat) : transb (lowerHalf S k d2) j * fL S k d1 j = transb (S.lay k) j := by
  simp only [transb, lowerHalf, fL, hd, transc_exp_real]
  exact transb_split _ d1 d2
omit hd in
theorem trans_mid (j : Nat) :
    transb (upperHalf S k d1) j * fU S k d2 j = transt (lowerHalf S k d2) j * fL S k d1 j := by
  simp only [transb, transt, upperHalf, lowerHalf, fU, fL, transc_exp_real]
  exact trans_cross _ d1 d2

theorem P1 (i j : Nat) (y : ℝ) : topBlock (upperHalf S k d1) i j * (y * fU S k d2 j) = topBlock (S.lay k) i j * y := by
  rw [topBlock_eq, topBlock_eq, ← transt_upper S k d1 d2 hd j]
  simp only [upperHalf]; ring
theorem P2 (i j : Nat) (y : ℝ) : upBlock (upperHalf S k d1) i j * (y * fU S k d2 j) = upBlock (S.lay k) i j * y := by
  rw [upBlock_eq, upBlock_eq, ← transt_upper S k d1 d2 hd j]
  simp only [upperHalf]; ring
theorem P3 (i j : Nat) (y : ℝ) : botBlock (lowerHalf S k d2) i j * (y * fL S k d1 j) = botBlock (S.lay k) i j * y := by
  rw [botBlock_eq, botBlock_eq, ← transb_lower S k d1 d2 hd j]
  simp only [lowerHalf]; ring
theorem P4 (i j : Nat) (y : ℝ) : downBlock (lowerHalf S k d2) i j * (y * fL S k d1 j) = downBlock (S.lay k) i j * y := by
  rw [downBlock_eq, downBlock_eq, ← transb_lower S k d1 d2 hd j]
  simp only [lowerHalf]; ring
omit hd in
theorem P5 (i j : Nat) (y : ℝ) :
    botBlock (upperHalf S k d1) i j * (y * fU S k d2 j) + upBlock (lowerHalf S k d2) i j * (y * fL S k d1 j) = 0 := by
  rw [botBlock_eq, upBlock_eq]
  have h := trans_mid S k d1 d2 j
  have e1 : cvMulMat (upperHalf S k d1).rbot (upperHalf S k d1).ed i j = 0 := by
    simp only [upperHalf]; exact cvMulMat_zeroDiag _ _ _ _
  have e2 : cvMulMat (lowerHalf S k d2).ttop (lowerHalf S k d2).eu i j = (S.lay k).eu.f i j := by
    simp only [lowerHalf]; exact cvMulMat_oneDiag _ _ _ _
  rw [e1, e2]
  have e3 : (upperHalf S k d1).eu.f i j = (S.lay k).eu.f i j := rfl
  rw [e3]
  calc ((S.lay k).eu.f i j - 0) * transb (upperHalf S k d1) j * (y * fU S k d2 j)
        + -(S.lay k).eu.f i j * transt (lowerHalf S k d2) j * (y * fL S k d1 j)
      = (S.lay k).eu.f i j * y * (transb (upperHalf S k d1) j * fU S k d2 j - transt (lowerHalf S k d2) j * fL S k d1 j) := by ring
    _ = 0 := by rw [h]; ring
omit hd in
theorem P6 (i j : Nat) (y : ℝ) :
    topBlock (lowerHalf S k d2) i j * (y * fL S k d1 j) + downBlock (upperHalf S k d1) i j * (y * fU S k d2 j) = 0 := by
  rw [topBlock_eq, downBlock_eq]
  have h := trans_mid S k d1 d2 j
  have e1 : cvMulMat (lowerHalf S k d2).rtop (lowerHalf S k d2).eu i j = 0 := by
    simp only [lowerHalf]; exact cvMulMat_zeroDiag _ _ _ _
  have e2 : cvMulMat (upperHalf S k d1).tbot (upperHalf S k d1).ed i j = (S.lay k).ed.f i j := by
    simp only [upperHalf]; exact cvMulMat_oneDiag _ _ _ _
  rw [e1, e2]
  have e3 : (lowerHalf S k d2).ed.f i j = (S.lay k).ed.f i j := rfl
  rw [e3]
  calc ((S.lay k).ed.f i j - 0) * transt (lowerHalf S k d2) j * (y * fL S k d1 j)
        + -(S.lay k).ed.f i j * transb (upperHalf S k d1) j * (y * fU S k d2 j)
      = - ((S.lay k).ed.f i j * y * (transb (upperHalf S k d1) j * fU S k d2 j - transt (lowerHalf S k d2) j * fL S k d1 j)) := by ring
    _ = 0 := by rw [h]; ring

end
end Smrt.Dort

/-! ### local forms: an equation of layer `l` only involves layer `l` and one neighbour -/
namespace Smrt.Dort

noncomputable def lhsTopL (npol : Nat) (ly above : DLayer ℝ) (xl xa : Nat → Nat → ℝ) (c : Prop) [Decidable c] (i v : Nat) : ℝ :=
  sumN (2 * (ly.n * npol)) (fun j => topBlock ly i j * xl j v)
    + (if c then
        (if i < min (cvRows (above.n * npol) above.tbot) (ly.n * npol)
          then sumN (2 * (above.n * npol)) (fun j => downBlock above i j * xa j v) else 0)
       else 0)

noncomputable def lhsBotL (npol : Nat) (ly below : DLayer ℝ) (xl xb : Nat → Nat → ℝ) (c : Prop) [Decidable c] (i v : Nat) : ℝ :=
  sumN (2 * (ly.n * npol)) (fun j => botBlock ly i j * xl j v)
    + (if c then
        (if i < min (cvRows (below.n * npol) below.ttop) (ly.n * npol)
          then sumN (2 * (below.n * npol)) (fun j => upBlock below i j * xb j v) else 0)
       else 0)

theorem lhsTop_local (S : DStack ℝ) (x : Nat → Nat → Nat → ℝ) (l i v : Nat) :
    lhsTop S x l i v = lhsTopL S.npol (S.lay l) (S.lay (l - 1)) (x l) (x (l - 1)) (0 < l) i v := rfl
theorem lhsBot_local (S : DStack ℝ) (x : Nat → Nat → Nat → ℝ) (l i v : Nat) :
    lhsBot S x l i v = lhsBotL S.npol (S.lay l) (S.lay (l + 1)) (x l) (x (l + 1)) (l + 1 < S.L) i v := rfl

/-- right-hand sides in local form; `pm` = passive ∧ mode 0, `Tl`, `Tn` the guarded temperatures of the layer and its
    neighbour -/
noncomputable def rhsTopL (S : DStack ℝ) (ly above : DLayer ℝ) (Tl Ta : ℝ) (c : Prop) [Decidable c] (i v : Nat) : ℝ :=
  (if S.passive && S.mode0 then - ((1 - CV.muleye (ly.n * S.npol) ly.rtop i) * Tl) else 0)
  + (if c then
      (if i < min (cvRows (S.nAir * S.npol) S.tbotAir) (ly.n * S.npol) then cvMulMat S.tbotAir S.idown i v else 0)
     else
      (if S.passive && S.mode0 then
        (if i < min (cvRows (above.n * S.npol) above.tbot) (ly.n * S.npol)
          then CV.muleye (above.n * S.npol) above.tbot i * Ta else 0)
       else 0))

noncomputable def rhsBotL (S : DStack ℝ) (ly below : DLayer ℝ) (Tl Tb : ℝ) (c : Prop) [Decidable c] (i v : Nat) : ℝ :=
  (if S.passive && S.mode0 then - ((1 - CV.muleye (ly.n * S.npol) ly.rbot i) * Tl) else 0)
  + (if c then
      (if S.passive && S.mode0 then
        (if i < min (cvRows (below.n * S.npol) below.ttop) (ly.n * S.npol)
          then CV.muleye (below.n * S.npol) below.ttop i * Tb else 0)
       else 0)
     else
      (if S.passive && S.mode0 && S.hasSubTemp then
        (if i < min (cvRows (ly.n * S.npol) ly.tbot) (ly.n * S.npol) then CV.muleye (ly.n * S.npol) ly.tbot i * S.tsub else 0)
       else 0))

theorem rhsTop_local (S : DStack ℝ) (l i v : Nat) :
    rhsTop S l i v = rhsTopL S (S.lay l) (S.lay (l - 1)) (tempOf S l) (tempOf S (l - 1)) (l = 0) i v := rfl
theorem rhsBot_local (S : DStack ℝ) (l i v : Nat) :
    rhsBot S l i v = rhsBotL S (S.lay l) (S.lay (l + 1)) (tempOf S l) (tempOf S (l + 1)) (l + 1 < S.L) i v := rfl

section
variable (S : DStack ℝ) (k : Nat) (d1 d2 : ℝ) (hd : (S.lay k).d = d1 + d2)
include hd

/-- top rows of the upper half = top rows of the original layer -/
theorem lhsTopL_upper (above : DLayer ℝ) (xk xa : Nat → Nat → ℝ) (c : Prop) [Decidable c] (i v : Nat) :
    lhsTopL S.npol (upperHalf S k d1) above (fun j v => xk j v * fU S k d2 j) xa c i v
      = lhsTopL S.npol (S.lay k) above xk xa c i v := by
  unfold lhsTopL
  have e : (upperHalf S k d1).n = (S.lay k).n := rfl
  rw [e]
  congr 1
  exact sumN_congr (fun j => P1 S k d1 d2 hd i j (xk j v))

/-- bottom rows of the layer above the cut see the upper half as they saw the original layer -/
theorem lhsBotL_above (ly : DLayer ℝ) (xl xk : Nat → Nat → ℝ) (c : Prop) [Decidable c] (i v : Nat) :
    lhsBotL S.npol ly (upperHalf S k d1) xl (fun j v => xk j v * fU S k d2 j) c i v
      = lhsBotL S.npol ly (S.lay k) xl xk c i v := by
  unfold lhsBotL
  have e : (upperHalf S k d1).n = (S.lay k).n := rfl
  have e2 : (upperHalf S k d1).ttop = (S.lay k).ttop := rfl
  rw [e, e2]
  congr 1
  split_ifs
  · exact sumN_congr (fun j => P2 S k d1 d2 hd i j (xk j v))
  · rfl
  · rfl

/-- bottom rows of the lower half = bottom rows of the original layer -/
theorem lhsBotL_lower (below : DLayer ℝ) (xk xb : Nat → Nat → ℝ) (c : Prop) [Decidable c] (i v : Nat) :
    lhsBotL S.npol (lowerHalf S k d2) below (fun j v => xk j v * fL S k d1 j) xb c i v
      = lhsBotL S.npol (S.lay k) below xk xb c i v := by
  unfold lhsBotL
  have e : (lowerHalf S k d2).n = (S.lay k).n := rfl
  rw [e]
  congr 1
  exact sumN_congr (fun j => P3 S k d1 d2 hd i j (xk j v))

/-- top rows of the layer below the cut see the lower half as they saw the original layer -/
theorem lhsTopL_below (ly : DLayer ℝ) (xl xk : Nat → Nat → ℝ) (c : Prop) [Decidable c] (i v : Nat) :
    lhsTopL S.npol ly (lowerHalf S k d2) xl (fun j v => xk j v * fL S k d1 j) c i v
      = lhsTopL S.npol ly (S.lay k) xl xk c i v := by
  unfold lhsTopL
  have e : (lowerHalf S k d2).n = (S.lay k).n := rfl
  have e2 : (lowerHalf S k d2).tbot = (S.lay k).tbot := rfl
  rw [e, e2]
  congr 1
  split_ifs
  · exact sumN_congr (fun j => P4 S k d1 d2 hd i j (xk j v))
  · rfl
  · rfl

omit hd in
/-- the two equations written at the cut are satisfied identically (both sides vanish) -/
theorem lhs_cut (xk : Nat → Nat → ℝ) (i v : Nat) (hi : i < (S.lay k).n * S.npol) (c : Prop) [Decidable c] (hc : c) :
    lhsBotL S.npol (upperHalf S k d1) (lowerHalf S k d2) (fun j v => xk j v * fU S k d2 j) (fun j v => xk j v * fL S k d1 j) c i v = 0 ∧
    lhsTopL S.npol (lowerHalf S k d2) (upperHalf S k d1) (fun j v => xk j v * fL S k d1 j) (fun j v => xk j v * fU S k d2 j) c i v = 0 := by
  have en1 : (upperHalf S k d1).n = (S.lay k).n := rfl
  have en2 : (lowerHalf S k d2).n = (S.lay k).n := rfl
  have c1 : cvRows ((S.lay k).n * S.npol) (lowerHalf S k d2).ttop = (S.lay k).n * S.npol := by simp [lowerHalf, oneDiag, cvRows]
  have c2 : cvRows ((S.lay k).n * S.npol) (upperHalf S k d1).tbot = (S.lay k).n * S.npol := by simp [upperHalf, oneDiag, cvRows]
  constructor
  · unfold lhsBotL
    rw [en1, en2, c1]
    simp only [hc, if_true, min_self, hi]
    exact sumN_add_zero (fun j => P5 S k d1 d2 i j (xk j v))
  · unfold lhsTopL
    rw [en1, en2, c2]
    simp only [hc, if_true, min_self, hi]
    exact sumN_add_zero (fun j => P6 S k d1 d2 i j (xk j v))

omit hd in
/-- and so are their right-hand sides: the interface between identical media emits nothing -/
theorem rhs_cut (i v : Nat) (hi : i < (S.lay k).n * S.npol) (T : ℝ) (c : Prop) [Decidable c] (hc : c) (c' : Prop) [Decidable c'] (hc' : ¬ c') :
    rhsBotL S (upperHalf S k d1) (lowerHalf S k d2) T T c i v = 0 ∧
    rhsTopL S (lowerHalf S k d2) (upperHalf S k d1) T T c' i v = 0 := by
  have en1 : (upperHalf S k d1).n = (S.lay k).n := rfl
  have en2 : (lowerHalf S k d2).n = (S.lay k).n := rfl
  constructor
  · unfold rhsBotL
    have e1 : (upperHalf S k d1).rbot = zeroDiag ((S.lay k).n * S.npol) := rfl
    have e2 : (lowerHalf S k d2).ttop = oneDiag ((S.lay k).n * S.npol) := rfl
    rw [en1, en2, e1, e2, muleye_zeroDiag, muleye_oneDiag]
    have c1 : cvRows ((S.lay k).n * S.npol) (oneDiag ((S.lay k).n * S.npol) : CV ℝ) = (S.lay k).n * S.npol := by simp [oneDiag, cvRows]
    simp only [hc, if_true, c1, min_self, hi]
    split_ifs <;> ring
  · unfold rhsTopL
    have e1 : (lowerHalf S k d2).rtop = zeroDiag ((S.lay k).n * S.npol) := rfl
    have e2 : (upperHalf S k d1).tbot = oneDiag ((S.lay k).n * S.npol) := rfl
    rw [en1, en2, e1, e2, muleye_zeroDiag, muleye_oneDiag]
    have c1 : cvRows ((S.lay k).n * S.npol) (oneDiag ((S.lay k).n * S.npol) : CV ℝ) = (S.lay k).n * S.npol := by simp [oneDiag, cvRows]
    simp only [hc', if_false, c1, min_self, hi, if_true]
    split_ifs <;> ring

omit hd in
/-- when the neighbour is not looked at, it can be replaced -/
theorem lhsTopL_noabove (npol : Nat) (ly a a' : DLayer ℝ) (xl xa xa' : Nat → Nat → ℝ) (c : Prop) [Decidable c] (hc : ¬ c) (i v : Nat) :
    lhsTopL npol ly a xl xa c i v = lhsTopL npol ly a' xl xa' c i v := by
  unfold lhsTopL; simp [hc]
omit hd in
theorem rhsTopL_noabove (ly a a' : DLayer ℝ) (Tl Ta Ta' : ℝ) (c : Prop) [Decidable c] (hc : c) (i v : Nat) :
    rhsTopL S ly a Tl Ta c i v = rhsTopL S ly a' Tl Ta' c i v := by
  unfold rhsTopL; simp [hc]
omit hd in
theorem lhsBotL_prop (npol : Nat) (ly b : DLayer ℝ) (xl xb : Nat → Nat → ℝ) (c c' : Prop) [Decidable c] [Decidable c'] (h : c ↔ c') (i v : Nat) :
    lhsBotL npol ly b xl xb c i v = lhsBotL npol ly b xl xb c' i v := by
  unfold lhsBotL; by_cases hc : c <;> simp [hc, h.symm]
omit hd in
theorem rhsBotL_prop (ly b : DLayer ℝ) (Tl Tb : ℝ) (c c' : Prop) [Decidable c] [Decidable c'] (h : c ↔ c') (i v : Nat) :
    rhsBotL S ly b Tl Tb c i v = rhsBotL S ly b Tl Tb c' i v := by
  unfold rhsBotL; by_cases hc : c <;> simp [hc, h.symm]
omit hd in
theorem lhsTopL_prop (npol : Nat) (ly a : DLayer ℝ) (xl xa : Nat → Nat → ℝ) (c c' : Prop) [Decidable c] [Decidable c'] (h : c ↔ c') (i v : Nat) :
    lhsTopL npol ly a xl xa c i v = lhsTopL npol ly a xl xa c' i v := by
  unfold lhsTopL; by_cases hc : c <;> simp [hc, h.symm]
omit hd in
theorem rhsTopL_prop (ly a : DLayer ℝ) (Tl Ta : ℝ) (c c' : Prop) [Decidable c] [Decidable c'] (h : c ↔ c') (i v : Nat) :
    rhsTopL S ly a Tl Ta c i v = rhsTopL S ly a Tl Ta c' i v := by
  unfold rhsTopL; by_cases hc : c <;> simp [hc, h.symm]

end
end Smrt.Dort
