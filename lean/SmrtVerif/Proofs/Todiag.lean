/- closed forms of the two loops of `todiag` (by induction on the loop counter) -/
import SmrtVerif.Model.Container
import Mathlib.Tactic.SplitIfs
import Mathlib.Tactic.Ring

namespace Smrt
variable {α : Type}

/-- closed form of the first loop after `J ≤ m` iterations; `r - (u + oi) + c` is the row of the block
    that lands at banded position `(r, c)` -/
def upperSpec (u oi oj n m J : Nat) (d : Nat → Nat → α) (b : Banded α) : Banded α :=
  fun r c =>
    if oj ≤ c ∧ c < oj + m ∧ 0 ≤ r - ((u : Int) + (oi : Int)) + (c : Int) ∧ r - ((u : Int) + (oi : Int)) + (c : Int) < n
        ∧ r - ((u : Int) + (oi : Int)) + (c : Int) ≤ ((c - oj : Nat) : Int)
        ∧ ((c - oj : Nat) : Int) - (r - ((u : Int) + (oi : Int)) + (c : Int)) < J
    then d (r - ((u : Int) + (oi : Int)) + (c : Int)).toNat (c - oj) else b r c

theorem upper_loop (u oi oj n m : Nat) (d : Nat → Nat → α) (b : Banded α) (J : Nat) (hJ : J ≤ m) :
    (List.range J).foldl (fun (b : Banded α) (j : Nat) =>
      b.setRow ((u : Int) + (oi : Int) - (oj : Int) - (j : Int)) (j + oj) (min n (m - j)) (fun k => d k (j + k))) b
    = upperSpec u oi oj n m J d b := by
  induction J with
  | zero =>
    funext r c; simp only [List.range_zero, List.foldl_nil, upperSpec]
    split_ifs with h
    · omega
    · rfl
  | succ J ih =>
    rw [List.range_succ, List.foldl_append, ih (by omega)]
    funext r c
    simp only [List.foldl_cons, List.foldl_nil, Banded.setRow, upperSpec]
    by_cases hrow : r = (u : Int) + (oi : Int) - (oj : Int) - (J : Int) ∧ J + oj ≤ c ∧ c < J + oj + min n (m - J)
    · rw [if_pos hrow]
      obtain ⟨h1, h2, h3⟩ := hrow
      rw [if_pos (by omega)]
      congr 1 <;> omega
    · rw [if_neg hrow]
      split_ifs with h1 h2 h2
      · rfl
      · exfalso; omega
      · exfalso; apply hrow; omega
      · rfl

/-- closed form of the second loop after `I` iterations (`i = 1 … I`) -/
def lowerSpec (u oi oj n m I : Nat) (d : Nat → Nat → α) (b : Banded α) : Banded α :=
  fun r c =>
    if oj ≤ c ∧ c < oj + m ∧ r - ((u : Int) + (oi : Int)) + (c : Int) < n
        ∧ ((c - oj : Nat) : Int) < r - ((u : Int) + (oi : Int)) + (c : Int)
        ∧ r - ((u : Int) + (oi : Int)) + (c : Int) - ((c - oj : Nat) : Int) ≤ I
    then d (r - ((u : Int) + (oi : Int)) + (c : Int)).toNat (c - oj) else b r c

theorem lower_loop (u oi oj n m : Nat) (d : Nat → Nat → α) (b : Banded α) (I : Nat) (hI : I ≤ n - 1) :
    (List.range I).foldl (fun (b : Banded α) (i' : Nat) =>
      b.setRow ((u : Int) + (oi : Int) - (oj : Int) + ((i' + 1 : Nat) : Int)) oj (min (n - (i' + 1)) m)
        (fun k => d (i' + 1 + k) k)) b
    = lowerSpec u oi oj n m I d b := by
  induction I with
  | zero =>
    funext r c; simp only [List.range_zero, List.foldl_nil, lowerSpec]
    split_ifs with h
    · omega
    · rfl
  | succ I ih =>
    rw [List.range_succ, List.foldl_append, ih (by omega)]
    funext r c
    simp only [List.foldl_cons, List.foldl_nil, Banded.setRow, lowerSpec]
    by_cases hrow : r = (u : Int) + (oi : Int) - (oj : Int) + ((I + 1 : Nat) : Int) ∧ oj ≤ c ∧ c < oj + min (n - (I + 1)) m
    · rw [if_pos hrow]
      obtain ⟨h1, h2, h3⟩ := hrow
      rw [if_pos (by omega)]
      congr 1 <;> omega
    · rw [if_neg hrow]
      split_ifs with h1 h2 h2
      · rfl
      · exfalso; omega
      · exfalso; apply hrow; omega
      · rfl

end Smrt
