/-
  C13 — helper lemmas for the permittivity formulae: the real-number instance of `Transc`, the Debye lemma,
  sign lemmas for the building blocks of the ice / water / brine formulae.
-/
import SmrtVerif.Model.Permittivity
import SmrtVerif.Proofs.RealTransc
import Mathlib.Analysis.SpecialFunctions.Trigonometric.Arctan
import Mathlib.Analysis.SpecialFunctions.Log.Basic
import Mathlib.Analysis.SpecialFunctions.Exp
import Mathlib.Analysis.Real.Sqrt
import Mathlib.Tactic.Linarith
import Mathlib.Tactic.Positivity
import Mathlib.Tactic.FieldSimp
import Mathlib.Tactic.Ring
import Mathlib.Tactic.NormNum
import Mathlib.Tactic.GCongr
import Mathlib.Tactic.SplitIfs

namespace Smrt.Perm

/-! the `Transc ℝ` instance is the shared one of `SmrtVerif/Proofs/RealTransc.lean`; local short names of its simp lemmas -/
theorem exp_eq (x : ℝ) : Transc.exp x = Real.exp x := rfl
theorem log_eq (x : ℝ) : Transc.log x = Real.log x := rfl
theorem sqrt_eq (x : ℝ) : Transc.sqrt x = Real.sqrt x := rfl

/-- the admissibility claim of C13 for one call: a value (not an error) with `Re ≥ 1` and `Im ≥ 0` (SMRT sign convention) -/
def Admissible (r : Except Err (Cx ℝ)) : Prop := ∃ e, r = .ok e ∧ 1 ≤ e.re ∧ 0 ≤ e.im

theorem admissible_ok {e : Cx ℝ} (h1 : 1 ≤ e.re) (h2 : 0 ≤ e.im) : Admissible (.ok e) := ⟨e, rfl, h1, h2⟩

/-! ### the Debye term `d / (1 − i x)` -/

theorem debye_re (d x : ℝ) : (debye d x).re = d / (1 + x * x) := by
  simp only [debye, Cx.div]; ring_nf

theorem debye_im (d x : ℝ) : (debye d x).im = d * x / (1 + x * x) := by
  simp only [debye, Cx.div]; ring_nf

theorem debye_den_pos (x : ℝ) : 0 < 1 + x * x := by nlinarith [mul_self_nonneg x]

theorem debye_re_nonneg {d x : ℝ} (hd : 0 ≤ d) : 0 ≤ (debye d x).re := by
  rw [debye_re]; exact div_nonneg hd (debye_den_pos x).le

theorem debye_re_le {d x : ℝ} (hd : 0 ≤ d) : (debye d x).re ≤ d := by
  rw [debye_re]; exact div_le_self hd (by nlinarith [mul_self_nonneg x])

/-- `Im (d / (1 − i x)) = d x / (1 + x²) ≥ 0` for `d ≥ 0`, `x ≥ 0`: reused by every water formula -/
theorem debye_im_nonneg {d x : ℝ} (hd : 0 ≤ d) (hx : 0 ≤ x) : 0 ≤ (debye d x).im := by
  rw [debye_im]; exact div_nonneg (mul_nonneg hd hx) (debye_den_pos x).le

@[simp] theorem add_re (a b : Cx ℝ) : (a + b).re = a.re + b.re := rfl
@[simp] theorem add_im (a b : Cx ℝ) : (a + b).im = a.im + b.im := rfl
@[simp] theorem cre_re (x : ℝ) : (cre x).re = x := rfl
@[simp] theorem cre_im (x : ℝ) : (cre x).im = 0 := rfl
@[simp] theorem cx_re (x y : ℝ) : (cx x y).re = x := rfl
@[simp] theorem cx_im (x y : ℝ) : (cx x y).im = y := rfl

/-! ### ice -/

theorem iceReal_ge_one {t : ℝ} (h : -273.15 ≤ t) : 1 ≤ iceReal t := by
  unfold iceReal; norm_num; nlinarith

theorem thetaIce_nonneg {T : ℝ} (h0 : 0 < T) (h : T ≤ 300) : 0 ≤ thetaIce T := by
  unfold thetaIce
  have : 1 ≤ 300.0 / T := by rw [le_div_iff₀ h0]; norm_num; linarith
  linarith

theorem huffordAlpha_pos {θ : ℝ} (h : 0 ≤ θ) : 0 < huffordAlpha θ := by
  unfold huffordAlpha
  simp only [exp_eq]
  have := Real.exp_pos (-22.1 * θ)
  positivity

/-- `exp(335/T) − 1 > 0`: the denominator of the Mishima term does not vanish -/
theorem betaM0_den_pos {T : ℝ} (h0 : 0 < T) : 0 < Real.exp (335.0 / T) - 1 := by
  have : 0 < 335.0 / T := by positivity
  have := Real.add_one_lt_exp (ne_of_gt this)
  linarith

theorem betaM0_pos {T : ℝ} (h0 : 0 < T) : 0 < betaM0 T := by
  unfold betaM0
  simp only [exp_eq]
  have h1 := betaM0_den_pos h0
  have h2 := Real.exp_pos (335.0 / T)
  positivity

theorem fghz_pos {f : ℝ} (hf : 0 < f) : 0 < f / 1e9 := by positivity
theorem fghz_pos' {f : ℝ} (hf : 0 < f) : 0 < f * 1e-9 := by positivity

/-- shape of the imaginary part of all Hufford-type ice formulae: `α/f + β f > 0` -/
theorem hufford_im_pos {a b g : ℝ} (ha : 0 < a) (hb : 0 ≤ b) (hg : 0 < g) : 0 < a / g + b * g := by positivity

theorem iceMaetzler06_ok {f T : ℝ} (h : T ≤ 273.15) :
    iceMaetzler06 f T = .ok ⟨iceReal (T - 273.15),
      huffordAlpha (thetaIce T) / (f / 1e9) +
        (betaM0 T + 1.16e-11 * (f / 1e9 * (f / 1e9)) + Real.exp (-9.963 + 0.0372 * (T - 273.15))) * (f / 1e9)⟩ := by
  have hg : ¬ (0 < T - (273.15 : ℝ)) := by linarith
  simp only [iceMaetzler06, freezingPoint, hg, if_false, exp_eq]

theorem iceMaetzler06_guard {f T : ℝ} (h : 273.15 < T) : iceMaetzler06 f T = .error .smrt := by
  have hg : 0 < T - (273.15 : ℝ) := by linarith
  simp only [iceMaetzler06, freezingPoint, hg, if_true]

theorem beta98_pos {θ : ℝ} (h : 0 ≤ θ) : 0 < beta98 θ := by
  unfold beta98 sq
  have h1 : 0.131 * θ / (1 + θ) ≤ 0.131 := by
    rw [div_le_iff₀ (by linarith)]; nlinarith
  have h2 : 0 ≤ (1 + θ) / (θ + 0.0073) * ((1 + θ) / (θ + 0.0073)) := mul_self_nonneg _
  nlinarith

theorem betaHufford_pos {θ : ℝ} (h : 0 ≤ θ) (h2 : θ ≤ 3) : 0 < betaHufford θ := by
  unfold betaHufford sq
  have h1 : 0 < (0.502 - 0.131 * θ) / (1 + θ) := by
    apply div_pos <;> nlinarith
  have h3 : 0 ≤ (1 + θ) / (θ + 0.0073) * ((1 + θ) / (θ + 0.0073)) := mul_self_nonneg _
  nlinarith

theorem betaLegacy_pos {f T c0 c1 tref : ℝ} (h0 : 0 < T) : 0 < betaLegacy f T c0 c1 tref := by
  unfold betaLegacy
  simp only [exp_eq]
  have h1 := betaM0_pos h0
  have h2 := Real.exp_pos (c0 + c1 * (T - tref))
  have h3 : 0 ≤ f * 1e-9 * (f * 1e-9) := mul_self_nonneg _
  nlinarith

/-- `rpow` is positive on positive bases (it is `exp (y log x)`) -/
theorem rpow_pos {x y : ℝ} (hx : 0 < x) : 0 < rpow x y := by
  unfold rpow; simp only [hx, if_true, exp_eq]; exact Real.exp_pos _

theorem rpow_nonneg (x y : ℝ) : 0 ≤ rpow x y := by
  unfold rpow; split_ifs
  · simp only [exp_eq]; exact (Real.exp_pos _).le
  · exact le_refl _

/-! ### water -/

theorem thetaWater_bounds {T : ℝ} (h1 : 273.15 ≤ T) (h2 : T ≤ 310) : -0.1 ≤ thetaWater T ∧ thetaWater T ≤ 0.04 := by
  unfold thetaWater
  have hT : (0:ℝ) < T := by linarith
  have a : 300.0 / T ≤ 1.1 := by rw [div_le_iff₀ hT]; nlinarith
  have b : 0.96 ≤ 300.0 / T := by rw [le_div_iff₀ hT]; nlinarith
  constructor <;> linarith

/-- Liebe's relaxation frequency is positive for every θ (negative discriminant) -/
theorem liebeF1_pos (θ : ℝ) : 0 < liebeF1 θ := by
  unfold liebeF1; nlinarith [sq_nonneg (θ + 0.2316)]

theorem tiuri80E1_ge {t : ℝ} (h0 : 0 ≤ t) (h1 : t ≤ 40) : 70 ≤ tiuri80E1 t := by
  unfold tiuri80E1
  have : 0 ≤ t * t * t := by positivity
  nlinarith [mul_nonneg h0 h0]

/-! ### brine (Stogryn & Desargant 1985), `t = T − 273.15` in `[−38, 0]` -/

theorem brineConductivity_nonneg {T : ℝ} (h : T ≤ 273.15) : 0 ≤ brineConductivity T := by
  unfold brineConductivity
  simp only [exp_eq]
  have ht : 0 ≤ -(T - (freezingPoint : ℝ)) := by unfold freezingPoint; linarith
  split_ifs
  · exact mul_nonneg ht (Real.exp_pos _).le
  · exact mul_nonneg ht (Real.exp_pos _).le

theorem brineRelaxationTime_pos {T : ℝ} (h1 : 235.15 ≤ T) (h2 : T ≤ 273.15) : 0 < brineRelaxationTime T := by
  unfold brineRelaxationTime freezingPoint
  have a : -38 ≤ T - 273.15 := by linarith
  have b : T - 273.15 ≤ 0 := by linarith
  generalize T - 273.15 = t at a b
  nlinarith [mul_nonneg (sub_nonneg.2 a) (mul_self_nonneg t), mul_self_nonneg (t + 20), mul_self_nonneg t]

theorem highFreq_ge_one (T : ℝ) : 1 ≤ permittivityHighFrequencyLimit T := by
  unfold permittivityHighFrequencyLimit
  have : 0 ≤ (T - freezingPoint) * (T - freezingPoint) := mul_self_nonneg _
  rw [le_div_iff₀ (by nlinarith)]
  nlinarith

theorem static_ge_highFreq {T : ℝ} (h1 : 235.15 ≤ T) (h2 : T ≤ 273.15) :
    permittivityHighFrequencyLimit T ≤ staticBrinePermittivity T := by
  unfold permittivityHighFrequencyLimit staticBrinePermittivity freezingPoint
  have a : -38 ≤ T - 273.15 := by linarith
  have b : T - 273.15 ≤ 0 := by linarith
  generalize T - 273.15 = t at a b
  have h3 : 0 ≤ t * t := mul_self_nonneg t
  rw [div_le_div_iff₀ (by nlinarith) (by linarith)]
  nlinarith [mul_nonneg (neg_nonneg.2 b) h3, mul_nonneg (sub_nonneg.2 a) h3]

theorem eps0_pos : 0 < (eps0 : ℝ) := by
  unfold eps0 pi cSpeed; positivity

theorem pi_pos' : 0 < (pi : ℝ) := by unfold pi; norm_num

theorem brineSalinity_nonneg {T : ℝ} (h1 : 235.15 ≤ T) (h2 : T ≤ 273.15) : 0 ≤ brineSalinity T := by
  unfold brineSalinity freezingPoint
  have a : -38 ≤ T - 273.15 := by linarith
  have b : T - 273.15 ≤ 0 := by linarith
  generalize T - 273.15 = t at a b
  dsimp only
  split_ifs with c1 c2
  · nlinarith
  · nlinarith [mul_nonneg (sub_nonneg.2 c2) (neg_nonneg.2 b)]
  · have c3 : t ≤ -8.2 := by linarith
    nlinarith [mul_nonneg (sub_nonneg.2 a) (mul_self_nonneg t), mul_self_nonneg t, mul_nonneg (sub_nonneg.2 a) (neg_nonneg.2 b)]

/-! ### Klein & Swift 1976 on the box `t ∈ [−2, 40] °C`, `s ∈ [0, 40]` ppt -/

theorem kleinEpsST_ge {t : ℝ} (a : -2 ≤ t) (b : t ≤ 40) : 70 ≤ kleinEpsST t := by
  unfold kleinEpsST
  nlinarith [mul_nonneg (sub_nonneg.2 a) (mul_self_nonneg t), mul_self_nonneg t, mul_nonneg (sub_nonneg.2 a) (sub_nonneg.2 b),
    mul_nonneg (mul_nonneg (sub_nonneg.2 a) (sub_nonneg.2 b)) (sub_nonneg.2 b), mul_self_nonneg (t - 40)]

theorem kleinA_ge {s t : ℝ} (a : -2 ≤ t) (_b : t ≤ 40) (c : 0 ≤ s) (d : s ≤ 40) : 0.8 ≤ kleinA s t := by
  unfold kleinA
  have h1 : -80 ≤ s * t := by nlinarith [mul_nonneg c (sub_nonneg.2 a)]
  have h2 : s * s * s ≤ 1600 * s := by nlinarith [mul_nonneg c (sub_nonneg.2 d), mul_nonneg (mul_nonneg c c) (sub_nonneg.2 d)]
  nlinarith [mul_self_nonneg s]

theorem kleinTau0_pos {t : ℝ} (a : -2 ≤ t) (b : t ≤ 40) : 0 < kleinTau0 t := by
  unfold kleinTau0
  nlinarith [mul_nonneg (sub_nonneg.2 a) (mul_self_nonneg t), mul_self_nonneg t, mul_nonneg (sub_nonneg.2 a) (sub_nonneg.2 b),
    mul_nonneg (mul_nonneg (sub_nonneg.2 a) (sub_nonneg.2 b)) (sub_nonneg.2 b), mul_self_nonneg (t - 40),
    mul_nonneg (mul_nonneg (sub_nonneg.2 a) (sub_nonneg.2 b)) (sub_nonneg.2 a)]

theorem kleinB_pos {s t : ℝ} (a : -2 ≤ t) (_b : t ≤ 40) (c : 0 ≤ s) (d : s ≤ 40) : 0 < kleinB s t := by
  unfold kleinB
  have h1 : -80 ≤ s * t := by nlinarith [mul_nonneg c (sub_nonneg.2 a)]
  have h2 : 0 ≤ s * s * s := by positivity
  have h3 : s * s ≤ 40 * s := by nlinarith
  nlinarith

theorem kleinSigma25_nonneg {s : ℝ} (c : 0 ≤ s) (d : s ≤ 40) : 0 ≤ kleinSigma25 s := by
  unfold kleinSigma25
  apply mul_nonneg c
  have h2 : s * s * s ≤ 1600 * s := by nlinarith [mul_nonneg c (sub_nonneg.2 d), mul_nonneg (mul_nonneg c c) (sub_nonneg.2 d)]
  nlinarith [mul_self_nonneg s]

theorem kleinSigma_nonneg {s t : ℝ} (c : 0 ≤ s) (d : s ≤ 40) : 0 ≤ kleinSigma s t := by
  unfold kleinSigma
  simp only [exp_eq]
  exact mul_nonneg (kleinSigma25_nonneg c d) (Real.exp_pos _).le

/-! ### complex arithmetic of the model, componentwise -/

theorem cx_ext {a b : Cx ℝ} (h1 : a.re = b.re) (h2 : a.im = b.im) : a = b := by
  cases a; cases b; simp_all

@[simp] theorem sub_re (a b : Cx ℝ) : (a - b).re = a.re - b.re := rfl
@[simp] theorem sub_im (a b : Cx ℝ) : (a - b).im = a.im - b.im := rfl
@[simp] theorem mul_re (a b : Cx ℝ) : (a * b).re = a.re * b.re - a.im * b.im := rfl
@[simp] theorem mul_im (a b : Cx ℝ) : (a * b).im = a.re * b.im + a.im * b.re := rfl
@[simp] theorem div_re (a b : Cx ℝ) : (a / b).re = (a.re * b.re + a.im * b.im) / (b.re * b.re + b.im * b.im) := rfl
@[simp] theorem div_im (a b : Cx ℝ) : (a / b).im = (a.im * b.re - a.re * b.im) / (b.re * b.re + b.im * b.im) := rfl
@[simp] theorem smul_re (s : ℝ) (a : Cx ℝ) : (Cx.smul s a).re = s * a.re := rfl
@[simp] theorem smul_im (s : ℝ) (a : Cx ℝ) : (Cx.smul s a).im = s * a.im := rfl

theorem two_lit : (2.0 : ℝ) = 2 := by norm_num

/-- Maxwell-Garnett with inclusion fraction 1 returns the inclusion permittivity (background `e0 ≠ 0`) -/
theorem mgSpheres_one (e0 eps : Cx ℝ) (h : e0.re * e0.re + e0.im * e0.im ≠ 0) : mgSpheres 1 e0 eps = eps := by
  obtain ⟨a, b⟩ := e0
  obtain ⟨c, d⟩ := eps
  simp only at h
  have h9 : (3 * a) * (3 * a) + (3 * b) * (3 * b) ≠ 0 := by
    intro h'; apply h; nlinarith
  have hn : a ^ 2 + b ^ 2 ≠ 0 := by intro h'; apply h; nlinarith
  have hn' : b ^ 2 + a ^ 2 ≠ 0 := by intro h'; apply h; nlinarith
  apply cx_ext
  · simp only [mgSpheres, add_re, add_im, sub_re, sub_im, mul_re, div_re, div_im, smul_re, smul_im, two_lit]
    rw [show c + 2 * a - 1 * (c - a) = 3 * a by ring, show d + 2 * b - 1 * (d - b) = 3 * b by ring,
      show c + 2 * a + 2 * (1 * (c - a)) = 3 * c by ring, show d + 2 * b + 2 * (1 * (d - b)) = 3 * d by ring]
    field_simp
    ring_nf
  · simp only [mgSpheres, add_re, add_im, sub_re, sub_im, mul_im, div_re, div_im, smul_re, smul_im, two_lit]
    rw [show c + 2 * a - 1 * (c - a) = 3 * a by ring, show d + 2 * b - 1 * (d - b) = 3 * b by ring,
      show c + 2 * a + 2 * (1 * (c - a)) = 3 * c by ring, show d + 2 * b + 2 * (1 * (d - b)) = 3 * d by ring]
    field_simp
    ring_nf

theorem impureDeltaEimag_nonneg {f T : ℝ} (hf : 0 ≤ f) (hT : T ≤ 273.15) : 0 ≤ impureDeltaEimag f T := by
  unfold impureDeltaEimag freezingPoint ghz
  simp only [exp_eq]
  have h1 := Real.exp_pos (-0.317 * (f / 1e9))
  have h2 : 0 ≤ (72.2 + 6.02 * (f / 1e9)) * (273.15 - T) := mul_nonneg (by positivity) (by linarith)
  apply div_nonneg (by norm_num)
  positivity

theorem hallA2_pos (x : ℝ) : 0 < hallA2 x := by
  unfold hallA2; nlinarith [sq_nonneg (x - 5)]

/-! ### Cox–Weeks brine volume: a value is always a fraction -/

theorem checkFraction_ok {vb v : ℝ} (h : checkFraction vb = .ok v) : 0 ≤ v ∧ v ≤ 1 := by
  unfold checkFraction at h
  split_ifs at h with h3
  injection h with h
  subst h
  rw [not_or, not_lt, not_lt] at h3
  exact h3

theorem brineVolumeCox83_range {T S p : ℝ} {bd : Option ℝ} {v : ℝ} (h : brineVolumeCox83 T S p bd = .ok v) :
    0 ≤ v ∧ v ≤ 1 := by
  unfold brineVolumeCox83 at h
  dsimp only at h
  by_cases h1 : waterFreezingTemperature S < T
  · rw [if_pos h1] at h; injection h with h; subst h; norm_num
  · rw [if_neg h1] at h
    by_cases h2 : T - (freezingPoint : ℝ) < -38.0
    · rw [if_pos h2] at h; cases h
    · rw [if_neg h2] at h
      split at h
      · cases h
      · exact checkFraction_ok h

theorem brineVolumeCox83_guard {T S p : ℝ} {bd : Option ℝ} (h1 : T ≤ waterFreezingTemperature S) (h2 : T - 273.15 < -38) :
    brineVolumeCox83 T S p bd = .error .smrt := by
  unfold brineVolumeCox83
  dsimp only
  have a : ¬ (waterFreezingTemperature S < T) := not_lt.2 h1
  have b : T - (freezingPoint : ℝ) < -38.0 := by unfold freezingPoint; norm_num; linarith
  rw [if_neg a, if_pos b]

end Smrt.Perm
