/- driver for the microstructure models (C17 correspondence): one model evaluation per line -/
import SmrtVerif.Model.Microstructure
import SmrtVerif.Driver.Proto

namespace Smrt.Driver.C17
open Smrt Smrt.Driver Smrt.Micro

abbrev F := Float

/-- `np.pi` -/
def pi : F := 3.141592653589793

def out (xs : List F) : String := " ".intercalate (xs.map showF)

/-- stickiness token: `inf` or a float -/
def tauOf (s : String) : Option F := if s == "inf" then none else some (fl s)

def arr (v : Array F) : Nat → F := fun i => v.getD i 0.0

/-- the spectral form of a model named on the line (used by the numerical inverse transform) -/
def ftOf : List String → Option (F → F)
  | ["exp", f, xi] => some (expFt pi (fl f) (fl xi))
  | ["sph", f, R] => some (sphFt pi (fl f) (fl R))
  | ["shs", f, R, tau] => some (shsFt pi (fl f) (fl R) (tauOf tau))
  | ["ts", f, xi, d] => some (tsFt pi (fl f) (fl xi) (fl d))
  | ["uts", f, lp, K] => some (utsFt pi (fl f) (fl lp) (fl K))
  | ["use", f, lp, K] => some (useFt pi (fl f) (fl lp) (fl K))
  | ["ushs", f, lp, K] => some (ushsFt pi (fl f) (fl lp) (fl K))
  | _ => none

/-- the real-space form and `inv_slope_at_origin` of a model named on the line (numerical forward transform) -/
def acfOf : List String → Option ((F → F) × F)
  | ["exp", f, xi] => some (expAcf (fl f) (fl xi), expInvSlope (fl xi))
  | ["sph", f, R] => some (sphAcf (fl f) (fl R), sphInvSlope (fl R))
  | ["grf", f, beta, xi, d] => some (grfAcf pi (fl beta) (fl xi) (fl d), grfInvSlope pi (fl f) (fl beta) (fl xi) (fl d))
  | _ => none

def handleAll : List String → String
  | ["exp", f, xi, r, k] =>
    let (f, xi) := (fl f, fl xi)
    out [acf0 f, expInvSlope xi, expAcf f xi (fl r), expFt pi f xi (fl k)]
  | ["sph", f, R, r, k] =>
    let (f, R) := (fl f, fl R)
    out [acf0 f, sphInvSlope R, sphAcf f R (fl r), sphFt pi f R (fl k)]
  | ["sphpoly", f, R, r] => out [acf0 (fl f) * sphPoly (fl R) (fl r)]
  | ["shs", f, R, tau, k] =>
    let (f, R) := (fl f, fl R)
    out [acf0 f, shsInvSlope f R, shsT (tauOf tau) f, shsFt pi f R (tauOf tau) (fl k)]
  | ["ts", f, xi, d, r, k] =>
    let (f, xi, d) := (fl f, fl xi, fl d)
    out [acf0 f, tsAcf pi f xi d (fl r), tsFt pi f xi d (fl k)]
  | ["use", f, lp, K, r, k] =>
    let (f, lp, K) := (fl f, fl lp, fl K)
    out [acf0 f, useXi lp K, useAcf f lp K (fl r), useFt pi f lp K (fl k)]
  | ["usecode", f, lp, K, r] => out [useAcfCode (fl f) (fl lp) (fl K) (fl r)]
  | ["uts", f, lp, K, r, k] =>
    let (f, lp, K) := (fl f, fl lp, fl K)
    out [acf0 f, utsZeta1 lp K, utsZeta2 lp K, utsAcf pi f lp K (fl r), utsFt pi f lp K (fl k)]
  | ["utscode", f, lp, K, r] => out [utsAcfCode pi (fl f) (fl lp) (fl K) (fl r)]
  | ["ushs", f, lp, K, k] =>
    let (f, lp, K) := (fl f, fl lp, fl K)
    out [acf0 f, ushsRadius f lp, ushsT f K, ushsStickiness f (ushsT f K), ushsFt pi f lp K (fl k)]
  | "samp" :: _f :: n :: rest =>
    let n := nat n
    let lag := floats (rest.take n)
    let acf := floats ((rest.drop n).take n)
    let rs := (rest.drop (2 * n)).map fl
    out (rs.map (sampAcf n (arr lag) (arr acf)))
  | ["hom", f, r, k] => out [acf0 (fl f), (homInvSlope : F), homAcf (fl r), homFt (fl k)]
  | ["grf", f, beta, xi, d, r] =>
    let (f, beta, xi, d) := (fl f, fl beta, fl xi, fl d)
    out [acf0 f, grfInvSlope pi f beta xi d, grfAcf pi beta xi d (fl r)]
  -- inverted_medium(): new frac_volume, corr_func_at_origin, both forms
  | ["inv", "exp", f, xi, r, k] =>
    let (g, xi) := (invertedFrac (fl f), fl xi)
    out [g, acf0 g, expAcf g xi (fl r), expFt pi g xi (fl k)]
  | ["inv", "sph", f, R, r, k] =>
    let (g, R) := (invertedFrac (fl f), fl R)
    out [g, acf0 g, acf0 g * sphPoly R (fl r), sphFt pi g R (fl k)]
  | ["inv", "ts", f, xi, d, r, k] =>
    let (g, xi, d) := (invertedFrac (fl f), fl xi, fl d)
    out [g, acf0 g, tsAcf pi g xi d (fl r), tsFt pi g xi d (fl k)]
  | ["inv", "shs", f, R, tau, k] =>
    let (g, R) := (invertedFrac (fl f), fl R)
    out [g, acf0 g, shsFt pi g R (tauOf tau) (fl k)]
  -- unified classes keep the attributes computed in __init__ (corr_func_at_origin, zeta, radius, t)
  | ["inv", "uts", f, lp, K, r, k] =>
    let (f, lp, K) := (fl f, fl lp, fl K)
    out [invertedFrac f, acf0 f, utsAcf pi f lp K (fl r), utsFt pi f lp K (fl k)]
  | ["inv", "use", f, lp, K, k] =>
    let (f, lp, K) := (fl f, fl lp, fl K)
    out [invertedFrac f, acf0 f, useFt pi f lp K (fl k)]
  | ["inv", "ushs", f, lp, K, k] =>
    let (f, lp, K) := (fl f, fl lp, fl K)
    out [invertedFrac f, acf0 f, ushsFtInverted pi f lp K (fl k)]
  | "fft" :: n :: k :: model =>
    match acfOf model with
    | some (acf, s) => out [ftFft pi acf s (nat n) (fl k)]
    | none => "ERR parse"
  | "invfft" :: spacing :: nop :: r :: model =>
    match ftOf model with
    | some ft =>
      let nop := fl nop
      let M := (Float.ceil nop).toUInt64.toNat
      out [invFft pi ft (fl spacing) nop M (fl r)]
    | none => "ERR parse"
  | _ => "ERR parse"

/-- `@i op …` prints only the `i`-th value of the line `op …` (values of one line differ by many orders of
    magnitude, the harness compares each with its own scale) -/
def handle : List String → String
  | sel :: rest =>
    if sel.startsWith "@" then
      ((handleAll rest).splitOn " ").getD (nat (sel.drop 1).toString) "ERR index"
    else handleAll (sel :: rest)
  | [] => ""

end Smrt.Driver.C17
