/- driver for the theory-limit closed forms (C11 correspondence): one evaluation per line -/
import SmrtVerif.Model.TheoryLimits
import SmrtVerif.Driver.Proto

namespace Smrt.Driver.C11
open Smrt Smrt.Driver Smrt.TheoryLimits

abbrev F := Float

/-- `np.pi` -/
def pi : F := 3.141592653589793

def out (xs : List F) : String := " ".intercalate (xs.map showF)
def cx (a b : String) : Cx F := ⟨fl a, fl b⟩
def tauOf (s : String) : Option F := if s == "inf" then none else some (fl s)

/-- effective permittivity closure named on the line: `pvs` (Polder–van Santen, spheres), `mg` (`maxwell_garnett` with
    the depolarisation factors of length ratio 1), `mgs` (`maxwell_garnett_for_spheres`), `dilute` (background) -/
def eeffOf (kind : String) (f : F) (e0 eps : Cx F) : Except String (Cx F) :=
  match kind with
  | "pvs" => match Mixing.pvsWith csqrt .spheres f e0 eps with
             | .ok z => .ok z
             | .error e => .error s!"ERR {e.name}"
  | "mg" => match Mixing.maxwellGarnett f e0 eps true (Mixing.depolFactors 1) with
            | .ok z => .ok z
            | .error e => .error s!"ERR {e.name}"
  | "mgs" => .ok (Mixing.mgSpheres f e0 eps)
  | "dilute" => .ok e0
  | _ => .error "ERR unknown-closure"

def handle : List String → String
  | ["rayleigh", freq, f, r, a, b, c, d] =>
    let (f, r, e0, eps) := (fl f, fl r, cx a b, cx c d)
    let k0 := k0OfLambda pi (fl freq)
    let ks := rayleighKs f r k0 e0 eps
    out [ks.re, ks.im, rayleighKa f k0 e0 eps]
  | ["raypv", freq, r, a, b, c, d] => out [rayleighPerVolume (fl r) (k0OfLambda pi (fl freq)) (cx a b) (cx c d)]
  | ["invert", f, a, b, c, d] =>
    let (f', e0', eps', _, _) := invertArgs (fl f, cx a b, cx c d, (⟨0, 0⟩ : Cx F), (⟨0, 0⟩ : Cx F))
    out [f', e0'.re, e0'.im, eps'.re, eps'.im]
  | ["eeff", kind, f, a, b, c, d] =>
    match eeffOf kind (fl f) (cx a b) (cx c d) with
    | .ok z => out [z.re, z.im]
    | .error e => e
  | ["ibacoeff", kind, freq, f, a, b, c, d] =>
    let (f, e0, eps) := (fl f, cx a b, cx c d)
    let k0 := k0OfFreq pi (fl freq)
    match eeffOf kind f e0 eps with
    | .ok eeff =>
      let y2 := if kind == "mg" then ibaMgY2 e0 eps ibaDepol else ibaY2 eeff e0 eps ibaDepol
      out [eeff.re, eeff.im, y2, ibaCoeff pi k0 y2 e0 eps, kaOfEeff k0 eeff]
    | .error e => e
  | ["ibaks", micro, kind, freq, f, r, tau, a, b, c, d] =>
    let (f, r, e0, eps) := (fl f, fl r, cx a b, cx c d)
    let k0 := k0OfFreq pi (fl freq)
    match eeffOf kind f e0 eps with
    | .ok eeff =>
      let ks := if micro == "sph" then
                  (if kind == "mg" then ibaMgKsStatic pi k0 (Micro.sphFt pi f r 0) e0 eps
                   else ibaKsStaticSphere pi k0 f r e0 eps eeff)
                else
                  (if kind == "mg" then ibaMgKsStatic pi k0 (Micro.shsFtT pi f r (Micro.shsT (tauOf tau) f) 0) e0 eps
                   else ibaKsStaticShs pi k0 f r (Micro.shsT (tauOf tau) f) e0 eps eeff)
      let ft0 := if micro == "sph" then Micro.sphFt pi f r 0 else Micro.shsFtT pi f r (Micro.shsT (tauOf tau) f) 0
      out [ft0, ks]
    | .error e => e
  | ["computet", tau, f] =>
    match shsComputeT (tauOf tau) (fl f) with
    | .ok t => out [t]
    | .error e => s!"ERR {e.name}"
  | ["qca", freq, f, r, tau, a, b, c, d] =>
    let (f, r, e0, es) := (fl f, fl r, cx a b, cx c d)
    let k0 := qcaK0 pi (fl freq) e0
    match shsComputeT (tauOf tau) f with
    | .error e => s!"ERR {e.name}"
    | .ok t =>
      match qcaKs f r t k0 e0 es with
      | .error e => s!"ERR {e.name}"
      | .ok ks =>
        let E := qcaEeff f r t k0 e0 es
        out [E.re, E.im, ks, qcaKa f r t k0 e0 es]
  | ["qcacp", freq, f, r, tau, a, b, c, d] =>
    let (f, r, e0, es) := (fl f, fl r, cx a b, cx c d)
    let kv := k0OfLambda pi (fl freq)
    match shsComputeT (tauOf tau) f with
    | .error e => s!"ERR {e.name}"
    | .ok t =>
      let E := qcacpEeff f r t kv e0 es
      out [E.re, E.im, qcacpKs f r t kv e0 es, qcacpKa f r t kv e0 es]
  | ["sce", freq, f, a, b, c, d, p, q] =>
    let (ke, ks) := sceKeKs (k0OfFreq pi (fl freq)) (fl f) (cx a b) (cx c d) (cx p q)
    out [ke, ks]
  | ["symsce", inv, freq, f, a, b, c, d, p, q, u, v] =>
    let args := (fl f, cx a b, cx c d, cx p q, cx u v)
    let (f, e0, eps, A2, A2inv) := if inv == "1" then invertArgs args else args
    let (ke, ks) := symsceKeKs (k0OfFreq pi (fl freq)) f e0 eps A2 A2inv
    out [ke, ks]
  | ["a2exp", Q, f, xi] =>
    let z := a2LocalExp pi (fl Q) (fl f) (fl xi)
    out [z.re, z.im, a2NonlocalImExp (fl Q) (fl f) (fl xi)]
  | ["a2sph", Q, f, R] =>
    let z := a2LocalSphere pi (fl Q) (fl f) (fl R)
    out [z.re, z.im]
  | _ => "ERR unknown-op"

end Smrt.Driver.C11
