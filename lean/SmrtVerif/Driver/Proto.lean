/-
  Line protocol shared by all drivers: one operation per input line, one canonical line out.
  Floats travel as the decimal value of their IEEE-754 bit pattern, so both directions are exact.
-/
import SmrtVerif.Model.Basic

namespace Smrt.Driver

def tokens (line : String) : List String :=
  (line.trimAscii.toString.splitOn " ").filter (· ≠ "")

def fl? (s : String) : Option Float :=
  let t := if s.startsWith "f" then (s.drop 1).toString else s
  (t.toNat?).map (fun n => Float.ofBits (UInt64.ofNat n))
def fl (s : String) : Float := (fl? s).getD (0.0 / 0.0)
def nat (s : String) : Nat := s.toNat?.getD 0
def int (s : String) : Int := s.toInt?.getD 0

def showF (x : Float) : String := "f" ++ toString x.toBits.toNat

def showFs (xs : Array Float) : String := " ".intercalate (xs.toList.map showF)

/-- parse all tokens of a list as floats -/
def floats (ts : List String) : Array Float := (ts.map fl).toArray

/-- 2-d accessor into a flat row-major array -/
def at2 (a : Array Float) (c : Nat) (i j : Nat) : Float := a.getD (i * c + j) 0.0

partial def loop (h : IO.FS.Stream) (out : IO.FS.Stream) (handle : List String → String) : IO Unit := do
  let line ← h.getLine
  if line.isEmpty then return ()
  let ts := tokens line
  if ts.isEmpty then out.putStrLn "" else out.putStrLn (handle ts)
  loop h out handle

def mainLoop (handle : List String → String) : IO Unit := do
  let i ← IO.getStdin
  let o ← IO.getStdout
  loop i o handle
  o.flush

end Smrt.Driver
