/- driver for C02: the textbook incoherent multilayer solution; other ops go to the DORT driver -/
import SmrtVerif.Model.Textbook
import SmrtVerif.Driver.Dort

namespace Smrt.Driver.C02
open Smrt Smrt.Textbook Smrt.Driver

def parseLayers : List String → List (SLayer Float)
  | t :: T :: rt :: tu :: rb :: td :: r => ⟨fl t, fl T, fl rt, fl tu, fl rb, fl td⟩ :: parseLayers r
  | _ => []

def handle : List String → String
  | "textbook" :: tsub :: tsky :: rAir :: tauAir :: r =>
    showF (brightness (fl tsub) (fl tsky) (fl rAir) (fl tauAir) (parseLayers r))
  | ts => Smrt.Driver.DortD.handle ts

end Smrt.Driver.C02
