/- driver for C08: control flow under eigen-solver failures, validate_eigen, pruning; other ops go to the DORT driver -/
import SmrtVerif.Model.DortFlow
import SmrtVerif.Driver.Dort

namespace Smrt.Driver.C08
open Smrt Smrt.Flow Smrt.Driver

def b (x : Bool) : String := if x then "1" else "0"

def handle : List String → String
  | ["flow", act, mmax, Ls, hs, l, m, coh] =>
    let site : Site := ⟨nat l, nat m, coh == "1"⟩
    let fail : Site → Bool := fun s => s == site
    match modeLoop (act == "1") (nat mmax) (nat Ls) fail (if hs == "nan" then .nan else .exception) with
    | .raised => "raised"
    | .values k => s!"values {b k.vhvh} {b k.vhu} {b k.uvh} {b k.uu}"
  | "validate" :: mx :: n1 :: r =>
    let k := nat n1
    let a := (r.take k).map fl
    let e := (r.drop k).map fl
    if eigenRejected (fl mx) a e then "reject" else "accept"
  | "kept" :: tau :: r => toString (keptLayers (fl tau) (r.map fl) (0 : Float))
  | ts => Smrt.Driver.DortD.handle ts

end Smrt.Driver.C08
