/- driver for the result / sensor / plugin model (C19 correspondence) -/
import SmrtVerif.Model.ResultMap
import SmrtVerif.Gen.C19Sensors
import SmrtVerif.Gen.C19Plugins
import SmrtVerif.Driver.Proto

namespace Smrt.Driver.C19
open Smrt Smrt.RM Smrt.Driver

/-- token-stream parser -/
abbrev P := StateT (List String) (Except String)

def tok : P String := do
  match (← get) with
  | [] => throw "eof"
  | t :: r => set r; pure t

def pnat : P Nat := do pure (nat (← tok))

def rep {β : Type} (n : Nat) (p : P β) : P (List β) := (List.range n).mapM fun _ => p

def pfix : P Fix := do
  let n ← pnat
  rep n (do let d ← tok; let v ← tok; pure (d, v))

def pcm : P (List Chan) := do
  let n ← pnat
  rep n (do let name ← tok; let fx ← pfix; pure ⟨name, fx⟩)

def pres : P (Res Float) := do
  let nd ← pnat
  let dims ← rep nd tok
  let nc ← pnat
  let cells ← rep nc (do let k ← rep nd tok; let v ← tok; pure (k, fl v))
  pure ⟨dims, cells⟩

def popt : P (Option String) := do
  let t ← tok
  pure (if t == "-" then none else some t)

def errTok (e : Err) : String := "ERR " ++ e.name

/-- a source: one result with its channel map, or the concatenation of several along a new dimension -/
def psource : P (Except Err (Res Float × List Chan)) := do
  let k ← tok
  if k == "one" then
    let r ← pres; let cm ← pcm
    pure (.ok (r, cm))
  else if k == "cat" then
    let name ← tok
    let n ← pnat
    let parts ← rep n (do let v ← tok; let r ← pres; let cm ← pcm; pure (v, r, cm))
    let vals := parts.map (·.1)
    pure ((Res.concat name vals (parts.map (·.2.1))).map fun r => (r, Res.concatMaps name vals (parts.map (·.2.2))))
  else throw ("bad source " ++ k)

/-- canonical text of a key: `dim=coord;…` sorted by dimension name, `-` for no dimension -/
def showKey (dims : List String) (k : Key) : String :=
  let ps := (dims.zip k).map fun p => p.1 ++ "=" ++ p.2
  if ps.isEmpty then "-" else ";".intercalate (ps.mergeSort fun a b => !(b < a))

def showCells (cells : List (String × String)) : String :=
  " ".intercalate ((cells.mergeSort fun a b => !(b.1 < a.1)).map fun c => c.1 ++ " " ++ c.2)

def showRes (r : Res Float) : String :=
  s!"n={r.cells.length} " ++ showCells (r.cells.map fun c => (showKey r.dims c.1, showF c.2))

def showCM (cm : List Chan) : String :=
  " ".intercalate ((cm.map fun c => c.name ++ ":" ++ showKey (c.fixes.map (·.1)) (c.fixes.map (·.2))).mergeSort fun a b => !(b < a))

def showFrame (f : Frame Float) : String :=
  "cols " ++ " ".intercalate f.columns ++ s!" rows={f.rows.length} " ++
    showCells (f.rows.map fun r => (showKey f.index r.1, " ".intercalate (r.2.map showF)))

def pi : Float := 3.141592653589793

def query (kind : String) (r : Res Float) (cm : List Chan) (ch : Option String) (kw : Fix) : Except Err (Res Float) :=
  if kind == "tb" then r.tb cm ch kw
  else if kind == "sigma" then Res.sigmaOut pi fl r cm ch kw
  else Res.sigmaDB pi fl r cm ch kw

/-- the un-squeezed selection the data-frame exports are built from -/
def queryRaw (kind : String) (r : Res Float) (cm : List Chan) (ch : Option String) (kw : Fix) : Except Err (Res Float) :=
  if kind == "tb" then r.selData cm ch kw
  else if kind == "sigma" then Res.sigma pi fl r cm ch kw
  else (Res.sigma pi fl r cm ch kw).map (Res.mapVals dB)

def out (x : Except Err String) : String :=
  match x with
  | .ok s => s
  | .error e => errTok e

def run : P String := do
  let op ← tok
  if op == "sel" then
    -- sel <tb|sigma|sigmadb> <channel|-> <kw> <source>
    let kind ← tok; let ch ← popt; let kw ← pfix; let src ← psource
    pure (out (do let (r, cm) ← src; let x ← query kind r cm ch kw; pure (showRes x)))
  else if op == "sellist" then
    -- sellist <sigma|sigmadb> <k> <theta_1 … theta_k> <kw> <source>: sigma(theta=[…], **kw) with a list of incidence angles
    let kind ← tok; let k ← tok; let ts ← (List.range k.toNat!).mapM (fun _ => tok); let kw ← pfix; let src ← psource
    pure (out (do
      let (r, cm) ← src
      let x ← Res.sigmaList pi fl r cm none kw ts
      pure (showRes (if kind == "sigma" then x.squeeze else (x.mapVals dB).squeeze))))
  else if op == "explicit" then
    -- the same selection with the channel's coordinates written out by the caller
    let kind ← tok; let ch ← tok; let src ← psource
    pure (out (do
      let (r, cm) ← src
      let fx ← r.channelFix cm ch
      let x ← query kind r cm none fx
      pure (showRes x)))
  else if op == "frame" then
    -- frame <tb|sigma|sigmadb> <kw> <source>: to_dataframe(channel_axis="column")
    let kind ← tok; let kw ← pfix; let src ← psource
    pure (out (do
      let (r, cm) ← src
      let f ← Res.frameByChannel (fun c => queryRaw kind r cm (some c) kw) cm
      pure (showFrame f)))
  else if op == "series" then
    let kind ← tok; let kw ← pfix; let src ← psource
    pure (out (do
      let (r, cm) ← src
      let f ← Res.frameByChannel (fun c => queryRaw kind r cm (some c) kw) cm
      match Res.seriesOf f with
      | some s => pure (" ".intercalate (s.map fun p => p.1 ++ " " ++ showF p.2))
      | none => throw .key))
  else if op == "frameall" then
    -- to_dataframe(channel_axis=None)
    let kind ← tok; let kw ← pfix; let src ← psource
    pure (out (do
      let (r, cm) ← src
      let x ← queryRaw kind r cm none kw
      pure (showFrame (x.toFrame "v"))))
  else if op == "dump" then
    let src ← psource
    pure (out (do let (r, cm) ← src; pure (showRes r ++ " | " ++ showCM cm)))
  else if op == "saveload" then
    let mode ← tok; let r ← pres
    let (m, r') := load (save mode r)
    pure (m ++ " " ++ showRes r')
  else if op == "loadguess" then
    let r ← pres
    let (m, r') := load { save "?" r with mode := "?" }
    pure (m ++ " " ++ showRes r')
  else if op == "db" then pure (showF (dB (fl (← tok))))
  else if op == "invdb" then pure (showF (invdB (fl (← tok))))
  else if op == "sigmalin" then
    let t ← tok; let x ← tok
    pure (showF (sigmaLin pi (fl t) (fl x)))
  else if op == "wavelength" then
    let c ← tok; let f ← tok
    pure (showF (wavelengthOf (fl c) (fl f)) ++ " " ++ showF (fl f * wavelengthOf (fl c) (fl f)))
  else if op == "frequency" then
    let c ← tok; let w ← tok
    pure (showF (frequencyOf (fl c) (fl w)))
  else if op == "angles" then
    let n ← pnat; let th ← rep n tok
    pure (match checkAngles th with | .ok _ => "ok" | .error e => errTok e)
  else if op == "mode" then
    let t ← tok
    pure (sensorMode (if t == "-" then none else some [t]))
  else if op == "sensor" then
    -- the record of the regenerated table: dims and channel map
    let i ← pnat
    match Gen.C19.allSensors[i]? with
    | none => pure "ERR index"
    | some s =>
      pure (s.mode ++ " " ++ " ".intercalate (s.dims.map fun d => d.1 ++ "=" ++ ",".intercalate d.2) ++ " | " ++ showCM s.channels)
  else if op == "pick" then
    -- plugin.import_class(dir, module) without user packages
    let dir ← tok; let m ← tok
    let smrtPkg : Pkg := fun q => List.find? (fun (x : Mod) => x.dir ++ "." ++ x.name == q) Gen.C19.plugins
    pure (match importClass [] smrtPkg (dir ++ "." ++ m) with
      | .cls _ c => "cls " ++ c
      | .noClass => "ERR SMRTError:noclass"
      | .noModule => "ERR SMRTError:nomodule"
      | .relative => "ERR SMRTError:relative")
  else if op == "implements" then
    -- is the module a model module, and does the class the rule picks implement the directory's interface?
    let dir ← tok; let m ← tok
    match List.find? (fun (x : Mod) => x.dir == dir && x.name == m) Gen.C19.plugins with
    | none => pure "ERR SMRTError:nomodule"
    | some x =>
      let picked := match x.pick with
        | some c => Gen.C19.plugins.implements x.dir (x.qual c)
        | none => false
      pure (s!"model={if x.isModel Gen.C19.plugins then "yes" else "no"} picked={if picked then "yes" else "no"}")
  else if op == "customok" then
    let name ← tok; let hz ← pnat; let pol ← tok
    pure (if decide (CustomNameOk (name, hz, pol)) then "ok" else "bad")
  else if op == "importu" then
    -- importu <dir> <module> <nuser> { <nmods> { <modname> <ncls> {cls} } }   user packages, most recently registered first
    let dir ← tok; let m ← tok
    let nu ← pnat
    let user ← rep nu (do
      let nm ← pnat
      let mods ← rep nm (do
        let name ← tok; let nc ← pnat; let cs ← rep nc tok
        pure (name, cs))
      let p : Pkg := fun q => (mods.find? fun x => x.1 == q).map fun x => ⟨dir, x.1, x.2.map fun c => ⟨c, [], [], none⟩⟩
      pure p)
    let smrtPkg : Pkg := fun q => List.find? (fun (x : Mod) => x.dir ++ "." ++ x.name == q) Gen.C19.plugins
    pure (match importClass user smrtPkg (dir ++ "." ++ m) with
      | .cls i c => s!"cls {i} {c}"
      | .noClass => "ERR SMRTError:noclass"
      | .noModule => "ERR SMRTError:nomodule"
      | .relative => "ERR SMRTError:relative")
  else pure "ERR unknown-op"

def handle (ts : List String) : String :=
  match run.run ts with
  | .ok (s, _) => s
  | .error e => "ERR parse:" ++ e

end Smrt.Driver.C19
