/- driver for the altimetry model (C18 correspondence) -/
import SmrtVerif.Model.Altimetry
import SmrtVerif.Driver.Proto

namespace Smrt.Driver.C18
open Smrt Smrt.Altimetry Smrt.Driver

abbrev F := Float

def showL (xs : List F) : String := " ".intercalate (xs.map showF)
def showB (xs : List Bool) : String := " ".intercalate (xs.map fun b => if b then "1" else "0")
def bool (s : String) : Bool := s == "1"

/-- take `k` floats from a token list -/
def takeF (k : Nat) (ts : List String) : List F × List String := ((ts.take k).map fl, ts.drop k)

/-- split a flat list into `r` rows of `c` -/
def rowsOf (r c : Nat) (xs : List F) : List (List F) := (List.range r).map fun i => (xs.drop (i * c)).take c

def parseStack (nl nmu : Nat) (hasSub : Bool) (ts : List String) : Stack F × List String :=
  let (eps, ts) := takeF nl ts
  let (ke, ts) := takeF nl ts
  let (ph, ts) := takeF nl ts
  let (tr, ts) := takeF nl ts
  let (echo, ts) := takeF (nmu * nl) ts
  let (sub, ts) := if hasSub then takeF nmu ts else ([], ts)
  ({ eps := eps, ke := ke, phase := ph, trans := tr, echo := rowsOf nmu nl echo,
     subEcho := if hasSub then some sub else none }, ts)

def showRows (rows : List (List F)) : String :=
  s!"{rows.length} {(rows.headD []).length} " ++ " ".intercalate (rows.map showL)

def handle : List String → String
  | "ff" :: na :: nm :: r =>
    let (a, r) := takeF (nat na) r
    showL (fillForward a ((r.take (nat nm)).map bool))
  | "fill" :: na :: nm :: r =>
    let (a, r) := takeF (nat na) r
    showL (fill a ((r.take (nat nm)).map bool))
  | "conv" :: na :: nb :: r =>
    let (a, r) := takeF (nat na) r
    let (b, _) := takeF (nat nb) r
    showL (conv a b)
  | "interp" :: nx :: np :: r =>
    let (xs, r) := takeF (nat nx) r
    let (xp, r) := takeF (nat np) r
    let (fp, _) := takeF (nat np) r
    showL (xs.map fun x => interp x xp fp)
  | "grid" :: nl :: ng :: r =>
    let (zl, r) := takeF (nat nl + 1) r
    let (zg, _) := takeF (nat ng) r
    let g := grid zl zg
    let tags := g.map Prod.snd
    let z := g.map Prod.fst
    s!"{showL z.dropLast} | {showL (diff z)} | {showB (tags.map Tag.isGate)} | {showB (tags.map Tag.isLay).dropLast} | {showB (tags.map Tag.isInterface)}"
  | "vsd" :: nl :: ng :: nmu :: contrib :: hasSub :: r =>
    let (zl, r) := takeF (nat nl + 1) r
    let (zg, r) := takeF (nat ng) r
    let (st, _) := parseStack (nat nl) (nat nmu) (bool hasSub) r
    let inp : Input F := { ngate := 0, bw := 0, zl := zl, zg := zg, stack := st, pfs := [] }
    let tags := gridTags inp
    let dz := gridDz inp
    if bool contrib then showRows (vsdContrib st tags dz (nat nmu)) else showRows [vsdTotal st tags dz]
  | "solve" :: nl :: ng :: nmu :: ngate :: os :: tis :: rc :: ro :: sk :: rt :: hasSub :: npfs :: bw :: r =>
    let (zl, r) := takeF (nat nl + 1) r
    let (zg, r) := takeF (nat ng) r
    let (st, r) := parseStack (nat nl) (nat nmu) (bool hasSub) r
    let (pfs, _) := takeF (nat npfs) r
    let o : Opts := { oversampling := nat os, tis := nat tis, rc := bool rc, ro := bool ro, sk := bool sk, rt := bool rt }
    let inp : Input F := { ngate := nat ngate, bw := fl bw, zl := zl, zg := zg, stack := st, pfs := pfs }
    match solve o inp with
    | .ok (rows, z) => s!"ok {showRows rows} z {showL z}"
    | .error e => s!"ERR {e.name}"
  | _ => "ERR parse"

end Smrt.Driver.C18
