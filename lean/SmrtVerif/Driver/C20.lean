/- driver for the container model (C20 correspondence) -/
import SmrtVerif.Model.Container
import SmrtVerif.Model.Fourier
import SmrtVerif.Driver.Proto

namespace Smrt.Driver.C20
open Smrt Smrt.Driver

abbrev F := Float

def errLine (e : Err) : String := s!"ERR {e.name}"

/-- take `k` floats from a token list -/
def takeF (k : Nat) (ts : List String) : Array F × List String := (floats (ts.take k), ts.drop k)

def parseSM : List String → Option (SM F × List String)
  | "0" :: r => some (.zero, r)
  | "d4" :: a :: b :: r =>
    let (np, n) := (nat a, nat b)
    let (v, r) := takeF (np * n) r
    some (.diag4 np n (fun p i => v.getD (p * n + i) 0), r)
  | "d5" :: a :: b :: c :: r =>
    let (np, nm, n) := (nat a, nat b, nat c)
    let (v, r) := takeF (np * nm * n) r
    some (.diag5 np nm n (fun p m i => v.getD ((p * nm + m) * n + i) 0), r)
  | "e4" :: a :: b :: c :: r =>
    let (np, ns, ni) := (nat a, nat b, nat c)
    let (v, r) := takeF (np * np * ns * ni) r
    some (.dense4 np ns ni (fun p q i j => v.getD (((p * np + q) * ns + i) * ni + j) 0), r)
  | "e5" :: a :: b :: c :: d :: r =>
    let (np, nm, ns, ni) := (nat a, nat b, nat c, nat d)
    let (v, r) := takeF (np * np * nm * ns * ni) r
    some (.dense5 np nm ns ni (fun p q m i j => v.getD ((((p * np + q) * nm + m) * ns + i) * ni + j) 0), r)
  | _ => none

def rng (n : Nat) : List Nat := List.range n

def showSM : SM F → String
  | .zero => "0"
  | .diag4 np n v => s!"d4 {np} {n} " ++ " ".intercalate ((rng np).flatMap fun p => (rng n).map fun i => showF (v p i))
  | .diag5 np nm n v => s!"d5 {np} {nm} {n} " ++ " ".intercalate
      ((rng np).flatMap fun p => (rng nm).flatMap fun m => (rng n).map fun i => showF (v p m i))
  | .dense4 np ns ni v => s!"e4 {np} {ns} {ni} " ++ " ".intercalate
      ((rng np).flatMap fun p => (rng np).flatMap fun q => (rng ns).flatMap fun i => (rng ni).map fun j => showF (v p q i j))
  | .dense5 np nm ns ni v => s!"e5 {np} {nm} {ns} {ni} " ++ " ".intercalate
      ((rng np).flatMap fun p => (rng np).flatMap fun q => (rng nm).flatMap fun m =>
        (rng ns).flatMap fun i => (rng ni).map fun j => showF (v p q m i j))

def showMat (m : Mat F) : String :=
  s!"dense {m.r} {m.c} " ++ " ".intercalate ((rng m.r).flatMap fun i => (rng m.c).map fun j => showF (m.f i j))
def showDiag (d : Diag F) : String := s!"diag {d.n} " ++ " ".intercalate ((rng d.n).map fun i => showF (d.d i))
def showCV : CV F → String
  | .zero => "0" | .diag d => showDiag d | .dense m => showMat m

def showE {β} (sh : β → String) : Except Err β → String
  | .ok x => sh x | .error e => errLine e

def parseMat (ts : List String) : Mat F × List String :=
  match ts with
  | a :: b :: r =>
    let (rr, cc) := (nat a, nat b)
    let (v, r) := takeF (rr * cc) r
    (⟨rr, cc, fun i j => at2 v cc i j⟩, r)
  | _ => (⟨0, 0, fun _ _ => 0⟩, [])

def parseDiag (ts : List String) : Diag F × List String :=
  match ts with
  | a :: r =>
    let n := nat a
    let (v, r) := takeF n r
    (⟨n, fun i => v.getD i 0⟩, r)
  | _ => (⟨0, fun _ => 0⟩, [])

def parseCV : List String → CV F × List String
  | "0" :: r => (.zero, r)
  | "diag" :: r => let (d, r) := parseDiag r; (.diag d, r)
  | "dense" :: r => let (m, r) := parseMat r; (.dense m, r)
  | r => (.zero, r)

def handle : List String → String
  | "dd_matmul" :: r => let (a, r) := parseDiag r; let (b, _) := parseDiag r; showDiag (a.matmulDiag b)
  | "dm_matmul" :: r => let (a, r) := parseDiag r; let (m, _) := parseMat r; showMat (a.matmulMat m)
  | "md_matmul" :: r => let (m, r) := parseMat r; let (a, _) := parseDiag r; showMat (Diag.rmatmul m a)
  | "d_mul" :: r => let (a, r) := parseDiag r; showDiag (a.mulScalar (fl (r.headD "0")))
  | "d_rmul" :: r => let (a, r) := parseDiag r; showDiag (Diag.rmulScalar (fl (r.headD "0")) a)
  | "dd_add" :: r => let (a, r) := parseDiag r; let (b, _) := parseDiag r; showDiag (a.addDiag b)
  | "dd_sub" :: r => let (a, r) := parseDiag r; let (b, _) := parseDiag r; showDiag (a.subDiag b)
  | "dm_add" :: r => let (a, r) := parseDiag r; let (m, _) := parseMat r; showMat (a.addMat m)
  | "d_get" :: r => let (a, r) := parseDiag r
      match r with
      | i :: j :: _ => showF (a.getItem (nat i) (nat j))
      | _ => "ERR parse"
  | "d_todense" :: r => let (a, _) := parseDiag r; showMat a.toMat
  | "mm_matmul" :: r => let (a, r) := parseMat r; let (b, _) := parseMat r; showMat (a.mul b)
  | "cv_matmul" :: r => let (a, r) := parseCV r; let (b, _) := parseCV r; showCV (a.matmul b)
  | "cv_muleye" :: r => let (a, _) := parseCV r
      let n := a.rows
      " ".intercalate ((rng n).map fun i => showF (CV.muleye n a i))
  | "compress" :: mode :: ar :: r =>
      match parseSM r with
      | some (s, _) => showE showCV (s.compress (if mode == "-1" then none else some (nat mode)) (ar == "1"))
      | none => "ERR parse"
  | "sel" :: mode :: ar :: r =>
      match parseSM r with
      | some (s, _) => showE showSM (s.sel (nat mode) (ar == "1"))
      | none => "ERR parse"
  | "todense" :: r =>
      match parseSM r with
      | some (s, _) => showE showSM s.toDense
      | none => "ERR parse"
  | "diagonal" :: r =>
      match parseSM r with
      | some (s, _) => showSM s.diagonal
      | none => "ERR parse"
  | "add" :: r =>
      match parseSM r with
      | some (a, r) => match parseSM r with
        | some (b, _) => showE showSM (a.add b)
        | none => "ERR parse"
      | none => "ERR parse"
  | "sub" :: r =>
      match parseSM r with
      | some (a, r) => match parseSM r with
        | some (b, _) => showE showSM (a.sub b)
        | none => "ERR parse"
      | none => "ERR parse"
  | "muls" :: s :: r =>
      match parseSM r with
      | some (a, _) => showSM (a.mulScalar (fl s))
      | none => "ERR parse"
  | "todiag" :: us :: ncs :: ois :: ojs :: ns :: ms :: r =>
      let (u, nc, oi, oj, n, m) := (nat us, nat ncs, nat ois, nat ojs, nat ns, nat ms)
      let nr := 2 * u + 1
      let (init, r) := takeF (nr * nc) r
      let (d, _) := takeF (n * m) r
      if !(blockInBand u oi oj n m) || oj + m > nc then errLine .index else
      let b0 : Banded F := fun row c => if row < 0 then 0 else at2 init nc row.toNat c
      let b := todiag u oi oj n m (fun i j => at2 d m i j) b0
      " ".intercalate ((rng nr).flatMap fun (row : Nat) => (rng nc).map fun c => showF (b (Int.ofNat row) c))
  | "banded_dense" :: us :: ns :: r =>
      let (u, n) := (nat us, nat ns)
      let (ab, _) := takeF ((2 * u + 1) * n) r
      let b : Banded F := fun row c => if row < 0 then 0 else at2 ab n row.toNat c
      let dm := b.toDense u
      " ".intercalate ((rng n).flatMap fun i => (rng n).map fun j => showF (dm i j))
  | "offsets" :: np :: r =>
      let npol := nat np
      let ns := r.map nat
      let L := rng ns.length
      let sh (f : Nat → Nat) := " ".intercalate (L.map fun l => toString (f l))
      s!"{sh (jl npol ns)} | {sh (ilTop npol ns)} | {sh (ilBottom npol ns)} | {nband npol ns} {nboundary npol ns}"
  | "fourier" :: np :: Ns :: mm :: nss :: nis :: r =>
      let (npol, N, mmax, ns, ni) := (nat np, nat Ns, nat mm, nat nss, nat nis)
      let K := N / 2 + 1
      let (v, _) := takeF (npol * npol * K * ns * ni) r
      let smp (p q i j k : Nat) : F := v.getD ((((p * npol + q) * K + k) * ns + i) * ni + j) 0
      " ".intercalate ((rng npol).flatMap fun p => (rng npol).flatMap fun q => (rng (mmax + 1)).flatMap fun m =>
        (rng ns).flatMap fun i => (rng ni).map fun j => showF (ftEvenCoef piLit npol N p q m (smp p q i j)))
  | "layout" :: np :: r =>
      let npol := nat np
      let ns := r.map nat
      s!"{nband npol ns} {nboundary npol ns}"
  | "extend2vec" :: np :: ls :: r =>
      let (npol, len) := (nat np, nat ls)
      let (x, _) := takeF len r
      " ".intercalate ((rng (len / 2 * npol)).map fun i => showF (extend2polVec npol (fun k => x.getD k 0) i))
  | "extend2mat" :: np :: rs :: cs :: r =>
      let (npol, rr, cc) := (nat np, nat rs, nat cs)
      let (x, _) := takeF (rr * cc) r
      " ".intercalate ((rng (rr / 2 * npol)).flatMap fun i => (rng (cc / 2 * npol)).map fun j =>
        showF (extend2polMat npol (fun a b => at2 x cc a b) i j))
  | _ => "ERR unknown-op"

end Smrt.Driver.C20
