/- driver for the mixing-formula model (C15 correspondence) -/
import SmrtVerif.Model.Mixing
import SmrtVerif.Driver.Proto

namespace Smrt.Driver.C15
open Smrt Smrt.Mixing Smrt.Driver

abbrev F := Float

def shape : String → Shape
  | "S" => .spheres | "N" => .needles | _ => .other

def showC (z : Cx F) : String := s!"{showF z.re} {showF z.im}"
def showR : Except Mixing.Err (Cx F) → String
  | .ok z => showC z
  | .error e => s!"ERR {e.name}"

def cx (a b : String) : Cx F := ⟨fl a, fl b⟩
def flag (s : String) : Bool := s == "1"

/-- `n` (shape, weight) pairs, then the rest -/
def takePairs : Nat → List String → List (Shape × F) × List String
  | 0, r => ([], r)
  | n+1, s :: w :: r => let (ps, rest) := takePairs n r; ((shape s, fl w) :: ps, rest)
  | _, r => ([], r)

def handle : List String → String
  | ["depol", lr] =>
    let (a, b, c) := depolFactors (fl lr)
    s!"{showF a} {showF b} {showF c}"
  | ["pvs", s, d, f, a, b, c, e] => showR (pvs (shape s) (fl f) (cx a b) (cx c e) (flag d))
  | "pvsmix" :: d :: n :: r =>
    match takePairs (nat n) r with
    | (ps, [f, a, b, c, e]) => showR (pvsMixture (fl f) (cx a b) (cx c e) (flag d) ps)
    | _ => "ERR parse"
  | "pvslist" :: d :: ns :: r =>
    let n := nat ns
    let shapes := (r.take n).map shape
    match r.drop n with
    | nr :: r2 =>
      let k := nat nr
      let rs := (r2.take k).map fl
      match r2.drop k with
      | [f, a, b, c, e] => showR (pvsList (fl f) (cx a b) (cx c e) (flag d) shapes rs)
      | _ => "ERR parse"
    | _ => "ERR parse"
  | ["mg", ok, f, a, b, c, e, a1, a2, a3] =>
    showR (maxwellGarnett (fl f) (cx a b) (cx c e) (flag ok) (fl a1, fl a2, fl a3))
  | ["mglr", ok, f, a, b, c, e, lr] =>
    showR (maxwellGarnett (fl f) (cx a b) (cx c e) (flag ok) (depolFactors (fl lr)))
  | ["mgs", f, a, b, c, e] => showC (mgSpheres (fl f) (cx a b) (cx c e))
  | ["hs", f, a, b, c, e] => showC (hashinShtrikman (fl f) (cx a b) (cx c e))
  | ["r3s", f1, f2, a0, b0, a1, b1, a2, b2, xr, xi] =>
    showC (resid3Sph (fl f1) (fl f2) (cx a0 b0) (cx a1 b1) (cx a2 b2) (cx xr xi))
  | "r3g" :: f1 :: f2 :: a0 :: b0 :: a1 :: b1 :: a2 :: b2 :: xr :: xi :: n1 :: r =>
    let k := nat n1
    let A1 := (r.take k).map fl
    let A2 := (r.drop k).map fl
    showC (resid3Gen (fl f1) (fl f2) (cx a0 b0) (cx a1 b1) (cx a2 b2) A1 A2 (cx xr xi))
  | _ => "ERR unknown-op"

end Smrt.Driver.C15
