/- driver for the viewing-angle model (C06 correspondence) -/
import SmrtVerif.Model.Angles
import SmrtVerif.Driver.Proto

namespace Smrt.Driver.C06
open Smrt Smrt.Angles Smrt.Driver

abbrev F := Float
def arr (a : Array F) : Nat → F := fun i => a.getD i 0

def showRes : Except Angles.Err (List (List F)) → String
  | .error _ => "ERR SMRTError"
  | .ok rows => " ".intercalate (rows.flatMap fun r => r.map showF)

def handle : List String → String
  | "passive" :: ns :: ks :: r =>
    let (n, k) := (nat ns, nat ks)
    let v := floats r
    let mu := arr (v.extract 0 n); let iv := arr (v.extract n (2*n)); let ih := arr (v.extract (2*n) (3*n))
    let req := arr (v.extract (3*n) (3*n+k))
    showRes (solveComps n mu (passiveComps iv ih 0.5) k req)
  | "active" :: ns :: ks :: r =>
    let (n, k) := (nat ns, nat ks)
    let v := floats r
    let mu := arr (v.extract 0 n)
    let c (p q i : Nat) : F := v.getD (n + (i * 3 + p) * 3 + q) 0     -- intensity[i, p, q]
    let req := arr (v.extract (n + 9*n) (n + 9*n + k))
    showRes (solveComps n mu (activeComps c 0.5) k req)
  | "streams" :: ns :: r =>
    let n := nat ns
    let v := floats r
    let outmu := arr (v.extract 0 n)
    let mus := (v.extract n v.size).toList
    " ".intercalate ((incidentStreams n outmu mus).map toString)
  | _ => "ERR unknown-op"

end Smrt.Driver.C06
