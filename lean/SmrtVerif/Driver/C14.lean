/- driver for the injection model (C14 correspondence).  Attribute values are opaque tokens.

   input lines
     inj  <fspec> <layerarg> <npos> v… <nkw> k v …            f(*pos, layer_to_inject=…, **kw)
     perm <pm> <attrs> <i> <frequency>                         Layer.permittivity(i, frequency)
     eff  <fspec> <attrs> <navail> k v …                       the mixin's effective_permittivity (before the sign test)
     passive <im>                                              the sign test
   fspec    = tbl <name>   (looked up in the regenerated table)  |  adhoc <name> <nreq> r… <nopt> o… <npar> p… <ndef>
   layerarg = none | other | layer <attrs>        attrs = <n> k v …
   pm       = none | <n> entry…                   entry = c <v> | d <fspec> | p <name>
   output
     call <fn> pos <n> v… kw <n> k v… (sorted by key) bound <n> (p g v | p d)…   |   value <v>   |   ok   |   ERR …
-/
import SmrtVerif.Model.Inject
import SmrtVerif.Gen.C14Decls
import SmrtVerif.Driver.Proto

namespace Smrt.Driver.C14
open Smrt Smrt.Inject Smrt.Driver

abbrev P := StateT (List String) (Except String)

def tok : P String := do
  match (← get) with
  | [] => throw "eof"
  | t :: r => set r; pure t

def pnat : P Nat := do pure (nat (← tok))

def rep {β : Type} (n : Nat) (p : P β) : P (List β) := (List.range n).mapM fun _ => p

def pnames : P (List String) := do let n ← pnat; rep n tok

def penv : P (Env String) := do
  let n ← pnat
  rep n (do let k ← tok; let v ← tok; pure (k, v))

def pfspec : P Decl := do
  let k ← tok
  if k == "tbl" then
    let name ← tok
    match Gen.C14.decls.find? (·.name == name) with
    | some d => pure d
    | none => throw ("unknown-function " ++ name)
  else if k == "adhoc" then
    let name ← tok
    let req ← pnames
    let opt ← pnames
    let par ← pnames
    let nd ← pnat
    pure ⟨"adhoc", name, req, opt, [], par, nd, false⟩
  else throw ("bad fspec " ++ k)

def playerarg : P (LayerArg String) := do
  let k ← tok
  if k == "none" then pure .none
  else if k == "other" then pure .other
  else if k == "layer" then pure (.layer (← penv))
  else throw ("bad layer " ++ k)

def pperm : P (Perm String) := do
  let k ← tok
  if k == "c" then pure (.const (← tok))
  else if k == "d" then pure (.decorated (← pfspec))
  else if k == "p" then pure (.plain (← tok))
  else throw ("bad entry " ++ k)

def ppm : P (Option (List (Perm String))) := do
  match (← get) with
  | "none" :: r => set r; pure none
  | _ => let n ← pnat; pure (some (← rep n pperm))

def showArg : String × Arg String → String
  | (p, .given v) => p ++ " g " ++ v
  | (p, .dflt) => p ++ " d"

def showCall (c : Call String) : String :=
  let kw := c.kw.mergeSort (fun a b => !(b.1 < a.1))
  " ".intercalate (["call", c.fn, "pos", toString c.pos.length] ++ c.pos ++ ["kw", toString kw.length] ++
    kw.flatMap (fun kv => [kv.1, kv.2]) ++ ["bound", toString c.bound.length] ++ c.bound.map showArg)

def showRes : Except Err (Call String) → String
  | .ok c => showCall c
  | .error e => e.token

def run : P String := do
  let op ← tok
  if op == "inj" then
    let d ← pfspec
    let la ← playerarg
    let pos ← pnames
    let kw ← penv
    pure (showRes (layerCall d pos kw la))
  else if op == "perm" then
    let pm ← ppm
    let attrs ← penv
    let i := int (← tok)
    let f ← tok
    match layerPermittivity pm attrs i f with
    | .ok (.value v) => pure ("value " ++ v)
    | .ok (.call c) => pure (showCall c)
    | .error e => pure e.token
  else if op == "eff" then
    let d ← pfspec
    let attrs ← penv
    let avail ← penv
    pure (showRes (effectivePermittivity d attrs avail))
  else if op == "passive" then
    let im := fl (← tok)
    match checkPassive im with
    | .ok _ => pure "ok"
    | .error e => pure e.token
  else throw ("bad op " ++ op)

def handle (ts : List String) : String :=
  match run.run ts with
  | .ok (s, _) => s
  | .error e => "ERR driver:" ++ e

end Smrt.Driver.C14
