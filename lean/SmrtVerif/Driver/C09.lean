/- driver for the model of `Model.run` (C09 correspondence) -/
import SmrtVerif.Model.Run
import SmrtVerif.Driver.Proto

namespace Smrt.Driver.C09
open Smrt Smrt.RM Smrt.Run Smrt.Driver

abbrev P (α : Type) := List String → Option (α × List String)

def pTok : P String
  | t :: r => some (t, r)
  | [] => none

def pNat : P Nat
  | t :: r => t.toNat?.map (·, r)
  | [] => none

def pMany {α : Type} (p : P α) : Nat → P (List α)
  | 0, ts => some ([], ts)
  | n + 1, ts => do
    let (a, r) ← p ts
    let (as, r') ← pMany p n r
    pure (a :: as, r')

def pList {α : Type} (p : P α) : P (List α) := fun ts => do
  let (n, r) ← pNat ts
  pMany p n r

def pPair {α β : Type} (p : P α) (q : P β) : P (α × β) := fun ts => do
  let (a, r) ← p ts
  let (b, r') ← q r
  pure ((a, b), r')

def optName (s : String) : Option String := if s == "-" then none else some s

/-- `S <naxes> {axis nvals v…}` -/
def pSensor : P Sensor
  | "S" :: r => pList (pPair pTok (pList pTok)) r
  | _ => none

def pContainer : P (Container String)
  | "single" :: id :: r => some (.single id, r)
  | "seq" :: t :: r => do let (ids, r') ← pList pTok r; pure (.seq ids (t == "T"), r')
  | "dict" :: r => do let (items, r') ← pList (pPair pTok pTok) r; pure (.dict items, r')
  | "series" :: nm :: r => do
    let (items, r') ← pList (pPair pTok pTok) r
    pure (.series (optName nm) (items.map (·.1)) (items.map (·.2)), r')
  | "frame" :: r => do
    let (cols, r1) ← pList pTok r
    let (col, r2) ← pTok r1
    let (nm, r3) ← pTok r2
    let (items, r4) ← pList (pPair pTok pTok) r3
    pure (.frame cols col (optName nm) (items.map (·.1)) (items.map (·.2)), r4)
  | "study" :: v :: r => do
    let (items, r') ← pList (pPair pTok pTok) r
    pure (.study v (items.map (·.1)) (items.map (·.2)), r')
  | _ => none

def pDimArg : P (Option DimArg)
  | "nodim" :: r => some (none, r)
  | "dim" :: name :: isStr :: "novals" :: r => some (some ⟨name, isStr == "1", none⟩, r)
  | "dim" :: name :: isStr :: "vals" :: r => do
    let (vs, r') ← pList pTok r
    pure (some ⟨name, isStr == "1", some vs⟩, r')
  | _ => none

def pSensorArg : P SensorArg
  | "one" :: r => do let (s, r') ← pSensor r; pure (.one s, r')
  | "many" :: r => do let (ss, r') ← pList pSensor r; pure (.many ss, r')
  | _ => none

/-- the stub solver: dimensions = the broadcast axes the sensor has; every cell names the snowpack and the value of each
    of the six axes there -/
def stub (bc : List String) (p : Sensor × String) : Res String :=
  let s := p.1
  let bdims := axisOrder.filter fun a => bc.contains a && (s.lookup a).isSome
  let keys := tuples (bdims.map (values s))
  ⟨bdims, keys.map fun k =>
    (k, p.2 ++ "|" ++ "|".intercalate (axisOrder.map fun a =>
      match bdims.idxOf? a with
      | some j => k.getD j "?"
      | none => match s.lookup a with
        | some vs => ",".intercalate vs
        | none => "-"))⟩

def showRes (r : Res String) : String :=
  "dims:" ++ ",".intercalate r.dims ++ " " ++ " ".intercalate (r.cells.map fun c => ",".intercalate c.1 ++ "=" ++ c.2)

def showOut : Except Err (Res String) → String
  | .ok r => showRes r
  | .error e => "ERR " ++ e.name

structure Call where
  zo : ZipOrder
  bc : List String
  sensor : SensorArg
  cont : Container String
  dimArg : Option DimArg
  col : String

def pCall : List String → Option Call
  | zo :: bc :: r => do
    let (sa, r1) ← pSensorArg r
    let (c, r2) ← pContainer r1
    let (d, r3) ← pDimArg r2
    let (col, _) ← pTok r3
    pure ⟨if zo == "code" then .code else .required, if bc == "-" then [] else bc.splitOn ",", sa, c, d, col⟩
  | _ => none

/-- the specification: the table of the individual simulations -/
def spec (c : Call) : Except Err (Res String) := do
  let nz ← normalise c.cont c.dimArg c.col
  let f := stub c.bc
  match c.sensor with
  | .one s =>
    let ds := sensorConfigurations c.bc s
    match nz.dim with
    | some sd => pure (table (ds ++ [sd]) (simAt f s ds nz.sps))
    | none => pure (table ds fun idx => f (cfgAt s ds idx, nz.sps.getD 0 ""))
  | .many ss =>
    if ss.length != nz.sps.length then throw Err.smrt
    match ss, nz.dim with
    | s0 :: _, some sd =>
      let ds := sensorConfigurations c.bc s0
      pure (table (ds ++ [sd]) (simAtZip f ss ds nz.sps))
    | _, _ => throw Err.shape

def parseSub : String → SubstrateKind
  | "reflectorUnset" => .reflectorUnset
  | "reflectorBackscatterUnset" => .reflectorBackscatterUnset
  | "reflectorBackscatterSet" => .reflectorBackscatterSet
  | "none" => .none
  | _ => .other

def showLoc (l : Loc) : String :=
  match l.owner with
  | .user o => o ++ "." ++ l.field
  | .fresh i inst => s!"fresh{i}:{inst}.{l.field}"
  | .shared c => s!"shared:{c}"

def handle : List String → String
  | "run" :: r =>
    match pCall r with
    | none => "ERR parse"
    | some c =>
      let f := stub c.bc
      let a := runModel c.zo c.bc sequentialRunner f c.sensor c.cont c.dimArg c.col
      -- the same with a runner that evaluates the simulations in reverse order
      let b := runModel c.zo c.bc (fun f args => scheduledRunner (List.range args.length).reverse f args) f c.sensor c.cont c.dimArg c.col
      if showOut a == showOut b then showOut a else "ERR runner-dependent"
  | "table" :: r =>
    match pCall r with
    | none => "ERR parse"
    | some c => showOut (spec c)
  | "sims" :: r =>      -- the flat list of simulations, in order
    match pCall r with
    | none => "ERR parse"
    | some c =>
      match prepareSimulations c.zo c.bc c.sensor c.cont c.dimArg c.col with
      | .error e => "ERR " ++ e.name
      | .ok (sims, dims) =>
        "dims:" ++ ",".intercalate (dims.map fun d => d.name ++ "[" ++ toString d.vals.length ++ "]") ++ " " ++
          " ".intercalate (sims.map fun p => p.2 ++ "|" ++ "|".intercalate (axisOrder.map fun a =>
            match p.1.lookup a with | some vs => ",".intercalate vs | none => "-"))
  | ["writes", mode, i, nlayer, sub, act, em, nstream] =>
    let sh : Shape := ⟨nat nlayer, parseSub sub, act == "1", em, nstream⟩
    let wm := if mode == "code" then WriteMode.code else WriteMode.required
    let p := simulation "1" wm (nat i) sh "set" (fun _ _ => "result")
    let st0 : Store String := fun _ => none
    let uw := p.userWritten (fun _ _ => "memo") st0
    let st1 := (p.run (fun _ _ => "memo") st0).2
    -- every input location still holds what it held (nothing), except those listed
    let changedInputs := (sh.inputs.filter fun q => (st1 ⟨.user q.1, q.2⟩).isSome).map fun q => q.1 ++ "." ++ q.2
    "user:" ++ ",".intercalate (uw.map showLoc) ++ " changed:" ++ ",".intercalate changedInputs
      ++ " shared:" ++ ",".intercalate (sh.memos.map (·.1))
  | _ => "ERR unknown-op"

end Smrt.Driver.C09
