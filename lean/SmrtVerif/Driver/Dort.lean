/- driver for the DORT boundary-system model (shared by the C01–C04, C08 correspondences) -/
import SmrtVerif.Model.Dort
import SmrtVerif.Model.Streams
import SmrtVerif.Model.Eigen
import SmrtVerif.Model.Atmosphere
import SmrtVerif.Model.Split
import SmrtVerif.Driver.C20

namespace Smrt.Driver.DortD
open Smrt Smrt.Dort Smrt.Streams Smrt.Driver Smrt.Driver.C20

abbrev F := Float

def emptyLayer : DLayer F :=
  { n := 0, d := 0, temp := 0, beta := fun _ => 0, eu := ⟨0, 0, fun _ _ => 0⟩, ed := ⟨0, 0, fun _ _ => 0⟩,
    rtop := .zero, rbot := .zero, ttop := .zero, tbot := .zero }

def parseLayer (npol : Nat) (ts : List String) : DLayer F × List String :=
  match ts with
  | ns :: d :: t :: r =>
    let n := nat ns
    let k := n * npol
    let (beta, r) := takeF (2 * k) r
    let (eu, r) := takeF (k * 2 * k) r
    let (ed, r) := takeF (k * 2 * k) r
    let (rtop, r) := parseCV r
    let (rbot, r) := parseCV r
    let (ttop, r) := parseCV r
    let (tbot, r) := parseCV r
    ({ n := n, d := fl d, temp := fl t, beta := fun j => beta.getD j 0,
       eu := ⟨k, 2 * k, fun i j => at2 eu (2 * k) i j⟩, ed := ⟨k, 2 * k, fun i j => at2 ed (2 * k) i j⟩,
       rtop := rtop, rbot := rbot, ttop := ttop, tbot := tbot }, r)
  | _ => (emptyLayer, [])

def parseLayers (npol : Nat) : Nat → List String → Array (DLayer F) × List String
  | 0, ts => (#[], ts)
  | k + 1, ts =>
    let (ly, r) := parseLayer npol ts
    let (rest, r) := parseLayers npol k r
    (#[ly] ++ rest, r)

def parseStack (ts : List String) : DStack F × List String :=
  match ts with
  | np :: Ls :: na :: nsb :: nv :: pas :: hst :: tsub :: m0 :: r =>
    let (npol, L, nAir, nSub, nvec) := (nat np, nat Ls, nat na, nat nsb, nat nv)
    let (tbotAir, r) := parseCV r
    let (rbotAir, r) := parseCV r
    let (idn, r) := takeF (nAir * npol * nvec) r
    let (lays, r) := parseLayers npol L r
    ({ npol := npol, L := L, lay := fun l => lays.getD l emptyLayer, nAir := nAir, nSub := nSub,
       tbotAir := tbotAir, rbotAir := rbotAir, passive := pas == "1", hasSubTemp := hst == "1", tsub := fl tsub,
       nvec := nvec, idown := ⟨nAir * npol, nvec, fun i j => at2 idn nvec i j⟩, mode0 := m0 == "1" }, r)
  | _ => ({ npol := 0, L := 0, lay := fun _ => emptyLayer, nAir := 0, nSub := 0, tbotAir := .zero, rbotAir := .zero,
            passive := false, hasSubTemp := false, tsub := 0, nvec := 0, idown := ⟨0, 0, fun _ _ => 0⟩, mode0 := true }, [])

def arr (a : Array F) : Nat → F := fun i => a.getD i 0

def cxList (v : Array F) (k : Nat) : List (Cx F) := (rng k).map fun i => ⟨v.getD (2 * i) 0, v.getD (2 * i + 1) 0⟩

def handle : List String → String
  | "dort" :: parts :: r =>
    let (S, r) := parseStack r
    let N := nUnknown S
    let (xv, _) := takeF (N * S.nvec) r
    let x : Nat → Nat → F := fun i v => at2 xv S.nvec i v
    let A := if parts.contains 'A' then (rng N).flatMap fun i => (rng N).map fun j => showF (sysEntry S i j) else []
    let b := if parts.contains 'b' then (rng N).flatMap fun i => (rng S.nvec).map fun v => showF (rhsEntry S i v) else []
    let e := if parts.contains 'e' then
      (rng (S.nAir * S.npol)).flatMap fun i => (rng S.nvec).map fun v => showF (emerging S x i v) else []
    s!"{N} | " ++ " ".intercalate A ++ " | " ++ " ".intercalate b ++ " | " ++ " ".intercalate e
  | "lhs" :: r =>
    -- block-form products: for the given vector x (flat, N × nvec) the left-hand side of every row, in row order
    let (S, r) := parseStack r
    let N := nUnknown S
    let (xv, _) := takeF (N * S.nvec) r
    let xb : Nat → Nat → Nat → F := fun l j v => at2 xv S.nvec (off S l + j) v
    let rows := (rng S.L).flatMap fun l =>
      let nl := (S.lay l).n * S.npol
      ((rng nl).flatMap fun i => (rng S.nvec).map fun v => showF (lhsTop S xb l i v)) ++
      ((rng nl).flatMap fun i => (rng S.nvec).map fun v => showF (lhsBot S xb l i v))
    " ".intercalate rows
  | "splitsol" :: ks :: d1s :: d2s :: r =>
    -- the solution of the split system constructed from a solution x of the given (unsplit) stack, flattened
    let (S, r) := parseStack r
    let N := nUnknown S
    let (xv, _) := takeF (N * S.nvec) r
    let xb : Nat → Nat → Nat → F := fun l j v => at2 xv S.nvec (off S l + j) v
    let k := nat ks
    let S' := splitStack S k (fl d1s) (fl d2s)
    let x' := splitSol S k (fl d1s) (fl d2s) xb
    " ".intercalate ((rng S'.L).flatMap fun l =>
      (rng (2 * ((S'.lay l).n * S'.npol))).flatMap fun j => (rng S.nvec).map fun v => showF (x' l j v))
  | "buildA" :: nps :: nss :: m0 :: nm :: r =>
    -- nm: 0 = no normalisation, 1 = mode-0 normalisation from ks, 2 = higher mode, norm_0 vector given
    let (npol, ns) := (nat nps, nat nss)
    let N := 2 * (npol * ns)
    let coef : F := if m0 == "1" then 0.5 else 0.25
    let v := floats r
    let mu := arr (v.extract 0 ns); let w := arr (v.extract ns (2 * ns))
    let Pm := v.extract (2 * ns) (2 * ns + N * N)
    let P : Nat → Nat → F := fun i j => at2 Pm N i j
    let ke := arr (v.extract (2 * ns + N * N) (2 * ns + N * N + N))
    let ks : F := v.getD (2 * ns + N * N + N) 0
    let n0v := arr (v.extract (2 * ns + N * N + N + 1) v.size)
    let nrm : Nat → F :=
      if nm == "1" then Eigen.norm0 npol ns coef w P ks
      else if nm == "2" then Eigen.normM n0v
      else fun _ => 1
    let flag := if nm == "1" && Eigen.normOutOfRange N nrm then "out" else "in"
    flag ++ " " ++ " ".intercalate ((rng N).flatMap fun i => (rng N).map fun j => showF (Eigen.matrixA npol ns coef mu w P ke nrm i j))
      ++ " | " ++ " ".intercalate ((rng N).map fun i => showF (Eigen.trivialBeta npol ns mu ke i))
  | "atm_simple" :: nps :: ns :: ks :: r =>
    -- npol, n nodes, k stream cosines; xp fp(tbdown) fp(tbup) fp(trans) costheta I(k*npol)
    let (npol, n, k) := (nat nps, nat ns, nat ks)
    let v := floats r
    let xp := arr (v.extract 0 n)
    let fd := arr (v.extract n (2*n)); let fu := arr (v.extract (2*n) (3*n)); let ft := arr (v.extract (3*n) (4*n))
    let ct := arr (v.extract (4*n) (4*n+k))
    let I := arr (v.extract (4*n+k) (4*n+k+k*npol))
    let down := Atmosphere.simpleRun npol n xp fd ct
    let up := Atmosphere.simpleRun npol n xp fu ct
    let tr := Atmosphere.simpleRun npol n xp ft ct
    let out := Atmosphere.compose up tr I
    " ".intercalate ((rng (k*npol)).map fun i => showF (down i)) ++ " | " ++
    " ".intercalate ((rng (k*npol)).map fun i => showF (out i))
  | "streams" :: ns :: Ls :: hs :: r =>
    let (n, L) := (nat ns, nat Ls)
    let v := floats r
    let muRef := (v.extract 0 n).toList
    let eps := cxList (v.extract n (n + 2 * L)) L
    let epsSub : Cx F := ⟨v.getD (n + 2 * L) 0, v.getD (n + 2 * L + 1) 0⟩
    let k := argmaxCx eps
    let eref := eps.getD k ⟨1, 0⟩
    let perLayer := eps.map fun e =>
      let mu := layerMu (realIndex eref e) muRef
      let w := weights true (fun i => mu.getD i 0) mu.length
      s!"{mu.length} {" ".intercalate (mu.map showF)} {" ".intercalate (w.map showF)}"
    let outmu := layerMu (realIndex eref ⟨1, 0⟩) muRef
    let ow := weights false (fun i => outmu.getD i 0) outmu.length
    let nsub := if hs == "1" then nSubstrate epsSub (eps.getLast?.getD ⟨1, 0⟩) muRef
                else (layerMu (realIndex eref (eps.getLast?.getD ⟨1, 0⟩)) muRef).length
    s!"{k} | " ++ " | ".intercalate perLayer ++ s!" | {" ".intercalate (outmu.map showF)} {" ".intercalate (ow.map showF)} | {outmu.length} {nsub}"
  | "layout" :: r =>
    let (S, _) := parseStack r
    s!"{nUnknown S} " ++ " ".intercalate ((rng S.L).map fun l => toString (off S l))
  | _ => "ERR unknown-op"

end Smrt.Driver.DortD
