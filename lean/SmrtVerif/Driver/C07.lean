/- driver for C07: incident beams, azimuthal recomposition and backscatter extraction of the active DORT path -/
import SmrtVerif.Model.Active
import SmrtVerif.Driver.Proto

namespace Smrt.Driver.C07
open Smrt Smrt.Active Smrt.Driver

abbrev F := Float
def rng (n : Nat) : List Nat := List.range n
def pi : F := 3.141592653589793

def handle : List String → String
  | "incident" :: ns :: ks :: r =>
    -- n streams, k incident streams: indices then outweight[n]
    let (n, k) := (nat ns, nat ks)
    let inc := (r.take k).map nat
    let w := floats (r.drop k)
    let wf : Nat → F := fun i => w.getD i 0
    " ".intercalate ((rng (2 * n)).flatMap fun r => (rng (2 * k)).map fun c => showF (incident0 pi inc wf r c)) ++ " | " ++
    " ".intercalate ((rng (3 * n)).flatMap fun r => (rng (3 * k)).map fun c => showF (incidentHigher pi inc wf r c))
  | "recompose" :: ns :: ks :: mm :: phis :: r =>
    -- n streams, k incident streams, m_max, phi; incident indices; mode-0 array (2n x 2k); modes 1..m_max (3n x 3k each)
    let (n, k, mmax) := (nat ns, nat ks, nat mm)
    let inc := (r.take k).map nat
    let v := floats (r.drop k)
    let s0 := 2 * n * 2 * k
    let sm := 3 * n * 3 * k
    let mode0 : Nat → Nat → F := fun a b => v.getD (a * (2 * k) + b) 0
    let modes : Nat → Nat → Nat → F := fun m a b => v.getD (s0 + (m - 1) * sm + a * (3 * k) + b) 0
    let up := recompose mmax (fl phis) mode0 modes
    " ".intercalate ((rng (3 * k)).flatMap fun r => (rng 3).map fun q => showF (backscatter inc up r q))
  | _ => "ERR unknown-op"

end Smrt.Driver.C07
