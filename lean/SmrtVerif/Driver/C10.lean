/- driver for the electromagnetic models (C10 correspondence): one evaluation per line -/
import SmrtVerif.Model.Emmodel
import SmrtVerif.Driver.Proto

namespace Smrt.Driver.C10
open Smrt Smrt.Driver Smrt.Em

abbrev F := Float

/-- `np.pi` -/
def pi : F := 3.141592653589793

def out (xs : List F) : String := " ".intercalate (xs.map showF)
def err (e : Mixing.Err) : String := "ERR " ++ e.name

def tauOf (s : String) : Option F := if s == "inf" then none else some (fl s)
def cx (a b : String) : Cx F := ⟨fl a, fl b⟩

/-- the spectrum of the microstructure model named on the line (models of `Model/Microstructure.lean`) -/
def ftOf : List String → Option (F → F)
  | ["exp", f, xi] => some (Micro.expFt pi (fl f) (fl xi))
  | ["sph", f, R] => some (Micro.sphFt pi (fl f) (fl R))
  | ["shs", f, R, tau] => some (Micro.shsFt pi (fl f) (fl R) (tauOf tau))
  | ["ts", f, xi, d] => some (Micro.tsFt pi (fl f) (fl xi) (fl d))
  | ["uts", f, lp, K] => some (Micro.utsFt pi (fl f) (fl lp) (fl K))
  | ["use", f, lp, K] => some (Micro.useFt pi (fl f) (fl lp) (fl K))
  | ["ushs", f, lp, K] => some (Micro.ushsFt pi (fl f) (fl lp) (fl K))
  | ["hom"] => some Micro.homFt
  | _ => none

def variantOf : String → IbaVariant
  | "iba_original" => .original
  | "iba_maxwell_garnett" => .maxwellGarnett
  | _ => .iba

def rng (n : Nat) : List Nat := List.range n

/-- split the tokens at the first `|` -/
def splitBar (ts : List String) : List String × List String :=
  let a := ts.takeWhile (· ≠ "|")
  (a, (ts.drop (a.length + 1)))

def scalars (r : Except Mixing.Err (F × F × Cx F)) : String :=
  match r with
  | .error e => err e
  | .ok (ks, ka, e) => out [ks, ka, e.re, e.im, ke ks ka 0, ke ks ka 1, ke ks ka 2]

/-- memoise a function on `0 … n-1` -/
def memo (n : Nat) (f : Nat → F) : Nat → F :=
  let a := (Array.range n).map f
  fun k => a.getD k 0.0

def ibaOf (v f e0r e0i er ei freq : String) (ms : List String) : Option (Except Mixing.Err (IbaOut F) × (F → F)) :=
  (ftOf ms).map fun ft => (iba (variantOf v) ft pi (fl f) (cx e0r e0i) (cx er ei) (fl freq), ft)

def handle (ts : List String) : String :=
  let (hd, ms) := splitBar ts
  match hd with
  | ["ray", f, e0, er, ei, radius, freq] =>
      scalars (.ok (rayleigh pi (fl f) (fl e0) (cx er ei) (fl radius) (fl freq)))
  | ["nonscat", f, e0r, e0i, er, ei, freq] =>
      match nonscattering pi (fl f) (cx e0r e0i) (cx er ei) (fl freq) with
      | .error e => err e
      | .ok (ks, ka, e) => out [ks, ka, e.re, e.im, extinctionSlot ka 0, extinctionSlot ka 1, extinctionSlot ka 2]
  | ["presc", ks, ka] => out [ke (fl ks) (fl ka) 0, ke (fl ks) (fl ka) 1, ke (fl ks) (fl ka) 2]
  | ["qca", f, e0r, e0i, er, ei, radius, freq, tau] =>
      scalars (dmrtQca pi (fl f) (cx e0r e0i) (cx er ei) (fl radius) (fl freq) (tauOf tau))
  | ["qcacp", f, e0r, e0i, er, ei, radius, freq, tau] =>
      scalars (dmrtQcacp pi (fl f) (cx e0r e0i) (cx er ei) (fl radius) (fl freq) (tauOf tau))
  | ["computet", f, tau] =>
      match computeT (tauOf tau) (fl f) with
      | .error e => err e
      | .ok t => out [t]
  | ["sft", f, e0r, e0i, er, ei, xi, freq] =>
      scalars (sftRayleigh pi (fl f) (cx e0r e0i) (cx er ei) (fl xi) (fl freq))
  | ["catan", a, b] => let w := catan pi (cx a b); out [w.re, w.im]
  | ["rayphase", ks, np, mus, mui, phi] =>
      let n := nat np
      out ((rng n).flatMap fun p => (rng n).map fun q => rayPhase (fl ks) p q (fl mus) (fl mui) (fl phi))
  | ["sinhalf", mus, mui, phi] => out [sinHalf (fl mus) (fl mui) (fl phi)]
  | ["ulaby", ks, npArg, mm, mus, mui] =>
      let mmax := nat mm
      let n := ulabyNpol (if npArg == "None" then none else some (nat npArg)) mmax
      if ulabyIndexError n mmax then "ERR foreign:IndexError"
      else out ((rng n).flatMap fun p => (rng n).flatMap fun q => (rng (mmax + 1)).map fun m =>
        ulaby (fl ks) m p q (fl mus) (fl mui))
  | "a2local" :: ft0 :: sl :: qr :: qi :: gs =>
      let g := floats gs
      let w := sceA2Local pi (fun i => g.getD i 0.0) (fl ft0) (fl sl) (cx qr qi)
      out [w.re, w.im]
  | "romb" :: k :: dx :: ys =>
      let y := floats ys
      out [romb (nat k) (fun i => y.getD i 0.0) (fl dx)]
  | ["epsguard", a, b] =>
      match epsGuard (cx a b) with
      | .error e => err e
      | .ok e => out [e.re, e.im]
  | ["iba", v, f, e0r, e0i, er, ei, freq] =>
      match ibaOf v f e0r e0i er ei freq ms with
      | none => "ERR parse"
      | some (.error e, _) => err e
      | some (.ok o, _) => out [o.ks, o.ka, o.eps.re, o.eps.im, o.coeff, ke o.ks o.ka 0, ke o.ks o.ka 1, ke o.ks o.ka 2]
  | ["ibaintegrand", v, f, e0r, e0i, er, ei, freq, mu] =>
      match ibaOf v f e0r e0i er ei freq ms with
      | some (.ok o, ft) => out [ibaKsIntegrand ft o.coeff (waveNumber pi (fl freq)) o.eps (fl mu)]
      | some (.error e, _) => err e
      | none => "ERR parse"
  | ["ibaphase", v, f, e0r, e0i, er, ei, freq, np, mus, mui, phi] =>
      match ibaOf v f e0r e0i er ei freq ms with
      | some (.ok o, ft) =>
          let n := nat np
          out ((rng n).flatMap fun p => (rng n).map fun q =>
            ibaPhase ft o.coeff (waveNumber pi (fl freq)) o.eps p q (fl mus) (fl mui) (fl phi))
      | some (.error e, _) => err e
      | none => "ERR parse"
  | ["ibaft", v, f, e0r, e0i, er, ei, freq, np, Ns, mm, mus, mui] =>
      match ibaOf v f e0r e0i er ei freq ms with
      | some (.ok o, ft) =>
          let (n, N, mmax) := (nat np, nat Ns, nat mm)
          match ftGuard n (fl mui == 1.0) with
          | .error e => err e
          | .ok _ =>
            let k0 := waveNumber pi (fl freq)
            out ((rng n).flatMap fun p => (rng n).flatMap fun q =>
              let s := memo (N / 2 + 1) fun k => ibaPhase ft o.coeff k0 o.eps p q (fl mus) (fl mui) (dphiGrid pi N k)
              (rng (mmax + 1)).map fun m => ftEvenCoef piLit n N p q m s)
      | some (.error e, _) => err e
      | none => "ERR parse"
  -- SCE family: epsilon_eff model ("mg" = maxwell_garnett_for_spheres, "pvs" = polder_van_santen + guard), A2 on the line
  | ["sce", f, e0r, e0i, er, ei, freq, a2r, a2i] =>
      match ftOf ms with
      | none => "ERR parse"
      | some ft =>
        let (f, e0, eps) := (fl f, cx e0r e0i, cx er ei)
        let k0 := waveNumber pi (fl freq)
        let epsEff := Mixing.mgSpheres f e0 eps
        let (kee, ks) := sceKeKs f k0 e0 eps (cx a2r a2i)
        let ka := sceKa k0 epsEff
        out [kee, ks, ka, epsEff.re, epsEff.im, scePhaseNorm ft ks k0 epsEff, ke ks ka 0, ke ks ka 1, ke ks ka 2]
  | ["symsce", f, e0r, e0i, er, ei, freq, a2r, a2i, b2r, b2i] =>
      match ftOf ms with
      | none => "ERR parse"
      | some ft =>
        let (f, e0, eps) := (fl f, cx e0r e0i, cx er ei)
        let k0 := waveNumber pi (fl freq)
        match (Mixing.pvsWith csq .spheres f e0 eps).bind epsGuard with
        | .error e => err e
        | .ok epsEff =>
          let (kee, ks) := sceKeKsSym f k0 e0 eps (cx a2r a2i) (cx b2r b2i)
          let ka := sceKa k0 epsEff
          out [kee, ks, ka, epsEff.re, epsEff.im, scePhaseNorm ft ks k0 epsEff, ke ks ka 0, ke ks ka 1, ke ks ka 2]
  | ["scekdiff", k0, er, ei, mus, mui, phi] =>
      let w := sceKdiff (fl k0) (cx er ei) (fl mus) (fl mui) (fl phi); out [w.re, w.im]
  | ["scephase", norm, fr, fi, np, mus, mui, phi] =>
      let n := nat np
      out ((rng n).flatMap fun p => (rng n).flatMap fun q =>
        let w := scePhase (fl norm) (cx fr fi) p q (fl mus) (fl mui) (fl phi); [w.re, w.im])
  | "sceft" :: norm :: np :: Ns :: mm :: mus :: mui :: fts =>
      -- fts: real parts of norm-free spectrum values at the N/2+1 azimuth samples (re, im pairs)
      let (n, N, mmax) := (nat np, nat Ns, nat mm)
      match ftGuard n (fl mui == 1.0) with
      | .error e => err e
      | .ok _ =>
        let v := floats fts
        out ((rng n).flatMap fun p => (rng n).flatMap fun q =>
          let s := memo (N / 2 + 1) fun k =>
            (scePhase (fl norm) ⟨v.getD (2 * k) 0.0, v.getD (2 * k + 1) 0.0⟩ p q (fl mus) (fl mui) (dphiGrid pi N k)).re
          (rng (mmax + 1)).map fun m => ftEvenCoef piLit n N p q m s)
  | _ => "ERR parse"

end Smrt.Driver.C10
