/- driver for the snowpack state machine (C16 correspondence) -/
import SmrtVerif.Model.Snowpack
import SmrtVerif.Driver.Proto

namespace Smrt.Driver.C16
open Smrt Smrt.Snow Smrt.Driver

def ifk? : String → Option IfKind
  | "F" => some .flat | "T" => some .transparent | _ => none

def showIf : IfKind → String
  | .flat => "F" | .transparent => "T"

def optNat (s : String) : Option Nat := if s == "-" then none else s.toNat?

def parseOperand (s : String) : Operand :=
  if s == "z" then .zero
  else if s == "x" then .other
  else
    let body := (s.drop 1).toString
    if s.startsWith "s" then .sp (nat body)
    else if s.startsWith "u" then .substrate (nat body)
    else if s.startsWith "a" then .atmosphere (nat body)
    else if s.startsWith "l" then
      match body.splitOn ":" with
      | [t, g] => .layer ⟨int t, nat g⟩
      | _ => .other
    else .other

def parseIfArg (s : String) : IfArg :=
  if s == "N" then .none
  else if s.startsWith "L:" then .list (((s.drop 2).toString.splitOn ",").filter (· ≠ "") |>.map ifk?)
  else match ifk? s with
    | some k => .scalar k
    | none => .none

/-- one operation = one `;`-free group of tokens -/
def parseOp : List String → Option Op
  | "mk" :: n :: r =>
    let k := nat n
    let ths := (r.take k).map int
    match r.drop k with
    | [tag0, nprop, ifa, surf, sub, atm] =>
      some (.make ths (nat tag0) (optNat nprop) (parseIfArg ifa) (ifk? surf) (optNat sub) (optNat atm))
    | _ => none
  | ["ap", sp, t, g, k] => some (.append (nat sp) ⟨int t, nat g⟩ (ifk? k))
  | ["del", sp, i] => some (.delete (nat sp) (nat i))
  | ["delb", sp, i] => some (.deleteBottom (nat sp) (nat i))
  | ["cp", sp, c] => some (.copy (nat sp) (optNat c))
  | ["dcp", sp] => some (.deepcopy (nat sp))
  | ["add", a, b] => some (.add (parseOperand a) (parseOperand b))
  | ["iadd", a, b] => match parseOperand a with
    | .sp id => some (.iadd id (parseOperand b))
    | _ => none
  | _ => none

def showSP (s : SP) : String :=
  let ls := ",".intercalate (s.layers.map fun l => s!"{l.thickness}:{l.tag}")
  let is := ",".intercalate (s.ifaces.map showIf)
  let o (x : Option Nat) := match x with | some t => toString t | none => "-"
  let zs := ",".intercalate (s.z.map toString)
  s!"[{ls}|{is}|{o s.substrate}|{o s.atmosphere}|z={zs}]"

def splitOps (ts : List String) : List (List String) :=
  (ts.foldl (fun (acc : List (List String)) t =>
    if t == ";" then [] :: acc else
      match acc with
      | [] => [[t]]
      | h :: rest => (h ++ [t]) :: rest) [[]]).reverse.filter (· ≠ [])

/-- `hist op ; op ; …` → result of every op (`ok:<id>` or `ERR <kind>`), then the dump of every snowpack object -/
def runHist (ts : List String) : String :=
  let (w, outs) := (splitOps ts).foldl (fun (st : World × List String) o =>
    match parseOp o with
    | none => (st.1, st.2 ++ ["ERR parse"])
    | some op =>
      let (w', r) := step st.1 op
      (w', st.2 ++ [match r with | .ok id => s!"ok:{id}" | .error e => s!"ERR:{e.name}"])) ([], [])
  " ".intercalate outs ++ " || " ++ " ".intercalate (w.map showSP)

def handle : List String → String
  | "hist" :: r => runHist r
  | "z" :: r =>
    match thicknessFromZ (r.map int) with
    | .ok t => " ".intercalate (t.map toString)
    | .error e => s!"ERR:{e.name}"
  | "fracvlw" :: ρi :: ρw :: ρ :: vlw :: _ =>
    let (f, lw) := fracVolumesVLW (fl ρi) (fl ρw) (fl ρ) (fl vlw)
    s!"{showF f} {showF lw}"
  | "fraclw" :: ρi :: ρw :: ρ :: lw :: _ => showF (fracVolumeLW (fl ρi) (fl ρw) (fl ρ) (fl lw))
  | "cfvlw" :: ρi :: ρw :: ρ :: vlw :: _ =>
    match computeFracVLW (fl ρi) (fl ρw) (fl ρ) (fl vlw) with
    | some (f, lw) => s!"{showF f} {showF lw}"
    | none => "ERR:AssertionError"
  | "cflw" :: ρi :: ρw :: ρ :: lw :: _ =>
    match computeFracLW (fl ρi) (fl ρw) (fl ρ) (fl lw) with
    | some (f, lw) => s!"{showF f} {showF lw}"
    | none => "ERR:AssertionError"
  | _ => "ERR unknown-op"

end Smrt.Driver.C16
