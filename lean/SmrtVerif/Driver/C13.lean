/-
  driver of the permittivity formulae (C13 correspondence).
  line:  <function> <kre> <kim> <float args…>      (floats as `f<bits>`)
  out :  `f<re·2^-kre> f<im·2^-kim>` (complex result) | `f<x·2^-kre>` (real result) | `ERR SMRTError`
  The two integers are binary exponents chosen by the harness from the implementation's value, so that the
  comparison of the scaled numbers is a *relative* comparison of each component (scaling by 2^k is exact).
-/
import SmrtVerif.Model.Permittivity
import SmrtVerif.Driver.Proto

namespace Smrt.Driver.C13
open Smrt Smrt.Perm Smrt.Driver

inductive Out where
  | c (z : Cx Float)
  | r (x : Float)
  | err
  | bad

def ofC : Except Err (Cx Float) → Out
  | .ok z => .c z
  | .error _ => .err
def ofR : Except Err Float → Out
  | .ok x => .r x
  | .error _ => .err

def shape? : Float → Shape := fun x => if x < 0.5 then .spheres else .needles
def three? : Float → Three := fun x =>
  if x < 0.5 then .colbeckI else if x < 1.5 then .colbeckII else if x < 2.5 then .colbeckIII else .pvs3

def eval (fn : String) (a : Array Float) : Out :=
  let g (i : Nat) : Float := a.getD i (0.0 / 0.0)
  match fn with
  -- ice.py
  | "ice_maetzler06" => ofC (iceMaetzler06 (g 0) (g 1))
  | "ice_maetzler98" => ofC (iceMaetzler98 (g 0) (g 1))
  | "ice_maetzler87" => ofC (iceMaetzler87 (g 0) (g 1))
  | "ice_tiuri84" => ofC (iceTiuri84 (g 0) (g 1))
  | "ice_HUT" => ofC (iceHUT (g 0) (g 1))
  | "ice_DMRTML" => .c (iceDMRTML (g 0) (g 1))
  | "ice_MEMLS" => .c (iceMEMLS (g 0) (g 1) (g 2))
  | "ice_hufford91" => ofC (iceHufford91 (g 0) (g 1))
  -- water.py
  | "water_maetzler87" => ofC (waterMaetzler87 (g 0) (g 1))
  | "water_tiuri80" => ofC (waterTiuri80 (g 0) (g 1))
  | "water_tiuri80_as_shipped" => ofC (waterTiuri80AsShipped (g 0) (g 1))
  -- brine.py
  | "brine_conductivity" => .r (brineConductivity (g 0))
  | "brine_relaxation_time" => .r (brineRelaxationTime (g 0))
  | "brine_salinity" => .r (brineSalinity (g 0))
  | "static_brine_permittivity" => .r (staticBrinePermittivity (g 0))
  | "permittivity_high_frequency_limit" => .r (permittivityHighFrequencyLimit (g 0))
  | "water_freezing_temperature" => .r (waterFreezingTemperature (g 0))
  | "brine_volume_cox83" => ofR (brineVolumeCox83 (g 0) (g 1) (g 2) none)
  | "brine_volume_cox83_bd" => ofR (brineVolumeCox83 (g 0) (g 1) (g 2) (some (g 3)))
  | "brine_volume_frankenstein67" => .r (brineVolumeFrankenstein67 (g 0) (g 1))
  | "brine_volume_stogryn87" => .r (brineVolumeStogryn87 (g 0) (g 1))
  -- saline_water.py
  | "seawater_klein76" => ofC (seawaterKlein76 (g 0) (g 1) (g 2))
  | "seawater_stogryn71" => .c (seawaterStogryn71 (g 0) (g 1))
  | "brine_stogryn85" => .c (brineStogryn85 (g 0) (g 1))
  | "seawater_stogryn95" => .c (seawaterStogryn95 (g 0) (g 1) (g 2))
  -- wetice.py, wetsnow.py
  | "wetice_bohren83" => ofC (weticeBohren83 (g 0) (g 1) (g 2))
  | "wetice_symmetric" => ofC (weticeSymmetric (g 0) (g 1) (g 2))
  | "wetsnow_permittivity" => ofC (wetsnowPermittivity (g 0) (g 1) (g 2))
  -- saline_ice.py
  | "impure_ice_maetzler06" => ofC (impureIceMaetzler06 (g 0) (g 1) (g 2))
  | "saline_ice_pvs" => ofC (salineIcePvs (shape? (g 0)) (g 1) (g 2) (g 3))
  | "saline_ice_pvs_mix" => ofC (salineIcePvsMix (g 0) (g 1) (g 2) (g 3))
  -- snow_mixing_formula.py
  | "wetsnow_tinga73" => ofC (wetsnowTinga73 (g 0) (g 1) (g 2) (g 3))
  | "wetsnow_hallikainen86" => .c (wetsnowHallikainen86 (g 0) (g 1) (g 2))
  | "wetsnow_hallikainen86_ulaby14" => .c (wetsnowHallikainen86Ulaby14 (g 0) (g 1) (g 2))
  | "wetsnow_wiesmann99" => ofC (wetsnowWiesmann99 (g 0) (g 1) (g 2) (g 3))
  | "wetsnow_memls" => ofC (wetsnowMemls (g 0) (g 1) (g 2) (g 3))
  | "three_residual" => ofC (threeResidual (three? (g 0)) (g 1) (g 2) (g 3) (g 4) ⟨g 5, g 6⟩)
  | "depol_maetzler96" => let d := depolMaetzler96 (g 0); .c ⟨d.1, d.2.2⟩
  | "drysnow_maetzler96" => .c (drysnowMaetzler96 (g 0) ⟨g 1, g 2⟩ ⟨g 3, g 4⟩)
  -- saline_snow.py
  | "saline_snow_geldsetzer09" => .c (salineSnowGeldsetzer09 (g 0) (g 1) (g 2) (g 3))
  | "saline_snow_scharien_stogryn71" => ofC (salineSnowScharienStogryn71 (g 0) (g 1) (g 2) (g 3))
  | "saline_snow_scharien_stogryn95" => ofC (salineSnowScharienStogryn95 (g 0) (g 1) (g 2) (g 3))
  -- make_soil.py
  | "soil_dobson" => .c (soilDobson (g 0) (g 1) (g 2) (g 3) (g 4))
  | "soil_hut" => ofC (soilHut (g 0) (g 1) (g 2) (g 3) (g 4) (g 5))
  | "soil_montpetit2008" => ofC (soilMontpetit2008 (g 0) (g 1))
  -- generic mixing helpers as used by the material formulae
  | "mg_spheres" => .c (mgSpheres (g 0) ⟨g 1, g 2⟩ ⟨g 3, g 4⟩)
  | "pvs_spheres" => .c (pvsSpheres (g 0) ⟨g 1, g 2⟩ ⟨g 3, g 4⟩)
  | "pvs_needles" => .c (pvsNeedles (g 0) ⟨g 1, g 2⟩ ⟨g 3, g 4⟩)
  | _ => .bad

def handle : List String → String
  | fn :: kre :: kim :: rest =>
    let sc (x : Float) (k : String) : String := showF (Float.scaleB x (-(int k)))
    match eval fn (floats rest) with
    | .c z => sc z.re kre ++ " " ++ sc z.im kim
    | .r x => sc x kre
    | .err => "ERR SMRTError"
    | .bad => "ERR unknown-function " ++ fn
  | _ => "ERR parse"

end Smrt.Driver.C13
