/- driver for the Fresnel / interface / substrate models (C12 correspondence) -/
import SmrtVerif.Model.Fresnel
import SmrtVerif.Model.Interface
import SmrtVerif.Model.CoherentFlat
import SmrtVerif.Driver.Proto

namespace Smrt.Driver.C12
open Smrt Smrt.Fresnel Smrt.Iface Smrt.Driver

abbrev Res := Except String (List Float)

def showRes : Res → String
  | .ok xs => showFs xs.toArray
  | .error e => "ERR " ++ e

def optF (x : Float) : Option Float := if x.isNaN then none else some x

/-- (specular reflection, coherent transmission / emissivity) of the class `name` -/
def classEval (name : String) (npol : Nat) (f : Float) (e1 e2 : Cx Float) (mu : Float) (p : Array Float) :
    Option (Res × Res) :=
  let g (i : Nat) := p.getD i 0.0
  match name with
  | "flat" => some (.ok (flatSpec e1 e2 mu npol), .ok (flatTrans e1 e2 mu npol))
  | "transparent" => some (.ok (transparentSpec npol), .ok (transparentTrans npol))
  | "null" => some (.ok (nullSpec npol), .ok (nullTrans npol))
  | "nullspec" => some (.ok (nullSpec npol), .error "not-modelled")
  | "iem" => some (.ok (iemSpec f e1 e2 (g 0) mu npol), .ok (iemTrans f e1 e2 (g 0) mu npol))
  | "choudhury" => some (choudhurySpec f e1 e2 (g 0) mu npol, choudhuryEmis f e1 e2 (g 0) mu npol)
  | "wegmuller" => some (.ok (wegmullerSpec f e1 e2 (g 0) mu npol), .ok (wegmullerEmis f e1 e2 (g 0) mu npol))
  | "qnh" => some (.ok (qnhSpec e1 e2 (g 0) (g 1) (g 2) (optF (g 3)) (optF (g 4)) mu npol),
                   .ok (qnhEmis e1 e2 (g 0) (g 1) (g 2) (optF (g 3)) (optF (g 4)) mu npol))
  | "reflector" => some (reflectorSpec (reflDefault (optF (g 0))) (reflDefault (optF (g 1))) npol,
                         reflectorEmis (reflDefault (optF (g 0))) (reflDefault (optF (g 1))) npol)
  | "reflectorb" => some (.ok (reflectorBSpec (reflDefault (optF (g 0))) (reflDefault (optF (g 1))) npol),
                          .ok (reflectorBEmis (reflDefault (optF (g 0))) (reflDefault (optF (g 1))) npol))
  | "coherent" =>
      -- p = [slab eps re, slab eps im, thickness]
      some (.ok (Coherent.spec f e1 ⟨g 0, g 1⟩ e2 (g 2) mu npol), .ok (Coherent.trans f e1 ⟨g 0, g 1⟩ e2 (g 2) mu npol))
  | _ => none

def joinE : Except String Res → Res
  | .ok r => r
  | .error e => .error e

def handle : List String → String
  | ["sqrt", a, b] =>
      let w := csqrt (⟨fl a, fl b⟩ : Cx Float)
      showFs #[w.re, w.im]
  | ["fres", npol, a, b, c, d, mu] =>
      let e1 : Cx Float := ⟨fl a, fl b⟩
      let e2 : Cx Float := ⟨fl c, fl d⟩
      let m := fl mu
      let v := rv e1 e2 m
      let h := rh e1 e2 m
      showFs (#[v.re, v.im, h.re, h.im, mu2 e1 e2 m] ++ (reflMat e1 e2 m (nat npol)).toArray ++ (transMat e1 e2 m (nat npol)).toArray)
  | "cls" :: name :: npol :: f :: a :: b :: c :: d :: mu :: ps =>
      match classEval name (nat npol) (fl f) ⟨fl a, fl b⟩ ⟨fl c, fl d⟩ (fl mu) (floats ps) with
      | some (s, t) => showRes s ++ " | " ++ showRes t
      | none => "ERR unknown-class"
  | "sub" :: flag :: name :: npol :: f :: a :: b :: c :: d :: mu :: ps =>
      let eps2 : Option (Cx Float) := if flag == "E" then some ⟨fl c, fl d⟩ else none
      let ev (e : Cx Float) := classEval name (nat npol) (fl f) ⟨fl a, fl b⟩ e (fl mu) (floats ps)
      match ev ⟨1.0, 0.0⟩ with
      | none => "ERR unknown-class"
      | some _ =>
        let s := joinE (substrateFromInterface (fun e => match ev e with | some (s, _) => s | none => .error "unknown") eps2)
        let t := joinE (substrateFromInterface (fun e => match ev e with | some (_, t) => t | none => .error "unknown") eps2)
        showRes s ++ " | " ++ showRes t
  | _ => "ERR parse"

end Smrt.Driver.C12
