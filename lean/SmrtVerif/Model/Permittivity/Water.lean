/-
  C13 — `smrt/permittivity/{water,brine,saline_water}.py`.
-/
import SmrtVerif.Model.Permittivity.Common

namespace Smrt.Perm

section
variable {α : Type} [Add α] [Sub α] [Mul α] [Div α] [Neg α] [OfScientific α] [OfNat α 0] [OfNat α 1]
  [LT α] [DecidableRel (α := α) (· < ·)] [LE α] [DecidableRel (α := α) (· ≤ ·)] [Transc α]

/-! ### water.py -/

/-- `theta = 1 − 300 / T` (Liebe) -/
def thetaWater (T : α) : α := 1 - 300.0 / T
/-- first relaxation frequency `f1 = 20.2 + 146.4 θ + 316 θ²` [GHz] -/
def liebeF1 (theta : α) : α := 20.2 + 146.4 * theta + 316.0 * (theta * theta)

/-- `water_permittivity_maetzler87(frequency, temperature)` (double Debye, Liebe 1991) -/
def waterMaetzler87 (f T : α) : Except Err (Cx α) :=
  if T < freezingPoint then .error .smrt else
  let freqGHz := f / 1e9
  let theta := thetaWater T
  let e0 := 77.66 - 103.3 * theta
  let e1 := 0.0671 * e0
  let f1 := liebeF1 theta
  let e2 := 3.52 + 7.52 * theta
  let f2 := 39.8 * f1
  .ok (cre e2 + debye (e1 - e2) (freqGHz / f2) + debye (e0 - e1) (freqGHz / f1))

/-- high-frequency permittivity of `water_permittivity_tiuri80` as the source has it: `e2 = 4.903e-2`, which makes
    `Re ε < 1` above ≈ 80 GHz (known finding `water.water_tiuri80:re<1`; the conventional value is 4.9).  The model
    mirrors the code; `Props/C13.lean` proves admissibility for any `1 ≤ e2 ≤ 70` and refutes it for the shipped value. -/
def tiuri80Einf : α := 4.903e-2

/-- static permittivity of `water_permittivity_tiuri80` -/
def tiuri80E1 (tempC : α) : α := 87.74 - 0.4008 * tempC + 9.398e-4 * (tempC * tempC) + 1.410e-6 * (tempC * tempC * tempC)

/-- `water_permittivity_tiuri80(frequency, temperature)` with the high-frequency permittivity as a parameter -/
def waterTiuri80With (e2 f T : α) : Except Err (Cx α) :=
  let freqGHz := f / ghz
  let tempC := T - freezingPoint
  if tempC < 0 then .error .smrt else
  let e1 := tiuri80E1 tempC
  let f1 := liebeF1 (thetaWater T)
  .ok (cre e2 + debye (e1 - e2) (freqGHz / f1))

def waterTiuri80 (f T : α) : Except Err (Cx α) := waterTiuri80With tiuri80Einf f T
/-- the function as the audited tree has it (`e2 = 4.903e-2`) -/
def waterTiuri80AsShipped (f T : α) : Except Err (Cx α) := waterTiuri80With 4.903e-2 f T

/-! ### brine.py -/

/-- `brine_conductivity(temperature)` (Stogryn & Desargant 1985; branch at −22.9 °C) -/
def brineConductivity (T : α) : α :=
  let tempC := T - freezingPoint
  if -22.9 ≤ tempC then -tempC * Transc.exp (0.5193 + 0.08755 * tempC)
  else -tempC * Transc.exp (1.0334 + 0.1100 * tempC)

/-- `brine_relaxation_time(temperature)` [ns] -/
def brineRelaxationTime (T : α) : α :=
  let t := T - freezingPoint
  0.1099 + 0.13603e-2 * t + 0.20894e-3 * (t * t) + 0.28167e-5 * (t * t * t)

/-- `brine_salinity(temperature)` [ppt] (Cox & Weeks 1975; branches at −2 and −8.2 °C) -/
def brineSalinity (T : α) : α :=
  let t := T - freezingPoint
  if -2.0 < t then 0.02515 - 17.787 * t
  else if -8.2 ≤ t then 1.725 - 18.756 * t - 0.3946 * (t * t)
  else 57.041 - 9.929 * t - 0.16204 * (t * t) - 0.002396 * (t * t * t)

/-- `static_brine_permittivity(temperature)` -/
def staticBrinePermittivity (T : α) : α :=
  let t := T - freezingPoint
  (939.66 - 19.068 * t) / (10.737 - t)

/-- `permittivity_high_frequency_limit(temperature)` -/
def permittivityHighFrequencyLimit (T : α) : α :=
  let t := T - freezingPoint
  (82.79 + 8.19 * (t * t)) / (15.68 + t * t)

/-- `water_freezing_temperature(salinity)` (TEOS-10 polynomial fit, sea-level pressure) -/
def waterFreezingTemperature (S : α) : α :=
  let c0 : α := 0.017947064327968736
  let c1 : α := -6.076099099929818
  let c2 : α := 4.883198653547851
  let c3 : α := -11.88081601230542
  let c4 : α := 13.34658511480257
  let c5 : α := -8.722761043208607
  let c6 : α := 2.082038908808201
  let c7 : α := -7.389420998107497
  let c8 : α := -2.110913185058476
  let c9 : α := 0.2295491578006229
  let c10 : α := -0.9891538123307282
  let c11 : α := -0.08987150128406496
  let c12 : α := 0.3831132432071728
  let c13 : α := 1.054318231187074
  let c14 : α := 1.065556599652796
  let c15 : α := -0.7997496801694032
  let c16 : α := 0.3850133554097069
  let c17 : α := -2.078616693017569
  let c18 : α := 0.8756340772729538
  let c19 : α := -2.079022768390933
  let c20 : α := 1.596435439942262
  let c21 : α := 0.1338002171109174
  let c22 : α := 1.242891021876471
  let p : α := 10.1325
  let sr := S * 1e1
  let x := Transc.sqrt sr
  let pr := p * 1e-4
  let tf := (c0 + sr * (c1 + x * (c2 + x * (c3 + x * (c4 + x * (c5 + c6 * x))))) +
             pr * (c7 + pr * (c8 + c9 * pr)) +
             sr * pr * (c10 + pr * (c12 + pr * (c15 + c21 * sr)) + sr * (c13 + c17 * pr + c19 * sr) +
             x * (c11 + pr * (c14 + c18 * pr) + sr * (c16 + c20 * pr + c22 * sr))))
  tf + 273.15

/-- Cox–Weeks / Leppäranta–Manninen coefficient sets `(a0,a1,a2,a3,b0,b1,b2,b3)` by temperature branch (−2, −22.9 °C) -/
def coxWeeksF (t : α) : α × α :=
  if t < -2.0 then
    if -22.9 ≤ t then
      (polyval3 (-1.074e-2) (-6.397e-1) (-2.245e1) (-4.732) t, polyval3 (-8.801e-6) (-5.33e-4) (-1.763e-2) 8.903e-2 t)
    else
      (polyval3 7.160e-1 5.527e1 1.309e3 9.899e3 t, polyval3 5.819e-4 4.518e-2 1.089 8.547 t)
  else
    (polyval3 2.1454e-1 5.8402e-1 (-1.8407e1) (-4.1221e-2) t, polyval3 1.3603e-4 1.2291e-4 (-1.6111e-2) 9.0312e-2 t)

/-- the final range check of `brine_volume_cox83_lepparanta88`: `if Vb < 0 or Vb > 1: raise SMRTError` -/
def checkFraction (vb : α) : Except Err α := if vb < 0 ∨ 1 < vb then .error .smrt else .ok vb

/-- `brine_volume_cox83_lepparanta88(temperature, salinity, porosity=0, bulk_density=None)` -/
def brineVolumeCox83 (T S porosity : α) (bulkDensity : Option α) : Except Err α :=
  let tfreeze := waterFreezingTemperature S
  if tfreeze < T then .ok 1.0 else
  let t := T - freezingPoint
  if t < -38.0 then .error .smrt else
  let rhoIce := densityOfIce / 1e3 - 1.403e-4 * t
  let (f1, f2) := coxWeeksF t
  let bd : Except Err α := match bulkDensity with
    | none => .ok ((1 - porosity) * rhoIce * f1 / (f1 - rhoIce * S * 1000.0 * f2) * 1e3)
    | some b => if 0 < porosity then .error .smrt else .ok b
  match bd with
  | .error e => .error e
  | .ok b =>
    let vb0 := S / psu * b * 1e-3 / f1
    checkFraction (if 1.0 < vb0 ∧ absR (T - tfreeze) < 0.1 then 1.0 else vb0)

/-- `brine_volume_frankenstein67(temperature, salinity)` -/
def brineVolumeFrankenstein67 (T S : α) : α := S * (-49.185 / (T - freezingPoint) + 0.532)

/-- `brine_volume_function_stogryn_1987(temperature, salinity)` (branches −2.06, −8.2, −22.9, −36.8 °C) -/
def brineVolumeStogryn87 (T S : α) : α :=
  let t := T - freezingPoint
  let p :=
    if -2.06 ≤ t then -2.28 - 52.56 / t
    else if -8.2 ≤ t then 0.930 - 45.917 / t
    else if -22.9 ≤ t then 1.189 - 43.795 / t
    else if -36.8 ≤ t then
      21.9921 + 2968.56 / t + 153039.0 / (t * t) + 3502798.0 / (t * t * t) + 3.0401e7 / (t * t * t * t)
    else 2.8167 + 0.09494 * t + 0.9603e-3 * (t * t)
  let rhoIce := 917.0 / 1e3 - 1.403e-4 * t
  let brineDensity := 1.02814 - 0.88128e-2 * t - 0.9298e-4 * (t * t)
  rhoIce / (rhoIce / (S * p) + rhoIce - brineDensity)

/-! ### saline_water.py -/

/-- Klein–Swift static permittivity of pure water `eps_s_T` -/
def kleinEpsST (t : α) : α := 87.134 - 1.949e-1 * t - 1.276e-2 * (t * t) + 2.491e-4 * (t * t * t)
/-- Klein–Swift relaxation time of pure water `tau_T0` [s] -/
def kleinTau0 (t : α) : α := 1.768e-11 - 6.086e-13 * t + 1.104e-14 * (t * t) - 8.111e-17 * (t * t * t)
def kleinA (s t : α) : α := 1.0 + 1.613e-5 * s * t - 3.656e-3 * s + 3.210e-5 * (s * s) - 4.232e-7 * (s * s * s)
def kleinB (s t : α) : α := 1.0 + 2.282e-5 * s * t - 7.638e-4 * s - 7.760e-6 * (s * s) + 1.105e-8 * (s * s * s)
def kleinSigma25 (s : α) : α := s * (0.182521 - 1.46192e-3 * s + 2.09324e-5 * (s * s) - 1.28205e-7 * (s * s * s))
def kleinBeta (s delta : α) : α :=
  2.0333e-2 + 1.266e-4 * delta + 2.464e-6 * (delta * delta) - s * (1.849e-5 - 2.551e-7 * delta + 2.551e-8 * (delta * delta))
/-- ionic conductivity `sigma = sigma_25S * exp(−delta * beta)` -/
def kleinSigma (s t : α) : α :=
  let delta := 25.0 - t
  kleinSigma25 s * Transc.exp (-delta * kleinBeta s delta)
/-- freezing point of sea water, Millero & Leung 1976 (`tempF`) -/
def milleroTempF (s : α) : α := -(0.0575 * s - 1.710523e-3 * rpow s 1.5 + 2.154996e-4 * (s * s))

/-- `seawater_permittivity_klein76(frequency, temperature, salinity)` -/
def seawaterKlein76 (f T S : α) : Except Err (Cx α) :=
  let t := T - freezingPoint
  let s := S / psu
  if t < milleroTempF s - 0.1 then .error .smrt else
  let omega := 2.0 * pi * f
  let epsInf : α := 4.9
  let epsStatic := kleinEpsST t * kleinA s t
  let tau := kleinTau0 t * kleinB s t
  let sigma := kleinSigma s t
  .ok (cre epsInf + debye (epsStatic - epsInf) (omega * tau) + cx 0 (sigma / (omega * eps0)))

/-- `seawater_permittivity_stogryn71(frequency, temperature)` (real and imaginary parts written out) -/
def seawaterStogryn71 (f T : α) : Cx α :=
  let epsInf := permittivityHighFrequencyLimit T
  let epsStatic := staticBrinePermittivity T
  let omega := 2.0 * pi * f
  let tau := brineRelaxationTime T
  let sigma := brineConductivity T
  let fg := f / ghz
  let den := 1 + (tau * fg) * (tau * fg)
  ⟨epsInf + (epsStatic - epsInf) / den,
   (tau * fg) * ((epsStatic - epsInf) / den) + sigma / (omega * eps0)⟩

/-- `brine_permittivity_stogryn85(frequency, temperature)` (Debye form in complex arithmetic) -/
def brineStogryn85 (f T : α) : Cx α :=
  let epsStatic := staticBrinePermittivity T
  let tau := brineRelaxationTime T
  let sigma := brineConductivity T
  let epsInf := permittivityHighFrequencyLimit T
  cre epsInf + debye (epsStatic - epsInf) (tau * f / ghz) + cx 0 (sigma / (2.0 * pi * eps0 * f))

/-- the pieces of `seawater_permittivity_stogryn95` -/
def st95EpsS0 (t : α) : α := (3.70886e4 - 8.2168e1 * t) / (4.21854e2 + t)
def st95Tau1 (t : α) : α := (255.04 + 0.7246 * t) / ((49.25 + t) * (45.0 + t))
def st95EpsInf (t : α) : α := 4.05 + 1.86e-2 * t
def st95Sigma35 (t : α) : α :=
  2.903602 + 8.60700e-2 * t + 4.738817e-4 * (t * t) - 2.9910e-6 * (t * t * t) + 4.3047e-9 * (t * t * t * t)
def st95R15 (s : α) : α := s * (37.5109 + 5.45216 * s + 1.4409e-2 * (s * s)) / (10004.75 + 182.283 * s + s * s)
def st95RtR15 (s t : α) : α :=
  let alpha0 := (6.9431 + 3.2841 * s - 9.9486e-2 * (s * s)) / (84.850 + 69.024 * s + s * s)
  let alpha1 := 49.843 - 0.2276 * s + 0.198e-2 * (s * s)
  1.0 + (t - 15.0) * alpha0 / (alpha1 + t)
def st95Sigma (s t : α) : α := st95Sigma35 t * st95R15 s * st95RtR15 s t
def st95A (s t : α) : α := 1.0 - s * (3.838e-2 + 2.180e-3 * s) * (79.88 + t) / ((12.01 + s) * (52.53 + t))
def st95B (s t : α) : α :=
  let b1 := (3.409e-2 + 2.817e-3 * s) / (7.690 + s)
  let b2 := t * (2.46e-3 + 1.41e-3 * t) / (188.0 - 7.57 * t + t * t)
  1.0 - s * (b1 - b2)

/-- `seawater_permittivity_stogryn95(frequency, temperature, salinity)` (double Debye + conductivity) -/
def seawaterStogryn95 (f T S : α) : Cx α :=
  let fg := f / ghz
  let s := S / psu
  let t := T - freezingPoint
  let epsS := st95EpsS0 t * st95A s t
  let tau1 := st95Tau1 t * st95B s t
  let tau2 : α := 0.628e-2
  let eps1 := 7.87e-2 * epsS
  let epsInf := st95EpsInf t
  cre epsInf + debye (epsS - eps1) (tau1 * fg) + debye (eps1 - epsInf) (tau2 * fg) + cx 0 (st95Sigma s t * 17.97510 / fg)

end
end Smrt.Perm
