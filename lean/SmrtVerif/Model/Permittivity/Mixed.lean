/-
  C13 — `smrt/permittivity/{wetice,wetsnow,saline_ice,snow_mixing_formula,saline_snow}.py` and the soil formulae
  of `smrt/inputs/make_soil.py`.
-/
import SmrtVerif.Model.Permittivity.Ice
import SmrtVerif.Model.Permittivity.Water

namespace Smrt.Perm

section
variable {α : Type} [Add α] [Sub α] [Mul α] [Div α] [Neg α] [OfScientific α] [OfNat α 0] [OfNat α 1]
  [LT α] [DecidableRel (α := α) (· < ·)] [LE α] [DecidableRel (α := α) (· ≤ ·)] [Transc α]

/-! ### wetice.py, wetsnow.py -/

/-- `wetice_permittivity_bohren83(frequency, temperature, liquid_water)`: the ice value when `liquid_water ≤ 0`
    (early return, before the water formula and its temperature guard are evaluated) -/
def weticeBohren83 (f T lw : α) : Except Err (Cx α) := do
  let epsice ← iceMaetzler06 f T
  if lw ≤ 0 then return epsice
  let epswater ← waterMaetzler87 f T
  return mgSpheres (1 - lw) epswater epsice

/-- `symmetric_wetice_permittivity(frequency, temperature, liquid_water)` -/
def weticeSymmetric (f T lw : α) : Except Err (Cx α) := do
  let epsice ← iceMaetzler06 f T
  if lw ≤ 0 then return epsice
  let epswater ← waterMaetzler87 f T
  return pvsSpheres lw epsice epswater

/-- `wetsnow.wetsnow_permittivity(frequency, temperature, liquid_water)` (deprecated twin of bohren83, typed out) -/
def wetsnowPermittivity (f T lw : α) : Except Err (Cx α) := do
  let epsice ← iceMaetzler06 f T
  if lw ≤ 0 then return epsice
  let epswater ← waterMaetzler87 f T
  let s := 1 - lw
  let cplus := epsice + Cx.smul 2.0 epswater
  let cminus := Cx.smul s (epsice - epswater)
  return (cplus + Cx.smul 2.0 cminus) / (cplus - cminus) * epswater

/-! ### saline_ice.py -/

/-- `1 / (g0 + g1 (Tf − T))`, eq. 5.36–5.37 of Mätzler 2006 -/
def impureDeltaEimag (f T : α) : α :=
  let fg := f / ghz
  let g0 := 1866.0 * Transc.exp (-0.317 * fg)
  let g1 := 72.2 + 6.02 * fg
  1.0 / (g0 + g1 * (freezingPoint - T))

/-- `impure_ice_permittivity_maetzler06(frequency, temperature, salinity)` -/
def impureIceMaetzler06 (f T S : α) : Except Err (Cx α) := do
  let pure ← iceMaetzler06 f T
  return pure + cx 0 (impureDeltaEimag f T * S * 1e3 / 0.013)

inductive Shape where
  | spheres | needles
deriving Repr, BEq, DecidableEq

def pvsShape (sh : Shape) (fv : α) (e0 eps : Cx α) : Cx α :=
  match sh with
  | .spheres => pvsSpheres fv e0 eps
  | .needles => pvsNeedles fv e0 eps

/-- `saline_ice_permittivity_pvs_mixing(frequency, temperature, brine_volume_fraction, brine_inclusion_shape=sh)`
    with the default ice (maetzler06) and brine (stogryn85) formulae -/
def salineIcePvs (sh : Shape) (f T vb : α) : Except Err (Cx α) := do
  let ice ← iceMaetzler06 f T
  return pvsShape sh vb ice (brineStogryn85 f T)

/-- … with `brine_inclusion_shape=("spheres", "random_needles"), brine_mixing_ratio=r` -/
def salineIcePvsMix (r f T vb : α) : Except Err (Cx α) := do
  let ice ← iceMaetzler06 f T
  let br := brineStogryn85 f T
  return Cx.smul r (pvsSpheres vb ice br) + Cx.smul (1 - r) (pvsNeedles vb ice br)

/-! ### snow_mixing_formula.py -/

/-- `compute_frac_volumes(density, liquid_water)` → `(frac_volume, fi, fw)` -/
def fracVolumes (density lw : α) : α × α × α :=
  let melange := densityOfIce * (1 - lw) + densityOfWater * lw
  let fv := density / melange
  (fv, fv * (1 - lw), fv * lw)

/-- the guard shared by the wet-snow formulae: `temperature < FREEZING_POINT and liquid_water > 0` -/
def wetGuard (T lw : α) : Bool := decide (T < freezingPoint) && decide (0 < lw)

/-- `wetsnow_permittivity_tinga73` given the water (at the freezing point) and dry-ice permittivities -/
def tinga73Core (density lw : α) (epsW epsI : Cx α) : Cx α :=
  let w := lw * densityOfWater / (lw * densityOfWater + (1 - lw) * densityOfIce)
  let vwi := 1 + densityOfIce / densityOfWater * w / (1 - w)
  let vai := (densityOfIce / density) * (1 + w / (1 - w))
  let epsA : Cx α := cre 1
  let alpha := Cx.smul 2.0 epsW + epsI
  let dwi := epsW - epsI
  let dwa := epsW - epsA
  let tw := Cx.smul 2.0 epsW + epsA
  let den := (Cx.smul 2.0 epsA + epsW) * alpha - Cx.smul (2.0 * (1 / vwi)) dwa * dwi
             - Cx.smul (vwi / vai) dwa * alpha + Cx.smul (1 / vai) dwi * tw
  let num := Cx.smul (vwi / vai) dwa * alpha - Cx.smul (1 / vai) dwi * tw
  epsA * (cre 1 + Cx.smul 3.0 num / den)

/-- `wetsnow_permittivity_tinga73(frequency, temperature, density, liquid_water)` with the default formulae
    (`water_permittivity_tiuri80` at the freezing point, `ice_permittivity_tiuri84`) -/
def wetsnowTinga73 (f T density lw : α) : Except Err (Cx α) := do
  if wetGuard T lw then throw .smrt
  let epsW ← waterTiuri80 f freezingPoint
  let epsI ← iceTiuri84 f T
  return tinga73Core density lw epsW epsI

def hallA1 (fg : α) : α := 0.78 + 0.03 * fg - 0.58e-3 * (fg * fg)
def hallA2 (fg : α) : α := 0.97 - 0.39e-2 * fg + 0.39e-3 * (fg * fg)
def hallB1 (fg : α) : α := 0.31 - 0.05 * fg + 0.87e-3 * (fg * fg)

/-- `(mv, dry_snow_density_gcm3)` of the Hallikainen formulae -/
def hallInputs (density lw : α) : α × α :=
  let (_, _, fw) := fracVolumes density lw
  (100.0 * fw, 1e-3 * (density - densityOfWater * fw) / (1 - fw))

def hallDebye (a fg mv : α) : Cx α :=
  let b := 0.073 * hallA1 fg
  let c := 0.073 * hallA2 fg
  let r := fg / 9.07
  let mvx := rpow mv 1.31
  ⟨a + b * mvx / (1 + r * r), c * mvx * r / (1 + r * r)⟩

/-- `wetsnow_permittivity_hallikainen86(frequency, density, liquid_water)` -/
def wetsnowHallikainen86 (f density lw : α) : Cx α :=
  let (mv, rho) := hallInputs density lw
  let fg := f * 1e-9
  hallDebye (1 + 1.83 * rho + 0.02 * hallA1 fg * rpow mv 1.015 + hallB1 fg) fg mv

/-- `wetsnow_permittivity_hallikainen86_ulaby14(frequency, density, liquid_water)` -/
def wetsnowHallikainen86Ulaby14 (f density lw : α) : Cx α :=
  let (mv, rho) := hallInputs density lw
  let fg := f * 1e-9
  hallDebye (hallA1 fg * (1.0 + 1.83 * rho + 0.02 * rpow mv 1.015) + hallB1 fg) fg mv

/-- one term of the loop of `wetsnow_permittivity_wiesmann99` -/
def wiesmannTerm (f wi ak : α) (epsDry : Cx α) : Cx α :=
  let epsSw : Cx α := cre 88.0
  let epsInfW : Cx α := cre 4.9
  let one : Cx α := cre 1
  let epsSk := Cx.smul (wi / 3.0) (epsSw - epsDry) / (one + Cx.smul ak (epsSw / epsDry - one))
  let epsInfK := Cx.smul (wi / 3.0) (epsInfW - epsDry) / (one + Cx.smul ak (epsInfW / epsDry - one))
  let f0k := Cx.smul 9e9 (one + Cx.smul ak (epsSw - epsInfW) / (epsDry + Cx.smul ak (epsInfW - epsDry)))
  epsInfK + (epsSk - epsInfK) / (one - (cx 0 f) / f0k)

/-- `wetsnow_permittivity_wiesmann99(frequency, temperature, density, liquid_water)` (default ice formula) -/
def wetsnowWiesmann99 (f T density lw : α) : Except Err (Cx α) := do
  if wetGuard T lw then throw .smrt
  let (_, fi, wi) := fracVolumes density lw
  let ice ← iceMaetzler06 f T
  let epsDry := pvsSpheres fi (cre 1) ice
  let eff := cre 0 + wiesmannTerm f wi 0.005 epsDry + wiesmannTerm f wi 0.4975 epsDry + wiesmannTerm f wi 0.4975 epsDry
  return epsDry + eff

def clip01 (x : α) : α := if x < 0 then 0 else if 1 < x then 1 else x

/-- `wetsnow_permittivity_memls(frequency, temperature, density, liquid_water)` (default formulae) -/
def wetsnowMemls (f T density lw : α) : Except Err (Cx α) := do
  if wetGuard T lw then throw .smrt
  let ew ← waterMaetzler87 f freezingPoint
  let (_, fi, wi) := fracVolumes density lw
  let ice ← iceMaetzler06 f T
  let epsd := pvsSpheres (clip01 fi) (cre 1) ice
  let ka := epsd / (epsd + Cx.smul 0.005 (ew - epsd))
  let kb := epsd / (epsd + Cx.smul 0.4975 (ew - epsd))
  let k := Cx.smul (1 / 3.0) (ka + Cx.smul 2.0 kb)
  let epsz := Cx.smul (1 - wi) epsd + Cx.smul wi ew * k
  let epsn := cre 1 - Cx.smul wi (cre 1 - k)
  return epsz / epsn

/-- residual of the three-component Polder–van Santen equation, spherical inclusions
    (`polder_van_santen_three_spherical_components.pvs_equation`) -/
def pvs3SphericalResidual (f1 f2 : α) (eps0 eps1 eps2 x : Cx α) : Cx α :=
  x * (cre 1 - Cx.smul (3.0 * f2) (eps2 - eps0) / (Cx.smul 2.0 x + eps2)
             - Cx.smul (3.0 * f1) (eps1 - eps0) / (Cx.smul 2.0 x + eps1)) - eps0

def depolSum (x eps : Cx α) (a : α × α × α) : Cx α :=
  let t (aj : α) : Cx α := cre 1 / (x + Cx.smul aj (eps - x))
  cre 0 + t a.1 + t a.2.1 + t a.2.2

/-- residual of `polder_van_santen_three_components.pvs_equation` -/
def pvs3Residual (f1 f2 : α) (eps0 eps1 eps2 : Cx α) (a1 a2 : α × α × α) (x : Cx α) : Cx α :=
  x * (cre 1 - Cx.smul (1 / 3.0 * f2) (eps2 - eps0) * depolSum x eps2 a2
             - Cx.smul (1 / 3.0 * f1) (eps1 - eps0) * depolSum x eps1 a1) - eps0

/-- Colbeck's depolarisation factors of the water inclusions: `m = 0.072`, `Ac = 1/(1 + 2/m)` -/
def colbeckAwater : α × α × α :=
  let ac : α := 1 / (1 + 2.0 / 0.072)
  ((1 - ac) / 2.0, (1 - ac) / 2.0, ac)
def colbeckAsnow : α × α × α := ((1 - 0.422) / 2.0, (1 - 0.422) / 2.0, 0.422)
def colbeckAair : α × α × α := (1 / 3.0, 1 / 3.0, 1 / 3.0)

/-- which three-component wet-snow formula -/
inductive Three where
  | colbeckI | colbeckII | colbeckIII | pvs3
deriving Repr, BEq, DecidableEq

/-- residual of the equation the root returned by `wetsnow_permittivity_colbeck80_case{I,II,III}` /
    `wetsnow_permittivity_three_component_polder_van_santen` has to satisfy (default ice and water formulae) -/
def threeResidual (k : Three) (f T density lw : α) (x : Cx α) : Except Err (Cx α) := do
  if wetGuard T lw then throw .smrt
  let (fv, fi, fw) := fracVolumes density lw
  let ice ← iceMaetzler06 f T
  let water ← waterMaetzler87 f freezingPoint
  match k with
  | .colbeckI => return pvs3Residual fi fw (cre 1) ice water colbeckAsnow colbeckAwater x
  | .colbeckII => return pvs3SphericalResidual fi (1 - fv) water ice (cre 1) x
  | .colbeckIII => return pvs3Residual fw (1 - fv) ice water (cre 1) colbeckAwater colbeckAair x
  | .pvs3 => return pvs3SphericalResidual fi fw (cre 1) ice water x

/-- `depolarization_factors_maetzler96(density)` (branches at frac_volume 0.33 and 0.71) -/
def depolMaetzler96 (density : α) : α × α × α :=
  let fv := density / densityOfIce
  let a := if fv < 0.33 then 0.1 + 0.5 * fv
           else if fv < 0.71 then 0.18 + 3.24 * ((fv - 0.49) * (fv - 0.49))
           else 1 / 3.0
  (a, a, 1 - 2.0 * a)

/-- one iteration of `drysnow_permittivity_maetzler96` -/
def maetzler96Step (fv : α) (a : α × α × α) (e0 epsDiff x : Cx α) : Cx α :=
  let app (aj : α) : Cx α := Cx.smul aj e0 + Cx.smul (1 - aj) x
  let t1 (aj : α) : Cx α := app aj / (app aj + Cx.smul aj epsDiff)
  let t2 (aj : α) : Cx α := cre aj / (app aj + Cx.smul aj epsDiff)
  let s1 := cre 0 + t1 a.1 + t1 a.2.1 + t1 a.2.2
  let s2 := cre 0 + t2 a.1 + t2 a.2.1 + t2 a.2.2
  e0 + Cx.smul fv epsDiff * s1 / (cre 3.0 - Cx.smul fv epsDiff * s2)

/-- the `for i in range(20)` loop with its `break` -/
def maetzler96Loop (fv : α) (a : α × α × α) (e0 epsDiff : Cx α) : Nat → Cx α → Cx α → Cx α
  | 0, _, last => last
  | n + 1, x0, _ =>
    let x := maetzler96Step fv a e0 epsDiff x0
    if Transc.sqrt (Cx.abs2 (x - x0)) < 1e-6 then x else maetzler96Loop fv a e0 epsDiff n x x

/-- `drysnow_permittivity_maetzler96(density, e0, eps)` (the arguments are swapped when `e0.real > 1` and `eps == 1`) -/
def drysnowMaetzler96 (density : α) (e0 eps : Cx α) : Cx α :=
  let isOne := eps.re ≤ 1 ∧ 1 ≤ eps.re ∧ eps.im ≤ 0 ∧ 0 ≤ eps.im
  let (e0, eps) := if 1 < e0.re ∧ isOne then (eps, e0) else (e0, eps)
  let fv := density / densityOfIce
  let a := depolMaetzler96 density
  let x0 := Cx.smul fv eps + Cx.smul (1 - fv) e0
  maetzler96Loop fv a e0 (eps - e0) 20 x0 x0

/-! ### saline_snow.py -/

/-- `saline_snow_permittivity_geldsetzer09(frequency, density, temperature, salinity)` -/
def salineSnowGeldsetzer09 (f density T S : α) : Cx α :=
  let fg := f / ghz
  let t := T - freezingPoint
  let epsDry := 1 + 2.55 * (density / 1e3)
  let epsInf := permittivityHighFrequencyLimit T
  let epsStatic := staticBrinePermittivity T
  let omega := 2.0 * pi * f
  let fr := 1 / brineRelaxationTime T
  let sigma := brineConductivity T
  let bsal := brineSalinity T
  let vb0 := S * (-49.185 / t + 0.532)
  let rhoIce := densityOfIce - 0.1403 * t
  let rhoBrine := 1e3 + 0.8 * bsal
  let vb := (vb0 * rhoBrine) / ((1 - vb0) * rhoIce + vb0 * rhoBrine) * (density / rhoBrine)
  let r := fg / fr
  let realBrine := epsInf + (epsStatic - epsInf) / (1 + r * r)
  let realMix := epsDry + 1.33 * vb * realBrine
  let lossRel := (epsStatic - epsInf) * r / (1 + r * r)
  let lossCon := sigma / (omega * eps0)
  let lossMixCon := lossCon * rpow vb 1.778
  ⟨realMix, 0.002 + 1.33 * vb * lossRel + lossMixCon⟩

/-- `saline_snow_permittivity_scharien(density, temperature, salinity, brine_permittivity)` -/
def salineSnowScharien (density T S : α) (brine : Cx α) : Except Err (Cx α) :=
  let t := T - freezingPoint
  let sppt := S / psu
  let rhoIce := densityOfIce - 0.1403 * t
  let rhoBrine := 1000.0 + 0.8 * brineSalinity T
  let vb0 :=
    if -0.1 ≤ t then sppt * 500.9
    else if -0.2 ≤ t then sppt * 250.5
    else if -0.3 ≤ t then sppt * 167.1
    else if -0.4 ≤ t then sppt * 125.4
    else sppt * (-49.185 / t + 0.532)
  let vb0 := vb0 * psu
  if t < -22.9 ∧ (S ≤ 0 ∧ 0 ≤ S) then .error .smrt else
  let vb := ((vb0 * rhoBrine) / ((1 - vb0) * rhoIce + vb0 * rhoBrine)) * (density / rhoBrine)
  let rhoDry := density - vb * rhoBrine
  let epsDry := if rhoDry ≤ 500.0 then 1 + 1.9 * (rhoDry / 1000.0) else 0.51 + 2.88 * (rhoDry / 1000.0)
  let ed : Cx α := cre epsDry
  .ok (ed + Cx.smul (0.667 * vb) ((brine - ed) / (cre 1 + Cx.smul 0.053 (Cx.smul (1 / epsDry) brine - cre 1))))

def salineSnowScharienStogryn71 (f density T S : α) : Except Err (Cx α) :=
  salineSnowScharien density T S (seawaterStogryn71 f T)
def salineSnowScharienStogryn95 (f density T S : α) : Except Err (Cx α) :=
  salineSnowScharien density T S (seawaterStogryn95 f T S)

/-! ### inputs/make_soil.py -/

/-- `soil_dielectric_constant_dobson(frequency, tempK, SM, S, C)` -/
def soilDobson (f T sm s c : α) : Cx α :=
  let eWInf : α := 4.9
  let eS : α := 4.7
  let rhoB : α := 1.3
  let rhoS : α := 2.664
  let t := T - 273.15
  let beta1 := 1.2748 - 0.519 * s - 0.152 * c
  let beta2 := 1.33797 - 0.603 * s - 0.166 * c
  let sigmaEff := 0.0467 + 0.2204 * rhoB - 0.4111 * s + 0.6614 * c
  let eW0 := 87.134 - 1.949e-1 * t - 1.276e-2 * (t * t) + 2.491e-4 * (t * t * t)
  let rtW := (1.1109e-10 - 3.824e-12 * t + 6.938e-14 * (t * t) - 5.096e-16 * (t * t * t)) / (2.0 * pi)
  let x := 2.0 * pi * f * rtW
  let eFw1 := eWInf + (eW0 - eWInf) / (1 + x * x)
  let eFw2 := x * (eW0 - eWInf) / (1 + x * x) + sigmaEff * (rhoS - rhoB) / (2.0 * pi * f * eps0 * rhoS * sm)
  ⟨rpow (1 + (rhoB / rhoS) * (rpow eS 0.65 - 1) + rpow sm beta1 * rpow eFw1 0.65 - sm) (1 / 0.65),
   rpow (rpow sm beta2 * rpow eFw2 0.65) (1 / 0.65)⟩

/-- `soil_dielectric_constant_hut(frequency, tempK, SM, sand, clay, dm_rho)` -/
def soilHut (f T sm sand clay dmRho : α) : Except Err (Cx α) :=
  let ewInf : α := 4.9
  let t := T - 273.15
  if 0 ≤ t then
    let ew0 := 87.74 - 0.40008 * t + 9.398e-4 * (t * t) + 1.410e-6 * (t * t * t)
    let tw := 1 / (2.0 * pi) * (1.1109e-10 - 3.824e-12 * t + 6.938e-14 * (t * t) - 5.096e-16 * (t * t * t))
    let x := 2.0 * pi * f * tw
    let ewR := ewInf + (ew0 - ewInf) / (1 + x * x)
    let ewI := (ew0 - ewInf) * 2.0 * pi * f * tw / (1 + x * x)
    let beta := 1.09 - 0.11 * sand + 0.18 * clay
    let epsalf := cre (1 + 0.65 * dmRho / 1000.0) + Cx.smul (rpow sm beta) (cpow ⟨ewR, ewI⟩ 0.65 - cre 1)
    .ok (cpow epsalf (1 / 0.65))
  else .error .smrt

/-- `soil_dielectric_constant_monpetit2008(frequency, temperature)`: linear inter/extrapolation through
    (10.65, 19, 37 GHz) (`scipy.interpolate.interp1d(…, fill_value="extrapolate")`; a knot belongs to the segment on its left) -/
def soilMontpetit2008 (f T : α) : Except Err (Cx α) :=
  if 273.15 < T then .error .smrt else
  let seg (x0 x1 : α) (y0 y1 : Cx α) : Cx α :=
    let slope := Cx.smul (1 / (x1 - x0)) (y1 - y0)
    Cx.smul (f - x0) slope + y0
  if 19e9 < f then .ok (seg 19e9 37e9 ⟨3.42, 0.0051⟩ ⟨4.47, 0.33⟩)
  else .ok (seg 10.65e9 19e9 ⟨3.18, 0.0061⟩ ⟨3.42, 0.0051⟩)

end
end Smrt.Perm
