/-
  C13 — permittivity formulae: shared pieces.  Core Lean only.

  Every public function of `smrt/permittivity/*.py` (and the soil formulae of `smrt/inputs/make_soil.py`) has one
  definition in `Model/Permittivity/*.lean`, polymorphic in the scalar type: the drivers run it on `Float`, the
  theorems are over `ℝ`.  Coefficients are typed from the source, branch temperatures are `if`, `raise SMRTError`
  is `Except.error Err.smrt`.  Python `x**2`, `x**3` are written as products, real powers with a non-integer
  exponent are `rpow` (= `exp (y log x)`, numpy's `pow` up to rounding).
-/
import SmrtVerif.Model.Basic

namespace Smrt.Perm

/-- the only error kind the permittivity functions raise themselves -/
inductive Err where
  | smrt
deriving Repr, BEq, DecidableEq, Inhabited

section
variable {α : Type} [Add α] [Sub α] [Mul α] [Div α] [Neg α] [OfScientific α] [OfNat α 0] [OfNat α 1]
  [LT α] [DecidableRel (α := α) (· < ·)] [LE α] [DecidableRel (α := α) (· ≤ ·)] [Transc α]

/-! ### `smrt.core.globalconstants` -/
def freezingPoint : α := 273.15
def densityOfIce : α := 916.7
def densityOfWater : α := 1000.0
def psu : α := 1e-3
def ghz : α := 1e9
/-- `np.pi` (the double nearest to π, as a decimal literal that rounds to it) -/
def pi : α := 3.141592653589793
def cSpeed : α := 299792458.0
/-- `PERMITTIVITY_OF_FREE_SPACE = 1 / (4e-7 * np.pi * C_SPEED ** 2)` -/
def eps0 : α := 1 / (4e-7 * pi * (cSpeed * cSpeed))

def sq (x : α) : α := x * x
def cube (x : α) : α := x * x * x
def absR (x : α) : α := if x < 0 then -x else x

/-- `x ** y` for a real non-integer exponent (`0 ** y = 0` for the positive exponents used; negative bases, which
    give NaN in numpy, are outside every documented domain and return 0 here). -/
def rpow (x y : α) : α := if 0 < x then Transc.exp (y * Transc.log x) else 0

/-- `np.polyval([a3, a2, a1, a0], x)` (Horner) -/
def polyval3 (a3 a2 a1 a0 x : α) : α := ((a3 * x + a2) * x + a1) * x + a0

/-! ### complex helpers -/
def cx (re im : α) : Cx α := ⟨re, im⟩
def cre (x : α) : Cx α := ⟨x, 0⟩

/-- Debye term `d / (1 - i x)` (Python: `d / complex(1, -x)`, a real divided by a complex) -/
def debye (d x : α) : Cx α := Cx.div ⟨d, 0⟩ ⟨1, -x⟩

/-- principal complex square root, numerically stable form (numpy's `np.sqrt` on complex up to rounding):
    the smaller component is obtained by division, not by subtracting nearly equal numbers. -/
def csqrt (z : Cx α) : Cx α :=
  let m := Transc.sqrt (z.re * z.re + z.im * z.im)
  if 0 ≤ z.re then
    let a := Transc.sqrt ((m + z.re) / 2.0)
    if 0 < a then ⟨a, z.im / (2.0 * a)⟩ else ⟨0, 0⟩
  else
    let b := Transc.sqrt ((m - z.re) / 2.0)
    if z.im < 0 then ⟨-z.im / (2.0 * b), -b⟩ else ⟨z.im / (2.0 * b), b⟩

/-- `atan2 y x` from `atan` -/
def atan2 (y x : α) : α :=
  if 0 < x then Transc.atan (y / x)
  else if x < 0 then (if y < 0 then Transc.atan (y / x) - pi else Transc.atan (y / x) + pi)
  else if 0 < y then pi / 2.0 else if y < 0 then -(pi / 2.0) else 0

/-- Python `complex ** float` (polar form: `|z|**p · (cos pφ + i sin pφ)`) -/
def cpow (z : Cx α) (p : α) : Cx α :=
  let r := Transc.sqrt (z.re * z.re + z.im * z.im)
  let len := rpow r p
  let ph := atan2 z.im z.re * p
  ⟨len * Transc.cos ph, len * Transc.sin ph⟩

/-! ### the mixing formulae the material formulae call (`generic_mixing_formula.py`; their own properties are C15) -/

/-- `maxwell_garnett_for_spheres(frac_volume, e0, eps)` -/
def mgSpheres (fv : α) (e0 eps : Cx α) : Cx α :=
  let cplus := eps + Cx.smul 2.0 e0
  let cminus := Cx.smul fv (eps - e0)
  (cplus + Cx.smul 2.0 cminus) / (cplus - cminus) * e0

/-- `polder_van_santen(frac_volume, e0, eps)` with `inclusion_shape` `None`/`"spheres"` -/
def pvsSpheres (fv : α) (e0 eps : Cx α) : Cx α :=
  let b := eps - Cx.smul 2.0 e0 - Cx.smul (3.0 * fv) (eps - e0)
  let c := Cx.neg (eps * e0)
  let disc := b * b - Cx.smul (4.0 * 2.0) c
  Cx.smul (1 / (2.0 * 2.0)) (Cx.neg b + csqrt disc)

/-- `polder_van_santen(…, inclusion_shape="random_needles")` -/
def pvsNeedles (fv : α) (e0 eps : Cx α) : Cx α :=
  let b := eps - e0 - Cx.smul (5.0 / 3.0 * fv) (eps - e0)
  let c := Cx.neg (eps * (e0 + Cx.smul (1 / 3.0 * fv) (eps - e0)))
  let disc := b * b - Cx.smul (4.0 * 1) c
  Cx.smul (1 / (2.0 * 1)) (Cx.neg b + csqrt disc)

end
end Smrt.Perm
