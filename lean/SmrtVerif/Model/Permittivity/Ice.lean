/-
  C13 — `smrt/permittivity/ice.py`: one definition per function.
-/
import SmrtVerif.Model.Permittivity.Common

namespace Smrt.Perm

section
variable {α : Type} [Add α] [Sub α] [Mul α] [Div α] [Neg α] [OfScientific α] [OfNat α 0] [OfNat α 1]
  [LT α] [DecidableRel (α := α) (· < ·)] [LE α] [DecidableRel (α := α) (· ≤ ·)] [Transc α]

/-- `Ereal = 3.1884 + 9.1e-4 * tempC` (Mätzler & Wegmüller 1987, eq. 10) -/
def iceReal (tempC : α) : α := 3.1884 + 9.1e-4 * tempC

/-- `theta = 300 / T - 1` -/
def thetaIce (T : α) : α := 300.0 / T - 1.0

/-- Hufford's `alpha = (0.00504 + 0.0062 θ) exp(−22.1 θ)` -/
def huffordAlpha (theta : α) : α := (0.00504 + 0.0062 * theta) * Transc.exp (-22.1 * theta)

/-- `(B1 / T) * (exp(b/T) / (exp(b/T) − 1)**2)` with `B1 = 0.0207`, `b = 335` -/
def betaM0 (T : α) : α :=
  let eb := Transc.exp (335.0 / T)
  (0.0207 / T) * (eb / ((eb - 1) * (eb - 1)))

/-- `ice_permittivity_maetzler06(frequency, temperature)` -/
def iceMaetzler06 (f T : α) : Except Err (Cx α) :=
  let freqGHz := f / 1e9
  let tempC := T - freezingPoint
  if 0 < tempC then .error .smrt else
  let theta := thetaIce T
  let deltabeta := Transc.exp (-9.963 + 0.0372 * tempC)
  let betam := betaM0 T + 1.16e-11 * (freqGHz * freqGHz)
  let beta := betam + deltabeta
  .ok ⟨iceReal tempC, huffordAlpha theta / freqGHz + beta * freqGHz⟩

/-- Hufford beta as typed in `ice_permittivity_maetzler98`: `(0.502 − 0.131 θ/(1+θ))·1e-4 + 0.542e-6((1+θ)/(θ+0.0073))²` -/
def beta98 (theta : α) : α :=
  (0.502 - 0.131 * theta / (1 + theta)) * 1e-4 + 0.542e-6 * sq ((1 + theta) / (theta + 0.0073))

/-- `ice_permittivity_maetzler98(frequency, temperature)` -/
def iceMaetzler98 (f T : α) : Except Err (Cx α) :=
  let tempC := T - freezingPoint
  if 0 < tempC then .error .smrt else
  let fg := f * 1e-9
  let theta := thetaIce T
  .ok ⟨iceReal tempC, huffordAlpha theta / fg + beta98 theta * fg⟩

/-- `ice_permittivity_maetzler87(frequency, temperature)` (two coefficient sets, branch at −10 °C) -/
def iceMaetzler87 (f T : α) : Except Err (Cx α) :=
  let freqGHz := f / 1e9
  let tempC := T - freezingPoint
  if 0 < tempC then .error .smrt else
  let eimag :=
    if T - freezingPoint < -10.0 then 3.5e-4 / freqGHz + 3.6e-5 * rpow freqGHz 1.2
    else 6e-4 / freqGHz + 6.5e-5 * rpow freqGHz 1.07
  .ok ⟨iceReal tempC, eimag⟩

/-- `ice_permittivity_tiuri84(frequency, temperature)`; `frequency**-1` is `1/f`, `frequency**.5` is `sqrt f` -/
def iceTiuri84 (f T : α) : Except Err (Cx α) :=
  let tempC := T - freezingPoint
  if 0 < tempC then .error .smrt else
  let d := densityOfIce * 1e-3
  let ereal := 1 + 1.7 * d + 0.7 * (d * d)
  let eimag := 1.59e6 * (0.52 * d + 0.62 * (d * d)) * (1 / f + 1.23e-14 * Transc.sqrt f) * Transc.exp (0.036 * tempC)
  .ok ⟨ereal, eimag⟩

/-- the legacy variants share `beta = betaM0 T + (1.16e-11 fGHz² + exp(c0 + c1 (T − Tref)))` -/
def betaLegacy (f T c0 c1 tref : α) : α :=
  let fg := f * 1e-9
  betaM0 T + (1.16e-11 * (fg * fg) + Transc.exp (c0 + c1 * (T - tref)))

/-- `_ice_permittivity_HUT` (guard at 273.0 K) -/
def iceHUT (f T : α) : Except Err (Cx α) :=
  if 273.0 < T then .error .smrt else
  let fg := f * 1e-9
  .ok ⟨iceReal (T - 273.0), huffordAlpha (thetaIce T) / fg + betaLegacy f T (-10.02) 0.0364 273.0 * fg⟩

/-- `_ice_permittivity_DMRTML` (no guard) -/
def iceDMRTML (f T : α) : Cx α :=
  let fg := f * 1e-9
  ⟨iceReal (T - 273.0), huffordAlpha (thetaIce T) / fg + betaLegacy f T (-9.963) 0.0372 273.16 * fg⟩

/-- `_ice_permittivity_MEMLS` (no guard; salinity in parts per thousand) -/
def iceMEMLS (f T S : α) : Cx α :=
  let fg := f * 1e-9
  let salinityEffect := 1866.0 * Transc.exp (-0.317 * fg) + (72.2 + 6.02 * fg) * (273.16 - T)
  ⟨iceReal (T - 273.0),
   huffordAlpha (thetaIce T) / fg + betaLegacy f T (-9.963) 0.0372 273.0 * fg + S / (0.013 * salinityEffect)⟩

/-- Hufford beta as typed in `ice_permittivity_hufford91_maetzler87`: `((0.502 − 0.131 θ)/(1+θ))·1e-4 + …` -/
def betaHufford (theta : α) : α :=
  ((0.502 - 0.131 * theta) / (1 + theta)) * 1e-4 + 0.542e-6 * sq ((1 + theta) / (theta + 0.0073))

/-- `ice_permittivity_hufford91_maetzler87(frequency, temperature)` -/
def iceHufford91 (f T : α) : Except Err (Cx α) :=
  if freezingPoint < T then .error .smrt else
  let fg := f * 1e-9
  let theta := thetaIce T
  .ok ⟨iceReal (T - 273.0), huffordAlpha theta / fg + betaHufford theta * fg⟩

end
end Smrt.Perm
