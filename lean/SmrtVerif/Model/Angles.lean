/-
  L4 — viewing-angle post-processing of `DORT.solve` (`smrt/rtsolver/dort.py`) and the choice of incident streams
  in `DORT.prepare_intensity_array`.

  The solver hands over the stream cosines `outmu` (descending) and one intensity per stream; `solve` optionally inserts a
  nadir node, refuses angles beyond the last stream, interpolates linearly (scipy `interp1d`) at the sorted requested
  cosines and puts the values back in the requested order.
-/
import SmrtVerif.Model.Basic

namespace Smrt.Angles

inductive Err where
  | smrt
deriving Repr, BEq, DecidableEq

section
variable {α : Type} [Add α] [Sub α] [Mul α] [Div α] [LT α] [DecidableRel (fun a b : α => a < b)]

/-- `np.searchsorted(xs, x)` (side = left) for an ascending array of `n` nodes: how many nodes are `< x` -/
def countLt (n : Nat) (xs : Nat → α) (x : α) : Nat := ((List.range n).filter (fun i => xs i < x)).length

/-- `scipy.interpolate.interp1d(xs, ys)(x)`, linear, `assume_sorted=True`, on `n ≥ 2` ascending nodes:
    `i = clip(searchsorted(xs, x), 1, n-1)`, `slope·(x − x_lo) + y_lo` -/
def interp1d (n : Nat) (xs ys : Nat → α) (x : α) : α :=
  let i := max 1 (min (countLt n xs x) (n - 1))
  (ys i - ys (i - 1)) / (xs i - xs (i - 1)) * (x - xs (i - 1)) + ys (i - 1)

/-- reverse a descending array of `n` nodes (`outmu[::-1]`) -/
def rev (n : Nat) (f : Nat → α) : Nat → α := fun i => f (n - 1 - i)

/-- prepend the nadir node (`np.insert(…, 0, value)`) -/
def insert0 (v : α) (f : Nat → α) : Nat → α := fun i => if i = 0 then v else f (i - 1)

/-- maximum / minimum of `f 0 … f (n-1)` (`np.max`, `np.min`), `n ≥ 1` -/
def maxN (n : Nat) (f : Nat → α) : α := (List.range n).foldl (fun m i => if m < f i then f i else m) (f 0)
def minN (n : Nat) (f : Nat → α) : α := (List.range n).foldl (fun m i => if f i < m then f i else m) (f 0)

/-- insertion-sort argsort (stable), as a list of indices -/
def insertIdx (key : Nat → α) (j : Nat) : List Nat → List Nat
  | [] => [j]
  | k :: rest => if key j < key k then j :: k :: rest else k :: insertIdx key j rest
def argsort (n : Nat) (key : Nat → α) : List Nat := (List.range n).foldl (fun acc j => insertIdx key j acc) []

/-- position of `k` in a list of indices (`np.argsort(i)[k]` when the list is a permutation) -/
def posOf (l : List Nat) (k : Nat) : Nat := (l.takeWhile (· ≠ k)).length

variable [OfNat α 1] [OfNat α 0]

/-- value interpolated for one requested cosine `m` from `n` streams (`mu` descending, values `v`), after the optional
    insertion of the nadir node with value `nadir` — what `solve` computes for one component of the intensity -/
def viewOne (n : Nat) (mu v : Nat → α) (needNadir : Bool) (nadir : α) (m : α) : α :=
  if needNadir then interp1d (n + 1) (rev (n + 1) (insert0 1 mu)) (rev (n + 1) (insert0 nadir v)) m
  else interp1d n (rev n mu) (rev n v) m

/-- `DORT.solve` after the solver returned: `comps` lists, per intensity component, its stream values and its nadir value.
    Returns, per requested cosine (in the requested order), the interpolated value of every component, or `SMRTError`
    when an angle is beyond the last stream. -/
def solveComps (n : Nat) (mu : Nat → α) (comps : List ((Nat → α) × α)) (k : Nat) (req : Nat → α) : Except Err (List (List α)) :=
  let needNadir := decide (maxN n mu < maxN k req)
  let lowest := minN n mu                       -- the inserted node `1.0` never lowers the minimum
  if minN k req < lowest then .error .smrt
  else
    let order := argsort k req                  -- `i = np.argsort(mu)`
    let sorted := order.map (fun j => comps.map (fun c => viewOne n mu c.1 needNadir c.2 (req j)))
    -- `[np.argsort(i)]`: put the values back in the requested order
    .ok ((List.range k).map (fun j => sorted.getD (posOf order j) []))

/-- passive: components V and H, both with nadir value `mean(V₀, H₀)` (`half` = 0.5) -/
def passiveComps (iv ih : Nat → α) (half : α) : List ((Nat → α) × α) :=
  let nadir := (iv 0 + ih 0) * half
  [(iv, nadir), (ih, nadir)]

/-- active: 3×3 components `c p q` (row = scattered polarisation, column = incident); nadir values as in the code:
    co-pol mean on the VV/HH entries, cross-pol mean on VH/HV, the U row and column copied from the first stream -/
def activeComps (c : Nat → Nat → Nat → α) (half : α) : List ((Nat → α) × α) :=
  let copol := (c 0 0 0 + c 1 1 0) * half
  let cross := (c 1 0 0 + c 0 1 0) * half
  [ (c 0 0, copol), (c 0 1, cross), (c 0 2, c 0 2 0),
    (c 1 0, cross), (c 1 1, copol), (c 1 2, c 1 2 0),
    (c 2 0, c 2 0 0), (c 2 1, c 2 1 0), (c 2 2, c 2 2 0) ]

end

/-! ### incident streams of the active mode (`prepare_intensity_array`) -/

section
variable {α : Type} [LT α] [DecidableRel (fun a b : α => a < b)]

/-- `np.searchsorted(-outmu, -mu_inc)`: number of streams with `outmu > mu_inc` (outmu descending) -/
def streamIndex (n : Nat) (outmu : Nat → α) (muInc : α) : Nat := ((List.range n).filter (fun i => muInc < outmu i)).length

/-- the streams lit for one incidence cosine: the bracketing pair, or the single end stream -/
def bracket (n : Nat) (outmu : Nat → α) (muInc : α) : List Nat :=
  let i0 := streamIndex n outmu muInc
  if i0 = 0 then [0] else if i0 = n then [n - 1] else [i0 - 1, i0]

/-- sorted, duplicate-free union over all incidence cosines -/
def insertSorted (x : Nat) : List Nat → List Nat
  | [] => [x]
  | y :: r => if x < y then x :: y :: r else if x = y then y :: r else y :: insertSorted x r
def incidentStreams (n : Nat) (outmu : Nat → α) (mus : List α) : List Nat :=
  (mus.flatMap (bracket n outmu)).foldl (fun acc x => insertSorted x acc) []

end
end Smrt.Angles
