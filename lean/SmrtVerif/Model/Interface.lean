/-
  The specular part of every interface class of `smrt/interface/` and substrate class of `smrt/substrate/`:
  `specular_reflection_matrix` and `coherent_transmission_matrix` / `emissivity_matrix` for one incidence cosine,
  as the list of the rows (V, H and, for npol = 3, U) of the matrix the code returns.  `smrt_matrix(0)` is
  represented by `npol` zeros.  Core Lean only.
-/
import SmrtVerif.Model.Fresnel

namespace Smrt.Iface
open Smrt Smrt.Fresnel

section
variable {α : Type} [Add α] [Sub α] [Mul α] [Div α] [Neg α] [OfNat α 0] [OfNat α 1] [OfScientific α]
  [LT α] [DecidableRel (α := α) (· < ·)] [Transc α]

/-- `np.pi` -/
def pi : α := (3.141592653589793 : α)
/-- `smrt.core.globalconstants.C_SPEED` -/
def cSpeed : α := (299792458.0 : α)

def zeros (npol : Nat) : List α := List.replicate npol 0
def ones (npol : Nat) : List α := List.replicate npol 1

/-- `x ** p` for a float base `x ≥ 0` (numpy: `0 ** p = 0` for `p > 0`) -/
def powr (x p : α) : α := if 0 < x then Transc.exp (p * Transc.log x) else 0

/-- `np.arccos(mu)` for `0 < mu ≤ 1` -/
def acos (mu : α) : α := Transc.atan (Transc.sqrt (1 - mu * mu) / mu)

/-! ### interface/flat.py, interface/transparent.py, geometrical_optics*.py, radar_calibration_sphere.py -/

def flatSpec (e1 e2 : Cx α) (mu : α) (npol : Nat) : List α := reflMat e1 e2 mu npol
def flatTrans (e1 e2 : Cx α) (mu : α) (npol : Nat) : List α := transMat e1 e2 mu npol

def transparentSpec (npol : Nat) : List α := zeros npol
def transparentTrans (npol : Nat) : List α := ones npol

/-- `GeometricalOptics`, `GeometricalOpticsBackscatter`, `RadarCalibrationSphere`: `smrt_matrix(0)` -/
def nullSpec (npol : Nat) : List α := zeros npol
/-- `GeometricalOptics`, `RadarCalibrationSphere` coherent transmission: `smrt_matrix(0)` -/
def nullTrans (npol : Nat) : List α := zeros npol

/-! ### interface/iem_fung92.py (and the Brogioni variant, which inherits both methods) -/

/-- `np.exp(-4 * k2 * self.roughness_rms**2 * mu1**2)`, `k2 = (2 * np.pi * frequency / C_SPEED) ** 2 * abs2(eps_1)` -/
def iemSpecFactor (f : α) (e1 : Cx α) (rms mu : α) : α :=
  let w := 2.0 * pi * f / cSpeed
  let k2 := w * w * e1.abs2
  Transc.exp (-(4.0 : α) * k2 * (rms * rms) * (mu * mu))

/-- `np.exp(-(k_sz - k_iz)**2 * self.roughness_rms**2)` -/
def iemTransFactor (f : α) (e1 e2 : Cx α) (rms mu : α) : α :=
  let k0 := 2.0 * pi * f / cSpeed
  let kiz := k0 * (csqrt e1).re * mu
  let ksz := k0 * (csqrt (e2 - Cx.smul (1 - mu * mu) e1)).re
  Transc.exp (-((ksz - kiz) * (ksz - kiz)) * (rms * rms))

def iemSpec (f : α) (e1 e2 : Cx α) (rms mu : α) (npol : Nat) : List α :=
  (reflMat e1 e2 mu npol).map (· * iemSpecFactor f e1 rms mu)
def iemTrans (f : α) (e1 e2 : Cx α) (rms mu : α) (npol : Nat) : List α :=
  (transMat e1 e2 mu npol).map (· * iemTransFactor f e1 e2 rms mu)

/-! ### substrate/rough_choudhury79.py and substrate/soil_wegmuller.py -/

/-- `ksigma = (2 * np.pi * frequency * np.sqrt((1 / 2.9979e8)**2 * eps_1) * self.roughness_rms).real` -/
def ksigma (f : α) (e1 : Cx α) (rms : α) : α :=
  let ic : α := 1 / 2.9979e8
  2.0 * pi * f * (csqrt (Cx.smul (ic * ic) e1)).re * rms

/-- `np.exp(-4 * ksigma**2 * mu1**2)` -/
def choudhuryFactor (f : α) (e1 : Cx α) (rms mu : α) : α :=
  let ks := ksigma f e1 rms
  Transc.exp (-(4.0 : α) * (ks * ks) * (mu * mu))

def choudhurySpecV (f : α) (e1 e2 : Cx α) (rms mu : α) : α := Rv e1 e2 mu * choudhuryFactor f e1 rms mu
def choudhurySpecH (f : α) (e1 e2 : Cx α) (rms mu : α) : α := Rh e1 e2 mu * choudhuryFactor f e1 rms mu
/-- `rv = 1 - transmission_coefficients[0]`, adjusted, `transmission_coefficients[0] = 1 - rv` -/
def choudhuryEmisV (f : α) (e1 e2 : Cx α) (rms mu : α) : α := 1 - (1 - Tv e1 e2 mu) * choudhuryFactor f e1 rms mu
def choudhuryEmisH (f : α) (e1 e2 : Cx α) (rms mu : α) : α := 1 - (1 - Th e1 e2 mu) * choudhuryFactor f e1 rms mu

def third (npol : Nat) (x : α) : List α := if npol ≥ 3 then [x] else []

/-- `raise Warning(...)` when `ksigma > 0.1`; the third row is left untouched -/
def choudhurySpec (f : α) (e1 e2 : Cx α) (rms mu : α) (npol : Nat) : Except String (List α) :=
  if (0.1 : α) < ksigma f e1 rms then .error "foreign:Warning"
  else .ok ([choudhurySpecV f e1 e2 rms mu, choudhurySpecH f e1 e2 rms mu] ++ third npol (Ru e1 e2 mu))
def choudhuryEmis (f : α) (e1 e2 : Cx α) (rms mu : α) (npol : Nat) : Except String (List α) :=
  if (0.1 : α) < ksigma f e1 rms then .error "foreign:Warning"
  else .ok ([choudhuryEmisV f e1 e2 rms mu, choudhuryEmisH f e1 e2 rms mu] ++ third npol (Tu e1 e2 mu))

/-- `np.exp(-ksigma**(np.sqrt(0.1 * mu1)))` -/
def wegmullerFactorH (f : α) (e1 : Cx α) (rms mu : α) : α :=
  Transc.exp (-(powr (ksigma f e1 rms) (Transc.sqrt (0.1 * mu))))

/-- `rv = rh * mu**0.655` above 60° cosine, `rh * (0.635 - 0.0014 * (arccos(mu) * 180 / pi - 60))` below;
    the threshold is `np.cos(60 * np.pi / 180)` as the code computes it -/
def wegmullerRatioV (mu : α) : α :=
  if mu < Transc.cos (60.0 * pi / 180.0) then 0.635 - 0.0014 * (acos mu * 180.0 / pi - 60.0)
  else powr mu 0.655

def wegmullerSpecH (f : α) (e1 e2 : Cx α) (rms mu : α) : α := Rh e1 e2 mu * wegmullerFactorH f e1 rms mu
def wegmullerSpecV (f : α) (e1 e2 : Cx α) (rms mu : α) : α := wegmullerSpecH f e1 e2 rms mu * wegmullerRatioV mu
def wegmullerRoughH (f : α) (e1 e2 : Cx α) (rms mu : α) : α := (1 - Th e1 e2 mu) * wegmullerFactorH f e1 rms mu
def wegmullerEmisH (f : α) (e1 e2 : Cx α) (rms mu : α) : α := 1 - wegmullerRoughH f e1 e2 rms mu
def wegmullerEmisV (f : α) (e1 e2 : Cx α) (rms mu : α) : α := 1 - wegmullerRoughH f e1 e2 rms mu * wegmullerRatioV mu

def wegmullerSpec (f : α) (e1 e2 : Cx α) (rms mu : α) (npol : Nat) : List α :=
  [wegmullerSpecV f e1 e2 rms mu, wegmullerSpecH f e1 e2 rms mu] ++ third npol (Ru e1 e2 mu)
def wegmullerEmis (f : α) (e1 e2 : Cx α) (rms mu : α) (npol : Nat) : List α :=
  [wegmullerEmisV f e1 e2 rms mu, wegmullerEmisH f e1 e2 rms mu] ++ third npol (Tu e1 e2 mu)

/-! ### substrate/soil_qnh.py

  The documented behaviour ("parameters: Q, N, H (or Nv and Nh instead of N)", defaults `Nv = Nh = nan`): a missing
  `Nv` / `Nh` falls back to `N`.  (The shipped `adjust` assigns `Nv = N` to unbound locals and then reads
  `self.Nv`: the model states what the property requires, see the C12 report.) -/

def qnhCoef (H N mu : α) : α := Transc.exp (-H * powr mu N)
/-- `((1-Q) * a + Q * b) * coef` -/
def qnhMix (Q a b coef : α) : α := ((1 - Q) * a + Q * b) * coef

def qnhSpecV (e1 e2 : Cx α) (H Q Nv mu : α) : α := qnhMix Q (Rv e1 e2 mu) (Rh e1 e2 mu) (qnhCoef H Nv mu)
def qnhSpecH (e1 e2 : Cx α) (H Q Nh mu : α) : α := qnhMix Q (Rh e1 e2 mu) (Rv e1 e2 mu) (qnhCoef H Nh mu)
def qnhEmisV (e1 e2 : Cx α) (H Q Nv mu : α) : α :=
  1 - qnhMix Q (1 - Tv e1 e2 mu) (1 - Th e1 e2 mu) (qnhCoef H Nv mu)
def qnhEmisH (e1 e2 : Cx α) (H Q Nh mu : α) : α :=
  1 - qnhMix Q (1 - Th e1 e2 mu) (1 - Tv e1 e2 mu) (qnhCoef H Nh mu)

def qnhSpec (e1 e2 : Cx α) (H Q N : α) (Nv Nh : Option α) (mu : α) (npol : Nat) : List α :=
  [qnhSpecV e1 e2 H Q (Nv.getD N) mu, qnhSpecH e1 e2 H Q (Nh.getD N) mu] ++ third npol (Ru e1 e2 mu)
def qnhEmis (e1 e2 : Cx α) (H Q N : α) (Nv Nh : Option α) (mu : α) (npol : Nat) : List α :=
  [qnhEmisV e1 e2 H Q (Nv.getD N) mu, qnhEmisH e1 e2 H Q (Nh.getD N) mu] ++ third npol (Tu e1 e2 mu)

/-! ### substrate/reflector.py and substrate/reflector_backscatter.py (scalar or per-polarisation reflectivity;
    `specular_reflection=None` means 1) -/

def reflectorSpec (rV rH : α) (npol : Nat) : Except String (List α) :=
  if npol > 2 then .error "NotImplementedError" else .ok [rV, rH]
def reflectorEmis (rV rH : α) (npol : Nat) : Except String (List α) :=
  if npol > 2 then .error "NotImplementedError" else .ok [1 - rV, 1 - rH]

def reflectorBSpec (rV rH : α) (npol : Nat) : List α := [rV, rH] ++ zeros (npol - 2)
def reflectorBEmis (rV rH : α) (npol : Nat) : List α := [1 - rV, 1 - rH] ++ zeros (npol - 2)

/-- `specular_reflection=None` (and no backscatter coefficient) is replaced by 1 -/
def reflDefault (r : Option α) : α := r.getD 1

/-! ### core/interface.py `substrate_from_interface`: the substrate evaluates its permittivity model and calls the
    interface; without a permittivity model it raises `SMRTError` -/

def substrateFromInterface {β : Type} (method : Cx α → β) (eps2 : Option (Cx α)) : Except String β :=
  match eps2 with
  | none => .error "SMRTError"
  | some e => .ok (method e)

end
/-! ### which definition of this model stands for which plugin module, and which NaN / None defaults it resolves -/

/-- (side, module, model): `flat` = `flatSpec/flatTrans`, `null` = `nullSpec/nullTrans`, `nullspec` = `nullSpec` only (the coherent
    transmission of `geometrical_optics_backscatter` is one minus a numerical integral and is not modelled), `iem`, `choudhury`,
    `wegmuller`, `qnh`, `reflector`, `reflectorb`, `coherent` (`Model/CoherentFlat.lean`); substrates built by
    `substrate_from_interface` are `substrateFromInterface` applied to the interface's model. -/
def registry : List (String × String × String) := [
  ("interface", "flat", "flat"), ("interface", "transparent", "transparent"), ("interface", "iem_fung92", "iem"),
  ("interface", "iem_fung92_brogioni10", "iem"), ("interface", "geometrical_optics", "null"),
  ("interface", "geometrical_optics_backscatter", "nullspec"), ("interface", "radar_calibration_sphere", "null"),
  ("interface", "coherent_flat", "coherent"),
  ("substrate", "flat", "flat"), ("substrate", "transparent", "transparent"), ("substrate", "iem_fung92", "iem"),
  ("substrate", "iem_fung92_brogioni10", "iem"), ("substrate", "geometrical_optics", "null"),
  ("substrate", "geometrical_optics_backscatter", "nullspec"), ("substrate", "radar_calibration_sphere", "null"),
  ("substrate", "soil_wegmuller", "wegmuller"), ("substrate", "soil_qnh", "qnh"), ("substrate", "rough_choudhury79", "choudhury"),
  ("substrate", "reflector", "reflector"), ("substrate", "reflector_backscatter", "reflectorb")]

/-- optional arguments whose default is NaN or None and what the model (= the documented behaviour) does with it:
    `qnhSpec … (Nv := none)` uses `N`; `reflDefault none = 1`; a missing backscatter coefficient means no diffuse part. -/
def defaultFallbacks : List (String × String) := [
  ("soil_qnh", "Nv"), ("soil_qnh", "Nh"), ("reflector", "specular_reflection"), ("reflector", "backscatter_coefficient"),
  ("reflector_backscatter", "specular_reflection"), ("reflector_backscatter", "backscattering_coefficient")]

/-- required constructor arguments the specular part of the model takes (the others only enter the diffuse part) -/
def requiredKnown : List String := ["roughness_rms", "corr_length", "mean_square_slope", "H"]

end Smrt.Iface
