/-
  L0 — containers of `smrt/core/lib.py` (`smrt_diag`, `smrt_matrix`) and the helpers of
  `smrt/rtsolver/dort.py` that consume them (`matmul`, `muleye`, `extend_2pol_npol`, `todiag`).

  Matrices are *function backed* (`r c : Nat`, `f : Nat → Nat → α`): entry `(i, j)` is `f i j`, only
  indices inside the shape are meaningful.  Drivers build `f` from arrays.
-/
import SmrtVerif.Model.Basic

namespace Smrt

/-- error kinds a container operation can end with (Python exception class) -/
inductive Err where
  | smrt            -- SMRTError
  | notImplemented  -- NotImplementedError
  | shape           -- ValueError / AssertionError on shapes
  | index           -- IndexError (e.g. write outside the banded storage)
deriving Repr, BEq, DecidableEq, Inhabited

def Err.name : Err → String
  | .smrt => "SMRTError" | .notImplemented => "NotImplementedError"
  | .shape => "ShapeError" | .index => "IndexError"

/-- a 2-d ndarray -/
structure Mat (α : Type) where
  r : Nat
  c : Nat
  f : Nat → Nat → α

/-- `smrt_diag`: a square diagonal matrix stored as its diagonal -/
structure Diag (α : Type) where
  n : Nat
  d : Nat → α

section ops
variable {α : Type} [Add α] [Sub α] [Mul α] [Neg α] [OfNat α 0]

namespace Mat
def zeros (r c : Nat) : Mat α := ⟨r, c, fun _ _ => 0⟩
def add (a b : Mat α) : Mat α := ⟨a.r, a.c, fun i j => a.f i j + b.f i j⟩
def sub (a b : Mat α) : Mat α := ⟨a.r, a.c, fun i j => a.f i j - b.f i j⟩
def neg (a : Mat α) : Mat α := ⟨a.r, a.c, fun i j => - a.f i j⟩
def smul (s : α) (a : Mat α) : Mat α := ⟨a.r, a.c, fun i j => s * a.f i j⟩
/-- dense matrix product, inner sum in index order -/
def mul (a b : Mat α) : Mat α := ⟨a.r, b.c, fun i j => sumN a.c (fun k => a.f i k * b.f k j)⟩
/-- `x[:k, :]` -/
def takeRows (k : Nat) (a : Mat α) : Mat α := ⟨min k a.r, a.c, a.f⟩
/-- `np.sum(x, axis=1)` -/
def rowSums (a : Mat α) : Nat → α := fun i => sumN a.c (fun j => a.f i j)
end Mat

namespace Diag
/-- the dense matrix a `smrt_diag` stands for -/
def toMat (d : Diag α) : Mat α := ⟨d.n, d.n, fun i j => if i = j then d.d i else 0⟩

/-- `ndarray @ smrt_diag` (`__rmatmul__`): `other * self.diag[np.newaxis, :]` -/
def rmatmul (other : Mat α) (d : Diag α) : Mat α := ⟨other.r, other.c, fun i j => other.f i j * d.d j⟩
/-- `smrt_diag @ ndarray`: `other * self.diag[:, np.newaxis]` -/
def matmulMat (d : Diag α) (other : Mat α) : Mat α := ⟨other.r, other.c, fun i j => other.f i j * d.d i⟩
/-- `smrt_diag @ smrt_diag`: `smrt_diag(other.diag * self.diag)` -/
def matmulDiag (self other : Diag α) : Diag α := ⟨self.n, fun i => other.d i * self.d i⟩
/-- `self * scalar` -/
def mulScalar (self : Diag α) (s : α) : Diag α := ⟨self.n, fun i => self.d i * s⟩
/-- `scalar * self` -/
def rmulScalar (s : α) (self : Diag α) : Diag α := ⟨self.n, fun i => s * self.d i⟩
/-- `self + other`, both `smrt_diag`: `smrt_diag(other.diag + self.diag)` -/
def addDiag (self other : Diag α) : Diag α := ⟨self.n, fun i => other.d i + self.d i⟩
/-- `self + ndarray` (also `ndarray + self` through `__radd__`): the diagonal is added to a copy -/
def addMat (self : Diag α) (other : Mat α) : Mat α :=
  ⟨other.r, other.c, fun i j => if i = j then other.f i j + self.d i else other.f i j⟩
/-- `self - other`, both `smrt_diag` -/
def subDiag (self other : Diag α) : Diag α := ⟨self.n, fun i => self.d i - other.d i⟩
/-- `self[i, j]` -/
def getItem (self : Diag α) (i j : Nat) : α := if i = j then self.d i else 0
end Diag

/-- What `smrt_matrix.compress` returns and what DORT's helpers work with:
    the scalar `0`, a `smrt_diag`, or a 2-d ndarray. -/
inductive CV (α : Type) where
  | zero
  | diag (d : Diag α)
  | dense (m : Mat α)

namespace CV
/-- rows of the value (`x.shape[0]`); the scalar has no shape (the code never asks) -/
def rows : CV α → Nat
  | .zero => 0 | .diag d => d.n | .dense m => m.r

/-- the dense matrix of the given shape a value stands for (`0` is the zero matrix of any shape) -/
def toMat (r c : Nat) : CV α → Mat α
  | .zero => Mat.zeros r c
  | .diag d => d.toMat
  | .dense m => m

/-- `dort.matmul(a, b)`: a scalar operand multiplies elementwise (the result keeps the shape of the
    other operand and is all zeros), otherwise `a @ b` -/
def matmul : CV α → CV α → CV α
  | .zero, .zero => .zero
  | .zero, .diag b => .diag ⟨b.n, fun i => 0 * b.d i⟩      -- `0.0 * smrt_diag`
  | .diag a, .zero => .diag ⟨a.n, fun i => a.d i * 0⟩
  | .zero, .dense b => .dense ⟨b.r, b.c, fun i j => 0 * b.f i j⟩   -- numpy: scalar times array
  | .dense a, .zero => .dense ⟨a.r, a.c, fun i j => a.f i j * 0⟩
  | .diag a, .diag b => .diag (a.matmulDiag b)
  | .diag a, .dense b => .dense (a.matmulMat b)
  | .dense a, .diag b => .dense (Diag.rmatmul a b)
  | .dense a, .dense b => .dense (a.mul b)

/-- `a - b` as DORT writes `Ed - matmul(R, Eu)`: ndarray minus (0 | ndarray).  A `smrt_diag` on the
    right never occurs there (R·E is dense); `ndarray - smrt_diag` raises in the code. -/
def subFromDense (a : Mat α) : CV α → Except Err (Mat α)
  | .zero => .ok a
  | .dense b => .ok (a.sub b)
  | .diag _ => .error .notImplemented

/-- `dort.muleye(x)`: `x · 1` (row sums) -/
def muleye (n : Nat) : CV α → (Nat → α)
  | .zero => fun _ => 0
  | .diag d => d.d
  | .dense m => fun i => if i < n then m.rowSums i else 0
end CV

/-- `smrt_matrix`: the scalar zero, or an array tagged with its layout.
    index order as in the code: polarisation(s) first, then mode (kinds …5), then direction(s). -/
inductive SM (α : Type) where
  | zero
  | diag4 (npol n : Nat) (v : Nat → Nat → α)
  | diag5 (npol nm n : Nat) (v : Nat → Nat → Nat → α)
  | dense4 (npol ns ni : Nat) (v : Nat → Nat → Nat → Nat → α)
  | dense5 (npol nm ns ni : Nat) (v : Nat → Nat → Nat → Nat → Nat → α)

namespace SM

def kind : SM α → String
  | .zero => "0" | .diag4 .. => "diagonal4" | .diag5 .. => "diagonal5"
  | .dense4 .. => "dense4" | .dense5 .. => "dense5"

/-- number of polarisations kept by `sel`/`compress` (3 → 2 for mode 0 with `auto_reduce_npol`) -/
def redPol (npol : Nat) (mode : Option Nat) (autoReduce : Bool) : Nat :=
  if npol = 3 && autoReduce && mode == some 0 then 2 else npol

/-- `sel(mode=m, auto_reduce_npol=…)` -/
def sel (m : Nat) (autoReduce : Bool) : SM α → Except Err (SM α)
  | .dense5 npol _ ns ni v => .ok (.dense4 (redPol npol (some m) autoReduce) ns ni (fun p q i j => v p q m i j))
  | .diag5 npol _ n v => .ok (.diag4 (redPol npol (some m) autoReduce) n (fun p i => v p m i))
  | .dense4 .. => .error .smrt
  | .diag4 .. => .error .smrt
  | .zero => .error .notImplemented   -- `self.values.shape[0]` on a scalar: the code fails, never used

/-- `compress(mode, auto_reduce_npol)`: polarisation is the fast index, direction the slow one. -/
def compress (mode : Option Nat) (autoReduce : Bool) : SM α → Except Err (CV α)
  | .zero => .ok .zero
  | .dense4 npol ns ni v =>
      let np := redPol npol mode autoReduce
      .ok (.dense ⟨ns * np, ni * np, fun r c => v (r % np) (c % np) (r / np) (c / np)⟩)
  | .diag4 npol n v =>
      let np := redPol npol mode autoReduce
      .ok (.diag ⟨n * np, fun r => v (r % np) (r / np)⟩)
  | .dense5 npol _ ns ni v =>
      match mode with
      | none => .error .notImplemented
      | some m =>
        let np := redPol npol (some m) autoReduce
        .ok (.dense ⟨ns * np, ni * np, fun r c => v (r % np) (c % np) m (r / np) (c / np)⟩)
  | .diag5 npol _ n v =>
      match mode with
      | none => .error .notImplemented
      | some m =>
        let np := redPol npol (some m) autoReduce
        .ok (.diag ⟨n * np, fun r => v (r % np) m (r / np)⟩)

/-- `to_dense()` -/
def toDense : SM α → Except Err (SM α)
  | .dense4 a b c v => .ok (.dense4 a b c v)
  | .dense5 a b c d v => .ok (.dense5 a b c d v)
  | .diag4 npol n v => .ok (.dense4 npol n n (fun p q i j => if p = q ∧ i = j then v p i else 0))
  | .diag5 npol nm n v => .ok (.dense5 npol nm n n (fun p q m i j => if p = q ∧ i = j then v p m i else 0))
  | .zero => .error .notImplemented

/-- the `.diagonal` property: npol × [mode ×] n array of the entries with equal polarisation and direction -/
def diagonal : SM α → SM α
  | .zero => .diag4 1 1 (fun _ _ => 0)
  | .diag4 a b v => .diag4 a b v
  | .diag5 a b c v => .diag5 a b c v
  | .dense4 npol ns _ v => .diag4 npol ns (fun p i => v p p i i)
  | .dense5 npol nm ns _ v => .diag5 npol nm ns (fun p m i => v p p m i i)

/-- pointwise combination of two containers of the same kind and shape; the scalar zero combines with
    anything (numpy broadcasting of `np.float64(0.)`).  Mixed kinds: numpy would broadcast the two
    arrays against each other by position, which is not a matrix operation — the model refuses. -/
def zipWith (g : α → α → α) : SM α → SM α → Except Err (SM α)
  | .zero, .zero => .ok .zero
  | .zero, .diag4 a b v => .ok (.diag4 a b (fun p i => g 0 (v p i)))
  | .zero, .diag5 a b c v => .ok (.diag5 a b c (fun p m i => g 0 (v p m i)))
  | .zero, .dense4 a b c v => .ok (.dense4 a b c (fun p q i j => g 0 (v p q i j)))
  | .zero, .dense5 a b c d v => .ok (.dense5 a b c d (fun p q m i j => g 0 (v p q m i j)))
  | .diag4 a b v, .zero => .ok (.diag4 a b (fun p i => g (v p i) 0))
  | .diag5 a b c v, .zero => .ok (.diag5 a b c (fun p m i => g (v p m i) 0))
  | .dense4 a b c v, .zero => .ok (.dense4 a b c (fun p q i j => g (v p q i j) 0))
  | .dense5 a b c d v, .zero => .ok (.dense5 a b c d (fun p q m i j => g (v p q m i j) 0))
  | .diag4 a b v, .diag4 a' b' w =>
      if a = a' ∧ b = b' then .ok (.diag4 a b (fun p i => g (v p i) (w p i))) else .error .shape
  | .diag5 a b c v, .diag5 a' b' c' w =>
      if a = a' ∧ b = b' ∧ c = c' then .ok (.diag5 a b c (fun p m i => g (v p m i) (w p m i))) else .error .shape
  | .dense4 a b c v, .dense4 a' b' c' w =>
      if a = a' ∧ b = b' ∧ c = c' then .ok (.dense4 a b c (fun p q i j => g (v p q i j) (w p q i j))) else .error .shape
  | .dense5 a b c d v, .dense5 a' b' c' d' w =>
      if a = a' ∧ b = b' ∧ c = c' ∧ d = d' then
        .ok (.dense5 a b c d (fun p q m i j => g (v p q m i j) (w p q m i j))) else .error .shape
  -- mixed diagonal/dense layouts of the same rank: both are converted to the dense layout first
  | .diag4 a b v, .dense4 a' b' c' w =>
      if a = a' ∧ b = b' ∧ b = c' then
        .ok (.dense4 a b b (fun p q i j => g (if p = q ∧ i = j then v p i else 0) (w p q i j))) else .error .shape
  | .dense4 a b c v, .diag4 a' b' w =>
      if a = a' ∧ b = b' ∧ c = b' then
        .ok (.dense4 a b c (fun p q i j => g (v p q i j) (if p = q ∧ i = j then w p i else 0))) else .error .shape
  | .diag5 a m b v, .dense5 a' m' b' c' w =>
      if a = a' ∧ m = m' ∧ b = b' ∧ b = c' then
        .ok (.dense5 a m b b (fun p q k i j => g (if p = q ∧ i = j then v p k i else 0) (w p q k i j))) else .error .shape
  | .dense5 a m b c v, .diag5 a' m' b' w =>
      if a = a' ∧ m = m' ∧ b = b' ∧ c = b' then
        .ok (.dense5 a m b c (fun p q k i j => g (v p q k i j) (if p = q ∧ i = j then w p k i else 0))) else .error .shape
  | _, _ => .error .notImplemented

/-- `self + other` (the code computes `other.values + self.values`) -/
def add (self other : SM α) : Except Err (SM α) := zipWith (fun x y => y + x) self other
/-- `self - other` -/
def sub (self other : SM α) : Except Err (SM α) := zipWith (fun x y => x - y) self other

/-- `self * s` for a scalar `s` -/
def mulScalar (s : α) : SM α → SM α
  | .zero => .zero
  | .diag4 a b v => .diag4 a b (fun p i => v p i * s)
  | .diag5 a b c v => .diag5 a b c (fun p m i => v p m i * s)
  | .dense4 a b c v => .dense4 a b c (fun p q i j => v p q i j * s)
  | .dense5 a b c d v => .dense5 a b c d (fun p q m i j => v p q m i j * s)

end SM

/-! ### banded storage and `todiag` -/

/-- LAPACK banded storage `ab` with `u` super- and `u` sub-diagonals: rows `0 … 2u`, row index as `Int`
    so that a write outside the band is visible instead of wrapping around. -/
abbrev Banded (α : Type) := Int → Nat → α

/-- slice assignment `bmat[row, c0 : c0+len] = src[0:len]` -/
def Banded.setRow (b : Banded α) (row : Int) (c0 len : Nat) (src : Nat → α) : Banded α :=
  fun r c => if r = row ∧ c0 ≤ c ∧ c < c0 + len then src (c - c0) else b r c

/-- first loop of `todiag`: the main and upper diagonals of the block -/
def todiagUpper (u : Nat) (oi oj n m : Nat) (d : Nat → Nat → α) (b : Banded α) : Banded α :=
  (List.range m).foldl (fun (b : Banded α) (j : Nat) =>
    b.setRow ((u : Int) + (oi : Int) - (oj : Int) - (j : Int)) (j + oj) (min n (m - j)) (fun k => d k (j + k))) b

/-- second loop of `todiag`: the lower diagonals of the block -/
def todiagLower (u : Nat) (oi oj n m : Nat) (d : Nat → Nat → α) (b : Banded α) : Banded α :=
  (List.range (n - 1)).foldl (fun (b : Banded α) (i' : Nat) =>
    b.setRow ((u : Int) + (oi : Int) - (oj : Int) + ((i' + 1 : Nat) : Int)) oj (min (n - (i' + 1)) m)
      (fun k => d (i' + 1 + k) k)) b

/-- `todiag(bmat, oi, oj, dmat)` for an `n × m` block -/
def todiag (u : Nat) (oi oj n m : Nat) (d : Nat → Nat → α) (b : Banded α) : Banded α :=
  todiagLower u oi oj n m d (todiagUpper u oi oj n m d b)

/-- does the `n × m` block at offset `(oi, oj)` fit in a band of half-width `u`?  (otherwise numpy
    raises IndexError or wraps a negative row index; the model reports `Err.index`) -/
def blockInBand (u oi oj n m : Nat) : Bool :=
  n == 0 || m == 0 ||
  (decide ((0 : Int) ≤ (u : Int) + (oi : Int) - (oj : Int) - ((m : Int) - 1)) &&
   decide ((u : Int) + (oi : Int) - (oj : Int) + ((n : Int) - 1) ≤ 2 * (u : Int)))

/-- the dense matrix a banded array stands for (scipy convention `ab[u + i - j, j] = a[i, j]`) -/
def Banded.toDense (u : Nat) (b : Banded α) : Nat → Nat → α :=
  fun (i j : Nat) => if (i : Int) - (j : Int) ≤ (u : Int) ∧ (j : Int) - (i : Int) ≤ (u : Int)
    then b ((u : Int) + (i : Int) - (j : Int)) j else 0

/-! ### DORT's bookkeeping of block positions (`jl`, `il_top`, `il_bottom`, `nband`, `nboundary`) -/

/-- `np.cumsum(n) - n`: number of streams in the layers above `l` -/
def streamsAbove (ns : List Nat) (l : Nat) : Nat := (ns.take l).foldl (· + ·) 0

def jl (npol : Nat) (ns : List Nat) (l : Nat) : Nat := 2 * streamsAbove ns l * npol
def ilTop (npol : Nat) (ns : List Nat) (l : Nat) : Nat := 2 * streamsAbove ns l * npol
def ilBottom (npol : Nat) (ns : List Nat) (l : Nat) : Nat := ilTop npol ns l + ns.getD l 0 * npol
def nboundary (npol : Nat) (ns : List Nat) : Nat := ns.foldl (· + ·) 0 * 2 * npol

/-- `max(np.max(2 n[1:] + n[:-1]), np.max(n[1:] + 2 n[:-1]))` over consecutive layers -/
def nbandAux : List Nat → Nat
  | a :: b :: rest => max (max (2 * b + a) (b + 2 * a)) (nbandAux (b :: rest))
  | _ => 0

/-- `nband` of `dort_modem_banded` -/
def nband (npol : Nat) (ns : List Nat) : Nat :=
  match ns with
  | [] => 0
  | [n] => 3 * npol * n
  | _ => npol * nbandAux ns

/-- the four blocks `dort_modem_banded` writes for layer `l`, as (row offset, column offset, rows, columns);
    `k` is the number of rows kept by the `ns_npol_common` truncation of a coupling block -/
def blockTop (npol : Nat) (ns : List Nat) (l : Nat) : Nat × Nat × Nat × Nat :=
  (ilTop npol ns l, jl npol ns l, ns.getD l 0 * npol, 2 * (ns.getD l 0 * npol))
def blockBottom (npol : Nat) (ns : List Nat) (l : Nat) : Nat × Nat × Nat × Nat :=
  (ilBottom npol ns l, jl npol ns l, ns.getD l 0 * npol, 2 * (ns.getD l 0 * npol))
/-- `-Tbottom(l) Ed transb` written at the top rows of layer `l+1` -/
def blockDown (npol : Nat) (ns : List Nat) (l k : Nat) : Nat × Nat × Nat × Nat :=
  (ilTop npol ns (l + 1), jl npol ns l, k, 2 * (ns.getD l 0 * npol))
/-- `-Ttop(l+1) Eu transt` of layer `l+1` written at the bottom rows of layer `l` -/
def blockUp (npol : Nat) (ns : List Nat) (l k : Nat) : Nat × Nat × Nat × Nat :=
  (ilBottom npol ns l, jl npol ns (l + 1), k, 2 * (ns.getD (l + 1) 0 * npol))

/-- `extend_2pol_npol` on a vector: V and H entries move to slots `0,1` of each `npol` group, the rest is 0 -/
def extend2polVec (npol : Nat) (x : Nat → α) : Nat → α :=
  fun r => if r % npol < 2 then x (2 * (r / npol) + r % npol) else 0

/-- `extend_2pol_npol` on a matrix -/
def extend2polMat (npol : Nat) (x : Nat → Nat → α) : Nat → Nat → α :=
  fun r c => if r % npol < 2 ∧ c % npol < 2 then x (2 * (r / npol) + r % npol) (2 * (c / npol) + c % npol) else 0

end ops

end Smrt
