/-
  Model of the dielectric mixing formulae of SMRT (property C15):
    smrt/permittivity/generic_mixing_formula.py   depolarization_factors, polder_van_santen (= bruggeman),
        maxwell_garnett, maxwell_garnett_for_spheres, the residual equations of
        polder_van_santen_three_spherical_components / polder_van_santen_three_components
    smrt/emmodel/sce_common.py                    permittivity_hashin_shtrikman

  Core Lean only.  Scalars are polymorphic (`Float` in the driver, `ℝ` in the proofs); permittivities are `Cx α`,
  fractional volumes, mixing ratios and depolarisation factors are real scalars, exactly as in the code.
  The expressions are transcribed operation by operation (order of the operations included).
-/
import SmrtVerif.Model.Basic

namespace Smrt.Mixing

/-- what the code raises -/
inductive Err where
  | smrt            -- SMRTError
  | assertion       -- `assert np.all(frac_volume <= 1)`
  | notImplemented  -- NotImplementedError (depol_xyz / length_ratio given to polder_van_santen)
deriving Repr, BEq, DecidableEq

def Err.name : Err → String
  | .smrt => "SMRTError"
  | .assertion => "foreign:AssertionError"
  | .notImplemented => "NotImplementedError"

/-- `inclusion_shape`: `None`/"spheres", "random_needles", any other string -/
inductive Shape where
  | spheres | needles | other
deriving Repr, BEq, DecidableEq

section
variable {α : Type} [Add α] [Sub α] [Mul α] [Div α] [Neg α] [OfScientific α]
  [OfNat α 0] [OfNat α 1] [OfNat α 2] [OfNat α 3] [OfNat α 4] [OfNat α 5]
  [LT α] [DecidableRel (α := α) (· < ·)] [Transc α]

/-! ### depolarisation factors (`depolarization_factors`) -/

/-- `anisotropy_q` of Löwe et al. (2013) eq. 4 as coded; `length_ratio == 1` is the remaining case of the trichotomy -/
def anisotropyQ (lr : α) : α :=
  if 1 < lr then
    let chi_b := Transc.sqrt (1 - 1 / (lr * lr))
    let ln_term := Transc.log ((1 + chi_b) / (1 - chi_b))
    0.5 * (1 + (1 / (lr * lr - 1)) * (1 - (1 / (2 * chi_b)) * ln_term))
  else if lr < 1 then
    let chi_a := Transc.sqrt (1 / (lr * lr) - 1)
    0.5 * (1 + (1 / (lr * lr - 1)) * (1 - (1 / chi_a) * Transc.atan chi_a))
  else 1 / 3

/-- `[q, q, 1 - 2 q]` -/
def depolFactors (lr : α) : α × α × α :=
  let q := anisotropyQ lr
  (q, q, 1 - 2 * q)

/-! ### complex helpers local to this model -/

/-- complex / real (Python converts the real to a complex and divides: same value up to rounding) -/
def sdiv (a : Cx α) (d : α) : Cx α := ⟨a.re / d, a.im / d⟩
def cone : Cx α := ⟨1, 0⟩
def czero : Cx α := ⟨0, 0⟩

/-! ### Polder–van Santen / Bruggeman (`polder_van_santen`) -/

/-- `(a_quad, b_quad, c_quad)` of the quadratic the code solves; `none` = unknown shape -/
def pvsCoeffs (shape : Shape) (f : α) (e0 eps : Cx α) : Option (α × Cx α × Cx α) :=
  match shape with
  | .spheres => some (2, eps - Cx.smul 2 e0 - Cx.smul (3 * f) (eps - e0), (-eps) * e0)
  | .needles => some (1, eps - e0 - Cx.smul (5 / 3 * f) (eps - e0),
                      (-eps) * (e0 + Cx.smul (1 / 3 * f) (eps - e0)))
  | .other => none

/-- `(-b + sqrt(b**2 - 4 a c)) / (2 a)` with the complex square root as a parameter -/
def quadRoot (csqrt : Cx α → Cx α) (a : α) (b c : Cx α) : Cx α :=
  sdiv (-b + csqrt (b * b - Cx.smul (4 * a) c)) (2 * a)

/-- single-shape branch of `polder_van_santen`; `hasDepol` = `depol_xyz` or `length_ratio` is not None -/
def pvsWith (csqrt : Cx α → Cx α) (shape : Shape) (f : α) (e0 eps : Cx α) (hasDepol : Bool := false) :
    Except Err (Cx α) :=
  if 1 < f then .error .assertion
  else if hasDepol then .error .notImplemented
  else match pvsCoeffs shape f e0 eps with
    | none => .error .smrt
    | some (a, b, c) => .ok (quadRoot csqrt a b c)

/-- the function the code computes: numpy's principal square root -/
def pvs (shape : Shape) (f : α) (e0 eps : Cx α) (hasDepol : Bool := false) : Except Err (Cx α) :=
  pvsWith Cx.sqrt shape f e0 eps hasDepol

/-- list form: `mixing_ratio` has `len(inclusion_shape) - 1` entries (last one deduced), or as many, else SMRTError -/
def mixWeights (nshapes : Nat) (rs : List α) : Except Err (List α) :=
  if rs.length + 1 = nshapes then .ok (rs ++ [1 - rs.foldl (· + ·) 0])
  else if rs.length ≠ nshapes then .error .smrt
  else .ok rs

/-- `sum(mixing * value for …)` (Python's `sum` starts from 0) -/
def mixSum (ps : List (α × Cx α)) : Cx α :=
  ps.foldl (fun acc p => acc + Cx.smul p.1 p.2) czero

/-- dict / zipped-list branch of `polder_van_santen` -/
def pvsMixtureWith (csqrt : Cx α → Cx α) (f : α) (e0 eps : Cx α) (hasDepol : Bool) (comps : List (Shape × α)) :
    Except Err (Cx α) := do
  let ps ← comps.mapM (fun sw => (pvsWith csqrt sw.1 f e0 eps hasDepol).map (fun p => (sw.2, p)))
  pure (mixSum ps)

def pvsMixture (f : α) (e0 eps : Cx α) (hasDepol : Bool) (comps : List (Shape × α)) : Except Err (Cx α) :=
  pvsMixtureWith Cx.sqrt f e0 eps hasDepol comps

/-- sequence form: shapes + `mixing_ratio` -/
def pvsList (f : α) (e0 eps : Cx α) (hasDepol : Bool) (shapes : List Shape) (rs : List α) : Except Err (Cx α) := do
  let ws ← mixWeights shapes.length rs
  pvsMixture f e0 eps hasDepol (shapes.zip ws)

/-! ### Maxwell Garnett -/

/-- one of the x, y, z components: `e0 * (1 + f (eps-e0) / (e0 + (1-f) A (eps-e0)))` -/
def mgComponent (f : α) (e0 eps : Cx α) (A : α) : Cx α :=
  e0 * (cone + Cx.smul f (eps - e0) / (e0 + Cx.smul ((1 - f) * A) (eps - e0)))

/-- `np.mean` of the three components -/
def mgMean (f : α) (e0 eps : Cx α) (A : α × α × α) : Cx α :=
  sdiv (mgComponent f e0 eps A.1 + mgComponent f e0 eps A.2.1 + mgComponent f e0 eps A.2.2) 3

/-- `maxwell_garnett`; `shapeOk` = inclusion_shape is None or "spheres" -/
def maxwellGarnett (f : α) (e0 eps : Cx α) (shapeOk : Bool) (A : α × α × α) : Except Err (Cx α) :=
  if 1 < f then .error .assertion
  else if !shapeOk then .error .smrt
  else .ok (mgMean f e0 eps A)

/-- `maxwell_garnett_for_spheres` -/
def mgSpheres (f : α) (e0 eps : Cx α) : Cx α :=
  let cplus := eps + Cx.smul 2 e0
  let cminus := Cx.smul f (eps - e0)
  (cplus + Cx.smul 2 cminus) / (cplus - cminus) * e0

/-- `sce_common.permittivity_hashin_shtrikman` -/
def hashinShtrikman (f : α) (e0 eps : Cx α) : Cx α :=
  let beta := (eps - e0) / (eps + Cx.smul 2 e0)
  e0 * (cone + Cx.smul (3 * f) beta / (cone - Cx.smul f beta))

/-! ### three components: the residual equations handed to `scipy.optimize.root`
     (the first guesses and the root finder itself are not modelled: the property does not constrain them) -/

/-- two-component residual in the same form: `x (1 - 3 f (eps-e0)/(2x+eps)) - e0` -/
def resid2Sph (f : α) (e0 eps x : Cx α) : Cx α :=
  x * (cone - Cx.smul (3 * f) (eps - e0) / (Cx.smul 2 x + eps)) - e0

/-- `pvs_equation` of `polder_van_santen_three_spherical_components` -/
def resid3Sph (f1 f2 : α) (e0 e1 e2 x : Cx α) : Cx α :=
  x * (cone - Cx.smul (3 * f2) (e2 - e0) / (Cx.smul 2 x + e2)
            - Cx.smul (3 * f1) (e1 - e0) / (Cx.smul 2 x + e1)) - e0

/-- `sum(1 / (eps_eff + Aj * (eps - eps_eff)) for Aj in A)` -/
def sumInv (A : List α) (eps x : Cx α) : Cx α :=
  A.foldl (fun acc a => acc + cone / (x + Cx.smul a (eps - x))) czero

/-- two-component residual with depolarisation factors -/
def resid2Gen (f : α) (e0 eps : Cx α) (A : List α) (x : Cx α) : Cx α :=
  x * (cone - Cx.smul (1 / 3 * f) (eps - e0) * sumInv A eps x) - e0

/-- `pvs_equation` of `polder_van_santen_three_components` -/
def resid3Gen (f1 f2 : α) (e0 e1 e2 : Cx α) (A1 A2 : List α) (x : Cx α) : Cx α :=
  x * (cone - Cx.smul (1 / 3 * f2) (e2 - e0) * sumInv A2 e2 x
            - Cx.smul (1 / 3 * f1) (e1 - e0) * sumInv A1 e1 x) - e0

end

end Smrt.Mixing
