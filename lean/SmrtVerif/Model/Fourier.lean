/-
  `smrt.core.lib.generic_ft_even_matrix`: azimuthal Fourier coefficients of a phase / reflection matrix that
  is sampled on `dphi = linspace(0, π, N/2+1)`, mirrored to a full period (odd entries VU, HU, UV, UH change
  sign), transformed with `np.fft.fft`, and scaled.
-/
import SmrtVerif.Model.Basic

namespace Smrt
section
variable {α : Type} [Add α] [Sub α] [Mul α] [Div α] [Neg α] [OfNat α 0] [OfScientific α] [NatCast α] [Transc α]

/-- π as the double closest to it (numpy's `np.pi`); the drivers pass this value, the theorems pass `Real.pi` -/
def piLit : α := (3.141592653589793 : α)

/-- is entry `(p, q)` one of the four entries that are odd in the azimuth (only for 3 polarisations)? -/
def oddEntry (npol p q : Nat) : Bool := npol ≥ 3 && ((p < 2 && q = 2) || (p = 2 && q < 2))

/-- the mirrored full-period sequence: `s 0 … s (N/2)` then `± s (N/2-1) … ± s 1` -/
def mirrored (N : Nat) (odd : Bool) (s : Nat → α) (k : Nat) : α :=
  if k ≤ N / 2 then s k else (if odd then - s (N - k) else s (N - k))

/-- real part of the DFT bin `m` of a real sequence: `Σ_k x_k cos(2π m k / N)` -/
def dftRe (pi : α) (N m : Nat) (x : Nat → α) : α :=
  sumN N (fun k => x k * Transc.cos (2.0 * pi * (m : α) * (k : α) / (N : α)))

/-- imaginary part of the DFT bin `m`: `- Σ_k x_k sin(2π m k / N)` -/
def dftIm (pi : α) (N m : Nat) (x : Nat → α) : α :=
  - sumN N (fun k => x k * Transc.sin (2.0 * pi * (m : α) * (k : α) / (N : α)))

/-- the coefficient `generic_ft_even_matrix` returns for entry `(p, q)` and mode `m`, given that entry's samples
    on `[0, π]`.  Even entries: cosine coefficient.  Odd entries: `Im·δ` for (V|H, U), `−Im·δ` for (U, V|H). -/
def ftEvenCoef (pi : α) (npol N p q m : Nat) (s : Nat → α) : α :=
  let x := mirrored N (oddEntry npol p q) s
  if m = 0 then dftRe pi N 0 x * (1.0 / (N : α))
  else
    let δ : α := 2.0 / (N : α)
    if oddEntry npol p q then
      (if q = 2 then dftIm pi N m x * δ else - dftIm pi N m x * δ)
    else dftRe pi N m x * δ

end
end Smrt
