/-
  C19 — results, sensors and plugin names.  Core Lean only.

  Part 1: the record types of the regenerated tables (`Gen/C19Sensors.lean`, `Gen/C19Plugins.lean`) and the
          rules of the code stated over them (`Sens.ChannelResolution`, `do_import_class`'s choice, the
          interface each plugin directory expects).
  Part 2: `Res α`, a result as a finite map coordinate-tuple → value with named dimensions
          (`smrt/core/result.py` on top of xarray), selection, channel selection, backscatter conversion, dB,
          squeeze, concatenation, data-frame / series exports, save / open.
  Part 3: sensors (`smrt/core/sensor.py`): frequency ↔ wavelength, duplicate angles, channel names.
  Part 4: `plugin.import_class` with user-registered packages.

  Coordinates are canonical *strings* (a float travels as its exact `f<bits>` token, a polarisation as its
  letter), so that selection is decidable equality; the numerical value of an angle coordinate is obtained
  through a decoding function passed as an argument (`fl` in the driver).
-/
import SmrtVerif.Model.Basic

namespace Smrt.RM

/-! ## Part 1 — tables -/

/-- one channel of a sensor's `channel_map`: name → fixed `{dimension: value}` -/
structure Chan where
  name : String
  fixes : List (String × String)
deriving Repr, DecidableEq

/-- a predefined sensor: how it was constructed, its mode, the values of each of its dimensions, its channel map -/
structure Sens where
  ctor : String
  mode : String
  dims : List (String × List String)
  channels : List Chan
deriving Repr

def Sens.valuesOf (s : Sens) (d : String) : List String := (s.dims.lookup d).getD []

/-- cartesian product of the candidate values per dimension (row-major) -/
def tuples : List (List String) → List (List String)
  | [] => [[]]
  | vs :: rest => vs.flatMap fun v => (tuples rest).map fun t => v :: t

/-- the coordinate tuples of the sensor's configuration space that a channel selects -/
def Sens.selected (s : Sens) (c : Chan) : List (List String) :=
  tuples (s.dims.map fun d => match c.fixes.lookup d.1 with
    | some v => d.2.filter (· == v)
    | none => d.2)

/-- a channel fixes every dimension on which the sensor has more than one value -/
def Sens.fixesAll (s : Sens) (c : Chan) : Prop :=
  ∀ d ∈ s.dims, 1 < d.2.length → (c.fixes.lookup d.1).isSome = true

instance (s : Sens) (c : Chan) : Decidable (s.fixesAll c) := by unfold Sens.fixesAll; exact inferInstance

/-- **channel resolution** of one sensor: (i) every value a channel fixes is one of the sensor's values on that
    dimension (so selection is never empty and never names a dimension the sensor does not have);
    (ii) a channel fixing every multi-valued dimension selects exactly one coordinate tuple;
    (iii) distinct channels select distinct sets of tuples; (iv) all channels fix the same dimensions
    (what `to_dataframe(channel_axis="column")` relies on to align its columns). -/
def Sens.ChannelResolution (s : Sens) : Prop :=
  (∀ c ∈ s.channels, ∀ f ∈ c.fixes, f.2 ∈ s.valuesOf f.1) ∧
  (∀ c ∈ s.channels, s.fixesAll c → (s.selected c).length = 1) ∧
  (∀ c ∈ s.channels, ∀ c' ∈ s.channels, c.name ≠ c'.name → s.selected c ≠ s.selected c') ∧
  (∀ c ∈ s.channels, ∀ c' ∈ s.channels, c.fixes.map (·.1) = c'.fixes.map (·.1))

instance (s : Sens) : Decidable s.ChannelResolution := by unfold Sens.ChannelResolution; exact inferInstance

/-- two-digit name of a frequency in GHz as `"%02i"` prints a non-negative integer -/
def twoDigits (n : Nat) : String := if n < 10 then "0" ++ toString n else toString n

/-- a custom-frequency channel `(name, frequency in Hz, polarisation)` is named by its GHz value
    (`"%02i" % (f/1e9)` truncates; a rounding implementation is accepted as well) followed by the polarisation -/
def CustomNameOk (e : String × Nat × String) : Prop :=
  e.1 = twoDigits (e.2.1 / 1000000000) ++ e.2.2 ∨ e.1 = twoDigits ((e.2.1 + 500000000) / 1000000000) ++ e.2.2

instance (e : String × Nat × String) : Decidable (CustomNameOk e) := by unfold CustomNameOk; exact inferInstance

/-- a class as the extractor sees it: name, base classes (qualified `dir.module.Class` when the base is defined
    in smrt, the bare name otherwise), members (`def` names and `self.x = …` attributes), and the interface class
    wrapped by the decorator `substrate_from_interface`, if any -/
structure Cls where
  name : String
  bases : List String
  members : List String
  sfi : Option String
deriving Repr

structure Mod where
  dir : String
  name : String
  classes : List Cls
deriving Repr

abbrev Table := List Mod

def Mod.qual (m : Mod) (c : Cls) : String := m.dir ++ "." ++ m.name ++ "." ++ c.name

def Table.find? (t : Table) (q : String) : Option (Mod × Cls) :=
  t.findSome? fun m => (m.classes.find? fun c => m.qual c == q).map fun c => (m, c)

/-- members visible on a class: its own, those of its bases (depth-bounded walk of the table) and, for a
    class built by `substrate_from_interface(X)`, the methods that decorator adds when `X` has the
    corresponding interface method (`core/interface.py`) plus those of `SubstrateBase` -/
def Table.members (t : Table) : Nat → String → List String
  | 0, _ => []
  | fuel + 1, q =>
    match t.find? q with
    | none => []
    | some (_, c) =>
      let inh := c.bases.flatMap (t.members fuel)
      match c.sfi with
      | none => c.members ++ inh
      | some x =>
        let xm := t.members fuel x
        let add (new dep : String) : List String := if !c.members.contains new && xm.contains dep then [new] else []
        c.members ++ add "emissivity_matrix" "coherent_transmission_matrix"
          ++ add "specular_reflection_matrix" "specular_reflection_matrix"
          ++ add "ft_even_diffuse_reflection_matrix" "ft_even_diffuse_reflection_matrix"
          ++ add "diffuse_reflection_matrix" "diffuse_reflection_matrix"
          ++ t.members fuel "core.interface.SubstrateBase"

/-- strict ancestors of a class (qualified names), depth-bounded -/
def Table.ancestors (t : Table) : Nat → String → List String
  | 0, _ => []
  | fuel + 1, q =>
    match t.find? q with
    | none => []
    | some (_, c) => c.bases ++ c.bases.flatMap (t.ancestors fuel)

def fuel : Nat := 8

/-- does the class `q` provide what the framework calls on a plugin of directory `dir`? -/
def Table.implements (t : Table) (dir q : String) : Bool :=
  let ms := t.members fuel q
  let has (x : String) := ms.contains x
  if dir == "rtsolver" then has "solve"
  else if dir == "emmodel" then
    has "ks" && has "ka" && has "ke" && has "effective_permittivity" && (has "phase" || has "ft_even_phase")
  else if dir == "interface" || dir == "substrate" then has "specular_reflection_matrix"
  else if dir == "atmosphere" then has "run"
  else if dir == "microstructure_model" then
    (t.ancestors fuel q).contains "microstructure_model.autocorrelation.Autocorrelation"
  else false

/-- `plugin.do_import_class(modulename, None)`: `inspect.getmembers` lists the classes sorted by name; the first
    one defined in the module whose name does not start with `_` is taken -/
def Mod.pick (m : Mod) : Option Cls :=
  (m.classes.filter fun c => !c.name.startsWith "_").foldl
    (fun acc c => match acc with
      | none => some c
      | some a => if c.name < a.name then some c else some a) none

/-- a *model module* defines at least one public class implementing its directory's interface -/
def Mod.isModel (t : Table) (m : Mod) : Bool :=
  m.classes.any fun c => !c.name.startsWith "_" && t.implements m.dir (m.qual c)

/-- **plugin resolution** of one module: if it is a model module, the class the rule picks implements the interface -/
def Mod.Resolves (t : Table) (m : Mod) : Prop :=
  m.isModel t = true → ∃ c, m.pick = some c ∧ t.implements m.dir (m.qual c) = true

instance (t : Table) (m : Mod) : Decidable (m.Resolves t) := by
  unfold Mod.Resolves
  cases h : m.pick with
  | none => exact if h' : m.isModel t = true then isFalse (fun f => by obtain ⟨c, hc, _⟩ := f h'; cases hc) else isTrue (fun a => absurd a h')
  | some c =>
    exact if h' : m.isModel t = true then
      (if h'' : t.implements m.dir (m.qual c) = true then isTrue (fun _ => ⟨c, rfl, h''⟩)
       else isFalse (fun f => by obtain ⟨c', hc, hi⟩ := f h'; cases hc; exact h'' hi))
    else isTrue (fun a => absurd a h')

/-! ## Part 2 — results as finite maps -/

inductive Err where
  | smrt            -- SMRTError
  | key             -- KeyError: unknown channel, or a coordinate value that is not in the index
  | dim             -- KeyError of xarray: selection along a dimension that does not exist
  | attr            -- AttributeError (`self.data.theta_inc` on a result without that dimension)
  | shape           -- concatenation of results whose dimensions/coordinates differ (outside the model)
deriving Repr, DecidableEq

def Err.name : Err → String
  | .smrt => "SMRTError" | .key => "foreign:KeyError" | .dim => "foreign:KeyError"
  | .attr => "foreign:AttributeError" | .shape => "unsupported"

abbrev Key := List String
abbrev Fix := List (String × String)

/-- a result: named dimensions and one cell per coordinate tuple (row-major, as xarray stores it) -/
structure Res (α : Type) where
  dims : List String
  cells : List (Key × α)
deriving Repr

namespace Res
variable {α : Type}

/-- coordinate values along dimension number `i`, in order of first appearance -/
def coordsAt (r : Res α) (i : Nat) : List String :=
  (r.cells.map fun c => c.1.getD i "").eraseDups

def coords (r : Res α) (d : String) : List String :=
  match r.dims.idxOf? d with
  | some i => r.coordsAt i
  | none => []

/-- does the cell with key `k` satisfy every fixed coordinate? -/
def keep (dims : List String) (fix : Fix) (k : Key) : Bool :=
  (dims.zip k).all fun p => match fix.lookup p.1 with
    | some v => p.2 == v
    | none => true

/-- the key without the fixed dimensions (`drop=True`) -/
def dropKey (dims : List String) (fix : Fix) (k : Key) : Key :=
  ((dims.zip k).filter fun p => (fix.lookup p.1).isNone).map (·.2)

def dropDims (dims : List String) (fix : Fix) : List String := dims.filter fun d => (fix.lookup d).isNone

/-- selection without the checks -/
def selRaw (r : Res α) (fix : Fix) : Res α :=
  ⟨dropDims r.dims fix, (r.cells.filter fun c => keep r.dims fix c.1).map fun c => (dropKey r.dims fix c.1, c.2)⟩

/-- `DataArray.sel(drop=True, **fix)`: a dimension that does not exist is refused, so is a value that is not a
    coordinate of its dimension -/
def sel (r : Res α) (fix : Fix) : Except Err (Res α) :=
  if fix.any (fun f => !r.dims.contains f.1) then .error .dim
  else if fix.any (fun f => !(r.coords f.1).contains f.2) then .error .key
  else .ok (r.selRaw fix)

/-- python `kwargs.update(new)`: later values win, first-insertion order kept (order is irrelevant for `sel`) -/
def update (kw new : Fix) : Fix :=
  (kw.filter fun p => (new.lookup p.1).isNone) ++ new

/-- the part of a channel's map that applies to this result: `{k: v for k, v in cm[ch].items() if k in data.dims}` -/
def channelFix (r : Res α) (cm : List Chan) (ch : String) : Except Err Fix :=
  match cm.find? (·.name == ch) with
  | none => .error .key
  | some c => .ok (c.fixes.filter fun f => r.dims.contains f.1)

/-- the keyword arguments `sel_data` ends up with -/
def selArgs (r : Res α) (cm : List Chan) (ch : Option String) (kw : Fix) : Except Err Fix :=
  match ch with
  | none => .ok kw
  | some c => (r.channelFix cm c).map (update kw)

/-- `PassiveResult.sel_data(channel, **kw)` (also `ActiveResult.sel_data` without backscatter conversion) -/
def selData (r : Res α) (cm : List Chan) (ch : Option String) (kw : Fix) : Except Err (Res α) :=
  (r.selArgs cm ch kw).bind r.sel

/-- `DataArray.squeeze()`: dimensions with a single coordinate disappear -/
def squeeze (r : Res α) : Res α :=
  let keepIdx := (List.range r.dims.length).filter fun i => (r.coordsAt i).length != 1
  ⟨keepIdx.map (fun i => r.dims.getD i ""), r.cells.map fun c => (keepIdx.map (fun i => c.1.getD i ""), c.2)⟩

/-- `Tb(channel, **kw)` -/
def tb (r : Res α) (cm : List Chan) (ch : Option String) (kw : Fix) : Except Err (Res α) :=
  (r.selData cm ch kw).map squeeze

def mapVals {β : Type} (f : α → β) (r : Res α) : Res β := ⟨r.dims, r.cells.map fun c => (c.1, f c.2)⟩

/-- a new leading dimension: `xr.concat([r₀, r₁, …], pd.Index(vals, name=name))` for results with identical
    dimensions and coordinates (differing ones are outer-joined with NaN by xarray: outside the model) -/
def concat (name : String) (vals : List String) (rs : List (Res α)) : Except Err (Res α) :=
  match rs with
  | [] => .error .shape
  | r0 :: _ =>
    if vals.length != rs.length then .error .shape
    else if rs.any (fun r => r.dims != r0.dims || r.cells.map (·.1) != r0.cells.map (·.1)) then .error .shape
    else if r0.dims.contains name then .error .shape
    else .ok ⟨name :: r0.dims, (vals.zip rs).flatMap fun p => p.2.cells.map fun c => (p.1 :: c.1, c.2)⟩

/-- the channel map `concat_results` must give the concatenated result when the maps of the pieces differ
    (several sensors): each channel keeps its map and additionally fixes the new dimension to the value of the
    piece it came from -/
def concatMaps (name : String) (vals : List String) (cms : List (List Chan)) : List Chan :=
  match cms with
  | [] => []
  | cm0 :: _ =>
    if cms.all (· == cm0) then cm0
    else
      -- python dict comprehension: a later piece overwrites an earlier channel of the same name, keeping its position
      (vals.zip cms).foldl (fun acc p =>
        p.2.foldl (fun acc c =>
          let c' : Chan := ⟨c.name, c.fixes ++ [(name, p.1)]⟩
          if acc.any (·.name == c.name) then acc.map (fun a => if a.name == c.name then c' else a) else acc ++ [c']) acc) []

end Res

section numeric
variable {α : Type} [Add α] [Sub α] [Mul α] [Div α] [Neg α] [OfScientific α] [OfNat α 0] [OfNat α 1] [Transc α]

/-- `np.deg2rad` -/
def deg2rad (pi x : α) : α := x * (pi / 180.0)

/-- `(4 * np.pi * np.cos(np.deg2rad(theta))) * x` -/
def sigmaLin (pi θdeg x : α) : α := (4.0 * pi * Transc.cos (deg2rad pi θdeg)) * x

/-- `smrt.utils.dB`: `10 * np.log(np.maximum(x, 1e-20)) / LOG10` -/
def dB [LT α] [DecidableRel (α := α) (· < ·)] (x : α) : α :=
  10.0 * Transc.log (if x < 1e-20 then 1e-20 else x) / Transc.log 10.0

/-- `smrt.utils.invdB`: `10 ** (x / 10)` (written with exp/log; the difference to libm's pow is rounding) -/
def invdB (x : α) : α := Transc.exp ((x / 10.0) * Transc.log 10.0)

/-- `Sensor.__init__`: wavelength from frequency / frequency from wavelength (`C_SPEED` passed in) -/
def wavelengthOf (c f : α) : α := c / f
def frequencyOf (c wl : α) : α := c / wl

end numeric

namespace Res
variable {α : Type} [Add α] [Sub α] [Mul α] [Div α] [Neg α] [OfScientific α] [OfNat α 0] [OfNat α 1] [Transc α]

/-- selection "by theta" inside `ActiveResult.sel_data(return_backscatter=…)`:
    `x.sel(theta=t, theta_inc=t, **kw)` when the result has a `theta` dimension, else `x.sel(theta_inc=t, **kw)` -/
def selectTheta (r : Res α) (t : String) (kw : Fix) : Except Err (Res α) :=
  r.sel ((if r.dims.contains "theta" then [("theta", t)] else []) ++ [("theta_inc", t)] ++ kw)

/-- `ActiveResult.sel_data(channel, return_backscatter="natural", **kw)` for scalar angles:
    the intensity at the backscatter direction times `4π cos θ`.
    `ang` decodes an angle coordinate.  Without any angle given, every incidence angle of the result is
    taken (with `theta = theta_inc` when both dimensions exist) and `theta_inc` stays a dimension. -/
def sigma (pi : α) (ang : String → α) (r : Res α) (cm : List Chan) (ch : Option String) (kw : Fix) :
    Except Err (Res α) := do
  let kw ← r.selArgs cm ch kw
  let θ := kw.lookup "theta"
  let θi := kw.lookup "theta_inc"
  let kw' := kw.filter fun p => p.1 != "theta" && p.1 != "theta_inc"
  match θ, θi with
  | some a, some b => if a != b then throw .smrt
  | _, _ => pure ()
  match (θ <|> θi) with
  | some t =>
    let x ← r.selectTheta t kw'
    pure (x.mapVals (sigmaLin pi (ang t)))
  | none =>
    if !r.dims.contains "theta_inc" then throw .attr
    let parts ← (r.coords "theta_inc").mapM fun t => do
      let x ← r.selectTheta t kw'
      pure (x.mapVals (sigmaLin pi (ang t)), t)
    match parts with
    | [] => throw .shape
    | (x0, _) :: _ =>
      pure ⟨"theta_inc" :: x0.dims, parts.flatMap fun p => p.1.cells.map fun c => (p.2 :: c.1, c.2)⟩

/-- the selections at each angle of `ts`, converted to backscatter, stacked along a new leading `theta_inc` dimension:
    `xr.concat([select_theta(data, t) for t in theta], pd.Index(theta, name="theta_inc"))` times `4π cos θ` **along that dimension** -/
def sigmaOver (pi : α) (ang : String → α) (r : Res α) (kw' : Fix) (ts : List String) : Except Err (Res α) := do
  let parts ← ts.mapM fun t => do
    let x ← r.selectTheta t kw'
    pure (x.mapVals (sigmaLin pi (ang t)), t)
  match parts with
  | [] => throw .shape
  | (x0, _) :: _ =>
    pure ⟨"theta_inc" :: x0.dims, parts.flatMap fun p => p.1.cells.map fun c => (p.2 :: c.1, c.2)⟩

/-- `ActiveResult.sel_data(return_backscatter="natural", theta=[t₁, …], **kw)`: a *list* of incidence angles -/
def sigmaList (pi : α) (ang : String → α) (r : Res α) (cm : List Chan) (ch : Option String) (kw : Fix) (ts : List String) :
    Except Err (Res α) := do
  let kw ← r.selArgs cm ch kw
  let kw' := kw.filter fun p => p.1 != "theta" && p.1 != "theta_inc"
  r.sigmaOver pi ang kw' ts


/-- `sigma(channel, **kw)` and `sigma_dB(channel, **kw)` -/
def sigmaOut (pi : α) (ang : String → α) (r : Res α) (cm : List Chan) (ch : Option String) (kw : Fix) :
    Except Err (Res α) := (sigma pi ang r cm ch kw).map squeeze

def sigmaDB [LT α] [DecidableRel (α := α) (· < ·)] (pi : α) (ang : String → α) (r : Res α) (cm : List Chan)
    (ch : Option String) (kw : Fix) : Except Err (Res α) :=
  (sigma pi ang r cm ch kw).map fun x => (x.mapVals dB).squeeze

end Res

/-- a data frame: named index levels, column names, and rows `(index tuple, one value per column)` -/
structure Frame (α : Type) where
  index : List String
  columns : List String
  rows : List (Key × List α)
deriving Repr

namespace Res
variable {α : Type}

/-- `DataArray.to_dataframe(name)`: one row per cell, indexed by all the dimensions
    (a 0-dimensional result becomes one row with the index `0`) -/
def toFrame (r : Res α) (name : String) : Frame α :=
  if r.dims.isEmpty then ⟨[], [name], r.cells.map fun c => (["0"], [c.2])⟩
  else ⟨r.dims, [name], r.cells.map fun c => (c.1, [c.2])⟩

def lookupKey (r : Res α) (k : Key) : Option α := (r.cells.find? fun c => c.1 == k).map (·.2)

/-- `return_as_dataframe(channel_axis="column")`: one column per channel of the map, each the selection of that
    channel; `pd.concat(axis=1, join="inner")` keeps the index tuples present in every column -/
def frameByChannel (sel : String → Except Err (Res α)) (cm : List Chan) : Except Err (Frame α) := do
  let cols ← cm.mapM fun c => sel c.name
  match cols with
  | [] => throw .smrt      -- "No channel information is given in the result"
  | c0 :: _ =>
    let f0 := c0.toFrame ""
    let keys := (f0.rows.map (·.1)).filter fun k => cols.all fun c => ((c.toFrame "").rows.any (·.1 == k))
    pure ⟨f0.index, cm.map (·.name),
      keys.map fun k => (k, cols.filterMap fun c => (((c.toFrame "").rows.find? (·.1 == k)).bind (·.2.head?)))⟩

/-- `to_series()`: the first row of the channel frame -/
def seriesOf (f : Frame α) : Option (List (String × α)) := f.rows.head?.map fun r => f.columns.zip r.2

end Res

/-- what `Result.save` writes (the netCDF container itself is trusted): dimensions, coordinates in order, the flat
    row-major data and the `mode` attribute -/
structure Stored (α : Type) where
  dims : List String
  coords : List (List String)
  data : List α
  mode : String
deriving Repr

def save {α : Type} (mode : String) (r : Res α) : Stored α :=
  ⟨r.dims, (List.range r.dims.length).map r.coordsAt, r.cells.map (·.2), mode⟩

/-- `open_result`: rebuild the array; the mode is the stored attribute when it is "A" or "P", else guessed from
    the presence of `theta_inc` -/
def load {α : Type} (s : Stored α) : String × Res α :=
  let mode := if s.mode == "A" || s.mode == "P" then s.mode
    else if s.dims.contains "theta_inc" then "A" else "P"
  (mode, ⟨s.dims, (tuples s.coords).zip s.data⟩)

/-! ## Part 3 — sensors -/

/-- does a list contain a value twice? (`len(np.unique(x)) != len(x)`) -/
def hasDup : List String → Bool
  | [] => false
  | x :: xs => xs.contains x || hasDup xs

/-- `Sensor.__init__`: duplicated zenith angles are refused -/
def checkAngles (θ : List String) : Except Err Unit :=
  if hasDup θ then .error .smrt else .ok ()

/-- mode of a sensor: passive iff no incidence angle was given -/
def sensorMode (thetaInc : Option (List String)) : String := if thetaInc.isNone then "P" else "A"

/-! ## Part 4 — `plugin.import_class` -/

/-- a package as seen by `import_class`: module name → `none` (ModuleNotFoundError) or the table entry -/
abbrev Pkg := String → Option Mod

inductive Found where
  | cls (pkg : Nat) (name : String)     -- found in user package number `pkg` (0 = most recently registered), or in smrt (= number of user packages)
  | noClass                              -- SMRTError "Unable to find a class in the module"
  | noModule                             -- SMRTError "Unable to find the module"
  | relative                             -- SMRTError "Relative import is not allowed"
deriving Repr, DecidableEq

def doImport (p : Pkg) (modulename : String) : Option (Option String) :=
  (p modulename).map fun m => m.pick.map (·.name)

/-- `import_class(scope, modulename)`: user packages first (most recently registered first), then smrt -/
def hasDotDot : List Char → Bool
  | '.' :: '.' :: _ => true
  | _ :: rest => hasDotDot rest
  | [] => false

/-- `(".." in modulename) or (modulename[0] == '.')` -/
def isRelative (modulename : String) : Bool := hasDotDot modulename.toList || modulename.toList.head? == some '.'

def importClass (user : List Pkg) (smrtPkg : Pkg) (modulename : String) : Found :=
  if isRelative modulename then .relative
  else
    let rec go (ps : List Pkg) (i : Nat) : Found :=
      match ps with
      | [] => .noModule
      | p :: rest =>
        match doImport p modulename with
        | none => go rest (i + 1)
        | some none => .noClass
        | some (some c) => .cls i c
    go (user ++ [smrtPkg]) 0

/-- `register_package`: inserted at the front -/
def register (user : List Pkg) (p : Pkg) : List Pkg := p :: user

end Smrt.RM
