/-
  The matrix of the layer eigenvalue problem: `EigenValueSolver.solve` / `normalize` of `smrt/rtsolver/dort.py` up to the
  call of the LAPACK eigen-solver (which is outside the model).

  Index convention of the code: rows/columns `0 … n-1` are the upwelling directions (stream-major, polarisation-minor),
  `n … 2n-1` the downwelling ones, `n = npol · nstreams`.
-/
import SmrtVerif.Model.Basic

namespace Smrt.Eigen

inductive Err where
  | smrt
deriving Repr, BEq, DecidableEq

section
variable {α : Type} [Add α] [Sub α] [Mul α] [Div α] [Neg α] [OfNat α 0] [OfNat α 1] [OfScientific α] [LT α]
  [DecidableRel (fun a b : α => a < b)] [Transc α]

/-- stream index of row/column `r` -/
def streamOf (npol ns : Nat) (r : Nat) : Nat := (r % (npol * ns)) / npol
/-- polarisation index of row/column `r` -/
def polOf (npol : Nat) (r : Nat) : Nat := r % npol

/-- `invmu`: `+1/μ` for the upwelling half, `−1/μ` for the downwelling half -/
def invmu (npol ns : Nat) (mu : Nat → α) (r : Nat) : α :=
  if r < npol * ns then 1 / mu (streamOf npol ns r) else - (1 / mu (streamOf npol ns r))

/-- `coef_weight`: `−coef · weight` of the column's stream (`coef` = 0.5 for mode 0, 0.25 otherwise) -/
def coefWeight (npol ns : Nat) (coef : α) (w : Nat → α) (c : Nat) : α := - coef * w (streamOf npol ns c)

/-- the phase matrix with its columns scaled by the quadrature weights -/
def weighted (npol ns : Nat) (coef : α) (w : Nat → α) (P : Nat → Nat → α) (r c : Nat) : α :=
  P r c * coefWeight npol ns coef w c

/-- `norm_0 = −ks / np.sum(A, axis=1)` -/
def norm0 (npol ns : Nat) (coef : α) (w : Nat → α) (P : Nat → Nat → α) (ks : α) (r : Nat) : α :=
  - ks / sumN (2 * (npol * ns)) (fun c => weighted npol ns coef w P r c)

/-- `norm_m` for the higher modes (3 polarisations) from the mode-0 norms (2 polarisations):
    V and H copied, U the geometric mean -/
def normM (n0 : Nat → α) (r : Nat) : α :=
  let s := r / 3
  if r % 3 = 0 then n0 (2 * s) else if r % 3 = 1 then n0 (2 * s + 1) else Transc.sqrt (n0 (2 * s) * n0 (2 * s + 1))

/-- the 30 % guard of `normalize` (mode 0, `phase_normalization=True`) -/
def normOutOfRange (N : Nat) (nrm : Nat → α) : Bool :=
  (List.range N).any (fun r => decide ((0.3 : α) < nrm r - 1) || decide ((0.3 : α) < 1 - nrm r))

/-- the matrix handed to the eigen-solver: `invmu[:,None] * (A_weighted * norm[:,None] + diag(ke))` -/
def matrixA (npol ns : Nat) (coef : α) (mu w : Nat → α) (P : Nat → Nat → α) (ke nrm : Nat → α) (r c : Nat) : α :=
  invmu npol ns mu r * (weighted npol ns coef w P r c * nrm r + (if r = c then ke r else 0))

/-- the trivial solution used when there is no scattering: `β = invmu · ke`, `E = I` -/
def trivialBeta (npol ns : Nat) (mu ke : Nat → α) (r : Nat) : α := invmu npol ns mu r * ke r

end
end Smrt.Eigen
