/-
  C11 — the closed-form expressions of the scattering theories that their common limits are about:
    smrt/emmodel/rayleigh.py                 Rayleigh.__init__            (ks, ka)
    smrt/emmodel/iba.py                      mean_sq_field_ratio, compute_iba_coeff, compute_ks for a spectrum that is
                                             constant over the integration range (static limit), compute_ka
    smrt/emmodel/iba_maxwell_garnett.py      mean_sq_field_ratio
    smrt/emmodel/dmrt_qca_shortrange.py      __init__  (Eeff, Ks, ka)
    smrt/emmodel/dmrt_qcacp_shortrange.py    __init__  (Eeff0, Eeff, albedo, beta, ks)
    smrt/microstructure_model/sticky_hard_spheres.py   compute_t
    smrt/emmodel/sce_common.py               compute_ke_ks, compute_ke_ks_symmetrical (A2 / A2inv are inputs),
                                             the value of compute_A2_local for the exponential and sphere models and of
                                             Im compute_A2_nonlocal for the exponential model
    smrt/core/layer.py                       Layer.inverted_medium (as a map on the arguments of the closed forms)
  The spectra at k = 0 come from `Model/Microstructure.lean`, the effective-permittivity closures from `Model/Mixing.lean`.

  Core Lean only; polymorphic scalars (`Float` in the driver, `ℝ` in the proofs); π is an explicit argument.
  `x**3`, `x**4` are written as products.  The complex square root is numpy's algorithm (`csqrt`): unlike `Cx.sqrt` of
  `Model/Basic.lean` it does not cancel in the small component, which matters here because the scattering coefficients
  of the strong-contrast expansions are differences of imaginary parts of square roots.
-/
import SmrtVerif.Model.Basic
import SmrtVerif.Model.Mixing
import SmrtVerif.Model.Microstructure

namespace Smrt.TheoryLimits
open Smrt.Mixing (sdiv cone)

section
variable {α : Type} [Add α] [Sub α] [Mul α] [Div α] [Neg α] [OfScientific α] [NatCast α]
  [OfNat α 0] [OfNat α 1] [OfNat α 2] [OfNat α 3] [OfNat α 4] [OfNat α 5] [OfNat α 8] [OfNat α 9] [OfNat α 12]
  [LT α] [DecidableRel (α := α) (· < ·)] [Transc α]

def cube (x : α) : α := x * x * x
def pow4 (x : α) : α := x * x * x * x
def sq (x : α) : α := x * x

/-- `C_SPEED` of `core/globalconstants.py` -/
def cSpeed : α := 299792458.0

/-- numpy / cmath principal square root, computed without cancellation:
    `Re z ≥ 0`: `t = √((|z|+Re z)/2)`, `w = (t, Im z / 2t)`;  `Re z < 0`: `t = √((|z|−Re z)/2)`, `w = (|Im z| / 2t, ±t)` -/
def csqrt (z : Cx α) : Cx α :=
  let m := Transc.sqrt (z.re * z.re + z.im * z.im)
  if z.re < 0 then
    let t := Transc.sqrt ((m - z.re) / 2)
    if z.im < 0 then ⟨(-z.im) / (2 * t), -t⟩ else ⟨z.im / (2 * t), t⟩
  else
    let t := Transc.sqrt ((m + z.re) / 2)
    if 0 < t then ⟨t, z.im / (2 * t)⟩ else ⟨0, 0⟩

/-- `(eps - e0) / (eps + 2 * e0)` -/
def clausius (e0 eps : Cx α) : Cx α := (eps - e0) / (eps + Cx.smul 2 e0)

/-! ### wavenumbers as the modules compute them -/

/-- rayleigh.py / dmrt: `2π / (C_SPEED / frequency)` -/
def k0OfLambda (pi freq : α) : α := 2 * pi / (cSpeed / freq)
/-- iba.py / sce_common.py: `2π · frequency / C_SPEED` -/
def k0OfFreq (pi freq : α) : α := 2 * pi * freq / cSpeed

/-! ### rayleigh.py -/

/-- `ks = f * 2 * abs((eps - e0) / (eps + 2 * e0))**2 * radius**3 * e0**2 * k0**4`  (complex when `e0` is) -/
def rayleighKs (f r k0 : α) (e0 eps : Cx α) : Cx α :=
  Cx.smul (pow4 k0) (Cx.smul (f * 2 * Cx.abs2 (clausius e0 eps) * cube r) (e0 * e0))

/-- `ka = f * 9 * k0 * eps.imag * abs(e0 / (eps + 2 * e0))**2 + (1 - f) * e0.imag * k0` -/
def rayleighKa (f k0 : α) (e0 eps : Cx α) : α :=
  f * 9 * k0 * eps.im * Cx.abs2 (e0 / (eps + Cx.smul 2 e0)) + (1 - f) * e0.im * k0

/-- the Rayleigh scattering coefficient per unit fractional volume with `|e0|²`, the value every theory tends to -/
def rayleighPerVolume (r k0 : α) (e0 eps : Cx α) : α :=
  2 * Cx.abs2 (clausius e0 eps) * cube r * Cx.abs2 e0 * pow4 k0

/-! ### iba.py -/

/-- `_effective_permittivity * (1 - depol) + e0 * depol` (one component) -/
def ibaApparent (eeff e0 : Cx α) (A : α) : Cx α := Cx.smul (1 - A) eeff + Cx.smul A e0

/-- `|ea / (ea + (eps - e0) * A)|²` -/
def fieldRatio (ea e0 eps : Cx α) (A : α) : α := Cx.abs2 (ea / (ea + Cx.smul A (eps - e0)))

/-- `IBA.mean_sq_field_ratio` -/
def ibaY2 (eeff e0 eps : Cx α) (A : α × α × α) : α :=
  (1 / 3) * (fieldRatio (ibaApparent eeff e0 A.1) e0 eps A.1 + fieldRatio (ibaApparent eeff e0 A.2.1) e0 eps A.2.1
             + fieldRatio (ibaApparent eeff e0 A.2.2) e0 eps A.2.2)

/-- `IBA_MaxwellGarnett.mean_sq_field_ratio`: apparent permittivity = `e0` -/
def ibaMgY2 (e0 eps : Cx α) (A : α × α × α) : α :=
  (1 / 3) * (fieldRatio e0 e0 eps A.1 + fieldRatio e0 e0 eps A.2.1 + fieldRatio e0 e0 eps A.2.2)

/-- `compute_iba_coeff`: `(1/4π) |eps − e0|² y2 k0⁴` -/
def ibaCoeff (pi k0 y2 : α) (e0 eps : Cx α) : α := (1 / (4 * pi)) * Cx.abs2 (eps - e0) * y2 * pow4 k0

/-- `compute_ks` when the spectrum takes the same value `ft0` at all 65 sample points: the Romberg rule is exact on
    `c (1 + μ²)`, `∫₋₁¹ = 8/3`, then `/ 4` -/
def ibaKsConst (coeff ft0 : α) : α := coeff * ft0 * (8 / 3) / 4

/-- the depolarisation factors IBA uses by default: `depolarization_factors(1)` -/
def ibaDepol : α × α × α := Mixing.depolFactors 1

/-- IBA, static limit, spectrum value `ft0`, effective permittivity `eeff` -/
def ibaKsStatic (pi k0 ft0 : α) (e0 eps eeff : Cx α) : α :=
  ibaKsConst (ibaCoeff pi k0 (ibaY2 eeff e0 eps ibaDepol) e0 eps) ft0

/-- IBA-MG, static limit -/
def ibaMgKsStatic (pi k0 ft0 : α) (e0 eps : Cx α) : α :=
  ibaKsConst (ibaCoeff pi k0 (ibaMgY2 e0 eps ibaDepol) e0 eps) ft0

/-- static limit for independent spheres: spectrum at `k = 0` -/
def ibaKsStaticSphere (pi k0 f r : α) (e0 eps eeff : Cx α) : α :=
  ibaKsStatic pi k0 (Micro.sphFt pi f r 0) e0 eps eeff

/-- static limit for sticky hard spheres with parameter `t` -/
def ibaKsStaticShs (pi k0 f r t : α) (e0 eps eeff : Cx α) : α :=
  ibaKsStatic pi k0 (Micro.shsFtT pi f r t 0) e0 eps eeff

/-- `compute_ka`: `2 k0 Im √eeff` -/
def kaOfEeff (k0 : α) (eeff : Cx α) : α := 2 * k0 * (csqrt eeff).im

/-! ### sticky hard spheres: `compute_t` -/

inductive Err where
  | smrt | zeroDivision
deriving Repr, BEq, DecidableEq

def Err.name : Err → String
  | .smrt => "SMRTError"
  | .zeroDivision => "foreign:ZeroDivisionError"

/-- the smaller root of `f/12 t² − (τ + f/(1−f)) t + (1+f/2)/(1−f)² = 0` -/
def shsTSmall (tau f : α) : α :=
  let a := f / 12
  let b := -(tau + f / (1 - f))
  let c := (1 + f / 2) / sq (1 - f)
  (-b - Transc.sqrt (b * b - 4 * a * c)) / (2 * a)

/-- `StickyHardSpheres.compute_t`; `none` = `stickiness == np.inf` -/
def shsComputeT (tau : Option α) (f : α) : Except Err α :=
  match tau with
  | none => .ok 0
  | some tau =>
    let a := f / 12
    let b := -(tau + f / (1 - f))
    let c := (1 + f / 2) / sq (1 - f)
    let discr2 := b * b - 4 * a * c
    if discr2 < 0 then .error .smrt
    else
      let discr := Transc.sqrt discr2
      let t := (-b - discr) / (2 * a)
      let mhulim := 1 + 2 * f
      if mhulim < t * f * (1 - f) then
        let t2 := (-b + discr) / (2 * a)
        if mhulim < t2 * f * (1 - f) then .error .smrt else .ok t2
      else .ok t

/-- the Percus–Yevick factor shared by the QCA expressions and the `k = 0` spectrum:
    `(1 − f)⁴ / (1 + 2f − t f (1 − f))²` -/
def shsS (f t : α) : α := pow4 (1 - f) / sq (1 + 2 * f - t * f * (1 - f))

/-! ### dmrt_qca_shortrange.py -/

/-- `k0 = (2π/λ) · Re √e0` -/
def qcaK0 (pi freq : α) (e0 : Cx α) : α := k0OfLambda pi freq * (csqrt e0).re

/-- the bracket `1 + 2j/3 (k0 r)³ y (1−f)⁴ / ((1 − f y)(1 + 2f − t f (1−f))²)` -/
def qcaBracket (f r t k0 : α) (y : Cx α) : Cx α :=
  let fy := Cx.smul f y
  cone + Cx.smul (pow4 (1 - f)) (Cx.smul (cube (k0 * r)) (⟨0, 2 / 3⟩ * y))
           / Cx.smul (sq (1 + 2 * f - t * f * (1 - f))) (cone - fy)

/-- `Eeff = e0 + 3 f y e0 / (1 − f y) · bracket` -/
def qcaEeff (f r t k0 : α) (e0 es : Cx α) : Cx α :=
  let y := clausius e0 es
  let fy := Cx.smul f y
  e0 + Cx.smul 3 fy * e0 / (cone - fy) * qcaBracket f r t k0 y

/-- `Ks = 2/(9f) k0 (k0 r)³ |Eeff/e0 − 1|² (1−f)⁴ / (1 + 2f − t f (1−f))²`; `f = 0` is a `ZeroDivisionError` -/
def qcaKsRaw (f r t k0 : α) (e0 es : Cx α) : α :=
  2 / (9 * f) * k0 * cube (k0 * r) * (Cx.abs2 (qcaEeff f r t k0 e0 es / e0 - cone) * pow4 (1 - f)
    / sq (1 + 2 * f - t * f * (1 - f)))

def qcaKs (f r t k0 : α) (e0 es : Cx α) : Except Err α :=
  if f < 0 ∨ 0 < f then .ok (qcaKsRaw f r t k0 e0 es) else .error .zeroDivision

/-- `ka = 2 k0 Im √Eeff − Ks` -/
def qcaKa (f r t k0 : α) (e0 es : Cx α) : α :=
  2 * k0 * (csqrt (qcaEeff f r t k0 e0 es)).im - qcaKsRaw f r t k0 e0 es

/-! ### dmrt_qcacp_shortrange.py -/

def qcacpB (f : α) (e0 es : Cx α) : Cx α := sdiv (Cx.smul (1 - 4 * f) (es - e0)) 3 - e0
def qcacpC (f : α) (e0 es : Cx α) : Cx α := sdiv (Cx.smul (1 - f) ((-e0) * (es - e0))) 3

/-- `0.5 (−b + √(b² − 4c))` -/
def qcacpRootPlus (f : α) (e0 es : Cx α) : Cx α :=
  let b := qcacpB f e0 es
  Cx.smul 0.5 (-b + csqrt (b * b - Cx.smul 4 (qcacpC f e0 es)))

def qcacpRootMinus (f : α) (e0 es : Cx α) : Cx α :=
  let b := qcacpB f e0 es
  Cx.smul 0.5 (-b - csqrt (b * b - Cx.smul 4 (qcacpC f e0 es)))

/-- `Eeff0`, with the code's branch `if Eeff0.real < 1` -/
def qcacpEeff0 (f : α) (e0 es : Cx α) : Cx α :=
  if (qcacpRootPlus f e0 es).re < 1 then qcacpRootMinus f e0 es else qcacpRootPlus f e0 es

/-- `(es − e0) / (1 + (es − e0)/(3 Eeff0) (1 − f))` -/
def qcacpG (f : α) (e0 es E0 : Cx α) : Cx α :=
  (es - e0) / (cone + Cx.smul (1 - f) ((es - e0) / Cx.smul 3 E0))

/-- `Eeff = e0 + (Eeff0 − e0)(1 + 2j/9 x³ √Eeff0 · G · S)`, `x = 2π r/λ` -/
def qcacpEeffOf (f r t kv : α) (e0 es E0 : Cx α) : Cx α :=
  e0 + (E0 - e0) * (cone + Cx.smul (shsS f t) (Cx.smul (cube (kv * r)) (⟨0, 2 / 9⟩ * csqrt E0 * qcacpG f e0 es E0)))

def qcacpEeff (f r t kv : α) (e0 es : Cx α) : Cx α := qcacpEeffOf f r t kv e0 es (qcacpEeff0 f e0 es)

/-- `albedo` and `beta` for a given `Eeff0`; `ks = albedo · beta` -/
def qcacpKsOf (f r t kv : α) (e0 es E0 : Cx α) : α :=
  let s := (csqrt (qcacpEeffOf f r t kv e0 es E0)).im
  let albedo := 2 / 9 * cube (kv * r) * f / (2 * s) * Cx.abs2 (qcacpG f e0 es E0) * pow4 (1 - f)
                  / sq (1 + 2 * f - t * f * (1 - f))
  let beta := kv * 2 * s
  albedo * beta

def qcacpKs (f r t kv : α) (e0 es : Cx α) : α := qcacpKsOf f r t kv e0 es (qcacpEeff0 f e0 es)

def qcacpKa (f r t kv : α) (e0 es : Cx α) : α :=
  kv * 2 * (csqrt (qcacpEeff f r t kv e0 es)).im - qcacpKs f r t kv e0 es

/-! ### sce_common.py: the closed-form part (A2, A2inv are inputs) -/

/-- `compute_ke_ks` (eq. 67): returns `(ke, ks)` -/
def sceKeKs (k0 f : α) (e0 eps A2 : Cx α) : α × α :=
  let beta := clausius e0 eps
  let num := Cx.smul (3 * (f * f)) beta
  let Eeff := e0 * (cone + num / (Cx.smul f (cone - Cx.smul f beta) - beta * A2))
  let Eeff0 := e0 * (cone + num / Cx.smul f (cone - Cx.smul f beta))
  let ke := 2 * k0 * (csqrt Eeff).im
  (ke, ke - 2 * k0 * (csqrt Eeff0).im)

/-- `grandA2`; the branch `frac_volume == 0 or frac_volume == 1` is written with the order relation -/
def symGrandA2 (f : α) (A2 A2inv : Cx α) : Cx α :=
  if (f < 0 ∨ 0 < f) ∧ (f < 1 ∨ 1 < f) then Cx.ofReal 2 + sdiv A2 f + sdiv A2inv (1 - f) else Cx.ofReal 2

/-- the effective permittivity of eq. D2 for a given `grandA2` -/
def symEeffOf (f : α) (e0 eps G : Cx α) : Cx α :=
  let sumE := e0 + eps
  let prodE := e0 * eps
  let wm := Cx.smul f e0 + Cx.smul (1 - f) eps
  let delta := Cx.smul 4 G * (Cx.ofReal 3 - G) * prodE + (sumE * G - Cx.smul 3 wm) * (sumE * G - Cx.smul 3 wm)
  sdiv sumE 2 + cone / Cx.smul 2 G * (-(Cx.smul 3 wm) + csqrt delta)

/-- `compute_ke_ks_symmetrical` (eq. D2): returns `(ke, ks)` -/
def symsceKeKs (k0 f : α) (e0 eps A2 A2inv : Cx α) : α × α :=
  let Eeff := symEeffOf f e0 eps (symGrandA2 f A2 A2inv)
  let Eeff0 := symEeffOf f e0 eps (Cx.ofReal 2)
  let ke := 2 * k0 * (csqrt Eeff).im
  (ke, ke - 2 * k0 * (csqrt Eeff0).im)

/-- `Layer.inverted_medium` + `Autocorrelation.inverted_medium` as seen by the closed forms:
    `(f, e0, eps, A2, A2inv) ↦ (1 − f, eps, e0, A2inv, A2)` -/
def invertArgs (a : α × Cx α × Cx α × Cx α × Cx α) : α × Cx α × Cx α × Cx α × Cx α :=
  (1 - a.1, a.2.2.1, a.2.1, a.2.2.2.2, a.2.2.2.1)

/-! ### second-order coefficient A2: analytic values of what `compute_A2_local` integrates -/

/-- `2 Q² (I + j/(4π) ft0 Q)` with `I = ∫ r·acf(r) dr` over the code's range and `ft0` the spectrum at 0 -/
def a2Local (pi Q I ft0 : α) : Cx α := ⟨2 * (Q * Q) * I, 2 * (Q * Q) * (1 / (4 * pi) * ft0 * Q)⟩

/-- exponential: the code integrates up to `2³·ξ`: `∫₀^{8ξ} r e^{−r/ξ} dr = ξ² (1 − 9 e^{−8})` -/
def a2LocalExp (pi Q f xi : α) : Cx α :=
  a2Local pi Q (Micro.acf0 f * (xi * xi) * (1 - 9 * Transc.exp (-8))) (Micro.expFt pi f xi 0)

/-- independent sphere: the range `8·(4R/3)` covers the support `[0, 2R]`: `∫₀^{2R} r·p(r) dr = 2R²/5` -/
def a2LocalSphere (pi Q f R : α) : Cx α :=
  a2Local pi Q (Micro.acf0 f * (2 * (R * R) / 5)) (Micro.sphFt pi f R 0)

/-- `Im compute_A2_nonlocal = Q/(4π) ∫₀^{2Q} q·ft(q) dq`; exponential: `4 f(1−f) Q³ ξ³ / (1 + 4 Q² ξ²)` -/
def a2NonlocalImExp (Q f xi : α) : α := 4 * Micro.acf0 f * cube (Q * xi) / (1 + 4 * sq (Q * xi))

end

end Smrt.TheoryLimits
