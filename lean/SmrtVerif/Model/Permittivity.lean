/- C13 — the permittivity formulae (see `Model/Permittivity/*.lean`) -/
import SmrtVerif.Model.Permittivity.Common
import SmrtVerif.Model.Permittivity.Ice
import SmrtVerif.Model.Permittivity.Water
import SmrtVerif.Model.Permittivity.Mixed
