/-
  `smrt/core/fresnel.py`: the "rigorous" Fresnel coefficients of Maezawa & Miyauchi (2009) that SMRT uses
  (`fresnel_coefficients = fresnel_coefficients_maezawa09_rigorous`), and the power reflection / transmission
  matrices built from them (`fresnel_reflection_matrix`, `fresnel_transmission_matrix`) for one incidence
  cosine (the code is elementwise in `mu1`).  Core Lean only.
-/
import SmrtVerif.Model.Basic

namespace Smrt.Fresnel
open Smrt

section
variable {α : Type} [Add α] [Sub α] [Mul α] [Div α] [Neg α] [OfNat α 0] [OfNat α 1] [OfScientific α]
  [LT α] [DecidableRel (α := α) (· < ·)] [Transc α]

/-- principal complex square root (`np.sqrt` on complex128: `Re ≥ 0`, `Im` has the sign of `Im z`,
    `sqrt(-x+0j) = +i sqrt x`).  Same function as `Smrt.Cx.sqrt`, but written the way libm computes it (the small
    component is obtained by division, not by the cancelling difference `m - |re|`), because the Fresnel
    coefficients of weakly absorbing media need the small imaginary parts to full relative accuracy. -/
def csqrt (z : Cx α) : Cx α :=
  let m := Transc.sqrt (z.re * z.re + z.im * z.im)
  if z.re < 0 then
    let b := Transc.sqrt ((m - z.re) / 2.0)
    ⟨(if z.im < 0 then -z.im else z.im) / (2.0 * b), if z.im < 0 then -b else b⟩
  else
    let a := Transc.sqrt ((m + z.re) / 2.0)
    if 0 < a then ⟨a, z.im / (2.0 * a)⟩ else ⟨0, 0⟩

/-- square of the tangential wavenumber `kiz2 = n1.real**2 * (1 - mu1**2)` -/
def kiz2 (e1 : Cx α) (mu : α) : α :=
  let n1 := csqrt e1
  n1.re * n1.re * (1 - mu * mu)

/-- `kyi = - np.sqrt(eps_1 - kiz2)` -/
def kyi (e1 : Cx α) (mu : α) : Cx α := - csqrt (e1 - Cx.ofReal (kiz2 e1 mu))
/-- `kyt = - np.sqrt(complex(eps_2) - ktz2)`, `ktz2 = kiz2` -/
def kyt (e1 e2 : Cx α) (mu : α) : Cx α := - csqrt (e2 - Cx.ofReal (kiz2 e1 mu))

/-- numerator and denominator of `rh` (Eq 59): `rh = (kyi - kyt) / (kyi.conjugate() + kyt)` -/
def rhNum (e1 e2 : Cx α) (mu : α) : Cx α := kyi e1 mu - kyt e1 e2 mu
def rhDen (e1 e2 : Cx α) (mu : α) : Cx α := (kyi e1 mu).conj + kyt e1 e2 mu
def rh (e1 e2 : Cx α) (mu : α) : Cx α := rhNum e1 e2 mu / rhDen e1 e2 mu

/-- Eq 61: `rv = n1.conjugate() * (eps_2 * kyi - eps_1 * kyt) / (n1 * (eps_2 * kyi.conjugate() + eps_1.conjugate() * kyt))` -/
def rvNum (e1 e2 : Cx α) (mu : α) : Cx α := e2 * kyi e1 mu - e1 * kyt e1 e2 mu
def rvDen (e1 e2 : Cx α) (mu : α) : Cx α := e2 * (kyi e1 mu).conj + e1.conj * kyt e1 e2 mu
def rv (e1 e2 : Cx α) (mu : α) : Cx α :=
  ((csqrt e1).conj * rvNum e1 e2 mu) / (csqrt e1 * rvDen e1 e2 mu)

/-- `mu2 = - kyt.real / np.sqrt(eps_2).real` -/
def mu2 (e1 e2 : Cx α) (mu : α) : α := - (kyt e1 e2 mu).re / (csqrt e2).re

/-- `fresnel_reflection_matrix`, rows 0 (V), 1 (H), 2 (U, only for npol ≥ 3) -/
def Rv (e1 e2 : Cx α) (mu : α) : α := (rv e1 e2 mu).abs2
def Rh (e1 e2 : Cx α) (mu : α) : α := (rh e1 e2 mu).abs2
def Ru (e1 e2 : Cx α) (mu : α) : α := (rv e1 e2 mu * (rh e1 e2 mu).conj).re

/-- `fresnel_transmission_matrix` -/
def Tv (e1 e2 : Cx α) (mu : α) : α := 1 - (rv e1 e2 mu).abs2
def Th (e1 e2 : Cx α) (mu : α) : α := 1 - (rh e1 e2 mu).abs2
def Tu (e1 e2 : Cx α) (mu : α) : α :=
  let one : Cx α := Cx.ofReal 1
  mu2 e1 e2 mu / mu * ((one + rv e1 e2 mu) * (one + rh e1 e2 mu).conj).re

/-- the matrices as the list of their rows for one incidence cosine (`npol` = 2 or 3) -/
def reflMat (e1 e2 : Cx α) (mu : α) (npol : Nat) : List α :=
  [Rv e1 e2 mu, Rh e1 e2 mu] ++ (if npol ≥ 3 then [Ru e1 e2 mu] else [])

def transMat (e1 e2 : Cx α) (mu : α) (npol : Nat) : List α :=
  [Tv e1 e2 mu, Th e1 e2 mu] ++ (if npol ≥ 3 then [Tu e1 e2 mu] else [])

end
end Smrt.Fresnel
