/-
  Electromagnetic models of `smrt/emmodel/*.py` (property C10): scattering / absorption / extinction coefficients,
  effective permittivity, direction-resolved phase matrix `phase(μ_s, μ_i, Δφ)` and its azimuthal Fourier modes
  `ft_even_phase`.

    common.py              rayleigh_scattering_matrix_and_angle_tsang00, phase_matrix_from_scattering_amplitude,
                           extinction_matrix, AdjustableEffectivePermittivityMixins.effective_permittivity (guard)
    rayleigh.py            Rayleigh.__init__ (ks, ka), ft_even_phase_baseonUlaby, phase, ke
    sft_rayleigh.py, dmrt_qca_shortrange.py, dmrt_qcacp_shortrange.py, prescribed_kskaeps.py, nonscattering.py
    iba.py, iba_original.py, iba_maxwell_garnett.py       iba_coeff, ks_integrand, compute_ks (Romberg), ka, phase
    sce_common.py (+ sce_*, symsce_*)                     compute_ke_ks, compute_ke_ks_symmetrical, phase norm, phase
    scipy.integrate.romb                                   re-implemented (`romb`)

  Core Lean only.  Scalars are polymorphic (`Float` in the driver, `ℝ` in the proofs); π is an explicit argument
  `pi` (the driver passes `np.pi`), as in `Model/Microstructure.lean`.  Expressions are typed from the source in the
  source's order of evaluation; `x**2`, `x**3`, `x**4` are written as products (libm `pow` differs by rounding only).
  The complex square root is `Smrt.Fresnel.csqrt` (the principal root computed the way libm does: the absorption
  coefficients `2 k0 Im √ε` need the small imaginary part to full relative accuracy).

  What the model does not compute and takes as inputs: the second-order SCE term `A2` (a quadrature over the
  microstructure functions, `compute_A2_local` / `compute_A2_nonlocal`), and for the SCE phase function the value of
  the microstructure spectrum at the *complex* wavenumber `2 k0 √ε_eff sin(Θ/2)` the code evaluates it at.
-/
import SmrtVerif.Model.Basic
import SmrtVerif.Model.Fourier
import SmrtVerif.Model.Fresnel
import SmrtVerif.Model.Mixing
import SmrtVerif.Model.Microstructure

namespace Smrt.Em

/-! ## 1. the Rayleigh matrix (common.py) and its analytic azimuthal modes (rayleigh.py) -/

section Ray
variable {α : Type} [Add α] [Sub α] [Mul α] [Div α] [Neg α] [OfScientific α] [OfNat α 0] [OfNat α 1] [Transc α]

/-- `np.sqrt(1. - mu**2)` -/
def sinOf (mu : α) : α := Transc.sqrt (1 - mu * mu)

/-- scattering amplitudes, Tsang (2000) Eq 3.2.47 as coded -/
def fvv (mus mui phi : α) : α := Transc.cos phi * mus * mui + sinOf mus * sinOf mui
def fhv (mui phi : α) : α := -(Transc.sin phi) * mui
def fhh (phi : α) : α := Transc.cos phi
def fvh (mus phi : α) : α := Transc.sin phi * mus

/-- `phase_matrix_from_scattering_amplitude` for real amplitudes, entry `(p, q)`; with 2 polarisations the matrix
    is the upper-left block -/
def rayP (p q : Nat) (mus mui phi : α) : α :=
  let vv := fvv mus mui phi
  let vh := fvh mus phi
  let hv := fhv mui phi
  let hh := fhh phi
  match p, q with
  | 0, 0 => vv * vv
  | 0, 1 => vh * vh
  | 1, 0 => hv * hv
  | 1, 1 => hh * hh
  | 0, 2 => vh * vv
  | 1, 2 => hh * hv
  | 2, 0 => 2.0 * (vv * hv)
  | 2, 1 => 2.0 * (vh * hh)
  | 2, 2 => vv * hh + vh * hv
  | _, _ => 0

/-- `Rayleigh.phase`: `1.5 * self.ks * p` -/
def rayPhase (ks : α) (p q : Nat) (mus mui phi : α) : α := 1.5 * ks * rayP p q mus mui phi

/-- `ft_even_phase_baseonUlaby`, entry `(p, q)` of mode `m` before the sign flips and the normalisation -/
def ulabyRaw (m p q : Nat) (mus mui : α) : α :=
  let mus2 := mus * mus
  let mui2 := mui * mui
  let ss := Transc.sqrt (1 - mus2)
  let si := Transc.sqrt (1 - mui2)
  let cs := mus * ss
  let ci := mui * si
  match m, p, q with
  | 0, 0, 0 => 0.5 * (mus2 * mui2) + (1 - mus2) * (1 - mui2)
  | 0, 0, 1 => 0.5 * mus2
  | 0, 1, 0 => 0.5 * mui2
  | 0, 1, 1 => 0.5
  | 1, 0, 0 => 2.0 * (cs * ci)
  | 1, 0, 2 => cs * si
  | 1, 2, 0 => -2.0 * (ss * ci)
  | 1, 2, 2 => ss * si
  | 2, 0, 0 => 0.5 * (mus2 * mui2)
  | 2, 0, 1 => -0.5 * mus2
  | 2, 0, 2 => 0.5 * (mus2 * mui)
  | 2, 1, 0 => -0.5 * mui2
  | 2, 1, 1 => 0.5
  | 2, 1, 2 => -0.5 * mui
  | 2, 2, 0 => -(mus * mui2)
  | 2, 2, 1 => mus
  | 2, 2, 2 => mus * mui
  | _, _, _ => 0

/-- `P[v, u, :] = -P[v, u, :]`, `P[h, u, :] = -P[h, u, :]` ("minus comes from even phase function") -/
def ulabySigned (m p q : Nat) (mus mui : α) : α :=
  if p < 2 ∧ q = 2 then -(ulabyRaw m p q mus mui) else ulabyRaw m p q mus mui

/-- `P * coef`, `coef = 3 * self.ks / 2` -/
def ulaby (ks : α) (m p q : Nat) (mus mui : α) : α := ulabySigned m p q mus mui * (3.0 * ks / 2.0)

/-- number of polarisations `ft_even_phase_baseonUlaby` works with (`npol=None` → 2 if `m_max == 0` else 3) -/
def ulabyNpol (npolArg : Option Nat) (mmax : Nat) : Nat :=
  match npolArg with
  | some n => n
  | none => if mmax = 0 then 2 else 3

/-- the code writes `P[v, u, 1]` as soon as `m_max ≥ 1`: with 2 polarisations that index does not exist -/
def ulabyIndexError (npol mmax : Nat) : Bool := npol < 3 && mmax ≥ 1

/-- the azimuthal basis function the solver attaches to the returned coefficient of entry `(p, q)`, mode `m`:
    cosine for the even entries, `sin` for (U, V|H) and `−sin` for (V|H, U) (sign convention of
    `generic_ft_even_matrix`) -/
def basis [NatCast α] (p q m : Nat) (phi : α) : α :=
  if p < 2 ∧ q = 2 then -(Transc.sin ((m : α) * phi))
  else if p = 2 ∧ q < 2 then Transc.sin ((m : α) * phi)
  else Transc.cos ((m : α) * phi)

/-! ### extinction_matrix -/

/-- `extinction_matrix(sigma_V, npol=npol, mu=mu)` with `sigma_H = sigma_V`: polarisation slot `i`, any direction -/
def extinctionSlot (sigma : α) (i : Nat) : α := if i = 2 then 0.5 * (sigma + sigma) else sigma

/-- `ke(mu, npol)` of every scattering model: `extinction_matrix(self.ks + self.ka, …)` -/
def ke (ks ka : α) (i : Nat) : α := extinctionSlot (ks + ka) i

end Ray

/-! ## 2. `scipy.integrate.romb` -/

section Romb
variable {α : Type} [Add α] [Sub α] [Mul α] [Div α] [OfScientific α] [NatCast α] [OfNat α 0]

/-- Richardson extrapolation of one row: `R[(i, j)] = prev + (prev - R[(i-1, j-1)]) / ((1 << (2*j)) - 1)` -/
def rombExtrap (prevRow : Array α) (r0 : α) (i : Nat) : Array α :=
  (List.range i).foldl (fun row j' =>
    let j := j' + 1
    let prev := row.getD (j - 1) 0
    row.push (prev + (prev - prevRow.getD (j - 1) 0) / ((4 ^ j - 1 : Nat) : α))) #[r0]

/-- `romb(y, dx)` for `2^k + 1` samples `y 0 … y (2^k)` -/
def romb (k : Nat) (y : Nat → α) (dx : α) : α :=
  let N : Nat := 2 ^ k
  let h0 : α := (N : α) * dx
  let row0 : Array α := #[(y 0 + y N) / 2.0 * h0]
  let res := (List.range k).foldl (fun (st : Array α × α) i' =>
    let i := i' + 1
    let start := N >>> i
    let step := N >>> (i - 1)
    let s := sumN (2 ^ (i - 1)) (fun t => y (start + t * step))
    let r0 := 0.5 * (st.1.getD 0 0 + st.2 * s)
    (rombExtrap st.1 r0 i, st.2 / 2.0)) (row0, h0)
  res.1.getD k 0

end Romb

/-! ## 3. scalar coefficients -/

section Scal
variable {α : Type} [Add α] [Sub α] [Mul α] [Div α] [Neg α] [OfScientific α] [NatCast α]
  [OfNat α 0] [OfNat α 1] [OfNat α 2] [OfNat α 3] [OfNat α 4] [OfNat α 5]
  [LT α] [DecidableRel (α := α) (· < ·)] [Transc α]

open Mixing (Err sdiv cone czero)

/-- `C_SPEED` -/
def cSpeed : α := 299792458.0

def sq (x : α) : α := x * x
def cube (x : α) : α := x * x * x
def pow4 (x : α) : α := x * x * x * x
/-- `abs(z)` of a complex number -/
def cabs (z : Cx α) : α := Transc.sqrt (Cx.abs2 z)
/-- the principal square root used throughout (`np.sqrt` / `cmath.sqrt` on complex numbers) -/
def csq (z : Cx α) : Cx α := Fresnel.csqrt z
/-- multiplication by `1j` -/
def mulI (z : Cx α) : Cx α := ⟨-z.im, z.re⟩
def creal (x : α) : Cx α := ⟨x, 0⟩

/-- `AdjustableEffectivePermittivityMixins.effective_permittivity`: the sign-convention guard -/
def epsGuard (e : Cx α) : Except Err (Cx α) :=
  if e.im < -1e-10 then .error .smrt else .ok e

/-! ### rayleigh.py -/

/-- `Rayleigh.__init__` for a real background permittivity `e0` (air): `(ks, ka, ε_eff)` -/
def rayleigh (pi f e0 : α) (eps : Cx α) (radius freq : α) : α × α × Cx α :=
  let lmda := cSpeed / freq
  let k0 := 2.0 * pi / lmda
  let ce0 : Cx α := creal e0
  let y := (eps - ce0) / (eps + Cx.smul 2.0 ce0)
  let ks := f * 2.0 * sq (cabs y) * cube radius * sq e0 * pow4 k0
  let ka := f * 9.0 * k0 * eps.im * sq (cabs (ce0 / (eps + Cx.smul 2.0 ce0))) + (1 - f) * 0 * k0
  (ks, ka, ce0)

/-! ### nonscattering.py -/

/-- `(ks, ka, ε_eff)`; `ke` is `extinction_matrix(self.ka)` -/
def nonscattering (pi f : α) (e0 eps : Cx α) (freq : α) : Except Err (α × α × Cx α) := do
  let e ← Mixing.pvsWith csq .spheres f e0 eps
  let k0 := 2.0 * pi * freq / cSpeed
  pure (0, 2.0 * k0 * (csq e).im, e)

/-! ### sticky_hard_spheres.py : `compute_t` (used by the DMRT models) -/

def computeT (tau : Option α) (f : α) : Except Err α :=
  match tau with
  | none => .ok 0
  | some tau =>
    let a := f / 12.0
    let b := -(tau + f / (1 - f))
    let c := (1 + f / 2.0) / sq (1 - f)
    let d2 := sq b - 4.0 * a * c
    if d2 < 0 then .error .smrt
    else
      let d := Transc.sqrt d2
      let t1 := (-b - d) / (2.0 * a)
      let t := if 1 + 2.0 * f < t1 * f * (1 - f) then (-b + d) / (2.0 * a) else t1
      if 1 + 2.0 * f < t * f * (1 - f) then .error .smrt else .ok t

/-- `layer.inverted_medium()` when `frac_volume > 0.5` and `dense_snow_correction == "auto"` -/
def autoInvert (f : α) (e0 es : Cx α) : α × Cx α × Cx α :=
  if 0.5 < f then (1 - f, es, e0) else (f, e0, es)

/-! ### dmrt_qca_shortrange.py -/

def dmrtQca (pi f0 : α) (e00 es0 : Cx α) (radius freq : α) (tau : Option α) : Except Err (α × α × Cx α) := do
  let (f, e0, es) := autoInvert f0 e00 es0
  let t ← computeT tau f
  let lmda := cSpeed / freq
  let y := (es - e0) / (es + Cx.smul 2.0 e0)
  let fy := Cx.smul f y
  let k0 := (2.0 * pi / lmda) * (csq e0).re
  let x3 := cube (k0 * radius)
  let dn := sq (1 + 2.0 * f - t * f * (1 - f))
  let inner := cone + Cx.smul (pow4 (1 - f)) (Cx.smul x3 (sdiv (mulI (creal 2.0)) 3.0) * y)
                 / (Cx.smul dn (cone - fy))
  let Eeff := e0 + Cx.smul 3.0 fy * e0 / (cone - fy) * inner
  let Ks := 2.0 / (9.0 * f) * k0 * x3 * (sq (cabs (Eeff / e0 - cone)) * pow4 (1 - f) / dn)
  let beta := 2.0 * k0 * (csq Eeff).im
  pure (Ks, beta - Ks, Eeff)

/-! ### dmrt_qcacp_shortrange.py -/

def dmrtQcacp (pi f0 : α) (e00 es0 : Cx α) (radius freq : α) (tau : Option α) : Except Err (α × α × Cx α) := do
  let (f, e0, es) := autoInvert f0 e00 es0
  let t ← computeT tau f
  let lmda := cSpeed / freq
  let b := sdiv (Cx.smul (1.0 - 4.0 * f) (es - e0)) 3.0 - e0
  let c := sdiv (Cx.smul (1.0 - f) ((-e0) * (es - e0))) 3.0
  let disc := b * b - Cx.smul 4.0 c
  let E1 := Cx.smul 0.5 (-b + csq disc)
  let Eeff0 := if E1.re < 1 then Cx.smul 0.5 (-b - csq disc) else E1
  let x3 := cube (2.0 * pi * radius / lmda)
  let dn := sq (1.0 + 2.0 * f - t * f * (1.0 - f))
  let g := (es - e0) / (cone + Cx.smul (1.0 - f) ((es - e0) / Cx.smul 3.0 Eeff0))
  let Eeff := e0 + (Eeff0 - e0) *
    (cone + sdiv (Cx.smul (pow4 (1.0 - f)) (Cx.smul x3 (sdiv (mulI (creal 2.0)) 9.0) * csq Eeff0 * g)) dn)
  let albedo := 2.0 / 9.0 * x3 * f / (2.0 * (csq Eeff).im) * sq (cabs g) * pow4 (1.0 - f) / dn
  let beta := 2.0 * pi / lmda * 2.0 * (csq Eeff).im
  let ks := albedo * beta
  pure (ks, beta - ks, Eeff)

/-! ### sft_rayleigh.py  (complex arctangent needed) -/

/-- `atan2(y, x)` from `atan` -/
def atan2 (pi y x : α) : α :=
  if 0 < x then Transc.atan (y / x)
  else if x < 0 then (if y < 0 then Transc.atan (y / x) - pi else Transc.atan (y / x) + pi)
  else if 0 < y then pi / 2.0 else if y < 0 then -(pi / 2.0) else 0

/-- principal complex logarithm -/
def clog (pi : α) (z : Cx α) : Cx α := ⟨Transc.log (cabs z), atan2 pi z.im z.re⟩

/-- `np.arctan` of a complex number: Taylor series inside `|z| < 1/2` (60 terms, accurate to rounding, where the
    logarithmic formula loses the leading digits), `(i/2)(log(1 − iz) − log(1 + iz))` outside -/
def catan (pi : α) (z : Cx α) : Cx α :=
  if Cx.abs2 z < 0.25 then
    let w := z * z
    -- Horner on  Σ (−1)^n w^n / (2n+1)
    let s := (List.range 60).foldr (fun n acc =>
      let c : α := (if n % 2 = 0 then 1 else -1) / ((2 * n + 1 : Nat) : α)
      creal c + w * acc) czero
    z * s
  else
    let iz := mulI z
    Cx.smul 0.5 (mulI (clog pi (cone - iz) - clog pi (cone + iz)))

def sftRayleigh (pi f : α) (eb es : Cx α) (xi freq : α) : Except Err (α × α × Cx α) := do
  let eg ← Mixing.pvsWith csq .spheres f eb es
  let lmda := cSpeed / freq
  let k0 := 2.0 * pi / lmda * Transc.sqrt 1
  let kg := Cx.smul k0 (csq eg)
  let r1 := (es - eg) / (es + Cx.smul 2.0 eg)
  let r2 := (eb - eg) / (eb + Cx.smul 2.0 eg)
  let delta := Cx.smul 9.0 (eg * eg) * (Cx.smul f (r1 * r1) + Cx.smul (1 - f) (r2 * r2))
  let beta := creal (1 / xi) - mulI kg
  let kg2 := kg * kg
  let b2 := beta * beta
  let atn := catan pi (kg / beta)
  let I1 := cone / (b2 + kg2)
  let I2 := Cx.smul (-3.0 / 2.0) beta / kg2 + cone / Cx.smul 2.0 kg * (Cx.smul 3.0 b2 / kg2 + cone) * atn
  let I3 := creal 3.0 / kg2 - cone / (b2 + kg2) - Cx.smul 3.0 beta / (kg2 * kg) * atn
  let I4 := creal (1.0 / 3.0) + b2 / Cx.smul 2.0 kg2 - beta / Cx.smul 2.0 kg * (b2 / kg2 + cone) * atn
  let Eeff := eg + Cx.smul (sq k0) delta *
    (sdiv (Cx.smul 2.0 I1) 3.0 - mulI I2 / kg - sdiv I3 3.0 + I4 / Cx.smul (sq k0) eg)
  let ka := 2.0 * k0 * (csq eg).im
  let ks := 2.0 * k0 * (csq Eeff).im - ka
  pure (ks, ka, eg)

/-! ### iba.py, iba_original.py, iba_maxwell_garnett.py -/

inductive IbaVariant where
  | iba | original | maxwellGarnett
deriving Repr, BEq, DecidableEq

/-- `depolarization_factors(1)` : spheres -/
def depolSph : α × α × α := Mixing.depolFactors (1 : α)

/-- the mixing formula each IBA class declares (`effective_permittivity_model`) -/
def ibaMixing (v : IbaVariant) (f : α) (e0 eps : Cx α) : Except Err (Cx α) :=
  match v with
  | .maxwellGarnett => Mixing.maxwellGarnett f e0 eps true depolSph
  | _ => Mixing.pvsWith csq .spheres f e0 eps

/-- `effective_permittivity()` of the three IBA classes (mixing formula, then the sign guard) -/
def ibaEpsEff (v : IbaVariant) (f : α) (e0 eps : Cx α) : Except Err (Cx α) :=
  (ibaMixing v f e0 eps).bind epsGuard

/-- one term of `mean_sq_field_ratio`: `|app / (app + (eps − e0) A)|²` -/
def fieldRatioTerm (app e0 eps : Cx α) (A : α) : α := sq (cabs (app / (app + Cx.smul A (eps - e0))))

/-- `mean_sq_field_ratio` -/
def meanSqFieldRatio (v : IbaVariant) (epsEff e0 eps : Cx α) : α :=
  let A : α × α × α := depolSph
  let app (a : α) : Cx α :=
    match v with
    | .maxwellGarnett => e0
    | _ => Cx.smul (1 - a) epsEff + Cx.smul a e0
  (1.0 / 3.0) * (0 + fieldRatioTerm (app A.1) e0 eps A.1 + fieldRatioTerm (app A.2.1) e0 eps A.2.1
                  + fieldRatioTerm (app A.2.2) e0 eps A.2.2)

def waveNumber (pi freq : α) : α := 2.0 * pi * freq / cSpeed

/-- `compute_iba_coeff` -/
def ibaCoeff (pi y2 k0 : α) (e0 eps : Cx α) : α := (1.0 / (4.0 * pi)) * sq (cabs (eps - e0)) * y2 * pow4 k0

/-- `compute_ka` -/
def ibaKa (v : IbaVariant) (f k0 y2 : α) (epsEff eps : Cx α) : α :=
  match v with
  | .original => k0 * f * eps.im * Micro.absv y2
  | _ => 2.0 * k0 * (csq epsEff).im

/-- `ks_integrand(mu)` -/
def ibaKsIntegrand (ft : α → α) (coeff k0 : α) (epsEff : Cx α) (mu : α) : α :=
  let sintheta2 := Transc.sqrt ((1.0 - mu) / 2.0)
  let kdiff := 2.0 * k0 * sintheta2 * cabs (csq epsEff)
  let p11 := coeff * ft kdiff * (mu * mu)
  let p22 := coeff * ft kdiff * 1.0
  p11 + p22

/-- `np.linspace(1, -1, 2**6 + 1)` -/
def muGrid (i : Nat) : α := 1 + (i : α) * (-2.0 / 64.0)

/-- `compute_ks`: Romberg on 65 cosines, `/ 4` -/
def ibaKs (ft : α → α) (coeff k0 : α) (epsEff : Cx α) : α :=
  romb 6 (fun i => ibaKsIntegrand ft coeff k0 epsEff (muGrid i)) (muGrid 0 - muGrid 1) / 4.0

structure IbaOut (α : Type) where
  ks : α
  ka : α
  eps : Cx α
  coeff : α

/-- `IBA.__init__` (the spectrum `ft` of the layer's microstructure model is a parameter) -/
def iba (v : IbaVariant) (ft : α → α) (pi f : α) (e0 eps : Cx α) (freq : α) : Except Err (IbaOut α) := do
  let epsEff ← ibaEpsEff v f e0 eps
  let k0 := waveNumber pi freq
  let y2 := meanSqFieldRatio v epsEff e0 eps
  let coeff := ibaCoeff pi y2 k0 e0 eps
  pure ⟨ibaKs ft coeff k0 epsEff, ibaKa v f k0 y2 epsEff eps, epsEff, coeff⟩

/-- `np.clip(x, -1, 1)` -/
def clip1 (x : α) : α := if x < -1.0 then -1.0 else if 1.0 < x then 1.0 else x

/-- `sin_half_scatt` of `rayleigh_scattering_matrix_and_angle_tsang00` -/
def sinHalf (mus mui phi : α) : α :=
  Transc.sqrt (0.5 * (1 - clip1 (mus * mui + sinOf mus * sinOf mui * Transc.cos phi)))

/-- `IBA.phase`, entry `(p, q)` -/
def ibaPhase (ft : α → α) (coeff k0 : α) (epsEff : Cx α) (p q : Nat) (mus mui phi : α) : α :=
  let kdiff := 2.0 * k0 * (csq epsEff).re * sinHalf mus mui phi
  ft kdiff * coeff * rayP p q mus mui phi

/-! ### sce_common.py -/

/-- `compute_ke_ks` (equation 67): `(ke, ks)` from the second-order term `A2` -/
def sceKeKs (f k0 : α) (e0 eps A2 : Cx α) : α × α :=
  let beta := (eps - e0) / (eps + Cx.smul 2.0 e0)
  let bf := Cx.smul f beta
  let Eeff := e0 * (cone + Cx.smul (sq f) (Cx.smul 3.0 beta) / (Cx.smul f (cone - bf) - beta * A2))
  let Eeff0 := e0 * (cone + Cx.smul (sq f) (Cx.smul 3.0 beta) / Cx.smul f (cone - bf))
  let ke := 2.0 * k0 * (csq Eeff).im
  (ke, ke - 2.0 * k0 * (csq Eeff0).im)

/-- `compute_A2_local(Q, microstructure)` (the short-range second-order term of the strong-contrast expansions): `p = 12`, `n = 2^12`
    samples of `r·acf(r)` on `[0, 8·inv_slope_at_origin]`, Romberg, then `A2 = 2 Q² (∫ + i/(4π)·ft(0)·Q)`; `g i` is the autocorrelation
    function at the `i`-th grid point `i·(maxr/n)` (`np.linspace(0, maxr, n + 1)`), `Q` may be complex -/
def sceA2Local (pi : α) (g : Nat → α) (ft0 invSlope : α) (Q : Cx α) : Cx α :=
  let maxr : α := 8.0 * invSlope
  let step : α := maxr / ((4096 : Nat) : α)
  let integrale1 : α := romb 12 (fun i => ((i : α) * step) * g i) step
  Cx.smul 2.0 (Q * Q) * (⟨integrale1, 0⟩ + Cx.smul ft0 (⟨0, 1.0 / (4.0 * pi)⟩ * Q))

/-- is `x == 0` -/
def isZero (x : α) : Bool := !(decide (x < 0)) && !(decide (0 < x))

/-- `compute_ke_ks_symmetrical` (equation D2) -/
def sceKeKsSym (f k0 : α) (e0 eps A2 A2inv : Cx α) : α × α :=
  let grandA2 : Cx α := if isZero f || isZero (f - 1) then creal 2.0 else creal 2.0 + sdiv A2 f + sdiv A2inv (1 - f)
  let sumEps := e0 + eps
  let prodEps := e0 * eps
  let wm := Cx.smul f e0 + Cx.smul (1 - f) eps
  let t := sumEps * grandA2 - Cx.smul 3.0 wm
  let delta := Cx.smul 4.0 grandA2 * (creal 3.0 - grandA2) * prodEps + t * t
  let Eeff := sdiv sumEps 2.0 + cone / Cx.smul 2.0 grandA2 * (Cx.smul (-3.0) wm + csq delta)
  let t0 := Cx.smul 2.0 sumEps - Cx.smul 3.0 wm
  let delta0 := Cx.smul 8.0 prodEps + t0 * t0
  let Eeff0 := sdiv sumEps 2.0 + Cx.smul (1.0 / 4.0) (Cx.smul (-3.0) wm + csq delta0)
  let ke := 2.0 * k0 * (csq Eeff).im
  (ke, ke - 2.0 * k0 * (csq Eeff0).im)

/-- `ks_integrand` of `SCEBase` (no `iba_coeff`) -/
def sceKsIntegrand (ft : α → α) (k0 : α) (epsEff : Cx α) (mu : α) : α :=
  let sintheta2 := Transc.sqrt ((1.0 - mu) / 2.0)
  let kdiff := 2.0 * k0 * sintheta2 * cabs (csq epsEff)
  ft kdiff * (mu * mu) + ft kdiff * 1.0

/-- `compute_phase_norm` -/
def scePhaseNorm (ft : α → α) (ks k0 : α) (epsEff : Cx α) : α :=
  if isZero ks then 0
  else
    let ksInt := romb 6 (fun i => sceKsIntegrand ft k0 epsEff (muGrid i)) (muGrid 0 - muGrid 1)
    if isZero ksInt then 0 else ks / (ksInt / 4.0)

/-- `compute_ka` -/
def sceKa (k0 : α) (epsEff : Cx α) : α := 2.0 * k0 * (csq epsEff).im

/-- the complex wavenumber difference at which `SCEBase.phase` evaluates the spectrum -/
def sceKdiff (k0 : α) (epsEff : Cx α) (mus mui phi : α) : Cx α :=
  Cx.smul (sinHalf mus mui phi) (Cx.smul (2.0 * k0) (csq epsEff))

/-- `SCEBase.phase`, entry `(p, q)`, given the (complex) value `ftc` of the spectrum at `sceKdiff` -/
def scePhase (norm : α) (ftc : Cx α) (p q : Nat) (mus mui phi : α) : Cx α :=
  Cx.smul (rayP p q mus mui phi) (Cx.smul norm ftc)

/-! ## 4. `ft_even_phase` through `generic_ft_even_matrix` -/

/-- `dphi = np.linspace(0, np.pi, nsamples // 2 + 1)` -/
def dphiGrid (pi : α) (N k : Nat) : α := (k : α) * (pi / ((N / 2 : Nat) : α))

/-- coefficient `(p, q, m)` of `generic_ft_even_matrix(phase_function, m_max, nsamples = N)` for a phase function
    given as `phase p q Δφ` at one pair of directions -/
def ftEvenPhase (pi : α) (npol N : Nat) (phase : Nat → Nat → α → α) (p q m : Nat) : α :=
  ftEvenCoef pi npol N p q m (fun k => phase p q (dphiGrid pi N k))

/-- the guard of `IBA.ft_even_phase` / `SCEBase.ft_even_phase`: `np.any(mu_i == 1) and npol > 2` -/
def ftGuard (npol : Nat) (muiIsOne : Bool) : Except Err Unit :=
  if muiIsOne && npol > 2 then .error .smrt else .ok ()

end Scal

end Smrt.Em
