/-
  L6 — microstructure models of `smrt/microstructure_model/*.py`: real-space autocorrelation function `acf(r)`,
  spectral form `ft(k)`, `corr_func_at_origin`, `inv_slope_at_origin`, the unified → classical parameter maps and
  `Autocorrelation.inverted_medium`.

  Core Lean only.  Every definition is polymorphic in the scalar (`Float` in the driver, `ℝ` in the proofs); the
  constant π is an explicit argument `pi` (the driver passes the double `np.pi`, the theorems `Real.pi`).
  Expressions are typed from the source, in the source's evaluation order; `x**2`, `x**3` are written as products,
  `K**(3/2)` as `K·√K`, `np.sinc` and `np.isclose(·, 0)` by their documented contract.

  Four places deliberately state what the *property* requires rather than what the unchanged code does (see the file
  `Props/C17.lean` and the harness for the witnesses):
  * `useAcf`  — `exp(-r/ξ)`; the code has `exp(-r·ξ)`;
  * `sphAcf`  — `0` beyond `2R`; the code leaves these entries of an `np.empty_like` array unwritten;
  * `utsAcf`  — the guard branch of the `K ≥ 1` regime returns `exp(-r/ζ₁)` (the common limit for `r → 0` and for
                `ζ₁ → ζ₂`); the code returns `1`, which is wrong for every lag at `K = 1`;
  * `grfAcf`  — an accurate quadrature of the level-cut integral; the code's fixed-step trapezoid is 9 % low at lag 0.
-/
import SmrtVerif.Model.Basic

namespace Smrt.Micro

section
variable {α : Type} [Add α] [Sub α] [Mul α] [Div α] [Neg α] [OfScientific α] [NatCast α] [OfNat α 0] [OfNat α 1]
  [LT α] [DecidableRel (fun a b : α => a < b)] [Transc α]

def sq (x : α) : α := x * x
def cube (x : α) : α := x * x * x
def absv (x : α) : α := if x < 0 then -x else x

/-- `np.isclose(x, 0, atol=atol)` : `|x| ≤ atol` -/
def closeZero (atol x : α) : Bool := !(decide (atol < absv x))

/-- `np.sinc(x) = sin(πx)/(πx)`, `1` at `x = 0` (documented contract of numpy) -/
def sinc (pi x : α) : α := if x < 0 ∨ 0 < x then Transc.sin (pi * x) / (pi * x) else 1

/-- `corr_func_at_origin` of every model: `frac_volume * (1.0 - frac_volume)` -/
def acf0 (f : α) : α := f * (1 - f)

/-- `Autocorrelation.inverted_medium`: `obj.frac_volume = 1.0 - self.frac_volume` -/
def invertedFrac (f : α) : α := 1 - f

/-! ### exponential.py -/

def expInvSlope (xi : α) : α := xi
def expAcf (f xi r : α) : α := acf0 f * Transc.exp (-r / xi)
def expFt (pi f xi k : α) : α :=
  let X := sq (k * xi)
  acf0 f * 8.0 * pi * cube xi / sq (1 + X)

/-! ### independent_sphere.py -/

def sphInvSlope (R : α) : α := 4.0 / 3.0 * R
/-- the polynomial inside the Heaviside factor -/
def sphPoly (R r : α) : α := 1 - r / ((4.0 * R) / 3.0) + cube r / (cube (2.0 * R) * 2.0)
def sphAcf (f R r : α) : α := acf0 f * (if 2.0 * R < r then 0 else sphPoly R r)
def sphBessel (X : α) : α :=
  if closeZero 1e-3 X then 1 else 9.0 * sq ((Transc.sin X - X * Transc.cos X) / cube X)
def sphFt (pi f R k : α) : α :=
  let X := R * k
  let vol := 4.0 / 3.0 * pi * cube R
  acf0 f * vol * sphBessel X

/-! ### sticky_hard_spheres.py (spectral form only) -/

def shsInvSlope (f R : α) : α := 4.0 / 3.0 * R * (1 - f)

/-- the radicand of the `t` formula -/
def shsDisc (tau phi : α) : α :=
  36.0 * sq tau * sq phi - 72.0 * tau * sq phi - 72.0 * sq tau * phi + 30.0 * sq phi + 72.0 * tau * phi
    + 36.0 * sq tau - 12.0 * phi

/-- the `t` parameter as `ft_autocorrelation_function` computes it; `none` = `stickiness = np.inf` -/
def shsT (tau : Option α) (phi : α) : α :=
  match tau with
  | some tau =>
    if 0 < phi then
      (6.0 * tau * phi - 6.0 * phi - 6.0 * tau + Transc.sqrt (shsDisc tau phi)) / (phi * (-1 + phi))
    else 0
  | none => 0

/-- value set manually at `k ≈ 0` (Eq. 33 of Löwe & Picard 2015) -/
def shsFtZero (phi vd t : α) : α :=
  phi * vd / sq (phi / (1 - phi) * ((1 - t * phi + 3.0 * phi / (1 - phi)) + (3.0 - t * (1 - phi))) + 1)

/-- the spectrum for a given `t` (`phi` = frac_volume, `R` = radius) -/
def shsFtT (pi phi R t k : α) : α :=
  let d := 2.0 * R
  let X := k * d / 2.0
  let vd := 4.0 / 3.0 * pi * cube (d / 2.0)
  if closeZero 1e-3 X then shsFtZero phi vd t
  else
    let sv := 3.0 * (sinc pi (X / pi) - Transc.cos X) / sq X
    let Psi := sinc pi (X / pi) / sv
    let A := phi / (1 - phi) * ((1 - t * phi + 3.0 * phi / (1 - phi)) * 1 + (3.0 - t * (1 - phi)) * Psi)
             + Transc.cos X / sv
    let B := phi / (1 - phi) * X * 1 + Transc.sin X / sv
    phi * vd * (1 / (sq A + sq B))

def shsFt (pi f R : α) (tau : Option α) (k : α) : α := shsFtT pi f R (shsT tau f) k

/-! ### teubner_strey.py -/

def tsAcf (pi f xi d r : α) : α := acf0 f * (Transc.exp (-r / xi) * sinc pi (2.0 * r / d))
def tsDen (X Y : α) : α := sq (1 + Y) + 2.0 * (1 - Y) * X + sq X
def tsFt (pi f xi d k : α) : α :=
  let X := sq (k * xi)
  let Y := sq (2.0 * pi * xi / d)
  acf0 f * (8.0 * pi * cube xi / tsDen X Y)

/-! ### unified_scaled_exponential.py -/

def useXi (lp K : α) : α := K * lp
/-- required form `exp(-r/ξ)` (the unchanged code evaluates `exp(-r·ξ)`, `useAcfCode`) -/
def useAcf (f lp K r : α) : α := acf0 f * Transc.exp (-r / useXi lp K)
def useAcfCode (f lp K r : α) : α := acf0 f * Transc.exp (-r * useXi lp K)
def useFt (pi f lp K k : α) : α :=
  let X := sq (k * useXi lp K)
  acf0 f * 8.0 * pi * cube (useXi lp K) / sq (1 + X)

/-! ### unified_teubner_strey.py -/

def k32 (K : α) : α := K * Transc.sqrt K
def utsZeta1 (lp K : α) : α :=
  if K < 1 then lp else (lp * k32 K) * (1 - Transc.sqrt (1 - 1 / k32 K))
def utsZeta2 (lp K : α) : α :=
  if K < 1 then lp * Transc.sqrt (1 / (1 / k32 K - 1)) else (lp * k32 K) * (1 + Transc.sqrt (1 - 1 / k32 K))

/-- `K ≥ 1` regime, main branch: difference of two exponentials over `r (1/ζ₁ − 1/ζ₂)` -/
def utsAcfHiMain (c z1 z2 r : α) : α :=
  c * ((Transc.exp (-r / z2) - Transc.exp (-r / z1)) / (r * (1 / z1 - 1 / z2)))
/-- `K ≥ 1` regime, in terms of the two lengths, with the guard `denom > 1e-15` -/
def utsAcfHi (c z1 z2 r : α) : α :=
  if 1e-15 < r * (1 / z1 - 1 / z2) then utsAcfHiMain c z1 z2 r else c * Transc.exp (-r / z1)
/-- the same with the guard value `1` of the code at the pinned commit (only used in refuting `example`s) -/
def utsAcfHiCode (c z1 z2 r : α) : α :=
  if 1e-15 < r * (1 / z1 - 1 / z2) then utsAcfHiMain c z1 z2 r else c * 1
/-- `K < 1` regime -/
def utsAcfLo (pi c z1 z2 r : α) : α := c * Transc.exp (-r / z1) * sinc pi (r / z2 / pi)

def utsFtHi (pi c z1 z2 k : α) : α :=
  c * (4.0 * pi * z1 * z2 * (z1 + z2) / ((1 + sq (z1 * k)) * (1 + sq (z2 * k))))
def utsFtLo (pi c z1 z2 k : α) : α :=
  let x1 := k * z1
  let r12 := z1 / z2
  c * (8.0 * pi * cube z1 / ((1 + sq (x1 - r12)) * (1 + sq (x1 + r12))))

def utsAcf (pi f lp K r : α) : α :=
  if K < 1 then utsAcfLo pi (acf0 f) (utsZeta1 lp K) (utsZeta2 lp K) r
  else utsAcfHi (acf0 f) (utsZeta1 lp K) (utsZeta2 lp K) r
def utsAcfCode (pi f lp K r : α) : α :=
  if K < 1 then utsAcfLo pi (acf0 f) (utsZeta1 lp K) (utsZeta2 lp K) r
  else utsAcfHiCode (acf0 f) (utsZeta1 lp K) (utsZeta2 lp K) r
def utsFt (pi f lp K k : α) : α :=
  if K < 1 then utsFtLo pi (acf0 f) (utsZeta1 lp K) (utsZeta2 lp K) k
  else utsFtHi pi (acf0 f) (utsZeta1 lp K) (utsZeta2 lp K) k

/-! ### unified_sticky_hard_spheres.py -/

def ushsRadius (f lp : α) : α := 3.0 / 4.0 * lp / (1 - f)
def ushsT (f K : α) : α := (1 + 2.0 * f - 3.0 / (8.0 * Transc.sqrt 2.0) * (1 / k32 K)) / acf0 f
/-- `compute_stickiness` -/
def ushsStickiness (phi t : α) : α := phi / 12.0 * t - phi / (1 - phi) + (1 + phi / 2.0) / (t * sq (1 - phi))

/-- the spectrum as the unified class writes it (volumes not divided out), for the attributes `radius`, `t`
    and the current `frac_volume` `phi` -/
def ushsFtCore (pi phi R t k : α) : α :=
  let d := 2.0 * R
  let X := k * d / 2.0
  let vd := 4.0 / 3.0 * pi * cube (d / 2.0)
  let n := phi / vd
  if closeZero 1e-3 X then shsFtZero phi vd t
  else
    let sv := vd * 3.0 * (sinc pi (X / pi) - Transc.cos X) / sq X
    let Psi := sinc pi (X / pi) / sv
    let Phi := 1 / vd
    let A := phi / (1 - phi) * ((1 - t * phi + 3.0 * phi / (1 - phi)) * Phi + (3.0 - t * (1 - phi)) * Psi)
             + Transc.cos X / sv
    let B := phi / (1 - phi) * X * Phi + Transc.sin X / sv
    n * (1 / (sq A + sq B))

def ushsFt (pi f lp K k : α) : α := ushsFtCore pi f (ushsRadius f lp) (ushsT f K) k
/-- after `inverted_medium()`: `frac_volume` is replaced, the attributes `radius` and `t` computed in
    `__init__` are not -/
def ushsFtInverted (pi f lp K k : α) : α := ushsFtCore pi (invertedFrac f) (ushsRadius f lp) (ushsT f K) k

/-! ### sampled_autocorrelation.py : `np.interp(r, lag, acf)` -/

/-- `np.interp(x, xp, fp)` on `n ≥ 1` ascending nodes: clamped outside, linear inside -/
def interp (n : Nat) (xp fp : Nat → α) (x : α) : α :=
  if x < xp 0 then fp 0
  else if xp (n - 1) < x then fp (n - 1)
  else
    let j := ((List.range n).filter (fun i => !(decide (x < xp i)))).length - 1
    if n ≤ j + 1 then fp j
    else if xp j < x then (fp (j + 1) - fp j) / (xp (j + 1) - xp j) * (x - xp j) + fp j
    else fp j

def sampAcf (n : Nat) (lag acf : Nat → α) (r : α) : α := interp n lag acf r

/-! ### homogeneous.py -/

def homInvSlope : α := 0
def homAcf (_r : α) : α := 0
def homFt (_k : α) : α := 0

/-! ### gaussian_random_field.py (executable only; `beta = √2·erfinv(2(1−f)−1)` is an input)

  The real-space form is the integral  (1/2π) ∫₀^ψ exp(−β²/(1+u)) / √(1−u²) du  over the field correlation `ψ(r)`.
  The model evaluates it as the property needs it (zero-lag value `f(1−f)`): substitution `u = sin θ`, trapezoid on
  101 points of `[0, arcsin ψ]` (smooth integrand, error < 1e-4).  The code at the pinned commit uses a fixed-step
  trapezoid in `t = u/ψ` on `arange(0, 1, 0.01)`, which stops at 0.99 and misses the integrable endpoint
  singularity: 9 % low at zero lag.  The correspondence compares the two at the 5 % the property grants a
  numerically provided form. -/

def grfPsi (pi xi d r : α) : α := Transc.exp (-r / xi) * (1 + r / xi) * sinc pi (2.0 * r / d)
/-- `np.trapz(y, x)` on `n` points -/
def trapz (n : Nat) (x y : Nat → α) : α :=
  sumN (n - 1) (fun i => (x (i + 1) - x i) * (y (i + 1) + y i) / 2.0)
/-- `arcsin ψ = 2·atan(ψ / (1 + √(1−ψ²)))` (no division by zero at `ψ = ±1`) -/
def asinv (psi : α) : α := 2.0 * Transc.atan (psi / (1 + Transc.sqrt (1 - sq psi)))
def grfAcf (pi beta xi d r : α) : α :=
  let psi := grfPsi pi xi d r
  let th : Nat → α := fun i => asinv psi * ((i : α) / 100.0)
  1 / (2.0 * pi) * trapz 101 th (fun i => Transc.exp (-(sq beta) / (1 + Transc.sin (th i))))
def grfInvSlope (pi f beta xi d : α) : α :=
  let dd := -1 / 2.0 * (sq (1 / xi) + 1 / 3.0 * sq (2.0 * pi / d))
  let ssa := 2.0 / pi * Transc.exp (-(sq beta) / 2.0) * Transc.sqrt (-dd) / f
  4.0 * (1 - f) / ssa

/-! ### autocorrelation.py : the numerical sine-transform fall-backs (executable only)

  `scipy.fftpack.dst(x, type=1)[j] = 2 Σ_n x[n] sin(π (j+1)(n+1)/(len x + 1))`; only the two bins that
  bracket the requested abscissa are evaluated (the code computes all of them by FFT and interpolates). -/

/-- `sin(π m n / N)` with the integer part of the period removed before rounding -/
def sinGrid (pi : α) (N m n : Nat) : α := Transc.sin (pi * (((m * n) % (2 * N) : Nat) : α) / (N : α))

/-- bin `m` of `ft_resampled` in `ft_autocorrelation_function_fft` -/
def ftFftBin (pi : α) (acf : α → α) (dr : α) (N m : Nat) : α :=
  let r : Nat → α := fun n => dr * (n : α)
  if m = 0 then dr * 4.0 * pi * sumN N (fun n => acf (r n) * sq (r n))
  else
    let L := (N : α) * dr
    let dk := pi / L
    2.0 * sumN (N - 1) (fun n' => 4.0 * pi * acf (r (n' + 1)) * r (n' + 1) * sinGrid pi N m (n' + 1))
      / (2.0 / dr * (dk * (m : α)))

/-- `ft_autocorrelation_function_fft(k)` for one `k` (`N = 4096`, `dr = inv_slope_at_origin / 20`) -/
def ftFft (pi : α) (acf : α → α) (invSlope : α) (N : Nat) (k : α) : α :=
  let dr := invSlope / 20.0
  let dk := pi / ((N : α) * dr)
  interp N (fun m => dk * (m : α)) (ftFftBin pi acf dr N) (absv k)

/-- bin `m` of `C_resampled` in `autocorrelation_function_invfft`; `M = len(np.arange(no_points))` -/
def invFftBin (pi : α) (ft : α → α) (spacing noPoints : α) (M m : Nat) : α :=
  let dk := pi / (noPoints * spacing)
  let k : Nat → α := fun n => dk * (n : α)
  let c := dk / cube (2.0 * pi)
  if m = 0 then c * 4.0 * pi * sumN M (fun n => ft (k n) * sq (k n))
  else
    2.0 * sumN (M - 1) (fun n' => 4.0 * pi * ft (k (n' + 1)) * k (n' + 1) * sinGrid pi M m (n' + 1))
      / (2.0 / c * (spacing * (m : α)))

/-- `autocorrelation_function_invfft(r)` at one lag of the array `r` (described by its spacing and extent) -/
def invFft (pi : α) (ft : α → α) (spacing noPoints : α) (M : Nat) (r : α) : α :=
  interp M (fun m => spacing * (m : α)) (invFftBin pi ft spacing noPoints M) r

end
end Smrt.Micro
