/-
  The closed-form incoherent multilayer solution for media without volume scattering and with specular
  boundaries (C02): Fresnel power coefficients at each interface, Beer–Lambert attenuation along the refracted path
  inside each layer, multiple reflections between interfaces summed as geometric series.

  One scalar problem per (stream, polarisation).  Layers are listed from the *bottom* of the stack upwards.
-/
import SmrtVerif.Model.Basic

namespace Smrt.Textbook

/-- one layer of the scalar chain, with the two interfaces seen from inside the layer -/
structure SLayer (α : Type) where
  t : α        -- one-way transmissivity of the layer along the stream, exp(-κ d / μ)
  temp : α     -- physical temperature
  rTop : α     -- power reflectivity of the top interface seen from inside the layer
  tauUp : α    -- power transmissivity upward through the top interface
  rBot : α     -- power reflectivity of the bottom interface seen from inside the layer
  tauDn : α    -- power transmissivity downward through the bottom interface (for the lowest layer: substrate emissivity)

section
variable {α : Type} [Add α] [Sub α] [Mul α] [Div α] [OfNat α 1]

/-- effective reflectivity and emission seen from just below the top interface of a layer, given those seen from just
    above its bottom interface: `Γ' = t² Γ`, `S' = T (1 − t)(1 + t Γ) + t S` -/
def throughLayer (ly : SLayer α) (g s : α) : α × α :=
  (ly.t * ly.t * g, ly.temp * (1 - ly.t) * (1 + ly.t * g) + ly.t * s)

/-- crossing the interface between a layer (below) and the layer above it (`up`): geometric series of the reflections
    between the interface and the half-stack below: `Γ'' = r_a + τ_up τ_dn Γ' / (1 − r_b Γ')`, `S'' = τ_up S' / (1 − r_b Γ')`,
    with `r_b`, `τ_up` of the lower layer's top and `r_a`, `τ_dn` of the upper layer's bottom -/
def throughInterface (lower up : SLayer α) (g s : α) : α × α :=
  (up.rBot + lower.tauUp * up.tauDn * g / (1 - lower.rTop * g), lower.tauUp * s / (1 - lower.rTop * g))

/-- `(Γ, S)` just above the bottom interface of the top-most listed layer, for a chain listed bottom-up; the lowest
    layer sees the substrate: `Γ = r_sub`, `S = e_sub · T_sub` -/
def bottomOf (tsub : α) : List (SLayer α) → α × α
  | [] => (1, tsub)          -- not used
  | [ly] => (ly.rBot, ly.tauDn * tsub)
  | up :: lower :: rest =>
    let (g, s) := bottomOf tsub (lower :: rest)
    let (g', s') := throughLayer lower g s
    throughInterface lower up g' s'

/-- the brightness temperature above the surface: `Tb = τ_up S'/(1 − r_b Γ') + (r_air + τ_up τ_dn Γ'/(1 − r_b Γ')) T_sky`
    where `(Γ', S')` are seen from just below the surface, `rAir`/`tauAir` the surface seen from the air -/
def brightness (tsub tsky rAir tauAir : α) (chainTopDown : List (SLayer α)) : α :=
  match chainTopDown with
  | [] => tsky
  | top :: rest =>
    let (g, s) := bottomOf tsub (top :: rest)
    let (g', s') := throughLayer top g s
    top.tauUp * s' / (1 - top.rTop * g') + (rAir + top.tauUp * tauAir * g' / (1 - top.rTop * g')) * tsky

end
end Smrt.Textbook
