/-
  Active mode of `DORT`: the incident delta beams of `prepare_intensity_array`, the azimuthal recomposition of the mode
  solutions and the extraction of the backscatter blocks in `DORT.dort` (`smrt/rtsolver/dort.py`).
-/
import SmrtVerif.Model.Basic

namespace Smrt.Active
section
variable {α : Type} [Add α] [Sub α] [Mul α] [Div α] [OfNat α 0] [OfNat α 1] [OfScientific α] [NatCast α] [Transc α]

/-- `power = 1 / (2π · outweight[i])`: the m = 0 cosine coefficient of a unit delta beam spread over stream `i` -/
def beamPower (pi w : α) : α := 1.0 / (2.0 * pi * w)

/-- `intensity_0` (2 polarisations): column `c = 2k + ipol` lights row `2·inc[k] + ipol` with `power` -/
def incident0 (pi : α) (inc : List Nat) (w : Nat → α) (r c : Nat) : α :=
  let i := inc.getD (c / 2) 0
  if r = 2 * i + c % 2 then beamPower pi (w i) else 0

/-- `intensity_higher` (3 polarisations): column `c = 3k + ipol` lights row `3·inc[k] + ipol` with `2·power` -/
def incidentHigher (pi : α) (inc : List Nat) (w : Nat → α) (r c : Nat) : α :=
  let i := inc.getD (c / 3) 0
  if r = 3 * i + c % 3 then 2.0 * beamPower pi (w i) else 0

/-- `extend_2pol_npol` of the mode-0 solution (2 → 3 polarisations, zeros in the U rows and columns) -/
def extend0 (x : Nat → Nat → α) (r c : Nat) : α :=
  if r % 3 < 2 ∧ c % 3 < 2 then x (2 * (r / 3) + r % 3) (2 * (c / 3) + c % 3) else 0

/-- the azimuthal recomposition at azimuth `phi`: V and H rows carry `cos(m φ)`, U rows `sin(m φ)`;
    `modes m` is the (total − coherent) solution of mode `m ≥ 1`, `mode0` that of mode 0 -/
def recompose (mmax : Nat) (phi : α) (mode0 : Nat → Nat → α) (modes : Nat → Nat → Nat → α) (r c : Nat) : α :=
  (List.range mmax).foldl (fun acc k =>
      let m := k + 1
      acc + modes m r c * (if r % 3 < 2 then Transc.cos ((m : α) * phi) else Transc.sin ((m : α) * phi)))
    (extend0 mode0 r c)

/-- the backscatter blocks: row block `j` takes stream `inc[j]`, column block `j` -/
def backscatter (inc : List Nat) (up : Nat → Nat → α) (r q : Nat) : α :=
  up (3 * inc.getD (r / 3) 0 + r % 3) (3 * (r / 3) + q)

end
end Smrt.Active
