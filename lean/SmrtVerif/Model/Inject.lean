/-
  C14 — a formula evaluated through a layer equals the call with that layer's attributes.  Core Lean only.

  What is modelled (smrt/core/layer.py, smrt/emmodel/common.py):

  * a layer, seen by `hasattr`/`getattr`, is a finite map attribute name → value (`Env V`; the values are opaque);
  * `@layer_properties(*required, optional_arguments=…, **kwargs)`: the declaration `Decl` keeps the required
    names, the optional names, *the keywords the decorator call was given and does not understand* (they fall in
    its `**kwargs` and are never looked at), and the signature of the decorated function;
  * `inject` = what the decorator's `newf` does to the keyword arguments before calling the function
    (`layer_to_inject=None` ⇒ plain call; not a `Layer` ⇒ `AssertionError`; required attribute missing ⇒ a bare
    `Exception` naming the attribute; optional attribute present ⇒ overrides);
  * `bind` = Python's binding of positional and keyword arguments to the parameters of the undecorated function
    (every failure is a `TypeError`);
  * `layerPermittivity` = `Layer.permittivity(i, frequency)` (constant vs callable dispatch);
  * `effectivePermittivity` = `AdjustableEffectivePermittivityMixins.effective_permittivity` (the `e0/eps/frequency`
    keywords filtered by the signature of the formula, then the same injection), `checkPassive` its sign test;
  * the predicates over the regenerated table `Gen/C14Decls.lean` (`Decl.Sound`, `Ctor.Provides`).
-/
namespace Smrt.Inject

/-! ## finite maps (Python dicts / attribute namespaces) -/

abbrev Env (V : Type) := List (String × V)

/-- `d.get(k)` / `getattr(layer, k)`; `none` = absent (`hasattr` false) -/
def get? {V : Type} (k : String) : Env V → Option V
  | [] => none
  | (k', v) :: m => if k' = k then some v else get? k m

/-- `d[k] = v`: replaces the value in place when the key exists, appends otherwise -/
def put {V : Type} (k : String) (v : V) : Env V → Env V
  | [] => [(k, v)]
  | (k', v') :: m => if k' = k then (k, v) :: m else (k', v') :: put k v m

def has {V : Type} (k : String) (m : Env V) : Bool := (get? k m).isSome

def keys {V : Type} (m : Env V) : List String := m.map (·.1)

/-! ## declarations -/

/-- one use of `@layer_properties(...)` and the function under it -/
structure Decl where
  module : String
  name : String
  /-- positional arguments of the decorator call -/
  required : List String
  /-- value of `optional_arguments=` -/
  optional : List String
  /-- every *other* keyword of the decorator call with the names in its value: swallowed by `**kwargs`, without effect -/
  swallowed : List (String × List String)
  /-- parameter names of the decorated function, in order -/
  params : List String
  /-- how many of the last parameters have a default -/
  ndefaults : Nat
  /-- the function has `*args`, `**kwargs` or keyword-only parameters (none in the tree; `bind` does not model them) -/
  star : Bool
deriving Repr, DecidableEq

def Decl.declared (d : Decl) : List String := d.required ++ d.optional

/-- a layer constructor of `smrt/inputs/make_medium.py` (one entry per ice type): the attributes a layer it returns
    has, and the layer-aware functions it installs in `permittivity_model` by default -/
structure Ctor where
  name : String
  stored : List String
  models : List String
deriving Repr, DecidableEq

/-- the names that are layer properties: what some constructor stores, and every name that appears anywhere in a
    decorator call of the table (positional, `optional_arguments=`, or in a keyword the decorator ignores) -/
def layerNamesOf (cs : List Ctor) (ds : List Decl) : List String :=
  cs.flatMap (·.stored) ++ ds.flatMap (fun d => d.declared ++ d.swallowed.flatMap (·.2))

/-- the declaration says what the function takes from the layer:
    no keyword is swallowed; the signature is a plain parameter list; every declared name is a parameter;
    every parameter that is a layer property is declared (required or optional). -/
def Decl.Sound (layerNames : List String) (d : Decl) : Prop :=
  d.swallowed = [] ∧ d.star = false ∧ d.ndefaults ≤ d.params.length ∧
  (∀ n ∈ d.declared, n ∈ d.params) ∧
  (∀ p ∈ d.params, p ∈ layerNames → p ∈ d.declared)

instance (ln : List String) (d : Decl) : Decidable (d.Sound ln) := by unfold Decl.Sound; infer_instance

/-- every layer-aware function the constructor installs finds its required attributes on the layer -/
def Ctor.Provides (ds : List Decl) (c : Ctor) : Prop :=
  ∀ m ∈ c.models, ∃ d ∈ ds, d.name = m ∧ ∀ r ∈ d.required, r ∈ c.stored

instance (ds : List Decl) (c : Ctor) : Decidable (c.Provides ds) := by unfold Ctor.Provides; infer_instance

/-! ## errors -/

inductive Err where
  /-- `raise Exception("The layer must have the '%s' attribute to call the function %s")` -/
  | missingAttribute (attr : String)
  /-- `assert isinstance(layer_to_inject, Layer)` -/
  | notALayer
  /-- Python's argument binding, `len(None)` -/
  | typeError (why : String)
  /-- `assert i >= 0 and i < len(self.permittivity_model)` -/
  | assertion
  | smrtError
deriving Repr, DecidableEq

/-- the error kind as the harness names it -/
def Err.token : Err → String
  | .missingAttribute a => "ERR foreign:Exception " ++ a
  | .notALayer => "ERR foreign:AssertionError"
  | .typeError _ => "ERR foreign:TypeError"
  | .assertion => "ERR foreign:AssertionError"
  | .smrtError => "ERR SMRTError"

/-! ## the decorator -/

/-- the value of `layer_to_inject` -/
inductive LayerArg (V : Type) where
  | none
  /-- an object that is not a `Layer` -/
  | other
  | layer (attrs : Env V)

/-- `for ra in required_arguments: if hasattr … kwargs[ra] = getattr … else: raise Exception` -/
def injectRequired {V : Type} (attrs : Env V) : List String → Env V → Except Err (Env V)
  | [], kw => .ok kw
  | r :: rs, kw =>
    match get? r attrs with
    | some v => injectRequired attrs rs (put r v kw)
    | none => .error (.missingAttribute r)

/-- `for ra in optional_arguments: if hasattr …: kwargs[ra] = getattr …` -/
def injectOptional {V : Type} (attrs : Env V) : List String → Env V → Env V
  | [], kw => kw
  | o :: os, kw =>
    match get? o attrs with
    | some v => injectOptional attrs os (put o v kw)
    | none => injectOptional attrs os kw

/-- the keyword arguments `newf` hands to the undecorated function -/
def inject {V : Type} (d : Decl) : LayerArg V → Env V → Except Err (Env V)
  | .none, kw => .ok kw
  | .other, _ => .error .notALayer
  | .layer attrs, kw =>
    match injectRequired attrs d.required kw with
    | .ok kw' => .ok (injectOptional attrs d.optional kw')
    | .error e => .error e

/-! ## Python's argument binding -/

/-- what a parameter is bound to -/
inductive Arg (V : Type) where
  | given (v : V)
  /-- not passed: the function uses its default -/
  | dflt
deriving Repr, DecidableEq

/-- parameters from index `i` on, against the remaining positional arguments -/
def bindFrom {V : Type} (nreq : Nat) (kw : Env V) : Nat → List String → List V → Except Err (List (String × Arg V))
  | _, [], _ => .ok []
  | i, p :: ps, v :: vs =>
    match bindFrom nreq kw (i + 1) ps vs with
    | .ok r => .ok ((p, .given v) :: r)
    | .error e => .error e
  | i, p :: ps, [] =>
    match get? p kw with
    | some v =>
      match bindFrom nreq kw (i + 1) ps [] with
      | .ok r => .ok ((p, .given v) :: r)
      | .error e => .error e
    | none =>
      if i < nreq then .error (.typeError ("missing required argument " ++ p))
      else
        match bindFrom nreq kw (i + 1) ps [] with
        | .ok r => .ok ((p, .dflt) :: r)
        | .error e => .error e

/-- `f(*pos, **kw)` for a function with the plain parameter list `d.params` -/
def bind {V : Type} (d : Decl) (pos : List V) (kw : Env V) : Except Err (List (String × Arg V)) :=
  if d.params.length < pos.length then .error (.typeError "too many positional arguments")
  else
    match (keys kw).find? (fun k => !d.params.contains k) with
    | some k => .error (.typeError ("unexpected keyword argument " ++ k))
    | none =>
      match (d.params.take pos.length).find? (fun p => has p kw) with
      | some p => .error (.typeError ("multiple values for argument " ++ p))
      | none => bindFrom (d.params.length - d.ndefaults) kw 0 d.params pos

/-- what the undecorated function is called with -/
structure Call (V : Type) where
  fn : String
  pos : List V
  kw : Env V
  bound : List (String × Arg V)

/-- `f(*pos, layer_to_inject=layer, **kw)` for a decorated `f` -/
def layerCall {V : Type} (d : Decl) (pos : List V) (kw : Env V) (layer : LayerArg V) : Except Err (Call V) :=
  match inject d layer kw with
  | .error e => .error e
  | .ok kw' =>
    match bind d pos kw' with
    | .error e => .error e
    | .ok b => .ok ⟨d.name, pos, kw', b⟩

/-! ## `Layer.permittivity(i, frequency)` -/

/-- an entry of `permittivity_model` -/
inductive Perm (V : Type) where
  /-- not callable: a value independent of the frequency -/
  | const (v : V)
  /-- a function decorated with `layer_properties` -/
  | decorated (d : Decl)
  /-- another callable: it is given the keyword `layer_to_inject`, which it does not know -/
  | plain (name : String)

inductive Outcome (V : Type) where
  | value (v : V)
  | call (c : Call V)

def layerPermittivity {V : Type} (pm : Option (List (Perm V))) (attrs : Env V) (i : Int) (frequency : V) :
    Except Err (Outcome V) :=
  match pm with
  | none => .error (.typeError "object of type 'NoneType' has no len()")   -- the assert evaluates `len(None)` first
  | some l =>
    if i < 0 ∨ (l.length : Int) ≤ i then .error .assertion
    else
      match l[i.toNat]? with
      | none => .error .assertion
      | some (.const v) => .ok (.value v)
      | some (.decorated d) =>
        match layerCall d [frequency] [] (.layer attrs) with
        | .ok c => .ok (.call c)
        | .error e => .error e
      | some (.plain _) => .error (.typeError "unexpected keyword argument 'layer_to_inject'")

/-! ## `AdjustableEffectivePermittivityMixins.effective_permittivity` -/

/-- `args = {k: v for k, v in dict(e0=…, eps=…, frequency=…).items() if k in signature}` then
    `effective_permittivity_model(layer_to_inject=self.layer, **args)` -/
def effectivePermittivity {V : Type} (d : Decl) (attrs : Env V) (avail : Env V) : Except Err (Call V) :=
  layerCall d [] (avail.filter (fun kv => d.params.contains kv.1)) (.layer attrs)

/-- `if eps.imag < -1e-10: raise SMRTError` -/
def checkPassive {α : Type} [LT α] [DecidableLT α] [Neg α] [OfScientific α] (im : α) : Except Err Unit :=
  if im < -(1e-10 : α) then .error .smrtError else .ok ()

end Smrt.Inject
