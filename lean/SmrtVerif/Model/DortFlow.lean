/-
  Control flow of `DORT.dort` / `dort_modem_banded` when the layer eigen-solver fails, the decision logic of
  `EigenValueSolver.validate_eigen`, and the pruning criterion (`prune_deep_snowpack`).

  Arrays are abstracted to "is this entry NaN": in active mode the emerging-intensity matrix has four classes of entries
  (scattered polarisation V/H or U) × (incident polarisation V/H or U), uniform over the streams; in passive mode one.
-/
import SmrtVerif.Model.Basic

namespace Smrt.Flow

inductive Handling where
  | nan | exception
deriving Repr, BEq, DecidableEq

/-- a place where `EigenValueSolver.solve` is called: layer, azimuth mode, total or coherent-only pass -/
structure Site where
  l : Nat
  m : Nat
  coh : Bool
deriving Repr, BEq, DecidableEq

/-- which classes of entries are NaN: (V/H rows, V/H columns), (V/H, U), (U, V/H), (U, U) -/
structure Mask where
  vhvh : Bool
  vhu : Bool
  uvh : Bool
  uu : Bool
deriving Repr, BEq, DecidableEq

def Mask.finite : Mask := ⟨false, false, false, false⟩
def Mask.allNaN : Mask := ⟨true, true, true, true⟩
def Mask.or (a b : Mask) : Mask := ⟨a.vhvh || b.vhvh, a.vhu || b.vhu, a.uvh || b.uvh, a.uu || b.uu⟩

inductive Outcome where
  | raised              -- SMRTError propagates to the caller
  | values (mask : Mask)
deriving Repr, BEq, DecidableEq

/-- one call of `dort_modem_banded`: the layers are visited in order; the first failing layer either raises or makes
    the call return an all-NaN array of the shape of the incident intensity -/
def modemPass (L : Nat) (fail : Site → Bool) (h : Handling) (m : Nat) (coh : Bool) : Except Unit Bool :=
  if (List.range L).any (fun l => fail ⟨l, m, coh⟩) then
    (match h with | .nan => .ok true | .exception => .error ())
  else .ok false

/-- the mode loop of `dort`: total pass, minus the coherent-only pass in active mode, then recomposition; when the
    mode's solution is NaN (solver failure under `error_handling='nan'`) the whole result is set to NaN and the loop ends -/
def modeLoop (active : Bool) (mmax L : Nat) (fail : Site → Bool) (h : Handling) : Outcome :=
  let rec go (ms : List Nat) (acc : Mask) : Outcome :=
    match ms with
    | [] => .values acc
    | m :: rest =>
      match modemPass L fail h m false with
      | .error _ => .raised
      | .ok n1 =>
        let coherent := if active then modemPass L fail h m true else .ok false
        match coherent with
        | .error _ => .raised
        | .ok n2 =>
          -- a NaN mode makes every component NaN and ends the loop (the next modes are not computed)
          if n1 || n2 then .values .allNaN else go rest acc
  go (List.range ((if active then mmax else 0) + 1)) .finite

/-! ### `validate_eigen` -/
section
variable {α : Type} [Mul α] [OfScientific α] [OfNat α 0] [BEq α] [LE α] [DecidableRel (fun a b : α => a ≤ b)]

/-- `not np.allclose(x, 0, atol=a)`: numpy's `isclose` is `(|x| ≤ a) or (x == 0)`, so some entry that is neither within
    the tolerance nor exactly zero (NaN and inf included; an exact zero passes even when the tolerance is NaN or negative) -/
def notAllClose (absx : List α) (atol : α) : Bool := absx.any (fun v => ! decide (v ≤ atol) && ! (v == 0))

/-- does `validate_eigen` raise?  `maxRe` = `np.max(beta.real)`, the lists hold `|Im β|` and `|Im E|` -/
def eigenRejected (maxRe : α) (absImBeta absImE : List α) : Bool :=
  notAllClose absImBeta (maxRe * 1e-07) || notAllClose absImE 1e-6

end

/-! ### pruning -/
section
variable {α : Type} [Add α] [Mul α] [OfNat α 0] [LT α] [DecidableRel (fun a b : α => a < b)]

/-- number of layers kept: the loop breaks after the first layer at which the accumulated `min|β|·thickness`
    exceeds the threshold -/
def keptLayers (tau : α) : List α → α → Nat
  | [], _ => 0
  | od :: rest, acc => if tau < acc + od then 1 else 1 + keptLayers tau rest (acc + od)

end
end Smrt.Flow
