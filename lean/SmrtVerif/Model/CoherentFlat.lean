/-
  `smrt/interface/coherent_flat.py` `CoherentFlat`: a thin slab (permittivity `es`, thickness `d`) between medium 0
  (`e0`, incidence cosine `mu`) and medium t (`et`), collapsed into one pseudo-interface (Tsang I, Eq. 5.2.10-14).
  The model mirrors the code, including the clamp `np.maximum(mu_1, 1e-4)` and the statement
  `phase[incoherent].real = 0`, which assigns to a temporary copy and therefore has no effect.
  The code asserts `phase.imag >= 0`, which holds whenever `Im es ≥ 0` (`mu_1 ≥ 0` by construction).
-/
import SmrtVerif.Model.Interface

namespace Smrt.Iface.Coherent
open Smrt Smrt.Fresnel Smrt.Iface

section
variable {α : Type} [Add α] [Sub α] [Mul α] [Div α] [Neg α] [OfNat α 0] [OfNat α 1] [OfScientific α]
  [LT α] [DecidableRel (α := α) (· < ·)] [Transc α]

/-- `np.exp(z)` for complex `z` -/
def cexp (z : Cx α) : Cx α := ⟨Transc.exp z.re * Transc.cos z.im, Transc.exp z.re * Transc.sin z.im⟩

/-- cosine in the slab, `mu_1` of `fresnel_coefficients(eps_0, eps_1, mu_0)` -/
def muSlab (e0 es : Cx α) (mu : α) : α := mu2 e0 es mu
/-- `np.maximum(mu_1, 1e-4)` -/
def muClamped (e0 es : Cx α) (mu : α) : α := if muSlab e0 es mu < 1e-4 then 1e-4 else muSlab e0 es mu

/-- `phase = k_1 * mu_1 * thickness`, `k_1 = 2 * np.pi / C_SPEED * frequency * np.sqrt(eps_1)` -/
def phase (f : α) (e0 es : Cx α) (d mu : α) : Cx α :=
  Cx.smul d (Cx.smul (muSlab e0 es mu) (Cx.smul (2.0 * pi / cSpeed * f) (csqrt es)))

/-- `np.exp(1j * phase)` and `np.exp(2j * phase)` -/
def expKd (f : α) (e0 es : Cx α) (d mu : α) : Cx α :=
  let p := phase f e0 es d mu
  cexp ⟨-p.im, p.re⟩
def exp2Kd (f : α) (e0 es : Cx α) (d mu : α) : Cx α :=
  let p := phase f e0 es d mu
  cexp ⟨-(2.0 * p.im), 2.0 * p.re⟩

def one : Cx α := Cx.ofReal 1

/-- `(R01 + R1t * exp_2kd) / (1 + R01 * R1t * exp_2kd)` -/
def slabR (r01 r1t e2kd : Cx α) : Cx α := (r01 + r1t * e2kd) / ((one : Cx α) + r01 * r1t * e2kd)
/-- `(1 + R01) * (1 + R1t) * exp_kd / (1 + R01 * R1t * exp_2kd)` -/
def slabT (r01 r1t ekd e2kd : Cx α) : Cx α := (((one : Cx α) + r01) * ((one : Cx α) + r1t) * ekd) / ((one : Cx α) + r01 * r1t * e2kd)

def Rv (f : α) (e0 es et : Cx α) (d mu : α) : Cx α :=
  slabR (rv e0 es mu) (rv es et (muClamped e0 es mu)) (exp2Kd f e0 es d mu)
def Rh (f : α) (e0 es et : Cx α) (d mu : α) : Cx α :=
  slabR (rh e0 es mu) (rh es et (muClamped e0 es mu)) (exp2Kd f e0 es d mu)
def Tvc (f : α) (e0 es et : Cx α) (d mu : α) : Cx α :=
  slabT (rv e0 es mu) (rv es et (muClamped e0 es mu)) (expKd f e0 es d mu) (exp2Kd f e0 es d mu)
def Thc (f : α) (e0 es et : Cx α) (d mu : α) : Cx α :=
  slabT (rh e0 es mu) (rh es et (muClamped e0 es mu)) (expKd f e0 es d mu) (exp2Kd f e0 es d mu)

/-- `mu_t` of the second call -/
def muT (e0 es et : Cx α) (mu : α) : α := mu2 es et (muClamped e0 es mu)
/-- `nt = np.sqrt(eps_2 / eps_1).real` (the arguments of the method: medium t over medium 0) -/
def nt (e0 et : Cx α) : α := (csqrt (et / e0)).re

def specV (f : α) (e0 es et : Cx α) (d mu : α) : α := (Rv f e0 es et d mu).abs2
def specH (f : α) (e0 es et : Cx α) (d mu : α) : α := (Rh f e0 es et d mu).abs2
def transV (f : α) (e0 es et : Cx α) (d mu : α) : α := (Tvc f e0 es et d mu).abs2 * muT e0 es et mu / mu / nt e0 et
def transH (f : α) (e0 es et : Cx α) (d mu : α) : α := (Thc f e0 es et d mu).abs2 * muT e0 es et mu / mu * nt e0 et

def spec (f : α) (e0 es et : Cx α) (d mu : α) (npol : Nat) : List α :=
  [specV f e0 es et d mu, specH f e0 es et d mu]
    ++ third npol ((Rv f e0 es et d mu * (Rh f e0 es et d mu).conj).re)
def trans (f : α) (e0 es et : Cx α) (d mu : α) (npol : Nat) : List α :=
  [transV f e0 es et d mu, transH f e0 es et d mu]
    ++ third npol (muT e0 es et mu / mu * (((one : Cx α) + Rv f e0 es et d mu) * ((one : Cx α) + Rh f e0 es et d mu).conj).re)

end
end Smrt.Iface.Coherent
