/-
  Shared scalar layer of the SMRT model.  Core Lean only (no Mathlib), so that drivers start fast.

  Everything numeric in the model is polymorphic in the scalar type through *core* classes
  (`Add`, `Sub`, `Mul`, `Div`, `Neg`, `OfNat _ 0/1`, `OfScientific`) plus the small class `Transc`
  below for the transcendental functions.  The same definition is evaluated on `Float` by the
  drivers and proved about at `ℝ` in `SmrtVerif/Proofs` and `SmrtVerif/Props`.
-/

namespace Smrt

/-- transcendental functions used by the formulas of SMRT (numpy's `sqrt exp log cos sin arctan`). -/
class Transc (α : Type) where
  sqrt : α → α
  exp  : α → α
  log  : α → α
  cos  : α → α
  sin  : α → α
  atan : α → α

instance : Transc Float where
  sqrt := Float.sqrt
  exp  := Float.exp
  log  := Float.log
  cos  := Float.cos
  sin  := Float.sin
  atan := Float.atan

instance : NatCast Float := ⟨Float.ofNat⟩

/-- sum of `f 0 … f (n-1)` in the order a Python `for k in range(n)` loop accumulates it. -/
def sumN {α : Type} [Add α] [OfNat α 0] (n : Nat) (f : Nat → α) : α :=
  (List.range n).foldl (fun acc k => acc + f k) 0

/-- Complex numbers as a pair (numpy `complex128` in the drivers, `ℝ × ℝ` in the proofs). -/
structure Cx (α : Type) where
  re : α
  im : α
deriving Repr, BEq, Inhabited

namespace Cx
variable {α : Type}

def ofReal [OfNat α 0] (x : α) : Cx α := ⟨x, 0⟩
def add [Add α] (a b : Cx α) : Cx α := ⟨a.re + b.re, a.im + b.im⟩
def sub [Sub α] (a b : Cx α) : Cx α := ⟨a.re - b.re, a.im - b.im⟩
def neg [Neg α] (a : Cx α) : Cx α := ⟨-a.re, -a.im⟩
def mul [Add α] [Sub α] [Mul α] (a b : Cx α) : Cx α :=
  ⟨a.re * b.re - a.im * b.im, a.re * b.im + a.im * b.re⟩
def smul [Mul α] (s : α) (a : Cx α) : Cx α := ⟨s * a.re, s * a.im⟩
def conj [Neg α] (a : Cx α) : Cx α := ⟨a.re, -a.im⟩
/-- squared modulus: `smrt.core.lib.abs2` -/
def abs2 [Add α] [Mul α] (a : Cx α) : α := a.re * a.re + a.im * a.im
/-- textbook complex division (numpy uses Smith's algorithm; the difference is rounding only). -/
def div [Add α] [Sub α] [Mul α] [Div α] (a b : Cx α) : Cx α :=
  let d := b.re * b.re + b.im * b.im
  ⟨(a.re * b.re + a.im * b.im) / d, (a.im * b.re - a.re * b.im) / d⟩

instance [Add α] : Add (Cx α) := ⟨add⟩
instance [Sub α] : Sub (Cx α) := ⟨sub⟩
instance [Neg α] : Neg (Cx α) := ⟨neg⟩
instance [Add α] [Sub α] [Mul α] : Mul (Cx α) := ⟨mul⟩
instance [Add α] [Sub α] [Mul α] [Div α] : Div (Cx α) := ⟨div⟩

/-- Principal square root, numpy branch (`Re ≥ 0`, sign of `Im` follows the sign of `Im z`,
    and `sqrt(-x) = +i sqrt x` for a negative real with `+0` imaginary part). Executable formula;
    proofs only use its specification `w*w = z ∧ 0 ≤ w.re`. -/
def sqrt [Add α] [Sub α] [Mul α] [Div α] [Neg α] [OfNat α 0] [OfNat α 2] [LT α]
    [DecidableRel (α := α) (· < ·)] [Transc α] (z : Cx α) : Cx α :=
  let m := Transc.sqrt (z.re * z.re + z.im * z.im)
  let a := Transc.sqrt ((m + z.re) / 2)
  let b := Transc.sqrt ((m - z.re) / 2)
  ⟨a, if z.im < 0 then -b else b⟩

end Cx

end Smrt
