/-
  L3 — the boundary-condition system of the discrete-ordinate solver: `DORT.dort_modem_banded` of
  `smrt/rtsolver/dort.py`, for one azimuth mode.

  Inputs of the model are what the code has in hand when it starts assembling: per layer the stream count, thickness,
  temperature, the eigen-solution `(β, Eu, Ed)` of the layer and the four interface matrices seen from inside the
  layer (already combined and compressed: scalar 0 | `smrt_diag` | 2-d array); the two air-side matrices; the
  substrate temperature; the incident intensity.  Outputs: the dense matrix the banded storage stands for
  (`sysEntry`), the right-hand side (`rhsEntry`) and, given a solution `x`, the emerging intensity (`emerging`).
-/
import SmrtVerif.Model.Container

namespace Smrt.Dort
open Smrt

structure DLayer (α : Type) where
  n : Nat                 -- number of streams in the layer
  d : α                   -- thickness
  temp : α                -- temperature (passive mode)
  beta : Nat → α          -- 2·n·npol eigenvalues
  eu : Mat α              -- (n·npol) × (2·n·npol), upwelling part of the eigenvectors
  ed : Mat α              -- downwelling part
  rtop : CV α             -- interfaces.reflection_top(l)
  rbot : CV α             -- interfaces.reflection_bottom(l)
  ttop : CV α             -- interfaces.transmission_top(l): upward, into layer l-1 (or the air for l = 0)
  tbot : CV α             -- interfaces.transmission_bottom(l): downward, into layer l+1 (substrate emissivity for the last)

structure DStack (α : Type) where
  npol : Nat
  L : Nat                 -- number of layers (after pruning: layers kept)
  lay : Nat → DLayer α
  nAir : Nat
  nSub : Nat
  tbotAir : CV α          -- interfaces.transmission_bottom(-1): air → layer 0
  rbotAir : CV α          -- interfaces.reflection_bottom(-1): air side of the surface
  passive : Bool          -- `self.temperature is not None`
  hasSubTemp : Bool       -- substrate present with a temperature
  tsub : α
  nvec : Nat
  idown : Mat α           -- intensity_down_m, (nAir·npol) × nvec
  mode0 : Bool            -- m == 0

section
variable {α : Type} [Add α] [Sub α] [Mul α] [Neg α] [OfNat α 0] [OfNat α 1] [LT α]
  [DecidableRel (fun a b : α => a < b)] [Transc α]

/-- `np.exp(-np.maximum(beta, 0) * thickness)` -/
def transt (ly : DLayer α) : Nat → α :=
  fun j => Transc.exp (-(if (0 : α) < ly.beta j then ly.beta j else 0) * ly.d)
/-- `np.exp(np.minimum(beta, 0) * thickness)` -/
def transb (ly : DLayer α) : Nat → α :=
  fun j => Transc.exp ((if ly.beta j < (0 : α) then ly.beta j else 0) * ly.d)

/-- is a compressed value identically zero (`is_equal_zero`)?  Only used to decide whether a block is written;
    writing an all-zero block and writing nothing give the same system. -/
def cvRows (npolRows : Nat) : CV α → Nat
  | .zero => npolRows | .diag d => d.n | .dense m => m.r

/-- `R @ E` for a compressed `R` and a dense `E` (entries; shape of `E`) -/
def cvMulMat (R : CV α) (E : Mat α) : Nat → Nat → α :=
  match R with
  | .zero => fun _ _ => 0
  | .diag d => fun i j => E.f i j * d.d i
  | .dense m => fun i j => sumN m.c (fun k => m.f i k * E.f k j)

/-- `matmul(Ed - matmul(Rtop, Eu), transt)`: the block of layer `l` in its own top rows -/
def topBlock (ly : DLayer α) : Nat → Nat → α :=
  fun i j => (ly.ed.f i j - cvMulMat ly.rtop ly.eu i j) * transt ly j

/-- `matmul(Eu - matmul(Rbottom, Ed), transb)`: the block of layer `l` in its own bottom rows -/
def botBlock (ly : DLayer α) : Nat → Nat → α :=
  fun i j => (ly.eu.f i j - cvMulMat ly.rbot ly.ed i j) * transb ly j

/-- `-matmul(Tbottom, Ed, transb)`: what layer `l` sends down into the top rows of layer `l+1` -/
def downBlock (ly : DLayer α) : Nat → Nat → α :=
  fun i j => - cvMulMat ly.tbot ⟨ly.ed.r, ly.ed.c, fun a b => ly.ed.f a b * transb ly b⟩ i j

/-- `-matmul(Ttop, Eu, transt)`: what layer `l` sends up into the bottom rows of layer `l-1` -/
def upBlock (ly : DLayer α) : Nat → Nat → α :=
  fun i j => - cvMulMat ly.ttop ⟨ly.eu.r, ly.eu.c, fun a b => ly.eu.f a b * transt ly b⟩ i j

variable (S : DStack α)

def nsList : List Nat := (List.range S.L).map (fun l => (S.lay l).n)
/-- first row / column of layer `l` -/
def off (l : Nat) : Nat := jl S.npol (nsList S) l
/-- the layer whose rows (columns) contain index `r` -/
def layerOf (r : Nat) : Nat := ((List.range S.L).filter (fun l => off S l ≤ r)).length - 1

/-- rows kept of a coupling block: `min(T.shape[0], n_target · npol)` -/
def commonRows (T : CV α) (srcRows targetStreams : Nat) : Nat := min (cvRows srcRows T) (targetStreams * S.npol)

/-- entry `(r, c)` of the dense boundary-condition matrix -/
def sysEntry (r c : Nat) : α :=
  let lr := layerOf S r
  let lc := layerOf S c
  let nl := (S.lay lr).n * S.npol
  let i := r - off S lr
  let j := c - off S lc
  if i < nl then
    -- top rows of layer lr
    if lc = lr then topBlock (S.lay lr) i j
    else if lc + 1 = lr then
      (if i < commonRows S (S.lay lc).tbot ((S.lay lc).n * S.npol) (S.lay lr).n then downBlock (S.lay lc) i j else 0)
    else 0
  else
    -- bottom rows of layer lr
    let i' := i - nl
    if lc = lr then botBlock (S.lay lr) i' j
    else if lc = lr + 1 ∧ lc < S.L then
      (if i' < commonRows S (S.lay lc).ttop ((S.lay lc).n * S.npol) (S.lay lr).n then upBlock (S.lay lc) i' j else 0)
    else 0

/-- the guard `self.temperature[l] > 0` -/
def tempOf (l : Nat) : α := if (0 : α) < (S.lay l).temp then (S.lay l).temp else 0

/-- right-hand side in the top rows of layer `l` (local row `i`, column `v`); non-zero only for mode 0:
    own emission `-(1 - Rtop·1) T_l`, what the layer above emits downward through the interface
    `+(Tbottom(l-1)·1) T_{l-1}` (first `common` rows), and for the top layer the transmitted incident intensity -/
def rhsTop (l i v : Nat) : α :=
  let ly := S.lay l
  let nl := ly.n * S.npol
  let own : α := if S.passive && S.mode0 then - ((1 - CV.muleye nl ly.rtop i) * tempOf S l) else 0
  let fromAbove : α :=
    if l = 0 then
      (if i < commonRows S S.tbotAir (S.nAir * S.npol) ly.n then cvMulMat S.tbotAir S.idown i v else 0)
    else
      (if S.passive && S.mode0 then
        (if i < commonRows S (S.lay (l - 1)).tbot ((S.lay (l - 1)).n * S.npol) ly.n
          then CV.muleye ((S.lay (l - 1)).n * S.npol) (S.lay (l - 1)).tbot i * tempOf S (l - 1) else 0)
       else 0)
  own + fromAbove

/-- right-hand side in the bottom rows of layer `l`: own emission, emission of the layer below transmitted upward,
    or — for the last layer — the substrate emission -/
def rhsBot (l i v : Nat) : α :=
  let ly := S.lay l
  let nl := ly.n * S.npol
  let own : α := if S.passive && S.mode0 then - ((1 - CV.muleye nl ly.rbot i) * tempOf S l) else 0
  let fromBelow : α :=
    if l + 1 < S.L then
      (if S.passive && S.mode0 then
        (if i < commonRows S (S.lay (l + 1)).ttop ((S.lay (l + 1)).n * S.npol) ly.n
          then CV.muleye ((S.lay (l + 1)).n * S.npol) (S.lay (l + 1)).ttop i * tempOf S (l + 1) else 0)
       else 0)
    else
      (if S.passive && S.mode0 && S.hasSubTemp then
        (if i < commonRows S ly.tbot nl ly.n then CV.muleye nl ly.tbot i * S.tsub else 0)
       else 0)
  own + fromBelow

/-- entry `(r, v)` of the right-hand side -/
def rhsEntry (r v : Nat) : α :=
  let lr := layerOf S r
  let nl := (S.lay lr).n * S.npol
  let i := r - off S lr
  if i < nl then rhsTop S lr i v else rhsBot S lr (i - nl) v

/-- number of unknowns -/
def nUnknown : Nat := nboundary S.npol (nsList S)

/-- `Eu_0 @ transt_0 @ x[0 : 2 n₀ npol] (+ T₀)`: intensity just under the surface -/
def i1up (x : Nat → Nat → α) (i v : Nat) : α :=
  let l0 := S.lay 0
  sumN (2 * (l0.n * S.npol)) (fun k => l0.eu.f i k * transt l0 k * x k v)
    + (if S.passive && S.mode0 then tempOf S 0 else 0)

/-- the emerging intensity `matmul(Rbottom_air, I_down) + matmul(Ttop_0, I1up)[0 : n_air npol]` -/
def emerging (x : Nat → Nat → α) (i v : Nat) : α :=
  cvMulMat S.rbotAir S.idown i v
    + cvMulMat (S.lay 0).ttop ⟨(S.lay 0).n * S.npol, S.nvec, i1up S x⟩ i v

/-! ### the system in block form: one unknown vector per layer -/

/-- left-hand side of the top rows of layer `l` for unknowns `x l j v` (layer, eigen-index, column) -/
def lhsTop (x : Nat → Nat → Nat → α) (l i v : Nat) : α :=
  sumN (2 * ((S.lay l).n * S.npol)) (fun j => topBlock (S.lay l) i j * x l j v)
    + (if 0 < l then
        (if i < commonRows S (S.lay (l - 1)).tbot ((S.lay (l - 1)).n * S.npol) (S.lay l).n
          then sumN (2 * ((S.lay (l - 1)).n * S.npol)) (fun j => downBlock (S.lay (l - 1)) i j * x (l - 1) j v) else 0)
       else 0)

/-- left-hand side of the bottom rows of layer `l` -/
def lhsBot (x : Nat → Nat → Nat → α) (l i v : Nat) : α :=
  sumN (2 * ((S.lay l).n * S.npol)) (fun j => botBlock (S.lay l) i j * x l j v)
    + (if l + 1 < S.L then
        (if i < commonRows S (S.lay (l + 1)).ttop ((S.lay (l + 1)).n * S.npol) (S.lay l).n
          then sumN (2 * ((S.lay (l + 1)).n * S.npol)) (fun j => upBlock (S.lay (l + 1)) i j * x (l + 1) j v) else 0)
       else 0)

/-- `x` solves the boundary system (every row of every layer, every right-hand-side column) -/
def Solves (x : Nat → Nat → Nat → α) : Prop :=
  ∀ l, l < S.L → ∀ i, i < (S.lay l).n * S.npol → ∀ v,
    lhsTop S x l i v = rhsTop S l i v ∧ lhsBot S x l i v = rhsBot S l i v

/-- the emerging intensity from the unknowns of the top layer -/
def emergingB (x : Nat → Nat → Nat → α) (i v : Nat) : α := emerging S (x 0) i v

end
end Smrt.Dort
