/-
  L2 — stream directions: `compute_stream_gaussian`, `compute_weight`, `compute_outweight`,
  `compute_n_stream_substrate` of `smrt/rtsolver/dort.py`.  The Gauss–Legendre nodes of the most refringent layer are an
  input (scipy's `p_roots`, trusted); everything derived from them by Snell's law is modelled.
-/
import SmrtVerif.Model.Basic

namespace Smrt.Streams
section
variable {α : Type} [Add α] [Sub α] [Mul α] [Div α] [Neg α] [OfNat α 0] [OfNat α 1] [OfNat α 2] [OfScientific α] [LT α]
  [DecidableRel (fun a b : α => a < b)] [Transc α]

/-- `np.argmax` on a complex array: lexicographic order (real part, then imaginary part), first maximum -/
def argmaxCx (eps : List (Cx α)) : Nat :=
  let rec go (l : List (Cx α)) (i best : Nat) (b : Cx α) : Nat :=
    match l with
    | [] => best
    | e :: r => if b.re < e.re || (¬ (e.re < b.re) && b.im < e.im) then go r (i + 1) i e else go r (i + 1) best b
  match eps with
  | [] => 0
  | e :: r => go r 1 0 e

/-- `np.real(np.sqrt(a / b))` -/
def realIndex (a b : Cx α) : α := (Cx.sqrt (a / b)).re

/-- `relsin = real_index · sqrt(1 − μ_ref²)` -/
def relsin (idx : α) (muRef : α) : α := idx * Transc.sqrt (1 - muRef * muRef)

/-- the cosines retained in a medium of relative real index `idx`: those with `relsin < 1`, `μ = sqrt(1 − relsin²)` -/
def layerMu (idx : α) (muRef : List α) : List α :=
  (muRef.filter (fun m => relsin idx m < 1)).map (fun m => Transc.sqrt (1 - relsin idx m * relsin idx m))

/-- number of streams of the reference layer that propagate in the substrate -/
def nSubstrate (epsSub epsLast : Cx α) (muRef : List α) : Nat :=
  (muRef.filter (fun m => relsin (realIndex epsSub epsLast) m < 1)).length

end

section
variable {α : Type} [Add α] [Sub α] [Mul α] [OfScientific α] [OfNat α 1] [OfNat α 0] [LT α] [DecidableRel (fun a b : α => a < b)]

def absv [Neg α] (x : α) : α := if x < 0 then -x else x

/-- `compute_weight` for one layer (`abs` as in the code) and `compute_outweight` (no `abs`), for `n ≥ 2` cosines -/
def weights [Neg α] (useAbs : Bool) (mu : Nat → α) (n : Nat) : List α :=
  (List.range n).map (fun i =>
    if i = 0 then 1 - 0.5 * (mu 0 + mu 1)
    else if i = n - 1 then (if useAbs then absv (0.5 * (mu (n - 2) + mu (n - 1))) else 0.5 * (mu (n - 2) + mu (n - 1)))
    else (if useAbs then absv (0.5 * (mu (i - 1) - mu (i + 1))) else 0.5 * (mu (i - 1) - mu (i + 1))))
end
end Smrt.Streams
