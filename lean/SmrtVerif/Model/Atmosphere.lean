/-
  Non-scattering atmospheres: `smrt/atmosphere/simple_isotropic_atmosphere.py`, `smrt/atmosphere/simple_atmosphere.py`
  (`run`) and how `DORT.dort` composes their result with the surface intensity in passive mode.
-/
import SmrtVerif.Model.Basic

namespace Smrt.Atmosphere
section
variable {α : Type} [Add α] [Sub α] [Mul α] [Div α] [LT α] [DecidableRel (fun a b : α => a < b)]

/-- `np.repeat(x, npol)`: stream-major, polarisation-minor layout of the solver -/
def repeatPol (npol : Nat) (x : Nat → α) : Nat → α := fun r => x (r / npol)

/-- `np.interp(x, xp, fp)` on `n ≥ 1` ascending nodes: clamped at both ends, linear inside -/
def npInterp (n : Nat) (xp fp : Nat → α) (x : α) : α :=
  if ¬ (xp 0 < x) then fp 0                       -- x ≤ xp[0]
  else if ¬ (x < xp (n - 1)) then fp (n - 1)      -- x ≥ xp[-1]
  else
    -- j = last node with xp[j] ≤ x
    let j := ((List.range n).filter (fun i => ¬ (x < xp i))).length - 1
    (fp (j + 1) - fp j) / (xp (j + 1) - xp j) * (x - xp j) + fp j

/-- `SimpleIsotropicAtmosphere.run`: the same value in every stream and polarisation -/
def isoRun (value : α) : Nat → α := fun _ => value

/-- `SimpleAtmosphere.run` for one quantity: interpolate at the stream cosines, repeat per polarisation -/
def simpleRun (npol n : Nat) (xp fp : Nat → α) (costheta : Nat → α) : Nat → α :=
  repeatPol npol (fun s => npInterp n xp fp (costheta s))

/-- `intensity_up = tb_up + transmittance * intensity_up` -/
def compose (tbUp trans I : Nat → α) : Nat → α := fun r => tbUp r + trans r * I r

end
end Smrt.Atmosphere
