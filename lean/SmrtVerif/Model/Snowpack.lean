/-
  L5 — media bookkeeping: `smrt/core/snowpack.py` (`Snowpack` and its operators), `smrt/core/atmosphere.py`
  (`AtmosphereBase.__add__`), `smrt/inputs/make_medium.py` (`make_snowpack` argument handling,
  `add_transparent_layer`, `compute_thickness_from_z`, `SnowLayer.compute_frac_volumes`).

  Snowpack *objects* live in a heap (object identity = index): `+` creates objects, `+=`, `append`, `delete`,
  `delete_bottom` mutate one.  Layers, interfaces, substrates and atmospheres are values identified by a tag
  (their physical description); thicknesses are integers (a length unit small enough for the harness).
-/
namespace Smrt.Snow

inductive Err where
  | smrt        -- SMRTError
  | index       -- IndexError
  | assertion   -- AssertionError
deriving Repr, BEq, DecidableEq, Inhabited

def Err.name : Err → String
  | .smrt => "SMRTError" | .index => "IndexError" | .assertion => "AssertionError"

/-- interface kinds used by the harness (`Flat`, `Transparent`) -/
inductive IfKind where
  | flat | transparent
deriving Repr, BEq, DecidableEq, Inhabited

structure Layer where
  thickness : Int
  tag : Nat
deriving Repr, BEq, DecidableEq, Inhabited

structure SP where
  layers : List Layer := []
  ifaces : List IfKind := []
  substrate : Option Nat := none
  atmosphere : Option Nat := none
deriving Repr, BEq, DecidableEq, Inhabited

def SP.thickness (s : SP) : Int := (s.layers.map (·.thickness)).foldl (· + ·) 0
def SP.wellFormed (s : SP) : Prop := s.layers.length = s.ifaces.length

/-- `Snowpack.z`: depth of every interface, `0` and the bottom of each layer (`np.insert(np.cumsum(thickness), 0, 0)`); a view
    derived from the layers the medium holds *now* -/
def SP.z (s : SP) : List Int := (s.layers.map (·.thickness)).scanl (· + ·) 0
/-- `Snowpack.bottom_layer_depths` -/
def SP.bottomDepths (s : SP) : List Int := s.z.tail
/-- `Snowpack.top_layer_depths` -/
def SP.topDepths (s : SP) : List Int := s.z.dropLast

/-- the right operand of `+` / `+=` -/
inductive Operand where
  | sp (id : Nat)
  | layer (l : Layer)
  | substrate (tag : Nat)
  | atmosphere (tag : Nat)
  | zero
  | other          -- anything else (e.g. a string)
deriving Repr, BEq, DecidableEq, Inhabited

/-- how the `interface` argument of `make_snowpack` is given -/
inductive IfArg where
  | none                          -- default (Flat)
  | scalar (k : IfKind)
  | list (ks : List (Option IfKind))
deriving Repr, BEq, DecidableEq, Inhabited

inductive Op where
  /-- `make_snowpack(thickness, …, interface=…, surface=…, substrate=…, atmosphere=…)`; `tag0` numbers the layers,
      `nprop` is the length of a per-layer keyword array (or `none` for a scalar) -/
  | make (ths : List Int) (tag0 : Nat) (nprop : Option Nat) (iface : IfArg) (surface : Option IfKind)
         (substrate atmosphere : Option Nat)
  | append (sp : Nat) (l : Layer) (iface : Option IfKind)
  | delete (sp : Nat) (i : Nat)
  | deleteBottom (sp : Nat) (i : Nat)
  | copy (sp : Nat) (cut : Option Nat)
  | deepcopy (sp : Nat)
  | add (a b : Operand)
  | iadd (sp : Nat) (b : Operand)
deriving Repr, BEq, DecidableEq, Inhabited

abbrev World := List SP

/-- result of an operation: the id of the snowpack object it returns (new or existing), or an error -/
abbrev Res := Except Err Nat

def ifOf (k : Option IfKind) : IfKind := k.getD .flat   -- `make_interface(None)` is `Flat`

/-- the interface of layer `i`: `surface` if it is still pending, else `lib.get(interface, i)` -/
def ifaceFor (ifa : IfArg) (surface : Option IfKind) (i : Nat) : Except Err IfKind :=
  match surface with
  | some s => .ok s
  | none =>
    match ifa with
    | .none => .ok .flat
    | .scalar k => .ok k
    | .list ks => match ks[i]? with
      | some k => .ok (ifOf k)
      | none => .error .smrt        -- `lib.get`: "array too short"

/-- the layer loop of `make_snowpack` (`surface` is consumed by the first layer that is kept) -/
def makeLoop : List Int → Nat → Nat → IfArg → Option IfKind → SP → Except Err SP
  | [], _, _, _, _, sp => .ok sp
  | dz :: rest, i, tag, ifa, surface, sp =>
    if dz ≤ 0 then makeLoop rest (i + 1) (tag + 1) ifa surface sp
    else
      match ifaceFor ifa surface i with
      | .error e => .error e
      | .ok k =>
        makeLoop rest (i + 1) (tag + 1) ifa none
          { sp with layers := sp.layers ++ [⟨dz, tag⟩], ifaces := sp.ifaces ++ [k] }

/-- tag of the transparent zero-thickness layer that `add_transparent_layer` inserts -/
def transparentTag : Nat := 999999

def makeSnowpack (ths : List Int) (tag0 : Nat) (nprop : Option Nat) (ifa : IfArg) (surface : Option IfKind)
    (substrate atmosphere : Option Nat) : Except Err SP :=
  -- `check_argument_size` of the per-layer keyword arrays and of the interface list
  if (match nprop with | some n => n != ths.length | none => false) then .error .smrt
  else if (match ifa with | .list ks => ks.length != ths.length | _ => false) then .error .smrt
  else if surface.isSome && (match ifa with | .list _ => true | _ => false) then .error .smrt
  else
    match makeLoop ths 0 tag0 ifa surface { substrate := substrate, atmosphere := atmosphere } with
    | .error e => .error e
    | .ok sp =>
      if sp.layers.isEmpty then
        .ok { sp with layers := [⟨0, transparentTag⟩], ifaces := [.transparent] }
      else .ok sp

/-- `check_addition_validity(self, other)` where `other` is already resolved -/
def checkAdd (self : SP) : Operand → World → Except Err Unit
  | .layer _, _ => .ok ()
  | .substrate _, _ => if self.substrate.isSome then .error .smrt else .ok ()
  | .atmosphere _, _ => .error .smrt
  | .sp id, w =>
    match w[id]? with
    | none => .error .smrt
    | some o =>
      if self.substrate.isSome then .error .smrt
      else if o.atmosphere.isSome then .error .smrt
      else .ok ()
  | .zero, _ => .error .smrt       -- `0` has no `layers` attribute (only reached by `+=`)
  | .other, _ => .error .smrt

/-- `self + other` for a snowpack `self` (object `a`) -/
def addSP (w : World) (a : Nat) (self : SP) (b : Operand) : World × Res :=
  match b with
  | .zero => (w, .ok a)                                   -- `if other == 0: return self`
  | _ =>
    match checkAdd self b w with
    | .error e => (w, .error e)
    | .ok () =>
      match b with
      | .substrate t => (w ++ [{ self with substrate := some t }], .ok w.length)
      | .layer l =>
        -- the bottom interface is duplicated (a flat one if the snowpack has no layer)
        let k := self.ifaces.getLast?.getD .flat
        (w ++ [{ self with layers := self.layers ++ [l], ifaces := self.ifaces ++ [k] }], .ok w.length)
      | .sp id =>
        match w[id]? with
        | none => (w, .error .smrt)
        | some o =>
          (w ++ [{ layers := self.layers ++ o.layers, ifaces := self.ifaces ++ o.ifaces,
                   substrate := o.substrate, atmosphere := self.atmosphere }], .ok w.length)
      | _ => (w, .error .smrt)

def step (w : World) : Op → World × Res
  | .make ths tag0 nprop ifa surface sub atm =>
    match makeSnowpack ths tag0 nprop ifa surface sub atm with
    | .error e => (w, .error e)
    | .ok sp => (w ++ [sp], .ok w.length)
  | .append id l k =>
    match w[id]? with
    | none => (w, .error .index)
    | some s => (w.set id { s with layers := s.layers ++ [l], ifaces := s.ifaces ++ [ifOf k] }, .ok id)
  | .delete id i =>
    match w[id]? with
    | none => (w, .error .index)
    | some s =>
      if i < s.layers.length then
        (w.set id { s with layers := s.layers.eraseIdx i, ifaces := s.ifaces.eraseIdx i }, .ok id)
      else (w, .error .index)
  | .deleteBottom id i =>
    match w[id]? with
    | none => (w, .error .index)
    | some s =>
      if i < s.layers.length then
        (w.set id { s with layers := s.layers.take i, ifaces := s.ifaces.take i, substrate := none }, .ok id)
      else (w, .error .assertion)
  | .copy id cut =>
    match w[id]? with
    | none => (w, .error .index)
    | some s =>
      match cut with
      | none => (w ++ [s], .ok w.length)
      | some c =>
        if c < s.layers.length then
          (w ++ [{ s with layers := s.layers.take c, ifaces := s.ifaces.take c, substrate := none }], .ok w.length)
        else (w, .error .assertion)
  | .deepcopy id =>
    match w[id]? with
    | none => (w, .error .index)
    | some s => (w ++ [s], .ok w.length)
  | .add a b =>
    match a with
    | .sp id =>
      match w[id]? with
      | none => (w, .error .index)
      | some self => addSP w id self b
    | .layer l =>                                       -- `layer + snowpack` → `Snowpack.__radd__`
      match b with
      | .sp id =>
        match w[id]? with
        | none => (w, .error .index)
        | some s =>
          let k := s.ifaces.head?.getD .flat               -- the top interface is duplicated
          (w ++ [{ s with layers := l :: s.layers, ifaces := k :: s.ifaces }], .ok w.length)
      | _ => (w, .error .smrt)
    | .zero =>                                           -- `0 + snowpack` returns the snowpack itself (used by `sum`)
      match b with
      | .sp id => if id < w.length then (w, .ok id) else (w, .error .index)
      | _ => (w, .error .smrt)
    | .atmosphere t =>                                   -- `AtmosphereBase.__add__`
      match b with
      | .sp id =>
        match w[id]? with
        | none => (w, .error .index)
        | some s => (w ++ [{ s with atmosphere := some t }], .ok w.length)
      | _ => (w, .error .smrt)
    | .substrate _ => (w, .error .smrt)                  -- `SubstrateBase.__add__` always raises
    | .other => (w, .error .smrt)
  | .iadd id b =>
    match w[id]? with
    | none => (w, .error .index)
    | some self =>
      match checkAdd self b w with
      | .error e => (w, .error e)
      | .ok () =>
        match b with
        | .substrate t => (w.set id { self with substrate := some t }, .ok id)
        | .layer l =>
          let k := self.ifaces.getLast?.getD .flat
          (w.set id { self with layers := self.layers ++ [l], ifaces := self.ifaces ++ [k] }, .ok id)
        | .sp oid =>
          match w[oid]? with
          | none => (w, .error .smrt)
          | some o =>
            (w.set id { self with layers := self.layers ++ o.layers, ifaces := self.ifaces ++ o.ifaces,
                                   substrate := o.substrate }, .ok id)
        | _ => (w, .error .smrt)

def run (w : World) (ops : List Op) : World := ops.foldl (fun w op => (step w op).1) w

/-! ### depth → thickness (`compute_thickness_from_z`), on exact (integer) depths -/

def diffs : List Int → List Int
  | a :: b :: rest => (b - a) :: diffs (b :: rest)
  | _ => []

/-- the three documented conventions; anything else is refused -/
def thicknessFromZ (z : List Int) : Except Err (List Int) :=
  if z.any (· == 0) then .error .smrt
  else if (diffs z).all (· < 0) then
    -- descending
    (if z.all (· > 0) then .ok (diffs ((z ++ [0]).map (fun x => -x)))          -- heights above the ground
     else if z.all (· < 0) then .ok (diffs ((0 :: z).map (fun x => -x)))        -- elevations below the surface
     else .error .smrt)
  else if (diffs z).all (· > 0) then
    -- ascending
    (if z.all (· > 0) then .ok (diffs (0 :: z))                                  -- depths below the surface
     else .error .smrt)
  else .error .smrt

end Smrt.Snow

namespace Smrt
/-! ### volume fractions of a snow layer (`SnowLayer.compute_frac_volumes`) -/
section
variable {α : Type} [Add α] [Sub α] [Mul α] [Div α] [OfNat α 1] [OfNat α 0]

/-- `(frac_volume, liquid_water)` from density and volumetric liquid water -/
def fracVolumesVLW (ρi ρw ρ vlw : α) : α × α :=
  let f := (ρ - (ρw - ρi) * vlw) / ρi
  (f, vlw / f)

/-- `frac_volume` from density and the liquid fraction of the ice+water phase -/
def fracVolumeLW (ρi ρw ρ lw : α) : α := ρ / (ρi * (1 - lw) + ρw * lw)
end

section
variable {α : Type} [Add α] [Sub α] [Mul α] [Div α] [OfNat α 1] [OfNat α 0] [OfScientific α] [LT α] [LE α]
  [DecidableRel (fun a b : α => a < b)] [DecidableRel (fun a b : α => a ≤ b)]

/-- the rounding clamp of `compute_frac_volumes`: `if 1 < frac_volume < 1.01: frac_volume = 1` - a value a hair *above* one is one,
    anything else is left as it is -/
def clampFrac (f : α) : α := if 1 < f ∧ f < 1.01 then 1 else f

/-- the whole of `SnowLayer.compute_frac_volumes` (either form): clamp, then the two range assertions (`none` = AssertionError) -/
def computeFracVolumes (f lw : α) : Option (α × α) :=
  let f' := clampFrac f
  if 0 ≤ f' ∧ f' ≤ 1 then (if 0 ≤ lw ∧ lw ≤ 1 then some (f', lw) else none) else none

def computeFracVLW (ρi ρw ρ vlw : α) : Option (α × α) :=
  computeFracVolumes (fracVolumesVLW ρi ρw ρ vlw).1 (fracVolumesVLW ρi ρw ρ vlw).2

def computeFracLW (ρi ρw ρ lw : α) : Option (α × α) := computeFracVolumes (fracVolumeLW ρi ρw ρ lw) lw
end
end Smrt
