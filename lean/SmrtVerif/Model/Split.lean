/-
  Splitting a homogeneous layer (C04): the stack in which layer `k` is replaced by two layers with the same material,
  eigen-solution and temperature, thicknesses `d₁ + d₂`, separated by an interface between identical media (zero
  reflection, unit transmission — what `Flat` between equal permittivities and `Transparent` return), and the solution
  of the split system built from a solution of the original one.
-/
import SmrtVerif.Model.Dort

namespace Smrt.Dort
section
variable {α : Type} [Add α] [Sub α] [Mul α] [Neg α] [OfNat α 0] [OfNat α 1] [LT α]
  [DecidableRel (fun a b : α => a < b)] [Transc α]

/-- the zero-reflection and unit-transmission matrices of an interface between identical media -/
def zeroDiag (n : Nat) : CV α := .diag ⟨n, fun _ => 0⟩
def oneDiag (n : Nat) : CV α := .diag ⟨n, fun _ => 1⟩

def upperHalf (S : DStack α) (k : Nat) (d1 : α) : DLayer α :=
  { S.lay k with d := d1, rbot := zeroDiag ((S.lay k).n * S.npol), tbot := oneDiag ((S.lay k).n * S.npol) }
def lowerHalf (S : DStack α) (k : Nat) (d2 : α) : DLayer α :=
  { S.lay k with d := d2, rtop := zeroDiag ((S.lay k).n * S.npol), ttop := oneDiag ((S.lay k).n * S.npol) }

/-- the stack with layer `k` split into two -/
def splitStack (S : DStack α) (k : Nat) (d1 d2 : α) : DStack α :=
  { S with L := S.L + 1,
           lay := fun l => if l < k then S.lay l else if l = k then upperHalf S k d1
                           else if l = k + 1 then lowerHalf S k d2 else S.lay (l - 1) }

/-- the unknowns of the split system from unknowns of the original one: amplitudes referenced at the bottom
    (`β > 0`) are attenuated through the lower part in the upper half, those referenced at the top (`β < 0`) through
    the upper part in the lower half -/
def splitSol (S : DStack α) (k : Nat) (d1 d2 : α) (x : Nat → Nat → Nat → α) : Nat → Nat → Nat → α :=
  fun l j v =>
    if l < k then x l j v
    else if l = k then x k j v * (if (0 : α) < (S.lay k).beta j then Transc.exp (-((S.lay k).beta j) * d2) else 1)
    else if l = k + 1 then x k j v * (if (S.lay k).beta j < (0 : α) then Transc.exp ((S.lay k).beta j * d1) else 1)
    else x (l - 1) j v

end
end Smrt.Dort
